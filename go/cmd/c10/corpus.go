package main

// The W3C toRdf tests shipped in /repo as a corpus: every positive evaluation test whose input the
// model places inside the fragment is decoded by the implementation and by the model and compared.

import (
	"archive/tar"
	"compress/gzip"
	"encoding/json"
	"fmt"
	"io"
	"os"
	"path/filepath"
	"sort"
	"strings"

	"verifharness/vh"

	"github.com/dpb587/rdfkit-go/rdf"
)

const w3cPrefix = "https://w3c.github.io/json-ld-api/tests/"

type w3cTest struct {
	ID     string   `json:"@id"`
	Type   []string `json:"@type"`
	Input  string   `json:"input"`
	Expect string   `json:"expect"`
	Option struct {
		Base                  string `json:"base"`
		ProcessingMode        string `json:"processingMode"`
		SpecVersion           string `json:"specVersion"`
		ExpandContext         string `json:"expandContext"`
		ProduceGeneralizedRdf bool   `json:"produceGeneralizedRdf"`
		RDFDirection          string `json:"rdfDirection"`
		UseJCS                bool   `json:"useJCS"`
	} `json:"option"`
}

func loadW3C() (map[string][]byte, []w3cTest, error) {
	f, err := os.Open(filepath.Join(repoDir(), "encoding/jsonld/testsuites/w3c-github-json-ld-api-toRdf/testdata.tar.gz"))
	if err != nil {
		return nil, nil, err
	}
	defer f.Close()
	gz, err := gzip.NewReader(f)
	if err != nil {
		return nil, nil, err
	}
	files := map[string][]byte{}
	tr := tar.NewReader(gz)
	for {
		hd, err := tr.Next()
		if err == io.EOF {
			break
		}
		if err != nil {
			return nil, nil, err
		}
		if hd.Typeflag != tar.TypeReg {
			continue
		}
		b, err := io.ReadAll(tr)
		if err != nil {
			return nil, nil, err
		}
		files[strings.TrimPrefix(hd.Name, "./")] = b
	}
	var m struct {
		Sequence []w3cTest `json:"sequence"`
	}
	if err := json.Unmarshal(files["toRdf-manifest.jsonld"], &m); err != nil {
		return nil, nil, err
	}
	return files, m.Sequence, nil
}

func has(xs []string, x string) bool {
	for _, y := range xs {
		if y == x {
			return true
		}
	}
	return false
}

// corpusDocs returns the parsed inputs of the usable W3C tests (also the seed pool of the mutation stage).
type corpusDoc struct {
	id     string
	doc    *JV
	mode11 bool
	base   string
}

func (h *harness) corpusDocs() []corpusDoc {
	files, tests, err := loadW3C()
	if err != nil {
		h.rep.Add(vh.Case{Kind: "disagreement", Detail: "cannot read the W3C corpus: " + err.Error()})
		return nil
	}
	var out []corpusDoc
	sort.Slice(tests, func(i, j int) bool { return tests[i].ID < tests[j].ID })
	for _, t := range tests {
		if !has(t.Type, "jld:PositiveEvaluationTest") || t.Option.ExpandContext != "" || t.Option.ProduceGeneralizedRdf || t.Option.RDFDirection != "" || t.Option.UseJCS {
			continue
		}
		raw, ok := files[t.Input]
		if !ok {
			continue
		}
		doc, err := parseJSONText(raw)
		if err != nil || !doc.wf() {
			continue
		}
		mode11 := !(t.Option.ProcessingMode == "json-ld-1.0" || (t.Option.ProcessingMode == "" && t.Option.SpecVersion == "json-ld-1.0"))
		base := t.Option.Base
		if base == "" {
			base = w3cPrefix + t.Input
		}
		out = append(out, corpusDoc{t.ID, doc, mode11, base})
	}
	return out
}

func (h *harness) corpus() {
	for _, cd := range h.corpusDocs() {
		h.decodeCompare("corpus "+cd.id, cd.doc, cd.mode11, cd.base, nil)
	}
}

func modeTok(mode11 bool) string {
	if mode11 {
		return "11"
	}
	return "10"
}

func baseTok(base string) string {
	if base == "" {
		return "-"
	}
	return vh.XS(base)
}

// decodeCompare queues `jl.tordf` for a document and compares the implementation's quads with the
// model's whenever the model places the document inside the fragment. want (optional) is the dataset
// the document was written from: the implementation must then also be isomorphic to it.
func (h *harness) decodeCompare(what string, doc *JV, mode11 bool, base string, want []rdf.Quad) {
	text := doc.text()
	line := fmt.Sprintf("jl.tordf %s %s %s", modeTok(mode11), baseTok(base), doc.wire())
	h.stable(line)
	h.add(line, func(model string) {
		desc := fmt.Sprintf("%s mode=%s base=%q doc=%s", what, modeTok(mode11), base, text)
		h.rep.Count("op:tordf")
		if model == "outside" {
			h.rep.Count("tordf:outside-fragment")
			h.rep.Eval(desc, false)
			// the implementation must still not panic
			if res := goDecode(text, mode11, base); res.panicked != "" {
				h.decoderPanic(res.panicked, desc)
			}
			return
		}
		if !strings.HasPrefix(model, "ok:") {
			h.rep.Add(vh.Case{Kind: "disagreement", Op: line, Model: model, Detail: "driver: " + desc})
			return
		}
		mq, err := modelQuads(model[3:])
		if err != nil {
			h.rep.Add(vh.Case{Kind: "disagreement", Op: line, Model: model, Detail: "model quads unreadable: " + err.Error()})
			return
		}
		h.rep.Count("tordf:inside-fragment")
		h.rep.Eval(desc, true)
		res := goDecode(text, mode11, base)
		if res.panicked != "" {
			h.decoderPanic(res.panicked, desc)
			return
		}
		if res.err != nil {
			h.mismatch(line, "decoder error: "+res.err.Error(), showQuads(mq), desc, doc, mode11, base)
			return
		}
		if !vh.IsomorphicMulti(res.quads, mq) {
			h.mismatch(line, showQuads(res.quads), showQuads(mq), desc, doc, mode11, base)
			return
		}
		if want != nil && !vh.IsomorphicMulti(res.quads, want) {
			h.rep.Add(vh.Case{Kind: "violation", Op: line, Go: showQuads(res.quads), Detail: "decoded dataset is not isomorphic to the dataset the document denotes (" + showQuads(want) + ") — " + desc})
		}
	})
}

// decoderPanic: panics of the decoder belong to property C05 (DESIGN D22–D26); they are recorded in
// the histogram by call site and never stop the harness.
func (h *harness) decoderPanic(p, desc string) {
	site := p
	if i := strings.Index(p, ": "); i >= 0 {
		site = p[:i]
	}
	h.rep.Count("decoder-panic:" + site)
	if *verbose {
		fmt.Println("PANIC", p, desc)
	}
}

// mismatch classifies a difference between implementation and model on a document inside the fragment.
func (h *harness) mismatch(line, goR, modelR, desc string, doc *JV, mode11 bool, base string) {
	if key := h.classify(doc, mode11, base); key != "" {
		if h.knownCase(key, desc+" impl="+goR+" model="+modelR) {
			return
		}
	}
	h.rep.Add(vh.Case{Kind: "violation", Op: line, Go: goR, Model: modelR, Detail: "decoder differs from the fragment semantics — " + desc})
}
