/-
  Proofs.C11RaBlocks — symbolic execution of the modelled walkNode on the two canonical one-element blocks of the RDFa
  writer (Spec.Rdfa.canon): `<span about property content lang>` and `<span about rel resource>`, in an arbitrary
  evaluation context without pending incomplete triples / lists.  Core-only.
-/
import RdfModel.Proofs.C11RaWalk
namespace RdfModel.Rdfad
open RdfModel RdfModel.Desc
open RdfModel.Mdd (Node Attr Bytes Subj fields trimSpace typeTokens textContent)

set_option maxRecDepth 4000 in
theorem scan_literal_block (E : Env) (x : Bool) (b s pv c lg : Bytes) :
    scanAttrs E x [⟨[], asc "about", s⟩, ⟨[], asc "property", pv⟩, ⟨[], asc "content", c⟩, ⟨[], asc "lang", lg⟩] { localBase := b } =
      { about := some s, property := some pv, content := some c, lang := some lg, localBase := b } := by
  simp [scanAttrs, asc]

def litBlock (i : Nat) (s pv c lg : Bytes) : Node :=
  .mk i 3 [] (asc "span") [] [⟨[], asc "about", s⟩, ⟨[], asc "property", pv⟩, ⟨[], asc "content", c⟩, ⟨[], asc "lang", lg⟩] []

def plainLit (c lg : Bytes) : Obj := if lg.isEmpty then .lit c xsdString none else .lit c rdfLangString (some lg)

theorem span_facts : (asc "span" ≠ asc "html") ∧ (asc "span" ≠ asc "base") ∧ (asc "span" ≠ asc "time") ∧
    (asc "span" ≠ asc "head") ∧ (asc "span" ≠ asc "body") := by decide

theorem getMap_setMaps_nil (st : St) (k : Nat) (h : st.getMap k = []) : (st.maps ++ [[]]).getD k [] = [] := by
  unfold St.getMap at h
  rw [List.getD_eq_getElem?_getD] at h ⊢
  by_cases hk : k < st.maps.length
  · rw [List.getElem?_append_left hk]; exact h
  · rw [List.getElem?_append_right (by omega)]
    cases hh : ([[]] : List (List (Bytes × Nat)))[k - st.maps.length]? with
    | none => rfl
    | some v =>
      have := List.mem_of_getElem? hh
      simp at this; subst this; rfl


attribute [local simp] enter pre Node.typ Node.atom Node.attrs Node.id scan_literal_block stepVocab locals0 step34
  prefixEntries rule7 filterRel step56 step5 step5b resOpt res orElseSt stepTypeof step8 step910 step11 propertyValue
  datatypeIRI step12 childCtx walkKids leave St.newMap St.getMap St.emit emitEach flushLists flushCount applyLang stepLang
  plainLit

set_option linter.unusedSimpArgs false in
set_option maxRecDepth 4000 in
theorem literal_block (E : Env) (cfg : Cfg) (ctx : Ctx) (st : St) (i : Nat) (s pv c lg : Bytes) (S : Subj) (p : Bytes)
    (hbad : st.bad = none) (hinc : ctx.incomplete = []) (hmap : st.getMap ctx.listMapping = [])
    (hS : ∀ m, resolveIRI E { st with maps := m } ctx.prefixes s (some ctx.base) (some ctx.vocab) true true = (some S, { st with maps := m }))
    (hP : ∀ m, resolveTokens E ctx.prefixes (some ctx.vocab) true (fields (trimSpace pv)) { st with maps := m } = ([p], { st with maps := m })) :
    (walk E cfg false ctx st (litBlock i s pv c lg)).bad = none ∧
    (walk E cfg false ctx st (litBlock i s pv c lg)).out = st.out ++ [⟨S, p, plainLit c lg⟩] := by
  have hS0 : resolveIRI E st ctx.prefixes s (some ctx.base) (some ctx.vocab) true true = (some S, st) := hS st.maps
  have hP0 : resolveTokens E ctx.prefixes (some ctx.vocab) true (fields (trimSpace pv)) st = ([p], st) := hP st.maps
  have hP1 := hP (st.maps ++ [[]])
  obtain ⟨f1, f2, f3, f4, f5⟩ := span_facts
  have hm1 := getMap_setMaps_nil st _ hmap
  have hm2 : (st.maps ++ [[]]).getD st.maps.length [] = [] := by simp
  unfold St.getMap at hmap
  have hmap' : st.maps[ctx.listMapping]?.getD [] = [] := by simpa [List.getD_eq_getElem?_getD] using hmap
  unfold litBlock walk
  simp only [hbad, Option.isSome_none, Bool.false_eq_true, ↓reduceIte]
  by_cases hlg : lg = []
  · cases hq : ctx.parentSubject with
    | none =>
      simp [f1, f2, f3, f4, f5, hS0, hq, hinc, hP0, hP1, hm1, hm2, hmap, hmap', hlg]
      simp [hbad]
    | some q =>
      by_cases hqe : subjEq q S = true
      · simp [f1, f2, f3, f4, f5, hS0, hq, hqe, hinc, hP0, hP1, hm1, hm2, hmap, hmap', hlg]
        simp [hbad]
      · simp [f1, f2, f3, f4, f5, hS0, hq, hqe, hinc, hP0, hP1, hm1, hm2, hmap, hmap', hlg]
        simp [hbad]
  · cases hq : ctx.parentSubject with
    | none =>
      simp [f1, f2, f3, f4, f5, hS0, hq, hinc, hP0, hP1, hm1, hm2, hmap, hmap', hlg]
      simp [hbad]
    | some q =>
      by_cases hqe : subjEq q S = true
      · simp [f1, f2, f3, f4, f5, hS0, hq, hqe, hinc, hP0, hP1, hm1, hm2, hmap, hmap', hlg]
        simp [hbad]
      · simp [f1, f2, f3, f4, f5, hS0, hq, hqe, hinc, hP0, hP1, hm1, hm2, hmap, hmap', hlg]
        simp [hbad]

set_option maxRecDepth 4000 in
theorem scan_resource_block (E : Env) (x : Bool) (b s pv r : Bytes) :
    scanAttrs E x [⟨[], asc "about", s⟩, ⟨[], asc "rel", pv⟩, ⟨[], asc "resource", r⟩] { localBase := b } =
      { about := some s, rel := some pv, resource := some r, localBase := b } := by
  simp [scanAttrs, asc]

def resBlock (i : Nat) (s pv r : Bytes) : Node :=
  .mk i 3 [] (asc "span") [] [⟨[], asc "about", s⟩, ⟨[], asc "rel", pv⟩, ⟨[], asc "resource", r⟩] []

theorem span_facts2 : (asc "span" ≠ asc "form") ∧ (asc "span" ≠ asc "a") ∧ (asc "span" ≠ asc "area") ∧
    (asc "span" ≠ asc "link") := by decide

attribute [local simp] scan_resource_block step6 res3 step9 step9a step9b step9c relTokens relIgnored

set_option linter.unusedSimpArgs false in
set_option maxRecDepth 4000 in
theorem resource_block (E : Env) (cfg : Cfg) (ctx : Ctx) (st : St) (i : Nat) (s pv r : Bytes) (S O : Subj) (p : Bytes)
    (hbad : st.bad = none) (hinc : ctx.incomplete = []) (hmap : st.getMap ctx.listMapping = [])
    (hS : ∀ m, resolveIRI E { st with maps := m } ctx.prefixes s (some ctx.base) (some ctx.vocab) true true = (some S, { st with maps := m }))
    (hO : ∀ m, resolveIRI E { st with maps := m } ctx.prefixes r (some ctx.base) (some ctx.vocab) true true = (some O, { st with maps := m }))
    (hP : ∀ m, resolveTokens E ctx.prefixes (some ctx.vocab) true (fields (trimSpace pv)) { st with maps := m } = ([p], { st with maps := m })) :
    (walk E cfg false ctx st (resBlock i s pv r)).bad = none ∧
    (walk E cfg false ctx st (resBlock i s pv r)).out = st.out ++ [⟨S, p, O.term⟩] := by
  have hS0 : resolveIRI E st ctx.prefixes s (some ctx.base) (some ctx.vocab) true true = (some S, st) := hS st.maps
  have hO0 : resolveIRI E st ctx.prefixes r (some ctx.base) (some ctx.vocab) true true = (some O, st) := hO st.maps
  have hP0 : resolveTokens E ctx.prefixes (some ctx.vocab) true (fields (trimSpace pv)) st = ([p], st) := hP st.maps
  have hP1 := hP (st.maps ++ [[]])
  have hP1' := hP (st.maps ++ [[]])
  rw [hbad] at hP1'
  have hf : ∀ (l : List Bytes), l.filter (fun _ => true) = l := by intro l; induction l <;> simp_all
  obtain ⟨f1, f2, f3, f4, f5⟩ := span_facts
  obtain ⟨g1, g2, g3, g4⟩ := span_facts2
  have hm1 := getMap_setMaps_nil st _ hmap
  have hm2 : (st.maps ++ [[]]).getD st.maps.length [] = [] := by simp
  unfold St.getMap at hmap
  have hmap' : st.maps[ctx.listMapping]?.getD [] = [] := by simpa [List.getD_eq_getElem?_getD] using hmap
  unfold resBlock walk
  simp only [hbad, Option.isSome_none, Bool.false_eq_true, ↓reduceIte]
  cases hq : ctx.parentSubject with
  | none =>
    simp [f1, f2, f3, f4, f5, g1, g2, g3, g4, hS0, hO0, hq, hinc, hP0, hP1, hP1', hf, hm1, hm2, hmap, hmap']
    simp [hbad]
  | some q =>
    by_cases hqe : subjEq q S = true
    · simp [f1, f2, f3, f4, f5, g1, g2, g3, g4, hS0, hO0, hq, hqe, hinc, hP0, hP1, hP1', hf, hm1, hm2, hmap, hmap']
      simp [hbad]
    · simp [f1, f2, f3, f4, f5, g1, g2, g3, g4, hS0, hO0, hq, hqe, hinc, hP0, hP1, hP1', hf, hm1, hm2, hmap, hmap']
      simp [hbad]

end RdfModel.Rdfad
