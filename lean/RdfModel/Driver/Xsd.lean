/-
  Driver component "xsd": Model.Xsd (with the facts regenerated into Gen.XsdFacts) and
  Spec.XsdLexical behind the line protocol.
    xsd.map <type> x<hex>                  → ok x<hex> | ok ~ | err | unmodelled
    xsd.teq <type> x<hex> L x<dt> x<lex>   → true | false | err | unknown     (TermEquals of the mapped value)
    xsd.teq <type> x<hex> N                → same, for a non-literal term
    xsd.accepts <type> x<hex>              → true | false    (Spec: lexical space after whiteSpace normalisation)
    xsd.lexok <type> x<hex>                → true | false    (Spec: lexical space, string taken as is)
    xsd.collapse x<hex>                    → x<hex>          (model of xsdutil.WhiteSpaceCollapse)
    xsd.speccollapse x<hex>                → x<hex>          (Spec.collapse)
-/
import RdfModel.Driver.Wire
import RdfModel.Model.Xsd
import RdfModel.Gen.XsdFacts
namespace RdfModel.Driver.Xsd
open RdfModel RdfModel.Wire RdfModel.Xsd

def showRes : MapRes → String
  | .ok (some b) => "ok " ++ tokOfBytes b
  | .ok none => "ok ~"
  | .err => "err"
  | .unmodelled => "unmodelled"

def showTeq : TeqRes → String
  | .val b => toString b
  | .mapErr => "err"
  | .unknown => "unknown"

def handle (op : String) (args : List String) : Option String :=
  match op, args with
  | "map", [ty, inp] => do
    let T ← Spec.Xsd.Dt.ofName ty
    let bs ← bytesTok inp
    pure (showRes (mapObject Gen.xsdFacts T bs))
  | "teq", [ty, inp, "L", dt, lex] => do
    let T ← Spec.Xsd.Dt.ofName ty
    let bs ← bytesTok inp
    let d ← bytesTok dt
    let l ← bytesTok lex
    pure (showTeq (termEqualsObject Gen.xsdFacts T bs (.literal d l)))
  | "teq", [ty, inp, "N"] => do
    let T ← Spec.Xsd.Dt.ofName ty
    let bs ← bytesTok inp
    pure (showTeq (termEqualsObject Gen.xsdFacts T bs .notLiteral))
  | "accepts", [ty, inp] => do
    let T ← Spec.Xsd.Dt.ofName ty
    let bs ← bytesTok inp
    pure (toString (Spec.Xsd.accepts T bs))
  | "lexok", [ty, inp] => do
    let T ← Spec.Xsd.Dt.ofName ty
    let bs ← bytesTok inp
    pure (toString (Spec.Xsd.lexOK T bs))
  | "collapse", [inp] => do
    let bs ← bytesTok inp
    pure (tokOfBytes (whiteSpaceCollapse bs))
  | "speccollapse", [inp] => do
    let bs ← bytesTok inp
    pure (tokOfBytes (Spec.Xsd.collapse bs))
  | _, _ => none

end RdfModel.Driver.Xsd
