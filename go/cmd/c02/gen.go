package main

// Generators and main of the c02 harness.

import (
	"encoding/json"
	"flag"
	"fmt"
	"os"
	"strings"

	"verifharness/vh"

	"github.com/dpb587/rdfkit-go/iri"
)

func iriT(s string) vh.GTerm { return vh.GTerm{Kind: vh.KIRI, IRI: s} }
func bnT(i int) vh.GTerm     { return vh.GTerm{Kind: vh.KBNode, BNode: i} }

// namespaces the IRIs are built from; prefix tables map a subset of them
var namespaces = []string{
	"http://e/", "http://e/a/", "http://e/a#", "http://e/a/b?q=", "urn:x:", vh.XSD, rdfNS, "http://e/a/b", "http://example.org/ns/é/", "http://e/~u/", "http://e/a%20b/",
}

// runes for local parts: IRI-legal characters around every rule of PN_LOCAL
var localRunes = []rune(".-_09a%:~/#@!$&'()*+,;=?\u00e9\u00b7\u00d7\u0300\u203f\u4e2d\U0001F41B\u1680xyzTf")

var safeBases = []string{
	"http://e/a/b", "http://e/a/", "http://e/", "http://e/a/b?q", "http://e/a/b#f", "http://e/a/b?q#f", "http://e", "http://e/a/b/c/d",
	"urn:x:y", "http://example.org/ns/é/x", "file:///a/b", "http://e/a/b;p", "http://e/a//b", "http://e/a/b?", "http://e/a/b#",
}

// labels: valid PN_PREFIX values; the second group is the known-finding classes (rare)
var plainLabels = []string{"", "ex", "a", "a.b", "é-", "p1", "base", "prefix", "BASE", "Prefix", "t", "f", "tr", "tru", "fals", "fa1se", "b", "P", "graph", "GRAPH", "x-y_z", "中", "ab", "a1"}
var hotLabels = []string{"true", "truex", "false", "falsey", "true.x", "a\u1680x", "base\u1680x", "\u1680", "\u1680p", "prefix\u1680", "x\u1680y"}

// str draws runes from alpha; a '%' always starts a well-formed percent-escape (the property is about
// well-formed IRIs: RFC 3987 allows '%' only as pct-encoded).
func (g *gen) str(alpha []rune, min, max int) string {
	n := min + g.r.Intn(max-min+1)
	var sb strings.Builder
	for i := 0; i < n; i++ {
		c := alpha[g.r.Intn(len(alpha))]
		sb.WriteRune(c)
		if c == '%' {
			sb.WriteString(vh.Pick(g.r, []string{"41", "2F", "2f", "20", "C3%A9", "25", "7e"}))
		}
	}
	return sb.String()
}

// world: the pools one case draws from
type world struct {
	g      *gen
	c      *caseT
	iris   []string
	nb     int
	exotic bool
}

func (g *gen) config(c *caseT, exotic bool) {
	r := g.r
	c.cfg = cfgT{buffered: r.Intn(3) - 1, sort: -1, bm: -1, pm: -1}
	if r.Chance(35) {
		c.cfg.sort = r.Intn(2)
	}
	if r.Chance(60) {
		c.cfg.bm = r.Intn(3)
		c.cfg.pm = c.cfg.bm
		if r.Chance(25) {
			c.cfg.pm = r.Intn(3)
		}
	}
	if r.Chance(55) {
		b := vh.Pick(r, safeBases)
		if exotic && r.Chance(30) {
			b = r.AbsIRI(vh.IRIOpts{Exotic: true})
		}
		c.cfg.base = &b
	}
	if r.Chance(75) {
		used := map[string]bool{}
		for _, ns := range namespaces {
			if !r.Chance(45) {
				continue
			}
			label := vh.Pick(r, plainLabels)
			var sibs []string
			if r.Chance(25) { // keyword-colliding family (kwfam.go): every rung of every keyword ladder
				label, sibs = g.kwLabelFor()
			}
			if r.Chance(4) {
				label = vh.Pick(r, hotLabels)
				sibs = nil
			}
			if len(sibs) > 0 && r.Chance(60) {
				// a one-edit sibling bound to another namespace: a lost/doubled rune becomes a wrong IRI
				s := vh.Pick(r, sibs)
				if !used[s] {
					used[s] = true
					sns := vh.Pick(r, namespaces)
					for _, m := range c.cfg.prefixes {
						if m.Expanded == sns {
							sns = vh.KwNamespace(s)
						}
					}
					if sns != ns {
						c.cfg.prefixes = append(c.cfg.prefixes, iri.PrefixMapping{Prefix: s, Expanded: sns})
						g.rep.Count("cfg:kw-family-sibling")
					}
				}
			}
			if used[label] && r.Chance(90) {
				label = label + fmt.Sprint(len(used))
				if strings.HasPrefix(label, "0") || label[0] >= '0' && label[0] <= '9' {
					label = "n" + label
				}
			}
			used[label] = true
			c.cfg.prefixes = append(c.cfg.prefixes, iri.PrefixMapping{Prefix: label, Expanded: ns})
			if r.Chance(3) { // the same namespace under a second label (tie inside PrefixManager)
				c.cfg.prefixes = append(c.cfg.prefixes, iri.PrefixMapping{Prefix: label + "x", Expanded: ns})
			}
		}
		if exotic && r.Chance(20) {
			c.cfg.prefixes = append(c.cfg.prefixes, iri.PrefixMapping{Prefix: "exo", Expanded: r.AbsIRI(vh.IRIOpts{Exotic: true})})
		}
		if c.cfg.prefixes == nil && r.Bool() {
			c.cfg.prefixes = iri.PrefixMappingList{} // set, but empty
		}
	}
}

func (w *world) newIRI() string {
	r := w.g.r
	switch {
	case w.exotic && r.Chance(25):
		return r.AbsIRI(vh.IRIOpts{Exotic: true})
	case r.Chance(8):
		return r.AbsIRI(vh.IRIOpts{})
	case w.exotic && r.Chance(10):
		return vh.Pick(r, []string{"http://e/a/./b", "http://e/a/../b", "http://e/a/b/..", "http://e/./", "HTTP://e/a", "http://E/a", "http://e:80/a", "http://u@e/a"})
	case w.c.cfg.base != nil && r.Chance(35):
		// near the base: same document, siblings, children, parents, query / fragment variations
		b := *w.c.cfg.base
		cut := b
		if i := strings.IndexAny(cut, "?#"); i >= 0 {
			cut = cut[:i]
		}
		dir := cut + "/"
		if a := strings.Index(cut, "://"); a >= 0 {
			if i := strings.LastIndex(cut, "/"); i > a+2 {
				dir = cut[:i+1]
			}
		} else if i := strings.LastIndex(cut, "/"); i >= 0 {
			dir = cut[:i+1]
		} else if i := strings.LastIndex(cut, ":"); i >= 0 {
			dir = cut[:i+1]
		}
		switch r.Intn(9) {
		case 0:
			return b
		case 1:
			return cut
		case 2:
			return cut + "#" + w.g.str(localRunes, 0, 3)
		case 3:
			return cut + "?" + w.g.str([]rune("ab=&/?:"), 0, 3)
		case 4:
			return dir
		case 5:
			return dir + w.g.str([]rune("abc.:/-"), 1, 4)
		case 6:
			return strings.TrimSuffix(dir, "/")
		case 7:
			return cut + "/" + w.g.str([]rune("abc./"), 0, 3)
		default:
			return dir + w.g.str(localRunes, 0, 2)
		}
	}
	return vh.Pick(r, namespaces) + w.g.str(localRunes, 0, 5)
}

func (w *world) iri() string {
	if len(w.iris) > 0 && w.g.r.Chance(55) {
		return vh.Pick(w.g.r, w.iris)
	}
	v := w.newIRI()
	w.iris = append(w.iris, v)
	return v
}

var numericTypes = []string{"integer", "decimal", "double", "boolean", "long", "int", "short", "byte", "float", "nonNegativeInteger", "unsignedInt", "negativeInteger", "string"}
var numericLex = []string{"0", "5", "-5", "+5", "007", "5.0", "-0.50", ".5", "5.", "+.5e1", "5e0", "5E-3", "-1.5e+10", "1e", "e1", "INF", "-INF", "NaN", "true", "false", "1", "TRUE", " 5", "5 ", "", "abc", "1.2.3", "--1", "5.e0", ".e1", "0x10", "1_0", "٣"}

func (w *world) literal() vh.GTerm {
	r := w.g.r
	switch r.Intn(7) {
	case 0, 1:
		return vh.GTerm{Kind: vh.KLit, Lex: vh.Pick(r, numericLex), DT: vh.XSD + vh.Pick(r, numericTypes)}
	case 2:
		return vh.GTerm{Kind: vh.KLit, Lex: r.LexicalForm(), DT: vh.RDFLangString, Lang: r.LangTag()}
	case 3:
		dt := w.iri()
		if dt == vh.RDFLangString || dt == rdfNS+"dirLangString" {
			dt = vh.XSDString
		}
		return vh.GTerm{Kind: vh.KLit, Lex: r.LexicalForm(), DT: dt}
	case 4:
		return vh.GTerm{Kind: vh.KLit, Lex: vh.Pick(r, []string{"", "\"", "\"\"", "\\", "a\nb", "'", "\"\"\"", "\r", "\t", "@en", "^^", "a\"", "\u0000", "\U0010FFFF", "￾"}), DT: vh.XSDString}
	default:
		return vh.GTerm{Kind: vh.KLit, Lex: r.LexicalForm(), DT: vh.XSDString}
	}
}

func (w *world) node() vh.GTerm {
	if w.nb > 0 && w.g.r.Chance(45) {
		return bnT(w.g.r.Intn(w.nb))
	}
	return iriT(w.iri())
}

func (w *world) object() vh.GTerm {
	if w.g.r.Chance(40) {
		return w.literal()
	}
	return w.node()
}

func (w *world) pred() string {
	r := w.g.r
	if r.Chance(12) {
		return rdfType
	}
	if r.Chance(6) {
		return vh.Pick(r, []string{rdfFst, rdfRst})
	}
	return w.iri()
}

func (w *world) fresh() int {
	w.nb++
	return w.nb - 1
}

// listTriples appends an rdf collection hanging off (s, p): proper, typed, or one of the improper shapes.
func (w *world) listTriples(s vh.GTerm, p string) []vh.GQuad {
	r := w.g.r
	n := r.Intn(4)
	shape := r.Intn(10) // 0..5 proper, 6 typed, 7 improper variants
	if n == 0 && shape < 7 {
		return []vh.GQuad{{S: s, P: iriT(p), O: iriT(rdfNil)}}
	}
	if n == 0 {
		n = 1
	}
	var ts []vh.GQuad
	head := bnT(w.fresh())
	ts = append(ts, vh.GQuad{S: s, P: iriT(p), O: head})
	cur := head
	for i := 0; i < n; i++ {
		item := w.object()
		if r.Chance(15) { // an entry that is itself a described node
			item = bnT(w.fresh())
			ts = append(ts, vh.GQuad{S: item, P: iriT(w.iri()), O: w.object()})
		}
		if r.Chance(10) && i == 0 { // nested list
			nested := bnT(w.fresh())
			ts = append(ts, vh.GQuad{S: nested, P: iriT(rdfFst), O: w.object()}, vh.GQuad{S: nested, P: iriT(rdfRst), O: iriT(rdfNil)})
			item = nested
		}
		ts = append(ts, vh.GQuad{S: cur, P: iriT(rdfFst), O: item})
		if shape == 6 || (shape == 7 && r.Bool()) {
			ts = append(ts, vh.GQuad{S: cur, P: iriT(rdfType), O: iriT(rdfList)})
		}
		last := i == n-1
		switch {
		case !last:
			next := bnT(w.fresh())
			ts = append(ts, vh.GQuad{S: cur, P: iriT(rdfRst), O: next})
			cur = next
		case shape <= 6:
			ts = append(ts, vh.GQuad{S: cur, P: iriT(rdfRst), O: iriT(rdfNil)})
		default:
			switch r.Intn(6) {
			case 0: // no rest at all
			case 1: // rest is some IRI
				ts = append(ts, vh.GQuad{S: cur, P: iriT(rdfRst), O: iriT(w.iri())})
			case 2: // two firsts
				ts = append(ts, vh.GQuad{S: cur, P: iriT(rdfFst), O: w.object()}, vh.GQuad{S: cur, P: iriT(rdfRst), O: iriT(rdfNil)})
			case 3: // extra property on the cell
				ts = append(ts, vh.GQuad{S: cur, P: iriT(w.iri()), O: w.object()}, vh.GQuad{S: cur, P: iriT(rdfRst), O: iriT(rdfNil)})
			case 4: // typed with something other than rdf:List, or typed twice
				ts = append(ts, vh.GQuad{S: cur, P: iriT(rdfType), O: iriT(w.iri())}, vh.GQuad{S: cur, P: iriT(rdfRst), O: iriT(rdfNil)})
			default: // rest points back to the head (cyclic list) or to a literal
				if r.Bool() {
					ts = append(ts, vh.GQuad{S: cur, P: iriT(rdfRst), O: head})
				} else {
					ts = append(ts, vh.GQuad{S: cur, P: iriT(rdfRst), O: w.literal()})
				}
			}
		}
	}
	return ts
}

func (g *gen) labelsFor(c *caseT, nb int) {
	style := g.r.Intn(6)
	for i := 0; i < nb; i++ {
		switch style {
		case 0:
			c.labels[i] = fmt.Sprintf("b%d", i)
		case 1:
			c.labels[i] = fmt.Sprintf("n%d.x-y", i)
		case 2:
			c.labels[i] = fmt.Sprintf("%d", i)
		case 3:
			c.labels[i] = fmt.Sprintf("_%d·", i)
		case 4:
			c.labels[i] = fmt.Sprintf("é%d.%d", i, i)
		default:
			c.labels[i] = fmt.Sprintf("B%d-", i)
		}
	}
}

// graph: triples over shared IRIs and blank nodes, with cycles, shared nodes, lists.
func (g *gen) graphCase(kind byte, exotic bool) *caseT {
	r := g.r
	c := &caseT{kind: kind, labels: map[int]string{}, tag: "graph"}
	g.config(c, exotic)
	w := &world{g: g, c: c, nb: r.Intn(5), exotic: exotic}
	n := r.Intn(9)
	if r.Chance(5) {
		n = 15 + r.Intn(20)
	}
	for i := 0; i < n; i++ {
		switch {
		case r.Chance(12):
			c.ts = append(c.ts, w.listTriples(w.node(), w.iri())...)
		case r.Chance(6) && w.nb >= 2: // cycle through blank nodes
			a, b := r.Intn(w.nb), r.Intn(w.nb)
			p := iriT(w.iri())
			c.ts = append(c.ts, vh.GQuad{S: bnT(a), P: p, O: bnT(b)}, vh.GQuad{S: bnT(b), P: p, O: bnT(a)})
		case r.Chance(5) && len(c.ts) > 0: // duplicate
			c.ts = append(c.ts, c.ts[r.Intn(len(c.ts))])
		default:
			c.ts = append(c.ts, vh.GQuad{S: w.node(), P: iriT(w.pred()), O: w.object()})
		}
	}
	g.labelsFor(c, w.nb)
	return c
}

func (w *world) stmts(depth int) []stmtT {
	r := w.g.r
	n := r.Intn(4)
	res := []stmtT{}
	for i := 0; i < n; i++ {
		p := w.pred()
		if len(res) > 0 && r.Chance(35) {
			p = res[r.Intn(len(res))].pred
		}
		switch {
		case depth < 3 && r.Chance(30):
			res = append(res, stmtT{pred: p, anon: true, sub: w.stmts(depth + 1)})
		case depth < 3 && r.Chance(20):
			res = append(res, w.listStmt(p, depth))
		default:
			res = append(res, stmtT{pred: p, obj: w.object()})
		}
	}
	return res
}

// listStmt: what rdfdescriptionutil.NewObjectValueListStatement builds, plus typed and improper variants.
func (w *world) listStmt(p string, depth int) stmtT {
	r := w.g.r
	n := r.Intn(4)
	shape := r.Intn(10)
	if n == 0 {
		return stmtT{pred: p, obj: iriT(rdfNil)}
	}
	var build func(i int) []stmtT
	build = func(i int) []stmtT {
		var first stmtT
		switch {
		case depth < 2 && r.Chance(20):
			first = stmtT{pred: rdfFst, anon: true, sub: w.stmts(depth + 2)}
		case depth < 2 && r.Chance(10):
			first = w.listStmt(rdfFst, depth+2)
		default:
			first = stmtT{pred: rdfFst, obj: w.object()}
		}
		cell := []stmtT{first}
		if shape == 6 || (shape == 7 && r.Bool()) {
			cell = append([]stmtT{{pred: rdfType, obj: iriT(rdfList)}}, cell...)
		}
		if i == n-1 {
			switch {
			case shape <= 7:
				cell = append(cell, stmtT{pred: rdfRst, obj: iriT(rdfNil)})
			case shape == 8:
				switch r.Intn(4) {
				case 0:
					cell = append(cell, stmtT{pred: rdfRst, obj: iriT(w.iri())})
				case 1:
					cell = append(cell, stmtT{pred: w.iri(), obj: w.object()}, stmtT{pred: rdfRst, obj: iriT(rdfNil)})
				case 2:
					cell = append(cell, stmtT{pred: rdfFst, obj: w.object()}, stmtT{pred: rdfRst, obj: iriT(rdfNil)})
				default:
				}
			default:
				cell = append(cell, stmtT{pred: rdfRst, anon: true, sub: []stmtT{}})
			}
		} else {
			cell = append(cell, stmtT{pred: rdfRst, anon: true, sub: build(i + 1)})
		}
		if r.Chance(15) { // statement order inside a cell does not matter to the encoder
			cell[0], cell[len(cell)-1] = cell[len(cell)-1], cell[0]
		}
		return cell
	}
	return stmtT{pred: p, anon: true, sub: build(0)}
}

// treeCase: resources built directly (AddResource), blank nodes only as plain references.
func (g *gen) treeCase(exotic bool) *caseT {
	r := g.r
	c := &caseT{kind: 'r', labels: map[int]string{}, tag: "tree"}
	g.config(c, exotic)
	w := &world{g: g, c: c, nb: r.Intn(3), exotic: exotic}
	for i, n := 0, r.Intn(4); i < n; i++ {
		res := resT{stmts: w.stmts(0)}
		switch r.Intn(6) {
		case 0:
			res.root = 'a'
		case 1:
			res.root = 'n'
		default:
			res.root = 's'
			res.subj = w.node()
		}
		c.rs = append(c.rs, res)
	}
	g.labelsFor(c, w.nb)
	return c
}

// termCase: one triple whose terms walk the escaping rules (every IRI position x every written form).
func (g *gen) termCase() *caseT {
	c := &caseT{kind: 't', labels: map[int]string{}, tag: "term"}
	g.config(c, false)
	if c.cfg.prefixes == nil {
		c.cfg.prefixes = iri.PrefixMappingList{{Prefix: vh.Pick(g.r, plainLabels), Expanded: vh.Pick(g.r, namespaces)}}
	}
	w := &world{g: g, c: c, nb: 1}
	c.ts = []vh.GQuad{{S: w.node(), P: iriT(w.pred()), O: w.object()}}
	g.labelsFor(c, 1)
	return c
}

func (g *gen) cases(n int) {
	for i := 0; i < n; i++ {
		exotic := g.r.Chance(6)
		var c *caseT
		switch g.r.Intn(10) {
		case 0, 1:
			c = g.termCase()
		case 2, 3, 4:
			c = g.graphCase('t', exotic)
		case 5, 6:
			c = g.treeCase(exotic)
		default:
			c = g.graphCase('b', exotic)
		}
		if exotic {
			c.tag += "/exotic"
			g.rep.Count("gen:exotic")
		}
		g.run(c)
		g.flushIfLarge()
	}
}

// corpus: the defect witnesses and hand-picked shapes, always run first.
func (g *gen) corpus() {
	lines := []string{}
	if b, err := os.ReadFile("/verif/corpus/C02D/cases.txt"); err == nil {
		lines = strings.Split(string(b), "\n")
	}
	for _, l := range lines {
		l = strings.TrimSpace(l)
		if l == "" || strings.HasPrefix(l, "#") {
			continue
		}
		if c, ok := parseLine(l); ok {
			c.tag = "corpus"
			g.run(c)
		} else {
			g.rep.Add(vh.Case{Kind: "disagreement", Op: l, Detail: "corpus line does not parse"})
		}
	}
}

// exhaustiveFlags: every combination of buffered x bufferedSort x base mode x prefix mode (144), with and
// without a base, with and without a prefix table, on three fixed graphs (plain, tree, buffered-triples).
func (g *gen) exhaustiveFlags() {
	base := "http://e/a/b"
	table := iri.PrefixMappingList{{Prefix: "ex", Expanded: "http://e/"}, {Prefix: "", Expanded: "http://e/a#"}, {Prefix: "xsd", Expanded: vh.XSD}}
	lit := func(lex, dt string) vh.GTerm { return vh.GTerm{Kind: vh.KLit, Lex: lex, DT: dt} }
	ts := []vh.GQuad{
		{S: iriT("http://e/a/c"), P: iriT(rdfType), O: iriT("http://e/a#C")},
		{S: iriT("http://e/a/c"), P: iriT("http://e/p.q"), O: lit("5", vh.XSD+"integer")},
		{S: iriT("http://e/a/c"), P: iriT("http://e/p.q"), O: lit("5", vh.XSD+"long")},
		{S: bnT(0), P: iriT("http://e/a#r"), O: bnT(1)},
		{S: bnT(1), P: iriT("http://e/a#r"), O: vh.GTerm{Kind: vh.KLit, Lex: "x", DT: vh.RDFLangString, Lang: "en-Latn-GB"}},
		{S: bnT(1), P: iriT("http://e/a/b"), O: iriT("http://other.example/z")},
		{S: bnT(2), P: iriT(rdfFst), O: lit("", vh.XSDString)},
		{S: bnT(2), P: iriT(rdfRst), O: iriT(rdfNil)},
		{S: iriT("http://e/a/b#frag"), P: iriT("http://e/l"), O: bnT(2)},
	}
	n := 0
	for buffered := -1; buffered <= 1; buffered++ {
		for sort := -1; sort <= 1; sort++ {
			for bm := -1; bm <= 2; bm++ {
				for pm := -1; pm <= 2; pm++ {
					for withBase := 0; withBase < 2; withBase++ {
						for withTable := 0; withTable < 2; withTable++ {
							for _, kind := range []byte{'t', 'b'} {
								c := &caseT{kind: kind, labels: map[int]string{}, tag: "flags", ts: ts}
								c.cfg = cfgT{buffered: buffered, sort: sort, bm: bm, pm: pm}
								if withBase == 1 {
									c.cfg.base = &base
								}
								if withTable == 1 {
									c.cfg.prefixes = table
								}
								g.run(c)
								n++
							}
						}
					}
				}
			}
		}
	}
	g.rep.Exhaustive = append(g.rep.Exhaustive, fmt.Sprintf("every combination of buffered {unset,false,true} x bufferedSort {unset,false,true} x base directive mode {unset,@,SPARQL,disabled} x prefix directive mode (same four) x base {none, set} x prefix table {none, set} x {AddTriple, BufferedTriplesEncoder} on a fixed 9-triple graph: %d documents", n))
}

func (g *gen) flushIfLarge() {
	if len(g.items) >= 200000 {
		g.flush()
	}
}

func (g *gen) flush() {
	if *nomodel || len(g.items) == 0 {
		g.items = g.items[:0]
		return
	}
	lines := make([]string, len(g.items))
	for i, it := range g.items {
		lines[i] = it.line
	}
	res, err := vh.Driver{Path: *driver}.RunParallel(lines)
	if err != nil {
		fmt.Fprintln(os.Stderr, err)
		os.Exit(2)
	}
	for i, it := range g.items {
		g.rep.Compared++
		if res[i] != it.goR {
			g.rep.Count("disagreement")
			if g.rep.Hist["disagreement"] > 60 {
				continue
			}
			g.rep.Add(vh.Case{Kind: "disagreement", Op: it.line, Go: show(it.goR), Model: show(res[i]), Detail: it.tag})
		}
	}
	g.items = g.items[:0]
}

func show(r string) string {
	if strings.HasPrefix(r, "ok x") {
		if b, err := vh.UnX(r[3:]); err == nil {
			return fmt.Sprintf("ok %q", b)
		}
	}
	return r
}

func main() {
	flag.Parse()
	seed := vh.SeedFromEnv()
	rep := vh.NewReport(*prop, *tier, seed, "document level of the Turtle encoder: configurations (base x prefix table x buffered/sort/directive modes, options split over several values) x {AddTriple sequences, AddResource trees built directly, BufferedTriplesEncoder over graphs with cycles, shared nodes, proper/improper/typed lists}; IRIs built from namespaces that the prefix table splits at every PN_LOCAL rule, IRIs near the base, literals of every XSD numeric/boolean type x valid/non-canonical/invalid forms, multi-subtag language tags; non-trivial = at least one triple or resource")
	g := &gen{r: vh.NewRng(seed), rep: rep}
	fs, err := vh.LoadFindings(*findings)
	if err != nil {
		fmt.Fprintln(os.Stderr, "findings:", err)
		os.Exit(2)
	}
	g.known = map[string]vh.Finding{}
	for _, p := range []string{*prop, "C02", "C12", "C08"} {
		for k, f := range vh.KnownKeys(fs, p) {
			g.known[k] = f
		}
	}
	g.d7 = probeD7()
	if g.d7 {
		rep.Count("tree:has-D7")
	}
	if err := vh.IsomorphSelfTest(); err != nil {
		fmt.Fprintln(os.Stderr, "isomorph self test:", err)
		os.Exit(2)
	}

	if *replay != "" {
		b, err := os.ReadFile(*replay)
		if err != nil {
			fmt.Fprintln(os.Stderr, err)
			os.Exit(2)
		}
		var lines []string
		var rj struct {
			Violations    []vh.Case `json:"violations"`
			Disagreements []vh.Case `json:"disagreements"`
		}
		if json.Unmarshal(b, &rj) == nil && len(rj.Violations)+len(rj.Disagreements) > 0 {
			for _, c := range append(rj.Violations, rj.Disagreements...) {
				lines = append(lines, c.Op)
			}
		} else {
			lines = strings.Split(string(b), "\n")
		}
		for _, l := range lines {
			if c, ok := parseLine(strings.TrimSpace(l)); ok {
				g.run(c)
			}
		}
	} else {
		if *hints != "" {
			if b, err := os.ReadFile(*hints); err == nil {
				for _, l := range strings.Split(string(b), "\n") {
					if c, ok := parseLine(strings.TrimSpace(l)); ok {
						c.tag = "hint"
						g.run(c)
					}
				}
			}
		}
		g.corpus()
		g.exhaustiveFlags()
		g.kwSweep()
		n := 60000 * *scale
		if *tier == "thorough" {
			n = 2000000 * *scale
		}
		g.cases(n)
	}
	g.flush()
	if rep.Cases == nil {
		rep.Cases = []vh.Case{}
	}
	if err := rep.Write(*out); err != nil {
		fmt.Fprintln(os.Stderr, err)
		os.Exit(2)
	}
	fmt.Printf("c02[%s]: %d evaluations, %d compared with the model, %d failures\n", *prop, rep.Evaluations, rep.Compared, rep.Failures())
	if rep.Failures() > 0 {
		os.Exit(1)
	}
}
