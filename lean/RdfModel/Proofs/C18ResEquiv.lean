/-
  Equivariance of the BufferedTriplesEncoder path of the Turtle encoder (`TtlEnc.encodeResourcesWith`:
  ResourceListBuilder, ExportResources, AddResource, Close) under an INJECTIVE renaming of blank nodes
  (builder-c18b, for property C18):

      encodeResourcesWith … label (ord₁.map f) (ord₂.map f) (ts.map f) = encodeResourcesWith … (label ∘ f) ord₁ ord₂ ts

  Used to connect the pipe — which labels the statements first and runs the encoder with the identity
  labeller on labels — with `C02.buffered_resources_roundtrip`, which runs the encoder with a labeller on
  the source's own blank nodes. Core-only.
-/
import RdfModel.Model.TurtleEncoder
namespace RdfModel.Proofs.C18Res
open RdfModel RdfModel.Desc RdfModel.TtlEnc

set_option linter.unusedSectionVars false

variable {β γ : Type} [DecidableEq β] [DecidableEq γ]

/-! ### renaming trees -/

mutual
def smap (f : β → γ) : Stmt β → Stmt γ
  | .obj p o => .obj p (o.map f)
  | .anon p l => .anon p (smaps f l)
def smaps (f : β → γ) : List (Stmt β) → List (Stmt γ)
  | [] => []
  | s :: l => smap f s :: smaps f l
end

theorem smaps_eq (f : β → γ) (l : List (Stmt β)) : smaps f l = l.map (smap f) := by
  induction l with
  | nil => simp [smaps]
  | cons s l ih => simp [smaps, ih]

theorem smap_anon (f : β → γ) (p : List Nat) (l : List (Stmt β)) : smap f (.anon p l) = .anon p (l.map (smap f)) := by
  simp [smap, smaps_eq]

theorem smap_obj (f : β → γ) (p : List Nat) (o : Term β) : smap f (.obj p o) = .obj p (o.map f) := by
  simp [smap]

def rmap (f : β → γ) : Resource β → Resource γ
  | .subject s st => .subject (s.map (Term.map f)) (st.map (smap f))
  | .anon st => .anon (st.map (smap f))

def pomap (f : β → γ) (po : PO β) : PO γ := (po.1, po.2.map f)

/-! ### terms -/

theorem term_map_inj {f : β → γ} (hf : Function.Injective f) : Function.Injective (Term.map f) := by
  intro a b h
  cases a <;> cases b <;> simp [Term.map] at h ⊢
  · exact h
  · exact hf h
  · exact h

theorem term_map_eq_iff {f : β → γ} (hf : Function.Injective f) (a b : Term β) : a.map f = b.map f ↔ a = b :=
  ⟨fun h => term_map_inj hf h, fun h => by rw [h]⟩

theorem term_map_eq_iri (f : β → γ) (a : Term β) (v : List Nat) : a.map f = Term.iri v ↔ a = Term.iri v := by
  cases a <;> simp [Term.map]

theorem mem_map_inj {f : β → γ} (hf : Function.Injective f) (b : β) (V : List β) : f b ∈ V.map f ↔ b ∈ V := by
  constructor
  · intro h
    obtain ⟨a, ha, hab⟩ := List.mem_map.mp h
    rw [← hf hab]; exact ha
  · intro h; exact List.mem_map.mpr ⟨b, h, rfl⟩

/-! ### association lists -/

theorem alGet_map {κ κ' α α' : Type} [DecidableEq κ] [DecidableEq κ'] (g : κ → κ') (hg : Function.Injective g)
    (h : α → α') (d : α) (l : List (κ × α)) (k : κ) :
    alGet (h d) (l.map (fun e => (g e.1, h e.2))) (g k) = h (alGet d l k) := by
  induction l with
  | nil => rfl
  | cons e l ih =>
    obtain ⟨k0, v⟩ := e
    simp only [List.map_cons, alGet]
    by_cases hk : k0 = k
    · simp [hk]
    · have : g k0 ≠ g k := fun hh => hk (hg hh)
      simp [hk, this, ih]

theorem alUpd_map {κ κ' α α' : Type} [DecidableEq κ] [DecidableEq κ'] (g : κ → κ') (hg : Function.Injective g)
    (h : α → α') (d : α) (u : α → α) (u' : α' → α') (hu : ∀ a, h (u a) = u' (h a)) (l : List (κ × α)) (k : κ) :
    alUpd (h d) u' (l.map (fun e => (g e.1, h e.2))) (g k) = (alUpd d u l k).map (fun e => (g e.1, h e.2)) := by
  induction l with
  | nil => simp [alUpd, hu]
  | cons e l ih =>
    obtain ⟨k0, v⟩ := e
    simp only [List.map_cons, alUpd]
    by_cases hk : k0 = k
    · simp [hk, hu]
    · have : g k0 ≠ g k := fun hh => hk (hg hh)
      simp [hk, this, ih]

/-! ### the builder -/

def bmap (f : β → γ) (B : Builder β) : Builder γ :=
  { bySubject := B.bySubject.map (fun e => (e.1.map f, e.2.map (pomap f)))
    refs := B.refs.map (fun e => (f e.1, e.2)) }

theorem add1_map {f : β → γ} (hf : Function.Injective f) (B : Builder β) (t : Triple β) :
    (bmap f B).add1 (t.map f) = bmap f (B.add1 t) := by
  obtain ⟨s, p, o⟩ := t
  simp only [Builder.add1, bmap, Triple.map]
  congr 1
  · have := alUpd_map (Term.map f) (term_map_inj hf) (fun l : List (PO β) => l.map (pomap f)) []
      (fun l => l ++ [(p, o)]) (fun l => l ++ [(p, o.map f)]) (by intro a; simp [pomap]) B.bySubject s
    simpa using this
  · cases o with
    | iri v => rfl
    | lit l d t => rfl
    | bnode b =>
      simp only [Term.map]
      have := alUpd_map f hf (fun n : Nat => n) 0 (· + 1) (· + 1) (by intro a; rfl) B.refs b
      simpa using this

theorem add_map {f : β → γ} (hf : Function.Injective f) (ts : List (Triple β)) (B : Builder β) :
    (bmap f B).add (ts.map (Triple.map f)) = bmap f (B.add ts) := by
  induction ts generalizing B with
  | nil => rfl
  | cons t ts ih =>
    simp only [Builder.add, List.map_cons, List.foldl_cons] at ih ⊢
    rw [add1_map hf, ih]

theorem build_map {f : β → γ} (hf : Function.Injective f) (ts : List (Triple β)) :
    build (ts.map (Triple.map f)) = bmap f (build ts) := by
  have := add_map hf ts (Builder.empty : Builder β)
  simpa [build, bmap, Builder.empty] using this

theorem stmts_map {f : β → γ} (hf : Function.Injective f) (B : Builder β) (s : Term β) :
    (bmap f B).stmts (s.map f) = (B.stmts s).map (pomap f) := by
  have := alGet_map (Term.map f) (term_map_inj hf) (fun l : List (PO β) => l.map (pomap f)) [] B.bySubject s
  simpa [Builder.stmts, bmap] using this

theorem refCount_map {f : β → γ} (hf : Function.Injective f) (B : Builder β) (b : β) :
    (bmap f B).refCount (f b) = B.refCount b := by
  have := alGet_map f hf (fun n : Nat => n) 0 B.refs b
  simpa [Builder.refCount, bmap] using this

theorem subjects_map (f : β → γ) (B : Builder β) : (bmap f B).subjects = B.subjects.map (Term.map f) := by
  simp [Builder.subjects, bmap, List.map_map, Function.comp_def]

/-! ### ExportResources -/

theorem mark_map {f : β → γ} (hf : Function.Injective f) (V : List β) (b : β) :
    mark (V.map f) (f b) = (mark V b).map f := by
  unfold mark
  by_cases h : b ∈ V
  · simp [h, (mem_map_inj hf b V).mpr h]
  · have : f b ∉ V.map f := fun hh => h ((mem_map_inj hf b V).mp hh)
    simp [h, this]

theorem markSubject_map {f : β → γ} (hf : Function.Injective f) (V : List β) (s : Term β) :
    markSubject (V.map f) (s.map f) = (markSubject V s).map f := by
  cases s with
  | bnode b => exact mark_map hf V b
  | iri v => rfl
  | lit l d t => rfl

theorem isInlV_map {f : β → γ} (hf : Function.Injective f) (B : Builder β) (opts : Opts) (V : List β) (t : Term β) :
    (bmap f B).isInlV opts (V.map f) (t.map f) = B.isInlV opts V t := by
  cases t with
  | bnode b =>
    simp only [Term.map, Builder.isInlV, refCount_map hf]
    rw [show decide (f b ∈ List.map f V) = decide (b ∈ V) from decide_eq_decide.mpr (mem_map_inj hf b V)]
  | iri v => rfl
  | lit l d t => rfl

theorem isInl_map {f : β → γ} (hf : Function.Injective f) (B : Builder β) (opts : Opts) (t : Term β) :
    (bmap f B).isInl opts (t.map f) = B.isInl opts t := by
  cases t with
  | bnode b => simp only [Term.map, Builder.isInl, refCount_map hf]
  | iri v => rfl
  | lit l d t => rfl

/-- results of the statement export, renamed -/
def resS (f : β → γ) (r : Option (List (Stmt β) × List β)) : Option (List (Stmt γ) × List γ) :=
  r.map (fun x => (x.1.map (smap f), x.2.map f))

theorem foldStmtsV_map {f : β → γ} (hf : Function.Injective f) (B : Builder β) (opts : Opts)
    (rec : Term β → List β → Option (List (Stmt β) × List β))
    (rec' : Term γ → List γ → Option (List (Stmt γ) × List γ))
    (hrec : ∀ t V, rec' (t.map f) (V.map f) = resS f (rec t V)) (pos : List (PO β)) :
    ∀ V, Builder.foldStmtsV (bmap f B) opts rec' (pos.map (pomap f)) (V.map f) =
      resS f (Builder.foldStmtsV B opts rec pos V) := by
  induction pos with
  | nil => intro V; rfl
  | cons po rest ih =>
    intro V
    simp only [List.map_cons, Builder.foldStmtsV, pomap, isInlV_map hf]
    by_cases hi : B.isInlV opts V po.2
    · simp only [hi, if_true, hrec]
      cases hr : rec po.2 V with
      | none => simp [resS]
      | some x =>
        obtain ⟨lb, V1⟩ := x
        simp only [resS, Option.map_some]
        have := ih V1
        rw [this]
        cases Builder.foldStmtsV B opts rec rest V1 with
        | none => simp [resS]
        | some y => simp [resS, smap_anon]
    · simp only [hi, Bool.false_eq_true, if_false]
      have := ih V
      rw [this]
      cases Builder.foldStmtsV B opts rec rest V with
      | none => simp [resS]
      | some y => simp [resS, smap_obj]

theorem exportStatementsV_map {f : β → γ} (hf : Function.Injective f) (B : Builder β) (opts : Opts) :
    ∀ (fuel : Nat) (s : Term β) (V : List β),
      Builder.exportStatementsV (bmap f B) opts fuel (s.map f) (V.map f) =
        resS f (Builder.exportStatementsV B opts fuel s V) := by
  intro fuel
  induction fuel with
  | zero => intro s V; rfl
  | succ n ih =>
    intro s V
    simp only [Builder.exportStatementsV, stmts_map hf, markSubject_map hf]
    exact foldStmtsV_map hf B opts _ _ ih _ _

theorem resourceOf_map {f : β → γ} (hf : Function.Injective f) (B : Builder β) (opts : Opts) (s : Term β)
    (st : List (Stmt β)) :
    (bmap f B).resourceOf opts (s.map f) (st.map (smap f)) = rmap f (B.resourceOf opts s st) := by
  cases s with
  | bnode b =>
    simp only [Term.map, Builder.resourceOf, refCount_map hf]
    split <;> simp [rmap, Term.map]
  | iri v => simp [Builder.resourceOf, rmap, Term.map]
  | lit l d t => simp [Builder.resourceOf, rmap, Term.map]

def resR (f : β → γ) (r : Option (List (Resource β) × List β)) : Option (List (Resource γ) × List γ) :=
  r.map (fun x => (x.1.map (rmap f), x.2.map f))

theorem exportResourceV_map {f : β → γ} (hf : Function.Injective f) (B : Builder β) (opts : Opts) (fuel : Nat)
    (s : Term β) (V : List β) :
    (bmap f B).exportResourceV opts fuel (s.map f) (V.map f) =
      (B.exportResourceV opts fuel s V).map (fun x => (rmap f x.1, x.2.map f)) := by
  simp only [Builder.exportResourceV, exportStatementsV_map hf]
  cases B.exportStatementsV opts fuel s V with
  | none => simp [resS]
  | some x => simp [resS, resourceOf_map hf]

theorem foldRootsV_map {f : β → γ} (hf : Function.Injective f) (B : Builder β) (opts : Opts) (fuel : Nat)
    (pick : Term β → List β → Bool) (pick' : Term γ → List γ → Bool)
    (hp : ∀ s V, pick' (s.map f) (V.map f) = pick s V) (ord : List (Term β)) :
    ∀ V, Builder.foldRootsV (bmap f B) opts fuel pick' (ord.map (Term.map f)) (V.map f) =
      resR f (Builder.foldRootsV B opts fuel pick ord V) := by
  induction ord with
  | nil => intro V; rfl
  | cons s rest ih =>
    intro V
    simp only [List.map_cons, Builder.foldRootsV, hp]
    by_cases hi : pick s V
    · simp only [hi, if_true, exportResourceV_map hf]
      cases B.exportResourceV opts fuel s V with
      | none => simp [resR]
      | some x =>
        obtain ⟨r, V1⟩ := x
        simp only [Option.map_some, ih V1]
        cases Builder.foldRootsV B opts fuel pick rest V1 with
        | none => simp [resR]
        | some y => simp [resR]
    · simp only [hi, Bool.false_eq_true, if_false, ih V]

theorem exportResourcesV_map {f : β → γ} (hf : Function.Injective f) (B : Builder β) (opts : Opts)
    (ord1 ord2 : List (Term β)) (fuel : Nat) :
    (bmap f B).exportResourcesV opts (ord1.map (Term.map f)) (ord2.map (Term.map f)) fuel =
      (B.exportResourcesV opts ord1 ord2 fuel).map (List.map (rmap f)) := by
  simp only [Builder.exportResourcesV]
  have h1 := foldRootsV_map hf B opts fuel (B.pick1 opts) ((bmap f B).pick1 opts)
    (by intro s V; simp [Builder.pick1, isInl_map hf]) ord1 []
  simp only [List.map_nil] at h1
  rw [h1]
  cases Builder.foldRootsV B opts fuel (B.pick1 opts) ord1 [] with
  | none => simp [resR]
  | some x =>
    obtain ⟨rs1, V1⟩ := x
    simp only [resR, Option.map_some]
    have h2 := foldRootsV_map hf B opts fuel (B.pick2 opts) ((bmap f B).pick2 opts)
      (by intro s V; simp [Builder.pick2, isInlV_map hf]) ord2 V1
    rw [h2]
    cases Builder.foldRootsV B opts fuel (B.pick2 opts) ord2 V1 with
    | none => simp [resR]
    | some y => simp [resR]


/-! ### the writers -/

def cmap (f : β → γ) : Cell β → Cell γ
  | .last x => .last (smap f x)
  | .more x r => .more (smap f x) (r.map (smap f))
  | .notList => .notList

def jmap (f : β → γ) : Job β → Job γ
  | .put i l => .put i (l.map (smap f))
  | .stmt i s => .stmt i (smap f s)
  | .list i es => .list i (es.map (smap f))

theorem stmtPred_map (f : β → γ) (s : Stmt β) : stmtPred (smap f s) = stmtPred s := by
  cases s <;> simp [smap, stmtPred]

theorem withPred_map (f : β → γ) (p : List Nat) (l : List (Stmt β)) :
    withPred p (l.map (smap f)) = (withPred p l).map (smap f) := by
  simp [withPred, List.filter_map, Function.comp_def, stmtPred_map]

theorem preds_map (f : β → γ) (l : List (Stmt β)) : (l.map (smap f)).map stmtPred = l.map stmtPred := by
  simp [List.map_map, Function.comp_def, stmtPred_map]

theorem predicateList_map (f : β → γ) (l : List (Stmt β)) : predicateList (l.map (smap f)) = predicateList l := by
  simp only [predicateList, preds_map]

mutual
theorem stmtDepth_map (f : β → γ) : ∀ s : Stmt β, stmtDepth (smap f s) = stmtDepth s
  | .obj _ _ => by simp [smap, stmtDepth]
  | .anon p l => by simp [smap, stmtDepth, stmtsDepth_maps f l]
theorem stmtsDepth_maps (f : β → γ) : ∀ l : List (Stmt β), stmtsDepth (smaps f l) = stmtsDepth l
  | [] => by simp [smaps, stmtsDepth]
  | s :: l => by simp [smaps, stmtsDepth, stmtDepth_map f s, stmtsDepth_maps f l]
end

theorem stmtsDepth_map (f : β → γ) (l : List (Stmt β)) : stmtsDepth (l.map (smap f)) = stmtsDepth l := by
  rw [← smaps_eq]; exact stmtsDepth_maps f l

theorem listCellOf_map (f : β → γ) (d : Bool) (l : List (Stmt β)) :
    listCellOf d (l.map (smap f)) = cmap f (listCellOf d l) := by
  unfold listCellOf
  have hO : (l.map (smap f)).filter (fun s => stmtPred s != rdfType && stmtPred s != Desc.rdfFirst && stmtPred s != Desc.rdfRest)
      = (l.filter (fun s => stmtPred s != rdfType && stmtPred s != Desc.rdfFirst && stmtPred s != Desc.rdfRest)).map (smap f) := by
    simp [List.filter_map, Function.comp_def, stmtPred_map]
  simp only [withPred_map, hO, List.isEmpty_map]
  generalize withPred rdfType l = Ty
  generalize withPred Desc.rdfFirst l = F
  generalize withPred Desc.rdfRest l = R
  generalize l.filter _ = O
  have tail : ∀ b : Bool,
      (if (!O.isEmpty || !b) = true then (Cell.notList : Cell γ) else
        match F.map (smap f), R.map (smap f) with
        | [x], [.obj _ o] => if o = Term.iri Desc.rdfNil then .last x else .notList
        | [x], [.anon _ sub] => .more x sub
        | _, _ => .notList) =
      cmap f (if (!O.isEmpty || !b) = true then (Cell.notList : Cell β) else
        match F, R with
        | [x], [.obj _ o] => if o = Term.iri Desc.rdfNil then .last x else .notList
        | [x], [.anon _ sub] => .more x sub
        | _, _ => .notList) := by
    intro b
    split
    · rfl
    · rcases F with _ | ⟨a, _ | ⟨a2, F⟩⟩
      · simp [cmap]
      · rcases R with _ | ⟨r, _ | ⟨r2, R⟩⟩
        · simp [cmap]
        · cases r with
          | obj p o =>
            simp only [List.map_cons, List.map_nil, smap_obj]
            by_cases ho : o = Term.iri Desc.rdfNil
            · simp [ho, cmap, Term.map]
            · have : o.map f ≠ Term.iri Desc.rdfNil := fun h => ho ((term_map_eq_iri f o _).mp h)
              simp [ho, this, cmap]
          | anon p sub => simp [smap_anon, cmap]
        · simp [cmap]
      · simp [cmap]
  rcases Ty with _ | ⟨s, _ | ⟨s2, Ty⟩⟩
  · exact tail true
  · cases s with
    | obj p o =>
      simp only [List.map_cons, List.map_nil, smap_obj]
      rw [show decide (o.map f = Term.iri rdfList) = decide (o = Term.iri rdfList) from
        decide_eq_decide.mpr (term_map_eq_iri f o rdfList)]
      exact tail _
    | anon p sub =>
      simp only [List.map_cons, List.map_nil, smap_anon]
      exact tail false
  · cases s <;> simp only [List.map_cons, smap_obj, smap_anon] <;> exact tail false

theorem listSyntaxAux_map (f : β → γ) (d : Bool) : ∀ (n : Nat) (l : List (Stmt β)),
    listSyntaxAux d n (l.map (smap f)) = (listSyntaxAux d n l).map (Option.map (List.map (smap f))) := by
  intro n
  induction n with
  | zero => intro l; rfl
  | succ n ih =>
    intro l
    simp only [listSyntaxAux, listCellOf_map]
    cases listCellOf d l with
    | notList => simp [cmap]
    | last x => simp [cmap]
    | more x sub =>
      simp only [cmap, ih]
      cases listSyntaxAux d n sub with
      | none => rfl
      | some r => cases r <;> simp

theorem mapOR_map {α α' δ : Type} (g : α' → OR δ) (h : α → α') (l : List α) :
    mapOR g (l.map h) = mapOR (fun a => g (h a)) l := by
  induction l with
  | nil => rfl
  | cons a l ih => simp only [List.map_cons, mapOR, ih]

section ctx
variable (T : Ttl.Tables) (cfg : Config) (pm : Prefix.PM) (label : γ → List Nat) (f : β → γ)

theorem writeSubject_map (t : Term β) :
    writeSubject (ctxOf T cfg pm label) (t.map f) = writeSubject (ctxOf T cfg pm (label ∘ f)) t := by
  cases t <;> rfl

theorem writeObject_map (t : Term β) :
    writeObject (ctxOf T cfg pm label) (t.map f) = writeObject (ctxOf T cfg pm (label ∘ f)) t := by
  cases t <;> rfl

theorem usedOfObject_map (t : Term β) : usedOfObject pm (t.map f) = usedOfObject pm t := by
  cases t <;> rfl

theorem usedOfSubject_map (t : Term β) : usedOfSubject pm (t.map f) = usedOfSubject pm t := by
  cases t <;> rfl

theorem objectPiece_map (o : Term β) :
    objectPiece (ctxOf T cfg pm label) (o.map f) = objectPiece (ctxOf T cfg pm (label ∘ f)) o := by
  unfold objectPiece
  rw [writeObject_map]
  have : usedOfObject (ctxOf T cfg pm label).pm (o.map f) = usedOfObject (ctxOf T cfg pm (label ∘ f)).pm o :=
    usedOfObject_map pm f o
  rw [this]

theorem write_map (d7 : Bool) : ∀ (fuel : Nat) (j : Job β),
    write (ctxOf T cfg pm label) d7 fuel (jmap f j) = write (ctxOf T cfg pm (label ∘ f)) d7 fuel j := by
  intro fuel
  induction fuel with
  | zero => intro j; cases j <;> rfl
  | succ n ih =>
    have hstmt : ∀ i s, write (ctxOf T cfg pm label) d7 n (.stmt i (smap f s)) =
        write (ctxOf T cfg pm (label ∘ f)) d7 n (.stmt i s) := fun i s => ih (.stmt i s)
    intro j
    cases j with
    | stmt ind s =>
      cases s with
      | obj p o => simp only [jmap, smap_obj, write, objectPiece_map]
      | anon p sub =>
        simp only [jmap, smap_anon, write, List.isEmpty_map, stmtsDepth_map, listSyntaxAux_map]
        split
        · rfl
        · cases listSyntaxAux d7 (stmtsDepth sub + 1) sub with
          | none => rfl
          | some r =>
            cases r with
            | none =>
              have := ih (.put ind sub)
              simp only [jmap] at this
              simp only [Option.map_some, Option.map_none, this]
            | some es =>
              have := ih (.list ind es)
              simp only [jmap] at this
              simp only [Option.map_some, this]
    | list ind es =>
      simp only [jmap, write, List.isEmpty_map, mapOR_map, hstmt]
    | put ind l =>
      simp only [jmap, write, predicateList_map, withPred_map, List.length_map, mapOR_map, hstmt]
      rfl

theorem fuelFor_map (l : List (Stmt β)) : fuelFor (l.map (smap f)) = fuelFor l := by
  simp [fuelFor, stmtsDepth_map]

theorem resourceSection_map (d7 : Bool) (r : Resource β) :
    resourceSection (ctxOf T cfg pm label) d7 (rmap f r) = resourceSection (ctxOf T cfg pm (label ∘ f)) d7 r := by
  have hput : ∀ st : List (Stmt β), write (ctxOf T cfg pm label) d7 (fuelFor st) (.put 0 (st.map (smap f))) =
      write (ctxOf T cfg pm (label ∘ f)) d7 (fuelFor st) (.put 0 st) := fun st => write_map T cfg pm label f d7 _ (.put 0 st)
  cases r with
  | anon st =>
    simp only [rmap, resourceSection, List.isEmpty_map, fuelFor_map, hput]
  | subject s st =>
    cases s with
    | none => simp only [rmap, resourceSection, List.isEmpty_map, fuelFor_map, hput, Option.map_none]
    | some t =>
      simp only [rmap, resourceSection, List.isEmpty_map, fuelFor_map, hput, Option.map_some, writeSubject_map]
      have : usedOfSubject (ctxOf T cfg pm label).pm (t.map f) = usedOfSubject (ctxOf T cfg pm (label ∘ f)).pm t :=
        usedOfSubject_map pm f t
      simp only [this]

theorem encodeResourceListWith_map (d7 : Bool) (rs : List (Resource β)) :
    encodeResourceListWith T d7 cfg pm label (rs.map (rmap f)) = encodeResourceListWith T d7 cfg pm (label ∘ f) rs := by
  simp only [encodeResourceListWith, mapOR_map, resourceSection_map]

/-- Equivariance of the BufferedTriplesEncoder path under an injective renaming. -/
theorem encodeResourcesWith_map (hf : Function.Injective f) (d7 : Bool) (ord1 ord2 : List (Term β))
    (ts : List (Triple β)) :
    encodeResourcesWith T d7 cfg pm label (ord1.map (Term.map f)) (ord2.map (Term.map f)) (ts.map (Triple.map f)) =
      encodeResourcesWith T d7 cfg pm (label ∘ f) ord1 ord2 ts := by
  simp only [encodeResourcesWith, build_map hf, exportResourcesV_map hf, List.length_map]
  cases (build ts).exportResourcesV Opts.default ord1 ord2 (ts.length + 1) with
  | none => rfl
  | some rs => simp only [Option.map_some, encodeResourceListWith_map]

end ctx

/-- a permutation of a mapped list is the map of a permutation -/
theorem perm_map_inv {α α' : Type} (g : α → α') : ∀ (m : List α) (l : List α'), l.Perm (m.map g) →
    ∃ m' : List α, m'.Perm m ∧ l = m'.map g := by
  intro m
  induction m with
  | nil => intro l h; exact ⟨[], List.Perm.refl _, by simpa using h.eq_nil⟩
  | cons a m ih =>
    intro l h
    have hmem : g a ∈ l := h.symm.subset (by simp)
    obtain ⟨l1, l2, rfl⟩ := List.append_of_mem hmem
    have h2 : (l1 ++ l2).Perm (m.map g) :=
      (List.perm_cons (g a)).mp (by simpa using (List.perm_middle.symm.trans h))
    obtain ⟨m', hm', heq⟩ := ih _ h2
    obtain ⟨m1, m2, rfl, h1, h2'⟩ := List.append_eq_map_iff.mp heq
    refine ⟨m1 ++ a :: m2, ?_, by simp [h1, h2']⟩
    exact List.perm_middle.trans (List.Perm.cons a hm')

end RdfModel.Proofs.C18Res
