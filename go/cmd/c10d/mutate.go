// COPY of ../c10/mutate.go without mutateCases (package main cannot be imported).
package main

// Structural mutations of documents: the mutants are judged by the fragment semantics (jl.tordf);
// those it places inside the fragment are compared with the implementation.

import (
	"verifharness/vh"
)

var mutStrings = []string{"@id", "@type", "@value", "@language", "@list", "@graph", "@vocab", "@base", "@set", "@none", "@foo", "", "_:b", "_:", "a", "name", "ex:a", "ex", "http://example.org/ns#a", "urn:ex:a", "../x", "#f", "?q", "./", "a b", "en", "a:b:c", "//x", "x://y", "1ab:c"}

func (h *harness) collect(v *JV, out *[]*JV) {
	*out = append(*out, v)
	for _, x := range v.xs {
		h.collect(x, out)
	}
	for _, m := range v.ms {
		h.collect(m.v, out)
	}
}

func (h *harness) randomScalar() *JV {
	r := h.r
	switch r.Intn(7) {
	case 0:
		return jnull()
	case 1:
		return jbool(r.Bool())
	case 2:
		return jint(int64(vh.Pick(r, []int{0, 1, -1, 42, 2147483647, 2147483648, 9007199254740992, -9007199254740992})))
	case 3:
		return jdbl(vh.Pick(r, []string{"1.5E0", "-2.5E-3", "1.0E21", "1.1E0", "5.0E-324"}))
	default:
		return jstr(vh.Pick(r, mutStrings))
	}
}

// mutateDoc applies 1–3 random structural edits to a copy of the document.
func (h *harness) mutateDoc(doc *JV) *JV {
	r := h.r
	d := doc.clone()
	for e, ne := 0, 1+r.Intn(3); e < ne; e++ {
		var nodes []*JV
		h.collect(d, &nodes)
		v := vh.Pick(r, nodes)
		switch r.Intn(13) {
		case 0: // replace a string
			if v.kind == jStr {
				v.s = vh.Pick(r, mutStrings)
			}
		case 1: // rename a member
			if v.kind == jObj && len(v.ms) > 0 {
				v.ms[r.Intn(len(v.ms))].k = vh.Pick(r, mutStrings)
			}
		case 2: // delete a member
			if v.kind == jObj && len(v.ms) > 0 {
				i := r.Intn(len(v.ms))
				v.ms = append(v.ms[:i:i], v.ms[i+1:]...)
			}
		case 3: // wrap in an array / unwrap
			if v.kind == jArr && len(v.xs) == 1 {
				*v = *v.xs[0]
			} else {
				c := *v
				*v = JV{kind: jArr, xs: []*JV{&c}}
			}
		case 4: // wrap in @list / @value / @set / @id
			c := *v
			*v = JV{kind: jObj, ms: []jmember{{vh.Pick(r, []string{"@list", "@value", "@set", "@id", "@graph"}), &c}}}
		case 5: // replace by a scalar
			*v = *h.randomScalar()
		case 6: // add a member
			if v.kind == jObj {
				v.ms = append(v.ms, jmember{vh.Pick(r, mutStrings), h.randomScalar()})
			}
		case 7: // add an array element
			if v.kind == jArr {
				v.xs = append(v.xs, h.randomScalar())
			}
		case 8: // duplicate a member under another name
			if v.kind == jObj && len(v.ms) > 0 {
				m := v.ms[r.Intn(len(v.ms))]
				v.ms = append(v.ms, jmember{vh.Pick(r, mutStrings), m.v.clone()})
			}
		case 9: // context edits
			if c := d.get("@context"); c != nil && c.kind == jObj {
				switch r.Intn(5) {
				case 0:
					c.ms = append(c.ms, jmember{"@vocab", jstr(vh.Pick(r, []string{"http://example.org/vocab/", "", "ex:", "rel/"}))})
				case 1:
					c.ms = append(c.ms, jmember{"@language", jstr(vh.Pick(r, []string{"en", "de-CH", "a b"}))})
				case 2:
					c.ms = append(c.ms, jmember{"@base", vh.Pick(r, []*JV{jnull(), jstr("http://e.com/other/"), jstr("rel/x")})})
				case 3:
					if len(c.ms) > 0 {
						m := &c.ms[r.Intn(len(c.ms))]
						if m.v.kind == jStr {
							m.v = jobj(jm("@id", jstr(m.v.s)), jm(vh.Pick(r, []string{"@type", "@container", "@language"}), jstr(vh.Pick(r, []string{"@id", "@vocab", "@list", "@set", "@language", "en", "http://example.org/ns#dt"}))))
						}
					}
				default:
					c.ms = append(c.ms, jmember{vh.Pick(r, mutStrings), h.randomScalar()})
				}
			}
		case 10: // a local context on some object: inherited definitions must survive it
			if v.kind == jObj && v.get("@context") == nil {
				lc := vh.Pick(r, []*JV{
					jobj(), jnull(),
					jobj(jm("@language", jstr("de"))), jobj(jm("@language", jnull())),
					jobj(jm("@vocab", jstr("http://example.org/vocab/"))), jobj(jm("@vocab", jnull())),
					jobj(jm("name", jstr("http://example.org/ns#name"))),
					jobj(jm("@base", jstr("http://e.com/other/"))),
					jarr(jobj(), jobj(jm("ex", jstr("http://example.org/ns#")))),
				})
				v.ms = append([]jmember{{"@context", lc.clone()}}, v.ms...)
			}
		default: // swap two members
			if v.kind == jObj && len(v.ms) > 1 {
				i, j := r.Intn(len(v.ms)), r.Intn(len(v.ms))
				v.ms[i], v.ms[j] = v.ms[j], v.ms[i]
			}
		}
	}
	return d
}

