/-
  Proofs.C11RaSteps — what each step of the modelled walkNode preserves / establishes (for C05 no-panic and C06
  well-formedness of the RDFa decoder model).  Core-only.
-/
import RdfModel.Proofs.C11RaFrame
namespace RdfModel.Rdfad
open RdfModel RdfModel.Desc
open RdfModel.Mdd (Node Attr Bytes Subj fields trimSpace typeTokens textContent)

/-- evaluation context of a node that is not the node `decode` starts at -/
def KidOK (ctx : Ctx) : Prop := ctx.parentSubject.isSome ∧ ctx.parentObject.isSome ∧ ctx.language ≠ some []

/-- evaluation context of the start node (a DocumentNode in Go: DataAtom 0) -/
def TopOK (ctx : Ctx) (isRoot : Bool) (n : Node) : Prop :=
  isRoot = true ∧ isHeadBody n = false ∧ ctx.incomplete = [] ∧ ctx.language ≠ some []

def NodeOK (ctx : Ctx) (isRoot : Bool) (n : Node) : Prop := KidOK ctx ∨ TopOK ctx isRoot n

/-- what steps 5 and 6 establish -/
structure Post (isRoot : Bool) (a : A) (l l' : L) : Prop where
  ns : l'.newSubject.isSome
  typed : a.typeof.isSome → a.about.isNone → l'.typed.isSome
  lang : l'.lang = l.lang
  skip : l'.skip = true → isRoot = false

theorem orElseSt_spec {c} {P : Option Subj → Prop} (r : Option Subj × St) (f : St → Option Subj × St)
    (hr : core r.2 = c) (hP : ∀ s, r.1 = some s → P (some s))
    (hf : ∀ st, core st = c → core (f st).2 = c ∧ P (f st).1) :
    core (orElseSt r f).2 = c ∧ P (orElseSt r f).1 := by
  unfold orElseSt
  split
  · exact ⟨hr, hP _ rfl⟩
  · exact hf _ hr

theorem parentObject_of {ctx : Ctx} {isRoot : Bool} {n : Node} (h : NodeOK ctx isRoot n) (hr : isRoot = false) :
    ctx.parentObject.isSome := by
  rcases h with h | h
  · exact h.2.1
  · rw [h.1] at hr; cases hr

theorem inheritSubject_spec (E : Env) (active isRoot : Bool) (n : Node) (ctx : Ctx) (l : L) (st : St)
    (h : NodeOK ctx isRoot n) :
    core (inheritSubject E active isRoot n ctx l st).2 = core st ∧ (inheritSubject E active isRoot n ctx l st).1.isSome := by
  unfold inheritSubject
  split
  · rename_i hb
    have hpo : ctx.parentObject.isSome := by
      rcases h with h | h
      · exact h.2.1
      · simp [h.2.1] at hb
    unfold assertParentObject
    cases hc : ctx.parentObject with
    | none => rw [hc] at hpo; cases hpo
    | some s => simp
  · split
    · rw [res_empty]; simp
    · rename_i hr
      have := parentObject_of h (by simpa using hr)
      simp [this]

theorem step5a_spec (E : Env) (active isRoot : Bool) (n : Node) (ctx : Ctx) (a : A) (l : L) (st : St)
    (h : NodeOK ctx isRoot n) (hl : l.skip = false) :
    core (step5a E active isRoot n ctx a l st).2 = core st ∧ Post isRoot a l (step5a E active isRoot n ctx a l st).1 := by
  unfold step5a
  have h1 := core_resOpt E st l a.about true
  generalize resOpt E st l a.about true = rr at h1 ⊢
  obtain ⟨aboutRes, st1⟩ := rr
  simp only at h1 ⊢
  have h2 := orElseSt_spec (P := fun o => o.isSome) (c := core st) (aboutRes, st1) (inheritSubject E active isRoot n ctx l) h1
    (by intro s _; rfl) (by intro st' hs; have := inheritSubject_spec E active isRoot n ctx l st' h; rw [hs] at this; exact this)
  generalize orElseSt (aboutRes, st1) (inheritSubject E active isRoot n ctx l) = rr at h2 ⊢
  obtain ⟨ns, st2⟩ := rr
  simp only at h2 ⊢
  obtain ⟨hc2, hns⟩ := h2
  split
  · split
    · exact ⟨hc2, ⟨hns, fun _ _ => hns, rfl, by simp [hl]⟩⟩
    · split
      · rw [res_empty]
        exact ⟨hc2, ⟨hns, fun _ _ => rfl, rfl, by simp [hl]⟩⟩
      · have h3 := orElseSt_spec (P := fun o => o.isSome) (c := core st)
          (res3First E a { l with newSubject := ns } st2) freshBn (by simp [hc2])
          (by intro s _; rfl) (by intro st' hs; exact ⟨by simp [hs], rfl⟩)
        generalize orElseSt (res3First E a { l with newSubject := ns } st2) freshBn = rr at h3 ⊢
        obtain ⟨t, st3⟩ := rr
        simp only at h3 ⊢
        exact ⟨h3.1, ⟨hns, fun _ _ => h3.2, rfl, by simp [hl]⟩⟩
  · rename_i hty
    refine ⟨hc2, ⟨hns, ?_, rfl, by simp [hl]⟩⟩
    intro ht; simp [ht] at hty

theorem step5b_spec (E : Env) (active isRoot : Bool) (n : Node) (ctx : Ctx) (a : A) (l : L) (st : St)
    (h : NodeOK ctx isRoot n) (hl : l.skip = false) :
    core (step5b E active isRoot n ctx a l st).2 = core st ∧ Post isRoot a l (step5b E active isRoot n ctx a l st).1 := by
  unfold step5b
  have h1 : core (orElseSt (resOpt E st l a.about true) (res3 E a l)).2 = core st :=
    core_orElseSt _ _ (by simp) (by intro st' hs; simp [hs])
  generalize orElseSt (resOpt E st l a.about true) (res3 E a l) = rr at h1 ⊢
  obtain ⟨r, st1⟩ := rr
  simp only at h1 ⊢
  cases r with
  | some s =>
    simp only
    refine ⟨h1, ⟨rfl, ?_, rfl, by simp [hl]⟩⟩
    intro ht _; simp [ht]
  | none =>
    simp only
    split
    · rename_i hb
      have := inheritSubject_spec E active isRoot n ctx l st1 h
      unfold inheritSubject at this
      rw [if_pos hb] at this
      generalize assertParentObject ctx st1 = rr at this ⊢
      obtain ⟨ns, st2⟩ := rr
      simp only at this ⊢
      refine ⟨by rw [this.1, h1], ⟨this.2, ?_, rfl, by simp [hl]⟩⟩
      intro ht _; simp [ht, this.2]
    · split
      · rw [res_empty]
        refine ⟨h1, ⟨rfl, ?_, rfl, by simp [hl]⟩⟩
        intro ht _; simp [ht]
      · rename_i hr
        split
        · exact ⟨by simp [freshBn, h1], ⟨rfl, fun _ _ => rfl, rfl, by simp [freshBn, hl]⟩⟩
        · rename_i hty
          have hpo := parentObject_of h (by simpa using hr)
          cases hc : ctx.parentObject with
          | none => rw [hc] at hpo; cases hpo
          | some s =>
            simp only
            refine ⟨h1, ⟨rfl, ?_, rfl, ?_⟩⟩
            · intro ht; simp [ht] at hty
            · intro _; simpa using hr

theorem step5_spec (E : Env) (active isRoot : Bool) (n : Node) (ctx : Ctx) (a : A) (l : L) (st : St)
    (h : NodeOK ctx isRoot n) (hl : l.skip = false) :
    core (step5 E active isRoot n ctx a l st).2 = core st ∧ Post isRoot a l (step5 E active isRoot n ctx a l st).1 := by
  unfold step5
  split
  · exact step5a_spec E active isRoot n ctx a l st h hl
  · exact step5b_spec E active isRoot n ctx a l st h hl

theorem step6_spec (E : Env) (isRoot : Bool) (n : Node) (ctx : Ctx) (a : A) (l : L) (st : St)
    (h : NodeOK ctx isRoot n) (hl : l.skip = false) :
    core (step6 E isRoot ctx a l st).2 = core st ∧ Post isRoot a l (step6 E isRoot ctx a l st).1 := by
  unfold step6
  have h1 := core_resOpt E st l a.about true
  generalize resOpt E st l a.about true = rr at h1 ⊢
  obtain ⟨aboutRes, st1⟩ := rr
  simp only at h1 ⊢
  have h2 := orElseSt_spec (P := fun o => o.isSome) (c := core st) (aboutRes, st1)
    (fun st => if isRoot then res E st l [] false else (ctx.parentObject, st)) h1
    (by intro s _; rfl)
    (by
      intro st' hs
      by_cases hr : isRoot = true
      · simp [hr, res_empty, hs]
      · have := parentObject_of h (by simpa using hr)
        simp [hr, hs, this])
  generalize orElseSt (aboutRes, st1) (fun st => if isRoot then res E st l [] false else (ctx.parentObject, st)) = rr at h2 ⊢
  obtain ⟨ns, st2⟩ := rr
  simp only at h2 ⊢
  obtain ⟨hc2, hns⟩ := h2
  generalize hl' : ({ l with newSubject := ns, typed := if a.typeof.isSome then aboutRes else none } : L) = l'
  have h3 := core_res3 E a l' st2
  generalize res3 E a l' st2 = rr at h3 ⊢
  obtain ⟨cor, st3⟩ := rr
  simp only at h3 ⊢
  by_cases hcond : (a.typeof.isSome && a.about.isNone) = true
  · rw [if_pos hcond]
    have h4 := orElseSt_spec (P := fun o => o.isSome) (c := core st) (cor, st3) freshBn (by rw [h3, hc2])
      (by intro s _; rfl) (by intro st' hs; exact ⟨by simp [hs], rfl⟩)
    generalize orElseSt (cor, st3) freshBn = rr at h4 ⊢
    obtain ⟨cor', st4⟩ := rr
    simp only at h4 ⊢
    subst hl'
    refine ⟨h4.1, ⟨hns, ?_, rfl, by simp [hl]⟩⟩
    intro ht ha
    simp only [Bool.and_eq_true] at hcond
    simp only [ht, ha, Bool.true_and, ite_true]
    cases aboutRes with
    | none => simpa using h4.2
    | some s => simp
  · rw [if_neg hcond]
    subst hl'
    refine ⟨by rw [h3, hc2], ⟨hns, ?_, rfl, by simp [hl]⟩⟩
    intro ht ha
    simp [ht, ha] at hcond

/-! ### emission helpers -/

theorem emitTypes_inv (t : Subj) (is : List Bytes) (st : St) (i : Inv st) : Inv (emitTypes t is st) := by
  induction is generalizing st with
  | nil => exact i
  | cons x xs ih => exact ih _ (i.emit t rdfType (.iri x) trivial)

theorem emitEach_inv (f : Bytes → St → St) (hf : ∀ p st, Inv st → Inv (f p st)) (is : List Bytes) (st : St)
    (i : Inv st) : Inv (emitEach f is st) := by
  induction is generalizing st with
  | nil => exact i
  | cons x xs ih => exact ih _ (hf x st i)

theorem inv_of_core_eq {st st' : St} (h : core st' = core st) (i : Inv st) : Inv st' := Inv.of_core h i

/-! ### steps 2, 4, 7, 8 -/

theorem stepVocab_spec (E : Env) (ctx : Ctx) (a : A) (l : L) (st : St) (i : Inv st) :
    Inv (stepVocab E ctx a l st).2 ∧ (stepVocab E ctx a l st).1.skip = l.skip ∧ (stepVocab E ctx a l st).1.lang = l.lang := by
  unfold stepVocab
  split
  · exact ⟨i, rfl, rfl⟩
  · split
    · exact ⟨i, rfl, rfl⟩
    · have h := core_resolveAsIRI E st l.prefixes (by assumption) (some l.vocab) true
      generalize resolveAsIRI E st l.prefixes _ (some l.vocab) true = rr at h ⊢
      obtain ⟨r, st1⟩ := rr
      cases r with
      | none => exact ⟨Inv.of_core h i, rfl, rfl⟩
      | some v => exact ⟨(Inv.of_core h i).emit _ _ _ trivial, rfl, rfl⟩

theorem stepLang_ne (active : Bool) (a : A) (cur : Option Bytes) (h : cur ≠ some []) : stepLang active a cur ≠ some [] := by
  unfold stepLang
  repeat' split
  all_goals first | exact h | (intro hh; simp_all) | simp

theorem stepTypeof_inv (E : Env) (a : A) (l : L) (st : St) (i : Inv st) : Inv (stepTypeof E a l st) := by
  unfold stepTypeof
  split
  · have h := core_resolveTokens E l.prefixes (some l.vocab) true (typeTokens (by assumption)) st
    generalize resolveTokens E l.prefixes (some l.vocab) true _ st = rr at h ⊢
    obtain ⟨is, st1⟩ := rr
    exact emitTypes_inv _ _ _ (Inv.of_core h i)
  · exact i

/-- the fields of the locals that steps 8–10 leave alone -/
def SameL (l l' : L) : Prop :=
  l'.newSubject = l.newSubject ∧ l'.typed = l.typed ∧ l'.lang = l.lang ∧ l'.skip = l.skip ∧ l'.rev = l.rev ∧
  l'.prefixes = l.prefixes ∧ l'.vocab = l.vocab

theorem SameL.refl (l : L) : SameL l l := ⟨rfl, rfl, rfl, rfl, rfl, rfl, rfl⟩

theorem step8_spec (ctx : Ctx) (l : L) (st : St) :
    core (step8 ctx l st).2 = core st ∧ SameL l (step8 ctx l st).1 ∧ (step8 ctx l st).1.cor = l.cor := by
  unfold step8
  repeat' split
  all_goals exact ⟨rfl, SameL.refl _, rfl⟩

/-! ### steps 9, 10 -/

theorem emit_inv_opt {st : St} (i : Inv st) (s : Option Subj) (p : Bytes) (o : Option Obj) (hs : s.isSome)
    (ho : ∃ x, o = some x ∧ WFObj x) : Inv (st.emit s p o) := by
  obtain ⟨x, rfl, hx⟩ := ho
  cases s with
  | none => cases hs
  | some s => exact i.emit s p x hx

theorem pushTo_inv (m : Nat) (o : Option Obj) (ho : ∃ x, o = some x ∧ WFObj x) (p : Bytes) (st : St) (i : Inv st) :
    Inv (pushTo m o p st) := by
  obtain ⟨x, rfl, hx⟩ := ho
  exact (i.ensureList m p).pushList _ _ hx

theorem step9a_spec (E : Env) (n : Node) (a : A) (o : Subj) (l : L) (st : St) (i : Inv st) :
    Inv (step9a E n a o l st).2 ∧ SameL l (step9a E n a o l st).1 := by
  unfold step9a
  split
  · have h := core_resolveTokens E l.prefixes (some l.vocab) true (relTokens E st.profile n (by assumption)) st
    generalize resolveTokens E l.prefixes (some l.vocab) true _ st = r at h ⊢
    exact ⟨emitEach_inv _ (fun p st i => pushTo_inv _ _ ⟨_, rfl, wf_subj_term o⟩ p st i) _ _ (Inv.of_core h i), SameL.refl _⟩
  · exact ⟨i, SameL.refl _⟩

theorem step9b_spec (E : Env) (n : Node) (a : A) (o : Subj) (l : L) (st : St) (i : Inv st) (hns : l.newSubject.isSome) :
    Inv (step9b E n a o l st).2 ∧ SameL l (step9b E n a o l st).1 := by
  unfold step9b
  split
  · have h := core_resolveTokens E l.prefixes (some l.vocab) true (relTokens E st.profile n (by assumption)) st
    generalize resolveTokens E l.prefixes (some l.vocab) true _ st = r at h ⊢
    exact ⟨emitEach_inv _ (fun p st i => emit_inv_opt i _ p _ hns ⟨_, rfl, wf_subj_term o⟩) _ _ (Inv.of_core h i), SameL.refl _⟩
  · exact ⟨i, SameL.refl _⟩

theorem step9c_spec (E : Env) (o : Subj) (l : L) (st : St) (i : Inv st) (hns : l.newSubject.isSome) :
    Inv (step9c E o l st).2 ∧ SameL l (step9c E o l st).1 := by
  unfold step9c
  split
  · have h := core_resolveTokens E l.prefixes (some l.vocab) true (fields (trimSpace (by assumption))) st
    generalize resolveTokens E l.prefixes (some l.vocab) true _ st = r at h ⊢
    refine ⟨emitEach_inv _ (fun p st i => emit_inv_opt i _ p _ rfl ?_) _ _ (Inv.of_core h i), SameL.refl _⟩
    cases hn : l.newSubject with
    | none => rw [hn] at hns; cases hns
    | some s => exact ⟨_, rfl, wf_subj_term s⟩
  · exact ⟨i, SameL.refl _⟩

theorem SameL.trans {a b c : L} (h1 : SameL a b) (h2 : SameL b c) : SameL a c := by
  unfold SameL at *
  obtain ⟨a1, a2, a3, a4, a5, a6, a7⟩ := h1
  obtain ⟨b1, b2, b3, b4, b5, b6, b7⟩ := h2
  exact ⟨b1.trans a1, b2.trans a2, b3.trans a3, b4.trans a4, b5.trans a5, b6.trans a6, b7.trans a7⟩

theorem step9_spec (E : Env) (n : Node) (a : A) (l : L) (o : Subj) (st : St) (i : Inv st) (hns : l.newSubject.isSome) :
    Inv (step9 E n a l o st).2 ∧ SameL l (step9 E n a l o st).1 := by
  unfold step9
  simp only
  have h1 := step9a_spec E n a o l st i
  generalize step9a E n a o l st = r1 at h1 ⊢
  have h2 := step9b_spec E n a o r1.1 r1.2 h1.1 (by rw [h1.2.1]; exact hns)
  generalize step9b E n a o r1.1 r1.2 = r2 at h2 ⊢
  have h3 := step9c_spec E o r2.1 r2.2 h2.1 (by rw [h2.2.1, h1.2.1]; exact hns)
  exact ⟨h3.1, (h1.2.trans h2.2).trans h3.2⟩

theorem addIncompleteLists_inv (m : Nat) (ps : List Bytes) (st : St) (i : Inv st) : Inv (addIncompleteLists m ps st).2 := by
  induction ps generalizing st with
  | nil => exact i
  | cons p ps ih => exact ih _ (i.ensureList m p)

theorem step10rel_spec (E : Env) (n : Node) (a : A) (l : L) (st : St) (i : Inv st) :
    Inv (step10rel E n a l st).2 ∧ SameL l (step10rel E n a l st).1 := by
  unfold step10rel
  split
  · have h := core_resolveTokens E l.prefixes (some l.vocab) true (relTokens E st.profile n (by assumption)) st
    generalize resolveTokens E l.prefixes (some l.vocab) true _ st = r at h ⊢
    refine ⟨?_, SameL.refl _⟩
    simp only
    split
    · exact addIncompleteLists_inv _ _ _ (Inv.of_core h i)
    · exact Inv.of_core h i
  · exact ⟨i, SameL.refl _⟩

theorem step10rev_spec (E : Env) (l : L) (st : St) (i : Inv st) :
    Inv (step10rev E l st).2 ∧ SameL l (step10rev E l st).1 := by
  unfold step10rev
  split
  · have h := core_resolveTokens E l.prefixes (some l.vocab) true (fields (trimSpace (by assumption))) st
    generalize resolveTokens E l.prefixes (some l.vocab) true _ st = r at h ⊢
    exact ⟨Inv.of_core h i, SameL.refl _⟩
  · exact ⟨i, SameL.refl _⟩

theorem step10_spec (E : Env) (n : Node) (a : A) (l : L) (st : St) (i : Inv st) :
    Inv (step10 E n a l st).2 ∧ SameL l (step10 E n a l st).1 := by
  unfold step10
  simp only
  have h1 := step10rel_spec E n a { l with cor := some (.bn st.nextBn) } st.fresh.2 (Inv.of_core (core_fresh st) i)
  generalize step10rel E n a { l with cor := some (.bn st.nextBn) } st.fresh.2 = r1 at h1 ⊢
  have h2 := step10rev_spec E r1.1 r1.2 h1.1
  have h0 : SameL l { l with cor := some (.bn st.nextBn) } := ⟨rfl, rfl, rfl, rfl, rfl, rfl, rfl⟩
  exact ⟨h2.1, (h0.trans h1.2).trans h2.2⟩

theorem step910_spec (E : Env) (n : Node) (a : A) (l : L) (st : St) (i : Inv st) (hns : l.newSubject.isSome) :
    Inv (step910 E n a l st).2 ∧ SameL l (step910 E n a l st).1 := by
  unfold step910
  split
  · exact step9_spec E n a l _ st i hns
  · split
    · exact step10_spec E n a l st i
    · exact ⟨i, SameL.refl _⟩

/-! ### step 11 -/

/-- what the theorems need of the XSD time mappers: they return typed, untagged literals -/
def EnvOK (E : Env) : Prop :=
  ∀ f ∈ E.timeMaps, ∀ v lex dt, f v = some (lex, dt) → dt ≠ [] ∧ dt ≠ rdfLangString ∧ dt ≠ rdfDirLangString

theorem xsdString_facts : xsdString ≠ [] ∧ xsdString ≠ rdfLangString ∧ xsdString ≠ rdfDirLangString := by decide
theorem xmlLit_facts : rdfXMLLiteral ≠ [] ∧ rdfXMLLiteral ≠ rdfLangString ∧ rdfXMLLiteral ≠ rdfDirLangString := by decide
theorem htmlLit_facts : rdfHTML ≠ [] ∧ rdfHTML ≠ rdfLangString ∧ rdfHTML ≠ rdfDirLangString := by decide
theorem langString_facts : rdfLangString ≠ [] ∧ rdfLangString ≠ rdfDirLangString := by decide

theorem wf_plain (lex dt : Bytes) (h1 : dt ≠ []) (h2 : dt ≠ rdfLangString) (h3 : dt ≠ rdfDirLangString) :
    WFObj (.lit lex dt none) := by
  simp [WFObj, h1, h2, h3]

theorem firstMap_wf (v : Bytes) (fs : List (Bytes → Option (Bytes × Bytes)))
    (h : ∀ f ∈ fs, ∀ v lex dt, f v = some (lex, dt) → dt ≠ [] ∧ dt ≠ rdfLangString ∧ dt ≠ rdfDirLangString) :
    WFObj (firstMap v fs) := by
  induction fs with
  | nil => exact wf_plain _ _ xsdString_facts.1 xsdString_facts.2.1 xsdString_facts.2.2
  | cons f fs ih =>
    unfold firstMap
    split
    · rename_i lex dt heq
      have := h f (by simp) v lex dt heq
      exact wf_plain _ _ this.1 this.2.1 this.2.2
    · exact ih (fun g hg => h g (by simp [hg]))

theorem nil_facts : ([] : Bytes) ≠ rdfLangString ∧ ([] : Bytes) ≠ rdfDirLangString := by decide

theorem datatypeIRI_spec (E : Env) (a : A) (l : L) (st : St) :
    core (datatypeIRI E a l st).2 = core st ∧ (datatypeIRI E a l st).1 ≠ rdfLangString ∧
      (datatypeIRI E a l st).1 ≠ rdfDirLangString := by
  unfold datatypeIRI
  split
  · have h := core_resolveAsIRI E st l.prefixes (by assumption) (some l.vocab) true
    generalize resolveAsIRI E st l.prefixes _ (some l.vocab) true = rr at h ⊢
    obtain ⟨r, st1⟩ := rr
    cases r with
    | none => exact ⟨h, nil_facts.1, nil_facts.2⟩
    | some v =>
      simp only
      refine ⟨h, ?_, ?_⟩
      · split
        · exact nil_facts.1
        · rename_i hh; simp at hh; exact hh.1
      · split
        · exact nil_facts.2
        · rename_i hh; simp at hh; exact hh.2
  · exact ⟨rfl, nil_facts.1, nil_facts.2⟩

theorem valueResource_spec (E : Env) (n : Node) (a : A) (l : L) (st : St)
    (ht : a.typeof.isSome → a.about.isNone → l.typed.isSome) :
    core (valueResource E n a l st).2 = core st ∧ ∃ o, (valueResource E n a l st).1 = some o ∧ WFObj o := by
  unfold valueResource
  have h : core (if (!l.relValid && l.rev.isNone) = true then res3 E a l st else (none, st)).2 = core st := by
    split <;> simp
  generalize (if (!l.relValid && l.rev.isNone) = true then res3 E a l st else (none, st)) = rr at h ⊢
  obtain ⟨r, st1⟩ := rr
  cases r with
  | some s => exact ⟨h, _, rfl, wf_subj_term s⟩
  | none =>
    simp only
    split
    · rename_i hc
      simp only [Bool.and_eq_true] at hc
      have := ht hc.1 hc.2
      cases hty : l.typed with
      | none => rw [hty] at this; cases this
      | some s => exact ⟨h, _, rfl, wf_subj_term s⟩
    · exact ⟨h, _, rfl, wf_plain _ _ xsdString_facts.1 xsdString_facts.2.1 xsdString_facts.2.2⟩

theorem propertyValue_spec (E : Env) (hE : EnvOK E) (active : Bool) (n : Node) (a : A) (l : L) (st : St)
    (ht : a.typeof.isSome → a.about.isNone → l.typed.isSome) :
    core (propertyValue E active n a l st).2 = core st ∧
      ∀ v, (propertyValue E active n a l st).1 = some v → ∃ o, v = some o ∧ WFObj o := by
  unfold propertyValue
  have h := datatypeIRI_spec E a l st
  generalize datatypeIRI E a l st = rr at h ⊢
  obtain ⟨dt, st1⟩ := rr
  obtain ⟨hc, hd1, hd2⟩ := h
  simp only at hc hd1 hd2 ⊢
  split
  · refine ⟨hc, ?_⟩
    intro v hv
    simp only [Option.some.injEq] at hv
    subst hv
    refine ⟨_, rfl, ?_⟩
    split
    · rename_i hne
      exact wf_plain _ _ (by intro h0; simp [h0] at hne) hd1 hd2
    · exact firstMap_wf _ _ hE
  · split
    · rename_i hne
      refine ⟨hc, ?_⟩
      intro v hv
      simp only [Option.some.injEq] at hv
      subst hv
      exact ⟨_, rfl, wf_plain _ _ (by intro h0; simp [h0] at hne) hd1 hd2⟩
    · split
      · refine ⟨hc, ?_⟩
        intro v hv
        simp only [Option.some.injEq] at hv
        subst hv
        exact ⟨_, rfl, wf_plain _ _ xsdString_facts.1 xsdString_facts.2.1 xsdString_facts.2.2⟩
      · split
        · split
          · refine ⟨hc, ?_⟩
            intro v hv
            simp only [Option.some.injEq] at hv
            subst hv
            exact ⟨_, rfl, wf_plain _ _ xmlLit_facts.1 xmlLit_facts.2.1 xmlLit_facts.2.2⟩
          · exact ⟨hc, by intro v hv; cases hv⟩
        · split
          · split
            · refine ⟨hc, ?_⟩
              intro v hv
              simp only [Option.some.injEq] at hv
              subst hv
              exact ⟨_, rfl, wf_plain _ _ htmlLit_facts.1 htmlLit_facts.2.1 htmlLit_facts.2.2⟩
            · exact ⟨hc, by intro v hv; cases hv⟩
          · split
            · refine ⟨hc, ?_⟩
              intro v hv
              simp only [Option.some.injEq] at hv
              subst hv
              exact ⟨_, rfl, wf_plain _ _ xsdString_facts.1 xsdString_facts.2.1 xsdString_facts.2.2⟩
            · have h2 := valueResource_spec E n a l st1 ht
              generalize valueResource E n a l st1 = r2 at h2 ⊢
              obtain ⟨v2, st2⟩ := r2
              simp only at h2 ⊢
              refine ⟨by rw [h2.1, hc], ?_⟩
              intro v hv
              simp only [Option.some.injEq] at hv
              subst hv
              exact h2.2

theorem applyLang_wf (lang : Option Bytes) (hl : lang ≠ some []) (o : Obj) (ho : WFObj o) :
    ∃ x, applyLang lang (some o) = some x ∧ WFObj x := by
  cases lang with
  | none => exact ⟨o, by simp [applyLang], ho⟩
  | some lg =>
    cases o with
    | iri v => exact ⟨_, by simp [applyLang], ho⟩
    | bnode b => exact ⟨_, by simp [applyLang], ho⟩
    | lit lex dt tg =>
      by_cases hd : dt = xsdString
      · refine ⟨.lit lex rdfLangString (some lg), by simp [applyLang, hd], ?_⟩
        have : lg ≠ [] := by intro h0; apply hl; rw [h0]
        simp [WFObj, langString_facts.1, langString_facts.2, this]
      · exact ⟨_, by simp [applyLang, hd], ho⟩

theorem step11_spec (E : Env) (hE : EnvOK E) (active : Bool) (n : Node) (a : A) (l : L) (st : St) (i : Inv st)
    (hns : l.newSubject.isSome) (ht : a.typeof.isSome → a.about.isNone → l.typed.isSome) (hl : l.lang ≠ some []) :
    Inv (step11 E active n a l st) := by
  unfold step11
  split
  · exact i
  · have h := propertyValue_spec E hE active n a l st ht
    generalize propertyValue E active n a l st = rr at h ⊢
    obtain ⟨v, st1⟩ := rr
    obtain ⟨hc, hv⟩ := h
    simp only at hc hv
    cases v with
    | none => exact (Inv.of_core hc i).failErr
    | some v =>
      simp only
      obtain ⟨o, rfl, ho⟩ := hv v rfl
      have hw := applyLang_wf l.lang hl o ho
      have h2 := core_resolveTokens E l.prefixes (some l.vocab) true (fields (trimSpace (by assumption))) st1
      generalize resolveTokens E l.prefixes (some l.vocab) true _ st1 = r at h2 ⊢
      have i2 : Inv r.2 := Inv.of_core (by rw [h2, hc]) i
      split
      · exact emitEach_inv _ (fun p st i => pushTo_inv _ _ hw p st i) _ _ i2
      · exact emitEach_inv _ (fun p st i => emit_inv_opt i _ p _ hns hw) _ _ i2

/-! ### steps 12, 13, 14, copying -/

theorem step12_spec (ctx : Ctx) (l : L) (st : St) (i : Inv st) (h : ctx.incomplete = [] ∨ ctx.parentSubject.isSome) :
    Inv (step12 ctx l st) := by
  unfold step12
  split
  · rename_i s _
    split
    · exact i
    · rcases h with h | h
      · rw [h]; exact i
      · cases hp : ctx.parentSubject with
        | none => rw [hp] at h; cases h
        | some ps =>
          generalize ctx.incomplete = inc
          induction inc generalizing st with
          | nil => exact i
          | cons x xs ih =>
            simp only [List.foldl_cons]
            apply ih
            cases x with
            | lst id => exact i.pushList _ _ (wf_subj_term s)
            | fwd p => exact i.emit _ _ _ (wf_subj_term s)
            | rev p => exact i.emit _ _ _ (wf_subj_term ps)
  · exact i

theorem childCtx_ok (ctx : Ctx) (l : L) (hns : l.newSubject.isSome) (hl : l.lang ≠ some [])
    (hs : l.skip = true → KidOK ctx) : KidOK (childCtx ctx l) := by
  unfold childCtx
  split
  · rename_i hsk
    have := hs hsk
    exact ⟨this.1, this.2.1, hl⟩
  · cases hn : l.newSubject with
    | none => rw [hn] at hns; cases hns
    | some s =>
      refine ⟨rfl, ?_, hl⟩
      simp only
      split <;> rfl

theorem freshN_spec (k : Nat) (st : St) : core (freshN k st).2 = core st ∧ (freshN k st).1.length = k := by
  induction k generalizing st with
  | zero => exact ⟨rfl, rfl⟩
  | succ k ih =>
    have := ih st.fresh.2
    simp only [freshN, List.length_cons]
    exact ⟨by rw [this.1]; rfl, by rw [this.2]⟩

theorem listCells_inv (cs : List Nat) (xs : List Obj) (st : St) (i : Inv st) (hx : ∀ x ∈ xs, WFObj x) :
    Inv (listCells cs xs st) := by
  induction cs generalizing xs st with
  | nil => simpa [listCells] using i
  | cons c cs ih =>
    cases xs with
    | nil => simpa [listCells] using i
    | cons x xs =>
      cases cs with
      | nil =>
        simp only [listCells]
        exact (i.emit _ _ _ (hx x (by simp))).emit _ _ _ trivial
      | cons d cs =>
        simp only [listCells]
        exact ih _ _ ((i.emit _ _ _ (hx x (by simp))).emit _ _ _ trivial) (fun y hy => hx y (by simp [hy]))

theorem flushLists_inv (pm : List (Bytes × Nat)) (subj : Option Subj) (hs : subj.isSome) (m : List (Bytes × Nat)) (st : St)
    (i : Inv st) : Inv (flushLists pm subj m st) := by
  induction m generalizing st with
  | nil => exact i
  | cons e rest ih =>
    obtain ⟨p, id⟩ := e
    simp only [flushLists]
    split
    · exact ih _ i
    · split
      · exact ih _ (emit_inv_opt i _ _ _ hs ⟨_, rfl, trivial⟩)
      · rename_i hne
        have hf := freshN_spec (st.getList id).length st
        apply ih
        apply emit_inv_opt _ _ _ _ hs
        · cases hc : (freshN (st.getList id).length st).1 with
          | nil =>
            have := hf.2
            rw [hc] at this
            simp only [List.length_nil] at this
            have : st.getList id = [] := List.eq_nil_of_length_eq_zero this.symm
            simp [this] at hne
          | cons c cs => exact ⟨_, rfl, trivial⟩
        · exact listCells_inv _ _ _ (Inv.of_core hf.1 i) (getList_wf i.2.2 id)

theorem copyBindings_obj (ds : List Stmt) (b : Subj × Subj × Bytes × Obj) (hb : b ∈ copyBindings ds) :
    ∃ t ∈ ds, b.2.2.2 = t.o := by
  unfold copyBindings at hb
  simp only [List.mem_flatMap] at hb
  obtain ⟨c, _, hb⟩ := hb
  split at hb
  · simp only [List.mem_flatMap] at hb
    obtain ⟨ty, _, hb⟩ := hb
    split at hb
    · simp only [List.mem_filterMap] at hb
      obtain ⟨t, ht, hb⟩ := hb
      split at hb
      · simp only [Option.some.injEq] at hb
        exact ⟨t, ht, by rw [← hb]⟩
      · cases hb
    · cases hb
  · cases hb

theorem copyStep_inv (st : St) (i : Inv st) : Inv (copyStep st) := by
  obtain ⟨hs, ho, hl⟩ := i
  refine ⟨hs, ?_, hl⟩
  intro t ht
  simp only [copyStep, List.mem_filter, List.mem_append, List.mem_filterMap] at ht
  rcases ht.1 with h | ⟨b, hb, hbt⟩
  · exact ho t h
  · split at hbt
    · cases hbt
    · simp only [Option.some.injEq] at hbt
      obtain ⟨u, hu, he⟩ := copyBindings_obj _ b hb
      rw [← hbt]
      simp only
      rw [he]
      exact ho u (List.mem_eraseDups.mp hu)

end RdfModel.Rdfad
