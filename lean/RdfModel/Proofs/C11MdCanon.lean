/-
  Proofs/C11MdCanon — the Microdata decoder model reads the writer's canonical document of every expressible graph
  back to that graph (composition of Proofs/C11MdFlat.decode_eq_denote with Proofs/C11Microdata.canonDoc_denote).
-/
import RdfModel.Proofs.C11MdFlat
set_option linter.unusedSimpArgs false
namespace RdfModel.Mdd
open RdfModel RdfModel.Desc RdfModel.Spec.Html RdfModel.Spec.Microdata

section
variable {β : Type} [DecidableEq β]

/-- the graph's names and subject IRIs are read by Go's (Unicode-aware) tokenisation exactly as by HTML's -/
def GoTok (g : List (Triple β)) : Prop :=
  ∀ t ∈ g, Mdd.fields (trimSpace t.p) = [t.p] ∧ t.p ≠ [] ∧ ∀ i, t.s = .iri i → trimSpace i = trimWs i

def canonA (g : List (Triple β)) : List (Attrs × List (Triple β)) :=
  (g.filter isIriSubj).map (fun t => (({ itemscope := true, itemid := (match t.s with | .iri i => some i | _ => none) } : Attrs), [t]))

def canonB (g : List (Triple β)) : List (Attrs × List (Triple β)) :=
  (bsubjectsOf g).map (fun b => (({ itemscope := true } : Attrs), g.filter (hasSubj b)))

theorem canonDoc_items (g : List (Triple β)) : canonDoc g = docOf ((canonA g ++ canonB g).map mkItem) := by
  simp only [canonDoc, canonA, canonB, List.map_append, List.map_map]
  rfl

theorem canon_items_ok (base : Str) (g : List (Triple β)) (hg : expressible base g = true) (ht : GoTok g) :
    ∀ x ∈ canonA g ++ canonB g, itemOk x ∧ ItemTok x := by
  have hok : ∀ t ∈ g, okTriple base t = true := by simpa [expressible] using hg
  have leaf : ∀ t ∈ g, LeafTok t := by
    intro t htg
    refine ⟨(ht t htg).1, (ht t htg).2.1, (okTriple_leafOk base t (hok t htg)).2⟩
  intro x hx
  rcases List.mem_append.mp hx with hx | hx
  · obtain ⟨t, htF, rfl⟩ := List.mem_map.mp hx
    have htg : t ∈ g := (List.mem_filter.mp htF).1
    refine ⟨⟨rfl, rfl, rfl, ?_⟩, ⟨?_, ?_⟩⟩
    · intro t' ht'
      simp only [List.mem_singleton] at ht'
      subst ht'
      exact okTriple_leafOk base _ (hok _ htg)
    · intro v hv
      simp only at hv
      cases hs : t.s with
      | iri i =>
        rw [hs] at hv
        simp only [Option.some.injEq] at hv
        subst hv
        exact (ht t htg).2.2 i hs
      | bnode b => rw [hs] at hv; simp at hv
      | lit l d tg => rw [hs] at hv; simp at hv
    · intro t' ht'
      simp only [List.mem_singleton] at ht'
      subst ht'
      exact leaf _ htg
  · obtain ⟨b, _, rfl⟩ := List.mem_map.mp hx
    refine ⟨⟨rfl, rfl, rfl, ?_⟩, ⟨?_, ?_⟩⟩
    · intro t' ht'
      exact okTriple_leafOk base _ (hok _ (List.mem_filter.mp ht').1)
    · intro v hv
      simp at hv
    · intro t' ht'
      exact leaf _ (List.mem_filter.mp ht').1

omit [DecidableEq β] in
theorem term_map_comp {γ δ : Type} (f : β → γ) (h : γ → δ) (t : Term β) : Term.map h (Term.map f t) = Term.map (h ∘ f) t := by
  cases t <;> rfl

omit [DecidableEq β] in
theorem triple_map_comp {γ δ : Type} (f : β → γ) (h : γ → δ) (t : Triple β) :
    Triple.map h (Triple.map f t) = Triple.map (h ∘ f) t := by
  simp [Triple.map, term_map_comp]

/-- every blank node of an expressible graph is a subject -/
theorem bnodes_are_subjects (base : Str) (g : List (Triple β)) (hg : expressible base g = true) (b : β)
    (hb : b ∈ bnodesOf g) : b ∈ bsubjectsOf g := by
  have hok : ∀ t ∈ g, okTriple base t = true := by simpa [expressible] using hg
  simp only [bnodesOf, mem_udedup, List.mem_flatMap, List.mem_append] at hb
  obtain ⟨t, htg, h⟩ := hb
  simp only [bsubjectsOf, mem_udedup, List.mem_flatMap]
  rcases h with h | h
  · exact ⟨t, htg, h⟩
  · exfalso
    have := (okTriple_leafOk base t (hok t htg)).2
    cases ho : t.o with
    | bnode b' => exact this b' ho
    | iri i => rw [ho] at h; simp [termBnodes] at h
    | lit l d tg => rw [ho] at h; simp [termBnodes] at h

theorem canon_roundtrip (base : Str) (tm mm : List (Bytes → Option (Term Nat))) (g : List (Triple β))
    (hg : expressible base g = true) (ht : GoTok g) :
    ∃ (stmts : List Stmt) (τ : β → Nat),
      decode (specEnv base tm mm) (ofSpecDoc (canonDoc g)) = .ok stmts [] ∧
      (∀ a ∈ bnodesOf g, ∀ b ∈ bnodesOf g, τ a = τ b → a = b) ∧
      stmts.Perm (g.map (Triple.map τ)) := by
  let lbl : β → Str := fun _ => []
  let L := canonA g ++ canonB g
  have hL := canon_items_ok base g hg ht
  refine ⟨(denote base (canonDoc g)).map (Triple.map (sigmaL base L)), sigmaL base L ∘ canonPos lbl g, ?_, ?_, ?_⟩
  · rw [canonDoc_items g]
    exact decode_eq_denote base tm mm L hL
  · intro a ha b hb hab
    have ha' := bnodes_are_subjects base g hg a ha
    have hb' := bnodes_are_subjects base g hg b hb
    simp only [Function.comp, canonPos, ha', hb', ↓reduceIte] at hab
    have hlenA : (canonA g).length = (g.filter isIriSubj).length := by simp [canonA]
    have hget : ∀ c ∈ bsubjectsOf g, L[(g.filter isIriSubj).length + indexOf c (bsubjectsOf g)]? =
        some (({ itemscope := true } : Attrs), g.filter (hasSubj c)) := by
      intro c hc
      have hidx : ∀ (l : List β), c ∈ l → l[indexOf c l]? = some c := by
        intro l hl
        induction l with
        | nil => simp at hl
        | cons x xs ih =>
          by_cases hx : x = c
          · simp [indexOf, hx]
          · have : c ∈ xs := by
              rcases List.mem_cons.mp hl with h | h
              · exact absurd h.symm hx
              · exact h
            simp [indexOf, hx, ih this]
      show (canonA g ++ canonB g)[_]? = _
      rw [List.getElem?_append_right (by omega)]
      rw [hlenA, Nat.add_sub_cancel_left]
      simp [canonB, hidx _ hc]
    have := sigmaL_inj base L _ _ _ _ (hget a ha') (hget b hb') rfl rfl hab
    exact indexOf_inj (bsubjectsOf g) a b ha' hb' (by omega)
  · have := (canonDoc_denote lbl base g hg).map (Triple.map (sigmaL base L))
    refine this.trans ?_
    rw [List.map_map]
    apply List.Perm.of_eq
    apply List.map_congr_left
    intro t _
    exact triple_map_comp _ _ t

end
end RdfModel.Mdd

/-! ## a checkable sufficient condition for the tokenisation hypotheses -/
namespace RdfModel.Mdd
open RdfModel RdfModel.Spec.Html RdfModel.Spec.Microdata

/-- printable ASCII without space: no byte that starts (or is) a `unicode.IsSpace` rune -/
def plainAscii (s : Bytes) : Bool := s.all (fun c => 33 ≤ c && c ≤ 126)

theorem spaceLen_plain (c : Nat) (r : Bytes) (h : 33 ≤ c ∧ c ≤ 126) : spaceLen (c :: r) = 0 := by
  unfold spaceLen
  have e1 : (c == 9 || c == 10 || c == 11 || c == 12 || c == 13 || c == 32) = false := by
    simp only [Bool.or_eq_false_iff, beq_eq_false_iff_ne, ne_eq]; omega
  have e2 : (c == 0xC2) = false := by simp only [beq_eq_false_iff_ne, ne_eq]; omega
  have e3 : (c == 0xE1) = false := by simp only [beq_eq_false_iff_ne, ne_eq]; omega
  have e4 : (c == 0xE2) = false := by simp only [beq_eq_false_iff_ne, ne_eq]; omega
  have e5 : (c == 0xE3) = false := by simp only [beq_eq_false_iff_ne, ne_eq]; omega
  simp [e1, e2, e3, e4, e5]

theorem fieldsGo_plain (s acc : Bytes) (h : plainAscii s = true) :
    fieldsGo 0 s acc = flush (s.reverse ++ acc) := by
  induction s generalizing acc with
  | nil => simp [fieldsGo]
  | cons c r ih =>
    simp only [plainAscii, List.all_cons, Bool.and_eq_true, decide_eq_true_eq] at h
    unfold fieldsGo
    simp only [spaceLen_plain c r h.1, ↓reduceIte]
    rw [ih (c :: acc) (by simpa [plainAscii] using h.2)]
    simp

theorem trimLeftGo_plain (s : Bytes) (h : plainAscii s = true) : trimLeftGo 0 s = s := by
  cases s with
  | nil => rfl
  | cons c r =>
    simp only [plainAscii, List.all_cons, Bool.and_eq_true, decide_eq_true_eq] at h
    unfold trimLeftGo
    simp [spaceLen_plain c r h.1]

theorem trimRightGo_plain (s : Bytes) (h : plainAscii s = true) : trimRightGo 0 s [] = s := by
  induction s with
  | nil => rfl
  | cons c r ih =>
    simp only [plainAscii, List.all_cons, Bool.and_eq_true, decide_eq_true_eq] at h
    unfold trimRightGo
    simp only [spaceLen_plain c r h.1, ↓reduceIte, List.reverse_nil, List.nil_append]
    rw [ih (by simpa [plainAscii] using h.2)]

theorem trimSpace_plain (s : Bytes) (h : plainAscii s = true) : trimSpace s = s := by
  unfold trimSpace
  rw [trimLeftGo_plain s h, trimRightGo_plain s h]

theorem fields_plain (s : Bytes) (h : plainAscii s = true) (hne : s ≠ []) : Mdd.fields (trimSpace s) = [s] := by
  rw [trimSpace_plain s h]
  unfold Mdd.fields
  rw [fieldsGo_plain s [] h]
  unfold flush
  have : (s.reverse ++ []).isEmpty = false := by cases s <;> simp_all
  simp [this, hne]

theorem trimWs_plain (s : Bytes) (h : plainAscii s = true) : trimWs s = s := by
  have hd : ∀ l : Bytes, plainAscii l = true → l.dropWhile isWs = l := by
    intro l hl
    cases l with
    | nil => rfl
    | cons c r =>
      simp only [plainAscii, List.all_cons, Bool.and_eq_true, decide_eq_true_eq] at hl
      have : isWs c = false := by
        unfold isWs
        simp only [Bool.or_eq_false_iff, beq_eq_false_iff_ne, ne_eq]; omega
      simp [List.dropWhile, this]
  unfold trimWs
  rw [hd s h, hd s.reverse (by simpa [plainAscii] using h)]
  simp

/-- graphs whose predicate names and subject IRIs are printable ASCII without spaces satisfy `GoTok` -/
theorem goTok_of_plain {β : Type} (g : List (Desc.Triple β))
    (h : ∀ t ∈ g, plainAscii t.p = true ∧ t.p ≠ [] ∧ ∀ i, t.s = .iri i → plainAscii i = true) : GoTok g := by
  intro t ht
  obtain ⟨h1, h2, h3⟩ := h t ht
  refine ⟨fields_plain t.p h1 h2, h2, ?_⟩
  intro i hi
  rw [trimSpace_plain i (h3 i hi), trimWs_plain i (h3 i hi)]

end RdfModel.Mdd
