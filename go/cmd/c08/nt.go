package main

// C07, N-Triples side: plain N-Triples documents (absolute IRIs, labels, literals with the N-Triples
// escapes, one statement per line, comments, blank lines) through encoding/ntriples, nquads, turtle
// and trig: identical triples.

import (
	"fmt"
	"regexp"
	"strconv"
	"strings"

	"verifharness/vh"
)

var ntIRIs = []string{"http://e/a", "http://e/b#c", "https://example.org/x/y?q=1", "urn:x:y", "mailto:a@b.c", "http://e/é", "http://e/\U0001F41B", "http://e/%C3%A9",
	"http://E/A", "http://e/a;b,c", "http://e/(a)", "tag:e,2000:x", "http://e/", "http://e", "ex://h-1.x/~t/q.r"}

var ntLabels = []string{"a", "b", "b1", "x.y", "n-1", "0", "é", "b0", "a.b-c", "_u", "9z"}

var labelWithColon = regexp.MustCompile(`_:[^\s<>"]*:`)

// crCommentFollowed: a comment ended by a lone CR with something other than white space / comments before the next LF.
var crCommentFollowed = regexp.MustCompile(`#[^\r\n]*\r[^\n]*[^\s][^\n]*`)

func ntEscape(r *vh.Rng, s string, iri bool) string {
	var sb strings.Builder
	for _, c := range s {
		ech := map[rune]string{'\t': `\t`, '\b': `\b`, '\n': `\n`, '\r': `\r`, '\f': `\f`, '"': `\"`, '\'': `\'`, '\\': `\\`}
		must := false
		if iri {
			must = c <= 0x20 || strings.ContainsRune("<>\"{}|^`\\", c)
		} else {
			must = c == '"' || c == '\\' || c == '\n' || c == '\r'
		}
		k := r.Intn(10)
		switch {
		case !must && k < 7:
			sb.WriteRune(c)
		case !iri && ech[c] != "" && k < 9:
			sb.WriteString(ech[c])
		case c <= 0xFFFF && r.Bool():
			if r.Bool() {
				fmt.Fprintf(&sb, `\u%04X`, c)
			} else {
				fmt.Fprintf(&sb, `\u%04x`, c)
			}
		default:
			if r.Bool() {
				fmt.Fprintf(&sb, `\U%08X`, c)
			} else {
				fmt.Fprintf(&sb, `\U%08x`, c)
			}
		}
	}
	return sb.String()
}

func genNT(r *vh.Rng) []byte {
	var sb strings.Builder
	ws := func(must bool) {
		n := r.Intn(3)
		if must && n == 0 && r.Chance(90) {
			n = 1
		}
		for i := 0; i < n; i++ {
			if r.Chance(80) {
				sb.WriteByte(' ')
			} else {
				sb.WriteByte('\t')
			}
		}
	}
	eol := func() {
		switch k := r.Intn(100); {
		case k < 80:
			sb.WriteString("\n")
		case k < 93:
			sb.WriteString("\r\n")
		case k < 96:
			sb.WriteString("\r")
		default:
			sb.WriteString("\n\n")
		}
	}
	iri := func() {
		sb.WriteString("<" + ntEscape(r, vh.Pick(r, ntIRIs), true) + ">")
	}
	bn := func() {
		l := vh.Pick(r, ntLabels)
		if r.Chance(2) {
			l = "a:b"
		}
		sb.WriteString("_:" + l)
	}
	n := r.Intn(6)
	for i := 0; i < n; i++ {
		switch k := r.Intn(10); {
		case k == 0:
			ws(false)
			sb.WriteString("#" + vh.Pick(r, commentTexts))
		case k == 1:
			ws(false)
		default:
			ws(false)
			if r.Chance(70) {
				iri()
			} else {
				bn()
			}
			ws(true)
			iri()
			ws(true)
			switch r.Intn(6) {
			case 0, 1:
				iri()
			case 2:
				bn()
			default:
				var lex strings.Builder
				for j, m := 0, r.Intn(5); j < m; j++ {
					lex.WriteRune(vh.Pick(r, lexRunes))
				}
				sb.WriteString("\"" + ntEscape(r, lex.String(), false) + "\"")
				switch r.Intn(5) {
				case 0, 1:
					sb.WriteString("@" + vh.Pick(r, langTags))
				case 2:
					sb.WriteString("^^")
					iri()
				}
			}
			ws(false)
			sb.WriteString(".")
			ws(false)
			if r.Chance(15) {
				sb.WriteString("#" + vh.Pick(r, commentTexts))
			}
		}
		if i+1 < n || r.Chance(80) {
			eol()
		}
	}
	return []byte(sb.String())
}

func (h *harness) c07nt(kind string, b []byte) {
	op := "nt " + vh.X(b)
	nt := goDecode("nt", "", b)
	h.rep.Count("stream:" + kind + "-nt")
	h.rep.Count("c07:nt-through-four")
	h.rep.Count("go-verdict:ntriples:" + nt.verdict)
	h.rep.Eval(op, len(nt.stmts) > 0 && nt.verdict == "clean")
	if nt.verdict != "clean" {
		return
	}
	for _, pkg := range []string{"nq", "turtle", "trig"} {
		o := goDecode(pkg, "", b)
		if o.verdict == "clean" && strings.Join(o.stmts, ";") == strings.Join(nt.stmts, ";") {
			continue
		}
		var fs []finding
		detail := fmt.Sprintf("C07 N-Triples document %s through %s: ntriples gives %d triples, %s ends %s (%s) with %d", strconv.Quote(string(b)), pkg, len(nt.stmts), pkg, o.verdict, o.errText, len(o.stmts))
		if f, ok := h.active["bnode-label-contains-colon"]; ok && pkg != "nq" && labelWithColon.Match(b) {
			fs = append(fs, finding{kind: "known", key: f.Key, goR: nt.wire(), model: o.wire(), detail: f.What})
		} else if f, ok := h.active["comment-cr"]; ok && pkg != "nq" && crCommentFollowed.Match(b) {
			fs = append(fs, finding{kind: "known", key: f.Key, goR: nt.wire(), model: o.wire(), detail: "C07 inside known class comment-cr: " + f.What})
		} else {
			fs = append(fs, finding{kind: "violation", key: "C07", goR: nt.wire(), model: o.wire(), detail: detail})
		}
		h.record(op, nil, fs)
	}
}

func (h *harness) ntDocs(n int) {
	r := h.r.Fork()
	for i := 0; i < n; i++ {
		h.c07nt("gen", genNT(r.Fork()))
	}
}
