/-
  Driver handler for component `offx` (property C16, Turtle / TriG token producers with text offsets).

    offx.tok <pkg:turtle|trig> <kind> <end:eof|io> <capture 0|1> <legacy 0|1> <labelOnly 0|1> <columns 0|1>
             <byte,line,col> x<hex bytes>
      → ok <value>[,<value>] <rest> <range> <doc> <bo>  |  err:<class> <error position>  |  panic
        kind  = iriref | string | pname_ns | pname | bnode | langtag | numeric
        rest  = x<hex of the runes left, UTF-8 re-encoded>
        range = b.l.c-b.l.c | -        the token's `Offsets`
        doc   = b.l.c | -              the text writer's offset afterwards (`-` without capture)
        bo    = the rune buffer's byte offset afterwards
        error = E- | Eb<byte> | Et<b.l.c> | Er<b.l.c>-<b.l.c>
      columns = 0 prints `*` for every column (input outside `TW.simple`).

    offx.opts <plain|htmldefaults|htmldefaults-legacy> <option list>
      → <writer> <base> <factory> <listener>       the effective configuration `DecOpts.newDecoder` computes
        (htmldefaults: `newDecoderHtmlDefaults`, which re-issues the compiled options on the inner document
        configuration; -legacy = the unrepaired forwarding order)
        option list = options separated by `;`, each a chain of setters separated by `,` (`-` = `DecoderConfig{}`):
                      c0 | c1 (SetCaptureTextOffsets)  i<b>.<l>.<c> (SetInitialTextOffset)  b<n> (SetDefaultBase /
                      SetLocation, n-th base)  f<n> (SetBlankNodeStringFactory, n-th factory)  l<n> (directive listeners)
        writer = b.l.c initial offset of the text writer | - (no capture);  base/factory/listener = n | -
-/
import RdfModel.Driver.Wire
import RdfModel.Driver.NQO
import RdfModel.Driver.Ttl
import RdfModel.Model.TurtleOffsets
import RdfModel.Model.DecoderOpts
import RdfModel.Gen.TtlTables
namespace RdfModel.Driver.Offx
open RdfModel RdfModel.Wire RdfModel.TW RdfModel.NQO RdfModel.TtlO RdfModel.Driver.NQO

def showDoc (withCols : Bool) (init : Offset) : Option Hist → String
  | none => "-"
  | some h => showOff withCols (histOffset onePer init h)

def showRO {α : Type} (f : α → String) (withCols : Bool) (init : Offset) : TtlO.RO α → String
  | .ok v rg s rest =>
    "ok " ++ f v ++ " " ++ tokOfRunes (runes rest) ++ " " ++ showRange withCols init rg ++ " " ++
      showDoc withCols init s.doc ++ " " ++ toString s.bo
  | .err c o => "err:" ++ Driver.Ttl.showClass c ++ " " ++ showErrPos withCols (evalEOff onePer init o)
  | .panic => "panic"

def parseSetter (t : String) : Option DecOpts.Setter :=
  match t.toList with
  | ['c', '0'] => some (.capture false)
  | ['c', '1'] => some (.capture true)
  | 'i' :: r =>
    match (String.ofList r).splitOn "." with
    | [b, l, c] => do pure (.initial ⟨← b.toNat?, ← l.toNat?, ← c.toNat?⟩)
    | _ => none
  | 'b' :: r => (String.ofList r).toNat?.map .base
  | 'f' :: r => (String.ofList r).toNat?.map .factory
  | 'l' :: r => (String.ofList r).toNat?.map .listener
  | _ => none

def parseOptList (s : String) : Option (List (List DecOpts.Setter)) :=
  ((s.splitOn ";").filter (· ≠ "")).mapM (fun o =>
    if o = "-" then some [] else (o.splitOn ",").mapM parseSetter)

def showIdx : Option Nat → String
  | some n => toString n
  | none => "-"

def handle (op : String) (args : List String) : Option String :=
  match op, args with
  | "opts", [kind, o] => do
    let os ← parseOptList o
    let e ← (if kind = "plain" then some (DecOpts.newDecoder os)
      else if kind = "htmldefaults" then some (DecOpts.newDecoderHtmlDefaults false os)
      else if kind = "htmldefaults-legacy" then some (DecOpts.newDecoderHtmlDefaults true os)
      else none)
    pure ((match e.writer with | some w => showOff true w | none => "-") ++ " " ++ showIdx e.base ++ " " ++
      showIdx e.factory ++ " " ++ showIdx e.listener)
  | "tok", [pkg, kind, e, cap, legacy, labelOnly, wc, init, inp] => do
    let T ← Driver.Ttl.tablesOf pkg
    let trig := pkg = "trig"
    let e ← Driver.Ttl.endOf e
    let init ← parseOffset init
    let rs ← sizedTok inp
    let withCols := wc = "1"
    let s := S.init (cap = "1")
    if kind = "iriref" then pure (showRO tokOfRunes withCols init (produceIRIREF T e s rs))
    else if kind = "string" then pure (showRO tokOfRunes withCols init (produceString T e (legacy = "1") s rs))
    else if kind = "pname_ns" then pure (showRO tokOfRunes withCols init (producePNAME_NS T e trig s rs))
    else if kind = "pname" then
      pure (showRO (fun (p : List Nat × List Nat) => tokOfRunes p.1 ++ "," ++ tokOfRunes p.2) withCols init
        (producePrefixedName T e trig s rs))
    else if kind = "bnode" then pure (showRO tokOfRunes withCols init (produceBlankNode T e (labelOnly = "1") s rs))
    else if kind = "langtag" then pure (showRO tokOfRunes withCols init (produceLANGTAG e s rs))
    else if kind = "numeric" then
      pure (showRO (fun (p : Ttl.NumKind × List Nat) => Driver.Ttl.showKind p.1 ++ "," ++ tokOfRunes p.2) withCols init
        (produceNumericLiteral e s rs))
    else none
  | _, _ => none

end RdfModel.Driver.Offx
