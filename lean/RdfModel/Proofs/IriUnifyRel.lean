/-
  Part IRIU — lemmas about `IriUnify.relativizeCode` (the model of `BaseIRI.RelativizeIRI` over the exact
  resolver model Model/ParsedIRI.lean). Statements of the property theorems: Props/IriUnify.lean.
-/
import RdfModel.Model.IriUnify
import RdfModel.Props.C12WrapResolve
namespace RdfModel.Proofs.IriUnify
open RdfModel RdfModel.GoUrlFull RdfModel.PIRI RdfModel.IriUnify
open RdfModel.Prefix (BaseIRI Outcome)

/-- `parsed.IsAbs()` of `ParseIRI(b)`; `false` when the base does not parse -/
def baseIsAbs (b : Str) : Bool :=
  match parseIRI b with
  | .ok p => p.isAbs
  | .error _ => false

/-- inversion of `relativizeCode … = .res (.some r)` -/
theorem relativizeCode_some {b v r : Str} (h : relativizeCode b v = .res (.some r)) :
    ∃ p rb, parseIRI b = .ok p ∧ newBaseIRICode p = some rb ∧ relativizeP p rb v = .some r := by
  unfold relativizeCode at h
  split at h
  · cases h
  · rename_i p hp
    split at h
    · cases h
    · rename_i rb hrb
      refine ⟨p, rb, hp, hrb, ?_⟩
      injection h

/-- the root indices exist exactly for an absolute base -/
theorem newBaseIRICode_root {p : ParsedIRI} {rb : BaseIRI} (h : newBaseIRICode p = some rb) :
    rb.root.isSome = p.isAbs ∧ rb.original = p.str := by
  unfold newBaseIRICode at h
  split at h
  · cases h
  · rename_i ix hix
    injection h with h
    subst h
    refine ⟨?_, rfl⟩
    unfold baseIndices at hix
    by_cases ha : p.isAbs = true
    · simp only [ha, if_true] at hix
      split at hix
      · injection hix with hix; subst hix; simp [ha]
      · cases hix
    · simp only [ha] at hix
      injection hix with hix; subst hix
      simp at ha; simp [ha]

/-- inversion of the verification step -/
theorem relativizeP_some {p : ParsedIRI} {rb : BaseIRI} {v r : Str} (h : relativizeP p rb v = .some r) :
    candidateCode rb v = .some r ∧ [0x2f, 0x2f].isPrefixOf r = false ∧
    (rb.root.isSome = true → ∃ t, p.parseRef r = .ok t ∧ t.str = v) := by
  unfold relativizeP at h
  split at h
  · rename_i rel hc
    split at h
    · cases h
    · rename_i hpre
      split at h
      · rename_i hroot
        split at h
        · rename_i t ht
          split at h
          · rename_i hv
            injection h with h; subst h
            exact ⟨hc, Bool.eq_false_iff.mpr hpre, fun _ => ⟨t, ht, hv⟩⟩
          · cases h
        · cases h
        · cases h
      · rename_i hroot
        injection h with h; subst h
        exact ⟨hc, Bool.eq_false_iff.mpr hpre, fun hr => absurd hr hroot⟩
  · rename_i o hne
    exact absurd h (hne r)

theorem relativize_sound_code_core (b v r : Str) (h : relativizeCode b v = .res (.some r))
    (habs : baseIsAbs b = true) :
    resolveStr b r = .ok (some v) ∧ [0x2f, 0x2f].isPrefixOf r = false := by
  obtain ⟨p, rb, hp, hrb, hrel⟩ := relativizeCode_some h
  obtain ⟨_, hpre, hver⟩ := relativizeP_some hrel
  have hroot := (newBaseIRICode_root hrb).1
  have hpa : p.isAbs = true := by simpa [baseIsAbs, hp] using habs
  obtain ⟨t, ht, htv⟩ := hver (by rw [hroot, hpa])
  refine ⟨?_, hpre⟩
  unfold resolveStr
  rw [hp]
  simp only [ht, htv]

/-- for a base that is not absolute only the "#…" / "?…" suffix forms are offered: the IRI is the printed base
    followed by the offered reference -/
theorem relativize_rel_suffix_core (b v r : Str) (p : ParsedIRI) (hp : parseIRI b = .ok p) (hna : p.isAbs = false)
    (h : relativizeCode b v = .res (.some r)) :
    v = p.str ++ r ∧ (r.head? = some 0x23 ∨ r.head? = some 0x3f) := by
  obtain ⟨p', rb, hp', hrb, hrel⟩ := relativizeCode_some h
  rw [hp] at hp'; injection hp' with hp'; subst hp'
  obtain ⟨hc, _, _⟩ := relativizeP_some hrel
  obtain ⟨hroot, horig⟩ := newBaseIRICode_root hrb
  have hrn : rb.root = none := by
    cases hr : rb.root with
    | none => rfl
    | some x => rw [hr, hna] at hroot; cases hroot
  unfold candidateCode at hc
  simp only [hrn] at hc
  split at hc
  · rename_i r' hfirst
    injection hc with hc; subst hc
    split at hfirst
    · rename_i hcond
      obtain ⟨hlen, _, hpre⟩ := hcond
      have hv : v = rb.original ++ v.drop rb.original.length := by
        have := List.prefix_iff_eq_append.mp (List.isPrefixOf_iff_prefix.mp hpre)
        exact this.symm
      have hhead : ∀ c, v[rb.original.length]? = some c → (v.drop rb.original.length).head? = some c := by
        intro c hcx
        rw [List.head?_drop]; exact hcx
      split at hfirst
      · rename_i h23
        injection hfirst with hfirst; subst hfirst
        exact ⟨by rw [← horig]; exact hv, Or.inl (hhead _ h23)⟩
      · split at hfirst
        · rename_i h3f
          injection hfirst with hfirst; subst hfirst
          exact ⟨by rw [← horig]; exact hv, Or.inr (hhead _ h3f.2)⟩
        · cases hfirst
    · cases hfirst
  · cases hc

/-- RFC 3986 corollary through gourl's sub-language theorem -/
theorem relativize_sound_rfc_core (b v r : Str) (h : relativizeCode b v = .res (.some r))
    (habs : baseIsAbs b = true)
    (hl : C12W.ResolveLang (Spec.RFC3986.split b) (Spec.RFC3986.split r) = true) :
    Spec.RFC3986.resolve b r = v := by
  have h1 := (relativize_sound_code_core b v r h habs).1
  have h2 := C12W.resolve_eq_rfc_partial b r hl
  rw [h1] at h2
  injection h2 with h2
  injection h2 with h2
  exact h2.symm

theorem ok_of_isOk {α ε : Type} {x : Except ε α}
    (h : (match x with | .ok _ => true | .error _ => false) = true) : ∃ q, x = .ok q := by
  cases x with
  | ok q => exact ⟨q, rfl⟩
  | error e => simp at h

theorem parseRef_ok_of_parse (p : ParsedIRI) (r : Str) (q : ParsedIRI) (hr : parseIRI r = .ok q) :
    ∃ t, p.parseRef r = .ok t := by
  unfold ParsedIRI.parseRef
  rw [hr]
  cases hres : p.resolveReference q with
  | ok t => exact ⟨t, by simp [hres]⟩
  | panic => exact absurd hres (C12W.resolveReference_never_panics p q)

/-- `NewBaseIRI` never dereferences a nil `baseRoot` / `baseSubpathParsed`: "/" and "./" always parse and
    `ResolveReference` never panics -/
theorem relativizeCode_no_basePanic_core (b v : Str) : relativizeCode b v ≠ .basePanic := by
  unfold relativizeCode
  split
  · simp
  · rename_i p hp
    obtain ⟨q1, hq1⟩ := ok_of_isOk (x := parseIRI [0x2f]) (by decide +kernel)
    obtain ⟨q2, hq2⟩ := ok_of_isOk (x := parseIRI [0x2e, 0x2f]) (by decide +kernel)
    obtain ⟨t1, h1⟩ := parseRef_ok_of_parse p [0x2f] q1 hq1
    obtain ⟨t2, h2⟩ := parseRef_ok_of_parse p [0x2e, 0x2f] q2 hq2
    have : ∃ ix, baseIndices p = some ix := by
      unfold baseIndices lenOfParse
      simp only [h1, h2]
      split <;> exact ⟨_, rfl⟩
    obtain ⟨ix, hix⟩ := this
    unfold newBaseIRICode
    rw [hix]
    simp

end RdfModel.Proofs.IriUnify
