package main

// Known-finding classes of property C12: decidable predicates on the *input* (base, reference).
// Mirrored by RdfModel.C12.classes (lean/RdfModel/Props/C12Defs.lean); the driver op `iri.classes`
// lets the harness check that both implementations of the predicates agree on every generated input.

import "strings"

func special(s string) bool {
	s = strings.ToLower(s)
	return s == "http" || s == "https" || s == "file"
}

func hasUpper(s string) bool {
	for i := 0; i < len(s); i++ {
		if 'A' <= s[i] && s[i] <= 'Z' {
			return true
		}
	}
	return false
}

// userinfo ("" , false when absent) and host[:port] of an authority
func authSplit(a string) (ui string, hasUI bool, hostport string) {
	if i := strings.IndexByte(a, '@'); i >= 0 {
		return a[:i], true, a[i+1:]
	}
	return "", false, a
}

func hasHigh(s string) bool {
	for i := 0; i < len(s); i++ {
		if s[i] >= 0x80 {
			return true
		}
	}
	return false
}

// plainUserinfo: what net/url prints back unchanged: [A-Za-z0-9-._~$&+,;=]* with at most one ':'.
func plainUserinfo(s string) bool {
	colons := 0
	for i := 0; i < len(s); i++ {
		c := s[i]
		switch {
		case isAlpha(c) || isDigit(c) || strings.IndexByte("-._~$&+,;=", c) >= 0:
		case c == ':':
			colons++
		default:
			return false
		}
	}
	return colons <= 1
}

func segmentsOf(p string) []string { return strings.Split(p, "/") }

func hasDotSegment(p string) bool {
	for _, s := range segmentsOf(p) {
		if s == "." || s == ".." {
			return true
		}
	}
	return false
}

// dotdotThenEmpty: walking the segments of an absolute path, a ".." leaves the output empty and is
// directly followed by an empty segment that is not the last one.
func dotdotThenEmpty(full string) bool {
	if !strings.HasPrefix(full, "/") {
		return false
	}
	segs := segmentsOf(full)[1:]
	depth := 0
	for i, s := range segs {
		switch s {
		case ".":
		case "..":
			if depth > 0 {
				depth--
			}
			if depth == 0 && i+2 < len(segs) && segs[i+1] == "" {
				return true
			}
		default:
			depth++
		}
	}
	return false
}

// emptyBaseTarget: shapes of the target path "/"+ref (dot segments removed) that the 'empty base path'
// branch of ResolveReference gets wrong: "/", "//…", "/%2f…".
func emptyBaseTarget(t string) bool {
	return t == "/" || strings.HasPrefix(t, "//") || strings.HasPrefix(t, "/%2f") || strings.HasPrefix(t, "/%2F")
}

// rfcTargetInput: the path handed to remove_dot_segments by RFC 3986 5.2.2 ("" when none is).
func rfcTargetInput(b, r parts) (string, bool) {
	switch {
	case r.hasScheme || r.hasAuthority:
		return r.path, true
	case r.path == "":
		return "", false
	case r.path[0] == '/':
		return r.path, true
	}
	return rfcMerge(b, r.path), true
}

var classNames = []string{
	"scheme-has-uppercase", "host-non-ascii", "host-pct-encoded", "userinfo-not-plain", "host-ipvfuture",
	"empty-host", "opaque-reclassified-abs-path", "special-scheme-no-authority-base", "rootless-base-path-reference",
	"base-dot-segments-empty-path-reference", "base-empty-query-dropped", "base-fragment-inherited",
	"dotdot-then-empty-segment", "absolute-reference-rootless-dot-segments", "empty-base-path-reference-to-root",
	"relative-path-escaped-asterisk", "relative-first-segment-encoded-colon",
}

// classify returns the classes whose predicate holds. For `iri.parse` only `a` is given (b == "" and
// isParse), and only the classes that concern a single IRI apply.
func classify(op, a, b string) []string {
	isParse := strings.HasPrefix(op, "iri.parse")
	pa, pb := rfcSplit(a), rfcSplit(b)
	var cls []string
	add := func(c string, ok bool) {
		if ok {
			cls = append(cls, c)
		}
	}
	// the IRIs whose own components are printed: the base/subject always, the reference too
	each := func(f func(p parts, isRef bool) bool) bool {
		if f(pa, false) {
			return true
		}
		return !isParse && f(pb, true)
	}
	add("scheme-has-uppercase", each(func(p parts, _ bool) bool { return p.hasScheme && hasUpper(p.scheme) }))
	add("host-non-ascii", each(func(p parts, _ bool) bool {
		_, _, hp := authSplit(p.authority)
		return p.hasAuthority && hasHigh(hp)
	}))
	add("host-pct-encoded", each(func(p parts, _ bool) bool {
		_, _, hp := authSplit(p.authority)
		return p.hasAuthority && strings.Contains(hp, "%")
	}))
	add("userinfo-not-plain", each(func(p parts, _ bool) bool {
		ui, has, _ := authSplit(p.authority)
		return p.hasAuthority && has && !plainUserinfo(ui)
	}))
	add("host-ipvfuture", each(func(p parts, _ bool) bool {
		_, _, hp := authSplit(p.authority)
		return p.hasAuthority && (strings.HasPrefix(hp, "[v") || strings.HasPrefix(hp, "[V"))
	}))
	add("empty-host", each(func(p parts, isRef bool) bool {
		if !p.hasAuthority {
			return false
		}
		_, _, hp := authSplit(p.authority)
		if p.authority == "" && (!p.hasScheme || p.path == "") {
			return true // "//" or "///a" as a reference; "http://" with nothing after it
		}
		scheme := p.scheme
		if !p.hasScheme {
			scheme = pa.scheme
		}
		return hp == "" && (!special(scheme) || p.path == "")
	}))
	add("opaque-reclassified-abs-path", each(func(p parts, _ bool) bool {
		return p.hasScheme && !special(p.scheme) && !p.hasAuthority && strings.HasPrefix(p.path, "/")
	}))
	{
		// a relative reference whose whole path is "%2A": net/url prints the path "*" unescaped
		r := pb
		if isParse {
			r = pa
		}
		add("relative-path-escaped-asterisk", !r.hasScheme && !r.hasAuthority && (r.path == "%2A" ||
			(!isParse && pa.hasAuthority && pa.path == "" && r.path != "" && r.path[0] != '/' && rfcRemoveDotSegments("/"+r.path) == "/%2A")))
		// printing a relative reference whose first segment hides a ':' as %3a: net/url prefixes "./"
		seg, _, _ := strings.Cut(pa.path, "/")
		add("relative-first-segment-encoded-colon", isParse && !pa.hasScheme && !pa.hasAuthority && (strings.Contains(seg, "%3a") || strings.Contains(seg, "%3A")))
	}
	if !isParse {
		relRef := !pb.hasScheme && !pb.hasAuthority
		emptyRef := relRef && pb.path == "" && !pb.hasQuery
		add("special-scheme-no-authority-base", special(pa.scheme) && !pa.hasAuthority && relRef)
		if !pa.hasAuthority && !strings.HasPrefix(pa.path, "/") && relRef && pb.path != "" {
			if pb.path[0] == '/' {
				add("rootless-base-path-reference", hasDotSegment(pb.path))
			} else {
				add("rootless-base-path-reference", strings.HasPrefix(rfcRemoveDotSegments(rfcMerge(pa, pb.path)), "/"))
			}
		}
		add("base-dot-segments-empty-path-reference", strings.HasPrefix(pa.path, "/") && hasDotSegment(pa.path) && relRef && pb.path == "")
		add("base-empty-query-dropped", pa.hasQuery && pa.query == "" && emptyRef)
		add("base-fragment-inherited", pa.hasFragment && ((pa.fragment == "" && !pb.hasFragment) || (pa.fragment != "" && emptyRef && pb.fragment == "")))
		if full, ok := rfcTargetInput(pa, pb); ok {
			add("dotdot-then-empty-segment", dotdotThenEmpty(full))
		}
		add("empty-base-path-reference-to-root", pa.hasAuthority && pa.path == "" && relRef && pb.path != "" && pb.path[0] != '/' && emptyBaseTarget(rfcRemoveDotSegments("/"+pb.path)))
		add("absolute-reference-rootless-dot-segments", pb.hasScheme && !pb.hasAuthority && !strings.HasPrefix(pb.path, "/") && hasDotSegment(pb.path))
	}
	return cls
}

// corpus: witnesses of DESIGN §6 D14 and of every class above; always run first.
var corpus = [][2]string{
	{"HTTP://e/a", "b"},            // scheme lower-cased
	{"http://é/", "a"},             // host percent-encoded
	{"x:/a/../b", ""},              // printed as x:a/../b
	{"http://a%20b/", "c"},         // rejected
	{"http://%c3%a9/", "a"},        // host escapes re-cased
	{"http://u!@h/", "a"},          // userinfo re-escaped
	{"http://é@h/", "a"},           // rejected
	{"http://[v1.a]/", "a"},        // rejected
	{"x://h/a", "//"},              // empty authority ignored
	{"x://h/a", "///b"},            // empty authority ignored
	{"http://", "a"},               // printed as http:
	{"x:///a", "b"},                // reclassified
	{"http:/a/b", "c"},             // http:///a/c
	{"urn:a/b", "../c"},            // urn:c
	{"urn:a", "/./b"},              // no dot-segment removal
	{"http://h/a/./b", "#f"},       // base path rewritten
	{"http://h/a?", ""},            // ? dropped
	{"http://h/a?", "#f"},          // ? dropped
	{"http://h/a#f", ""},           // fragment inherited
	{"http://h/a#", "b"},           // # forced
	{"http://h/a#", "http://o/"},   // # forced
	{"http://h/a", "..//x"},        // http://h/x
	{"http://h/a/b", "../..//x/y"}, // http://h/x/y
	{"http://h/a", "urn:a/../b"},   // not processed
	{"http://h/a", "x:.."},         // not processed
	{"http://h", "."},              // http://h
	{"http://h?q", "a/.."},         // http://h
	{"http://h", ".//a"},           // http://h/a
	{"http://h", "%2fa/é"},         // http://h%2fa/é
	{"http://h/a", "%2A"},          // http://h/*
	{"http://h", "./%2A"},          // http://h/*
	{"http://h", "./%2fx/é"},       // http://h%2fx/é
	{"http://h/a", "%3ab/é"},       // parse of the reference prints ./%3ab/é
	// ordinary resolution (RFC 3986 5.4 examples)
	{"http://a/b/c/d;p?q", "g:h"}, {"http://a/b/c/d;p?q", "g"}, {"http://a/b/c/d;p?q", "./g"}, {"http://a/b/c/d;p?q", "g/"},
	{"http://a/b/c/d;p?q", "/g"}, {"http://a/b/c/d;p?q", "//g"}, {"http://a/b/c/d;p?q", "?y"}, {"http://a/b/c/d;p?q", "g?y"},
	{"http://a/b/c/d;p?q", "#s"}, {"http://a/b/c/d;p?q", "g#s"}, {"http://a/b/c/d;p?q", "g?y#s"}, {"http://a/b/c/d;p?q", ";x"},
	{"http://a/b/c/d;p?q", "g;x"}, {"http://a/b/c/d;p?q", "g;x?y#s"}, {"http://a/b/c/d;p?q", ""}, {"http://a/b/c/d;p?q", "."},
	{"http://a/b/c/d;p?q", "./"}, {"http://a/b/c/d;p?q", ".."}, {"http://a/b/c/d;p?q", "../"}, {"http://a/b/c/d;p?q", "../g"},
	{"http://a/b/c/d;p?q", "../.."}, {"http://a/b/c/d;p?q", "../../"}, {"http://a/b/c/d;p?q", "../../g"},
	{"http://a/b/c/d;p?q", "../../../g"}, {"http://a/b/c/d;p?q", "../../../../g"}, {"http://a/b/c/d;p?q", "/./g"},
	{"http://a/b/c/d;p?q", "/../g"}, {"http://a/b/c/d;p?q", "g."}, {"http://a/b/c/d;p?q", ".g"}, {"http://a/b/c/d;p?q", "g.."},
	{"http://a/b/c/d;p?q", "..g"}, {"http://a/b/c/d;p?q", "./../g"}, {"http://a/b/c/d;p?q", "./g/."}, {"http://a/b/c/d;p?q", "g/./h"},
	{"http://a/b/c/d;p?q", "g/../h"}, {"http://a/b/c/d;p?q", "g;x=1/./y"}, {"http://a/b/c/d;p?q", "g;x=1/../y"},
	{"http://a/b/c/d;p?q", "g?y/./x"}, {"http://a/b/c/d;p?q", "g?y/../x"}, {"http://a/b/c/d;p?q", "g#s/./x"}, {"http://a/b/c/d;p?q", "g#s/../x"},
	{"http://a/b/c/d;p?q", "http:g"},
}

// chainCorpus: histories on one ParsedIRI (base, then references resolved one after the other).
var chainCorpus = [][]string{
	{"app:/data/doc.ttl", "http://example.org/a/b", "c"},
	{"app:/data/doc.ttl", "http://example.org/a/b", "../c?q#f"},
	{"app:/data/doc.ttl", "//example.org/a/b", "/c"},
	{"urn:example:doc", "#section", "http://example.org/a/b/", "c/d"},
	{"tag:", "https://example.org/x/y?z", "w", "./"},
	{"http://a/b/c/d;p?q", "../g", "h/./i", "?y", "#s"},
	{"http://h/a#", "b#x", "c"},
	{"http://h/a", "b#", "c#y", "d"},
	{"file:///a/b", "c", "//h/d", "e"},
	{"urn:a/b/c", "d", "x://h/p/q", "../r"},
}

// chainSticky: predicate of the chain-only class chain-sticky-empty-fragment (mirror of
// RdfModel.C12.chainStickyEmptyFragment): the base or a reference of an earlier step ended with '#'
// and this step's reference has no fragment.
func chainSticky(earlier []string, ref string) bool {
	if rfcSplit(ref).hasFragment {
		return false
	}
	for _, e := range earlier {
		if strings.HasSuffix(e, "#") {
			return true
		}
	}
	return false
}
