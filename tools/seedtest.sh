#!/bin/sh
# tools/seedtest.sh <patch.diff> <Cxx> [tier]  — runs ./check <Cxx> against a scratch copy of /repo with the
# patch applied, from a scratch copy of /verif (so generated Lean files of the live tree are untouched).
# Development aid for validating checks against seeded defects; prints the check's output; cleans up.
set -u
PATCH=$(readlink -f "$1"); PID=$2; TIER=${3:-quick}
TAG=$$
VT=/tmp/vt-$TAG; RT=/tmp/vt-repo-$TAG
git -C /repo worktree add -q "$RT" HEAD || exit 2
if ! git -C "$RT" apply "$PATCH"; then echo "patch does not apply"; git -C /repo worktree remove --force "$RT"; exit 2; fi
mkdir -p "$VT"
if [ "${VERIF_SNAPSHOT:-0}" = 1 ]; then
  # committed state only (the live tree may be mid-edit), plus the build caches
  git -C /verif archive HEAD | tar -x -C "$VT"
  mkdir -p "$VT/lean/.lake" "$VT/go/bin" "$VT/evidence" "$VT/replays"
  rsync -a /verif/lean/.lake/ "$VT/lean/.lake/"
else
  rsync -a --exclude .git --exclude 'replays/*' /verif/ "$VT"/
fi
cd "$VT" && VERIF_GEN_WRITE=1 VERIF_REPO="$RT" ./check "$PID" --tier "$TIER"
RC=$?
if [ $RC -ne 0 ]; then ls "$VT"/replays/ 2>/dev/null | head -3; for f in "$VT"/replays/*.json; do [ -f "$f" ] && head -c 1500 "$f"; done; fi
git -C /repo worktree remove --force "$RT"
rm -rf "$VT"
exit $RC
