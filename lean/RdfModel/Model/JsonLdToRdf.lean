/-
  RdfModel.Model.JsonLdToRdf — executable model of the "deserialize to RDF" stage of /repo's JSON-LD
  decoder: what encoding/jsonld/decoder.go does with the value jsonldinternal.Expand returns.

    decoder.go   Next (iteration protocol around parseRoot), isWellFormedIRI,
                 isWellFormedLiteralLanguageTag, isWellFormedLiteralBaseDirectionTag, expandedAs,
                 expandedString, decodeElement, decodeValueNode
    decoder_config.go   the rdfDirection option (the only option this stage reads)
    rdf/blanknodes/string_factory.go   NewBlankNode / NewStringBlankNode (empty identifier = fresh)

  THE CUT is the expanded form. `Exp` mirrors jsonldinternal.ExpandedValue with exactly the fields the
  decoder inspects:
    * `Exp.nil`  the nil interface value (expansion returns it for a dropped document);
    * `Exp.arr`  *ExpandedArray.Values;
    * `Exp.obj`  *ExpandedObject.Members. A Go map is represented by its association list SORTED BY
      KEY (bytes) with distinct keys — the canonical representation of a finite map; the hook renders
      it that way. The model walks the list in the given order where Go iterates the sorted keys, and
      takes the first match where Go indexes the map; on sorted duplicate-free lists these coincide.
      (`membersSorted` is the representation invariant; no theorem about panics or well-formedness
      needs it.)
    * `Exp.prim` *ExpandedScalarPrimitive.Value, an inspectjson.Value (`PVal`): nil interface, null,
      string, number, boolean, object, array — the last two only occur below `@value` with
      `@type: @json`, and the decoder only hands them to encoding/json; the text encoding/json
      produces for the value is the field `json` (`JText`: text, encoder error, or a panic inside
      AsBuiltin/Encode). The JSON text layer is outside the model.
  Typed nil pointers of the three Expanded* types are not representable (the hook renders them `Z`;
  the harness reports one as a violation of the expansion invariant).
  Text offsets, the container resource and the two listeners are outside the model.

  Strings are the BYTES of the Go strings. Everything the decoder does with them at this stage is
  byte-level or only looks at ASCII: key equality, prefix tests, `strings.Contains(s, " ")`,
  `slices.Sort`; `isWellFormedIRI` ranges over runes but rejects only ASCII runes, and every byte
  ≥ 0x80 belongs to a rune ≥ 0x80 (or U+FFFD), so the byte loop decides the same. The exception is
  `strings.ToLower` (rdfDirection modes): modelled on ASCII; tags with a byte ≥ 0x80 are outside
  (`lowerInside`).

  Numbers: a float64 is given by the shortest decimal digits strconv finds for it (`Num.fin neg digits
  exp` = ± d₁.d₂…dₙ × 10^exp, the digits of `FormatFloat(v, 'e', -1, 64)`), or NaN / ±Inf. From that
  triple the model computes `FormatFloat(v,'f',-1,64)`, `FormatFloat(v,'E',-1,64)`, `v == 0` and
  `math.Abs(v) >= 1e21` (= `exp ≥ 21`: 10^21 is a float64, so a value below it has shortest digits
  below it). The triple is produced by Go (hook `VerifNumber`); the formatting functions of this file
  are tied by T3 on every number of every case.

  Blank nodes: `BN.orig l` = NewStringBlankNode(l) (l ≠ ""), `BN.fresh n` = the n-th NewBlankNode call.
  Emitted statements are `RQ`: subject and object are `Option` because the Go fields are interfaces
  that the code fills from `ectx.ActiveSubject` (nil at the top level and below `@graph`/`@included`).

  Outcomes: `R.ok qs n` (statements appended, blank-node counter), `R.err e qs` (statements appended
  before the error), `R.panic` (Go would panic: nil inspectjson.Value behind `@value`).
  Core-only, executable, total, structurally recursive (no fuel).
-/
import RdfModel.Model.Description
namespace RdfModel.JLD
open RdfModel RdfModel.Desc

abbrev Str := List Nat
abbrev B := BN Str
abbrev T := Term B

/-! ## The expanded value -/

/-- a float64 as the decoder formats it -/
inductive Num where
  | fin (neg : Bool) (digits : List Nat) (exp : Int)
  | nan
  | inf (neg : Bool)
  deriving Repr, DecidableEq, Inhabited

/-- inspectjson.Value behind an ExpandedScalarPrimitive -/
inductive PVal where
  | nil | null
  | str (s : Str)
  | num (x : Num)
  | bool (b : Bool)
  | object | array
  deriving Repr, DecidableEq, Inhabited

/-- what `json.NewEncoder(buf).Encode(v.AsBuiltin())` gives (trailing newline dropped) -/
inductive JText where
  | text (s : Str) | encErr | panics | absent
  deriving Repr, DecidableEq, Inhabited

inductive Exp where
  | nil
  | arr (xs : List Exp)
  | obj (ms : List (Str × Exp))
  | prim (v : PVal) (json : JText)
  deriving Repr, Inhabited

/-- first member with the given name (`Members[k]`) -/
def lookup (k : Str) : List (Str × Exp) → Option Exp
  | [] => none
  | (k', v) :: ms => if k' = k then some v else lookup k ms

def hasKey (k : Str) (ms : List (Str × Exp)) : Bool := ms.any (fun m => m.1 == k)

/-- byte-wise `<` of Go strings -/
def strLt : Str → Str → Bool
  | [], [] => false
  | [], _ :: _ => true
  | _ :: _, [] => false
  | a :: as, b :: bs => a < b || (a == b && strLt as bs)

def keysSorted : List Str → Bool
  | a :: b :: rest => strLt a b && keysSorted (b :: rest)
  | _ => true

mutual
/-- representation invariant of `Exp.obj`: keys strictly increasing (a Go map in canonical form) -/
def Exp.membersSorted : Exp → Bool
  | .arr xs => sortedList xs
  | .obj ms => keysSorted (ms.map (·.1)) && sortedMembers ms
  | _ => true
def sortedList : List Exp → Bool
  | [] => true
  | x :: xs => x.membersSorted && sortedList xs
def sortedMembers : List (Str × Exp) → Bool
  | [] => true
  | (_, v) :: ms => v.membersSorted && sortedMembers ms
end

/-! ## Options, statements, outcomes -/

/-- Decoder.rdfDirection: "", "i18n-datatype", "compound-literal"; `other` = any other non-empty
    string (newDecoder rejects those, the field itself admits them) -/
inductive RdfDir where
  | none | i18n | compound | other
  deriving Repr, DecidableEq, Inhabited

structure Cfg where
  dir : RdfDir
  deriving Repr, DecidableEq, Inhabited

/-- rdf.Quad as assembled by the decoder -/
structure RQ where
  s : Option T
  p : Str
  o : Option T
  g : Option T
  deriving Repr, DecidableEq, Inhabited

/-- Go type names printed by `%T` in the error messages -/
inductive TyName where
  | nil | array | object | primitive                       -- <nil>, *jsonldinternal.Expanded…
  | jNull | jString | jNumber | jBoolean | jObject | jArray   -- inspectjson.…Value
  deriving Repr, DecidableEq, Inhabited

inductive Err where
  | shape (key : Str) (got : TyName)      -- "unexpected expanded value for <key>: <%T>"
  | valueType (grammar : Str)             -- "unexpected value type: <grammar name>"
  | marshal                               -- "marshal for @json: …"
  | listItem (inner : Err)                -- "decode list item: …"
  deriving Repr, DecidableEq, Inhabited

inductive R where
  | ok (qs : List RQ) (n : Nat)
  | err (e : Err) (qs : List RQ)
  | panic
  deriving Repr, DecidableEq, Inhabited

/-- `a; if err return; b` -/
def R.andThen (r : R) (f : Nat → R) : R :=
  match r with
  | .ok q1 n1 =>
    match f n1 with
    | .ok q2 n2 => .ok (q1 ++ q2) n2
    | .err e q2 => .err e (q1 ++ q2)
    | .panic => .panic
  | .err e q => .err e q
  | .panic => .panic

/-- statements appended before the call -/
def R.pre (qs : List RQ) (r : R) : R :=
  match r with
  | .ok q n => .ok (qs ++ q) n
  | .err e q => .err e (qs ++ q)
  | .panic => .panic

/-- `return fmt.Errorf("decode list item: %v", err)` -/
def R.wrapList (r : R) : R :=
  match r with
  | .err e q => .err (.listItem e) q
  | r => r

/-- evaluationContext without offsets and container -/
structure ECtx where
  graph : Option T
  subj : Option T
  prop : Option Str
  rev : Bool
  deriving Repr, DecidableEq, Inhabited

def ECtx.root : ECtx := { graph := none, subj := none, prop := none, rev := false }

/-! ## Constants -/

def kId := asc "@id"
def kType := asc "@type"
def kValue := asc "@value"
def kLanguage := asc "@language"
def kDirection := asc "@direction"
def kList := asc "@list"
def kGraph := asc "@graph"
def kIncluded := asc "@included"
def kReverse := asc "@reverse"
def kJson := asc "@json"
def kElement := asc "element"

def rdfNs (s : String) : Str := asc ("http://www.w3.org/1999/02/22-rdf-syntax-ns#" ++ s)
def rdfType := rdfNs "type"
def rdfValue := rdfNs "value"
def rdfDirection := rdfNs "direction"
def rdfLanguage := rdfNs "language"
def rdfJSON := rdfNs "JSON"
def xsdNs (s : String) : Str := asc ("http://www.w3.org/2001/XMLSchema#" ++ s)
def xsdBoolean := xsdNs "boolean"
def xsdInteger := xsdNs "integer"
def xsdDouble := xsdNs "double"
def i18nNs : Str := asc "https://www.w3.org/ns/i18n#"

/-! ## decoder.go helpers -/

/-- isWellFormedIRI (on bytes, see the header) -/
def wfIriGo : Bool → Bool → Str → Bool
  | colon, _, [] => colon
  | colon, frag, c :: cs =>
    if c < 0x20 then false
    else if [0x20, 0x3c, 0x3e, 0x22, 0x7b, 0x7d, 0x7c, 0x5c, 0x5e, 0x60].contains c then false
    else if c = 0x3a then wfIriGo true frag cs
    else if c = 0x23 then (if frag then false else wfIriGo colon true cs)
    else wfIriGo colon frag cs

def isWellFormedIRI (s : Str) : Bool := wfIriGo false false s

/-- isWellFormedLiteralLanguageTag -/
def isWellFormedLang (s : Str) : Bool := s ≠ [] && !s.contains 0x20

/-- isWellFormedLiteralBaseDirectionTag -/
def isWellFormedDir (s : Str) : Bool := s = asc "ltr" || s = asc "rtl"

/-- `strings.HasPrefix(s, "_:")` -/
def hasBnodePrefix : Str → Bool
  | 0x5f :: 0x3a :: _ => true
  | _ => false

/-- `len(s) > 2 && s[:2] == "_:"` -/
def isBnodeLong : Str → Bool
  | 0x5f :: 0x3a :: _ :: _ => true
  | _ => false

/-- `len(key) > 1 && key[0] == '@'` -/
def isAtKey : Str → Bool
  | 0x40 :: _ :: _ => true
  | _ => false

/-- strings.ToLower on ASCII -/
def lowerAscii (s : Str) : Str := s.map fun c => if 0x41 ≤ c ∧ c ≤ 0x5a then c + 0x20 else c

/-- the tags on which `lowerAscii` is `strings.ToLower` -/
def lowerInside (s : Str) : Bool := s.all (· < 0x80)

def Exp.tyName : Exp → TyName
  | .nil => .nil
  | .arr _ => .array
  | .obj _ => .object
  | .prim _ _ => .primitive

def PVal.tyName : PVal → TyName
  | .nil => .nil
  | .null => .jNull
  | .str _ => .jString
  | .num _ => .jNumber
  | .bool _ => .jBoolean
  | .object => .jObject
  | .array => .jArray

/-- expandedString: the string behind a scalar primitive, or the error for `key` -/
def expandedString (key : Str) : Exp → Except Err Str
  | .prim (.str s) _ => .ok s
  | .prim v _ => .error (.shape key v.tyName)
  | e => .error (.shape key e.tyName)

/-- NewStringBlankNode(label): an empty identifier is NewBlankNode -/
def stringBlankNode (label : Str) (n : Nat) : T × Nat :=
  if label = [] then (.bnode (.fresh n), n + 1) else (.bnode (.orig label), n)

/-! ## Numbers (strconv.FormatFloat as used by decodeValueNode) -/

def digitsAux : Nat → Nat → List Nat → List Nat
  | 0, _, acc => acc
  | fuel + 1, n, acc => if n < 10 then (0x30 + n) :: acc else digitsAux fuel (n / 10) ((0x30 + n % 10) :: acc)

/-- decimal digits of a natural number (`%d`) -/
def natDigits (n : Nat) : Str := digitsAux (n + 1) n []

def intDigits (i : Int) : Str :=
  match i with
  | .ofNat n => natDigits n
  | .negSucc n => 0x2d :: natDigits (n + 1)

def chr (d : Nat) : Nat := 0x30 + d

def Num.isZero : Num → Bool
  | .fin _ ds _ => ds.all (· == 0)
  | _ => false

/-- `FormatFloat(v, 'f', -1, 64)` -/
def Num.fixedForm : Num → Str
  | .nan => asc "NaN"
  | .inf neg => if neg then asc "-Inf" else asc "+Inf"
  | .fin neg ds e =>
    let sign : Str := if neg then [0x2d] else []
    let cs := ds.map chr
    if e < 0 then sign ++ [0x30, 0x2e] ++ List.replicate (e.natAbs - 1) 0x30 ++ cs
    else
      let k := e.toNat + 1
      if cs.length ≤ k then sign ++ cs ++ List.replicate (k - cs.length) 0x30
      else sign ++ cs.take k ++ [0x2e] ++ cs.drop k

/-- `math.Abs(v) >= 1e21` -/
def Num.absGe1e21 : Num → Bool
  | .nan => false
  | .inf _ => true
  | .fin _ ds e => !(ds.all (· == 0)) && decide (21 ≤ e)

/-- the lexical form the code builds from `FormatFloat(v, 'E', -1, 64)`: mantissa with at least one
    fraction digit, `E`, exponent through `%d` (no plus sign, no leading zeros); NaN and ±Inf have no
    `E` and are taken as they are -/
def Num.sciLex : Num → Str
  | .nan => asc "NaN"
  | .inf neg => if neg then asc "-Inf" else asc "+Inf"
  | .fin neg ds e =>
    let sign : Str := if neg then [0x2d] else []
    match ds.map chr with
    | [] => sign ++ asc ".0E" ++ intDigits e          -- not produced by strconv (digits are never empty)
    | d :: rest => sign ++ [d, 0x2e] ++ (if rest = [] then [0x30] else rest) ++ [0x45] ++ intDigits e

/-- datatype and lexical form of a native number; `dt0` = the explicit datatype ("" = none) -/
def numberLiteral (dt0 : Str) (x : Num) : Str × Str :=
  let fixed0 := x.fixedForm
  let hasDecimal := fixed0.contains 0x2e
  let fixed := if x.isZero && fixed0.head? = some 0x2d then asc "0" else fixed0
  let explicit := dt0 ≠ []
  let dt := if explicit then dt0 else if hasDecimal || x.absGe1e21 then xsdDouble else xsdInteger
  if dt = xsdDouble || (explicit && (hasDecimal || x.absGe1e21)) then (dt, x.sciLex) else (dt, fixed)

/-! ## decodeValueNode -/

def lit (lex dt : Str) (tag : Option Str) : T := .lit lex dt tag

/-- the tag of an rdf:dirLangString literal: `language--direction` -/
def dirTag (lang dir : Str) : Str := lang ++ asc "--" ++ dir

/-- `Members["@language"]` / `Members["@direction"]` through expandedString: absent, error, or the string -/
def tagOf (key : Str) : Option Exp → Except Err (Option Str)
  | none => .ok none
  | some e => (expandedString key e).map some

/-- `atLangageKnown && !isWellFormedLiteralLanguageTag(litTagLanguage)` -/
def langBad : Option Str → Bool
  | some l => !isWellFormedLang l
  | none => false

/-- `atDirectionKnown && !isWellFormedLiteralBaseDirectionTag(litTagBaseDirection)` -/
def dirBad : Option Str → Bool
  | some d => !isWellFormedDir d
  | none => false

/-- the `if len(lit.Datatype) == 0 { … }` block of the string case: no explicit datatype, validated
    language (`lang?`) and direction (`dir?`), at least one of them known -/
def taggedString (cfg : Cfg) (g s : Option T) (p lex : Str) (lang? dir? : Option Str) (n : Nat) : R :=
  let finish (dt : Str) (tag : Option Str) : R := .ok [⟨s, p, some (lit lex (if dt = [] then xsdString else dt) tag), g⟩] n
  let lang := lang?.getD []
  match dir? with
  | some dir =>
    match cfg.dir with
    | .none =>
      if lang?.isSome then finish rdfLangString (some lang) else finish [] none
    | .i18n => finish (i18nNs ++ lowerAscii lang ++ [0x5f] ++ dir) none
    | .compound =>
      let node : T := .bnode (.fresh n)
      .ok ([⟨s, p, some node, g⟩,
            ⟨some node, rdfValue, some (lit lex xsdString none), g⟩,
            ⟨some node, rdfDirection, some (lit dir xsdString none), g⟩] ++
           (if lang?.isSome then [⟨some node, rdfLanguage, some (lit (lowerAscii lang) xsdString none), g⟩] else []))
          (n + 1)
    | .other => finish rdfDirLangString (some (dirTag lang dir))
  | none =>
    if lang?.isSome then finish rdfLangString (some lang) else finish [] none

/-- the `inspectjson.StringValue` case of decodeValueNode: `@language` / `@direction` handling;
    `dt0` = the explicit datatype ("" = none) -/
def decodeStringValue (cfg : Cfg) (g s : Option T) (p : Str) (dt0 lex : Str) (atLang atDir : Option Exp) (n : Nat) : R :=
  let finish (dt : Str) : R := .ok [⟨s, p, some (lit lex (if dt = [] then xsdString else dt) none), g⟩] n
  if atLang.isNone && atDir.isNone then finish dt0 else
  match tagOf kLanguage atLang with
  | .error e => .err e []
  | .ok lang? =>
    if langBad lang? then .ok [] n else
    match tagOf kDirection atDir with
    | .error e => .err e []
    | .ok dir? =>
      if dirBad dir? then .ok [] n else
      if dt0 ≠ [] then finish dt0 else taggedString cfg g s p lex lang? dir? n

/-- decodeValueNode after `@type` was read: the `@value` primitive `v` (with its JSON text) -/
def decodeValuePrim (cfg : Cfg) (g s : Option T) (p : Str) (dt0 : Str) (atLang atDir : Option Exp)
    (v : PVal) (jt : JText) (n : Nat) : R :=
  let one (o : T) : R := .ok [⟨s, p, some o, g⟩] n
  let finish (dt lex : Str) : R := one (lit lex (if dt = [] then xsdString else dt) none)
  if dt0 = kJson then
    match v, jt with
    | .nil, _ => .panic                                  -- atValuePrimitive.Value.AsBuiltin() on a nil interface
    | _, .panics => .panic
    | _, .encErr => .err .marshal []
    | _, .absent => .err .marshal []
    | _, .text t => one (lit t rdfJSON none)
  else
    match v with
    | .str lex => decodeStringValue cfg g s p dt0 lex atLang atDir n
    | .num x => finish (numberLiteral dt0 x).1 (numberLiteral dt0 x).2
    | .bool b => finish (if dt0 = [] then xsdBoolean else dt0) (if b then asc "true" else asc "false")
    | .nil => .panic                                     -- valuePrimitive.GetGrammarName() on a nil interface
    | .null => .err (.valueType (asc "null")) []
    | .object => .err (.valueType (asc "object")) []
    | .array => .err (.valueType (asc "array")) []

/-- a value object `ms` (has `@value`) as a value of `p` of subject `s` in graph `g` -/
def decodeValueNode (cfg : Cfg) (g s : Option T) (p : Str) (ms : List (Str × Exp)) (n : Nat) : R :=
  -- @type
  let dtR : Except Err Str :=
    match lookup kType ms with
    | some t => expandedString kType t
    | none => .ok []
  match dtR with
  | .error e => .err e []
  | .ok dt0 =>
    if dt0 = rdfLangString || dt0 = rdfDirLangString then .ok [] n else
    -- @value
    match lookup kValue ms with
    | some (.prim v jt) => decodeValuePrim cfg g s p dt0 (lookup kLanguage ms) (lookup kDirection ms) v jt n
    | some e => .err (.shape kValue e.tyName) []
    | none => .err (.shape kValue .nil) []             -- v.Members["@value"] of a missing key is nil

/-! ## decodeElement -/

/-- the subject of a node object: `none` = the node is dropped (`@id` null or not well-formed) -/
def selfSubject (ms : List (Str × Exp)) (n : Nat) : Except Err (Option (T × Nat)) :=
  match lookup kId ms with
  | some (.prim .null _) => .ok none
  | some (.prim (.str id) _) =>
    if hasBnodePrefix id then .ok (some (stringBlankNode (id.drop 2) n))
    else if !isWellFormedIRI id then .ok none
    else .ok (some (.iri id, n))
  | some (.prim v _) => .error (.shape kId v.tyName)
  | some e => .error (.shape kId e.tyName)
  | none => .ok (some (.bnode (.fresh n), n + 1))

/-- the `@type` statements of a node over the values of `Members["@type"]`; statements emitted before a
    later type value fails stay appended: (statements, error) -/
def typeQuadsPartial (g : Option T) (s : T) : List Exp → List RQ × Option Err
  | [] => ([], none)
  | .prim .null _ :: rest => typeQuadsPartial g s rest
  | .prim (.str t) _ :: rest =>
    let r := typeQuadsPartial g s rest
    if isBnodeLong t then (⟨some s, rdfType, some (.bnode (.orig (t.drop 2))), g⟩ :: r.1, r.2)
    else if !isWellFormedIRI t then r
    else (⟨some s, rdfType, some (.iri t), g⟩ :: r.1, r.2)
  | .prim v _ :: _ => ([], some (.shape kType v.tyName))
  | e :: _ => ([], some (.shape kType e.tyName))

def typeStage (g : Option T) (s : T) (ms : List (Str × Exp)) (n : Nat) : R :=
  match lookup kType ms with
  | none => .ok [] n
  | some (.arr tvs) =>
    match typeQuadsPartial g s tvs with
    | (qs, none) => .ok qs n
    | (qs, some e) => .err e qs
  | some e => .err (.shape kType e.tyName) []

/-- the predicate a member name stands for: `none` = the member is skipped; `some none` = blank node
    property (ActiveProperty nil); `some (some p)` = the IRI -/
def keyProp (k : Str) : Option (Option Str) :=
  if isAtKey k then none
  else if isBnodeLong k then some none
  else if !isWellFormedIRI k then none
  else some (some k)

mutual
/-- decodeElement(ectx, element) -/
def decodeElement (cfg : Cfg) (c : ECtx) : Exp → Nat → R
  | .nil, n => .ok [] n
  | .arr xs, n => decodeItems cfg c xs n
  | .prim _ _, _ => .err (.shape kElement .primitive) []
  | .obj ms, n =>
    match (match c.prop with
           | some p => if hasKey kValue ms then some p else none
           | none => none) with
    | some p => decodeValueNode cfg c.graph c.subj p ms n
    | none =>
      if hasKey kList ms then findList cfg c ms n
      else
        match selfSubject ms n with
        | .error e => .err e []
        | .ok none => .ok [] n
        | .ok (some (self, n1)) =>
          let link : List RQ :=
            match c.prop with
            | some p => if c.rev then [⟨some self, p, c.subj, c.graph⟩] else [⟨c.subj, p, some self, c.graph⟩]
            | none => []
          -- `ectx.Reverse = false` happens only where a reversed statement was appended
          let c1 : ECtx := { graph := c.graph, subj := some self, prop := c.prop, rev := c.rev && c.prop.isNone }
          R.pre link
            ((findReverse cfg c1 ms n1).andThen fun n2 =>
             (typeStage c1.graph self ms n2).andThen fun n3 =>
             (if (match self with | .iri v => isWellFormedIRI v | _ => true) then
                findKeyArr cfg { graph := some self, subj := none, prop := none, rev := c1.rev } kGraph ms n3
              else .ok [] n3).andThen fun n4 =>
             (findKeyArr cfg { c1 with subj := none, prop := none } kIncluded ms n4).andThen fun n5 =>
             members cfg c1 ms n5)

/-- `for _, item := range array.Values { decodeElement(ectx, item) }` -/
def decodeItems (cfg : Cfg) (c : ECtx) : List Exp → Nat → R
  | [], n => .ok [] n
  | x :: xs, n => (decodeElement cfg c x n).andThen fun n1 => decodeItems cfg c xs n1

/-- the `@list` branch: the first member named `@list` -/
def findList (cfg : Cfg) (c : ECtx) : List (Str × Exp) → Nat → R
  | [], n => .ok [] n
  | (k, v) :: rest, n =>
    if k = kList then
      match v with
      | .arr [] =>
        match c.prop with
        | some p => .ok [⟨c.subj, p, some (.iri rdfNil), c.graph⟩] n
        | none => .ok [] n
      | .arr (x :: xs) =>
        let cell : T := .bnode (.fresh n)
        R.pre (match c.prop with
               | some p => [⟨c.subj, p, some cell, c.graph⟩]
               | none => [])
          (listCells cfg c cell true (x :: xs) (n + 1))
      | e => .err (.shape kList e.tyName) []
    else findList cfg c rest n

/-- the loop over the items of a non-empty list; `cell` = listSubject, `first` = `listIdx == 0` -/
def listCells (cfg : Cfg) (c : ECtx) (cell : T) (first : Bool) : List Exp → Nat → R
  | [], n =>
    match c.prop with
    | some _ => .ok [⟨some cell, rdfRest, some (.iri rdfNil), c.graph⟩] n
    | none => .ok [] n
  | x :: xs, n =>
    if !first && c.prop.isSome then
      let next : T := .bnode (.fresh n)
      R.pre [⟨some cell, rdfRest, some next, c.graph⟩]
        (((decodeElement cfg { c with subj := some next, prop := some rdfFirst } x (n + 1)).wrapList).andThen fun n1 =>
          listCells cfg c next false xs n1)
    else
      ((decodeElement cfg { c with subj := some cell, prop := some rdfFirst } x n).wrapList).andThen fun n1 =>
        listCells cfg c cell false xs n1

/-- `@graph` / `@included`: the first member named `key` must be an array; its items under `c` -/
def findKeyArr (cfg : Cfg) (c : ECtx) (key : Str) : List (Str × Exp) → Nat → R
  | [], n => .ok [] n
  | (k, v) :: rest, n =>
    if k = key then
      match v with
      | .arr xs => decodeItems cfg c xs n
      | e => .err (.shape key e.tyName) []
    else findKeyArr cfg c key rest n

/-- `@reverse`: the first member named `@reverse` must be an object -/
def findReverse (cfg : Cfg) (c : ECtx) : List (Str × Exp) → Nat → R
  | [], n => .ok [] n
  | (k, v) :: rest, n =>
    if k = kReverse then
      match v with
      | .obj rms => reverseMembers cfg c rms n
      | e => .err (.shape kReverse e.tyName) []
    else findReverse cfg c rest n

/-- the sorted keys of the `@reverse` object -/
def reverseMembers (cfg : Cfg) (c : ECtx) : List (Str × Exp) → Nat → R
  | [], n => .ok [] n
  | (k, v) :: rest, n =>
    match keyProp k with
    | none => reverseMembers cfg c rest n
    | some prop =>
      (match v with
       | .arr xs => decodeItems cfg { c with prop := prop, rev := true } xs n
       | e => .err (.shape k e.tyName) []).andThen fun n1 => reverseMembers cfg c rest n1

/-- the sorted keys of the node object -/
def members (cfg : Cfg) (c : ECtx) : List (Str × Exp) → Nat → R
  | [], n => .ok [] n
  | (k, v) :: rest, n =>
    match keyProp k with
    | none => members cfg c rest n
    | some prop =>
      (match v with
       | .arr xs => decodeItems cfg { c with prop := prop } xs n
       | e => .err (.shape k e.tyName) []).andThen fun n1 => members cfg c rest n1
end

/-! ## parseRoot after expansion, and the iteration protocol of Next -/

/-- `r.decodeElement(ectx, ets, false)` with the root context and a new blank node factory -/
def decodeRoot (cfg : Cfg) (e : Exp) : R := decodeElement cfg ECtx.root e 0

inductive Outcome where
  | done (qs : List RQ) (err : Option Err)
  | panic
  deriving Repr, DecidableEq, Inhabited

/-- What a caller iterating `for d.Next() { d.Quad() }` sees, then `d.Err()`. The first call of Next
    runs parseRoot, stores its error and then advances to statement 0 regardless; the second call
    returns false when an error is stored. So after an error exactly the first appended statement (if
    any) is yielded. -/
def run (cfg : Cfg) (e : Exp) : Outcome :=
  match decodeRoot cfg e with
  | .ok qs _ => .done qs none
  | .err er qs => .done (qs.take 1) (some er)
  | .panic => .panic

end RdfModel.JLD
