/-
  Proofs.C04Hash — Hash First Degree Quads, Hash Related Blank Node and the related-hash map of the
  Go code agree with the specification on corresponding states.
-/
import RdfModel.Proofs.C04Issuer
import RdfModel.Proofs.C04Quads
namespace RdfModel.Proofs.C04
open RdfModel RdfModel.Proofs.StrOrd RdfModel.C04

set_option linter.unusedSectionVars false

variable {β : Type} [DecidableEq β]

theorem foldl_ext_mem {α σ : Type} (f g : σ → α → σ) (l : List α) (init : σ)
    (h : ∀ a ∈ l, ∀ acc, f acc a = g acc a) : l.foldl f init = l.foldl g init := by
  induction l generalizing init with
  | nil => rfl
  | cons a rest ih =>
    simp only [List.foldl_cons]
    rw [h a (by simp), ih _ (fun a ha => h a (by simp [ha]))]

theorem getList_mem {ν : Type} (m : List (β × List ν)) (b : β) (x : ν) (hx : x ∈ getList m b) :
    ∃ e ∈ m, x ∈ e.2 := by
  induction m with
  | nil => simp [getList] at hx
  | cons e rest ih =>
    obtain ⟨k, vs⟩ := e
    by_cases hk : k = b
    · simp [getList, hk] at hx
      exact ⟨(k, vs), by simp, hx⟩
    · simp [getList, hk] at hx
      obtain ⟨e, he, hxe⟩ := ih hx
      exact ⟨e, by simp [he], hxe⟩

theorem firstDegreeLine_isCQ (T : NQ.Tables) (henc : EncOK T) (c : Rdfcanon.CQuad β) (h : IsCQ T c) (input : β) :
    Rdfcanon.firstDegreeLine input c
      = Spec.RDFC10.nquad (fun b => if b = input then [0x61] else [0x7a]) c.orig := by
  have := firstDegreeLine_cquadOf T henc c.orig c.idx h.2 input
  rw [← h.1] at this
  exact this

theorem pEnc_isCQ (T : NQ.Tables) (henc : EncOK T) (c : Rdfcanon.CQuad β) (h : IsCQ T c) :
    c.pEnc = Spec.RDFC10.iriRef (Spec.RDFC10.predicateValue c.orig) := by
  have := pEnc_cquadOf T henc c.orig c.idx h.2
  rw [← h.1] at this
  exact this

theorem relatedOf_isCQ (T : NQ.Tables) (c : Rdfcanon.CQuad β) (h : IsCQ T c) (identifier : β) :
    Rdfcanon.relatedOf identifier c
      = (Spec.RDFC10.relatedOf identifier c.orig).map (fun p => (p.1, [p.2])) := by
  have := relatedOf_cquadOf T c.orig c.idx identifier
  rw [← h.1] at this
  exact this

/-- Static part of the state correspondence: the blank node to quads map. -/
structure BRel (T : NQ.Tables) (mb : List (β × List (Rdfcanon.CQuad β))) (sb : Spec.RDFC10.B2Q β) : Prop where
  b2q : forget mb = sb
  cq : ∀ e ∈ mb, ∀ c ∈ e.2, IsCQ T c

theorem BRel.isCQ {T : NQ.Tables} {mb : List (β × List (Rdfcanon.CQuad β))} {sb : Spec.RDFC10.B2Q β}
    (h : BRel T mb sb) (b : β) : ∀ c ∈ getList mb b, IsCQ T c := by
  intro c hc
  obtain ⟨e, he, hce⟩ := getList_mem mb b c hc
  exact h.cq e he c hce

theorem hashFirstDegree_eq (T : NQ.Tables) (henc : EncOK T) (H : Str → Str)
    {mb : List (β × List (Rdfcanon.CQuad β))} {sb : Spec.RDFC10.B2Q β} (h : BRel T mb sb) (b : β) :
    Rdfcanon.hashFirstDegree H mb b = Spec.RDFC10.hashFirstDegree H sb b := by
  unfold Rdfcanon.hashFirstDegree Spec.RDFC10.hashFirstDegree
  simp only [← h.b2q, getList_forget, List.map_map]
  congr 3
  apply List.map_congr_left
  intro c hc
  simp only [Function.comp]
  exact firstDegreeLine_isCQ T henc c (h.isCQ b c hc) b

theorem hashRelated_eq (T : NQ.Tables) (henc : EncOK T) (H : Str → Str)
    {st : Rdfcanon.State β} {sb : Spec.RDFC10.B2Q β} {cs : Spec.RDFC10.Issuer β}
    (hb : BRel T st.b2q sb) (hc : CRel st.canon cs)
    {mi : Rdfcanon.Issuer β} {si : Spec.RDFC10.Issuer β} (hi : IRel mi si)
    (related : β) (c : Rdfcanon.CQuad β) (hcq : IsCQ T c) (pos : Nat) :
    Rdfcanon.hashRelated H st mi related c [pos]
      = Spec.RDFC10.hashRelated H sb cs si related c.orig pos := by
  unfold Rdfcanon.hashRelated Spec.RDFC10.hashRelated
  have hp := pEnc_isCQ T henc c hcq
  rw [hc.getIfKnown, hi.getIfKnown, hashFirstDegree_eq T henc H hb related, hp]
  have e1 : ([pos] ≠ [0x67]) = (pos ≠ 0x67) := by simp
  simp only [e1]
  congr 1
  by_cases hpos : pos = 0x67
  · simp only [hpos, ne_eq, not_true_eq_false, if_false]
    cases cs.get? related with
    | some id => simp
    | none => cases si.get? related <;> simp
  · simp only [ne_eq, hpos, not_false_eq_true, if_true]
    cases cs.get? related with
    | some id => simp
    | none => cases si.get? related <;> simp

theorem hashToRelated_eq (T : NQ.Tables) (henc : EncOK T) (H : Str → Str)
    {st : Rdfcanon.State β} {sb : Spec.RDFC10.B2Q β} {cs : Spec.RDFC10.Issuer β}
    (hb : BRel T st.b2q sb) (hc : CRel st.canon cs)
    {mi : Rdfcanon.Issuer β} {si : Spec.RDFC10.Issuer β} (hi : IRel mi si) (identifier : β) :
    Rdfcanon.hashToRelated H st mi identifier = Spec.RDFC10.hashToRelated H sb cs si identifier := by
  unfold Rdfcanon.hashToRelated Spec.RDFC10.hashToRelated
  rw [← hb.b2q, getList_forget, List.foldl_map]
  apply foldl_ext_mem
  intro c hcm acc
  have hcq := hb.isCQ identifier c hcm
  have hrel := relatedOf_isCQ T c hcq identifier
  rw [hrel, List.foldl_map]
  apply foldl_ext_mem
  intro cp _ acc
  simp only
  rw [hashRelated_eq T henc H hb hc hi cp.1 c hcq cp.2, hb.b2q]

end RdfModel.Proofs.C04
