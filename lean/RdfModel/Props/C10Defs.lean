/-
  Definitions used by the C10 theorems (core-only: the driver evaluates these predicates too).

  * `WFQuad` / `WFDataset`: the datasets a JSON-LD document can denote — subjects and graph names are
    IRIs or blank nodes, every IRI (also datatypes and predicates) is absolute in the sense of the
    fragment (`JL.absIri`), a literal has a language tag iff its datatype is rdf:langString, tags are
    well-formed (`JL.langOK`);
  * hypotheses of the encoder theorem: default graph only, no literal the encoder writes as a native
    JSON value, and the certificate `encCert`.
-/
import RdfModel.Spec.JsonLdWriter
import RdfModel.Model.JsonLdEncoder
namespace RdfModel.C10
open RdfModel RdfModel.Desc RdfModel.JL

variable {β : Type}

/-- a term in object position -/
def wfObj : Term β → Bool
  | .iri v => absIri v
  | .bnode _ => true
  | .lit _ dt (some l) => dt == rdfLangString && langOK l
  | .lit _ dt none => absIri dt

/-- a term in subject or graph-name position -/
def wfNode : Term β → Bool
  | .iri v => absIri v
  | .bnode _ => true
  | .lit _ _ _ => false

def wfQuad (q : DQuad β) : Bool :=
  wfNode q.t.s && absIri q.t.p && wfObj q.t.o &&
  (match q.g with
   | none => true
   | some g => wfNode g)

/-- the dataset is one a JSON-LD document can denote -/
def WFDataset (d : List (DQuad β)) : Prop := ∀ q ∈ d, wfQuad q = true

instance (d : List (DQuad β)) : Decidable (WFDataset d) := by unfold WFDataset; exact inferInstance

/-! ### the encoder: hypotheses and certificate -/

section Encoder
variable [DecidableEq β]
open RdfModel.JLEnc

/-- the dataset lives in the default graph (the encoder drops named graphs) -/
def defaultGraphOnly (d : List (DQuad β)) : Bool := d.all (fun q => q.g.isNone)

/-- the encoder writes this literal as a native JSON number or boolean -/
def isNativeLit : Term β → Bool
  | .lit lex dt none =>
    (dt == xsdInteger && isNativeInteger lex) || (dt == xsdDouble && isNativeDouble lex) ||
    (dt == xsdBoolean && (lex == asc "true" || lex == asc "false"))
  | _ => false

/-- no literal of a datatype the encoder may write natively (xsd:integer, xsd:double, xsd:boolean) -/
def noNativeTyped (d : List (DQuad β)) : Bool :=
  d.all (fun q => match q.t.o with
    | .lit _ dt _ => !(dt == xsdInteger || dt == xsdDouble || dt == xsdBoolean)
    | _ => true)

/-- every IRI of a term (its datatype for a literal) -/
def termIris : Term β → List Str
  | .iri v => [v]
  | .bnode _ => []
  | .lit _ dt _ => [dt]

def quadIris (q : DQuad β) : List Str :=
  termIris q.t.s ++ [q.t.p] ++ termIris q.t.o ++ (match q.g with | some g => termIris g | none => [])

/-- finding C10-K2: some IRI of the dataset has, before its first colon, the name of a prefix the
    encoder may declare, and is not followed by `//`: written in full it is read back as a compact IRI
    once that prefix is in the `@context` -/
def schemeClash (cfg : Cfg β) (d : List (DQuad β)) : Bool :=
  d.any fun q => (quadIris q).any fun v =>
    match splitColon v with
    | some (p, s) => s.take 2 != [cSlash, cSlash] && (cfg.prefixes.filter isPrefixTerm).any (fun m => m.1 == p)
    | none => false

/-- statements of an exported resource with the blank node each inlined resource was made from -/
inductive TStmt (β : Type) where
  | obj (p : Str) (o : Term β)
  | anon (b : β) (p : Str) (stmts : List (TStmt β))

/-- the loop of `exportResourceStatements` (default options, repaired export with the `inlined` set `V`)
    keeping the inlined blank nodes; `rec` is the recursive call -/
def foldStmtsT (B : Builder β) (rec : Term β → List β → Option (List (TStmt β) × List β)) :
    List (PO β) → List β → Option (List (TStmt β) × List β)
  | [], V => some ([], V)
  | po :: rest, V =>
    match po.2 with
    | .bnode b =>
      if B.refCount b == 1 && !decide (b ∈ V) then
        match rec po.2 V with
        | none => none
        | some (lb, V1) =>
          match foldStmtsT B rec rest V1 with
          | none => none
          | some (l, V2) => some (TStmt.anon b po.1 lb :: l, V2)
      else
        match foldStmtsT B rec rest V with
        | none => none
        | some (l, V2) => some (TStmt.obj po.1 po.2 :: l, V2)
    | _ =>
      match foldStmtsT B rec rest V with
      | none => none
      | some (l, V2) => some (TStmt.obj po.1 po.2 :: l, V2)

/-- `exportResourceStatements(subject, opts, inlined)` with tags -/
def exportT (B : Builder β) : Nat → Term β → List β → Option (List (TStmt β) × List β)
  | 0, _, _ => none
  | fuel + 1, s, V => foldStmtsT B (exportT B fuel) (B.stmts s) (markSubject V s)

/-- one loop of `ExportResources` over the subjects, with tags: `(subject, statements)` per exported resource -/
def foldRootsT (B : Builder β) (fuel : Nat) (pick : Term β → List β → Bool) :
    List (Term β) → List β → Option (List (Term β × List (TStmt β)) × List β)
  | [], V => some ([], V)
  | s :: rest, V =>
    if pick s V then
      match exportT B fuel s V with
      | none => none
      | some (st, V1) =>
        match foldRootsT B fuel pick rest V1 with
        | none => none
        | some (rs, V2) => some ((s, st) :: rs, V2)
    else foldRootsT B fuel pick rest V

/-- the member name under which the encoder files a statement (`@type`, or the compacted predicate) -/
def encKey (E : Enc) (p : Str) (o : Option (Term β)) : Str :=
  match o with
  | some (.iri _) => if p = rdfType then kType else (compactVocabIRI E p).1
  | _ => (compactVocabIRI E p).1

/-- group `(member name, predicate, value)` triples by member name in order of first occurrence, as
    `buildResource` does with `graphProperties` -/
def groupByKey (kps : List (Str × Str × Tree β)) : List (Str × Str × List (Tree β)) :=
  kps.foldl (fun acc e => alUpd (e.2.1, []) (fun x => (x.1, x.2 ++ [e.2.2])) acc e.1) []

mutual
/-- member name, predicate and tree of one statement -/
def stmtTree (E : Enc) : TStmt β → Str × Str × Tree β
  | .obj p o => (encKey E p (some o), p, .term o)
  | .anon b p l => (encKey E p (none : Option (Term β)), p, .node (.anon b) ((groupByKey (stmtTrees E l)).map (·.2)))
def stmtTrees (E : Enc) : List (TStmt β) → List (Str × Str × Tree β)
  | [] => []
  | x :: xs => stmtTree E x :: stmtTrees E xs
end

/-- the groups of a statement list -/
def groupsOf (E : Enc) (st : List (TStmt β)) : List (Str × Str × List (Tree β)) := groupByKey (stmtTrees E st)

/-- the node object expected for an exported resource: subject and tagged statements -/
def rootTree (E : Enc) (B : Builder β) (r : Term β × List (TStmt β)) : Tree β :=
  let id : NodeId β :=
    match r.1 with
    | .iri v => .iri v
    | .bnode b => if B.refCount b == 0 then .anon b else .named b
    | .lit _ _ _ => .iri []
  Tree.node id ((groupsOf E r.2).map (·.2))

/-- the forest the encoder's document is expected to denote (the certificate): one default-graph block
    with a node object per exported resource, in the order of the two passes of `ExportResources` -/
def encForest (cfg : Cfg β) (d : List (DQuad β)) (ord ord2 : List (Term β)) : Option (Forest β) :=
  let E := mkEnc cfg
  let D := dbuild d
  if !D.graphNames.contains none then some [] else
  let B := D.builder none
  let fuel := d.length + 1
  match foldRootsT B fuel (B.pick1 Opts.default) ord [] with
  | none => none
  | some (rs1, V1) =>
    match foldRootsT B fuel (B.pick2 Opts.default) ord2 V1 with
    | none => none
    | some (rs2, _) =>
      some [(none, (rs1 ++ rs2).map (rootTree E B))]

/-- the counter at which the entries of the encoder's document start: a single item is the document
    itself, several items sit in an `@graph` whose wrapper takes a blank node first -/
def encStart (F : Forest β) : Nat :=
  match F with
  | [(_, [_])] => 0
  | _ => 1

/-- The certificate of the encoder theorem: the forest validates against the dataset, and the fragment
    semantics reads the encoder's document as exactly that forest. Decidable; the driver evaluates it
    for every case of the harness (op `jl.cert`). -/
def encCert (mode11 : Bool) (base : Option Str) (cfg : Cfg β) (d : List (DQuad β)) (ord ord2 : List (Term β)) : Bool :=
  match encode cfg d ord ord2, encForest cfg d ord ord2 with
  | some doc, some F =>
    forestOK F d && decide (toRdf mode11 base doc = some (denForest cfg.label F (encStart F)).1)
  | _, _ => false


/-! ### natural hypotheses of the encoder theorem (`encoder_roundtrip_natural_partial`)

  Every condition below is decidable and LOCAL: it speaks about one IRI of the dataset, one prefix the
  encoder declares, or the configuration — never about `toRdf` of the whole document. The driver
  evaluates them for every encoder case of the harness (op `jl.cert`, flags `lbl ctx loc struct`). -/

/-- the namespace the encoder writes into `@context` for the prefix `p` (`ExpandPrefix(PrefixReference{Prefix: p})`) -/
def ctxEntry (E : Enc) (p : Str) : Option Str :=
  (Prefix.expand E.pm ⟨utf8Encode p, []⟩).map utf8Decode

/-- a prefix name the fragment semantics accepts as a term and that cannot be mistaken for anything else:
    not empty, not `_`, no `:` or `/`, not of keyword form and not starting with `@` (the last condition
    is a limit of the fragment `Spec.JsonLdFragment.processCtxObj`, which refuses every `@…` member
    it does not know; `isPrefixTerm` of the encoder only excludes the keyword form) -/
def pfxNameOK (p : Str) : Bool :=
  !(p == [] || p == [cUnderscore] || p.contains cColon || p.contains cSlash || isKeywordForm p ||
    p.head? == some cAt)

/-- the scheme of `v` (what precedes its first colon) is none of `names`, unless `//` follows -/
def schemeFree (names : List Str) (v : Str) : Bool :=
  match splitColon v with
  | some (s, rest) => rest.take 2 == [cSlash, cSlash] || !names.contains s
  | none => true

/-- the prefixes the encoder marks as used, in order of first use (`GetUsedPrefixes`) -/
def usedPrefixes (cfg : Cfg β) (d : List (DQuad β)) (ord ord2 : List (Term β)) : List Str :=
  let D := dbuild d
  let B := D.builder none
  match (if D.graphNames.contains none then B.exportResourcesV Opts.default ord ord2 (d.length + 1) else some []) with
  | none => []
  | some rs => dedupStr (buildRoots (mkEnc cfg) cfg.label B rs []).2

/-- the prefix entries of the `@context` the encoder writes: `(prefix, namespace)` -/
def declared (cfg : Cfg β) (d : List (DQuad β)) (ord ord2 : List (Term β)) : List (Str × Str) :=
  (usedPrefixes cfg d ord ord2).filterMap fun p => (ctxEntry (mkEnc cfg) p).map fun ns => (p, ns)

/-- **H-ctx**: the `@context` the encoder declares is one a JSON-LD reader accepts and reads as intended:
    the base (if any) is an absolute IRI; every declared prefix is a usable term (`pfxNameOK`) mapped to
    an absolute IRI ending in a gen-delim character whose own scheme is not a declared prefix
    (otherwise the namespace itself would be expanded as a compact IRI); and no IRI of the dataset has a
    declared prefix as its scheme (finding C10-K2, here relative to the prefixes actually declared). -/
def ctxOK (cfg : Cfg β) (d : List (DQuad β)) (ord ord2 : List (Term β)) : Bool :=
  let decl := declared cfg d ord ord2
  let names := decl.map (·.1)
  (match cfg.base with | some b => absIri b | none => true) &&
  decl.all (fun e => pfxNameOK e.1 && absIri e.2 && endsGenDelim e.2 && schemeFree names e.2) &&
  d.all (fun q => (quadIris q).all (schemeFree names))

/-- the prefix table gives back the IRI it shortened: C13's `compact_expand` seen through the UTF-8
    conversions between Go strings (bytes) and IRIs (code points) -/
def compactOK (E : Enc) (v : Str) : Bool :=
  match compactPrefix E v with
  | none => true
  | some (p, r) => (ctxEntry E p).any (fun ns => ns ++ r == v)

/-- the encoder writes `v` (a value of `@id`) as a compact IRI -/
def usesCompact (E : Enc) (v : Str) : Bool :=
  match compactPrefix E v with
  | some (_, r) => r.take 2 != [cSlash, cSlash]
  | none => false

/-- a reference relative to the base that the encoder writes for `v` is read back as `v`: it is not taken
    for a compact IRI or an absolute IRI (its part before the first colon is neither `_`, nor a declared
    prefix, nor of scheme form, and `//` does not follow the colon) and RFC 3986 §5.2 resolves it to `v`
    (C13's `relativize_sound` seen through the UTF-8 conversions, outside the classes of C10-K1) -/
def relOK (E : Enc) (names : List Str) (bs v : Str) : Bool :=
  usesCompact E v ||
  match E.base with
  | none => true
  | some b =>
    match Prefix.relativizeB b (utf8Encode v) with
    | .some rel =>
      let r := utf8Decode rel
      isKeywordForm r || colonAfterFirst r ||
      ((match (if colonAfterFirst r then splitColon r else none) with
        | some (p, s) => p != [cUnderscore] && s.take 2 != [cSlash, cSlash] && !names.contains p && !isScheme p
        | none => true) && Spec.RFC3986Lite.resolve bs r == v)
    | _ => true

/-- IRIs in `@id` position: subjects and objects -/
def docIris (q : DQuad β) : List Str := termIris q.t.s ++ (match q.t.o with | .iri v => [v] | _ => [])

/-- **H-loc**: every IRI of the dataset is shortened invertibly (`compactOK`), and with a base every
    subject / object IRI that is written as a relative reference resolves back (`relOK`) -/
def locOK (cfg : Cfg β) (d : List (DQuad β)) (ord ord2 : List (Term β)) : Bool :=
  let E := mkEnc cfg
  let names := (declared cfg d ord ord2).map (·.1)
  d.all fun q => (quadIris q).all (compactOK E) &&
    (match cfg.base with
     | some bs => (docIris q).all (relOK E names bs)
     | none => true)

/-- **H-lbl**: no blank node label is empty (`_:` alone is not a blank node identifier) -/
def labelsOK (cfg : Cfg β) (d : List (DQuad β)) : Bool :=
  d.all fun q => (termBN q.t.s ++ termBN q.t.o).all fun b => cfg.label b != []

/-- **H-struct**: the export of the resource-list builder (C17) covers the dataset: the forest of the
    exported resources validates against `d` (each quad once, inlined blank nodes distinct and not
    referenced by identifier). Independent of JSON-LD: no context, no IRI, no `toRdf`. For a default-graph
    dataset this is what C17's `flatten_export_repaired` expresses through `NewTriples`; it is NOT derived
    from that theorem here (the forest groups statements by member name, C17 flattens them in order). -/
def structOK (cfg : Cfg β) (d : List (DQuad β)) (ord ord2 : List (Term β)) : Bool :=
  match encForest cfg d ord ord2 with
  | some F => forestOK F d
  | none => false

end Encoder

end RdfModel.C10
