/-
  Audit for C05/C06/C15 (N-Triples / N-Quads decoders): axioms used by every theorem of
  Props/C05NQ.lean (expected: a subset of {propext, Classical.choice, Quot.sound}) and non-vacuity
  examples on the regenerated tables.
-/
import RdfModel.Props.C05NQ
import RdfModel.Gen.NQTables
open RdfModel RdfModel.NQ

#print axioms RdfModel.C05NQ.run_fuel_suffices
#print axioms RdfModel.C05NQ.next_shrinks
#print axioms RdfModel.C05NQ.latch
#print axioms RdfModel.C05NQ.next_true_has_current
#print axioms RdfModel.C05NQ.run_emits_wf
#print axioms RdfModel.C05NQ.ioerr_reported
#print axioms RdfModel.C05NQ.done_only_on_blank
#print axioms RdfModel.C05NQ.next_extend
#print axioms RdfModel.C05NQ.prefix_monotone

namespace RdfModel.C05NQ.Witness

/-- Two statements (tagged literal + graph name; blank-node subject), a comment and a blank line. -/
def doc : List Nat :=
  asc "# head\n<http://a/s> <http://a/p> \"x\\n\"@en-US <http://a/g> .\n\n_:b1 <http://a/p> <http://a/o> . # tail\n"

/-- The same document cut inside the second statement (after the predicate). -/
def truncated : List Nat :=
  asc "# head\n<http://a/s> <http://a/p> \"x\\n\"@en-US <http://a/g> .\n\n_:b1 <http://a/p> "

/-- A complete document decodes to its two quads and a clean end. -/
example : run Gen.nquads (fun _ => true) .eof true doc =
    ([⟨.iri (asc "http://a/s"), .iri (asc "http://a/p"), .lit (asc "x\n") rdfLangString (some (asc "en-US")),
        some (.iri (asc "http://a/g"))⟩,
      ⟨.bnode (asc "b1"), .iri (asc "http://a/p"), .iri (asc "http://a/o"), none⟩], .clean) := by
  decide

/-- A truncated document yields the complete first statement and then an EOF *error*, not a clean end. -/
example : run Gen.nquads (fun _ => true) .eof true truncated =
    ([⟨.iri (asc "http://a/s"), .iri (asc "http://a/p"), .lit (asc "x\n") rdfLangString (some (asc "en-US")),
        some (.iri (asc "http://a/g"))⟩], .error .eof) := by
  decide

/-- … in accordance with `prefix_monotone` (`truncated` is a prefix of `doc`). -/
example : truncated <+: doc := by decide

/-- With a reader error at the end, the same truncated input reports the reader's error. -/
example : (run Gen.nquads (fun _ => true) .ioerr true truncated).2 = .error .io := by decide

end RdfModel.C05NQ.Witness
