// Command c16d: property C16 (captured text offsets), Turtle / TriG STATEMENT layer.
//
// T3 correspondence between the instrumented statement machine Model.TurtleDocOffsets (Lean driver, op
// `ttlo.dec`) and encoding/turtle + encoding/trig: for every document the decoded statements (order,
// terms up to first-occurrence blank-node numbering), EVERY reported range of every statement (which of
// subject / predicate / object / graph name are present, and byte, line, column of From and Until),
// the verdict (clean / error class / panic) and the offset carried by Err() (none / bare byte offset /
// text offset / text offset range) must agree exactly, with capture on and off, with and without an
// initial offset, for both stream endings.  Columns are compared on documents inside TW.simple (where
// one grapheme cluster per rune is claimed); bytes and lines always.
//
// The model's IRI resolver is RFC 3986 on a safe fragment (Driver.TtlDoc.resolveSafe, as for `ttld.dec`):
// when it declines, the model stops with err:resolve and the statements (with ranges) before that point
// must be a prefix of the implementation's; counted as resolver-skip.
//
// Additionally (model-internal, run-time cross-check of the erasure theorem): `ttlo.erased` must equal
// `ttld.dec` on a sample of the documents.
package main

import (
	"errors"
	"flag"
	"fmt"
	"io"
	"net/url"
	"os"
	"runtime"
	"strings"
	"sync"
	"time"
	"unicode/utf8"

	"verifharness/vh"

	"github.com/dpb587/cursorio-go/cursorio"
	"github.com/dpb587/rdfkit-go/encoding"
	"github.com/dpb587/rdfkit-go/encoding/trig"
	"github.com/dpb587/rdfkit-go/encoding/turtle"
	"github.com/dpb587/rdfkit-go/iri"
	"github.com/dpb587/rdfkit-go/rdf"
)

var (
	tier     = flag.String("tier", "quick", "quick|thorough")
	driver   = flag.String("driver", "/verif/lean/.lake/build/bin/driver", "lean driver binary")
	out      = flag.String("out", "/verif/evidence/.C16D.c16d.report.json", "report path")
	findings = flag.String("findings", "/verif/known-findings.json", "known findings")
	replay   = flag.String("replay", "", "replay file (one protocol line per line, or a replay JSON written by ./check)")
	scale    = flag.Int("scale", 1, "multiply generated case counts (search mode uses 10)")
	nomodel  = flag.Bool("nomodel", false, "implementation-side oracle only (capture on == off, shift)")
	hints    = flag.String("hints", "", "file of protocol lines that disagreed; run first")
)

const defaultBase = "http://base.example/dir/doc"

type off struct{ b, l, c int64 }

type job struct {
	kind    string
	pkg     string // turtle | trig
	fail    bool
	capture bool
	init    off
	base    string
	doc     []byte
	// results
	goR     string
	ranges  int
	stmts   int
	verdict string
	errKind string
	simple  bool
	viol    []string
	negOff  bool // Go reported a negative bare byte offset (defect D45); the model's Nat offset is truncated at 0
}

func endName(fail bool) string {
	if fail {
		return "io"
	}
	return "eof"
}

func baseTok(b string) string {
	if b == "" {
		return "-"
	}
	return vh.XS(b)
}

// dblLegacy: the implementation is the code before patch c16d-1 (defect D45: the hand-back error sites
// subtract the offending rune's size twice from the capture-off byte offset). Determined once by a probe
// (probeDbl) so that the model variant compared (CfgO.dbl) is the one of the tree under test; the
// defect itself is reported by the oracle (negative byte offset), independently of this switch.
var dblLegacy bool

func (j *job) line() string {
	return fmt.Sprintf("ttlo.dec %s %s %s %s %s %d,%d,%d %s %s", j.pkg, endName(j.fail), vh.B01(j.capture), vh.B01(j.simple), vh.B01(dblLegacy), j.init.b, j.init.l, j.init.c, baseTok(j.base), vh.X(j.doc))
}

// probeDbl: `<s> .` with capture off — the `.` at byte 4 is reported at 3 by the unpatched code.
func probeDbl() bool {
	r := goDecode("turtle", false, false, off{}, "", []byte("<s> ."), true, 0)
	return r.epos == "Eb3"
}

func parseLine(l string) (*job, bool) {
	f := strings.Fields(l)
	if len(f) != 9 || f[0] != "ttlo.dec" {
		return nil, false
	}
	j := &job{kind: "replay", pkg: f[1], fail: f[2] == "io", capture: f[3] == "1"}
	if _, err := fmt.Sscanf(f[6], "%d,%d,%d", &j.init.b, &j.init.l, &j.init.c); err != nil {
		return nil, false
	}
	if f[7] != "-" {
		b, err := vh.UnX(f[7])
		if err != nil {
			return nil, false
		}
		j.base = string(b)
	}
	d, err := vh.UnX(f[8])
	if err != nil {
		return nil, false
	}
	j.doc = d
	return j, true
}

// ---------------------------------------------------------------- Simple (copy of TW.simpleRune; tied by op nqo.simple in go/cmd/c16)

func simpleRune(c rune) bool {
	return c == 0x09 || c == 0x0a || c == 0x0d || (0x20 <= c && c <= 0x7e) || (0xa0 <= c && c <= 0x2ff) ||
		(0x4e00 <= c && c <= 0x9fff) || c == 0xfffd || (0x10000 <= c && c <= 0x100ff) || (0x1f600 <= c && c <= 0x1f64f)
}

func simpleDoc(b []byte) bool {
	for len(b) > 0 {
		r, n := utf8.DecodeRune(b)
		if !simpleRune(r) {
			return false
		}
		b = b[n:]
	}
	return true
}

// ---------------------------------------------------------------- implementation side

func errClass(err error) string {
	var up iri.UnknownPrefixError
	var ue *url.Error
	switch {
	case err == nil:
		return "clean"
	case errors.Is(err, vh.ErrInjected):
		return "err:io"
	case errors.Is(err, io.EOF):
		return "err:eof"
	case errors.As(err, &up):
		return "err:pfx"
	case errors.As(err, &ue), strings.Contains(err.Error(), "resolve iri:"), strings.Contains(err.Error(), "parse \""),
		strings.Contains(err.Error(), "invalid URL escape"), strings.Contains(err.Error(), "missing protocol scheme"),
		strings.Contains(err.Error(), "invalid port"), strings.Contains(err.Error(), "invalid character"),
		strings.Contains(err.Error(), "first path segment in URL cannot contain colon"),
		strings.Contains(err.Error(), "invalid control character in URL"), strings.Contains(err.Error(), "invalid userinfo"),
		strings.Contains(err.Error(), "invalid host"):
		return "err:resolve"
	}
	return "err:syntax"
}

func showOff(o cursorio.TextOffset, cols bool) string {
	if cols {
		return fmt.Sprintf("%d.%d.%d", int64(o.Byte), o.LineColumn[0], o.LineColumn[1])
	}
	return fmt.Sprintf("%d.%d.*", int64(o.Byte), o.LineColumn[0])
}

func showRange(r cursorio.TextOffsetRange, cols bool) string {
	return showOff(r.From, cols) + "-" + showOff(r.Until, cols)
}

// errPos: the offset carried by an error (cursorio.OffsetError / OffsetRangeError via errors.As).
func errPos(err error, cols bool) (string, string) {
	var oe cursorio.OffsetError
	var ore cursorio.OffsetRangeError
	if errors.As(err, &oe) {
		switch v := oe.Offset.(type) {
		case cursorio.TextOffset:
			return "Et" + showOff(v, cols), "t"
		case *cursorio.TextOffset:
			if v != nil {
				return "Et" + showOff(*v, cols), "t"
			}
		case cursorio.ByteOffset:
			return fmt.Sprintf("Eb%d", int64(v)), "b"
		default:
			return fmt.Sprintf("E?%T", oe.Offset), "?"
		}
	} else if errors.As(err, &ore) {
		if v, ok := ore.OffsetRange.(cursorio.TextOffsetRange); ok {
			return "Er" + showRange(v, cols), "r"
		} else if v, ok := ore.OffsetRange.(*cursorio.TextOffsetRange); ok && v != nil {
			return "Er" + showRange(*v, cols), "r"
		}
		return fmt.Sprintf("E?%T", ore.OffsetRange), "?"
	}
	return "E-", "-"
}

var slots = []encoding.StatementOffsetsType{encoding.SubjectStatementOffsets, encoding.PredicateStatementOffsets, encoding.ObjectStatementOffsets, encoding.GraphNameStatementOffsets}

type decoder interface {
	Next() bool
	Err() error
	StatementTextOffsets() encoding.StatementTextOffsets
}

type goResult struct {
	stmts   []string // wire without ranges
	rgs     []string // ranges per statement "s/p/o/g"
	raw     [][4]*cursorio.TextOffsetRange
	verdict string
	epos    string
	ekind   string
	nranges int
}

func (g goResult) wire() string {
	ss := make([]string, len(g.stmts))
	for i := range g.stmts {
		ss[i] = g.stmts[i] + "@" + g.rgs[i]
	}
	return strings.Join(ss, ";") + "|" + g.verdict + "|" + g.epos
}

// variant selects among equivalent ways of configuring the same effective capture/initial offset.
func goDecode(pkg string, fail, capture bool, init off, base string, doc []byte, cols bool, variant int) (res goResult) {
	defer func() {
		if p := recover(); p != nil {
			res.verdict = "panic"
			res.epos = "E-"
			res.ekind = "-"
		}
	}()
	rd := &vh.EndReader{B: append([]byte(nil), doc...), Fail: fail}
	var seen []rdf.BlankNodeIdentifier
	label := func(bn rdf.BlankNode) string {
		if bn.Identifier == nil {
			return "?nil-identifier"
		}
		for i, x := range seen {
			if x.EqualsBlankNodeIdentifier(bn.Identifier) {
				return fmt.Sprintf("b%d", i)
			}
		}
		seen = append(seen, bn.Identifier)
		return fmt.Sprintf("b%d", len(seen)-1)
	}
	tw := func(t rdf.Term) string {
		if t == nil {
			return "-"
		}
		return vh.TermWire(t, label)
	}
	ci := cursorio.TextOffset{Byte: cursorio.ByteOffset(init.b), LineColumn: cursorio.TextLineColumn{init.l, init.c}}
	var d decoder
	var cur func() [4]rdf.Term
	switch pkg {
	case "turtle":
		cfg := turtle.DecoderConfig{}
		if base != "" {
			cfg = cfg.SetDefaultBase(base)
		}
		if capture {
			if init != (off{}) || variant%2 == 1 {
				cfg = cfg.SetInitialTextOffset(ci)
			} else {
				cfg = cfg.SetCaptureTextOffsets(true)
			}
		} else if variant%2 == 1 {
			cfg = cfg.SetCaptureTextOffsets(false)
		}
		dd, err := turtle.NewDecoder(rd, cfg)
		if err != nil {
			res.verdict, res.epos, res.ekind = "new:"+errClass(err), "E-", "-"
			return
		}
		d = dd
		cur = func() [4]rdf.Term { t := dd.Triple(); return [4]rdf.Term{t.Subject, t.Predicate, t.Object, nil} }
	case "trig":
		cfg := trig.DecoderConfig{}
		if base != "" {
			cfg = cfg.SetDefaultBase(base)
		}
		if capture {
			if init != (off{}) || variant%2 == 1 {
				cfg = cfg.SetInitialTextOffset(ci)
			} else {
				cfg = cfg.SetCaptureTextOffsets(true)
			}
		} else if variant%2 == 1 {
			cfg = cfg.SetCaptureTextOffsets(false)
		}
		dd, err := trig.NewDecoder(rd, cfg)
		if err != nil {
			res.verdict, res.epos, res.ekind = "new:"+errClass(err), "E-", "-"
			return
		}
		d = dd
		cur = func() [4]rdf.Term {
			q := dd.Quad()
			var g rdf.Term
			if q.GraphName != nil {
				g = q.GraphName
			}
			return [4]rdf.Term{q.Triple.Subject, q.Triple.Predicate, q.Triple.Object, g}
		}
	default:
		panic("unknown package " + pkg)
	}
	for d.Next() {
		t := cur()
		res.stmts = append(res.stmts, tw(t[0])+","+tw(t[1])+","+tw(t[2])+","+tw(t[3]))
		o := d.StatementTextOffsets()
		var rg [4]string
		var raw [4]*cursorio.TextOffsetRange
		for i, k := range slots {
			if r, ok := o[k]; ok {
				rg[i] = showRange(r, cols)
				rr := r
				raw[i] = &rr
				res.nranges++
			} else {
				rg[i] = "-"
			}
		}
		res.rgs = append(res.rgs, strings.Join(rg[:], "/"))
		res.raw = append(res.raw, raw)
	}
	err := d.Err()
	res.verdict = errClass(err)
	res.epos, res.ekind = errPos(err, cols)
	return
}

// process: the implementation run for the protocol line + the implementation-only oracle
// (capture on == capture off; a non-zero initial offset shifts every range and error offset exactly).
func process(j *job) {
	j.simple = simpleDoc(j.doc)
	r := goDecode(j.pkg, j.fail, j.capture, j.init, j.base, j.doc, j.simple, len(j.doc))
	j.goR, j.ranges, j.stmts, j.verdict, j.errKind = r.wire(), r.nranges, len(r.stmts), r.verdict, r.ekind
	if !j.capture {
		if r.nranges > 0 {
			j.viol = append(j.viol, "range reported although capture is off")
		}
		if r.ekind == "b" {
			var n int64
			fmt.Sscanf(r.epos, "Eb%d", &n)
			if n < 0 || n > int64(len(j.doc)) {
				j.viol = append(j.viol, fmt.Sprintf("error-offset-outside: capture off, error byte offset %d outside the document (length %d)", n, len(j.doc)))
				j.negOff = n < 0
			}
		}
		return
	}
	offR := goDecode(j.pkg, j.fail, false, off{}, j.base, j.doc, j.simple, len(j.doc)+1)
	if strings.Join(offR.stmts, ";") != strings.Join(r.stmts, ";") || offR.verdict != r.verdict {
		j.viol = append(j.viol, fmt.Sprintf("capture changes the outcome: %d statements/%s with, %d/%s without", len(r.stmts), r.verdict, len(offR.stmts), offR.verdict))
	}
	if j.init != (off{}) {
		z := goDecode(j.pkg, j.fail, true, off{}, j.base, j.doc, true, len(j.doc))
		s := goDecode(j.pkg, j.fail, true, j.init, j.base, j.doc, true, len(j.doc))
		sh := func(p cursorio.TextOffset) cursorio.TextOffset {
			q := cursorio.TextOffset{Byte: p.Byte + cursorio.ByteOffset(j.init.b), LineColumn: cursorio.TextLineColumn{p.LineColumn[0] + j.init.l, p.LineColumn[1]}}
			if p.LineColumn[0] == 0 {
				q.LineColumn[1] += j.init.c
			}
			return q
		}
		if len(z.raw) != len(s.raw) || z.verdict != s.verdict {
			j.viol = append(j.viol, "initial offset changes the outcome")
		} else {
			for i := range z.raw {
				for k := 0; k < 4; k++ {
					a, b := z.raw[i][k], s.raw[i][k]
					if (a == nil) != (b == nil) || (a != nil && (sh(a.From) != b.From || sh(a.Until) != b.Until)) {
						j.viol = append(j.viol, fmt.Sprintf("statement %d slot %d: the run with initial offset %v is not the shifted zero run", i, k, j.init))
					}
				}
			}
		}
	}
}

func runJobs(js []*job) {
	n := runtime.NumCPU()
	if n > 12 {
		n = 12
	}
	var wg sync.WaitGroup
	ch := make(chan *job, 256)
	for w := 0; w < n; w++ {
		wg.Add(1)
		go func() {
			defer wg.Done()
			for j := range ch {
				process(j)
			}
		}()
	}
	for _, j := range js {
		ch <- j
	}
	close(ch)
	wg.Wait()
}

// runDriver splits a batch over several driver processes by size.
func runDriver(lines []string) ([]string, error) {
	workers := 10
	if len(lines) < 64 {
		workers = 1
	}
	total := 0
	for _, l := range lines {
		total += len(l) + 1
	}
	outl := make([]string, len(lines))
	var wg sync.WaitGroup
	var mu sync.Mutex
	var firstErr error
	start, acc := 0, 0
	for i, l := range lines {
		acc += len(l) + 1
		if acc >= total/workers+1 || i == len(lines)-1 {
			a, b := start, i+1
			start, acc = b, 0
			wg.Add(1)
			go func() {
				defer wg.Done()
				res, err := vh.Driver{Path: *driver}.Run(lines[a:b])
				if err != nil {
					mu.Lock()
					if firstErr == nil {
						firstErr = err
					}
					mu.Unlock()
					return
				}
				copy(outl[a:b], res)
			}()
		}
	}
	wg.Wait()
	return outl, firstErr
}

func privateDriver(path string) (string, func()) {
	for try := 0; try < 60; try++ {
		b, err := os.ReadFile(path)
		if err == nil && len(b) > 0 {
			f, err := os.CreateTemp("", "c16d-driver-*")
			if err != nil {
				break
			}
			_, werr := f.Write(b)
			f.Close()
			if werr == nil && os.Chmod(f.Name(), 0o755) == nil {
				return f.Name(), func() { os.Remove(f.Name()) }
			}
			os.Remove(f.Name())
		}
		time.Sleep(time.Second)
	}
	return path, func() {}
}

func splitWire(w string) ([]string, string, string) {
	p := strings.Split(w, "|")
	if len(p) != 3 {
		return nil, w, ""
	}
	if p[0] == "" {
		return nil, p[1], p[2]
	}
	return strings.Split(p[0], ";"), p[1], p[2]
}

func isPrefixOf(a, b []string) bool {
	if len(a) > len(b) {
		return false
	}
	for i := range a {
		if a[i] != b[i] {
			return false
		}
	}
	return true
}

func clip(s string, n int) string {
	if len(s) > n {
		return s[:n] + "…"
	}
	return s
}

// firstDiff: a short description of where two wires part.
func firstDiff(g, m string) string {
	gs, gv, ge := splitWire(g)
	ms, mv, me := splitWire(m)
	for i := 0; i < len(gs) && i < len(ms); i++ {
		if gs[i] != ms[i] {
			return fmt.Sprintf("statement %d: go %s, model %s", i, gs[i], ms[i])
		}
	}
	if len(gs) != len(ms) {
		return fmt.Sprintf("go %d statements (%s %s), model %d (%s %s)", len(gs), gv, ge, len(ms), mv, me)
	}
	return fmt.Sprintf("go %s %s, model %s %s", gv, ge, mv, me)
}

func main() { os.Exit(realMain()) }

func realMain() int {
	flag.Parse()
	if !*nomodel {
		p, cleanup := privateDriver(*driver)
		*driver = p
		defer cleanup()
	}
	seed := vh.SeedFromEnv()
	dblLegacy = probeDbl()
	fs, ferr := vh.LoadFindings(*findings)
	if ferr != nil {
		fmt.Fprintln(os.Stderr, "findings:", ferr)
		return 2
	}
	knownNeg := ""
	for _, f := range fs {
		if f.Status == "known" && f.Property == "C16" && f.Predicate == "error-offset-outside|ttl,trig|negative-byte-offset-after-handback" {
			knownNeg = f.Key
		}
	}
	rep := vh.NewReport("C16", *tier, seed, "Turtle and TriG documents, decoded by encoding/turtle resp. encoding/trig and by the instrumented statement machine Model.TurtleDocOffsets (op ttlo.dec): hand-written corner documents (every keyword cut at every length, empty strings, lists and blank-node property lists in every position, graph blocks in every form, trailing white space / comments); grammar-directed documents (multi-line, CRLF, lone CR, multi-byte and astral characters, ill-formed bytes, comments, several statements per line, prefixed names, relative references, blank node labels, long strings, numeric/boolean shorthand, `a`, nested [ ] and ( ), GRAPH and bare graph blocks, directives in every spelling), in a `safe` variant whose resolved IRIs stay inside the model resolver's fragment (whole document compared) and a free variant (compared up to the first resolver skip); byte-level mutations and truncations of those; each with capture on (80%) or off, initial offset zero / unset or random (byte<2000, line<60, column<90), with or without a default base, reader ending in EOF or an injected error. Compared exactly: statements, presence and byte/line of every subject/predicate/object/graph range (columns as well on documents inside TW.simple), verdict, kind and value of the offset carried by Err(). Non-trivial = at least one statement with a range, or an error carrying an offset.")
	g := vh.NewRng(seed)

	var js []*job
	push := func(j *job) { js = append(js, j) }
	randInit := func() off {
		if g.Chance(35) {
			return off{}
		}
		o := off{int64(1 + g.Intn(2000)), int64(g.Intn(60)), int64(g.Intn(90))}
		if g.Chance(20) {
			o.l = 0
		}
		return o
	}
	mk := func(kind, pkg string, doc []byte, base string) *job {
		j := &job{kind: kind, pkg: pkg, doc: doc, base: base, capture: g.Chance(80), fail: g.Chance(12)}
		if j.capture {
			j.init = randInit()
		}
		return j
	}

	if *replay != "" || *hints != "" {
		for _, path := range []string{*hints, *replay} {
			if path == "" {
				continue
			}
			b, err := os.ReadFile(path)
			if err != nil {
				if path == *hints {
					continue
				}
				fmt.Fprintln(os.Stderr, err)
				return 2
			}
			lines := strings.Split(strings.TrimSpace(string(b)), "\n")
			if strings.HasPrefix(strings.TrimSpace(string(b)), "{") {
				lines = replayOps(b)
			}
			for _, l := range lines {
				if j, ok := parseLine(strings.TrimSpace(l)); ok {
					if path == *hints {
						j.kind = "hint"
					}
					push(j)
				}
			}
		}
	}
	if *replay == "" {
		for _, pkg := range []string{"turtle", "trig"} {
			for _, d := range cornerDocs(pkg == "trig") {
				for _, base := range []string{"", defaultBase} {
					for _, fail := range []bool{false, true} {
						for _, cap := range []bool{true, false} {
							j := &job{kind: "corner", pkg: pkg, doc: []byte(d), base: base, fail: fail, capture: cap}
							if cap && len(d)%2 == 0 {
								j.init = off{100, 7, 3}
							}
							push(j)
						}
					}
				}
				// every proper prefix of the corner documents (keywords and tokens cut at every length)
				if len(d) <= 120 {
					for k := 0; k < len(d); k++ {
						push(&job{kind: "corner-prefix", pkg: pkg, doc: []byte(d[:k]), capture: true, fail: k%3 == 0})
					}
				}
			}
		}
		rep.Exhaustive = append(rep.Exhaustive, "every corner document x {no base, default base} x {EOF, injected error} x {capture on, off}, and every proper prefix of every corner document of at most 120 bytes (capture on), both packages")
		n := 30000 * *scale
		if *tier == "thorough" {
			n = 500000 * *scale
		}
		hot := []byte("<>\"'\\ \t\r\n._:@^#-uU0aF{}[]();,|`\x00\x7f\xc3\xa9\xf0\x9f")
		for made := 0; made < n; {
			pkg := "turtle"
			if g.Bool() {
				pkg = "trig"
			}
			safe := g.Chance(75)
			based := g.Chance(35)
			base := ""
			if based {
				base = defaultBase
			}
			doc := genTtl(pkg == "trig", safe, based, g)
			kind := "valid-free"
			if safe {
				kind = "valid-safe"
			}
			push(mk(kind, pkg, doc, base))
			made++
			if g.Chance(50) {
				push(mk("mutated", pkg, g.Mutate(doc, hot), base))
				made++
			}
			if g.Chance(40) && len(doc) > 0 {
				push(mk("truncated", pkg, doc[:g.Intn(len(doc))], base))
				made++
			}
		}
	}

	runJobs(js)
	failures := 0
	if dblLegacy {
		rep.Count("repo:handback-error-offset:legacy")
	} else {
		rep.Count("repo:handback-error-offset:repaired")
	}
	knownShown := 0
	for _, j := range js {
		for _, v := range j.viol {
			// known finding D45: negative capture-off byte offset at a hand-back error site. Predicate: the
			// implementation is the unpatched code (probe), the offset is negative, and the model of the
			// unpatched code (which truncates at 0) agrees on everything else (checked below: no disagreement).
			if knownNeg != "" && j.negOff && dblLegacy && strings.HasPrefix(v, "error-offset-outside") {
				rep.Count("known:" + knownNeg)
				if knownShown < 3 {
					rep.Add(vh.Case{Kind: "known", Key: knownNeg, Op: j.line(), Go: clip(j.goR, 300), Detail: v + " — doc " + fmt.Sprintf("%q", clip(string(j.doc), 200))})
					knownShown++
				}
				continue
			}
			rep.Count("violation")
			if failures < 60 {
				rep.Add(vh.Case{Kind: "violation", Op: j.line(), Go: clip(j.goR, 600), Detail: v + " — doc " + fmt.Sprintf("%q", clip(string(j.doc), 300))})
			}
			failures++
		}
	}
	compared := 0
	if !*nomodel {
		lines := make([]string, 0, len(js)*2)
		for _, j := range js {
			lines = append(lines, j.line())
		}
		// erasure cross-check on a sample
		type er struct{ a, b int }
		var ers []er
		for i, j := range js {
			if i%4 == 0 || j.kind == "corner" {
				a := len(lines)
				lines = append(lines, fmt.Sprintf("ttlo.erased %s %s %s %s %s", j.pkg, endName(j.fail), vh.B01(j.capture), baseTok(j.base), vh.X(j.doc)))
				lines = append(lines, fmt.Sprintf("ttld.dec %s %s %s %s", j.pkg, endName(j.fail), baseTok(j.base), vh.X(j.doc)))
				ers = append(ers, er{a, i})
			}
		}
		res, err := runDriver(lines)
		if err != nil {
			fmt.Fprintln(os.Stderr, err)
			return 2
		}
		for i, j := range js {
			compared++
			m := res[i]
			if j.negOff {
				// Go's int64 offset is negative; the model's Nat is 0: compare everything else
				if k := strings.LastIndex(j.goR, "|Eb-"); k >= 0 && strings.HasSuffix(m, "|Eb0") && j.goR[:k] == m[:len(m)-4] {
					rep.Count("agree:full")
					rep.Count("agree:negative-offset-truncated")
					continue
				}
			}
			if m == j.goR {
				rep.Count("agree:full")
				rep.Count("agree:full:" + j.kind)
				continue
			}
			gs, _, _ := splitWire(j.goR)
			ms, mv, _ := splitWire(m)
			if mv == "err:resolve" && isPrefixOf(ms, gs) {
				rep.Count("resolver-skip")
				rep.Count("resolver-skip:" + j.kind)
				continue
			}
			rep.Count("disagreement:" + j.pkg)
			if failures < 60 {
				rep.Add(vh.Case{Kind: "disagreement", Op: j.line(), Go: clip(j.goR, 1500), Model: clip(m, 1500), Detail: j.kind + ": " + clip(firstDiff(j.goR, m), 600) + " — doc " + fmt.Sprintf("%q", clip(string(j.doc), 300))})
			}
			failures++
		}
		for _, e := range ers {
			rep.Count("erased-vs-base")
			if res[e.a] != res[e.a+1] {
				rep.Count("disagreement:erasure")
				if failures < 60 {
					rep.Add(vh.Case{Kind: "disagreement", Op: lines[e.a], Go: "", Model: clip(res[e.a], 600) + "  VS ttld.dec  " + clip(res[e.a+1], 600), Detail: "model-internal: the instrumented machine with bookkeeping forgotten differs from Model.TurtleDoc (doc_erasure would be false) — doc " + fmt.Sprintf("%q", clip(string(js[e.b].doc), 300))})
				}
				failures++
			}
		}
	}
	for _, j := range js {
		rep.Eval(j.line(), j.ranges > 0 || j.errKind != "-")
		rep.Count("pkg:" + j.pkg)
		rep.Count("kind:" + j.kind)
		rep.Count("verdict:" + j.pkg + ":" + j.verdict)
		rep.Count("errpos:" + j.errKind)
		rep.Count(fmt.Sprintf("capture:%v", j.capture))
		rep.Count(fmt.Sprintf("simple:%v", j.simple))
		rep.Count(fmt.Sprintf("init-nonzero:%v", j.init != (off{})))
		rep.Count(fmt.Sprintf("based:%v", j.base != ""))
		rep.Count(fmt.Sprintf("end:%s", endName(j.fail)))
		rep.Count("stmts:" + bucket(j.stmts))
		rep.Count("ranges:" + bucket(j.ranges))
	}
	rep.Compared = compared
	if rep.Cases == nil {
		rep.Cases = []vh.Case{}
	}
	if err := rep.Write(*out); err != nil {
		fmt.Fprintln(os.Stderr, err)
		return 2
	}
	mode := ""
	if *nomodel {
		mode = " (oracle only)"
	}
	fmt.Printf("c16d%s: %d documents, %d compared with the model (full %d, resolver-skip %d), %d failures\n", mode, rep.Evaluations, compared, rep.Hist["agree:full"], rep.Hist["resolver-skip"], failures)
	if failures > 0 {
		return 1
	}
	return 0
}

func bucket(n int) string {
	switch {
	case n == 0:
		return "0"
	case n < 5:
		return "1-4"
	case n < 50:
		return "5-49"
	}
	return "50+"
}
