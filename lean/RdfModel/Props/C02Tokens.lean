/-
  Property C02, token layer — what the Turtle encoder writes for one term is read back by the
  Turtle/TriG decoder's token producers as the same value (theorems only; proofs in
  RdfModel/Proofs/C02Tok*.lean). One model serves encoding/turtle and encoding/trig.

  All theorems are for an arbitrary table set `T` satisfying `TablesOK T`;
  `Props/C02TokensTables.lean` proves `TablesOK` for the tables regenerated from /repo on this run
  (both the turtle and the trig copies of the classifiers).

  The theorems are about the REPAIRED code (patches ttltok-1 … ttltok-3: D6, D5, D4).
  What is *not* here: the document layer (prefix compaction, base relativisation, statement
  syntax, nested resources) — `Model/TurtleDoc.lean` and the encoder's document model build on
  these token theorems.
-/
import RdfModel.Props.C02TokensDefs
import RdfModel.Proofs.C02Tok
import RdfModel.Proofs.C02TokA
namespace RdfModel.C02
open RdfModel RdfModel.Ttl

/-- `<` formatIRI `>`: every IRI string (any scalar values — also ones that are not IRI characters,
    they are UCHAR-escaped) is read back unchanged, whatever follows. Both `ascii` option values. -/
theorem iriref_roundtrip (T : Tables) (hT : TablesOK T) (e : End) (ascii : Bool) (s : List Nat)
    (hs : Scalars s) (rest : List Nat) :
    produceIRIREF T e (0x3c :: (formatIRI T ascii s ++ 0x3e :: rest)) = .ok s rest :=
  Proofs.C02Tok.iriref_roundtrip T hT e ascii s hs rest

/-- formatLiteralLexicalForm (the `"…"` style, the only one the encoder uses): every lexical form
    (any scalar values) is read back unchanged. Only for the empty string does what follows matter:
    `""` must not be followed by a third `"` nor by a reader error (`EmptyStrStop`); the encoder
    writes ` `, `@` or `^` there. -/
theorem string_roundtrip (T : Tables) (hT : TablesOK T) (e : End) (ascii : Bool) (s : List Nat)
    (hs : Scalars s) (rest : List Nat) (hstop : s = [] → EmptyStrStop e rest) :
    produceString T e (formatLiteralLexicalForm T ascii s ++ rest) = .ok s rest :=
  Proofs.C02Tok.string_roundtrip T hT e ascii s hs rest hstop

/-- Prefixed names: for a well-formed prefix label and a local name that `format_PN_LOCAL` can write
    without changing it (`PNLocalOK`: every rune raw or `\x` — which is what the repaired encoder
    requires before it uses a prefixed name for an IRI made of IRI characters, D5),
    `format_PN_LOCAL` succeeds and `prefix:local` is read back as exactly that pair, provided the
    name is followed by the end of input or a rune that cannot continue it (`LocalStop`; the
    encoder writes a space or a line feed). Covers local names starting or ending with '.', '-',
    digits, containing '%', ':', '~' … (`\.` at the end relies on the D6 repair). -/
theorem pname_roundtrip (T : Tables) (hT : TablesOK T) (e : End) (pfx loc rest : List Nat)
    (hp : prefixOK T pfx = true) (hps : Scalars pfx) (hs : Scalars loc)
    (hok : PNLocalOK T loc = true) (hstop : LocalStop T e rest) :
    ∃ out, format_PN_LOCAL T loc = some out ∧
      producePrefixedName T e (pfx ++ 0x3a :: (out ++ rest)) = .ok (pfx, loc) rest :=
  Proofs.C02Tok.pname_roundtrip T hT e pfx loc rest hp hps hs hok hstop

/-- Literal shorthand (repaired encoder, D4): whenever `writeObjectValue` writes a literal as a bare
    token, the decoder reads that token back with the same datatype AND the same lexical form —
    through `produceNumericLiteral` for xsd:integer / xsd:decimal / xsd:double, through the keyword
    branch of the object scanner for xsd:boolean. -/
theorem shorthand_sound (e : End) (dt lex rest : List Nat) (h : literalShorthand dt lex = true)
    (hstop : NumStop e rest) :
    (dt ≠ xsdBoolean ∧ ∃ k : NumKind, k.datatype = dt ∧
        produceNumericLiteral e (lex ++ rest) = .ok (k, lex) rest) ∨
    (dt = xsdBoolean ∧
      ((lex = asc "true" ∧ scanBoolean e (lex ++ rest) = .bool true rest) ∨
       (lex = asc "false" ∧ scanBoolean e (lex ++ rest) = .bool false rest))) := by
  have h' : bareLiteralDatatype lex = some dt := by simpa [literalShorthand] using h
  by_cases hb : dt = xsdBoolean
  · right; subst hb; exact ⟨rfl, Proofs.C02Tok.boolean_shorthand e lex rest h'⟩
  · left; exact ⟨hb, Proofs.C02Tok.numeric_shorthand e lex dt rest h' hb hstop⟩

/-- The shorthand is used for four datatypes only (in particular never for xsd:long, D4). -/
theorem shorthand_datatypes (dt lex : List Nat) (h : literalShorthand dt lex = true) :
    dt = xsdBoolean ∨ dt = xsdInteger ∨ dt = xsdDecimal ∨ dt = xsdDouble := by
  have h' : bareLiteralDatatype lex = some dt := by simpa [literalShorthand] using h
  by_cases hb : lex = asc "true" ∨ lex = asc "false"
  · left
    unfold bareLiteralDatatype at h'
    rw [if_pos hb] at h'
    exact (Option.some.inj h').symm
  · right; exact Proofs.C02Tok.bare_dt lex dt h' hb

/-- Language tags `[a-zA-Z]+ ('-' [a-zA-Z0-9]+)*` (any number of subtags) are read back unchanged. -/
theorem langtag_roundtrip (e : End) (t rest : List Nat) (h : langOK t = true) (hstop : LangStop e rest) :
    produceLANGTAG e (0x40 :: t ++ rest) = .ok t rest :=
  Proofs.C02Tok.langtag_roundtrip e t rest h hstop

/-- Blank node labels `(PN_CHARS_U | [0-9]) ((PN_CHARS | '.')* PN_CHARS)?` are read back unchanged. -/
theorem bnode_roundtrip (T : Tables) (hT : TablesOK T) (e : End) (l rest : List Nat) (hs : Scalars l)
    (hl : labelOK T l = true) (hstop : LabelStop T e rest) :
    produceBlankNode T e (0x5f :: 0x3a :: l ++ rest) = .ok l rest :=
  Proofs.C02Tok.bnode_roundtrip T hT e l rest hs hl hstop

/-! ### No producer panics (repaired code), for every input, every table set, both stream endings -/

theorem produceIRIREF_no_panic (T : Tables) (e : End) (inp : List Nat) : produceIRIREF T e inp ≠ .panic :=
  Proofs.C02Tok.produceIRIREF_no_panic T e inp
theorem produceString_no_panic (T : Tables) (e : End) (inp : List Nat) : produceString T e inp ≠ .panic :=
  Proofs.C02Tok.produceString_no_panic T e inp
theorem producePNAME_NS_no_panic (T : Tables) (e : End) (inp : List Nat) : producePNAME_NS T e inp ≠ .panic :=
  Proofs.C02Tok.producePNAME_NS_no_panic T e inp
/-- In particular `:\.` (D6: index −1 before the repair) is read as the local name `.`. -/
theorem producePrefixedName_no_panic (T : Tables) (e : End) (inp : List Nat) :
    producePrefixedName T e inp ≠ .panic :=
  Proofs.C02Tok.producePrefixedName_no_panic T e inp
theorem produceBlankNode_no_panic (T : Tables) (e : End) (inp : List Nat) : produceBlankNode T e inp ≠ .panic :=
  Proofs.C02Tok.produceBlankNode_no_panic T e inp
theorem produceLANGTAG_no_panic (e : End) (inp : List Nat) : produceLANGTAG e inp ≠ .panic :=
  Proofs.C02Tok.produceLANGTAG_no_panic e inp
theorem produceNumericLiteral_no_panic (e : End) (inp : List Nat) : produceNumericLiteral e inp ≠ .panic :=
  Proofs.C02Tok.produceNumericLiteral_no_panic e inp

end RdfModel.C02
