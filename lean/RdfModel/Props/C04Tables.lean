/-
  Property C04 — the table facts for the N-Quads tables regenerated from /repo on this run:
  `nquads.WriteLiteral` (UTF-8 mode) writes every code point as canonical N-Quads prescribes, and
  `nquads.WriteIRI` leaves exactly the code points raw that are not U+0000–U+0020 or one of
  `< > " { } | ^ backquote \`.

  Both proofs are `decide` on Boolean checks over the table *entries* (never over code points);
  the checkers and their soundness theorems are in `Proofs/C04Tables.lean`.
-/
import RdfModel.Props.C04Defs
import RdfModel.Gen.NQTables
import RdfModel.Proofs.C04Tables
namespace RdfModel.C04
open RdfModel

theorem gen_nquads_canon : TablesCanon Gen.nquads :=
  Proofs.C04.tablesCanon_of_chk _ (by decide)

theorem gen_iriRaw_iff (c : Nat) :
    lookup (Gen.nquads.iriEsc false) 0 c = 0 ↔
      ¬ (c ≤ 0x20 ∨ c = 0x3c ∨ c = 0x3e ∨ c = 0x22 ∨ c = 0x7b ∨ c = 0x7d ∨ c = 0x7c ∨ c = 0x5e ∨
         c = 0x60 ∨ c = 0x5c) :=
  Proofs.C04.iriRaw_iff_of_chk _ (by decide) c

/-- A literal with `a`, TAB, U+0001, DEL, U+FFFE, a quote, a backslash and é, language-tagged:
    the model of `nquads.WriteLiteral` on the regenerated tables writes
    `"a\t\u0001\u007F\uFFFE\"\\é"@en`. -/
example :
    NQ.writeLiteral Gen.nquads false [0x61, 0x09, 0x01, 0x7f, 0xFFFE, 0x22, 0x5c, 0xe9]
        rdfLangString (some [0x65, 0x6e]) =
      [0x22, 0x61, 0x5c, 0x74, 0x5c, 0x75, 0x30, 0x30, 0x30, 0x31, 0x5c, 0x75, 0x30, 0x30, 0x37, 0x46,
       0x5c, 0x75, 0x46, 0x46, 0x46, 0x45, 0x5c, 0x22, 0x5c, 0x5c, 0xe9, 0x22, 0x40, 0x65, 0x6e] := by
  decide

/-- … and it is the canonical form, also by computation on the specification side. -/
example :
    Spec.RDFC10.literal [0x61, 0x09, 0x01, 0x7f, 0xFFFE, 0x22, 0x5c, 0xe9] rdfLangString
        (some [0x65, 0x6e]) =
      asc "\"a\\t\\u0001\\u007F\\uFFFE\\\"\\\\é\"@en" := by
  decide

end RdfModel.C04
