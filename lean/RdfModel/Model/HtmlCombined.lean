/-
  RdfModel.Model.HtmlCombined — executable model of the combined HTML decoder (property C11).

  Go code followed:
    encoding/html/htmldefaults/decoder.go   (*Decoder).Next / init      → `Dec.next`, `nextIters`
    encoding/htmljsonld/decoder.go          (*Decoder).Next / walkNode  → `nextIters` again (same loop shape), `scriptsNode`
    encodingutil.NewTripleAsQuadDecoder(d, nil)                          → `asQuad`
  and, for blank-node identity, the factory each sub-decoder draws from (T2: Gen/HtmlFacts.lean), expressed as
  a history of `Model.BlankNodes` operations (`history`).

  Conventions
  * A sub-decoder is an `Iter`: the statements it still has to yield and whether `Err()` is non-nil once they are
    exhausted. (What the statements *are* is the business of Spec.RdfaFragment / Spec.MicrodataFragment / the
    JSON-LD model of C10; the HTML5 parser is outside the model.)
  * `init` = `none` models a failing `html.ParseDocument` or sub-decoder constructor.
  Core-only imports (linked into the driver).
-/
import RdfModel.Model.BlankNodes
import RdfModel.Spec.HtmlTree
import RdfModel.Spec.RFC3986
import RdfModel.Model.Description
namespace RdfModel.Html
open RdfModel

/-- a nested decoder: remaining statements, and whether it ends in an error -/
structure Iter (Q : Type) where
  items : List Q
  err : Bool
  deriving Repr, DecidableEq

/-- the loop body of `Next` over the iterator slice: the statement that becomes current (if any), the remaining
    slice, and whether the error latch was set -/
def nextIters {Q : Type} : List (Iter Q) → Option Q × List (Iter Q) × Bool
  | [] => (none, [], false)                                  -- len(d.iters) == 0
  | it :: rest =>
    match it.items with
    | q :: qs => (some q, { it with items := qs } :: rest, false)   -- d.iters[0].Next()
    | [] =>
      if it.err then (none, it :: rest, true)                -- d.iters[0].Err() != nil
      else nextIters rest                                    -- d.iters = d.iters[1:]

/-- `htmldefaults.Decoder` -/
structure Dec (Q : Type) where
  err : Bool
  iters : Option (List (Iter Q))       -- `none`: d.iters == nil (before init)
  deriving Repr, DecidableEq

def Dec.new {Q : Type} : Dec Q := { err := false, iters := none }

/-- one call of `Next()`; `init` is what `d.init()` would return -/
def Dec.next {Q : Type} (init : Option (List (Iter Q))) (d : Dec Q) : Option Q × Dec Q :=
  if d.err then (none, d)
  else
    match d.iters with
    | none =>
      match init with
      | none => (none, { d with err := true })
      | some its => let r := nextIters its; (r.1, { err := r.2.2, iters := some r.2.1 })
    | some its => let r := nextIters its; (r.1, { err := r.2.2, iters := some r.2.1 })

/-- call `Next()` until it returns false (at most `fuel` times): the statements seen, and the final state -/
def drain {Q : Type} (init : Option (List (Iter Q))) : Nat → Dec Q → List Q × Dec Q
  | 0, d => ([], d)
  | fuel + 1, d =>
    match Dec.next init d with
    | (some q, d') => let r := drain init fuel d'; (q :: r.1, r.2)
    | (none, d') => ([], d')

/-- the statements a chain yields: everything up to the first nested decoder that ends in an error -/
def chainItems {Q : Type} : List (Iter Q) → List Q
  | [] => []
  | it :: rest => it.items ++ (if it.err then [] else chainItems rest)

def chainErr {Q : Type} : List (Iter Q) → Bool
  | [] => false
  | it :: rest => it.err || chainErr rest

/-- `htmljsonld.Decoder` seen as one nested decoder of the combined one: a chain over one `jsonld.Decoder` per
    script element (no nested-error listener is configured by htmldefaults) -/
def jsonldIter {Q : Type} (scripts : List (Iter Q)) : Iter Q :=
  { items := chainItems scripts, err := chainErr scripts }

/-! ### embedded JSON-LD: which script elements are read (htmljsonld `walkNode`) -/

open Spec.Html in
def ldJson : Str := asc "application/ld+json"

open Spec.Html in
mutual
/-- the text of every `<script type="application/ld+json">` that has content, in document order; script elements
    are not descended into -/
def scriptsNode : Tree → List Str
  | .text _ => []
  | .elem tag a ks =>
    if tag == .script then
      if a.type = some ldJson then
        match ks with
        | .text s :: _ => [s]
        | _ => []
      else []
    else scriptsKids ks
def scriptsKids : List Tree → List Str
  | [] => []
  | k :: ks => scriptsNode k ++ scriptsKids ks
end

/-! ### blank-node factories of one combined decode, as a `Model.BlankNodes` history -/

open BN in
/-- a request for a blank node -/
inductive Req where
  | anon                      -- NewBlankNode()
  | named (l : Bytes)         -- NewStringBlankNode(l)   (string factories only)
  deriving Repr, DecidableEq

/-- who asks -/
inductive Owner where
  | jsonld (script : Nat)
  | microdata
  | rdfa
  deriving Repr, DecidableEq

/-- what the three sub-decoders ask for during one decode -/
structure Run where
  scripts : List (List Req)    -- one jsonld.Decoder per script element
  micro : Nat                  -- Microdata: only NewBlankNode()
  rdfa : List Req
  deriving Repr, DecidableEq

open BN in
def reqOp (j : Nat) : Req → Op
  | .anon => .newBlankNode (.strf j)
  | .named l => .newStringBlankNode j l

open BN in
def scriptOps : Nat → List (List Req) → List (Option Owner × Op)
  | _, [] => []
  | k, rs :: rest => rs.map (fun r => (some (Owner.jsonld k), reqOp (k + 1) r)) ++ scriptOps (k + 1) rest

open BN in
/-- The operations of one combined decode on a fresh process state, in the order the Go code performs them,
    each tagged with the sub-decoder that receives the node (`none`: a factory is being made):
      htmlrdfa.NewDecoder (in init)            blanknodes.NewStringFactory()      → string factory 0
      htmljsonld first Next → walkNode         one NewStringFactory() per script  → string factories 1 … k
      the script decoders, in turn             their requests
      htmlmicrodata first Next                 rdf.NewBlankNodeFactory()          → factory k+1 (k+1 string factories own 0 … k)
      the Microdata walk                       NewBlankNode() × micro
      the RDFa walk                            its requests on string factory 0 -/
def tagged (r : Run) : List (Option Owner × Op) :=
  [(none, Op.newStringFactory)] ++
  r.scripts.map (fun _ => (none, Op.newStringFactory)) ++
  scriptOps 0 r.scripts ++
  [(none, Op.newFactory)] ++
  (List.replicate r.micro (some Owner.microdata, Op.newBlankNode (.bnf (r.scripts.length + 1)))) ++
  r.rdfa.map (fun q => (some Owner.rdfa, reqOp 0 q))

def history (r : Run) : List BN.Op := (tagged r).map Prod.snd

end RdfModel.Html

/-! ### the combined decoder over one document, given the three denotations

  `J` is the JSON-LD semantics of one script text (property C10's subject; a parameter here). Blank nodes of the
  result carry their origin: script number, Microdata item position, RDFa label/counter. -/
namespace RdfModel.Html
open RdfModel RdfModel.Desc

inductive CB (βJ : Type) where
  | j (script : Nat) (b : βJ)
  | m (p : List Nat)
  | r (named : Option (List Nat)) (anon : Nat)
  deriving Repr, DecidableEq

/-- `encodingutil.NewTripleAsQuadDecoder(d, nil)`: the default graph -/
def asQuad {β γ : Type} (f : β → γ) (t : Triple β) : DQuad γ := { t := t.map f, g := none }

/-- the nested decoders `(*Decoder).init` builds for a document whose three readings are given -/
def docIters {βJ βM βR : Type} (fm : βM → CB βJ) (fr : βR → CB βJ) (scripts : List (List (DQuad βJ)))
    (md : List (Triple βM)) (rdfa : List (Triple βR)) : List (Iter (DQuad (CB βJ))) :=
  [ jsonldIter (scripts.zipIdx.map (fun sk => { items := sk.1.map (DQuad.map (CB.j sk.2)), err := false })),
    { items := md.map (asQuad fm), err := false },
    { items := rdfa.map (asQuad fr), err := false } ]

/-- the union the combined decoder is expected to yield -/
def unionOf {βJ βM βR : Type} (fm : βM → CB βJ) (fr : βR → CB βJ) (scripts : List (List (DQuad βJ)))
    (md : List (Triple βM)) (rdfa : List (Triple βR)) : List (DQuad (CB βJ)) :=
  scripts.zipIdx.flatMap (fun sk => sk.1.map (DQuad.map (CB.j sk.2))) ++ md.map (asQuad fm) ++ rdfa.map (asQuad fr)

end RdfModel.Html

/-! ### document base: encoding/html `newDocument` / `NewDocument` + `findFirstBaseHref`

  `DocumentInfo.BaseURL` = the location, unless the document has a `<base href>`: the first one in tree order,
  taken as it is when absolute, else resolved against the location (RFC 3986 §5.2, `Spec.RFC3986.resolve`;
  the Go code goes through iri.ParsedIRI, property C12), else — with no location — as written. -/
namespace RdfModel.Html
open RdfModel RdfModel.Spec.Html

mutual
/-- `findFirstBaseHref`: the href of the first `base` element that has one -/
def baseHrefNode : Tree → Option Str
  | .text _ => none
  | .elem tag a ks =>
    match (if tag == .base then a.href else none) with
    | some h => some h
    | none => baseHrefKids ks
def baseHrefKids : List Tree → Option Str
  | [] => none
  | k :: ks =>
    match baseHrefNode k with
    | some h => some h
    | none => baseHrefKids ks
end

def docBase (location : Str) (doc : Tree) : Str :=
  match baseHrefNode doc with
  | none => location
  | some href =>
    if (Spec.RFC3986.split href).scheme.isSome then href
    else if location = [] then href
    else Spec.RFC3986.resolve location href

end RdfModel.Html
