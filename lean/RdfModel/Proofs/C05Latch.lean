/-
  Helper lemmas for Props/C05Latch.lean: the generic Next/Err wrapper is sticky.
-/
import RdfModel.Model.Latch
namespace RdfModel.Latch

variable {σ ε : Type}

/-- the decoder proper is *quiet-absorbing*: once it reports "no statement, no error" it keeps doing so -/
def QuietAbsorbing (step : σ → StepResult σ ε) : Prop :=
  ∀ i, (step i).yielded = false → (step i).raised = none →
    (step (step i).inner).yielded = false ∧ (step (step i).inner).raised = none

/-- a state from which Next returns false forever without changing Err -/
def Dead (_f : Facts) (step : σ → StepResult σ ε) (s : State σ ε) : Prop :=
  s.err.isSome = true ∨ ((step s.inner).yielded = false ∧ (step s.inner).raised = none)

theorem next_of_err (f : Facts) (step : σ → StepResult σ ε) (s : State σ ε)
    (hg : f.guardFirst = true) (he : s.err.isSome = true) : next f step s = (false, s) := by
  simp [next, hg, he]

theorem dead_next (f : Facts) (step : σ → StepResult σ ε) (hq : QuietAbsorbing step)
    (hg : f.guardFirst = true) (s : State σ ε) (hd : Dead f step s) :
    (next f step s).1 = false ∧ (next f step s).2.err = s.err ∧ Dead f step (next f step s).2 := by
  by_cases he : s.err.isSome = true
  · rw [next_of_err f step s hg he]
    exact ⟨rfl, rfl, Or.inl he⟩
  · cases hd with
    | inl h => exact absurd h he
    | inr h =>
      obtain ⟨hy, hr⟩ := h
      have hn : next f step s = (false, { err := s.err, inner := (step s.inner).inner }) := by
        simp [next, hg, he, hy, hr]
      rw [hn]
      exact ⟨rfl, rfl, Or.inr (hq s.inner hy hr)⟩

/-- after a false return the state is dead (under the two extracted facts) -/
theorem dead_after_false (f : Facts) (step : σ → StepResult σ ε) (hq : QuietAbsorbing step)
    (hg : f.guardFirst = true) (hs : f.storesErr = true) (s : State σ ε)
    (hfalse : (next f step s).1 = false) : Dead f step (next f step s).2 := by
  by_cases he : s.err.isSome = true
  · rw [next_of_err f step s hg he]
    exact Or.inl he
  · have he' : s.err.isSome = false := by simpa using he
    cases hr : (step s.inner).raised with
    | some e =>
      left
      simp [next, hg, he', hr, hs]
    | none =>
      right
      have hy : (step s.inner).yielded = false := by
        simpa [next, hg, he', hr] using hfalse
      have : (next f step s).2.inner = (step s.inner).inner := by
        simp [next, hg, he']
      rw [this]
      exact hq s.inner hy hr

theorem dead_iter (f : Facts) (step : σ → StepResult σ ε) (hq : QuietAbsorbing step)
    (hg : f.guardFirst = true) :
    ∀ (n : Nat) (s : State σ ε), Dead f step s →
      (next f step (iter f step n s)).1 = false ∧ (iter f step n s).err = s.err ∧ Dead f step (iter f step n s) := by
  intro n
  induction n with
  | zero =>
    intro s hd
    exact ⟨(dead_next f step hq hg s hd).1, rfl, hd⟩
  | succ n ih =>
    intro s hd
    obtain ⟨_, he, hd'⟩ := dead_next f step hq hg s hd
    obtain ⟨h1, h2, h3⟩ := ih (next f step s).2 hd'
    exact ⟨h1, by simpa [iter] using h2.trans he, h3⟩

/-- the buffered decoder proper is quiet-absorbing -/
theorem buffered_quiet (ε : Type) : QuietAbsorbing (bufferedStep ε) := by
  intro b hy _
  have h : ¬ b.idx < b.len := by simpa [bufferedStep] using hy
  refine ⟨?_, rfl⟩
  have h' : ¬ b.idx + 1 < b.len := by omega
  simp [bufferedStep, h']

/-- scripted inner steps are quiet-absorbing exactly when nothing follows a quiet entry; the empty
    tail always is -/
theorem script_nil_quiet : (scriptStep []).yielded = false ∧ (scriptStep []).raised = none := by
  simp [scriptStep]

end RdfModel.Latch
