/-
  Helper lemmas about the RDF/JSON decoder model: no panic with checked assertions, emitted
  statements are well-formed, `Next`/`Err` latch, closed form of a full iteration.
-/
import RdfModel.Props.C01RJDefs
namespace RdfModel.Proofs.C01RJ
open RdfModel RdfModel.RJ RdfModel.C01RJ

/-! ## No panic once the assertions are checked -/

theorem parse_checked_no_panic (v : Variant) (hv : v.checked = true) (e : TEnd) (toks : List Tok) :
    ∀ st acc, parse v e st toks acc ≠ .panic := by
  induction toks with
  | nil => intro st acc; cases st <;> cases e <;> simp [parse, Acc.fail]
  | cons t rest ih =>
    intro st acc
    cases st <;> cases t <;> simp [parse, Acc.fail, hv, ih]
    all_goals (split <;> simp [ih])

/-! ## Number of statements ≤ number of tokens -/

theorem parse_length (v : Variant) (e : TEnd) (toks : List Tok) :
    ∀ st acc ss vd, parse v e st toks acc = .done ss vd → ss.length ≤ acc.stmts.length + toks.length := by
  induction toks with
  | nil =>
    intro st acc ss vd h
    cases st <;> cases e <;> simp [parse, Acc.fail] at h <;> (obtain ⟨h1, _⟩ := h; subst h1; simp)
  | cons t rest ih =>
    intro st acc ss vd h
    have fin : ∀ (c : EClass), acc.fail c = .done ss vd → ss.length ≤ acc.stmts.length + (t :: rest).length := by
      intro c hc
      simp [Acc.fail] at hc
      obtain ⟨h1, _⟩ := hc; subst h1; simp
    have step : ∀ st' (acc' : Acc), acc'.stmts.length ≤ acc.stmts.length + 1 →
        parse v e st' rest acc' = .done ss vd → ss.length ≤ acc.stmts.length + (t :: rest).length := by
      intro st' acc' hl hp
      have := ih st' acc' ss vd hp
      simp only [List.length_cons]; omega
    cases st <;> cases t <;> simp only [parse] at h
    all_goals
      repeat' (first
        | exact fin _ h
        | exact step _ _ (by simp) h
        | split at h
        | cases h)

/-! ## Emitted statements are well-formed (C06) -/

theorem mkBNode_ok (l : List Nat) (n : Nat) : BNodeOK (mkBNode l n).1 := by
  cases l <;> simp [mkBNode, BNodeOK]

theorem subjectOf_ok (key : List Nat) (n : Nat) : NodeOK (subjectOf key n).1 := by
  unfold subjectOf
  cases bnPrefix? key with
  | none => simp [NodeOK]
  | some l => simpa [NodeOK] using mkBNode_ok l n

theorem finishLiteral_ok (v : Variant) (hl : v.litChecks = true) (value : List Nat) (m : Members)
    (o : Term BNode) (h : finishLiteral v value m = some o) : ObjectOK v.dirCheck o := by
  unfold finishLiteral at h
  simp only [hl, Bool.true_and, Bool.not_true, Bool.false_or] at h
  split at h; · cases h
  split at h; · cases h
  split at h; · cases h
  rename_i h1 h2 h3
  split at h
  · -- datatype present
    rename_i d lang hd
    split at h
    · next hne =>
      cases h
      simp only [decide_eq_true_eq] at hne h2 h3
      refine ⟨?_, ?_, ?_⟩
      · intro h0; subst h0; simp_all
      · intro hdir h0; subst h0; simp_all
      · simpa using hne
    · next hne =>
      simp only [decide_eq_true_eq, Decidable.not_not] at hne
      split at h
      · next l =>
        cases h
        refine ⟨by decide, fun _ => by decide, rfl, ?_⟩
        intro h0; subst h0; simp_all
      · cases h
  · -- lang only
    rename_i l hd hlang
    cases h
    refine ⟨by decide, fun _ => by decide, rfl, ?_⟩
    intro h0; subst h0; simp_all
  · cases h
    exact ⟨by decide, fun _ => by decide, by decide⟩

theorem finishObject_ok (v : Variant) (hl : v.litChecks = true) (m : Members) (n : Nat)
    (o : Term BNode) (n' : Nat) (h : finishObject v m n = some (o, n')) : ObjectOK v.dirCheck o := by
  unfold finishObject at h
  split at h
  · cases h
  · cases h
  · split at h
    · simp only [Option.map_eq_some_iff, Prod.mk.injEq] at h
      obtain ⟨t, ht, rfl, _⟩ := h
      exact finishLiteral_ok v hl _ m _ ht
    · split at h
      · cases h; simp [ObjectOK, NodeOK]
      · split at h
        · split at h
          · cases h
          · cases h
            simpa [ObjectOK, NodeOK] using mkBNode_ok _ _
        · cases h

/-- The subject a parser state carries. -/
def stateSubj : PState → Option (Term BNode)
  | .subjColon s | .subjOpen s | .preds s | .predColon s _ | .predOpen s _ | .objs s _
  | .members s _ _ | .memColon s _ _ _ | .memValue s _ _ _ => some s
  | _ => none

theorem parse_wf (v : Variant) (hl : v.litChecks = true) (e : TEnd) (toks : List Tok) :
    ∀ st acc ss vd, (∀ s, stateSubj st = some s → NodeOK s) → (∀ t ∈ acc.stmts, WFOut v.dirCheck t) →
      parse v e st toks acc = .done ss vd → ∀ t ∈ ss, WFOut v.dirCheck t := by
  induction toks with
  | nil =>
    intro st acc ss vd _ hacc h
    cases st <;> cases e <;> simp [parse, Acc.fail] at h <;>
      (obtain ⟨h1, _⟩ := h; subst h1; simpa using hacc)
  | cons t rest ih =>
    intro st acc ss vd hst hacc h
    have fin : ∀ (c : EClass), acc.fail c = .done ss vd → ∀ t ∈ ss, WFOut v.dirCheck t := by
      intro c hc
      simp [Acc.fail] at hc
      obtain ⟨h1, _⟩ := hc; subst h1; simpa using hacc
    have step : ∀ st' (acc' : Acc), (∀ s, stateSubj st' = some s → NodeOK s) →
        acc'.stmts = acc.stmts →
        parse v e st' rest acc' = .done ss vd → ∀ t ∈ ss, WFOut v.dirCheck t :=
      fun st' acc' h1 h2 hp => ih st' acc' ss vd h1 (by rw [h2]; exact hacc) hp
    cases st with
    | subjects =>
      cases t with
      | str key =>
        simp only [parse] at h
        exact step (.subjColon (subjectOf key acc.anon).1) { acc with anon := (subjectOf key acc.anon).2 }
          (by simpa [stateSubj] using subjectOf_ok key acc.anon) rfl h
      | _ =>
        simp only [parse] at h
        first
          | exact fin _ h
          | exact step _ _ (by simp [stateSubj]) rfl h
    | members s p m =>
      have hs : NodeOK s := hst s rfl
      cases t with
      | endObject =>
        simp only [parse] at h
        split at h
        · exact fin _ h
        · next o n ho =>
          refine ih _ _ ss vd (by simpa [stateSubj] using hs) ?_ h
          intro t ht
          simp only [List.mem_cons] at ht
          rcases ht with rfl | ht
          · exact ⟨hs, by simp [PredOK], finishObject_ok v hl m acc.anon o n ho⟩
          · exact hacc t ht
      | _ =>
        simp only [parse] at h
        repeat' (first
          | exact fin _ h
          | exact step _ _ (by simpa [stateSubj] using hs) rfl h
          | split at h
          | cases h)
    | _ =>
      cases t <;> simp only [parse] at h <;>
      repeat' (first
        | exact fin _ h
        | exact step _ _ (by simp_all [stateSubj]) rfl h
        | split at h
        | cases h)

end RdfModel.Proofs.C01RJ
