package main

// Base-change histories (both tiers, bounded-exhaustive): documents in which a base is in force
// (default base option, @base or BASE), a reference text is used in every IRIREF term position
// (subject, verb, object, datatype, TriG graph label; optionally as a namespace too), then a second
// @base / BASE changes the base, and the SAME reference text is used again in the same positions.
// The reference must be resolved against the base in force where it stands (Turtle 1.1 section 6.3:
// "Each @base or BASE directive sets a new In-Scope Base URI"), so a reader that remembers resolved
// references by their text has to forget them at both kinds of directive.  The expected dataset is
// the denotation computed by the driver (`TA.denote` with RFC 3986 resolution), as for every other
// stream; nothing here is compared in a special way.
//
// The reference texts include the empty-query references `?` and `?#f` (RFC 3986 section 5.2.2: a defined
// though empty query replaces the query of the base) under bases with and without a query.

import (
	"fmt"
	"regexp"
)

var (
	bcDefaults = []string{"", "http://e/d/f", "http://e/d/f?k=v"}
	bcFirst    = []string{"-", "http://a.b/x/y", "http://a.b/x/y?k=v"}
	bcSecond   = []string{"http://h-1.x/z/w", "http://h-1.x/z/w?m=n", "sub/", "../up", "?n=1", "?"}
	bcRefs     = []string{"", "#f", "?q", "?", "?#f", "s", "./s", "../s", "/s", "s/", "//h-1.x/s"}
)

func baseDir(kw bool, r string) block {
	k := dBaseAt
	if kw {
		k = dBaseKw
	}
	return block{kind: bDir, d: dir{kind: k, r: r}}
}

// bcUse: the blocks that use the reference text r in every IRIREF position.
func bcUse(r string, withPrefix, graph bool) []block {
	R := ref(r)
	objs := []obj{{kind: oIRI, iri: R}, {kind: oLit, lit: lit{kind: lTyped, lex: "x", dt: R}}}
	var out []block
	if withPrefix {
		out = append(out, block{kind: bDir, d: dir{kind: dPrefixAt, p: "p", r: r}})
		objs = append(objs, obj{kind: oIRI, iri: pn("p", "x")})
	}
	t := triples{s: obj{kind: oIRI, iri: R}, pos: []po{{v: R, objs: objs}}}
	if graph {
		l := obj{kind: oIRI, iri: R}
		return append(out, block{kind: bGraph, label: &l, body: []triples{t}})
	}
	return append(out, block{kind: bTriples, t: t})
}

func (h *harness) baseChanges() {
	total := 0
	r := h.r.Fork()
	for _, def := range bcDefaults {
		for fi, first := range bcFirst {
			for si, second := range bcSecond {
				if def == "" && first == "-" && !absRef.MatchString(second) {
					continue // a relative base directive without any base in force: outside the resolver's fragment
				}
				for _, secondKw := range []bool{false, true} {
					for _, rt := range bcRefs {
						for _, withPrefix := range []bool{false, true} {
							for _, graph := range []bool{false, true} {
								var d doc
								if first != "-" {
									// both styles of the first directive occur with both styles of the second (over fi, si)
									firstKw := ((fi+si)%2 == 0) != secondKw
									d = append(d, baseDir(firstKw, first))
								}
								d = append(d, bcUse(rt, withPrefix, graph)...)
								d = append(d, baseDir(secondKw, second))
								d = append(d, bcUse(rt, withPrefix, graph)...)
								sl := slotsOf(d)
								pkgs := []string{"trig", "turtle"}
								if graph {
									pkgs = pkgs[:1]
								}
								for _, pkg := range pkgs {
									h.add(&kase{kind: "basechg", pkg: pkg, base: def, d: d, ch: nil, si: sl})
									h.add(&kase{kind: "basechg", pkg: pkg, base: def, d: d, ch: genChoices(r.Fork(), sl), si: sl})
									total += 2
								}
							}
						}
					}
				}
			}
		}
	}
	h.flush()
	h.rep.Exhaustive = append(h.rep.Exhaustive, fmt.Sprintf(
		"base-change histories: default base %q x first directive %q (@base / BASE) x second directive %q as @base and as BASE x reference text %q used as subject, verb, object, datatype (and graph label / @prefix namespace with a prefixed name) before AND after the second directive; Turtle and TriG decoders (graph form: TriG), default spelling + one random spelling each: %d cases",
		bcDefaults, bcFirst, bcSecond, bcRefs, total))
}

var absRef = regexp.MustCompile(`^[A-Za-z][A-Za-z0-9+.-]*:`)

// baseReuse: histogram facts about a generated document: was a base that was in force changed by a
// later base directive, and does some relative reference text stand in term position on both sides
// of such a change (any text / a non-empty text)?
func baseReuse(d doc, hasDefault bool) (changed, reuse, reuseNonEmpty bool) {
	inForce := hasDefault
	old := map[string]bool{} // relative term references used under a base that has been replaced since
	cur := map[string]bool{}
	for _, b := range d {
		if b.kind == bDir {
			if b.d.kind == dBaseAt || b.d.kind == dBaseKw {
				if inForce {
					changed = true
					for k := range cur {
						old[k] = true
					}
				}
				cur = map[string]bool{}
				inForce = true
			}
			continue
		}
		if !inForce {
			continue
		}
		for _, s := range slotsOf(doc{b}) {
			if s.kind != skIRIREF || absRef.MatchString(s.text) {
				continue
			}
			cur[s.text] = true
			if old[s.text] {
				reuse = true
				if s.text != "" {
					reuseNonEmpty = true
				}
			}
		}
	}
	return
}
