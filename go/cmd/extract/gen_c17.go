package main

// T2 generator for property C17: structural facts of rdfdescription/{resource_list_builder,statement,
// resource}.go  ->  lean/RdfModel/Gen/DescFacts.lean
//
// Purely syntactic (go/ast). Facts:
//   cmps      (guard form normalised: `if opts.F { if c }` and `if … && opts.F && c` give the same fact)
//             every comparison of a reference count (`rb.blankNodeReferences[…]` or
//             `rb.GetBlankNodeReferences(…)`) with an integer literal, per method, with the operator, the
//             literal and the options field of the innermost enclosing `if opts.<Field>` (or "-");
//   incs      every `rb.blankNodeReferences[…]++ / -- / = / +=`: method, operator, the tag expression of
//             the enclosing type switch and the type of the enclosing case clause;
//   triples   the field expressions of every rdf.Triple{…} composite literal in the NewTriples methods;
//   fresh     the methods that call rdf.NewBlankNode(), with the number of calls.
// A shape the walker does not understand is emitted with the marker "?"; the consuming theorem
// `RdfModel.C17.gen_desc_facts` compares with the expected lists by `decide` and then fails.

import (
	"fmt"
	"go/ast"
	"go/parser"
	"go/token"
	"go/types"
	"os"
	"path/filepath"
	"sort"
	"strings"
)

func init() { generators["c17"] = genC17 }

func c17Str(s string) string {
	return "\"" + strings.ReplaceAll(strings.ReplaceAll(s, "\\", "\\\\"), "\"", "\\\"") + "\""
}

func c17MethodName(fd *ast.FuncDecl) string {
	if fd.Recv == nil || len(fd.Recv.List) == 0 {
		return fd.Name.Name
	}
	t := fd.Recv.List[0].Type
	if st, ok := t.(*ast.StarExpr); ok {
		t = st.X
	}
	return types.ExprString(t) + "." + fd.Name.Name
}

// c17IsRefCount: rb.blankNodeReferences[x] or rb.GetBlankNodeReferences(x)
func c17IsRefCount(e ast.Expr) bool {
	switch x := e.(type) {
	case *ast.IndexExpr:
		if se, ok := x.X.(*ast.SelectorExpr); ok {
			return se.Sel.Name == "blankNodeReferences"
		}
	case *ast.CallExpr:
		if se, ok := x.Fun.(*ast.SelectorExpr); ok {
			return se.Sel.Name == "GetBlankNodeReferences"
		}
	case *ast.ParenExpr:
		return c17IsRefCount(x.X)
	}
	return false
}

func genC17(leanRoot string) {
	repo := os.Getenv("VERIF_REPO")
	if repo == "" {
		repo = "/repo"
	}
	fset := token.NewFileSet()
	var cmps, incs, triples, fresh, marks []string
	for _, rel := range []string{"rdfdescription/resource_list_builder.go", "rdfdescription/statement.go", "rdfdescription/resource.go"} {
		f, err := parser.ParseFile(fset, filepath.Join(repo, rel), nil, 0)
		if err != nil {
			fmt.Fprintln(os.Stderr, "c17:", err)
			os.Exit(2)
		}
		for _, d := range f.Decls {
			fd, ok := d.(*ast.FuncDecl)
			if !ok || fd.Body == nil {
				continue
			}
			name := c17MethodName(fd)
			nFresh := 0
			// walk with a stack to know the enclosing if / type switch / case clause
			var stack []ast.Node
			ast.Inspect(fd.Body, func(n ast.Node) bool {
				if n == nil {
					stack = stack[:len(stack)-1]
					return true
				}
				stack = append(stack, n)
				switch x := n.(type) {
				case *ast.BinaryExpr:
					var lit *ast.BasicLit
					var side ast.Expr
					if l, ok := x.Y.(*ast.BasicLit); ok && c17IsRefCount(x.X) {
						lit, side = l, x.X
					} else if l, ok := x.X.(*ast.BasicLit); ok && c17IsRefCount(x.Y) {
						lit, side = l, x.Y
						_ = side
						cmps = append(cmps, fmt.Sprintf("(%s, %s, %s, %s)", c17Str(name), c17Str("?literal-on-the-left"), c17Str(x.Op.String()), c17Str(l.Value)))
						return true
					} else if c17IsRefCount(x.X) || c17IsRefCount(x.Y) {
						cmps = append(cmps, fmt.Sprintf("(%s, %s, %s, %s)", c17Str(name), c17Str("?"), c17Str(x.Op.String()), c17Str(types.ExprString(x))))
						return true
					}
					if lit != nil {
						guard := "-"
						// a conjunct `opts.<Field>` of an enclosing && chain also counts as the guard
						for i := len(stack) - 2; i >= 0 && guard == "-"; i-- {
							be, ok := stack[i].(*ast.BinaryExpr)
							if !ok || be.Op != token.LAND {
								break
							}
							var conj func(e ast.Expr)
							conj = func(e ast.Expr) {
								if b2, ok := e.(*ast.BinaryExpr); ok && b2.Op == token.LAND {
									conj(b2.X)
									conj(b2.Y)
									return
								}
								if se, ok := e.(*ast.SelectorExpr); ok {
									if id, ok := se.X.(*ast.Ident); ok && id.Name == "opts" && guard == "-" {
										guard = "opts." + se.Sel.Name // same fact as an enclosing `if opts.<Field>`
									}
								}
							}
							conj(be)
						}
						for i := len(stack) - 2; i >= 0 && guard == "-"; i-- {
							if is, ok := stack[i].(*ast.IfStmt); ok {
								if se, ok := is.Cond.(*ast.SelectorExpr); ok {
									if id, ok := se.X.(*ast.Ident); ok && id.Name == "opts" {
										// only when the comparison sits in the body, not in an else branch
										inBody := false
										for j := i + 1; j < len(stack); j++ {
											if stack[j] == ast.Node(is.Body) {
												inBody = true
											}
										}
										if inBody {
											guard = "opts." + se.Sel.Name
										} else {
											guard = "?else-of-opts." + se.Sel.Name
										}
										break
									}
								}
							}
						}
						cmps = append(cmps, fmt.Sprintf("(%s, %s, %s, %s)", c17Str(name), c17Str(guard), c17Str(x.Op.String()), c17Str(lit.Value)))
					}
				case *ast.IndexExpr:
					// uses of the `inlined` set of the repaired export: `!inlined[…]` (read) or `inlined[…] = true` (write)
					if id, ok := x.X.(*ast.Ident); ok && id.Name == "inlined" && len(stack) >= 2 {
						kind := "?" + fmt.Sprintf("%T", stack[len(stack)-2])
						switch par := stack[len(stack)-2].(type) {
						case *ast.UnaryExpr:
							if par.Op == token.NOT {
								kind = "!read"
							}
						case *ast.AssignStmt:
							if len(par.Lhs) == 1 && par.Lhs[0] == ast.Expr(x) && len(par.Rhs) == 1 && par.Tok == token.ASSIGN {
								kind = "write=" + types.ExprString(par.Rhs[0])
							}
						}
						marks = append(marks, fmt.Sprintf("(%s, %s)", c17Str(name), c17Str(kind)))
					}
				case *ast.IncDecStmt:
					if c17IsRefCount(x.X) {
						incs = append(incs, c17IncFact(name, x.Tok.String(), stack))
					}
				case *ast.AssignStmt:
					for _, l := range x.Lhs {
						if c17IsRefCount(l) {
							incs = append(incs, c17IncFact(name, x.Tok.String(), stack))
						}
					}
				case *ast.CompositeLit:
					isTriple := x.Type != nil && types.ExprString(x.Type) == "rdf.Triple"
					if x.Type == nil && len(stack) >= 2 { // element of rdf.TripleList{ {…} }
						if outer, ok := stack[len(stack)-2].(*ast.CompositeLit); ok && outer.Type != nil && types.ExprString(outer.Type) == "rdf.TripleList" {
							isTriple = true
						}
					}
					if isTriple && strings.HasSuffix(name, ".NewTriples") {
						fields := map[string]string{}
						for _, el := range x.Elts {
							if kv, ok := el.(*ast.KeyValueExpr); ok {
								fields[types.ExprString(kv.Key)] = types.ExprString(kv.Value)
							} else {
								fields["?positional"] = types.ExprString(el)
							}
						}
						ks := make([]string, 0, len(fields))
						for k := range fields {
							ks = append(ks, k)
						}
						sort.Strings(ks)
						var parts []string
						for _, k := range ks {
							parts = append(parts, k+"="+fields[k])
						}
						triples = append(triples, fmt.Sprintf("(%s, %s)", c17Str(name), c17Str(strings.Join(parts, ";"))))
					}
				case *ast.CallExpr:
					if types.ExprString(x.Fun) == "rdf.NewBlankNode" {
						nFresh++
					}
				}
				return true
			})
			if nFresh > 0 {
				fresh = append(fresh, fmt.Sprintf("(%s, %d)", c17Str(name), nFresh))
			}
		}
	}
	var sb strings.Builder
	sb.WriteString("-- GENERATED by /verif/go/cmd/extract (gen_c17.go) from /repo/rdfdescription (T2: go/ast facts). Do not edit.\n")
	sb.WriteString("namespace RdfModel.Gen.DescFacts\n\n")
	emit := func(name, typ string, items []string) {
		fmt.Fprintf(&sb, "def %s : List (%s) :=\n  [%s]\n\n", name, typ, strings.Join(items, ",\n   "))
	}
	sb.WriteString("/-- (method, enclosing `if opts.<field>`, operator, literal) of every reference-count comparison -/\n")
	emit("cmps", "String × String × String × String", cmps)
	sb.WriteString("/-- (method, operator, type-switch tag, case type) of every reference-count update -/\n")
	emit("incs", "String × String × String × String", incs)
	sb.WriteString("/-- (method, fields) of every rdf.Triple literal in a NewTriples method -/\n")
	emit("triples", "String × String", triples)
	sb.WriteString("/-- (method, number of rdf.NewBlankNode() calls) -/\n")
	emit("fresh", "String × Nat", fresh)
	sb.WriteString("/-- (method, kind) of every use of the `inlined` set (empty before patch fix-c17-export-cycles) -/\n")
	emit("marks", "String × String", marks)
	sb.WriteString("end RdfModel.Gen.DescFacts\n")
	writeIfChanged(filepath.Join(leanRoot, "RdfModel", "Gen", "DescFacts.lean"), sb.String())
}

func c17IncFact(name, op string, stack []ast.Node) string {
	tag, cas := "-", "-"
	for i := len(stack) - 2; i >= 0; i-- {
		switch x := stack[i].(type) {
		case *ast.CaseClause:
			if cas == "-" {
				var ts []string
				for _, e := range x.List {
					ts = append(ts, types.ExprString(e))
				}
				cas = strings.Join(ts, "|")
				if len(x.List) == 0 {
					cas = "default"
				}
			}
		case *ast.TypeSwitchStmt:
			if tag == "-" {
				switch a := x.Assign.(type) {
				case *ast.AssignStmt:
					if len(a.Rhs) == 1 {
						if ta, ok := a.Rhs[0].(*ast.TypeAssertExpr); ok {
							tag = types.ExprString(ta.X)
						}
					}
				case *ast.ExprStmt:
					if ta, ok := a.X.(*ast.TypeAssertExpr); ok {
						tag = types.ExprString(ta.X)
					}
				}
				if tag == "-" {
					tag = "?"
				}
			}
		}
	}
	return fmt.Sprintf("(%s, %s, %s, %s)", c17Str(name), c17Str(op), c17Str(tag), c17Str(cas))
}
