package main

// Grammar-directed JSON-LD families around map-valued containers (expansion algorithm step 13.7 /
// 13.8: language maps and @index / @id / @type / @graph maps), run through the jsonld decoder, the
// HTML-embedded JSON-LD decoder and the combined HTML decoder.
//
// [family:container-maps] every container kind x every shape of map ENTRY VALUE (null, a value
// object that expands to null, empty / null-only arrays, scalars, arrays, node objects, value /
// list / set / graph objects, nested arrays, …) x kinds of map KEY (plain, @none, IRI, compact IRI,
// blank node, empty, relative) x position of the entry (alone, with a sibling, in the middle of a
// 12-entry map) x term coercion (none, @id, @vocab): the per-entry loops of the expansion algorithm
// cast the expanded entry without a check in several places; an entry that expands to nothing must
// simply contribute nothing (C05), and every statement that does come out must be well formed (C06).
//
// [family:map-order] every place the expansion algorithm recurses from (top level, array item,
// property value, @list, @set, @graph, @included, @reverse, @nest, an entry of each container-map
// kind, property- and type-scoped contexts, two container maps deep) x every construct whose members
// the algorithm must visit in a defined (lexicographic) order (node object with 12 properties,
// language map, index map, id map, type map, graph maps, @nest, @reverse — each with 12 entries, so
// that Go's randomised map iteration order shows within a few decodes: a 12-entry map spans more than
// one hash group). The C15 determinism oracle decodes each of them k times (k = 4 quick, 8 thorough)
// and compares the ordered statement sequences (blank nodes renumbered by first occurrence).

import (
	"bytes"
	"fmt"
	"strings"
)

type mapKind struct {
	name, decl string
	keys       []string
	sibling    string // a second, well-behaved entry: key
}

var indexKeys = []string{"a", "@none", "http://e/k", "", "_:k"}
var idKeys = []string{"http://e/o", "_:b0", "rel/o", "@none", "e:o", ""}
var typeKeys = []string{"http://e/T", "T", "@none", "_:t", "e:T"}
var langKeys = []string{"en", "@none", "", "EN-us", "not a tag"}

var mapKinds = []mapKind{
	{"index", `"@container":"@index"`, indexKeys, "zz"},
	{"index-set", `"@container":["@index","@set"]`, indexKeys, "zz"},
	{"index-prop", `"@container":"@index","@index":"prop"`, indexKeys, "zz"},
	{"id", `"@container":"@id"`, idKeys, "http://e/zz"},
	{"id-set", `"@container":["@id","@set"]`, idKeys, "http://e/zz"},
	{"type", `"@container":"@type"`, typeKeys, "http://e/Zz"},
	{"type-set", `"@container":["@type","@set"]`, typeKeys, "http://e/Zz"},
	{"language", `"@container":"@language"`, langKeys, "zu"},
	{"language-set", `"@container":["@language","@set"]`, langKeys, "zu"},
	{"graph", `"@container":"@graph"`, indexKeys, "zz"},
	{"graph-set", `"@container":["@graph","@set"]`, indexKeys, "zz"},
	{"graph-index", `"@container":["@graph","@index"]`, indexKeys, "zz"},
	{"graph-index-set", `"@container":["@graph","@index","@set"]`, indexKeys, "zz"},
	{"graph-id", `"@container":["@graph","@id"]`, idKeys, "http://e/zz"},
	{"graph-id-set", `"@container":["@graph","@id","@set"]`, idKeys, "http://e/zz"},
	{"list", `"@container":"@list"`, indexKeys, "zz"},
	{"set", `"@container":"@set"`, indexKeys, "zz"},
}

// entryValues: the shapes a map entry can take. The first nullish ones are run for every key.
var entryValues = []struct {
	name, json string
	nullish    bool
}{
	{"null", `null`, true},
	{"value-null", `{"@value":null}`, true},
	{"empty-array", `[]`, true},
	{"array-null", `[null]`, true},
	{"array-value-null", `[{"@value":null}]`, true},
	{"array-null-then-string", `[null,"v"]`, true},
	{"empty-set", `{"@set":[]}`, true},
	{"set-null", `{"@set":[null]}`, true},
	{"id-null", `{"@id":null}`, true},
	{"nested-empty-arrays", `[[],[[]]]`, true},
	{"unmapped-only", `{"unmapped:":null,"@context":{"@vocab":null},"nokey":"dropped"}`, true},
	{"string", `"v"`, false},
	{"integer", `1`, false},
	{"double", `1.5`, false},
	{"true", `true`, false},
	{"strings", `["v1","v2"]`, false},
	{"node", `{"p":"x"}`, false},
	{"node-ref", `{"@id":"http://e/n"}`, false},
	{"empty-object", `{}`, false},
	{"empty-list", `{"@list":[]}`, false},
	{"list", `{"@list":["a",null,{"@value":null}]}`, false},
	{"value", `{"@value":"v"}`, false},
	{"value-language", `{"@value":"v","@language":"en"}`, false},
	{"value-typed", `{"@value":"1","@type":"http://e/dt"}`, false},
	{"typed-node", `{"@type":"http://e/U","p":"x"}`, false},
	{"empty-graph", `{"@graph":[]}`, false},
	{"graph", `{"@graph":{"@id":"http://e/gs","p":"x"}}`, false},
	{"graph-with-id", `{"@id":"http://e/g","@graph":[{"p":"x"},null]}`, false},
	{"nested-arrays", `[["v"],[null,["w"]]]`, false},
	{"null-context-node", `{"@context":null,"http://e/p":"x"}`, false},
	{"indexed-node", `{"@index":"i","p":"x"}`, false},
	{"reverse", `{"@reverse":{"p":{"@id":"http://e/r"}}}`, false},
	{"included", `{"@included":[{"@id":"http://e/inc","p":"x"}],"p":"y"}`, false},
	{"nested-language-map", `{"lbl":{"en":"x","de":null,"fr":["a",null]}}`, false},
	{"nested-index-map", `{"t":{"i":null,"j":{"@value":null},"k":"v"}}`, false},
	{"nest", `{"nest":{"p":"x","nest":{"p":null}}}`, false},
	{"json-literal", `{"@value":{"a":[null]},"@type":"@json"}`, false},
	{"mixed-array", `[null,"v",{"@value":null},{"p":"x"},[],{"@list":[null]},1]`, false},
}

func mapContext(k mapKind, coercion string) string {
	return `{"p":"http://e/p","prop":"http://e/prop","e":"http://e/","@vocab":"http://e/v#","@base":"http://e/base/",` +
		`"lbl":{"@id":"http://e/lbl","@container":"@language"},"nest":"@nest",` +
		`"t":{"@id":"http://e/t",` + k.decl + coercion + `}}`
}

// containerMapDocs: the [family:container-maps] documents. quickThin drops two thirds of the
// non-nullish combinations (the nullish values are always run with every key, position and coercion).
func containerMapDocs() []Seed {
	coercions := []struct{ name, json string }{{"plain", ``}, {"id", `,"@type":"@id"`}, {"vocab", `,"@type":"@vocab"`}}
	var out []Seed
	for ki, k := range mapKinds {
		for vi, v := range entryValues {
			for yi, key := range k.keys {
				for ci, co := range coercions {
					if co.name != "plain" && (k.name == "language" || k.name == "language-set") {
						continue // a language map cannot be type-coerced (the context would be rejected for every document)
					}
					for pos := 0; pos < 3; pos++ {
						if !v.nullish && (ki+vi+yi+ci+pos)%3 != 0 {
							continue
						}
						if !v.nullish && ci > 0 && yi > 1 {
							continue
						}
						var m strings.Builder
						m.WriteString("{")
						switch pos {
						case 0:
							fmt.Fprintf(&m, "%q:%s", key, v.json)
						case 1:
							fmt.Fprintf(&m, "%q:%s,%q:%s", key, v.json, k.sibling, siblingValue(k))
						case 2:
							for i := 0; i < 12; i++ {
								if i > 0 {
									m.WriteString(",")
								}
								if i == 5 {
									fmt.Fprintf(&m, "%q:%s", key, v.json)
								} else {
									fmt.Fprintf(&m, "%q:%s", wideKey(k, i), wideValue(k, i))
								}
							}
						}
						m.WriteString("}")
						doc := `{"@context":` + mapContext(k, co.json) + `,"@id":"http://e/s","t":` + m.String() + `}`
						out = append(out, Seed{Name: fmt.Sprintf("%s/%s/key%d/%s/pos%d", k.name, v.name, yi, co.name, pos), B: []byte(doc)})
					}
				}
			}
		}
	}
	return out
}

func siblingValue(k mapKind) string {
	if strings.HasPrefix(k.name, "language") {
		return `"w"`
	}
	return `{"p":"w"}`
}

func wideKey(k mapKind, i int) string {
	switch {
	case strings.HasPrefix(k.name, "language"):
		return []string{"aa", "ab", "ae", "af", "ak", "am", "an", "ar", "as", "av", "ay", "az"}[i]
	case strings.HasPrefix(k.name, "id"), strings.HasPrefix(k.name, "graph-id"):
		return fmt.Sprintf("http://e/k%02d", i)
	case strings.HasPrefix(k.name, "type"):
		return fmt.Sprintf("http://e/K%02d", i)
	}
	return fmt.Sprintf("k%02d", i)
}

func wideValue(k mapKind, i int) string {
	if strings.HasPrefix(k.name, "language") {
		return fmt.Sprintf(`"w%d"`, i)
	}
	switch i % 3 {
	case 0:
		return fmt.Sprintf(`{"p":"w%d"}`, i)
	case 1:
		return fmt.Sprintf(`{"p":{"p":"w%d"}}`, i) // a fresh blank node per entry: first-occurrence numbering shows the order
	}
	return fmt.Sprintf(`[{"p":"w%d"},{"prop":"u%d"}]`, i, i)
}

// ---------------------------------------------------------------- map-order

const mapOrderContext = `{"@vocab":"http://e/v#","e":"http://e/","p":"http://e/p",` +
	`"lbl":{"@id":"http://e/lbl","@container":"@language"},` +
	`"idx":{"@id":"http://e/idx","@container":"@index"},` +
	`"byid":{"@id":"http://e/byid","@container":"@id"},` +
	`"bytype":{"@id":"http://e/bytype","@container":"@type"},` +
	`"gr":{"@id":"http://e/gr","@container":"@graph"},` +
	`"bygr":{"@id":"http://e/bygr","@container":["@graph","@index"]},` +
	`"bygid":{"@id":"http://e/bygid","@container":["@graph","@id"]},` +
	`"lst":{"@id":"http://e/lst","@container":"@list"},` +
	`"st":{"@id":"http://e/st","@container":"@set"},` +
	`"nest":"@nest",` +
	`"scoped":{"@id":"http://e/scoped","@context":{"x":"http://e/x"}},` +
	`"T":{"@id":"http://e/T","@context":{"y":"http://e/y"}}}`

var orderLangs = []string{"en", "de", "fr", "es", "it", "nl", "pt", "sv", "da", "fi", "pl", "cs"}

// orderSensitive: members (of a node object) whose entries must come out in a defined order. n entries.
var orderSensitive = []struct {
	name string
	f    func(n int) string
}{
	{"properties", func(n int) string {
		return joinN(n, func(i int) string { return fmt.Sprintf(`"k%02d":{"p":"v%d"}`, (i*7)%n, i) })
	}},
	{"language-map", func(n int) string {
		return `"lbl":{` + joinN(n, func(i int) string {
			return fmt.Sprintf(`%q:"l%d"`, orderLangs[i%len(orderLangs)]+strings.Repeat("-x", i/len(orderLangs)), i)
		}) + `}`
	}},
	{"index-map", func(n int) string {
		return `"idx":{` + joinN(n, func(i int) string { return fmt.Sprintf(`"i%02d":{"p":"v%d"}`, (i*5)%n, i) }) + `}`
	}},
	{"index-map-scalars", func(n int) string {
		return `"idx":{` + joinN(n, func(i int) string { return fmt.Sprintf(`"i%02d":"v%d"`, (i*5)%n, i) }) + `}`
	}},
	{"id-map", func(n int) string {
		return `"byid":{` + joinN(n, func(i int) string { return fmt.Sprintf(`"http://e/i%02d":{"p":{"p":"v%d"}}`, (i*5)%n, i) }) + `}`
	}},
	{"id-map-bnodes", func(n int) string {
		return `"byid":{` + joinN(n, func(i int) string { return fmt.Sprintf(`"_:i%02d":{"p":"v%d"}`, (i*5)%n, i) }) + `}`
	}},
	{"type-map", func(n int) string {
		return `"bytype":{` + joinN(n, func(i int) string { return fmt.Sprintf(`"http://e/T%02d":{"p":"v%d"}`, (i*5)%n, i) }) + `}`
	}},
	{"graph-index-map", func(n int) string {
		return `"bygr":{` + joinN(n, func(i int) string { return fmt.Sprintf(`"g%02d":{"p":"v%d"}`, (i*5)%n, i) }) + `}`
	}},
	{"graph-id-map", func(n int) string {
		return `"bygid":{` + joinN(n, func(i int) string { return fmt.Sprintf(`"http://e/g%02d":{"p":"v%d"}`, (i*5)%n, i) }) + `}`
	}},
	{"nest", func(n int) string {
		return `"nest":{` + joinN(n, func(i int) string { return fmt.Sprintf(`"n%02d":"v%d"`, (i*5)%n, i) }) + `}`
	}},
	{"reverse", func(n int) string {
		return `"@reverse":{` + joinN(n, func(i int) string { return fmt.Sprintf(`"r%02d":{"p":"v%d"}`, (i*5)%n, i) }) + `}`
	}},
}

func joinN(n int, f func(i int) string) string {
	parts := make([]string, n)
	for i := range parts {
		parts[i] = f(i)
	}
	return strings.Join(parts, ",")
}

// recursionSites: where the expansion algorithm calls itself; %s is replaced by a node object.
var recursionSites = []struct{ name, tmpl string }{
	{"top", `%s`},
	{"array-item", `[{"@id":"http://e/first","p":"x"},%s]`},
	{"property-value", `{"@id":"http://e/s","p":%s}`},
	{"list", `{"@id":"http://e/s","p":{"@list":[%s]}}`},
	{"list-container", `{"@id":"http://e/s","lst":[%s]}`},
	{"set", `{"@id":"http://e/s","p":{"@set":[%s]}}`},
	{"set-container", `{"@id":"http://e/s","st":%s}`},
	{"graph", `{"@id":"http://e/g","@graph":[%s]}`},
	{"graph-container", `{"@id":"http://e/s","gr":%s}`},
	{"included", `{"@id":"http://e/s","@included":[%s]}`},
	{"reverse", `{"@id":"http://e/s","@reverse":{"p":%s}}`},
	{"nest", `{"@id":"http://e/s","nest":{"p":%s}}`},
	{"index-map-entry", `{"@id":"http://e/s","idx":{"a":%s}}`},
	{"index-map-entry-array", `{"@id":"http://e/s","idx":{"a":["x",%s]}}`},
	{"id-map-entry", `{"@id":"http://e/s","byid":{"http://e/Q1":%s}}`},
	{"type-map-entry", `{"@id":"http://e/s","bytype":{"http://e/U":%s}}`},
	{"graph-index-map-entry", `{"@id":"http://e/s","bygr":{"g":%s}}`},
	{"graph-id-map-entry", `{"@id":"http://e/s","bygid":{"http://e/g":%s}}`},
	{"property-scoped-context", `{"@id":"http://e/s","scoped":%s}`},
	{"id-map-in-index-map", `{"@id":"http://e/s","idx":{"a":{"byid":{"http://e/Q1":%s}}}}`},
	{"index-map-in-type-map", `{"@id":"http://e/s","bytype":{"http://e/U":{"idx":{"a":%s}}}}`},
}

// mapOrderDocs: the [family:map-order] documents (n entries per order-sensitive construct).
func mapOrderDocs(n int) []Seed {
	var out []Seed
	for _, site := range recursionSites {
		for _, m := range orderSensitive {
			node := `{` + m.f(n) + `}`
			doc := `{"@context":` + mapOrderContext + `,"@graph":[` + fmt.Sprintf(site.tmpl, node) + `]}`
			out = append(out, Seed{Name: site.name + "/" + m.name, B: []byte(doc)})
		}
		// type-scoped context: the node itself carries the type
		node := `{"@type":"T",` + orderSensitive[1].f(n) + `,` + orderSensitive[0].f(n) + `}`
		out = append(out, Seed{Name: site.name + "/type-scoped+language-map+properties", B: []byte(`{"@context":` + mapOrderContext + `,"@graph":[` + fmt.Sprintf(site.tmpl, node) + `]}`)})
	}
	return out
}

// mapHeavy: does the document (JSON-LD, or HTML carrying JSON-LD) use a construct whose members are
// visited in a defined order only if the implementation sorts them (container maps, @nest)? The
// determinism oracle repeats such documents more often.
func mapHeavy(format string, b []byte) bool {
	switch format {
	case "jsonld", "htmljsonld", "html":
		if bytes.Contains(b, []byte(`"@container"`)) || bytes.Contains(b, []byte(`"@nest"`)) || bytes.Contains(b, []byte(`"@reverse"`)) {
			return true
		}
	}
	if format == "rdfa" || format == "html" { // RDFa list mapping / property copying: Go maps as well
		return bytes.Contains(b, []byte("inlist")) || bytes.Contains(b, []byte("rdfa:copy"))
	}
	return false
}

// orderSub: class sub-key of an order-only difference. The known finding C15X-rdfa-copy-order (predicate
// order-only|rdfa,html|statement-order) stems from Go map iteration in the RDFa decoder: property
// copying (rdfa:copy / rdfa:Pattern) and — found when this sub-key was introduced — the emission of
// @inlist lists (Processing step 14 ranges over the local list mapping, a Go map: two list
// predicates on one subject come out in either order). Only documents that use one of the two fall
// into that class; any other order-only difference of the RDFa or combined decoder (e.g. from the
// embedded JSON-LD) has a sub-key of its own, which no known entry matches.
func orderSub(format string, b []byte) string {
	if format == "rdfa" || format == "html" {
		for _, marker := range []string{"rdfa:copy", "rdfa:Pattern", "ns/rdfa#", "inlist"} {
			if bytes.Contains(b, []byte(marker)) {
				return "statement-order"
			}
		}
		return "statement-order(no rdfa:copy, no inlist)"
	}
	return "statement-order"
}

// nullishEntry: is the entry value of a container-maps document (name <kind>/<entry value>/…) one of
// those that expand to nothing?
func nullishEntry(name string) bool {
	parts := strings.Split(name, "/")
	if len(parts) < 2 {
		return false
	}
	for _, v := range entryValues {
		if v.name == parts[1] {
			return v.nullish
		}
	}
	return false
}

// rdfaInlistOrderDoc: one subject with n list predicates (@inlist): RDFa Processing step 14 emits the
// lists of the local list mapping — a map — and must do so in a defined order.
func rdfaInlistOrderDoc(n int) []byte {
	var sb strings.Builder
	sb.WriteString(`<!DOCTYPE html><html><body vocab="http://v.example/"><div about="http://e/s">`)
	for i := 0; i < n; i++ {
		fmt.Fprintf(&sb, `<span property="p%02d" inlist="">v%d</span><a rel="p%02d" inlist="" href="http://e/o%d">x</a>`, (i*5)%n, i, (i*5)%n, i)
	}
	sb.WriteString(`</div></body></html>`)
	return []byte(sb.String())
}
