package main

// sink: everything one job produces. Jobs run in expendable child processes (a decoder may exhaust
// the stack or the address space, which kills the process that runs it); the parent merges sinks
// into the report.

import (
	"fmt"
	"hash/fnv"
	"strconv"
	"strings"
)

type evalRec struct {
	Canon string `json:"c"`
	NT    bool   `json:"n"`
}

type sink struct {
	Hist     map[string]int     `json:"h,omitempty"`
	Evals    []evalRec          `json:"e,omitempty"`
	Viols    []violation        `json:"v,omitempty"`
	Suspects []Case             `json:"s,omitempty"`
	Latch    []latchObservation `json:"l,omitempty"`
	Dirty    bool               `json:"d,omitempty"` // a watchdog hit leaked a goroutine: the child exits after this job
	Log      []string           `json:"g,omitempty"`
	Classes  map[string]string  `json:"k,omitempty"` // probe jobs: class key -> detail
}

func newSink() *sink { return &sink{Hist: map[string]int{}} }

func (s *sink) count(k string) { s.Hist[k]++ }

func (s *sink) add(v violation) { s.Viols = append(s.Viols, v) }

func (s *sink) suspect(c Case) {
	s.Suspects = append(s.Suspects, c)
	s.Dirty = true
}

// account records one evaluation (histograms, non-triviality).
func (s *sink) account(c Case, r runResult) {
	h := fnv.New64a()
	h.Write([]byte(c.Format + "\x00" + c.Opts.String() + "\x00"))
	h.Write(c.Input)
	nontrivial := len(r.Stmts) > 0 || (r.Verdict == "error" && len(c.Input) > 8)
	s.Evals = append(s.Evals, evalRec{Canon: fmt.Sprintf("%s %s/%s opts{%s} %d bytes #%016x", c.Format, c.Family, c.Name, c.Opts, len(c.Input), h.Sum64()), NT: nontrivial})
	s.count("format:" + c.Format)
	s.count("family:" + c.Family)
	s.count("verdict:" + c.Format + ":" + r.Verdict)
	s.count("chunk:" + c.Sched.Chunk)
	if c.Sched.FaultAt >= 0 {
		s.count("fault:" + c.Sched.Fault)
	}
	switch n := len(r.Stmts); {
	case n == 0:
		s.count("stmts:0")
	case n < 10:
		s.count("stmts:1-9")
	case n < 100:
		s.count("stmts:10-99")
	default:
		s.count("stmts:100+")
	}
	if c.Opts.Offsets {
		s.count("opt:offsets")
	}
	if c.Opts.Base {
		s.count("opt:base")
	}
	if c.Opts.Lax {
		s.count("opt:lax")
	}
	if c.Opts.Mode != "" {
		s.count("opt:mode:" + c.Opts.Mode)
	}
	if r.Elapsed > budget(len(c.Input))/2 {
		s.count(fmt.Sprintf("near-watchdog(>50%%):%s:%s", c.Format, c.Name))
	}
	if r.Verdict != "panic" && r.Verdict != "hang" && len(s.Latch) < 4 {
		s.Latch = append(s.Latch, latchObservation{Format: c.Format, N: len(r.Stmts), Err: r.Verdict == "error", LifeOK: len(r.Life) == 0})
	}
}

// judge evaluates the single-run oracles of C05 and C06 on an outcome.
func (s *sink) judge(c Case, r runResult) {
	switch r.Verdict {
	case "panic":
		s.add(violation{Prop: "C05", Kind: "panic", Format: c.Format, Sub: r.Panic.Func + "|" + r.Panic.Kind, Detail: "panic: " + r.Panic.Value, Case: c})
	case "hang":
		s.add(violation{Prop: "C05", Kind: "hang", Format: c.Format, Sub: hangSub(c), Detail: fmt.Sprintf("no result within %v", budget(len(c.Input))), Case: c})
	}
	for _, l := range r.Life {
		s.add(violation{Prop: "C05", Kind: "life", Format: c.Format, Sub: subOf(l, ":"), Detail: l, Case: c})
	}
	for _, w := range r.WF {
		s.add(violation{Prop: "C06", Kind: "wf", Format: c.Format, Sub: subOf(w, " in "), Detail: w, Case: c})
	}
	if c.Sched.FaultAt >= 0 && r.Delivered && r.Verdict == "clean" {
		s.add(violation{Prop: "C15", Kind: "fault-swallowed", Format: c.Format, Sub: c.Sched.Fault, Detail: "reader failed but the decoder ended cleanly", Case: c})
	}
}

// panicOrHang: a panic is judged at once (it belongs to C05); a watchdog hit is confirmed later, alone.
func (s *sink) panicOrHang(c Case, r runResult) {
	if r.Verdict == "hang" {
		s.suspect(c)
		return
	}
	s.judge(c, r)
}

// single: one decoder run with the single-run oracles.
func (s *sink) single(c Case, confirm bool) runResult {
	var r runResult
	if confirm {
		r = execCaseConfirm(c)
	} else {
		r = execCase(c)
	}
	if r.Verdict == "inconclusive" {
		s.Dirty = true
		s.count("inconclusive:starved-in-confirmation")
		return r
	}
	if r.Verdict == "hang" {
		s.Dirty = true
		if !confirm {
			s.suspect(c)
			return r
		}
	}
	s.account(c, r)
	s.judge(c, r)
	return r
}

// probe: the classes of single-run violations a case falls into (for the shrinker).
func (s *sink) probe(c Case) {
	t := newSink()
	r := execCase(c)
	if r.Verdict == "hang" {
		s.Dirty = true
	}
	t.judge(c, r)
	s.Classes = map[string]string{}
	for _, v := range t.Viols {
		s.Classes[v.Key()] = v.Detail
	}
}

// hangSub: class sub-key of a watchdog hit (or child crash): generator family and generator name,
// without the variant suffix ("itemref-fan+itemid" is the document family itemref-fan with one more
// attribute: the same defect class) and without the depth / size. A known class (quadratic paths that
// exceed the budget on hundreds of kilobytes of adversarial nesting) must not hide a decoder that
// hangs on a *small* member of the same family: parameters below 1000 get a class of their own.
func hangSub(c Case) string {
	n := c.Name
	small := false
	if i := strings.Index(n, "@"); i > 0 {
		if p, err := strconv.Atoi(n[i+1:]); err == nil && p < 1000 {
			small = true
		}
		n = n[:i]
	}
	if i := strings.Index(n, "+"); i > 0 {
		n = n[:i]
	}
	if fam := strings.TrimSuffix(c.Family, "+shrunk"); small && (fam == "nest" || fam == "growth") {
		n += "(parameter<1000)"
	}
	fam := strings.TrimSuffix(c.Family, "+shrunk")
	if fam == "growth" { // the growth ladder runs the nest generators at small parameters
		fam = "nest"
	}
	if fam == "nest" || fam == "huge" {
		return fam + ":" + n
	}
	return fam
}

func subOf(s, sep string) string {
	if i := strings.Index(s, sep); i > 0 {
		return s[:i]
	}
	return s
}
