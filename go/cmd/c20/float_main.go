package main

// Part C20F: value side of xsd:decimal / xsd:double / xsd:float (run with `-float only`).
//
//   - T3, strings: every generated (datatype, string) goes through xsdtype.Map* and through the model
//     (op xsdf.map); compared are the verdict, the EXACT lexical form of AsObjectValue() and the bit
//     pattern of the Go value. TermEquals probes through xsdf.teq.
//   - T3, strconv: xsdf.round (ParseFloat incl. the rounded value, on any string, 32 and 64 bits),
//     xsdf.short (shortest expansion of a bit pattern), xsdf.fmt (the repository's formatter applied to
//     the expansion strconv itself reports), xsdf.wf (strconv's post-conditions, the hypothesis of the
//     output theorems).
//   - Spec tie: Spec.XsdDecimal.decimalLex / isCanonDecimal against math/big and a regular expression.
//   - Property oracle on the implementation (no model involved): soundness, output in the lexical
//     space, value of MapDecimal = nearest float64 of the exact rational (math/big), literal reads back
//     to the same bits, literal of a decimal has the XSD canonical shape, TermEquals ⇔ that literal.

import (
	"flag"
	"fmt"
	"math"
	"math/big"
	"os"
	"regexp"
	"strconv"
	"strings"

	"github.com/dpb587/rdfkit-go/ontology/xsd/xsdtype"
	"github.com/dpb587/rdfkit-go/rdf/objecttypes"
	"verifharness/vh"
)

var floatMode = flag.String("float", "", "only: run the decimal/double/float value-side part (C20F) instead of the C20 run")

var (
	reCanonDecimalShape = regexp.MustCompile(`^-?(0|[1-9][0-9]*)(\.[0-9]*[1-9])?$`)
	reDecimalParts      = regexp.MustCompile(`^([+-]?)([0-9]*)(?:\.([0-9]*))?$`)
	reFloatReplay       = regexp.MustCompile(`xsdf\.(?:map (?:decimal|double|float) x[0-9a-f]*|short (?:32|64) [0-9a-f]+)`)
)

type fitem struct {
	line, goR, kind string
}

type fharness struct {
	r     *vh.Rng
	rep   *vh.Report
	known map[string]vh.Finding
	items []fitem
	seen  map[string]struct{}
}

// histogram keys carry the prefix "f:" so that they do not collide with those of the C20 run when the
// two reports of cmd c20 are merged by ./check
func (h *fharness) count(k string) { h.rep.Count("f:" + k) }

func (h *fharness) add(kind, line, goR string) {
	h.items = append(h.items, fitem{line, goR, kind})
}

func (h *fharness) violation(aspect, op, detail string) {
	h.count("violation:" + aspect)
	h.rep.Add(vh.Case{Kind: "violation", Op: op, Detail: aspect + ": " + detail})
}

func ftBits(t *xtype) int {
	if t.name == "float" {
		return 32
	}
	return 64
}

// bit pattern of a mapped value in the driver's notation
func valBits(v objecttypes.Value) string {
	switch x := v.(type) {
	case xsdtype.Decimal:
		return f64tok(float64(x))
	case xsdtype.Double:
		return f64tok(float64(x))
	case xsdtype.Float:
		if x != x {
			return "nan"
		}
		return strconv.FormatUint(uint64(math.Float32bits(float32(x))), 16)
	}
	return "?"
}

func f64tok(f float64) string {
	if f != f {
		return "nan"
	}
	return strconv.FormatUint(math.Float64bits(f), 16)
}

func ftok(f float64, bits int) string {
	if bits == 32 {
		if f != f {
			return "nan"
		}
		return strconv.FormatUint(uint64(math.Float32bits(float32(f))), 16)
	}
	return f64tok(f)
}

// the expansion strconv reports for a finite value: digits without trailing zeros, decimal point
// position (value = 0.d1d2… · 10^dp); zero is the empty expansion
func expansion(f float64, bits int) (neg bool, digits string, dp int) {
	neg = math.Signbit(f)
	if f == 0 {
		return neg, "", 0
	}
	s := strconv.FormatFloat(math.Abs(f), 'e', -1, bits) // d.ddde±xx
	i := strings.IndexByte(s, 'e')
	e, _ := strconv.Atoi(s[i+1:])
	return neg, strings.Replace(s[:i], ".", "", 1), e + 1
}

// value of the Go type carrying f
func valueOf(t *xtype, f float64) objecttypes.Value {
	switch t.name {
	case "decimal":
		return xsdtype.Decimal(f)
	case "double":
		return xsdtype.Double(f)
	}
	return xsdtype.Float(float32(f))
}

// exact rational of a string of the decimal lexical space
func decimalRat(s string) (neg bool, n *big.Int, scale int, ok bool) {
	m := reDecimalParts.FindStringSubmatch(s)
	if m == nil || (m[2] == "" && m[3] == "") {
		return false, nil, 0, false
	}
	n, _ = new(big.Int).SetString("0"+m[2]+m[3], 10)
	return m[1] == "-", n, len(m[3]), true
}

// ---------------------------------------------------------------- one (type, string)

func (h *fharness) str(t *xtype, s, origin string) {
	key := t.name + "\x00" + s
	if _, dup := h.seen[key]; dup {
		return
	}
	h.seen[key] = struct{}{}
	op := "xsdf.map " + t.name + " " + vh.XS(s)
	bits := ftBits(t)

	v, err := t.mapVal(s)
	goR, lex := "err", ""
	if err == nil {
		lex = lexOf(v)
		goR = "ok " + vh.XS(lex) + " " + valBits(v)
	}
	h.rep.Eval(op, err == nil || origin != "mutated")
	h.count("type:" + t.name)
	h.count("origin:" + origin)
	if err == nil {
		h.count("go:accepted")
	} else {
		h.count("go:rejected")
	}
	h.add("map", op, goR)

	norm := refCollapse(s)
	inSpec := specLexOK(t, norm)

	// Spec tie: ·decimalLexicalMap·
	{
		want := "none"
		if neg, n, sc, ok := decimalRat(norm); ok {
			want = "some " + vh.B01(neg) + " " + n.String() + " " + strconv.Itoa(sc)
		}
		h.add("spec", "xsdf.declex "+vh.XS(norm), want)
	}

	if err != nil {
		if inSpec {
			// a string of the lexical space is refused only for a value beyond the range of the Go type
			h.count("go:range-error")
			if f, _, e := big.ParseFloat(norm, 10, 4096, big.ToNearestEven); e == nil {
				lim := new(big.Float).SetInt(bigThreshold(53, 1023))
				if bits == 32 {
					lim = new(big.Float).SetInt(bigThreshold(24, 127))
				}
				if f.Abs(f).Cmp(lim) < 0 {
					h.violation("complete", op, fmt.Sprintf("xsd:%s %q is in the lexical space, its value rounds into the range of the Go type, and it is refused: %v", t.name, s, err))
				}
			}
		}
		return
	}
	if !inSpec {
		h.violation("sound", op, fmt.Sprintf("xsd:%s %q accepted (literal %q) but not in the lexical space", t.name, s, lex))
		return
	}
	if !specLexOK(t, lex) {
		h.violation("outlex", op, fmt.Sprintf("xsd:%s %q: literal %q is not in the lexical space", t.name, s, lex))
	}
	h.add("spec", "xsdf.canon "+vh.XS(lex), fmt.Sprint(reCanonDecimalShape.MatchString(lex) && lex != "-0"))
	special := lex == "NaN" || lex == "INF" || lex == "-INF"
	if !special && !reCanonDecimalShape.MatchString(lex) {
		h.violation("canonical", op, fmt.Sprintf("xsd:%s %q: literal %q is not a canonical numeral (superfluous zeros, sign or point)", t.name, s, lex))
	}
	if lex == "-0" {
		h.count("note:negative-zero-literal")
	}
	// value: the nearest value of the Go type to the exact rational (decimal; double/float without exponent)
	if neg, n, sc, ok := decimalRat(norm); ok {
		r := new(big.Rat).SetFrac(n, new(big.Int).Exp(big.NewInt(10), big.NewInt(int64(sc)), nil))
		var want float64
		if bits == 32 {
			w, _ := r.Float32()
			want = float64(w)
		} else {
			want, _ = r.Float64()
		}
		if neg {
			want = math.Copysign(want, -1)
		}
		if got := valBits(v); got != ftok(want, bits) {
			h.violation("value", op, fmt.Sprintf("xsd:%s %q: value bits %s, nearest value of the Go type to the exact number is %s", t.name, s, got, ftok(want, bits)))
		}
		// the literal denotes a number that rounds to the same value (same value up to the precision of the Go type)
		if lneg, ln, lsc, lok := decimalRat(lex); lok {
			lr := new(big.Rat).SetFrac(ln, new(big.Int).Exp(big.NewInt(10), big.NewInt(int64(lsc)), nil))
			var back float64
			if bits == 32 {
				w, _ := lr.Float32()
				back = float64(w)
			} else {
				back, _ = lr.Float64()
			}
			if lneg {
				back = math.Copysign(back, -1)
			}
			if ftok(back, bits) != valBits(v) {
				h.violation("samevalue", op, fmt.Sprintf("xsd:%s %q: literal %q denotes a number that does not round to the mapped value", t.name, s, lex))
			}
			// predicate decimal-float64-inexact: xsd:decimal has exact values, the Go type is a float64, and the
			// literal denotes a different decimal number than the input did (precision silently lost). Counted
			// always; a case of kind "known" when the class is listed in known-findings.json.
			if t.name == "decimal" && (r.Cmp(lr) != 0 || (neg != lneg && r.Sign() != 0)) {
				h.count("note:decimal-float64-inexact")
				if f, ok := h.known["decimal-float64-inexact"]; ok {
					h.count("known:" + f.Key)
					if h.rep.Hist["f:known:"+f.Key] <= 2 {
						h.rep.Add(vh.Case{Kind: "known", Key: f.Key, Op: op, Detail: fmt.Sprintf("%s [xsd:decimal %q -> %q]", f.What, s, lex)})
					}
				}
			}
		}
	}
	// idempotence
	v2, err2 := t.mapVal(lex)
	switch {
	case err2 != nil:
		h.violation("idempotent", op, fmt.Sprintf("xsd:%s %q: re-mapping the literal %q fails: %v", t.name, s, lex, err2))
	case valBits(v2) != valBits(v):
		h.violation("idempotent", op, fmt.Sprintf("xsd:%s %q: re-mapping the literal %q gives %s, not %s", t.name, s, lex, valBits(v2), valBits(v)))
	case lexOf(v2) != lex:
		h.violation("idempotent", op, fmt.Sprintf("xsd:%s %q: canonicalisation not stable: %q then %q", t.name, s, lex, lexOf(v2)))
	}
	// TermEquals ⇔ the literal
	dt := vh.XSD + t.name
	probes := [][2]string{{dt, lex}, {dt, norm}, {dt, lex + "0"}, {dt, "+" + lex}, {vh.XSD + "string", lex}}
	if t.name == "decimal" {
		probes = append(probes, [2]string{vh.XSD + "double", lex})
	} else {
		probes = append(probes, [2]string{vh.XSD + "decimal", lex})
	}
	for _, p := range probes {
		got := v.TermEquals(lit(p[0], p[1]))
		if want := p[0] == dt && p[1] == lex; got != want {
			h.violation("termequals", op, fmt.Sprintf("xsd:%s %q: TermEquals(%q^^<%s>) = %v, literal is %q", t.name, s, p[1], p[0], got, lex))
		}
		h.add("teq", fmt.Sprintf("xsdf.teq %s %s L %s %s", t.name, vh.XS(s), vh.XS(p[0]), vh.XS(p[1])), fmt.Sprint(got))
	}
	h.add("teq", fmt.Sprintf("xsdf.teq %s %s N", t.name, vh.XS(s)), fmt.Sprint(v.TermEquals(iri("http://example.com/"))))
}

// ---------------------------------------------------------------- one float value

func (h *fharness) val(f float64, bits int, origin string) {
	if bits == 32 {
		f = float64(float32(f))
	}
	tok := ftok(f, bits)
	key := fmt.Sprintf("v%d\x00%s", bits, tok)
	if _, dup := h.seen[key]; dup {
		return
	}
	h.seen[key] = struct{}{}
	op := fmt.Sprintf("xsdf.short %d %s", bits, tok)
	h.rep.Eval(op, true)
	h.count(fmt.Sprintf("value:%d:%s", bits, origin))
	var ts []*xtype
	if bits == 32 {
		ts = []*xtype{typeByName("float")}
	} else {
		ts = []*xtype{typeByName("decimal"), typeByName("double")}
	}
	switch {
	case f != f:
		h.add("short", op, "nan")
		for _, t := range ts {
			h.add("fmt", "xsdf.fmt "+t.name+" nan", vh.XS(lexOf(valueOf(t, f))))
		}
		return
	case math.IsInf(f, 0):
		h.add("short", op, "inf "+vh.B01(f < 0))
		for _, t := range ts {
			lex := lexOf(valueOf(t, f))
			h.add("fmt", "xsdf.fmt "+t.name+" inf"+vh.B01(f < 0), vh.XS(lex))
			if t.name != "decimal" && !specLexOK(t, lex) {
				h.violation("outlex", op, fmt.Sprintf("xsd:%s: literal %q of an infinity is not in the lexical space", t.name, lex))
			}
		}
		return
	}
	neg, ds, dp := expansion(f, bits)
	trip := fmt.Sprintf("%s %s %d", vh.B01(neg), vh.XS(ds), dp)
	h.add("short", op, trip)
	// strconv post-conditions (hypothesis Dec.WF of the output theorems), checked here and by the model's own predicate
	wf := (ds == "" && dp == 0) || (ds != "" && ds[0] != '0' && ds[len(ds)-1] != '0' && strings.Trim(ds, "0123456789") == "")
	if !wf {
		h.violation("strconv-wf", op, fmt.Sprintf("expansion (%q, %d) of %s violates the post-conditions assumed of strconv", ds, dp, tok))
	}
	h.add("wf", "xsdf.wf "+trip, "true")
	for _, t := range ts {
		v := valueOf(t, f)
		lex := lexOf(v)
		h.add("fmt", "xsdf.fmt "+t.name+" "+trip, vh.XS(lex))
		if !specLexOK(t, lex) {
			h.violation("outlex", op, fmt.Sprintf("xsd:%s: literal %q of %s is not in the lexical space", t.name, lex, tok))
		}
		if !reCanonDecimalShape.MatchString(lex) {
			h.violation("canonical", op, fmt.Sprintf("xsd:%s: literal %q of %s is not a canonical numeral", t.name, lex, tok))
		}
		// the literal reads back to the same bits (strconv's round trip through the repository's Map function)
		v2, err := t.mapVal(lex)
		if err != nil {
			h.violation("idempotent", op, fmt.Sprintf("xsd:%s: literal %q of %s is refused: %v", t.name, lex, tok, err))
		} else if valBits(v2) != valBits(v) {
			h.violation("idempotent", op, fmt.Sprintf("xsd:%s: literal %q of %s maps to %s", t.name, lex, tok, valBits(v2)))
		}
		if !v.TermEquals(lit(vh.XSD+t.name, lex)) || v.TermEquals(lit(vh.XSD+t.name, lex+".0")) {
			h.violation("termequals", op, fmt.Sprintf("xsd:%s: TermEquals disagrees with the literal %q", t.name, lex))
		}
		// the model maps the literal to the same bits as well
		h.add("map", "xsdf.map "+t.name+" "+vh.XS(lex), "ok "+vh.XS(lex)+" "+valBits(v))
	}
}

// strconvRound ties the model of strconv.ParseFloat (syntax, range error AND value) on any string
func (h *fharness) strconvRound(s string) {
	h.rep.Eval("xsdf.round "+vh.XS(s), true)
	h.count("op:strconv-round")
	for _, bits := range []int{32, 64} {
		r := "err"
		if f, err := strconv.ParseFloat(s, bits); err == nil {
			r = "ok " + ftok(f, bits)
		}
		h.add("round", fmt.Sprintf("xsdf.round %d %s", bits, vh.XS(s)), r)
	}
}

func (h *fharness) flush() {
	if *nomodel || len(h.items) == 0 {
		h.items = h.items[:0]
		return
	}
	lines := make([]string, len(h.items))
	for i, it := range h.items {
		lines[i] = it.line
	}
	res, err := vh.Driver{Path: *driver}.RunParallel(lines)
	if err != nil {
		fmt.Fprintln(os.Stderr, err)
		os.Exit(2)
	}
	for i, it := range h.items {
		h.rep.Compared++
		h.count("compared:" + it.kind)
		if res[i] == it.goR {
			continue
		}
		what := "model ≠ implementation"
		if it.kind == "spec" {
			what = "Lean spec ≠ math/big / regular expression of the harness"
		} else if it.kind == "round" || it.kind == "short" {
			what = "model ≠ strconv"
		}
		h.count("disagreement:" + it.kind)
		h.rep.Add(vh.Case{Kind: "disagreement", Op: it.line, Go: it.goR, Model: res[i], Detail: what + " (" + it.kind + ")"})
	}
	h.items = h.items[:0]
}

// ---------------------------------------------------------------- entry point

func runFloat() int {
	seed := vh.SeedFromEnv()
	rep := vh.NewReport("C20F", *tier, seed, "xsd:decimal/double/float: strings from the lexical grammars (plain, canonical, very long, at the rounding and range boundaries), a boundary corpus, mutations, white-space wrapping; float32/float64 bit patterns (random, subnormal, extreme, powers of two and ten and their neighbours, short decimals); non-trivial = every bit pattern, every grammar/corpus string, and any string the implementation accepts")
	rep.Cases = []vh.Case{} // "cases": [] rather than null when nothing fails
	h := &fharness{r: vh.NewRng(seed), rep: rep, seen: map[string]struct{}{}}
	if fs, err := vh.LoadFindings(*findings); err == nil {
		h.known = vh.KnownKeys(fs, "C20")
	} else {
		fmt.Fprintln(os.Stderr, "findings:", err)
		return 2
	}
	fts := []*xtype{typeByName("decimal"), typeByName("double"), typeByName("float")}

	if *replay != "" {
		b, err := os.ReadFile(*replay)
		if err != nil {
			fmt.Fprintln(os.Stderr, err)
			return 2
		}
		for _, l := range reFloatReplay.FindAllString(string(b), -1) {
			f := strings.Fields(l)
			if f[0] == "xsdf.map" {
				if raw, err := vh.UnX(f[2]); err == nil {
					h.str(typeByName(f[1]), string(raw), "replay")
				}
			} else {
				u, _ := strconv.ParseUint(f[2], 16, 64)
				if f[1] == "32" {
					h.val(float64(math.Float32frombits(uint32(u))), 32, "replay")
				} else {
					h.val(math.Float64frombits(u), 64, "replay")
				}
			}
		}
	} else {
		n := 50000 * *scale
		if *tier == "thorough" {
			n = 1000000 * *scale
		}
		h.generateFloat(fts, n)
	}
	h.flush()
	if err := rep.Write(*out); err != nil {
		fmt.Fprintln(os.Stderr, err)
		return 2
	}
	fmt.Printf("c20 -float: %d evaluations, %d compared with the model, %d failures\n", rep.Evaluations, rep.Compared, rep.Failures())
	if rep.Failures() > 0 {
		return 1
	}
	return 0
}
