/-
  Property C10 — T2 facts: constants of /repo's JSON-LD packages, regenerated on every run by
  go/cmd/extract/gen_c10.go (go/ast), against the constants of the fragment semantics and of the encoder
  model. A theorem here fails to build when the repository changes one of them.
-/
import RdfModel.Gen.JsonLdFacts
import RdfModel.Props.C10Defs
namespace RdfModel.C10
open RdfModel RdfModel.JL RdfModel.Gen.JsonLdFacts

/-- the decoder's keyword table is the keyword list of the fragment semantics -/
theorem gen_keywords : keywords.map asc = JL.keywords := by decide

/-- "with no network access": neither the decoder package nor its expansion core imports a networking
    package (the HTTP document loader lives in jsonldtype and is only used when configured) … -/
theorem gen_no_network_imports : decoderImports.contains "net/http" = false ∧ decoderImports.contains "net" = false := by
  decide

/-- … and without configuration `Expand` installs a loader that refuses every request -/
theorem gen_default_loader_refuses : defaultLoaderRefuses = true := by decide

/-- the runes the decoder refuses in IRIs are exactly the ones `JL.iriCharOK` refuses (besides controls) -/
theorem gen_iri_rejected :
    (∀ c ∈ iriRejected, iriCharOK c = false) ∧
    (∀ c ∈ [0x20, 0x3c, 0x3e, 0x22, 0x7b, 0x7d, 0x7c, 0x5c, 0x5e, 0x60], iriRejected.contains c = true) ∧
    iriRejected.length = 10 ∧ iriCountsQuestionMarks = false := by decide

/-- native numbers: xsd:double exactly for a fractional part or an absolute value ≥ 10^21 -/
theorem gen_double_condition : doubleCondition = "math.Abs(valuePrimitive.Value) >= 1e21" := by decide

/-- the regular expressions `JLEnc.isNativeInteger`, `JLEnc.isNativeDouble` and `JL.isKeywordForm` were
    translated from, and the gen-delim set of `JLEnc.isPrefixTerm` -/
theorem gen_encoder_constants :
    reNativeInteger = "^-?(0|[1-9][0-9]{0,14})$" ∧
    reNativeDouble = "^-?(0|[1-9][0-9]*)(\\.[0-9]+)?([eE][+-]?[0-9]{1,2})?$" ∧
    reKeywordForm = "^@[a-zA-Z]+$" ∧
    asc prefixGenDelims = [0x3a, 0x2f, 0x3f, 0x23, 0x5b, 0x5d, 0x40] := by decide

end RdfModel.C10
