/-
  C10 helper lemmas, part 3: what a successful `tryWrite` guarantees (the writer validated its document
  against the semantics), and the two cases of `write`.
-/
import RdfModel.Proofs.C10Forest
import RdfModel.Proofs.C10Flat
namespace RdfModel.Proofs.C10
open RdfModel RdfModel.Desc RdfModel.JL RdfModel.C10

variable {β : Type}

theorem renderDoc_sound (name : β → Str) (ch : Choices) (cj : Option Json) (c : Ctx) (loc : Option Json)
    (F : Forest β) (doc : Json) (h : renderDoc name ch cj c loc F = some doc) :
    ∃ n0, toRdf ch.mode11 ch.base doc = some (denForest name F n0).1 := by
  unfold renderDoc at h
  obtain ⟨n0, _, hn⟩ := List.exists_of_findSome?_eq_some h
  refine ⟨n0, ?_⟩
  cases hr : renderForest name c ch loc F n0 with
  | none => simp [hr] at hn
  | some r =>
    obtain ⟨entries, n1⟩ := r
    simp only [hr] at hn
    split at hn
    · next hc =>
      simp only [Option.some.injEq] at hn
      subst hn
      simp only [Bool.and_eq_true, decide_eq_true_eq] at hc
      exact hc.2
    · cases hn

theorem renderCtx_sound (name : β → Str) (ch : Choices) (loc : Option Json) (F : Forest β) (doc : Json)
    (h : renderCtx name ch loc F = some doc) :
    ∃ n0, toRdf ch.mode11 ch.base doc = some (denForest name F n0).1 := by
  unfold renderCtx at h
  split at h
  · cases h
  · next cj =>
    split at h
    · cases h
    · next c hc => exact renderDoc_sound name ch _ _ _ _ _ h

theorem renderWith_sound (name : β → Str) (ch : Choices) (F : Forest β) (doc : Json)
    (h : renderWith name ch F = some doc) :
    ∃ n0, toRdf ch.mode11 ch.base doc = some (denForest name F n0).1 := by
  unfold renderWith at h
  split at h
  · next d' hd => cases h; exact renderCtx_sound name ch _ _ _ hd
  · split at h
    · next d' hd => cases h; exact renderCtx_sound name ch _ _ _ hd
    · split at h
      · next d' hd => cases h; exact renderDoc_sound name ch _ _ _ _ _ hd
      · exact renderDoc_sound name ch _ _ _ _ _ h

theorem outQuad_iso (name : β → Str) (hname : Function.Injective name) (d : List (DQuad β)) :
    Spec.IsoQ (d.map (outQuad name)) d := by
  refine ⟨fun b => BN.orig (name b), ?_, List.Perm.refl _⟩
  intro a b h
  simp only [BN.orig.injEq] at h
  exact hname h

variable [DecidableEq β]

theorem tryWrite_sound (name : β → Str) (d : List (DQuad β)) (ch : Choices) (doc : Json) (F : Forest β)
    (h : tryWrite name d ch = some (doc, F)) :
    forestOK F d = true ∧ ∃ n0, toRdf ch.mode11 ch.base doc = some (denForest name F n0).1 := by
  unfold tryWrite at h
  split at h
  · next hok =>
    cases hr : renderWith name ch (chooseForest d ch) with
    | none => simp [hr] at h
    | some doc' =>
      simp only [hr, Option.map_some, Option.some.injEq, Prod.mk.injEq] at h
      obtain ⟨rfl, rfl⟩ := h
      exact ⟨hok, renderWith_sound name ch _ _ hr⟩
  · cases h

/-- Every document `write` produces denotes a dataset isomorphic to the one it was written from. -/
theorem write_denotes (name : β → Str) (hname : Function.Injective name) (hne : ∀ b, name b ≠ [])
    (d : List (DQuad β)) (hwf : WFDataset d) (ch : Choices) :
    ∃ out, toRdf ch.mode11 ch.base (write name d ch) = some out ∧ Spec.IsoQ out d := by
  unfold write
  cases ht : tryWrite name d ch with
  | none =>
    exact ⟨_, writeFlat_denotes name hne ch.mode11 ch.base d hwf, outQuad_iso name hname d⟩
  | some r =>
    obtain ⟨doc, F⟩ := r
    obtain ⟨hok, n0, hd⟩ := tryWrite_sound name d ch doc F ht
    exact ⟨_, hd, forest_iso name hname F d hok n0⟩

end RdfModel.Proofs.C10
