/-
  Helper lemmas for C12: the Go function `resolvePath` (Model.IRI.resolvePath) computes
  `removeDotSegments` of the merged path, outside the class `dotdotThenEmpty`.
  Both sides are related to the stack machine `absRun` of C12Abs.
-/
import RdfModel.Proofs.C12Abs
import RdfModel.Props.C12Defs
namespace RdfModel.Proofs.C12
open RdfModel.Spec.RFC3986 RdfModel.C12

/-! ### string primitives of the model -/

theorem cutSlash_spec : ∀ (r : Str),
    (∀ s, IRI.cutSlash r = (s, none) → r = s ∧ NoSlash s ∧ segments r = [s]) ∧
    (∀ s rest, IRI.cutSlash r = (s, some rest) → r = s ++ cSlash :: rest ∧ NoSlash s ∧ segments r = s :: segments rest) := by
  intro r
  induction r with
  | nil =>
    constructor
    · intro s h; simp [IRI.cutSlash] at h; subst h; exact ⟨rfl, by intro c hc; simp at hc, rfl⟩
    · intro s rest h; simp [IRI.cutSlash] at h
  | cons c r ih =>
    by_cases hc : c = cSlash
    · subst hc
      constructor
      · intro s h; simp [IRI.cutSlash] at h
      · intro s rest h
        simp [IRI.cutSlash] at h
        obtain ⟨h1, h2⟩ := h
        subst h1 h2
        exact ⟨rfl, by intro c hc; simp at hc, segments_cons_slash _⟩
    · have hc' : ¬ c = 0x2f := hc
      obtain ⟨s0, ss, hs1, hs2⟩ := segments_cons_ne hc r
      constructor
      · intro s h
        simp only [IRI.cutSlash, hc', if_false] at h
        injection h with h1 h2
        obtain ⟨e1, e2, e3⟩ := ih.1 (IRI.cutSlash r).1 (by rw [← h2])
        subst h1
        refine ⟨by rw [← e1], ?_, ?_⟩
        · intro x hx
          rcases List.mem_cons.mp hx with hx | hx
          · subst hx; exact hc
          · exact e2 x hx
        · rw [hs2]; rw [e3] at hs1; injection hs1 with a b; subst a b; rfl
      · intro s rest h
        simp only [IRI.cutSlash, hc', if_false] at h
        injection h with h1 h2
        obtain ⟨e1, e2, e3⟩ := ih.2 (IRI.cutSlash r).1 rest (by rw [← h2])
        subst h1
        refine ⟨by rw [List.cons_append, ← e1], ?_, ?_⟩
        · intro x hx
          rcases List.mem_cons.mp hx with hx | hx
          · subst hx; exact hc
          · exact e2 x hx
        · rw [hs2]; rw [e3] at hs1; injection hs1 with a b; subst a b; rfl

theorem lastIndexSlash_noSlash {s : Str} (h : NoSlash s) : IRI.lastIndexSlash s = none := by
  induction s with
  | nil => rfl
  | cons c r ih =>
    have hc : ¬ c = 0x2f := h c (by simp)
    have hr : NoSlash r := fun x hx => h x (by simp [hx])
    simp [IRI.lastIndexSlash, ih hr, hc]

theorem lastIndexSlash_append {s : Str} (h : NoSlash s) (a : Str) :
    IRI.lastIndexSlash (a ++ cSlash :: s) = some a.length := by
  induction a with
  | nil => simp [IRI.lastIndexSlash, lastIndexSlash_noSlash h]
  | cons c r ih => simp [IRI.lastIndexSlash, ih]

/-! ### one pass of the loop body -/

theorem rpBody_dot (dst : Str) (first : Bool) : IRI.rpBody [cDot] dst first = (dst, false) := by
  simp [IRI.rpBody]

theorem rpBody_dotdot_none {dst : Str} (first : Bool) (h : IRI.lastIndexSlash (dst.drop 1) = none) :
    IRI.rpBody [cDot, cDot] dst first = ([cSlash], true) := by
  rw [List.drop_one] at h
  simp [IRI.rpBody, h]

theorem rpBody_dotdot_some {dst : Str} (first : Bool) {i : Nat} (h : IRI.lastIndexSlash (dst.drop 1) = some i) :
    IRI.rpBody [cDot, cDot] dst first = (cSlash :: (dst.drop 1).take i, first) := by
  rw [List.drop_one] at h
  simp [IRI.rpBody, h]

theorem rpBody_reg {s : Str} (h1 : s ≠ [cDot]) (h2 : s ≠ [cDot, cDot]) (dst : Str) (first : Bool) :
    IRI.rpBody s dst first = ((if first then dst else dst ++ [cSlash]) ++ s, false) := by
  have h1' : ¬ s = [0x2e] := h1
  have h2' : ¬ s = [0x2e, 0x2e] := h2
  simp [IRI.rpBody, h1', h2']

/-! ### the simulation relation between the Go loop state and the output stack -/

/-- `Rel st dst first segs`: the Go state `(dst, first)` represents the stack `st` (top first);
    `segs` are the segments still to come (only used to exclude the deviating pattern after a pop
    on an empty stack). -/
inductive Rel : List Str → Str → Bool → List Str → Prop
  | N (st segs) : Rel st (cSlash :: joinSlash st.reverse) false segs
  | F (segs) (ok : ∀ e2 rest, segs ≠ [] :: e2 :: rest) : Rel [] [cSlash] true segs
  | M (up : List Str) (b : Str) (segs) (hb : b ≠ []) : Rel (up ++ [b]) (joinSlash (up ++ [b]).reverse) false segs

theorem dde_pat_false {segs : List Str} (h : nextEmptyNotLast segs = false) :
    ∀ e2 rest, segs ≠ [] :: e2 :: rest := by
  intro e2 rest he
  subst he
  simp [nextEmptyNotLast] at h

theorem joinSlash_rev_snoc (up : List Str) (b : Str) :
    joinSlash (up ++ [b]).reverse = cSlash :: (b ++ joinSlash up.reverse) := by
  rw [List.reverse_append]; simp [joinSlash_cons]

theorem body_rel {st : List Str} {dst : Str} {first : Bool} {s : Str} {more : List Str}
    (hst : AllNoSlash st) (hrel : Rel st dst first (s :: more))
    (hdde : ddeAux st.length (s :: more) = false)
    (hreg : first = true → s ≠ [cDot] → s ≠ [cDot, cDot] → s ≠ []) :
    Rel (absStep st s) (IRI.rpBody s dst first).1 (IRI.rpBody s dst first).2 more ∧
      ddeAux (absStep st s).length more = false := by
  by_cases h1 : s = [cDot]
  · subst h1
    have hd : ddeAux st.length more = false := by simpa [ddeAux] using hdde
    rw [rpBody_dot]
    simp only [absStep, if_true]
    refine ⟨?_, hd⟩
    cases hrel with
    | N => exact Rel.N _ _
    | F _ ok => exact Rel.N [] more
    | M up b _ hb => exact Rel.M up b more hb
  · by_cases h2 : s = [cDot, cDot]
    · subst h2
      have hd : ((st.length - 1 == 0) && nextEmptyNotLast more) = false ∧
          ddeAux (st.length - 1) more = false := by
        have : ddeAux st.length ([cDot, cDot] :: more) =
            (((st.length - 1 == 0) && nextEmptyNotLast more) || ddeAux (st.length - 1) more) := by
          simp [ddeAux]
        rw [this] at hdde
        exact Bool.or_eq_false_iff.mp hdde
      have hlen : (absStep st [cDot, cDot]).length = st.length - 1 := by simp [absStep]
      rw [hlen]
      refine ⟨?_, hd.2⟩
      simp only [absStep, show ([cDot, cDot] : Str) ≠ [cDot] from by decide, if_false, if_true]
      cases hrel with
      | N =>
        cases st with
        | nil =>
          rw [rpBody_dotdot_none _ (by rfl)]
          apply Rel.F
          apply dde_pat_false
          simpa using hd.1
        | cons top st' =>
          have htop : NoSlash top := hst top (by simp)
          have e : (cSlash :: joinSlash (top :: st').reverse).drop 1 = joinSlash st'.reverse ++ cSlash :: top := by
            rw [List.reverse_cons, joinSlash_snoc]; rfl
          rw [rpBody_dotdot_some _ (by rw [e]; exact lastIndexSlash_append htop _), e]
          simp only [List.take_left', List.tail_cons]
          exact Rel.N _ _
      | F _ ok =>
        rw [rpBody_dotdot_none _ (by rfl)]
        apply Rel.F
        apply dde_pat_false
        simpa using hd.1
      | M up b _ hb =>
        cases up with
        | nil =>
          have hbn : NoSlash b := hst b (by simp)
          have e : (joinSlash ([] ++ [b]).reverse).drop 1 = b := by simp [joinSlash_cons, joinSlash_nil]
          rw [rpBody_dotdot_none _ (by rw [e]; exact lastIndexSlash_noSlash hbn)]
          apply Rel.F
          apply dde_pat_false
          simpa using hd.1
        | cons top up' =>
          have htop : NoSlash top := hst top (by simp)
          have e : (joinSlash (top :: up' ++ [b]).reverse).drop 1 = (b ++ joinSlash up'.reverse) ++ cSlash :: top := by
            rw [show top :: up' ++ [b] = [top] ++ (up' ++ [b]) from rfl, List.reverse_append, joinSlash_append,
              joinSlash_rev_snoc]
            simp [joinSlash_cons, joinSlash_nil]
          rw [rpBody_dotdot_some _ (by rw [e]; exact lastIndexSlash_append htop _), e]
          simp only [List.take_left', List.cons_append, List.tail_cons]
          rw [← joinSlash_rev_snoc]
          exact Rel.M up' b more hb
    · have hd : ddeAux (st.length + 1) more = false := by simpa [ddeAux, h1, h2] using hdde
      rw [rpBody_reg h1 h2]
      simp only [absStep, h1, h2, if_false, List.length_cons]
      refine ⟨?_, hd⟩
      cases hrel with
      | N =>
        simp only [Bool.false_eq_true, if_false]
        have : (cSlash :: joinSlash st.reverse ++ [cSlash]) ++ s = cSlash :: joinSlash (s :: st).reverse := by
          rw [List.reverse_cons, joinSlash_snoc]; simp
        rw [this]; exact Rel.N _ _
      | F _ ok =>
        simp only [if_true]
        have hsne : s ≠ [] := hreg rfl h1 h2
        have : [cSlash] ++ s = joinSlash ([] ++ [s]).reverse := by simp [joinSlash_cons, joinSlash_nil]
        rw [this]
        exact Rel.M [] s more hsne
      | M up b _ hb =>
        simp only [Bool.false_eq_true, if_false]
        have : (joinSlash (up ++ [b]).reverse ++ [cSlash]) ++ s = joinSlash ((s :: up) ++ [b]).reverse := by
          rw [show (s :: up) ++ [b] = s :: (up ++ [b]) from rfl, List.reverse_cons, joinSlash_snoc]; simp
        rw [this]
        exact Rel.M (s :: up) b more hb

theorem rel_first_true {st : List Str} {dst : Str} {segs : List Str} (h : Rel st dst true segs) :
    ∀ e2 rest, segs ≠ [] :: e2 :: rest := by
  cases h with
  | F _ ok => exact ok

theorem allNoSlash_absStep {st : List Str} {s : Str} (hst : AllNoSlash st) (hs : NoSlash s) :
    AllNoSlash (absStep st s) := by
  unfold absStep
  split
  · exact hst
  · split
    · exact fun x hx => hst x (List.mem_of_mem_tail hx)
    · intro x hx
      rcases List.mem_cons.mp hx with h | h
      · subst h; exact hs
      · exact hst x h

/-! ### after the loop -/

/-- `if len(r) > 1 && r[1] == '/' { r = r[1:] }` -/
def strip (d : Str) : Str :=
  match d with
  | _ :: 0x2f :: _ => d.drop 1
  | _ => d

theorem strip_slash2 (c : Nat) (t : Str) : strip (c :: cSlash :: t) = cSlash :: t := rfl
theorem strip_single (c : Nat) : strip [c] = [c] := rfl
theorem strip_keep {x : Nat} (hx : x ≠ cSlash) (c : Nat) (t : Str) : strip (c :: x :: t) = c :: x :: t := by
  have hx' : ¬ x = 0x2f := hx
  unfold strip
  split
  · next h => injection h with _ h; injection h with h _; exact absurd h hx'
  · rfl

theorem rpFinish_dotty {s : Str} (h : s = [cDot] ∨ s = [cDot, cDot]) (d : Str) :
    IRI.rpFinish (d, s) = strip (d ++ [cSlash]) := by
  have h' : s = [0x2e] ∨ s = [0x2e, 0x2e] := h
  unfold IRI.rpFinish strip
  simp only [h', if_true]
  rfl

theorem rpFinish_reg {s : Str} (h1 : s ≠ [cDot]) (h2 : s ≠ [cDot, cDot]) (d : Str) :
    IRI.rpFinish (d, s) = strip d := by
  have h' : ¬ (s = [0x2e] ∨ s = [0x2e, 0x2e]) := by
    intro h; rcases h with h | h
    · exact h1 h
    · exact h2 h
  unfold IRI.rpFinish strip
  simp only [h', if_false]
  rfl

/-- a trailing dot segment: `dst += "/"`, then the double-slash fix-up -/
theorem finish_dotty {st : List Str} {dst : Str} {first : Bool} {segs : List Str}
    (hst : AllNoSlash st) (hrel : Rel st dst first segs) :
    strip (dst ++ [cSlash]) = joinSlash ([] :: st).reverse := by
  cases hrel with
  | N =>
    rw [List.reverse_cons, joinSlash_snoc]
    rcases joinSlash_shape st.reverse with h | ⟨t, h⟩
    · rw [h]; rfl
    · rw [h]; rfl
  | F _ ok => rfl
  | M up b _ hb =>
    have hbn : NoSlash b := hst b (by simp)
    rw [List.reverse_cons, joinSlash_snoc, joinSlash_rev_snoc]
    cases b with
    | nil => exact absurd rfl hb
    | cons x b' =>
      have hx : x ≠ cSlash := hbn x (by simp)
      simp only [List.cons_append]
      rw [strip_keep hx]

theorem finish_rel {st : List Str} {dst : Str} {first : Bool} {s : Str}
    (hst : AllNoSlash st) (hs : NoSlash s) (hrel : Rel st dst first [s]) :
    IRI.rpFinish ((IRI.rpBody s dst first).1, s) = joinSlash (absLast st s).reverse := by
  by_cases h1 : s = [cDot]
  · have hb := body_rel hst hrel (by subst h1; simp [ddeAux]) (fun _ h => absurd h1 h)
    rw [rpFinish_dotty (Or.inl h1), finish_dotty (allNoSlash_absStep hst hs) hb.1]
    simp [absLast, h1]
  · by_cases h2 : s = [cDot, cDot]
    · have hb := body_rel hst hrel (by subst h2; simp [ddeAux, nextEmptyNotLast]) (fun _ _ h => absurd h2 h)
      rw [rpFinish_dotty (Or.inr h2), finish_dotty (allNoSlash_absStep hst hs) hb.1]
      simp [absLast, h2]
    · rw [rpFinish_reg h1 h2, rpBody_reg h1 h2]
      simp only [absLast, absStep, h1, h2, or_self, if_false]
      cases hrel with
      | N =>
        simp only [Bool.false_eq_true, if_false]
        rw [List.reverse_cons, joinSlash_snoc]
        rcases joinSlash_shape st.reverse with h | ⟨t, h⟩
        · rw [h]; rfl
        · rw [h]
          simp only [List.cons_append, List.append_assoc]
          rw [strip_slash2]; simp
      | F _ ok =>
        simp only [if_true]
        cases s with
        | nil => rfl
        | cons x s' =>
          have hx : x ≠ cSlash := hs x (by simp)
          simp only [List.cons_append, List.nil_append]
          rw [strip_keep hx]
          simp [joinSlash_cons, joinSlash_nil]
      | M up b _ hb =>
        have hbn : NoSlash b := hst b (by simp)
        simp only [Bool.false_eq_true, if_false]
        rw [List.reverse_cons, joinSlash_snoc, joinSlash_rev_snoc]
        cases b with
        | nil => exact absurd rfl hb
        | cons x b' =>
          have hx : x ≠ cSlash := hbn x (by simp)
          simp only [List.cons_append, List.append_assoc]
          rw [strip_keep hx]
          simp

/-! ### the loop -/

theorem rpLoop_rel : ∀ (n : Nat) (r : Str) (st : List Str) (dst : Str) (first : Bool),
    r.length < n → AllNoSlash st → Rel st dst first (segments r) → ddeAux st.length (segments r) = false →
    IRI.rpFinish (IRI.rpLoop n r dst first) = joinSlash (absRun st (segments r)).reverse := by
  intro n
  induction n with
  | zero => intro r st dst first h; omega
  | succ n ih =>
    intro r st dst first hlen hst hrel hdde
    rcases hc : IRI.cutSlash r with ⟨s, o⟩
    cases o with
    | none =>
      obtain ⟨_, hs, hseg⟩ := (cutSlash_spec r).1 s hc
      rw [hseg] at hrel ⊢
      simp only [IRI.rpLoop, hc]
      exact finish_rel hst hs hrel
    | some rest =>
      obtain ⟨hr, hs, hseg⟩ := (cutSlash_spec r).2 s rest hc
      rw [hseg] at hrel hdde ⊢
      simp only [IRI.rpLoop, hc]
      cases hsr : segments rest with
      | nil => exact absurd hsr (segments_ne_nil rest)
      | cons s2 tl =>
        have hreg : first = true → s ≠ [cDot] → s ≠ [cDot, cDot] → s ≠ [] := by
          intro hf _ _ hse
          subst hf
          exact rel_first_true hrel s2 tl (by rw [hsr, hse])
        obtain ⟨hrel', hdde'⟩ := body_rel hst hrel hdde hreg
        have hl : rest.length < n := by
          have := congrArg List.length hr
          simp at this; omega
        have := ih rest (absStep st s) _ _ hl (allNoSlash_absStep hst hs) hrel' hdde'
        rw [this, hsr]
        rfl

/-! ### `resolvePath` -/

theorem uptoLastSlash_eq_dirOf (base : Str) : IRI.uptoLastSlash base = dirOf base := by
  unfold IRI.uptoLastSlash dirOf
  rcases split_at_last_slash base with h | ⟨a, s, hs, rfl⟩
  · rw [lastIndexSlash_noSlash h]
    have : NoSlash base.reverse := fun c hc => h c (by simpa using hc)
    rw [dropWhile_ns_self this]; rfl
  · rw [lastIndexSlash_append hs]
    have hr : NoSlash s.reverse := fun c hc => hs c (by simpa using hc)
    have e : (a ++ cSlash :: s).reverse = s.reverse ++ cSlash :: a.reverse := by simp
    rw [e, dropWhile_ns_append hr]
    simp [List.take_append, List.take_of_length_le]

theorem fullPath_eq_rfcFull (base ref : Str) : IRI.fullPath base ref = rfcFull base ref := by
  unfold IRI.fullPath rfcFull merge
  by_cases h1 : ref = []
  · simp [h1]
  · by_cases h2 : ref.head? = some cSlash
    · have h2' : ref.head? = some 0x2f := h2
      simp [h1, h2']
    · have h2' : ¬ ref.head? = some 0x2f := h2
      simp [h1, h2, uptoLastSlash_eq_dirOf]

theorem dirOf_head {base : Str} (hb : base.head? = some cSlash) : (dirOf base).head? = some cSlash := by
  rw [← uptoLastSlash_eq_dirOf]
  unfold IRI.uptoLastSlash
  rcases split_at_last_slash base with h | ⟨a, s, hs, rfl⟩
  · cases base with
    | nil => simp at hb
    | cons c r => simp at hb; exact absurd hb (h c (by simp))
  · rw [lastIndexSlash_append hs]
    cases a with
    | nil => simp
    | cons c a' => simp at hb ⊢; exact hb

theorem rfcFull_head {base : Str} (hb : base.head? = some cSlash) (ref : Str) :
    (rfcFull base ref).head? = some cSlash := by
  unfold rfcFull merge
  by_cases h1 : ref = []
  · simp [h1, hb]
  · by_cases h2 : ref.head? = some cSlash
    · simp [h1, h2]
    · simp only [h1, h2, if_false, Bool.false_eq_true, false_and]
      have := dirOf_head hb
      cases hd : dirOf base with
      | nil => rw [hd] at this; simp at this
      | cons c t => rw [hd] at this; simpa using this

theorem resolvePath_abs (r : Str) (base ref : Str) (hf : IRI.fullPath base ref = cSlash :: r)
    (hk : dotdotThenEmpty (cSlash :: r) = false) :
    IRI.resolvePath base ref = removeDotSegments (cSlash :: r) := by
  unfold IRI.resolvePath
  simp only [hf]
  rw [if_neg (by simp)]
  have hdde : ddeAux 0 (segments r) = false := by simpa [dotdotThenEmpty] using hk
  have h0 : IRI.rpLoop ((cSlash :: r).length + 1) (cSlash :: r) [0x2f] true
      = IRI.rpLoop (r.length + 1) r [cSlash] false := by
    simp [IRI.rpLoop, IRI.cutSlash, IRI.rpBody]
  rw [h0, rpLoop_rel (r.length + 1) r [] [cSlash] false (by omega) (by intro s hs; simp at hs)
    (Rel.N [] _) hdde, rds_abs]

end RdfModel.Proofs.C12
