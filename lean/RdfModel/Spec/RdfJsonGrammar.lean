/-
  RdfModel.Spec.RdfJsonGrammar — an independent recogniser for RDF/JSON documents at the token
  level, written from the W3C note "RDF 1.1 JSON Alternate Serialization (RDF/JSON)", §3:

      { "S" : { "P" : [ O , … ] , … } , … }

  S: subject key (IRI or `_:label`), P: predicate IRI, O: an object with the members
    type      required, one of "uri", "literal", "bnode"
    value     required (for "bnode": `_:label`)
    lang      optional, literals only, "if supplied it must not be empty"
    datatype  optional, literals only
  every member at most once, `lang` and `datatype` not together; members, array elements and
  keys are separated by exactly one comma (strict JSON: no leading, trailing or doubled commas),
  all member values are strings.

  Unlike the decoder model this recogniser is strict about separators and about the shape of
  object records; it shares only the token type with `Model/RdfJson.lean`.
-/
import RdfModel.Model.RdfJson
namespace RdfModel.Spec.RJG
open RdfModel RdfModel.RJ

/-- Members of an object record seen so far. -/
structure Rec where
  type : Option (List Nat) := none
  value : Option (List Nat) := none
  lang : Option (List Nat) := none
  datatype : Option (List Nat) := none
  deriving Repr, DecidableEq, Inhabited

def sType : List Nat := [0x74, 0x79, 0x70, 0x65]
def sValue : List Nat := [0x76, 0x61, 0x6c, 0x75, 0x65]
def sLang : List Nat := [0x6c, 0x61, 0x6e, 0x67]
def sDatatype : List Nat := [0x64, 0x61, 0x74, 0x61, 0x74, 0x79, 0x70, 0x65]
def sUri : List Nat := [0x75, 0x72, 0x69]
def sLiteral : List Nat := [0x6c, 0x69, 0x74, 0x65, 0x72, 0x61, 0x6c]
def sBnode : List Nat := [0x62, 0x6e, 0x6f, 0x64, 0x65]

/-- Add a member; `none` = unknown key or duplicate. -/
def Rec.add (r : Rec) (key v : List Nat) : Option Rec :=
  if key = sType then (if r.type.isNone then some { r with type := some v } else none)
  else if key = sValue then (if r.value.isNone then some { r with value := some v } else none)
  else if key = sLang then (if r.lang.isNone then some { r with lang := some v } else none)
  else if key = sDatatype then (if r.datatype.isNone then some { r with datatype := some v } else none)
  else none

def startsWithBN : List Nat → Bool
  | 0x5f :: 0x3a :: _ => true
  | _ => false

/-- The complete record is a legal RDF/JSON object. -/
def Rec.ok (r : Rec) : Bool :=
  match r.type, r.value with
  | some ty, some v =>
    if ty = sLiteral then
      (match r.lang with | some l => !l.isEmpty && r.datatype.isNone | none => true)
    else if ty = sUri then r.lang.isNone && r.datatype.isNone
    else if ty = sBnode then r.lang.isNone && r.datatype.isNone && startsWithBN v
    else false
  | _, _ => false

inductive St where
  | start                -- `{`
  | subjFirst            -- `}` or a subject key
  | subjKey              -- a subject key (after `,`)
  | subjColon | subjOpen
  | predFirst | predKey | predColon | predOpen
  | objFirst             -- `]` or `{`
  | objNext              -- `{` (after `,`)
  | memKey (r : Rec)     -- a member name
  | memColon (r : Rec) (key : List Nat)
  | memValue (r : Rec) (key : List Nat)
  | memAfter (r : Rec)   -- `,` or `}`
  | objAfter             -- `,` or `]`
  | predAfter            -- `,` or `}`
  | subjAfter            -- `,` or `}`
  | done
  deriving Repr, DecidableEq, Inhabited

def step : St → Tok → Option St
  | .start, .beginObject => some .subjFirst
  | .subjFirst, .endObject => some .done
  | .subjFirst, .str _ => some .subjColon
  | .subjKey, .str _ => some .subjColon
  | .subjColon, .nameSep => some .subjOpen
  | .subjOpen, .beginObject => some .predFirst
  | .predFirst, .endObject => some .subjAfter
  | .predFirst, .str _ => some .predColon
  | .predKey, .str _ => some .predColon
  | .predColon, .nameSep => some .predOpen
  | .predOpen, .beginArray => some .objFirst
  | .objFirst, .endArray => some .predAfter
  | .objFirst, .beginObject => some (.memKey {})
  | .objNext, .beginObject => some (.memKey {})
  | .memKey r, .str k => some (.memColon r k)
  | .memColon r k, .nameSep => some (.memValue r k)
  | .memValue r k, .str v => (r.add k v).map .memAfter
  | .memAfter r, .valueSep => some (.memKey r)
  | .memAfter r, .endObject => if r.ok then some .objAfter else none
  | .objAfter, .valueSep => some .objNext
  | .objAfter, .endArray => some .predAfter
  | .predAfter, .valueSep => some .predKey
  | .predAfter, .endObject => some .subjAfter
  | .subjAfter, .valueSep => some .subjKey
  | .subjAfter, .endObject => some .done
  | _, _ => none

def acceptsFrom : St → List Tok → Bool
  | st, [] => st = .done
  | st, t :: rest =>
    match step st t with
    | none => false
    | some st' => acceptsFrom st' rest

/-- The token list is a complete RDF/JSON document. -/
def accepts (toks : List Tok) : Bool := acceptsFrom .start toks

end RdfModel.Spec.RJG
