/-
  Property C17 — resource descriptions built from triples flatten back to the same graph
  (theorems only; helper lemmas live in RdfModel/Proofs/C17*.lean).

  Model: RdfModel/Model/Description.lean (`build`, `exportResources`, `newTriplesList`, `dbuild`, …),
  the code the driver runs. `Spec.Iso`/`Spec.IsoQ`: RdfModel/Spec/GraphIso.lean.

  Two versions of the export are modelled (the harness records which one /repo currently behaves like;
  they coincide on inputs satisfying `Acyclic1`):
  * the code BEFORE patch `fix-c17-export-cycles` (`exportResources`, …). For it the full statement
    (`flatten_export_all`, `export_terminates_all`, `dataset_flatten_export_all`) is FALSE; the three
    witnesses below prove the negations on the model, and the harness replays them on the Go code. What
    is proved for all inputs is the statement under the decidable shape hypotheses `Acyclic1` (no cycle
    consisting solely of once-referenced blank nodes, needed only with `Inline`) and
    `NoSharedAnonymized` (cross-graph), for all four option combinations and every map iteration order;
  * the code AFTER the patch (`exportResourcesV`, …): `flatten_export_repaired` is the FULL single-graph
    statement with no hypothesis, `export_terminates_repaired` is unconditional; the dataset statement
    still needs `NoSharedAnonymized` (`not_dataset_flatten_export_all_repaired`).
-/
import RdfModel.Props.C17Defs
import RdfModel.Spec.GraphIso
import RdfModel.Proofs.C17
namespace RdfModel.C17
open RdfModel RdfModel.Desc RdfModel.Spec

variable {β : Type} [DecidableEq β]

/-! ## the shape hypothesis -/

/-- `Acyclic1` (the decidable climb check) says exactly: there is no closed walk all of whose nodes are
    blank nodes referenced exactly once. -/
theorem acyclic1_iff_no_cycle1 (T : List (Triple β)) : Acyclic1 T ↔ ¬ ∃ c, Cycle1 T c :=
  Proofs.C17.acyclic1_iff T

/-! ## termination -/

/-- Under `Acyclic1` (needed only with `Inline`), `ExportResource(s, opts)` — hence
    `ExportResourceStatements` and every element of `ExportResources` — returns for every subject `s`,
    with a call stack no deeper than `|T|+1` frames. -/
theorem export_terminates_partial (T : List (Triple β)) (opts : Opts) (h : opts.inline = true → Acyclic1 T)
    (s : Term β) : ((build T).exportResource opts (T.length + 1) s).isSome := by
  unfold Builder.exportResource
  rw [Option.isSome_map]
  exact Proofs.C17.export_isSome T opts h s

/-- The fuel only bounds the depth: once a result exists, more fuel gives the same result. -/
theorem export_fuel_irrelevant (B : Builder β) (opts : Opts) (k k' : Nat) (hk : k ≤ k') (s : Term β)
    (r : Resource β) (h : B.exportResource opts k s = some r) : B.exportResource opts k' s = some r :=
  Proofs.C17.exportResource_mono_le B opts hk h

/-- Divergence: with `Inline`, the export of any node on a cycle of once-referenced blank nodes exceeds
    every depth bound (Go: unbounded recursion, fatal stack overflow). -/
theorem export_diverges_of_cycle (T : List (Triple β)) (opts : Opts) (hi : opts.inline = true)
    (c : List β) (hc : Cycle1 T c) (b : β) (hb : b ∈ c) (fuel : Nat) :
    (build T).exportResource opts fuel (Term.bnode b) = none := by
  unfold Builder.exportResource
  rw [Proofs.C17.export_diverges_on_cycle T opts hi c hc fuel b hb]
  rfl

/-- the witness `{_:a p _:a}` -/
def selfLoop : List (Triple Nat) := [⟨Term.bnode 0, [112], Term.bnode 0⟩]

theorem export_diverges_witness (useAnon : Bool) (fuel : Nat) :
    (build selfLoop).exportResource ⟨useAnon, true⟩ fuel (Term.bnode 0) = none :=
  export_diverges_of_cycle selfLoop ⟨useAnon, true⟩ rfl [0]
    ⟨0, [], rfl, by decide, ⟨⟨[112], by decide⟩, trivial⟩⟩ 0 (by simp) fuel

/-- "Building never recurses without bound", full strength: FALSE today (see `not_export_terminates_all`). -/
def export_terminates_all : Prop :=
  ∀ (T : List (Triple Nat)) (opts : Opts) (s : Term Nat), ∃ fuel, ((build T).exportResource opts fuel s).isSome

theorem not_export_terminates_all : ¬ export_terminates_all := by
  intro h
  obtain ⟨fuel, hf⟩ := h selfLoop ⟨true, true⟩ (Term.bnode 0)
  rw [export_diverges_witness true fuel] at hf
  cases hf

/-! ## one graph -/

/-- C17 for one graph, all four option combinations, every iteration order `ord` of the subject map and
    every state `n` of the blank node factory: the export terminates and the flattening of the exported
    resources is isomorphic to the input — a blank-node renaming that is an injective function maps
    the input onto the output as a multiset (nothing dropped, nothing duplicated, no two nodes merged,
    none split). Hypothesis: `Acyclic1 T` when `Inline` is set. -/
theorem flatten_export_partial (T : List (Triple β)) (opts : Opts) (ord : List (Term β))
    (hord : ord.Perm (build T).subjects) (h : opts.inline = true → Acyclic1 T) (n : Nat) :
    ∃ rs, (build T).exportResources opts ord (T.length + 1) = some rs ∧ Iso (newTriplesList rs n).1 T :=
  Proofs.C17.flatten_export T opts ord hord h n

/-- The full statement of C17 for one graph (no shape hypothesis). FALSE today: `not_flatten_export_all`. -/
def flatten_export_all : Prop :=
  ∀ (T : List (Triple Nat)) (opts : Opts) (ord : List (Term Nat)), ord.Perm (build T).subjects → ∀ n,
    ∃ rs, (build T).exportResources opts ord (T.length + 1) = some rs ∧ Iso (newTriplesList rs n).1 T

/-- the witness `{_:a p _:c . _:c p _:a}` -/
def twoCycle : List (Triple Nat) := [⟨Term.bnode 0, [112], Term.bnode 1⟩, ⟨Term.bnode 1, [112], Term.bnode 0⟩]

/-- With `Inline`, `ExportResources` yields nothing at all for the two-node cycle, whatever the iteration
    order and the depth bound: both triples are dropped. -/
theorem two_cycle_dropped (useAnon : Bool) (ord : List (Term Nat)) (hord : ord.Perm (build twoCycle).subjects)
    (fuel : Nat) : (build twoCycle).exportResources ⟨useAnon, true⟩ ord fuel = some [] := by
  have hroots : (build twoCycle).roots ⟨useAnon, true⟩ ord = [] := by
    unfold Builder.roots
    rw [List.filter_eq_nil_iff]
    intro s hs
    have hs' : s ∈ (build twoCycle).subjects := hord.mem_iff.1 hs
    have : (build twoCycle).subjects = [Term.bnode 0, Term.bnode 1] := by decide
    rw [this] at hs'
    simp only [List.mem_cons, List.not_mem_nil, or_false] at hs'
    rcases hs' with rfl | rfl <;> cases useAnon <;> decide
  unfold Builder.exportResources
  rw [hroots]
  rfl

theorem not_flatten_export_all : ¬ flatten_export_all := by
  intro h
  obtain ⟨rs, hrs, σ, _, hp⟩ := h twoCycle ⟨true, true⟩ _ (List.Perm.refl _) 0
  rw [two_cycle_dropped true _ (List.Perm.refl _)] at hrs
  cases hrs
  have := hp.length_eq
  simp [newTriplesList, twoCycle] at this

/-! ## datasets -/

/-- C17 for datasets (one builder per graph name): for every iteration order of the graph map (`gord`)
    and of each graph's subject map (`sord`), the flattened export is isomorphic to the input quads
    (graph names renamed by the same `σ`). Hypotheses: `Acyclic1` per graph when `Inline` is set, and
    no blank node that one graph's export anonymizes occurs in another graph or as a graph name. -/
theorem dataset_flatten_export_partial (Q : List (DQuad β)) (opts : Opts) (gord : List (Option (Term β)))
    (sord : Option (Term β) → List (Term β))
    (hg : gord.Perm (dbuild Q).graphNames)
    (hs : ∀ g ∈ gord, (sord g).Perm ((dbuild Q).builder g).subjects)
    (hac : opts.inline = true → ∀ g, Acyclic1 (graphTriples Q g))
    (hsh : NoSharedAnonymized Q opts) (n : Nat) :
    ∃ rs, (dbuild Q).exportResources opts gord sord (Q.length + 1) = some rs ∧
      IsoQ (newQuadsList rs n).1 Q :=
  Proofs.C17.dataset_flatten_export Q opts gord sord hg hs hac hsh n

/-- The dataset statement without the cross-graph hypothesis. FALSE today: `not_dataset_flatten_export_all`. -/
def dataset_flatten_export_all : Prop :=
  ∀ (Q : List (DQuad Nat)) (opts : Opts) (gord : List (Option (Term Nat))) (sord : Option (Term Nat) → List (Term Nat)),
    gord.Perm (dbuild Q).graphNames → (∀ g ∈ gord, (sord g).Perm ((dbuild Q).builder g).subjects) →
    (opts.inline = true → ∀ g, Acyclic1 (graphTriples Q g)) → ∀ n,
    ∃ rs, (dbuild Q).exportResources opts gord sord (Q.length + 1) = some rs ∧ IsoQ (newQuadsList rs n).1 Q

/-- the witness: `<1> p _:b .` in the default graph, `_:b p <2> .` in graph `<9>` -/
def crossGraph : List (DQuad Nat) :=
  [⟨⟨Term.iri [1], [112], Term.bnode 0⟩, none⟩, ⟨⟨Term.bnode 0, [112], Term.iri [2]⟩, some (Term.iri [9])⟩]

/-- what the dataset export of `crossGraph` flattens to (default options, insertion order): `_:b` has
    become two different fresh nodes -/
theorem cross_graph_split :
    ((dbuild crossGraph).exportResources Opts.default (dbuild crossGraph).graphNames
        (fun g => ((dbuild crossGraph).builder g).subjects) 3).map (fun rs => (newQuadsList rs 0).1) =
      some [⟨⟨Term.iri [1], [112], Term.bnode (BN.fresh 0)⟩, none⟩,
            ⟨⟨Term.bnode (BN.fresh 1), [112], Term.iri [2]⟩, some (Term.iri [9])⟩] := by
  decide

theorem not_dataset_flatten_export_all : ¬ dataset_flatten_export_all := by
  intro h
  obtain ⟨rs, hrs, σ, _, hp⟩ := h crossGraph Opts.default (dbuild crossGraph).graphNames
    (fun g => ((dbuild crossGraph).builder g).subjects) (List.Perm.refl _) (fun _ _ => List.Perm.refl _)
    (fun _ g => by
      have : ∀ g, g = none ∨ g = some (Term.iri [9]) ∨ graphTriples crossGraph g = [] := by
        intro g
        by_cases h1 : g = none
        · exact Or.inl h1
        · by_cases h2 : g = some (Term.iri [9])
          · exact Or.inr (Or.inl h2)
          · right; right
            have e1 : ¬ (none = g) := fun e => h1 e.symm
            have e2 : ¬ (some (Term.iri [9]) = g) := fun e => h2 e.symm
            simp [graphTriples, crossGraph, e1, e2]
      rcases this g with rfl | rfl | h3
      · decide
      · decide
      · rw [h3]; intro t ht; cases ht) 0
  have hc := cross_graph_split
  have hrs' : (dbuild crossGraph).exportResources Opts.default (dbuild crossGraph).graphNames
      (fun g => ((dbuild crossGraph).builder g).subjects) 3 = some rs := hrs
  rw [hrs'] at hc
  simp only [Option.map_some, Option.some.injEq] at hc
  rw [hc] at hp
  have h1 := hp.mem_iff (a := ⟨⟨Term.iri [1], [112], Term.bnode (BN.fresh 0)⟩, none⟩)
  have h2 := hp.mem_iff (a := ⟨⟨Term.bnode (BN.fresh 1), [112], Term.iri [2]⟩, some (Term.iri [9])⟩)
  simp [crossGraph, DQuad.map, Triple.map, Term.map] at h1 h2
  rw [← h1] at h2
  cases h2

/-! ## the export after patch `fix-c17-export-cycles` (model functions with suffix `V`)

  The repaired Go code keeps a set of the blank nodes it has described and makes a second pass over the
  subject map. For it the single-graph property holds at FULL strength — no shape hypothesis — and the
  export always terminates. The cross-graph defect of the dataset builder is untouched by the patch. -/

/-- Repaired code: `ExportResource(s, opts)` returns for every input, every `s`, within depth `|T|+1`. -/
theorem export_terminates_repaired (T : List (Triple β)) (opts : Opts) (s : Term β) :
    ((build T).exportResourceV1 opts (T.length + 1) s).isSome := by
  unfold Builder.exportResourceV1 Builder.exportResourceV
  rw [Option.isSome_map, Option.isSome_map]
  exact Proofs.C17.exportV_isSome T opts (T.length + 1) (Nat.le_refl _) s []

/-- Repaired code, one graph, FULL statement of C17: for every list of triples, every option value, every
    pair of iteration orders of the two loops and every state of the blank node factory, the export
    terminates and its flattening is isomorphic to the input. -/
theorem flatten_export_repaired (T : List (Triple β)) (opts : Opts) (ord1 ord2 : List (Term β))
    (hord1 : ord1.Perm (build T).subjects) (hord2 : ord2.Perm (build T).subjects) (n : Nat) :
    ∃ rs, (build T).exportResourcesV opts ord1 ord2 (T.length + 1) = some rs ∧
      Iso (newTriplesList rs n).1 T :=
  Proofs.C17.flatten_exportV T opts ord1 ord2 hord1 hord2 n

/-- Repaired code, datasets: only the cross-graph hypothesis remains. -/
theorem dataset_flatten_export_repaired_partial (Q : List (DQuad β)) (opts : Opts) (gord : List (Option (Term β)))
    (sord1 sord2 : Option (Term β) → List (Term β))
    (hg : gord.Perm (dbuild Q).graphNames)
    (hs1 : ∀ g ∈ gord, (sord1 g).Perm ((dbuild Q).builder g).subjects)
    (hs2 : ∀ g ∈ gord, (sord2 g).Perm ((dbuild Q).builder g).subjects)
    (hsh : NoSharedAnonymized Q opts) (n : Nat) :
    ∃ rs, (dbuild Q).exportResourcesV opts gord sord1 sord2 (Q.length + 1) = some rs ∧
      IsoQ (newQuadsList rs n).1 Q :=
  Proofs.C17.dataset_flatten_exportV Q opts gord sord1 sord2 hg hs1 hs2 hsh n

/-- The dataset statement for the repaired code without the cross-graph hypothesis. Still FALSE. -/
def dataset_flatten_export_all_repaired : Prop :=
  ∀ (Q : List (DQuad Nat)) (opts : Opts) (gord : List (Option (Term Nat)))
    (sord1 sord2 : Option (Term Nat) → List (Term Nat)),
    gord.Perm (dbuild Q).graphNames → (∀ g ∈ gord, (sord1 g).Perm ((dbuild Q).builder g).subjects) →
    (∀ g ∈ gord, (sord2 g).Perm ((dbuild Q).builder g).subjects) → ∀ n,
    ∃ rs, (dbuild Q).exportResourcesV opts gord sord1 sord2 (Q.length + 1) = some rs ∧ IsoQ (newQuadsList rs n).1 Q

theorem cross_graph_split_repaired :
    ((dbuild crossGraph).exportResourcesV Opts.default (dbuild crossGraph).graphNames
        (fun g => ((dbuild crossGraph).builder g).subjects) (fun g => ((dbuild crossGraph).builder g).subjects) 3).map
        (fun rs => (newQuadsList rs 0).1) =
      some [⟨⟨Term.iri [1], [112], Term.bnode (BN.fresh 0)⟩, none⟩,
            ⟨⟨Term.bnode (BN.fresh 1), [112], Term.iri [2]⟩, some (Term.iri [9])⟩] := by
  decide

theorem not_dataset_flatten_export_all_repaired : ¬ dataset_flatten_export_all_repaired := by
  intro h
  obtain ⟨rs, hrs, σ, _, hp⟩ := h crossGraph Opts.default (dbuild crossGraph).graphNames
    (fun g => ((dbuild crossGraph).builder g).subjects) (fun g => ((dbuild crossGraph).builder g).subjects)
    (List.Perm.refl _) (fun _ _ => List.Perm.refl _) (fun _ _ => List.Perm.refl _) 0
  have hc := cross_graph_split_repaired
  have hrs' : (dbuild crossGraph).exportResourcesV Opts.default (dbuild crossGraph).graphNames
      (fun g => ((dbuild crossGraph).builder g).subjects) (fun g => ((dbuild crossGraph).builder g).subjects) 3 =
      some rs := hrs
  rw [hrs'] at hc
  simp only [Option.map_some, Option.some.injEq] at hc
  rw [hc] at hp
  have h1 := hp.mem_iff (a := ⟨⟨Term.iri [1], [112], Term.bnode (BN.fresh 0)⟩, none⟩)
  have h2 := hp.mem_iff (a := ⟨⟨Term.bnode (BN.fresh 1), [112], Term.iri [2]⟩, some (Term.iri [9])⟩)
  simp [crossGraph, DQuad.map, Triple.map, Term.map] at h1 h2
  rw [← h1] at h2
  cases h2

/-- the former witnesses, on the repaired export: nothing is dropped, nothing diverges -/
example : ((build twoCycle).exportResourcesV Opts.default (build twoCycle).subjects (build twoCycle).subjects 3).map
    (fun rs => (newTriplesList rs 0).1) =
    some [⟨Term.bnode (BN.fresh 0), [112], Term.bnode (BN.orig 0)⟩, ⟨Term.bnode (BN.orig 0), [112], Term.bnode (BN.fresh 0)⟩] := by
  decide
example : ((build selfLoop).exportResourceV1 Opts.default 2 (Term.bnode 0)).isSome = true := by decide

/-! ## histories on one builder (repaired export)

  Several calls on the same `ResourceListBuilder`: `Add`, complete exports, exports the consumer abandons
  after `k` resources (a `break` out of the `iter.Seq`, `ToResourceWriter` returning on a writer
  error), with any options. In the model — as in the repaired Go code, where the `inlined` set is a local
  of the iterator function — an export leaves no trace on the builder. The harness runs such histories
  on the Go code (`desc.hist`, `oracle.hist`) and compares with `Builder.run`. -/

/-- the builder after any history is the builder of the triples added, in order -/
theorem history_state (h : List (HStep β)) : Builder.empty.run h = build (addedBy h) :=
  Proofs.C17.run_empty h

/-- An export depends on nothing but the triples added before it: two histories that added the same
    triples — whatever complete, abandoned or single-resource exports they contain, with whatever options,
    iteration orders and cut-off points — give the same result for every later export. -/
theorem export_independent_of_history (h h' : List (HStep β)) (hadd : addedBy h = addedBy h')
    (opts : Opts) (ord1 ord2 : List (Term β)) (fuel : Nat) (take : Option Nat) :
    (Builder.empty.run h).exportResourcesVTake opts ord1 ord2 fuel take =
      (Builder.empty.run h').exportResourcesVTake opts ord1 ord2 fuel take := by
  rw [history_state, history_state, hadd]

/-- an abandoned export hands over a prefix of what the complete export hands over -/
theorem abandoned_export_prefix (B : Builder β) (opts : Opts) (ord1 ord2 : List (Term β)) (fuel k : Nat) :
    B.exportResourcesVTake opts ord1 ord2 fuel (some k) =
      (B.exportResourcesVTake opts ord1 ord2 fuel none).map (List.take k) := by
  simp [Builder.exportResourcesVTake, Option.map_map, Function.comp_def]

/-- FULL statement of C17 after an arbitrary history: the complete export that follows is isomorphic to
    all triples added so far. -/
theorem flatten_export_after_history (h : List (HStep β)) (opts : Opts) (ord1 ord2 : List (Term β))
    (hord1 : ord1.Perm (Builder.empty.run h).subjects) (hord2 : ord2.Perm (Builder.empty.run h).subjects)
    (n : Nat) :
    ∃ rs, (Builder.empty.run h).exportResourcesVTake opts ord1 ord2 ((addedBy h).length + 1) none = some rs ∧
      Iso (newTriplesList rs n).1 (addedBy h) := by
  rw [history_state] at hord1 hord2 ⊢
  obtain ⟨rs, hrs, hiso⟩ := flatten_export_repaired (addedBy h) opts ord1 ord2 hord1 hord2 n
  exact ⟨rs, by simp [Builder.exportResourcesVTake, hrs], hiso⟩

/-- a history with an abandoned export between two `Add`s (the shape of seeded defect C17r2-1): the
    complete export that follows yields both resources, the once-referenced `_:0` inlined -/
example : ((Builder.empty.run
      [HStep.add [⟨Term.iri [1], [112], Term.bnode 0⟩, ⟨Term.bnode 0, [112], Term.iri [2]⟩],
       HStep.exportRs Opts.default [Term.iri [1], Term.bnode 0] [Term.iri [1], Term.bnode 0] (some 0),
       HStep.add [⟨Term.iri [3], [112], Term.bnode 1⟩]]).exportResourcesVTake Opts.default
        [Term.iri [1], Term.bnode 0, Term.iri [3]] [Term.iri [1], Term.bnode 0, Term.iri [3]] 4 none).map
      (fun rs => (rs.length, (newTriplesList rs 0).1.length)) = some (2, 3) := by
  decide

/-! ## rdfdescriptionutil.NewObjectValueListStatement -/

omit [DecidableEq β] in
/-- The list statement for `v :: vs` under subject `x` flattens to the RDF collection
    `listTriples`: one fresh cell per value, `rdf:first` the value, `rdf:rest` the next cell, the last
    `rdf:rest` is `rdf:nil`, plus the link `x p firstCell`; the factory advances by the number of values. -/
theorem list_statement_flatten (x : Term (BN β)) (p : List Nat) (v : Term β) (vs : List (Term β)) (n : Nat) :
    Stmt.newTriples x (listStatement p (v :: vs)) n =
      (Proofs.C17.listTriples n v vs ++ [⟨x, p, Term.bnode (BN.fresh n)⟩], n + 1 + vs.length) :=
  Proofs.C17.listStatement_flatten x p v vs n

omit [DecidableEq β] in
/-- the empty list is the object `rdf:nil` -/
theorem list_statement_nil (x : Term (BN β)) (p : List Nat) (n : Nat) :
    Stmt.newTriples x (listStatement (β := β) p []) n = ([⟨x, p, Term.iri rdfNil⟩], n) :=
  Proofs.C17.listStatement_nil_flatten x p n

/-! ## non-vacuity -/

/-- a graph with nesting three deep, a shared node, a node referenced once and never described, and a
    legal cycle (one of its nodes is referenced twice) satisfies `Acyclic1` -/
def sample : List (Triple Nat) :=
  [⟨Term.iri [1], [112], Term.bnode 0⟩, ⟨Term.bnode 0, [112], Term.bnode 1⟩, ⟨Term.bnode 1, [112], Term.bnode 2⟩,
   ⟨Term.bnode 2, [113], Term.lit [120] xsdString none⟩,
   ⟨Term.iri [1], [113], Term.bnode 3⟩, ⟨Term.iri [2], [113], Term.bnode 3⟩, ⟨Term.bnode 3, [112], Term.bnode 4⟩,
   ⟨Term.bnode 5, [112], Term.bnode 6⟩, ⟨Term.bnode 6, [112], Term.bnode 5⟩, ⟨Term.iri [2], [112], Term.bnode 5⟩]

example : Acyclic1 sample := by decide
example : ¬ Acyclic1 twoCycle := by decide
example : ¬ Acyclic1 selfLoop := by decide
example : Cycle1 twoCycle [0, 1] :=
  ⟨0, [1], rfl, by decide, ⟨⟨[112], by decide⟩, ⟨[112], by decide⟩, trivial⟩⟩

/-- the hypotheses of `flatten_export_partial` hold for `sample` with the default options and insertion order -/
example : ∃ rs, (build sample).exportResources Opts.default (build sample).subjects (sample.length + 1) = some rs ∧
    Iso (newTriplesList rs 0).1 sample :=
  flatten_export_partial sample Opts.default _ (List.Perm.refl _) (fun _ => by decide) 0

/-- a dataset in which a blank node is shared between two graphs without being anonymized in either
    (referenced twice in each) satisfies the cross-graph hypothesis -/
def sampleQ : List (DQuad Nat) :=
  [⟨⟨Term.iri [1], [112], Term.bnode 0⟩, none⟩, ⟨⟨Term.iri [2], [112], Term.bnode 0⟩, none⟩,
   ⟨⟨Term.iri [1], [112], Term.bnode 0⟩, some (Term.iri [9])⟩, ⟨⟨Term.iri [2], [112], Term.bnode 0⟩, some (Term.iri [9])⟩,
   ⟨⟨Term.iri [1], [112], Term.bnode 1⟩, some (Term.bnode 7)⟩, ⟨⟨Term.bnode 1, [112], Term.iri [3]⟩, some (Term.bnode 7)⟩]

example : NoSharedAnonymized sampleQ Opts.default := by decide
example : ¬ NoSharedAnonymized crossGraph Opts.default := by decide

end RdfModel.C17
