package vh

// Keyword-colliding prefix labels for the Turtle / TriG scanners (builder-ttlmiss, round 3e).
//
// The statement-level scan functions of encoding/turtle and encoding/trig recognise keywords by a ladder of
// one-rune look-aheads (`r1 != 'R' && r1 != 'r'` … ) and fall back to "this is a prefixed name" by pushing the
// consumed runes back.  Every rung of every ladder is a separate hand-written BacktrackRunes call, so every rung
// needs a prefix label that leaves the ladder exactly there.  The family below is derived from the keyword list,
// not hand-picked:
//
//	stems(kw)  = every proper prefix of kw of length >= 1, kw itself, kw + one more PN_CHARS rune ('x')
//	label      = stem + next, next ∈ { "" (the ':' follows), the letter that continues the keyword,
//	             a letter that does not ('z': in none of the keywords), a digit, "-", ".x" }
//	spellings  = lower, UPPER, Title, aLtErNaTiNg for the keywords the scanners accept in any case
//	             (PREFIX, BASE, GRAPH); `a`, `true`, `false` are matched in lower case only.
//
// Every label is a valid PN_PREFIX.  KwSiblings gives, for a label, the valid labels one edit away that a
// look-ahead which pushes back one rune too few / one rune twice would read instead; binding them to different
// namespaces turns a lost or doubled rune into a wrong IRI instead of an `unknown prefix` error.

import (
	"sort"
	"strings"
)

// ScanKeyword: a keyword a scan function looks ahead for at a place where a prefixed name may start.
type ScanKeyword struct {
	Word    string
	AnyCase bool   // the ladder accepts either case for every letter
	Where   string // which scan function
}

// ScanKeywords: read off encoding/turtle/decoder_scan_statement.go (reader_scanStatement: 'B','b' / 'P','p'),
// encoding/trig/decoder_scan_trigDoc.go (reader_scan_trigDoc: 'B','b' / 'P','p' / 'G','g'),
// decoder_scan_predicateObjectList.go ('a') and decoder_scan_object.go ('t' / 'f') of both packages.
// `@prefix` / `@base` are introduced by '@', which cannot start a prefixed name.
var ScanKeywords = []ScanKeyword{
	{"prefix", true, "statement start (Turtle and TriG)"},
	{"base", true, "statement start (Turtle and TriG)"},
	{"graph", true, "block start (TriG)"},
	{"a", false, "verb"},
	{"true", false, "object"},
	{"false", false, "object"},
}

// KwLabel: one label of the family with its derivation (histogram keys).
type KwLabel struct {
	Label   string
	Keyword string // lower-case keyword
	StemLen int    // runes of the keyword matched before the label leaves the ladder (len(kw)+1 = keyword + 'x')
	Next    string // "colon", "cont", "other", "digit", "dash", "dot"
}

func kwSpellings(s string, anyCase bool) []string {
	if !anyCase {
		return []string{s}
	}
	alt := []byte(s)
	for i := range alt {
		if i%2 == 1 && alt[i] >= 'a' && alt[i] <= 'z' {
			alt[i] -= 32
		}
	}
	title := strings.ToUpper(s[:1]) + s[1:]
	out := []string{s, strings.ToUpper(s), title, string(alt)}
	seen := map[string]bool{}
	var u []string
	for _, x := range out {
		if !seen[x] {
			seen[x] = true
			u = append(u, x)
		}
	}
	return u
}

// KeywordLabels: the whole family, deterministic order, no duplicates.
func KeywordLabels() []KwLabel {
	seen := map[string]bool{}
	var out []KwLabel
	add := func(l KwLabel) {
		if !seen[l.Label] && ValidPNPrefixASCII(l.Label) {
			seen[l.Label] = true
			out = append(out, l)
		}
	}
	for _, kw := range ScanKeywords {
		w := kw.Word
		for n := 1; n <= len(w)+1; n++ {
			stem := w + "x"
			if n <= len(w) {
				stem = w[:n]
			}
			for _, sp := range kwSpellings(stem, kw.AnyCase) {
				add(KwLabel{sp, w, n, "colon"})
				if n < len(w) {
					c := w[n : n+1]
					add(KwLabel{sp + c, w, n, "cont"})
					if kw.AnyCase {
						add(KwLabel{sp + strings.ToUpper(c), w, n, "cont"})
					}
				}
				add(KwLabel{sp + "z", w, n, "other"})
				add(KwLabel{sp + "1", w, n, "digit"})
				add(KwLabel{sp + "-", w, n, "dash"})
				add(KwLabel{sp + ".x", w, n, "dot"})
			}
		}
	}
	return out
}

// ValidPNPrefixASCII: PN_PREFIX restricted to the ASCII runes the family uses
// (PN_CHARS_BASE ((PN_CHARS | '.')* PN_CHARS)?).
func ValidPNPrefixASCII(l string) bool {
	if l == "" {
		return false
	}
	letter := func(c byte) bool { return c >= 'a' && c <= 'z' || c >= 'A' && c <= 'Z' }
	if !letter(l[0]) {
		return false
	}
	for i := 1; i < len(l); i++ {
		c := l[i]
		if !(letter(c) || c >= '0' && c <= '9' || c == '-' || c == '_' || c == '.') {
			return false
		}
	}
	return l[len(l)-1] != '.'
}

// KwSiblings: the valid labels obtained from l by deleting one rune (a look-ahead that pushes back one rune too
// few) or doubling one rune (one that pushes a rune back twice), sorted, without l itself.
func KwSiblings(l string) []string {
	seen := map[string]bool{l: true}
	var out []string
	add := func(s string) {
		if !seen[s] && ValidPNPrefixASCII(s) {
			seen[s] = true
			out = append(out, s)
		}
	}
	for i := range l {
		add(l[:i] + l[i+1:])
		add(l[:i+1] + l[i:])
	}
	sort.Strings(out)
	return out
}

// KwNamespace: the namespace the families bind a label to (distinct per label, none a prefix of another).
func KwNamespace(l string) string { return "http://k.example/n-" + l + "/" }
