package main

// C15 REUSE oracle ("decoding the same bytes twice gives the same result", with a history in
// between): the option values of a decoder — and, where the repository offers one, a factory or the
// rdfio registry — are built ONCE; then document A, document B and document A again are decoded
// with them. Required: run 1 of A = run 3 of A (ordered statement sequence with blank nodes
// renumbered by first occurrence, verdict), both equal to a decode of A with freshly built option
// values, and B equal to a decode of B with freshly built option values. Anything a decoder writes
// into a value it was configured with (a prefix manager, a context, a loader cache, a tokenizer
// configuration) shows up as a difference between the runs.
//
// Reused option values = every setter that takes a mutable argument: default prefixes (Turtle, TriG,
// RDFa: iri.PrefixMappingList), JSON-LD expand context (inspectjson.Value), JSON-LD document loader,
// parser / tokenizer options, the nested jsonld options of the HTML-embedded JSON-LD decoder, the HTML
// document configuration, and (variant "opts+bn") a blank-node string factory shared by the decoders
// (sharing is its documented intent: equal labels give equal nodes; the comparison renumbers blank
// nodes per run, so only a *behavioural* dependence on the history is reported).
//
// Variants: "opts" (option value built once, passed to NewDecoder three times), "opts+bn",
// "factory" (turtle.NewFactory — the only per-format factory of the repository; Turtle only),
// "registry" (rdfio.NewRegistry once, one DecoderOptions value with a Patcher closure appending the
// shared option value, Registry.NewDecoder per document; every format the registry has a manager for).

import (
	"fmt"
	"io"
	"strings"

	"github.com/dpb587/inspectjson-go/inspectjson"
	"github.com/dpb587/rdfkit-go/encoding"
	"github.com/dpb587/rdfkit-go/iri"
	"github.com/dpb587/rdfkit-go/rdf"
	"github.com/dpb587/rdfkit-go/rdf/blanknodes"
	"github.com/dpb587/rdfkit-go/rdfio"
	"github.com/dpb587/rdfkit-go/rdfio/rdfiotypes"

	"verifharness/vh"
)

var reuseVariants = []string{"opts", "opts+bn", "factory", "registry"}

// variantApplies: "factory" exists for Turtle only; the rdfio registry has no manager for the three
// decoders that work on a parsed HTML document.
func variantApplies(format, variant string) bool {
	switch variant {
	case "factory":
		return format == "ttl"
	case "registry":
		return format != "rdfa" && format != "microdata" && format != "htmljsonld"
	}
	return true
}

type extras struct {
	prefixes      iri.PrefixMappingList
	expandContext inspectjson.Value
	bn            blanknodes.StringFactory
	factory       bool // turtle.NewFactory
	registry      bool // rdfio registry + DecoderOptions with a Patcher
}

// reuseDefaultPrefixes: what the reuse documents re-declare and shadow. A fresh slice per call.
func reuseDefaultPrefixes() iri.PrefixMappingList {
	return iri.PrefixMappingList{
		{Prefix: "p", Expanded: "http://one.example/"},
		{Prefix: "", Expanded: "http://default.example/"},
		{Prefix: "ex", Expanded: "http://example.org/"},
		{Prefix: "rdf", Expanded: "http://www.w3.org/1999/02/22-rdf-syntax-ns#"},
		{Prefix: "zz", Expanded: "http://zz.example/ns#"},
	}
}

const reuseExpandContext = `{"p":"http://one.example/p","q":{"@id":"http://one.example/q","@type":"@id"},"ex":"http://example.org/","@vocab":"http://default.example/"}`

func reuseExtras(format, variant string) extras {
	var x extras
	if variant == "" {
		return x
	}
	switch format {
	case "ttl", "trig", "rdfa":
		x.prefixes = reuseDefaultPrefixes()
	case "jsonld", "htmljsonld":
		if v, err := inspectjson.Parse(strings.NewReader(reuseExpandContext)); err == nil {
			x.expandContext = v
		}
	}
	switch variant {
	case "opts+bn":
		x.bn = blanknodes.NewStringFactory()
	case "factory":
		x.factory = format == "ttl"
	case "registry":
		x.registry = variantApplies(format, variant)
	}
	return x
}

// memReader: the rdfiotypes.Reader the registry route reads from.
type memReader struct {
	io.Reader
	name string
}

func (m memReader) GetIRI() rdf.IRI             { return "" }
func (m memReader) GetFileName() (string, bool) { return m.name, true }
func (m memReader) Close() error                { return nil }
func (m memReader) GetMediaType() (encoding.ContentMediaType, bool) {
	return encoding.ContentMediaType{}, false
}
func (m memReader) GetMagicBytes() ([]byte, bool) { return nil, false }
func (m memReader) AddTee(w io.Writer)            {}

var registryAlias = map[string]string{"nt": "nt", "nq": "nq", "ttl": "ttl", "trig": "trig", "rdfjson": "rdfjson", "rdfxml": "rdfxml", "jsonld": "jsonld", "html": "html"}

// registryMaker: rdfio.NewRegistry and the DecoderOptions value are built once; patch appends the shared
// option value of the format to the options the manager builds.
func registryMaker(format string, o Opts, patch rdfiotypes.GenericOptionsPatcherFunc) maker {
	reg := rdfio.NewRegistry(rdfio.RegistryOptions{DocumentLoaderJSONLD: docLoader()})
	do := rdfiotypes.DecoderOptions{Type: registryAlias[format], Patcher: patch}
	if o.Base {
		do.BaseIRI = baseIRI
	}
	if o.Offsets {
		do.Params = []string{"captureTextOffsets=true"}
	}
	return func(r io.Reader) (iterator, error) {
		h, err := reg.NewDecoder(memReader{Reader: r, name: "doc"}, do)
		if err != nil {
			return nil, err
		}
		if h == nil || h.Decoder == nil {
			return nil, fmt.Errorf("registry returned no decoder")
		}
		return h.Decoder, nil
	}
}

// runWith drives one decoder built by m over the input (same oracles as a single run).
func runWith(m maker, c Case) runResult {
	rd := newSchedReader(c.Input, c.Sched)
	o := runDecoderWith(m, c.Format, c.Opts, rd)
	return runResult{o, rd.Delivered}
}

// reuse: the REUSE oracle on (A = c.Input, B = c.Aux) for the variant c.Reuse.
func (s *sink) reuse(c Case, verboseOut bool) {
	c.Sched = wholeSched
	a, b := c, c
	b.Input, b.Aux = c.Aux, nil
	a.Family, b.Family = c.Family, c.Family
	fresh := func(x Case) runResult { return runWith(newMaker(x.Format, x.Opts, c.Reuse), x) }
	refA := fresh(a)
	s.account(a, refA)
	if refA.Verdict == "panic" {
		s.judge(a, refA)
		s.count("reuse-skipped:panic")
		return
	}
	refB := fresh(b)
	s.account(b, refB)
	if refB.Verdict == "panic" {
		s.judge(b, refB)
		s.count("reuse-skipped:panic")
		return
	}
	shared := newMaker(c.Format, c.Opts, c.Reuse)
	run1 := runWith(shared, a)
	runB := runWith(shared, b)
	run3 := runWith(shared, a)
	s.account(a, run1)
	s.account(b, runB)
	s.account(a, run3)
	s.count("reuse-variant:" + c.Format + ":" + c.Reuse)
	for _, r := range []runResult{run1, runB, run3} {
		if r.Verdict == "panic" {
			s.judge(c, r)
			return
		}
	}
	same := func(x, y runResult) bool { return x.Verdict == y.Verdict && sameStmts(x.Stmts, y.Stmts) }
	report := func(what string, doc []byte, x, y runResult, nx, ny string) {
		kind := "reuse"
		if sameModuloOrder(x.Stmts, y.Stmts) && x.Verdict == y.Verdict {
			kind = "order-only" // the class of the determinism oracle, judged on the document that was decoded
			what = orderSub(c.Format, doc)
		}
		s.add(violation{Prop: "C15", Kind: kind, Format: c.Format, Sub: what,
			Detail: fmt.Sprintf("option values built once (variant %s), documents A, B, A decoded with them: %s: %s/%d statements; %s: %s/%d statements; %s; errors %q vs %q",
				c.Reuse, nx, x.Verdict, len(x.Stmts), ny, y.Verdict, len(y.Stmts), firstDiff(x.Stmts, y.Stmts), clip(x.Err), clip(y.Err)), Case: c})
	}
	switch {
	case !same(run1, run3):
		report("A-run3-vs-run1", a.Input, run1, run3, "run 1 of A", "run 3 of A (after B)")
	case !same(refA, run1):
		report("A-run1-vs-fresh-options", a.Input, refA, run1, "A with fresh option values", "run 1 of A")
	case !same(refB, runB):
		report("B-after-A-vs-fresh-options", b.Input, refB, runB, "B with fresh option values", "B decoded after A")
	}
	if verboseOut {
		s.Log = append(s.Log, fmt.Sprintf("replay reuse %s/%s: fresh A %s/%d, run1 %s/%d, B %s/%d (fresh %s/%d), run3 %s/%d", c.Format, c.Reuse,
			refA.Verdict, len(refA.Stmts), run1.Verdict, len(run1.Stmts), runB.Verdict, len(runB.Stmts), refB.Verdict, len(refB.Stmts), run3.Verdict, len(run3.Stmts)))
	}
}

// ---------------------------------------------------------------- documents

// reusePairs: grammar-directed (A, B) pairs per format: A uses what the shared option values provide
// (a default prefix, the default base, a term of the expand context) and then re-declares / shadows
// it; B declares something A lacks (so that A fails alone and would succeed after B if B's
// declarations survived), and uses the same blank node labels.
func reusePairs(format string) [][2]string {
	switch format {
	case "ttl", "trig":
		docs := []string{
			"p:s p:p p:o1 .\n@prefix p: <http://two.example/> .\np:s p:p p:o2 .\n",
			"p:s p:p p:o1 .\nPREFIX p: <http://two.example/>\np:s p:p p:o2 .\n",
			":s :p :o1 .\n@prefix : <http://two.example/d#> .\n:s :p :o2 .\n",
			"ex:s a ex:T .\n@prefix ex: <http://example.org/other/> .\nex:s a ex:T ; rdf:value \"v\" .\n@prefix rdf: <http://rdf.example/> .\nex:s rdf:value 1 .\n",
			"<s> <p> <o1> .\n@base <http://other.example/x/> .\n<s> <p> <o2> .\n",
			"<s> <p> <o1> .\nBASE <http://other.example/x/>\n<s> <p> <o2> .\nBASE <y/>\n<s> <p> <o3> .\n",
			"q:a q:b q:c .\n", // undeclared prefix: an error, unless an earlier document's directive survived
			"@prefix q: <http://q.example/> .\nq:a q:b q:c , _:x .\n_:x q:b [ q:b _:y ] .\n", // declares it
			"_:x p:p _:y .\n_:y p:p ( _:x 1 ) .\n",
			"@prefix p: <http://three.example/> .\n@prefix zz: <http://zz2.example/> .\np:s zz:p zz:o .\n",
			"zz:s zz:p zz:o .\np:s p:p \"x\"@en .\n",
			"@prefix new: <http://new.example/> .\nnew:s new:p new:o .\n",
			"new:s new:p new:o .\n",
		}
		if format == "trig" {
			docs = append(docs,
				"p:g { p:s p:p p:o1 . }\n@prefix p: <http://two.example/> .\np:g { p:s p:p p:o2 . }\n",
				"GRAPH p:g { p:s p:p _:x }\nPREFIX p: <http://two.example/>\nGRAPH p:g { _:x p:p p:o2 }\n",
				"{ <s> <p> <o> }\n@base <http://other.example/x/> .\n<g> { <s> <p> <o> }\n")
		}
		return allPairs(docs)
	case "rdfa", "html":
		docs := []string{
			`<html><body><div about="http://e/s"><span property="p:n">1</span><div prefix="p: http://two.example/"><span property="p:n">2</span></div><span property="p:n">3</span></div></body></html>`,
			`<html prefix="p: http://two.example/ q: http://q.example/"><body about="http://e/s"><span property="p:n q:n">x</span><a rel="q:r" href="http://e/o">y</a></body></html>`,
			`<html><body about="http://e/s"><span property="q:n zz:n">x</span><span property="ex:n" resource="_:x">y</span><span about="_:x" property="ex:m">z</span></body></html>`,
			`<html><body vocab="http://v.example/" about="http://e/s"><span property="n">x</span><div vocab=""><span property="n">y</span></div><div typeof="T" resource="_:x"></div></body></html>`,
			`<html><head><base href="http://other.example/x/"></head><body about="s"><a rel="p:r" href="o">x</a></body></html>`,
			`<html><body about="s"><a rel="p:r ex:r" href="o">x</a></body></html>`,
		}
		return allPairs(docs)
	case "jsonld", "htmljsonld":
		docs := []string{
			`[{"@id":"http://e/s","p":"v1","q":"http://e/o"},{"@context":{"p":"http://two.example/p","q":"http://two.example/q"},"@id":"http://e/s","p":"v2","q":"http://e/o"}]`,
			`{"@context":{"p":"http://two.example/p","r":"http://two.example/r"},"@id":"http://e/s","p":"v","r":"w","unknownterm":"x"}`,
			`{"@id":"http://e/s","r":"only known if an earlier context survived","p":{"@id":"_:x"},"ex:n":{"@id":"_:y"}}`,
			`{"@context":{"@vocab":"http://v2.example/","@base":"http://other.example/x/"},"@id":"s","n":"x","q":"o"}`,
			`{"@id":"s","n":"x","q":"o"}`,
			`{"@context":null,"@id":"http://e/s","p":"dropped","http://e/p":{"@id":"_:x"}}`,
			`{"@context":{"ex":"http://example.org/other/","p":null},"@id":"ex:s","ex:n":"x","p":"dropped"}`,
			`{"@context":[{"@version":1.1,"@protected":true,"t":"http://prot.example/t"},{"u":"http://prot.example/u"}],"t":"x","u":"y"}`,
			`{"@context":{"t":"http://unprot.example/t"},"t":"x"}`,
		}
		for u := range loaderDocs { // two remote contexts of the test suite (document loader caches, if any)
			if strings.HasSuffix(u, "toRdf/e127-context-1.jsonld") || strings.HasSuffix(u, "toRdf/e127-context-2.jsonld") || strings.HasSuffix(u, "expand/0127-context-1.jsonld") {
				docs = append(docs, `{"@context":"`+u+`","@id":"http://e/s","p":"x","q":"y","term":"z","a":"w","b":"v"}`)
			}
		}
		if format == "htmljsonld" {
			for i, d := range docs {
				docs[i] = wrapJSONLDInHTML(d)
			}
		}
		return allPairs(docs)
	case "rdfxml":
		docs := []string{
			xmlHead + `<rdf:Description rdf:about="s" xml:base="http://other.example/x/"><e:p rdf:resource="o"/><e:q rdf:nodeID="x"/></rdf:Description><rdf:Description rdf:about="s"><e:p rdf:resource="o"/></rdf:Description></rdf:RDF>`,
			xmlHead + `<rdf:Description rdf:about="s"><e:p rdf:resource="o"/><e:q rdf:nodeID="x"/><e:r rdf:ID="i">v</e:r></rdf:Description></rdf:RDF>`,
			`<rdf:RDF xmlns:rdf="http://www.w3.org/1999/02/22-rdf-syntax-ns#" xmlns:e="http://two.example/" xml:lang="en"><rdf:Description rdf:ID="i"><e:p>v</e:p></rdf:Description></rdf:RDF>`,
			`<rdf:RDF xmlns:rdf="http://www.w3.org/1999/02/22-rdf-syntax-ns#"><rdf:Description rdf:ID="i"><e:p>prefix e is not declared here</e:p></rdf:Description></rdf:RDF>`,
		}
		return allPairs(docs)
	case "nt", "nq":
		docs := []string{
			"_:x <http://e/p> _:y .\n_:y <http://e/p> \"v\"@en .\n",
			"_:y <http://e/p> _:x .\n<http://e/s> <http://e/p> _:z .\n",
			"<http://e/s> <http://e/p> <http://e/o> .\n<http://e/s> <http://e/p> \n",
		}
		return allPairs(docs)
	case "rdfjson":
		docs := []string{
			`{"_:x":{"http://e/p":[{"type":"bnode","value":"_:y"},{"type":"literal","value":"v","lang":"en"}]}}`,
			`{"_:y":{"http://e/p":[{"type":"bnode","value":"_:x"}]},"http://e/s":{"http://e/p":[{"type":"uri","value":"http://e/o"}]}}`,
			`{"http://e/s":{"http://e/p":[{"type":"uri"`,
		}
		return allPairs(docs)
	case "microdata":
		docs := []string{
			`<div itemscope itemtype="http://schema.org/Person" itemid="http://e/p1"><span itemprop="name">A</span><div itemprop="knows" itemscope><span itemprop="name">B</span></div></div>`,
			`<html><head><base href="http://other.example/x/"></head><body><div itemscope itemid="i" itemref="r"><a itemprop="u" href="h">x</a></div><p id="r" itemprop="n">N</p></body></html>`,
			`<div itemscope itemtype="http://t.example/T"><span itemprop="n">1</span></div>`,
		}
		return allPairs(docs)
	}
	return nil
}

// allPairs: every ordered pair (A, B), A != B, plus (A, A).
func allPairs(docs []string) [][2]string {
	var out [][2]string
	for i, a := range docs {
		for j, b := range docs {
			if i != j || i == 0 {
				out = append(out, [2]string{a, b})
			}
		}
	}
	return out
}

func wrapJSONLDInHTML(j string) string {
	return `<!DOCTYPE html><html><head><title>t</title><script type="application/ld+json">` + j + `</script></head><body><p>x</p></body></html>`
}

// runReuse emits the reuse jobs: the grammar-directed pairs of every format x every variant x offsets
// on/off x base on/off, and random pairs of corpus documents of the format.
func (e *engine) runReuse() {
	r := e.rng
	nCorpus := 40
	if e.thorough {
		nCorpus = 400
	}
	nCorpus *= e.scale
	e.rep.Exhaustive = append(e.rep.Exhaustive, "reuse oracle: every ordered pair (A, B) of the per-format directive documents x every applicable variant (opts, opts+bn, factory [Turtle], registry)",
		"determinism oracle: every map-order document (21 recursion sites x 12 order-sensitive constructs, 12 entries each) x jsonld, htmljsonld, html, k decodes each")
	e.farm(e.nw, func(emit func(job)) {
		for _, f := range allFormats {
			pairs := reusePairs(f)
			for pi, p := range pairs {
				for vi, v := range reuseVariants {
					if !variantApplies(f, v) {
						continue
					}
					o := e.randOpts(r, f)
					o.Offsets = (pi+vi)&1 == 1
					o.Base = (pi/2+vi)&1 == 1
					if f == "jsonld" || f == "htmljsonld" || f == "html" {
						o.Loader = true
						o.Mode = ""
					}
					emit(job{Kind: jobReuse, C: Case{Format: f, Opts: o, Sched: wholeSched, Input: []byte(p[0]), Aux: []byte(p[1]), Reuse: v, Family: "reuse", Name: fmt.Sprintf("directive-pair:%d", pi)}})
				}
			}
			repMu.Lock()
			e.rep.Hist["reuse-directive-pairs:"+f] += len(pairs)
			repMu.Unlock()
			ss := e.seeds(f)
			if len(ss) == 0 {
				continue
			}
			pick := func() Seed {
				for i := 0; i < 50; i++ {
					s := vh.Pick(r, ss)
					if len(s.B) <= 8192 && len(s.B) > 0 {
						return s
					}
				}
				return ss[0]
			}
			for i := 0; i < nCorpus; i++ {
				a, b := pick(), pick()
				o := e.randOpts(r, f)
				if f == "jsonld" || f == "htmljsonld" || f == "html" {
					o.Loader = true
				}
				v := vh.Pick(r, reuseVariants)
				if !variantApplies(f, v) {
					v = "opts"
				}
				emit(job{Kind: jobReuse, C: Case{Format: f, Opts: o, Sched: wholeSched, Input: a.B, Aux: b.B, Reuse: v, Family: "reuse", Name: "suite-pair:" + a.Name + "+" + b.Name}})
			}
		}
	})
}
