/-
  C08, document level — runs of the statement machine on printed subjects, statements, directives,
  graph blocks and whole documents (nesting-free subjects; the predicate-object lists are generic
  in `POFit`).
-/
import RdfModel.Proofs.C08DocRun
set_option linter.unusedSimpArgs false
set_option linter.unusedSectionVars false
set_option linter.unusedVariables false
namespace RdfModel.C08
open RdfModel RdfModel.TA RdfModel.C02 RdfModel.Ttl RdfModel.Spec.TtlPrint RdfModel.TtlDoc

/-! ### well-formedness of lists -/

theorem itemsWf_mem {T : Tables} : ∀ {os : List Obj}, itemsWf T os = true → ∀ o ∈ os, objWf T o = true := by
  intro os
  induction os with
  | nil => intro _ o ho; cases ho
  | cons a os ih =>
    intro h o ho
    simp only [itemsWf, Bool.and_eq_true] at h
    rcases List.mem_cons.1 ho with rfl | ho
    · exact h.1
    · exact ih h.2 o ho

theorem itemsNoBool_mem : ∀ {os : List Obj}, itemsNoBoolPfx os = true → ∀ o ∈ os, objNoBoolPfx o = true := by
  intro os
  induction os with
  | nil => intro _ o ho; cases ho
  | cons a os ih =>
    intro h o ho
    simp only [itemsNoBoolPfx, Bool.and_eq_true] at h
    rcases List.mem_cons.1 ho with rfl | ho
    · exact h.1
    · exact ih h.2 o ho

theorem posWf_mem {T : Tables} : ∀ {pos : List PO}, posWf T pos = true → ∀ po ∈ pos, poWf T po = true := by
  intro pos
  induction pos with
  | nil => intro _ o ho; cases ho
  | cons a os ih =>
    intro h o ho
    simp only [posWf, Bool.and_eq_true] at h
    rcases List.mem_cons.1 ho with rfl | ho
    · exact h.1
    · exact ih h.2 o ho

theorem posNoBool_mem : ∀ {pos : List PO}, posNoBoolPfx pos = true → ∀ po ∈ pos, poNoBoolPfx po = true := by
  intro pos
  induction pos with
  | nil => intro _ o ho; cases ho
  | cons a os ih =>
    intro h o ho
    simp only [posNoBoolPfx, Bool.and_eq_true] at h
    rcases List.mem_cons.1 ho with rfl | ho
    · exact h.1
    · exact ih h.2 o ho

section
variable {T : Tables} (hT : TablesOK T) (hT2 : TablesOK2 T) {C : Cfg} (hC : CfgOK T C)
variable {ch : Choices} (hch : choicesOK ch = true)

include hT hT2 hC hch in
/-- predicate-object lists of the nesting-free fragment are fit for `posGood` -/
theorem poFit_flat (pos : List PO) (hwf : posWf T pos = true) (hfl : pos.all poFlat = true)
    (hnb : posNoBoolPfx pos = true) : ∀ po ∈ pos, POFit T C ch po := by
  intro po hpo
  obtain ⟨v, os⟩ := po
  have h1 := posWf_mem hwf _ hpo
  have h2 := List.all_eq_true.1 hfl _ hpo
  have h3 := posNoBool_mem hnb _ hpo
  simp only [poWf, Bool.and_eq_true, Bool.not_eq_true', List.isEmpty_eq_false_iff] at h1
  simp only [poFlat, List.all_eq_true] at h2
  simp only [poNoBoolPfx] at h3
  exact ⟨h1.1.1, h1.1.2, fun o ho => objGood_flat hT hT2 hC hch o (itemsWf_mem h1.2 o ho) (h2 o ho) (itemsNoBool_mem h3 o ho)⟩

/-! ### what a predicate-object list starts with -/

include hT2 hC hch in
theorem pVerb_follows (v : Verb) (hwf : verbWf T v = true) (i : Nat) (R : List Nat) :
    ∃ c r, Follows C (pVerb ⟨T, ch⟩ i v R) c r ∧ c ≠ 0x7b ∧ c ≠ 0x7d := by
  cases v with
  | a =>
    exact ⟨0x61, _, follows_solid hT2 hC (solid_pn (pnB_pn hT2 (hT2.alpha 0x61 (by decide)))) (by decide) _, by decide, by decide⟩
  | iri x0 =>
    cases x0 with
    | ref rr =>
      refine ⟨0x3c, printIriBody (ch.at i).cs rr ++ [0x3e] ++ after T .punct (ch.at i) R, ?_, by decide, by decide⟩
      have : pVerb ⟨T, ch⟩ i (.iri (.ref rr)) R = 0x3c :: (printIriBody (ch.at i).cs rr ++ [0x3e] ++ after T .punct (ch.at i) R) := by
        simp [pVerb, pIri, iriText, iriKind, printIRIREF]
      rw [this]
      exact follows_solid hT2 hC (solid_delim (by decide) (by decide)) (by decide) _
    | pn p l =>
      simp only [verbWf, iriWf, Bool.and_eq_true] at hwf
      obtain ⟨⟨⟨hp, hps⟩, hls⟩, hpl⟩ := hwf
      obtain ⟨out, hout⟩ := pname_printable (p := p) (ch.at i).cs hpl
      obtain ⟨lo, hlo⟩ := pname_shape hout
      obtain ⟨c0, tl0, htext⟩ : ∃ c0 tl0, p ++ 0x3a :: (lo ++ after T .name (ch.at i) R) = c0 :: tl0 := by
        cases p <;> simp
      have hns := prefix_head hp _ c0 tl0 htext
      obtain ⟨hso, h23⟩ := nameStart_solid hT2 hns
      refine ⟨c0, tl0, ?_, nameStart_ne hT2 hns (by decide) (by decide), nameStart_ne hT2 hns (by decide) (by decide)⟩
      have : pVerb ⟨T, ch⟩ i (.iri (.pn p l)) R = c0 :: tl0 := by
        rw [← htext]; simp [pVerb, pIri, iriText, iriKind, hout, hlo]
      rw [this]
      exact follows_solid hT2 hC hso h23 _

include hT2 hC hch in
theorem pPOs_follows (pos : List PO) (hne : pos ≠ []) (hfit : ∀ po ∈ pos, POFit T C ch po) (i : Nat) (R : List Nat) :
    ∃ c r, Follows C (pPOs ⟨T, ch⟩ i pos R) c r ∧ c ≠ 0x7b ∧ c ≠ 0x7d := by
  cases pos with
  | nil => exact absurd rfl hne
  | cons po pos' =>
    obtain ⟨v, os⟩ := po
    have hv := (hfit _ List.mem_cons_self).1
    cases pos' with
    | nil => simpa [pPOs, pPO] using pVerb_follows hT2 hC hch v hv i _
    | cons po' pos'' => simpa [pPOs, pPO] using pVerb_follows hT2 hC hch v hv i _

/-! ### subjects at the top level -/

/-- The run from the top-level scan function over a printed subject up to the point where the
    predicate-object list is read. -/
def SubjTopGood (T : Tables) (C : Cfg) (ch : Choices) (sj : Subj) : Prop :=
  ∀ (i : Nat) (x0 : Ectx) (s : List Frame) (inp R : List Nat) (c : Nat) (r : List Nat) (st st1 : DState) (sT : TermB)
    (qs : List QuadB),
    Follows C R c r → c ≠ 0x7b → x0.subj = none → x0.graph = none →
    dSubj C.resolve none st sj = some (sT, qs, st1) →
    SkEq C inp (pSubj ⟨T, ch⟩ i sj R) →
    ∃ (inp' : List Nat) (req : Bool) (x' xe : Ectx), SkEq C inp' R ∧ x'.subj = some (toT sT) ∧ x'.graph = none ∧
      Steps C .eof ⟨⟨x0, .statement⟩ :: s, inp, envOf st⟩ (qs.map toStmt)
        ⟨⟨x', if req then .polRequired else .pol⟩ :: ⟨x', .polContinue⟩ :: ⟨xe, .triplesEnd⟩ :: ⟨x0, .statement⟩ :: s, inp',
          envOf st1⟩

theorem toT_notLit_iri (i : List Nat) : ∀ a b c, (Term.iri i : TtlDoc.T) ≠ .lit a b c := by intro a b c h; cases h
theorem toT_notLit_bn (b : TtlDoc.BN) : ∀ a b' c, (Term.bnode b : TtlDoc.T) ≠ .lit a b' c := by intro a b' c h; cases h

include hT hT2 hC hch in
theorem subjTop_iri (x1 : IriS) (hwf : iriWf T x1 = true) : SubjTopGood T C ch (.iri x1) := by
  intro i x0 s inp R c r st st1 sT qs hf h7b hxs hxg hd hin
  simp only [dSubj, dObj, Option.map_eq_some_iff] at hd
  obtain ⟨ii, hii, heq⟩ := hd
  simp only [Prod.mk.injEq] at heq
  obtain ⟨rfl, rfl, rfl⟩ := heq
  cases htr : C.trig with
  | false =>
    cases x1 with
    | ref rr =>
      have hs : Scalars rr := scalars_of_B (by simpa [iriWf] using hwf)
      have hres : resolveIRI C (envOf st) rr = some ii := by rw [← iriOf_ref]; exact hii
      have htext : printIRIREF (ch.at i).cs rr ++ after T .punct (ch.at i) R =
          0x3c :: (printIriBody (ch.at i).cs rr ++ [0x3e] ++ after T .punct (ch.at i) R) := by simp [printIRIREF]
      have htx : pSubj ⟨T, ch⟩ i (.iri (.ref rr)) R = 0x3c :: (printIriBody (ch.at i).cs rr ++ [0x3e] ++ after T .punct (ch.at i) R) := by
        simp [pSubj, pObj, pIri, iriText, iriKind, printIRIREF]
      refine ⟨_, true, { x0 with subj := some (.iri ii) }, x0, after_skip (T := T) hC .punct (ch.at i) (slot_ok hch i) R, rfl, hxg, ?_⟩
      have s2 := Steps.tok hT2 hC (f := ⟨x0, .subjIRIREF⟩) (s := ⟨x0, .triplesEnd⟩ :: ⟨x0, .statement⟩ :: s) (env := envOf st)
        (inp := 0x3c :: (printIriBody (ch.at i).cs rr ++ [0x3e] ++ after T .punct (ch.at i) R)) SkEq.rfl' rfl
        (solid_delim (by decide) (by decide)) (by decide)
        ((fn_subjIRIREF hT hC x0 (envOf st) _ rr ii _ _ _ htext hs hres).trans (subjectTail_eq _ _ _ _)) (Steps.refl _)
      have s1 := Steps.tok hT2 hC (f := ⟨x0, .statement⟩) (s := s) (env := envOf st) hin htx
        (solid_delim (by decide) (by decide)) (by decide) (fn_statement_ttl_iriref htr x0 (envOf st) _) (by simpa using s2)
      simpa using s1
    | pn p l =>
      simp only [iriWf, Bool.and_eq_true] at hwf
      obtain ⟨⟨⟨hp, hps⟩, hls⟩, hpl⟩ := hwf
      obtain ⟨out, hout⟩ := pname_printable (p := p) (ch.at i).cs hpl
      have hex : (envOf st).expand p l = some ii := by rw [← iriOf_pn]; exact hii
      have hcl := after_noclash hT2 .name (ch.at i) R (T := T)
      obtain ⟨lo, hlo⟩ := pname_shape hout
      obtain ⟨c0, tl0, htext⟩ : ∃ c0 tl0, out ++ after T .name (ch.at i) R = c0 :: tl0 := by rw [hlo]; cases p <;> simp
      have htext' : p ++ 0x3a :: (lo ++ after T .name (ch.at i) R) = c0 :: tl0 := by rw [← htext, hlo]; simp
      obtain ⟨hso, h23⟩ := nameStart_solid hT2 (prefix_head hp _ c0 tl0 htext')
      have htx : pSubj ⟨T, ch⟩ i (.iri (.pn p l)) R = c0 :: tl0 := by simp [pSubj, pObj, pIri, iriText, iriKind, hout, htext]
      refine ⟨_, true, { x0 with subj := some (.iri ii) }, x0, after_skip (T := T) hC .name (ch.at i) (slot_ok hch i) R, rfl, hxg, ?_⟩
      have s2 := Steps.tok hT2 hC (f := ⟨x0, .subjPName⟩) (s := ⟨x0, .triplesEnd⟩ :: ⟨x0, .statement⟩ :: s) (env := envOf st)
        (inp := c0 :: tl0) SkEq.rfl' rfl hso h23
        ((fn_subjPName hT hC x0 (envOf st) _ p l out ii _ c0 tl0 htext hp (scalars_of_B hps) (scalars_of_B hls) hout hcl hex).trans
          (subjectTail_eq _ _ _ _)) (Steps.refl _)
      have s1 := Steps.tok hT2 hC (f := ⟨x0, .statement⟩) (s := s) (env := envOf st) hin htx hso h23
        (fn_statement_ttl_pname hT2 hC htr x0 (envOf st) hp _ c0 tl0 htext') (by simpa using s2)
      simpa using s1
  | true =>
    -- TriG: token, then `E1` decides between graph block and triples
    have hE1 : ∀ (A : List Nat), SkEq C A R →
        Steps C .eof ⟨⟨x0, .tgE1 (.iri ii)⟩ :: ⟨x0, .statement⟩ :: s, A, envOf st⟩ []
          ⟨⟨{ x0 with subj := some (.iri ii) }, .polRequired⟩ :: ⟨{ x0 with subj := some (.iri ii) }, .polContinue⟩ ::
            ⟨{ x0 with subj := some (.iri ii) }, .triplesEnd⟩ :: ⟨x0, .statement⟩ :: s, c :: r, envOf st⟩ := by
      intro A hA
      have := Steps.fol hT2 hC (f := ⟨x0, .tgE1 (.iri ii)⟩) (s := ⟨x0, .statement⟩ :: s) (env := envOf st) hA hf
        (fn_tgE1_subj x0 (envOf st) (.iri ii) (toT_notLit_iri ii) c r h7b) (Steps.refl _)
      simpa using this
    refine ⟨c :: r, true, { x0 with subj := some (.iri ii) }, { x0 with subj := some (.iri ii) },
      by rw [hf.1]; exact SkEq.rfl', rfl, hxg, ?_⟩
    cases x1 with
    | ref rr =>
      have hs : Scalars rr := scalars_of_B (by simpa [iriWf] using hwf)
      have hres : resolveIRI C (envOf st) rr = some ii := by rw [← iriOf_ref]; exact hii
      have htext : printIRIREF (ch.at i).cs rr ++ after T .punct (ch.at i) R =
          0x3c :: (printIriBody (ch.at i).cs rr ++ [0x3e] ++ after T .punct (ch.at i) R) := by simp [printIRIREF]
      have htx : pSubj ⟨T, ch⟩ i (.iri (.ref rr)) R = 0x3c :: (printIriBody (ch.at i).cs rr ++ [0x3e] ++ after T .punct (ch.at i) R) := by
        simp [pSubj, pObj, pIri, iriText, iriKind, printIRIREF]
      have s1 := Steps.tok hT2 hC (f := ⟨x0, .statement⟩) (s := s) (env := envOf st) hin htx
        (solid_delim (by decide) (by decide)) (by decide)
        (fn_statement_trig_term htr x0 (envOf st) _ _ _ _ _
          (stepStatementRune_trig_iriref hT hC htr x0 (envOf st) _ rr ii _ _ _ htext hs hres))
        (by simpa using hE1 _ (after_skip (T := T) hC .punct (ch.at i) (slot_ok hch i) R))
      simpa using s1
    | pn p l =>
      simp only [iriWf, Bool.and_eq_true] at hwf
      obtain ⟨⟨⟨hp, hps⟩, hls⟩, hpl⟩ := hwf
      obtain ⟨out, hout⟩ := pname_printable (p := p) (ch.at i).cs hpl
      have hex : (envOf st).expand p l = some ii := by rw [← iriOf_pn]; exact hii
      have hcl := after_noclash hT2 .name (ch.at i) R (T := T)
      obtain ⟨lo, hlo⟩ := pname_shape hout
      obtain ⟨c0, tl0, htext⟩ : ∃ c0 tl0, out ++ after T .name (ch.at i) R = c0 :: tl0 := by rw [hlo]; cases p <;> simp
      have htext' : p ++ 0x3a :: (lo ++ after T .name (ch.at i) R) = c0 :: tl0 := by rw [← htext, hlo]; simp
      obtain ⟨hso, h23⟩ := nameStart_solid hT2 (prefix_head hp _ c0 tl0 htext')
      have htx : pSubj ⟨T, ch⟩ i (.iri (.pn p l)) R = c0 :: tl0 := by simp [pSubj, pObj, pIri, iriText, iriKind, hout, htext]
      have s1 := Steps.tok hT2 hC (f := ⟨x0, .statement⟩) (s := s) (env := envOf st) hin htx hso h23
        (fn_statement_trig_term htr x0 (envOf st) _ _ _ _ _
          (stepStatementRune_trig_pname hT hT2 hC htr x0 (envOf st) _ p l out ii _ c0 tl0 htext hp (scalars_of_B hps)
            (scalars_of_B hls) hout hcl hex))
        (by simpa using hE1 _ (after_skip (T := T) hC .name (ch.at i) (slot_ok hch i) R))
      simpa using s1

include hT hT2 hC hch in
theorem subjTop_bn (l : List Nat) (hwf : labelWf T l = true) : SubjTopGood T C ch (.bn l) := by
  intro i x0 s inp R c r st st1 sT qs hf h7b hxs hxg hd hin
  simp only [dSubj, dObj, Option.some.injEq, Prod.mk.injEq] at hd
  obtain ⟨rfl, rfl, rfl⟩ := hd
  simp only [labelWf, Bool.and_eq_true] at hwf
  have hcl := after_noclash hT2 .label (ch.at i) R (T := T)
  have hA := after_skip (T := T) hC .label (ch.at i) (slot_ok hch i) R
  have htx : pSubj ⟨T, ch⟩ i (.bn l) R = 0x5f :: (0x3a :: l ++ after T .label (ch.at i) R) := by simp [pSubj, pObj, pBNode]
  have hus : solid T 0x5f = true := solid_pn (hT2.u_sub 0x5f hT2.us)
  cases htr : C.trig with
  | false =>
    refine ⟨_, true, { x0 with subj := some (.bnode (.lbl l)) }, x0, hA, rfl, hxg, ?_⟩
    have s2 := Steps.tok hT2 hC (f := ⟨x0, .subjBNode⟩) (s := ⟨x0, .triplesEnd⟩ :: ⟨x0, .statement⟩ :: s) (env := envOf st)
      (inp := 0x5f :: (0x3a :: l ++ after T .label (ch.at i) R)) SkEq.rfl' rfl hus (by decide)
      ((fn_subjBNode hT hC x0 (envOf st) l _ (scalars_of_B hwf.1) hwf.2 hcl).trans (subjectTail_eq _ _ _ _)) (Steps.refl _)
    have s1 := Steps.tok hT2 hC (f := ⟨x0, .statement⟩) (s := s) (env := envOf st) hin htx hus (by decide)
      (fn_statement_ttl_bnode htr x0 (envOf st) _) (by simpa using s2)
    simpa [toT, Term.map, toBN] using s1
  | true =>
    refine ⟨c :: r, true, { x0 with subj := some (.bnode (.lbl l)) }, { x0 with subj := some (.bnode (.lbl l)) },
      by rw [hf.1]; exact SkEq.rfl', rfl, hxg, ?_⟩
    have s2 := Steps.fol hT2 hC (f := ⟨x0, .tgE1 (.bnode (.lbl l))⟩) (s := ⟨x0, .statement⟩ :: s) (env := envOf st) hA hf
      (fn_tgE1_subj x0 (envOf st) _ (toT_notLit_bn _) c r h7b) (Steps.refl _)
    have s1 := Steps.tok hT2 hC (f := ⟨x0, .statement⟩) (s := s) (env := envOf st) hin htx hus (by decide)
      (fn_statement_trig_term htr x0 (envOf st) _ _ _ _ _
        (stepStatementRune_trig_bnode hT hC htr x0 (envOf st) l _ (scalars_of_B hwf.1) hwf.2 hcl))
      (by simpa using s2)
    simpa [toT, Term.map, toBN] using s1

include hT hT2 hC hch in
theorem subjTop_anon : SubjTopGood T C ch .anon := by
  intro i x0 s inp R c r st st1 sT qs hf h7b hxs hxg hd hin
  simp only [dSubj, dObj, Option.some.injEq, Prod.mk.injEq] at hd
  obtain ⟨rfl, rfl, rfl⟩ := hd
  have hA1 := after_skip (T := T) hC .punct (ch.at i) (slot_ok hch i) (0x5d :: after T .punct (ch.at (i + 1)) R)
  have hA2 := after_skip (T := T) hC .punct (ch.at (i + 1)) (slot_ok hch (i + 1)) R
  have htx : pSubj ⟨T, ch⟩ i .anon R = 0x5b :: after T .punct (ch.at i) (0x5d :: after T .punct (ch.at (i + 1)) R) := by
    simp [pSubj, pObj, pPunct]
  have hf5d : Follows C (0x5d :: after T .punct (ch.at (i + 1)) R) 0x5d (after T .punct (ch.at (i + 1)) R) :=
    follows_solid hT2 hC (solid_delim (by decide) (by decide)) (by decide) _
  cases htr : C.trig with
  | false =>
    refine ⟨_, true, { x0 with subj := some (envOf st).fresh.1 }, { x0 with subj := some (envOf st).fresh.1 }, hA2, rfl, hxg, ?_⟩
    have s2 := Steps.fol hT2 hC (f := ⟨{ x0 with subj := some (envOf st).fresh.1 }, .subjAnonOrBNPL⟩) (s := ⟨x0, .statement⟩ :: s)
      (env := (envOf st).fresh.2) hA1 hf5d (fn_subjAnon_close _ _ _) (Steps.refl _)
    have s1 := Steps.tok hT2 hC (f := ⟨x0, .statement⟩) (s := s) (env := envOf st) hin htx
      (solid_delim (by decide) (by decide)) (by decide) (fn_statement_ttl_bracket htr x0 (envOf st) _) (by simpa using s2)
    simpa [envOf_fresh] using s1
  | true =>
    refine ⟨c :: r, true, { x0 with subj := some (envOf st).fresh.1 }, { x0 with subj := some (envOf st).fresh.1 },
      by rw [hf.1]; exact SkEq.rfl', rfl, hxg, ?_⟩
    have s3 := Steps.fol hT2 hC (f := ⟨x0, .tgE1 (envOf st).fresh.1⟩) (s := ⟨x0, .statement⟩ :: s) (env := (envOf st).fresh.2) hA2 hf
      (fn_tgE1_subj x0 _ _ (toT_notLit_bn _) c r h7b) (Steps.refl _)
    have s2 := Steps.fol hT2 hC (f := ⟨x0, .tgBracket (envOf st).fresh.1⟩) (s := ⟨x0, .statement⟩ :: s)
      (env := (envOf st).fresh.2) hA1 hf5d (fn_tgBracket_close _ _ _ _) (by simpa using s3)
    have s1 := Steps.tok hT2 hC (f := ⟨x0, .statement⟩) (s := s) (env := envOf st) hin htx
      (solid_delim (by decide) (by decide)) (by decide) (fn_statement_trig_bracket htr x0 (envOf st) _) (by simpa using s2)
    simpa [envOf_fresh, toT, Term.map, toBN, DState.fresh, Env.fresh, envOf] using s1

include hT hT2 hC hch in
theorem subjTop_nil : SubjTopGood T C ch (.coll []) := by
  intro i x0 s inp R c r st st1 sT qs hf h7b hxs hxg hd hin
  simp only [dSubj, dObj, Option.some.injEq, Prod.mk.injEq] at hd
  obtain ⟨rfl, rfl, rfl⟩ := hd
  have hA1 := after_skip (T := T) hC .punct (ch.at i) (slot_ok hch i) (0x29 :: after T .punct (ch.at (i + 1)) R)
  have hA2 := after_skip (T := T) hC .punct (ch.at (i + 1)) (slot_ok hch (i + 1)) R
  have htx : pSubj ⟨T, ch⟩ i (.coll []) R = 0x28 :: after T .punct (ch.at i) (0x29 :: after T .punct (ch.at (i + 1)) R) := by
    simp [pSubj, pObj, pPunct, pItems, itemsSlots]
  refine ⟨_, true, { x0 with subj := some (.iri TtlDoc.rdfNil) }, x0, hA2, rfl, hxg, ?_⟩
  have s2 := Steps.fol hT2 hC (f := ⟨x0, .parenTop (envOf st).fresh.1⟩) (s := ⟨x0, .statement⟩ :: s)
    (env := (envOf st).fresh.2) hA1 (follows_solid hT2 hC (solid_delim (by decide) (by decide)) (by decide) _)
    (fn_parenTop_close _ _ _ _) (Steps.refl _)
  have s1 := Steps.tok hT2 hC (f := ⟨x0, .statement⟩) (s := s) (env := envOf st) hin htx
    (solid_delim (by decide) (by decide)) (by decide) (fn_statement_paren x0 (envOf st) _) (by simpa using s2)
  simpa [envOf_fresh] using s1

include hT hT2 hC hch in
theorem subjTop_flat (sj : Subj) (hwf : subjWf T sj = true) (hfl : subjFlat sj = true) : SubjTopGood T C ch sj := by
  cases sj with
  | iri x1 => exact subjTop_iri hT hT2 hC hch x1 (by simpa [subjWf] using hwf)
  | bn l => exact subjTop_bn hT hT2 hC hch l (by simpa [subjWf] using hwf)
  | anon => exact subjTop_anon hT hT2 hC hch
  | bnpl pos => simp [subjFlat] at hfl
  | coll items =>
    cases items with
    | nil => exact subjTop_nil hT hT2 hC hch
    | cons a b => simp [subjFlat] at hfl

/-! ### `triples .` at the top level -/

/-- The run over one top-level statement `subject predicateObjectList .` -/
def StatementGood (T : Tables) (C : Cfg) (ch : Choices) (t : Triples) : Prop :=
  ∀ (i : Nat) (x0 : Ectx) (s : List Frame) (inp rest : List Nat) (st st' : DState) (qs : List QuadB),
    x0.subj = none → x0.graph = none →
    dTriples C.resolve none st t = some (qs, st') →
    SkEq C inp (pStatement ⟨T, ch⟩ i t rest) →
    ∃ inp', SkEq C inp' rest ∧
      Steps C .eof ⟨⟨x0, .statement⟩ :: s, inp, envOf st⟩ (qs.map toStmt) ⟨⟨x0, .statement⟩ :: s, inp', envOf st'⟩

include hT hT2 hC hch in
theorem statementGood (t : Triples) (hsj : SubjTopGood T C ch t.s) (hne : t.pos ≠ [])
    (hfit : ∀ po ∈ t.pos, POFit T C ch po) : StatementGood T C ch t := by
  intro i x0 s inp rest st st' qs hxs hxg hd hin
  simp only [dTriples] at hd
  cases hds : dSubj C.resolve none st t.s with
  | none => simp [hds] at hd
  | some res =>
    obtain ⟨sT, qs1, st1⟩ := res
    simp only [hds] at hd
    cases hdp : dPOs C.resolve sT none st1 t.pos with
    | none => simp [hdp] at hd
    | some res2 =>
      obtain ⟨qs2, st2⟩ := res2
      simp only [hdp, Option.some.injEq, Prod.mk.injEq] at hd
      obtain ⟨rfl, rfl⟩ := hd
      let j := i + triplesSlots t - 1
      have hfd : Follows C (pPunct ⟨T, ch⟩ j 0x2e rest) 0x2e (after T .punct (ch.at j) rest) :=
        follows_solid hT2 hC (solid_delim (by decide) (by decide)) (by decide) _
      obtain ⟨c, r, hfv, h7b, _⟩ := pPOs_follows hT2 hC hch t.pos hne hfit (i + subjSlots t.s) (pPunct ⟨T, ch⟩ j 0x2e rest)
      obtain ⟨inp1, req, x', xe, he1, hx's, hx'g, s1⟩ := hsj i x0 s inp _ c r st st1 sT qs1 hfv h7b hxs hxg hds
        (by simpa [pStatement, pTriples, j] using hin)
      obtain ⟨inp2, he2, s2⟩ := posGood hT hT2 hC hch t.pos hfit (i + subjSlots t.s) x'
        (⟨xe, .triplesEnd⟩ :: ⟨x0, .statement⟩ :: s) inp1 _ 0x2e _ none st1 st2 qs2 sT req hfd (Or.inl rfl) hx's (by simpa using hx'g)
        hne hdp he1
      refine ⟨_, after_skip (T := T) hC .punct (ch.at j) (slot_ok hch j) rest, ?_⟩
      have s3 : Steps C .eof ⟨⟨xe, .triplesEnd⟩ :: ⟨x0, .statement⟩ :: s, inp2, envOf st2⟩ []
          ⟨⟨x0, .statement⟩ :: s, after T .punct (ch.at j) rest, envOf st2⟩ := by
        simpa using Steps.fol hT2 hC (f := ⟨xe, .triplesEnd⟩) (s := ⟨x0, .statement⟩ :: s) (env := envOf st2) he2 hfd
          (fn_triplesEnd xe _ _) (Steps.refl _)
      have s23 := s2.trans s3
      rw [List.append_nil] at s23
      simpa using s1.trans s23

/-! ### directives -/

include hT hT2 hC hch in
theorem dir_good (d : Dir) (hwf : dirWf T d = true) (i : Nat) (x0 : Ectx) (s : List Frame) (inp rest : List Nat)
    (st st' : DState) (hd : dDir C.resolve st d = some st') (hin : SkEq C inp (pDir ⟨T, ch⟩ i d rest)) :
    ∃ inp', SkEq C inp' rest ∧
      Steps C .eof ⟨⟨x0, .statement⟩ :: s, inp, envOf st⟩ [] ⟨⟨x0, .statement⟩ :: ⟨x0, .statement⟩ :: s, inp', envOf st'⟩ := by
  have hdot : ∀ j R, Follows C (pPunct ⟨T, ch⟩ j 0x2e R) 0x2e (after T .punct (ch.at j) R) := fun j R =>
    follows_solid hT2 hC (solid_delim (by decide) (by decide)) (by decide) _
  have hiriref : ∀ j (rr R : List Nat), pIriRef ⟨T, ch⟩ j rr R =
      0x3c :: (printIriBody (ch.at j).cs rr ++ [0x3e] ++ after T .punct (ch.at j) R) := by
    intro j rr R; simp [pIriRef, printIRIREF]
  have hiriref' : ∀ j (rr R : List Nat), printIRIREF (ch.at j).cs rr ++ after T .punct (ch.at j) R =
      0x3c :: (printIriBody (ch.at j).cs rr ++ [0x3e] ++ after T .punct (ch.at j) R) := by
    intro j rr R; simp [printIRIREF]
  have hns : ∀ j (p R : List Nat), prefixOK T p = true → ∃ c0 tl0, pNs ⟨T, ch⟩ j p R = c0 :: tl0 ∧
      p ++ 0x3a :: after T .punct (ch.at j) R = c0 :: tl0 ∧ solid T c0 = true ∧ c0 ≠ 0x23 := by
    intro j p R hp
    obtain ⟨c0, tl0, h⟩ : ∃ c0 tl0, p ++ 0x3a :: after T .punct (ch.at j) R = c0 :: tl0 := by cases p <;> simp
    obtain ⟨h1, h2⟩ := nameStart_solid hT2 (prefix_head hp _ c0 tl0 h)
    exact ⟨c0, tl0, by simpa [pNs] using h, h, h1, h2⟩
  cases d with
  | prefixAt p rr =>
    simp only [dDir, Option.map_eq_some_iff] at hd
    obtain ⟨b, hb, rfl⟩ := hd
    simp only [dirWf, Bool.and_eq_true] at hwf
    obtain ⟨⟨hp, hps⟩, hrs⟩ := hwf
    refine ⟨_, after_skip (T := T) hC .punct (ch.at (i + 3)) (slot_ok hch _) rest, ?_⟩
    obtain ⟨c0, tl0, hn1, hn2, hn3, hn4⟩ := hns (i + 1) p (pIriRef ⟨T, ch⟩ (i + 2) rr (pPunct ⟨T, ch⟩ (i + 3) 0x2e rest)) hp
    have s4 := Steps.fol hT2 hC (f := ⟨x0, .atPrefixDot p b⟩) (s := ⟨x0, .statement⟩ :: s) (env := envOf st)
      (after_skip (T := T) hC .punct (ch.at (i + 2)) (slot_ok hch _) _) (hdot (i + 3) rest) (fn_atPrefixDot x0 _ p b _) (Steps.refl _)
    have s3 := Steps.tok hT2 hC (f := ⟨x0, .atPrefixIRI p⟩) (s := ⟨x0, .statement⟩ :: s) (env := envOf st)
      (after_skip (T := T) hC .punct (ch.at (i + 1)) (slot_ok hch _) _) (hiriref (i + 2) rr _)
      (solid_delim (by decide) (by decide)) (by decide)
      (fn_atPrefixIRI hT hC x0 (envOf st) p _ rr b _ _ _ (hiriref' (i + 2) rr _) (scalars_of_B hrs) hb) (by simpa using s4)
    have s2 := Steps.tok hT2 hC (f := ⟨x0, .atPrefixNS⟩) (s := ⟨x0, .statement⟩ :: s) (env := envOf st)
      (after_skip (T := T) hC .lang (ch.at i) (slot_ok hch _) _) hn1 hn3 hn4
      (fn_prefixNS hT hC true x0 (envOf st) p _ c0 tl0 hn2 hp (scalars_of_B hps)) (by simpa using s3)
    have s1 := Steps.tok hT2 hC (f := ⟨x0, .statement⟩) (s := s) (env := envOf st) hin
      (show pDir ⟨T, ch⟩ i (.prefixAt p rr) rest = 0x40 :: (0x70 :: (asc "refix" ++ after T .lang (ch.at i) (pNs ⟨T, ch⟩ (i + 1) p
          (pIriRef ⟨T, ch⟩ (i + 2) rr (pPunct ⟨T, ch⟩ (i + 3) 0x2e rest))))) by simp [pDir, asc_atprefix])
      (solid_delim (by decide) (by decide)) (by decide) (fn_statement_atprefix x0 (envOf st) _) (by simpa using s2)
    simpa [envOf, Env.addPrefix] using s1
  | baseAt rr =>
    simp only [dDir, Option.map_eq_some_iff] at hd
    obtain ⟨b, hb, rfl⟩ := hd
    have hrs : scalarsB rr = true := by simpa [dirWf] using hwf
    refine ⟨_, after_skip (T := T) hC .punct (ch.at (i + 2)) (slot_ok hch _) rest, ?_⟩
    have s3 := Steps.fol hT2 hC (f := ⟨x0, .atBaseDot b⟩) (s := ⟨x0, .statement⟩ :: s) (env := envOf st)
      (after_skip (T := T) hC .punct (ch.at (i + 1)) (slot_ok hch _) _) (hdot (i + 2) rest) (fn_atBaseDot x0 _ b _) (Steps.refl _)
    have s2 := Steps.tok hT2 hC (f := ⟨x0, .atBaseIRI⟩) (s := ⟨x0, .statement⟩ :: s) (env := envOf st)
      (after_skip (T := T) hC .lang (ch.at i) (slot_ok hch _) _) (hiriref (i + 1) rr _)
      (solid_delim (by decide) (by decide)) (by decide)
      (fn_atBaseIRI hT hC x0 (envOf st) _ rr b _ _ _ (hiriref' (i + 1) rr _) (scalars_of_B hrs) hb) (by simpa using s3)
    have s1 := Steps.tok hT2 hC (f := ⟨x0, .statement⟩) (s := s) (env := envOf st) hin
      (show pDir ⟨T, ch⟩ i (.baseAt rr) rest = 0x40 :: (0x62 :: (asc "ase" ++ after T .lang (ch.at i)
          (pIriRef ⟨T, ch⟩ (i + 1) rr (pPunct ⟨T, ch⟩ (i + 2) 0x2e rest)))) by simp [pDir, asc_atbase])
      (solid_delim (by decide) (by decide)) (by decide) (fn_statement_atbase x0 (envOf st) _) (by simpa using s2)
    simpa [envOf] using s1
  | prefixKw p rr =>
    simp only [dDir, Option.map_eq_some_iff] at hd
    obtain ⟨b, hb, rfl⟩ := hd
    simp only [dirWf, Bool.and_eq_true] at hwf
    obtain ⟨⟨hp, hps⟩, hrs⟩ := hwf
    refine ⟨_, after_skip (T := T) hC .punct (ch.at (i + 2)) (slot_ok hch _) rest, ?_⟩
    obtain ⟨c0, tl0, hn1, hn2, hn3, hn4⟩ := hns (i + 1) p (pIriRef ⟨T, ch⟩ (i + 2) rr rest) hp
    rcases afterKw_form (T := T) hC false (ch.at i) (slot_ok hch i) (pNs ⟨T, ch⟩ (i + 1) p (pIriRef ⟨T, ch⟩ (i + 2) rr rest))
      with ⟨w, tl, hform, hw, hsk⟩ | ⟨hlt, _⟩
    · have s3 := Steps.tok hT2 hC (f := ⟨x0, .sparqlPrefixIRI p⟩) (s := ⟨x0, .statement⟩ :: s) (env := envOf st)
        (after_skip (T := T) hC .punct (ch.at (i + 1)) (slot_ok hch _) (pIriRef ⟨T, ch⟩ (i + 2) rr rest)) (hiriref (i + 2) rr rest)
        (solid_delim (by decide) (by decide)) (by decide)
        (fn_sparqlPrefixIRI hT hC x0 (envOf st) p _ rr b _ _ _ (hiriref' (i + 2) rr rest) (scalars_of_B hrs) hb) (Steps.refl _)
      have s2 := Steps.tok hT2 hC (f := ⟨x0, .sparqlPrefixNS⟩) (s := ⟨x0, .statement⟩ :: s) (env := envOf st) hsk hn1 hn3 hn4
        (fn_prefixNS hT hC false x0 (envOf st) p _ c0 tl0 hn2 hp (scalars_of_B hps)) (by simpa using s3)
      obtain ⟨k0, ktl, hk⟩ : ∃ k0 ktl, kwCase (ch.at i).n (asc "PREFIX") ++ w :: tl = k0 :: ktl := by
        rw [asc_PREFIX]; simp [kwCase]
      have hk0 : isAlpha k0 = true := by
        rw [asc_PREFIX] at hk
        simp only [kwCase, List.cons_append, List.cons.injEq] at hk
        rw [← hk.1]; by_cases hn : (ch.at i).n % 2 = 1 <;> simp [hn] <;> decide
      have s1 := Steps.tok hT2 hC (f := ⟨x0, .statement⟩) (s := s) (env := envOf st) hin
        (show pDir ⟨T, ch⟩ i (.prefixKw p rr) rest = k0 :: ktl by rw [← hk]; simp [pDir, hform])
        (solid_pn (pnB_pn hT2 (hT2.alpha k0 hk0))) (fun hh => by subst hh; simp [isAlpha, NQ.isAlpha] at hk0)
        (fn_statement_PREFIX hC x0 (envOf st) _ w tl hw k0 ktl hk) (by simpa using s2)
      simpa [envOf, Env.addPrefix] using s1
    · cases hlt
  | baseKw rr =>
    simp only [dDir, Option.map_eq_some_iff] at hd
    obtain ⟨b, hb, rfl⟩ := hd
    have hrs : scalarsB rr = true := by simpa [dirWf] using hwf
    refine ⟨_, after_skip (T := T) hC .punct (ch.at (i + 1)) (slot_ok hch _) rest, ?_⟩
    have hk0 : ∀ k0 ktl R, kwCase (ch.at i).n (asc "BASE") ++ R = k0 :: ktl → isAlpha k0 = true := by
      intro k0 ktl R hk
      rw [asc_BASE] at hk
      simp only [kwCase, List.cons_append, List.cons.injEq] at hk
      rw [← hk.1]; by_cases hn : (ch.at i).n % 2 = 1 <;> simp [hn] <;> decide
    have s2 : ∀ inp2, SkEq C inp2 (pIriRef ⟨T, ch⟩ (i + 1) rr rest) →
        Steps C .eof ⟨⟨x0, .sparqlBaseIRI⟩ :: ⟨x0, .statement⟩ :: s, inp2, envOf st⟩ []
          ⟨⟨x0, .statement⟩ :: ⟨x0, .statement⟩ :: s, after T .punct (ch.at (i + 1)) rest,
            { (envOf st) with base := some b }⟩ := by
      intro inp2 h2
      simpa using Steps.tok hT2 hC (f := ⟨x0, .sparqlBaseIRI⟩) (s := ⟨x0, .statement⟩ :: s) (env := envOf st) h2 (hiriref (i + 1) rr _)
        (solid_delim (by decide) (by decide)) (by decide)
        (fn_sparqlBaseIRI hT hC x0 (envOf st) _ rr b _ _ _ (hiriref' (i + 1) rr _) (scalars_of_B hrs) hb) (Steps.refl _)
    rcases afterKw_form (T := T) hC true (ch.at i) (slot_ok hch i) (pIriRef ⟨T, ch⟩ (i + 1) rr rest)
      with ⟨w, tl, hform, hw, hsk⟩ | ⟨_, hform⟩
    · obtain ⟨k0, ktl, hk⟩ : ∃ k0 ktl, kwCase (ch.at i).n (asc "BASE") ++ w :: tl = k0 :: ktl := by
        rw [asc_BASE]; simp [kwCase]
      have hk0' := hk0 k0 ktl _ hk
      have hwne : w ≠ 0x3c := by intro hh; subst hh; simp [isWsRune] at hw
      have s1 := Steps.tok hT2 hC (f := ⟨x0, .statement⟩) (s := s) (env := envOf st) hin
        (show pDir ⟨T, ch⟩ i (.baseKw rr) rest = k0 :: ktl by rw [← hk]; simp [pDir, hform])
        (solid_pn (pnB_pn hT2 (hT2.alpha k0 hk0'))) (fun hh => by subst hh; simp [isAlpha, NQ.isAlpha] at hk0')
        (fn_statement_BASE hC x0 (envOf st) _ w tl (Or.inl hw) k0 ktl hk) (by simpa [hwne] using s2 tl hsk)
      simpa [envOf] using s1
    · obtain ⟨k0, ktl, hk⟩ : ∃ k0 ktl, kwCase (ch.at i).n (asc "BASE") ++ 0x3c ::
          (printIriBody (ch.at (i + 1)).cs rr ++ [0x3e] ++ after T .punct (ch.at (i + 1)) rest) = k0 :: ktl := by
        rw [asc_BASE]; simp [kwCase]
      have hk0' := hk0 k0 ktl _ hk
      have s1 := Steps.tok hT2 hC (f := ⟨x0, .statement⟩) (s := s) (env := envOf st) hin
        (show pDir ⟨T, ch⟩ i (.baseKw rr) rest = k0 :: ktl by rw [← hk, ← hiriref (i + 1) rr rest]; simp [pDir, hform])
        (solid_pn (pnB_pn hT2 (hT2.alpha k0 hk0'))) (fun hh => by subst hh; simp [isAlpha, NQ.isAlpha] at hk0')
        (fn_statement_BASE hC x0 (envOf st) _ 0x3c _ (Or.inr rfl) k0 ktl hk)
        (by simpa using s2 _ (by rw [hiriref]; simp [SkEq]))
      simpa [envOf] using s1

end
end RdfModel.C08
