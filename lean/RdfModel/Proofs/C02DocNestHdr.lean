/-
  Proofs.C02DocNestHdr — the header `newEncoder` / `Close` write (`TtlEnc.header`: `@base` / `BASE` /
  `@prefix` / `PREFIX` lines and the empty line) as printed directive blocks of an abstract document, and
  the state they take `TA.denote` into: `HdrOK` for every configuration.
-/
import RdfModel.Proofs.C02DocNestCfg
namespace RdfModel.Proofs.C02Doc
open RdfModel RdfModel.Ttl RdfModel.TtlEnc RdfModel.C02 RdfModel.Desc RdfModel.Spec.TtlPrint

variable {T : Tables} {C : TtlDoc.Cfg}

theorem print_raw_iri : ∀ (v : List Nat), (∀ c ∈ v, iriRawOK c = true) → printIriBody [] v = v
  | [], _ => rfl
  | c :: v, h => by
    simp only [printIriBody, List.head?_nil, Option.getD_none, List.tail_nil, printIriRune, h c List.mem_cons_self,
      ↓reduceIte, print_raw_iri v (fun x hx => h x (List.mem_cons_of_mem _ hx))]
    rfl

def dirBody : TA.Dir → List Nat
  | .baseAt r => asc "@base" ++ sp :: (0x3c :: (r ++ [0x3e])) ++ [sp, 0x2e]
  | .baseKw r => asc "BASE" ++ sp :: (0x3c :: (r ++ [0x3e]))
  | .prefixAt p r => asc "@prefix" ++ sp :: (p ++ 0x3a :: sp :: (0x3c :: (r ++ [0x3e]))) ++ [sp, 0x2e]
  | .prefixKw p r => asc "PREFIX" ++ sp :: (p ++ 0x3a :: sp :: (0x3c :: (r ++ [0x3e])))

def dirSl (t : List Nat) : TA.Dir → List TA.Slot
  | .baseAt _ => [tokSlot [] [sp], tokSlot [] [sp], tokSlot [] t]
  | .baseKw _ => [tokSlot [] [sp], tokSlot [] t]
  | .prefixAt _ _ => [tokSlot [] [sp], tokSlot [] [sp], tokSlot [] [sp], tokSlot [] t]
  | .prefixKw _ _ => [tokSlot [] [sp], tokSlot [] [sp], tokSlot [] t]

def dirIri : TA.Dir → List Nat
  | .baseAt r | .baseKw r | .prefixAt _ r | .prefixKw _ r => r

theorem tokSlot_cs (cs : List Choice) (t : List Nat) : (tokSlot cs t).cs = cs := rfl

def dirItem (d : TA.Dir) (t : List Nat) : BItem := ⟨.dir d, dirSl t d, dirBody d ++ t⟩

theorem noGlue_toks : ∀ (l : List (List Nat)), noGlue (l.map (tokSlot []))
  | [] => noGlue_nil
  | _ :: l => noGlue_cons.2 ⟨rfl, noGlue_toks l⟩

theorem dir_syn (d : TA.Dir) (hwf : C08.dirWf T d = true) (hiri : iriOK (dirIri d) = true) (t : List Nat)
    (ht : WS t) (htn : t ≠ []) : BSyn T (dirItem d t) where
  wf := by simpa [dirItem, C08.blockWf] using hwf
  nb := rfl
  len := by cases d <;> rfl
  ng := by
    cases d
    · exact noGlue_toks [[sp], [sp], [sp], t]
    · exact noGlue_toks [[sp], [sp], t]
    · exact noGlue_toks [[sp], [sp], t]
    · exact noGlue_toks [[sp], t]
  pr := by
    intro ch i rest hag
    have hraw := print_raw_iri (dirIri d) (rawOK_of_iriOK hiri)
    have hsp := ws_sp
    cases d with
    | prefixAt p r =>
      simp only [dirItem, dirSl] at hag
      obtain ⟨h0, hag⟩ := agree_cons.1 hag
      obtain ⟨h1, hag⟩ := agree_cons.1 hag
      obtain ⟨h2, hag⟩ := agree_cons.1 hag
      obtain ⟨h3, _⟩ := agree_cons.1 hag
      simp only [dirIri] at hraw
      simp only [dirItem, TA.pBlock, TA.pDir, TA.pNs, TA.pIriRef, TA.pPunct, h0, h1, h2, h3, after_tok _ _ [sp] hsp.1 hsp.2,
        after_tok _ _ t ht htn, printIRIREF, tokSlot_cs, hraw, dirBody]
      simp
    | baseAt r =>
      simp only [dirItem, dirSl] at hag
      obtain ⟨h0, hag⟩ := agree_cons.1 hag
      obtain ⟨h1, hag⟩ := agree_cons.1 hag
      obtain ⟨h2, _⟩ := agree_cons.1 hag
      simp only [dirIri] at hraw
      simp only [dirItem, TA.pBlock, TA.pDir, TA.pIriRef, TA.pPunct, h0, h1, h2, after_tok _ _ [sp] hsp.1 hsp.2,
        after_tok _ _ t ht htn, printIRIREF, tokSlot_cs, hraw, dirBody]
      simp
    | prefixKw p r =>
      simp only [dirItem, dirSl] at hag
      obtain ⟨h0, hag⟩ := agree_cons.1 hag
      obtain ⟨h1, hag⟩ := agree_cons.1 hag
      obtain ⟨h2, _⟩ := agree_cons.1 hag
      simp only [dirIri] at hraw
      have hk : TA.kwCase (tokSlot [] [sp]).n (asc "PREFIX") = asc "PREFIX" := by decide
      simp only [dirItem, TA.pBlock, TA.pDir, TA.pNs, TA.pIriRef, h0, h1, h2, hk, after_tok _ _ [sp] hsp.1 hsp.2,
        after_tok _ _ t ht htn, afterKw_ws false (tokSlot [] [sp]) [sp] hsp.1 hsp.2 rfl rfl, printIRIREF, tokSlot_cs, hraw, dirBody]
      simp
    | baseKw r =>
      simp only [dirItem, dirSl] at hag
      obtain ⟨h0, hag⟩ := agree_cons.1 hag
      obtain ⟨h1, _⟩ := agree_cons.1 hag
      simp only [dirIri] at hraw
      have hk : TA.kwCase (tokSlot [] [sp]).n (asc "BASE") = asc "BASE" := by decide
      simp only [dirItem, TA.pBlock, TA.pDir, TA.pIriRef, h0, h1, hk, after_tok _ _ t ht htn,
        afterKw_ws true (tokSlot [] [sp]) [sp] hsp.1 hsp.2 rfl rfl, printIRIREF, tokSlot_cs, hraw, dirBody]
      simp

/-- the directive blocks of a header: the last one is followed by the empty line -/
def dirItems : List TA.Dir → List BItem
  | [] => []
  | [d] => [dirItem d [nl, nl]]
  | d :: d2 :: ds => dirItem d [nl] :: dirItems (d2 :: ds)

theorem dirItems_b : ∀ (ds : List TA.Dir), (dirItems ds).map (·.b) = ds.map TA.Block.dir
  | [] => rfl
  | [_] => rfl
  | d :: d2 :: ds => by
    have := dirItems_b (d2 :: ds)
    simp only [dirItems, List.map_cons] at this ⊢
    rw [this]
    rfl

theorem ws_nl : WS [nl] ∧ [nl] ≠ [] := ws_nltabs 0

theorem ws_nlnl : WS [nl, nl] ∧ [nl, nl] ≠ [] := by
  refine ⟨?_, by simp⟩
  intro c hc
  simp only [List.mem_cons, List.mem_nil_iff, or_false, or_self] at hc
  exact Or.inr (Or.inr hc)

theorem dirItems_syn : ∀ (ds : List TA.Dir), (∀ d ∈ ds, C08.dirWf T d = true ∧ iriOK (dirIri d) = true) →
    ∀ x ∈ dirItems ds, BSyn T x
  | [], _, x, hx => by cases hx
  | [d], h, x, hx => by
    simp only [dirItems, List.mem_singleton] at hx
    subst hx
    exact dir_syn d (h d List.mem_cons_self).1 (h d List.mem_cons_self).2 _ ws_nlnl.1 ws_nlnl.2
  | d :: d2 :: ds, h, x, hx => by
    simp only [dirItems, List.mem_cons] at hx
    rcases hx with rfl | hx
    · exact dir_syn d (h d List.mem_cons_self).1 (h d List.mem_cons_self).2 _ ws_nl.1 ws_nl.2
    · exact dirItems_syn (d2 :: ds) (fun y hy => h y (List.mem_cons_of_mem _ hy)) x (by simpa [dirItems] using hx)

theorem dirItems_text : ∀ (ds : List TA.Dir), (dirItems ds).flatMap (·.text) =
    (if (ds.flatMap (fun d => dirBody d ++ [nl])).isEmpty then [] else ds.flatMap (fun d => dirBody d ++ [nl]) ++ [nl])
  | [] => rfl
  | [d] => by simp [dirItems, dirItem]
  | d :: d2 :: ds => by
    have ih := dirItems_text (d2 :: ds)
    have hne : ((d2 :: ds).flatMap (fun d => dirBody d ++ [nl])).isEmpty = false := by simp
    rw [hne] at ih
    simp only [Bool.false_eq_true, ↓reduceIte] at ih
    simp only [dirItems, List.flatMap_cons, dirItem] at ih ⊢
    rw [ih]
    simp

/-- the directives `WriteDirectives` writes -/
def hdrDirs (b : List Nat) (bm : DirMode) (ms : List Prefix.Mapping) (pmode : DirMode) : List TA.Dir :=
  (if b.isEmpty then [] else match bm with
    | .disabled => []
    | .sparql => [TA.Dir.baseKw b]
    | .at => [TA.Dir.baseAt b]) ++
  (match pmode with
    | .disabled => []
    | .sparql => ms.map (fun m => TA.Dir.prefixKw m.pfx m.expanded)
    | .at => ms.map (fun m => TA.Dir.prefixAt m.pfx m.expanded))

theorem header_eq (b : List Nat) (bm : DirMode) (ms : List Prefix.Mapping) (pmode : DirMode) :
    header b bm ms pmode = (dirItems (hdrDirs b bm ms pmode)).flatMap (·.text) := by
  have e1 : asc "@base <" = asc "@base" ++ [sp, 0x3c] := by decide
  have e2 : asc "> .\n" = [0x3e, sp, 0x2e, nl] := by decide
  have e3 : asc "BASE <" = asc "BASE" ++ [sp, 0x3c] := by decide
  have e4 : asc ">\n" = [0x3e, nl] := by decide
  have e5 : asc "@prefix " = asc "@prefix" ++ [sp] := by decide
  have e6 : asc ": <" = [0x3a, sp, 0x3c] := by decide
  have e7 : asc "PREFIX " = asc "PREFIX" ++ [sp] := by decide
  have hw : writeDirectives b bm ms pmode = (hdrDirs b bm ms pmode).flatMap (fun d => dirBody d ++ [nl]) := by
    unfold writeDirectives hdrDirs
    rw [List.flatMap_append]
    congr 1
    · unfold baseDirective
      cases b.isEmpty
      · cases bm <;> simp [dirBody, e1, e2, e3, e4]
      · rfl
    · cases pmode
      · simp only [List.flatMap_map]
        congr 1
        funext m
        simp [prefixDirective, dirBody, e5, e6, e2]
      · simp only [List.flatMap_map]
        congr 1
        funext m
        simp [prefixDirective, dirBody, e7, e6, e4]
      · simp only [List.flatMap_nil]
        rw [List.flatMap_eq_nil_iff]
        intro _ _
        rfl
  rw [dirItems_text, ← hw]
  rfl

/-! ### what the directives do to the state -/

theorem dDoc_prefixes (R : TA.Resolver) (kw : Bool) : ∀ (ms : List Prefix.Mapping) (st : TA.DState),
    (∀ m ∈ ms, R st.base m.expanded = some m.expanded) →
    TA.dDoc R st (ms.map (fun m => TA.Block.dir (if kw then .prefixKw m.pfx m.expanded else .prefixAt m.pfx m.expanded))) =
      some ([], { st with ns := (ms.map (fun m => (m.pfx, m.expanded))).reverse ++ st.ns })
  | [], st, _ => by cases st; rfl
  | m :: ms, st, h => by
    have ih := dDoc_prefixes R kw ms { st with ns := (m.pfx, m.expanded) :: st.ns }
      (fun x hx => h x (List.mem_cons_of_mem _ hx))
    have hm := h m List.mem_cons_self
    cases kw
    · simp only [Bool.false_eq_true, ↓reduceIte] at ih ⊢
      simp only [List.map_cons, TA.dDoc, TA.dBlock, TA.dDir, hm, Option.map_some, ih]
      simp
    · simp only [↓reduceIte] at ih ⊢
      simp only [List.map_cons, TA.dDoc, TA.dBlock, TA.dDir, hm, Option.map_some, ih]
      simp

/-- entries that all come from a table with unique labels answer with the table's namespace -/
theorem lookupNs_inv (ord : List Prefix.Mapping) (hnd : (ord.map (·.pfx)).Nodup) :
    ∀ (ns : List (List Nat × List Nat)), (∀ e ∈ ns, ∃ m' ∈ ord, e = (m'.pfx, m'.expanded)) →
    ∀ m ∈ ord, m.pfx ∈ ns.map (·.1) → TA.lookupNs m.pfx ns = some m.expanded
  | [], _, _, _, h => by cases h
  | e :: ns, hall, m, hm, hin => by
    obtain ⟨m', hm', rfl⟩ := hall _ List.mem_cons_self
    simp only [TA.lookupNs]
    by_cases heq : m'.pfx = m.pfx
    · have hmm : m' = m := by
        clear hall hin
        induction ord with
        | nil => cases hm
        | cons x ord ih =>
          simp only [List.map_cons, List.nodup_cons] at hnd
          rcases List.mem_cons.1 hm with rfl | hm1 <;> rcases List.mem_cons.1 hm' with rfl | hm2
          · rfl
          · exact absurd (heq ▸ List.mem_map_of_mem hm2) hnd.1
          · exact absurd (heq ▸ List.mem_map_of_mem hm1 : m'.pfx ∈ _) hnd.1
          · exact ih hnd.2 hm1 hm2
      simp [heq, hmm]
    · simp only [heq, ↓reduceIte]
      refine lookupNs_inv ord hnd ns (fun e he => hall e (List.mem_cons_of_mem _ he)) m hm ?_
      simp only [List.map_cons, List.mem_cons] at hin
      rcases hin with h | h
      · exact absurd h.symm heq
      · exact h


/-! ### `HdrOK` for every configuration -/

section Cfgs
variable {cfg : Config} {pm : Prefix.PM}

theorem getD_disabled {o : Option DirMode} (h : o.getD .at = .disabled) : o = some .disabled := by
  cases o with
  | none => cases h
  | some x => simp only [Option.getD_some] at h; rw [h]

/-- the header with modes `bm` / `pmode` listing the mappings `ms` of the table -/
theorem hdr_ok (hC : NestCfgOK C T) (hcfg : ConfigOK C.isSpace T cfg pm) (bm pmode : DirMode)
    (ms : List Prefix.Mapping) (hms : ∀ m ∈ ms, m ∈ pm.ordered) (D : List Nat → Prop)
    (hbm : bm = .disabled → cfg.baseMode = some .disabled)
    (hbm' : bm ≠ .disabled → cfg.base.isSome = true → cfg.baseMode ≠ some .disabled ∨ True)
    (hD : ∀ m ∈ pm.ordered, D m.pfx → (pmode ≠ .disabled → m ∈ ms) ∧ (pmode = .disabled → cfg.prefixMode = some .disabled)) :
    HdrOK T C cfg.base pm (header cfg.baseStr bm ms pmode) (defaultBase cfg) (defaultPrefixes cfg pm) D := by
  obtain ⟨hbi, hbn, hbs⟩ := base_facts hC.c02 hcfg
  rw [header_eq]
  -- well-formed directives
  have hpwf : ∀ m ∈ ms, C08.prefixOK2 T m.pfx = true ∧ C08.scalarsB m.pfx = true ∧ C08.scalarsB m.expanded = true ∧
      iriOK m.expanded = true := by
    intro m hm
    obtain ⟨hpo, hps, hnsp, _, _⟩ := labelSafe_parts (hcfg.labels m (hms m hm))
    have h1680 : m.pfx.contains 0x1680 = false := by
      cases hcon : m.pfx.contains 0x1680 with
      | false => rfl
      | true =>
        have hmem : (0x1680 : Nat) ∈ m.pfx := by simpa using hcon
        have := hnsp _ hmem
        rw [hC.og] at this
        cases this
    have hns := (hcfg.ns m (hms m hm)).1
    exact ⟨by simp only [C08.prefixOK2, hpo, h1680, Bool.not_false, Bool.and_true], scalarsB_of hps, scalarsB_of (scalars_of_iriOK hns), hns⟩
  have hdwf : ∀ d ∈ hdrDirs cfg.baseStr bm ms pmode, C08.dirWf T d = true ∧ iriOK (dirIri d) = true := by
    intro d hd
    simp only [hdrDirs, List.mem_append] at hd
    rcases hd with hd | hd
    · have hb : C08.scalarsB cfg.baseStr = true := scalarsB_of (scalars_of_iriOK hbi)
      split at hd
      · cases hd
      · cases bm <;> simp only [List.mem_singleton, List.mem_nil_iff] at hd
        · subst hd; exact ⟨hb, hbi⟩
        · subst hd; exact ⟨hb, hbi⟩
    · cases pmode <;> simp only [List.mem_map, List.mem_nil_iff] at hd
      · obtain ⟨m, hm, rfl⟩ := hd
        obtain ⟨h1, h2, h3, h4⟩ := hpwf m hm
        exact ⟨by simp [C08.dirWf, h1, h2, h3], h4⟩
      · obtain ⟨m, hm, rfl⟩ := hd
        obtain ⟨h1, h2, h3, h4⟩ := hpwf m hm
        exact ⟨by simp [C08.dirWf, h1, h2, h3], h4⟩
  -- the base part
  have hbase : TA.dDoc C.resolve { base := defaultBase cfg, ns := defaultPrefixes cfg pm, next := 0 }
      ((if cfg.baseStr.isEmpty then [] else match bm with
        | .disabled => []
        | .sparql => [TA.Dir.baseKw cfg.baseStr]
        | .at => [TA.Dir.baseAt cfg.baseStr]).map TA.Block.dir) =
      some ([], { base := cfg.base, ns := defaultPrefixes cfg pm, next := 0 }) := by
    cases hb : cfg.base with
    | none =>
      have : defaultBase cfg = none := by simp [defaultBase, hb]
      simp [hbn hb, this, TA.dDoc]
    | some b =>
      obtain ⟨hstr, hbe, hres⟩ := hbs b hb
      have hres0 : C.resolve (defaultBase cfg) b = some b := by
        unfold defaultBase
        split
        · rw [hb]; exact hres
        · exact hC.c02.res_none b
      rw [hstr, hbe]
      cases bm with
      | disabled =>
        have : defaultBase cfg = some b := by simp [defaultBase, hbm rfl, hb]
        simp [this, TA.dDoc]
      | sparql => simp [TA.dDoc, TA.dBlock, TA.dDir, hres0]
      | «at» => simp [TA.dDoc, TA.dBlock, TA.dDir, hres0]
  -- the prefix part
  have hres : ∀ m ∈ ms, C.resolve cfg.base m.expanded = some m.expanded :=
    fun m hm => ns_resolve hC.c02 hcfg m (hms m hm)
  have hpfx : ∃ decl : List Prefix.Mapping, (∀ m ∈ decl, m ∈ ms) ∧ (pmode ≠ .disabled → decl = ms) ∧
      TA.dDoc C.resolve { base := cfg.base, ns := defaultPrefixes cfg pm, next := 0 }
        ((match pmode with
          | .disabled => []
          | .sparql => ms.map (fun m : Prefix.Mapping => TA.Dir.prefixKw m.pfx m.expanded)
          | .at => ms.map (fun m : Prefix.Mapping => TA.Dir.prefixAt m.pfx m.expanded)).map TA.Block.dir) =
        some ([], { base := cfg.base, ns := (decl.map (fun m => (m.pfx, m.expanded))).reverse ++ defaultPrefixes cfg pm,
                    next := 0 }) := by
    cases pmode with
    | disabled => exact ⟨[], (by intro _ h; cases h), fun h => absurd rfl h, rfl⟩
    | sparql =>
      refine ⟨ms, fun _ h => h, fun _ => rfl, ?_⟩
      have := dDoc_prefixes C.resolve true ms { base := cfg.base, ns := defaultPrefixes cfg pm, next := 0 } hres
      simpa [List.map_map, Function.comp_def] using this
    | «at» =>
      refine ⟨ms, fun _ h => h, fun _ => rfl, ?_⟩
      have := dDoc_prefixes C.resolve false ms { base := cfg.base, ns := defaultPrefixes cfg pm, next := 0 } hres
      simpa [List.map_map, Function.comp_def] using this
  obtain ⟨decl, hdecl, hdeq, hpd⟩ := hpfx
  refine ⟨dirItems (hdrDirs cfg.baseStr bm ms pmode),
    { base := cfg.base, ns := (decl.map (fun m => (m.pfx, m.expanded))).reverse ++ defaultPrefixes cfg pm, next := 0 },
    dirItems_syn _ hdwf, rfl, ?_, rfl, ⟨rfl, ?_⟩⟩
  · rw [dirItems_b]
    unfold hdrDirs
    rw [List.map_append, dDoc_append, hbase]
    simp only [hpd, List.nil_append]
  · intro m hm hDm
    obtain ⟨hd1, hd2⟩ := hD m hm hDm
    refine lookupNs_inv pm.ordered hcfg.agree.nodup _ ?_ m hm ?_
    · intro e he
      rcases List.mem_append.1 he with he | he
      · simp only [List.mem_reverse, List.mem_map] at he
        obtain ⟨m', hm', rfl⟩ := he
        exact ⟨m', hms m' (hdecl m' hm'), rfl⟩
      · unfold defaultPrefixes at he
        split at he
        · obtain ⟨m', hm', rfl⟩ := List.mem_map.1 he
          exact ⟨m', hm', rfl⟩
        · cases he
    · simp only [List.map_append, List.map_reverse, List.map_map, Function.comp_def, List.mem_append, List.mem_reverse,
        List.mem_map]
      by_cases hpm : pmode = .disabled
      · right
        simp only [defaultPrefixes, hd2 hpm, ↓reduceIte]
        exact ⟨(m.pfx, m.expanded), List.mem_map_of_mem hm, rfl⟩
      · left
        rw [hdeq hpm]
        exact ⟨m, hd1 hpm, rfl⟩

theorem hdr_unbuffered (hC : NestCfgOK C T) (hcfg : ConfigOK C.isSpace T cfg pm) :
    HdrOK T C cfg.base pm (headerUnbuffered cfg pm) (defaultBase cfg) (defaultPrefixes cfg pm) (fun _ => True) := by
  unfold headerUnbuffered
  split
  · refine hdr_ok hC hcfg .at .at _ ?_ _ (fun h => nomatch h) (fun _ _ => Or.inr trivial) ?_
    · intro m hm
      exact (isortBy_perm _ _).mem_iff.1 hm
    · intro m hm _
      exact ⟨fun _ => (isortBy_perm _ _).mem_iff.2 hm, fun h => nomatch h⟩
  · next hc =>
    simp only [Bool.or_eq_true, Bool.not_eq_true', not_or, Bool.not_eq_true, Option.isSome_eq_false_iff,
      Option.isNone_iff_eq_none, Bool.not_eq_false, List.isEmpty_iff] at hc
    refine HdrOK.nil ⟨?_, ?_⟩
    · simp only [defaultBase, hc.1]
      split <;> rfl
    · intro m hm
      rw [hcfg.empty hc.2] at hm
      cases hm

theorem hdr_buffered (hC : NestCfgOK C T) (hcfg : ConfigOK C.isSpace T cfg pm) (used : List (List Nat)) :
    HdrOK T C cfg.base pm (headerBuffered cfg pm used) (defaultBase cfg) (defaultPrefixes cfg pm) (fun l => l ∈ used) := by
  unfold headerBuffered
  split
  · refine hdr_ok hC hcfg _ _ _ ?_ _ getD_disabled (fun _ _ => Or.inr trivial) ?_
    · intro m hm
      exact (hcfg.agree.agree m).2 (usedMappings_mem.1 hm).2
    · intro m hm hu
      exact ⟨fun _ => usedMappings_mem.2 ⟨hu, (hcfg.agree.agree m).1 hm⟩, getD_disabled⟩
  · next hc =>
    simp only [Bool.or_eq_true, Bool.not_eq_true', not_or, Bool.not_eq_true, Option.isSome_eq_false_iff,
      Option.isNone_iff_eq_none, Bool.not_eq_false, List.isEmpty_iff] at hc
    refine HdrOK.nil ⟨?_, ?_⟩
    · simp only [defaultBase, hc.1]
      split <;> rfl
    · intro m _ hu
      have : m.pfx ∈ dedup used := mem_dedup.2 hu
      rw [hc.2] at this
      cases this

end Cfgs

end RdfModel.Proofs.C02Doc
