package vh

import (
	"strings"
)

// ---------------------------------------------------------------- abstract terms (harness side)

type TermKind int

const (
	KIRI TermKind = iota
	KBNode
	KLit
)

// GTerm is a generated term. BNode holds a small integer identity.
type GTerm struct {
	Kind  TermKind
	IRI   string
	BNode int
	Lex   string
	DT    string
	Lang  string // non-empty iff DT == rdf:langString
}

type GQuad struct {
	S, P, O GTerm
	G       *GTerm
}

const (
	XSDString     = "http://www.w3.org/2001/XMLSchema#string"
	RDFLangString = "http://www.w3.org/1999/02/22-rdf-syntax-ns#langString"
	XSD           = "http://www.w3.org/2001/XMLSchema#"
)

func (t GTerm) Wire(label func(int) string) string {
	switch t.Kind {
	case KIRI:
		return "I" + XS(t.IRI)[1:]
	case KBNode:
		return "B" + XS(label(t.BNode))[1:]
	default:
		lang := "-"
		if t.DT == RDFLangString {
			lang = XS(t.Lang)[1:]
		}
		return "L" + XS(t.Lex)[1:] + "." + XS(t.DT)[1:] + "." + lang
	}
}

func (q GQuad) Wire(label func(int) string) string {
	g := "-"
	if q.G != nil {
		g = q.G.Wire(label)
	}
	return q.S.Wire(label) + " " + q.P.Wire(label) + " " + q.O.Wire(label) + " " + g
}

// ---------------------------------------------------------------- alphabets

// HotRunes: code points the escaping logic treats specially, plus class boundaries.
var HotRunes = []rune{
	0x00, 0x01, 0x07, 0x08, 0x09, 0x0A, 0x0B, 0x0C, 0x0D, 0x0E, 0x1F, 0x20, 0x21, '"', '#', '%', '\'', '-', '.', '/', ':',
	'<', '>', '@', '\\', '^', '_', '`', '{', '|', '}', '~', 0x7F, 0x80, 0x85, 0xA0, 0xB7, 0xBF, 0xC0, 0xD7, 0xE9, 0xFF, 0x100,
	0x2FF, 0x300, 0x36F, 0x370, 0x37E, 0x7FF, 0x800, 0x1680, 0x2000, 0x200C, 0x200D, 0x2028, 0x203F, 0x2040, 0x2070,
	0x218F, 0x2C00, 0x3000, 0x3001, 0xD7FF, 0xE000, 0xF900, 0xFDCF, 0xFDF0, 0xFFFD, 0xFFFE, 0xFFFF, 0x10000, 0x1F41B,
	0xEFFFF, 0xF0000, 0x10FFFF, 'a', 'Z', '0', '9', 'u', 'U', 't', 'n',
}

func (r *Rng) Scalar() rune {
	switch r.Intn(10) {
	case 0, 1, 2, 3:
		return Pick(r, HotRunes)
	case 4, 5:
		return rune(0x20 + r.Intn(0x5f))
	case 6:
		return rune(r.Intn(0x800))
	case 7:
		for {
			c := rune(r.Intn(0x10000))
			if c < 0xD800 || c > 0xDFFF {
				return c
			}
		}
	case 8:
		return rune(0x10000 + r.Intn(0x100000))
	default:
		return rune('a' + r.Intn(26))
	}
}

// LexicalForm: arbitrary string of scalar values.
func (r *Rng) LexicalForm() string {
	n := r.Intn(8)
	if r.Chance(5) {
		n = 20 + r.Intn(40)
	}
	var sb strings.Builder
	for i := 0; i < n; i++ {
		sb.WriteRune(r.Scalar())
	}
	return sb.String()
}

const alnum = "abcdefghijklmnopqrstuvwxyzABCDEFGHIJKLMNOPQRSTUVWXYZ0123456789"
const alpha = "abcdefghijklmnopqrstuvwxyzABCDEFGHIJKLMNOPQRSTUVWXYZ"

func (r *Rng) strFrom(alphabet string, min, max int) string {
	n := min + r.Intn(max-min+1)
	b := make([]byte, n)
	for i := range b {
		b[i] = alphabet[r.Intn(len(alphabet))]
	}
	return string(b)
}

// LangTag: [a-zA-Z]+ ('-' [a-zA-Z0-9]+)* with 1..4 subtags.
func (r *Rng) LangTag() string {
	s := r.strFrom(alpha, 1, 3)
	for i, n := 0, r.Intn(4); i < n; i++ {
		s += "-" + r.strFrom(alnum, 1, 4)
	}
	return s
}

var ucschars = []rune{0xA0, 0xE9, 0x3B1, 0x4E2D, 0xD7FF, 0xF900, 0xFDCF, 0xFDF0, 0xFFEF, 0x10000, 0x1F41B, 0x2FFFD, 0xE1000}

const unreserved = "abcdefghijklmnopqrstuvwxyzABCDEFGHIJKLMNOPQRSTUVWXYZ0123456789-._~"
const subdelims = "!$&'()*+,;="

func (r *Rng) ipchars(n int, extra string) string {
	var sb strings.Builder
	for i := 0; i < n; i++ {
		switch r.Intn(12) {
		case 0:
			sb.WriteString("%" + string("0123456789ABCDEFabcdef"[r.Intn(22)]) + string("0123456789ABCDEFabcdef"[r.Intn(22)]))
		case 1:
			sb.WriteRune(Pick(r, ucschars))
		case 2:
			sb.WriteByte(subdelims[r.Intn(len(subdelims))])
		case 3:
			if extra != "" {
				sb.WriteByte(extra[r.Intn(len(extra))])
			} else {
				sb.WriteByte('a')
			}
		default:
			sb.WriteByte(unreserved[r.Intn(len(unreserved))])
		}
	}
	return sb.String()
}

// IRIOpts selects which RFC 3987 corners the generator may visit.
type IRIOpts struct {
	Exotic bool // userinfo, ports, IPv6, pct-encoded host, opaque schemes, empty authority
}

// AbsIRI generates an absolute IRI from the RFC 3987 grammar.
func (r *Rng) AbsIRI(o IRIOpts) string {
	if !o.Exotic || r.Chance(60) {
		// common shape
		hosts := []string{"example.org", "a", "e.com", "xn--bcher-kva.example", "é.example", "192.0.2.1"}
		s := Pick(r, []string{"http", "https", "urn", "ex", "a"}) + "://" + Pick(r, hosts)
		for i, n := 0, r.Intn(3); i < n; i++ {
			s += "/" + r.ipchars(r.Intn(4), ":@")
		}
		if r.Chance(20) {
			s += "?" + r.ipchars(r.Intn(4), ":@/?")
		}
		if r.Chance(40) {
			s += "#" + r.ipchars(r.Intn(4), ":@/?")
		}
		return s
	}
	scheme := string(alpha[r.Intn(len(alpha))]) + r.strFrom(alnum+"+-.", 0, 4)
	switch r.Intn(4) {
	case 0: // opaque / rootless
		return scheme + ":" + r.ipchars(1+r.Intn(5), ":@/")
	case 1: // empty authority or absolute path, no authority
		if r.Bool() {
			return scheme + ":///" + r.ipchars(r.Intn(4), ":@/")
		}
		return scheme + ":/" + r.ipchars(r.Intn(4), ":@/")
	}
	auth := ""
	if r.Chance(30) {
		auth = r.ipchars(1+r.Intn(3), ":") + "@"
	}
	switch r.Intn(6) {
	case 0:
		auth += "[::1]"
	case 1:
		auth += "[2001:db8::7]"
	case 2:
		auth += r.ipchars(1+r.Intn(4), "") // may contain pct-encoded / ucschar / sub-delims
	default:
		auth += Pick(r, []string{"example.org", "a.b", "h"})
	}
	if r.Chance(30) {
		auth += ":" + r.strFrom("0123456789", 0, 4)
	}
	s := scheme + "://" + auth
	for i, n := 0, r.Intn(3); i < n; i++ {
		s += "/" + r.ipchars(r.Intn(4), ":@")
	}
	if r.Chance(30) {
		s += "?" + r.ipchars(r.Intn(4), ":@/?")
	}
	if r.Chance(30) {
		s += "#" + r.ipchars(r.Intn(4), ":@/?")
	}
	return s
}

var xsdTypes = []string{"integer", "decimal", "double", "boolean", "long", "date", "anyURI", "float"}

// Literal generates a well-formed literal term.
func (r *Rng) Literal(o IRIOpts) GTerm {
	switch r.Intn(6) {
	case 0, 1:
		return GTerm{Kind: KLit, Lex: r.LexicalForm(), DT: XSDString}
	case 2, 3:
		return GTerm{Kind: KLit, Lex: r.LexicalForm(), DT: RDFLangString, Lang: r.LangTag()}
	case 4:
		return GTerm{Kind: KLit, Lex: r.LexicalForm(), DT: XSD + Pick(r, xsdTypes)}
	default:
		return GTerm{Kind: KLit, Lex: r.LexicalForm(), DT: r.AbsIRI(o)}
	}
}

// DatasetOpts bounds a generated dataset.
type DatasetOpts struct {
	MaxQuads int
	NBNodes  int
	NIRIs    int
	Graphs   bool
	IRI      IRIOpts
}

// Dataset generates quads over a small pool of IRIs and blank nodes (so nodes are shared).
func (r *Rng) Dataset(o DatasetOpts) []GQuad {
	iris := make([]string, 1+r.Intn(o.NIRIs))
	for i := range iris {
		iris[i] = r.AbsIRI(o.IRI)
	}
	node := func() GTerm {
		if o.NBNodes > 0 && r.Chance(40) {
			return GTerm{Kind: KBNode, BNode: r.Intn(o.NBNodes)}
		}
		return GTerm{Kind: KIRI, IRI: Pick(r, iris)}
	}
	n := r.Intn(o.MaxQuads + 1)
	qs := make([]GQuad, 0, n)
	for i := 0; i < n; i++ {
		q := GQuad{S: node(), P: GTerm{Kind: KIRI, IRI: Pick(r, iris)}}
		if r.Chance(50) {
			q.O = r.Literal(o.IRI)
		} else {
			q.O = node()
		}
		if o.Graphs && r.Chance(50) {
			g := node()
			q.G = &g
		}
		qs = append(qs, q)
	}
	return qs
}

// Mutate applies a few byte-level edits drawn from a hot alphabet of delimiters.
func (r *Rng) Mutate(b []byte, hot []byte) []byte {
	out := append([]byte(nil), b...)
	for i, n := 0, 1+r.Intn(3); i < n; i++ {
		if len(out) == 0 {
			out = append(out, Pick(r, hot))
			continue
		}
		p := r.Intn(len(out))
		switch r.Intn(6) {
		case 0: // truncate
			out = out[:p]
		case 1: // delete one
			out = append(out[:p:p], out[p+1:]...)
		case 2: // insert hot
			out = append(out[:p:p], append([]byte{Pick(r, hot)}, out[p:]...)...)
		case 3: // replace with hot
			out[p] = Pick(r, hot)
		case 4: // duplicate a span
			q := p + r.Intn(len(out)-p+1)
			out = append(out[:q:q], append(append([]byte(nil), out[p:q]...), out[q:]...)...)
		default: // random byte
			out[p] = byte(r.Intn(256))
		}
	}
	return out
}
