/-
  Audit for part C09D (the RDF/XML decoder model): axioms used by every theorem of Props/C09Dec.lean
  (expected: a subset of {propext, Classical.choice, Quot.sound}).
-/
import RdfModel.Props.C09Dec
open RdfModel RdfModel.RXD RdfModel.C09Dec

#print axioms RdfModel.C09Dec.rxd_no_panic
#print axioms RdfModel.C09Dec.rxd_no_panic_needs_hyp
#print axioms RdfModel.C09Dec.rxd_emits_wf
#print axioms RdfModel.C09Dec.rxd_error_hides_statements
#print axioms RdfModel.C09Dec.rxd_decode_render_leaf
#print axioms RdfModel.C09Dec.rxd_refines_denote_partial
#print axioms RdfModel.C09Dec.rxd_decode_render_striped
#print axioms RdfModel.C09Dec.rxd_refines_denote_striped_partial
#print axioms RdfModel.C09Dec.rxd_decode_write_flat
#print axioms RdfModel.C09Dec.rxd_decode_write_partial
#print axioms RdfModel.C09Dec.rxd_accepts_more
#print axioms RdfModel.C09Dec.emptyRefNoFrag_rfc3986
#print axioms RdfModel.C09Dec.rxd_decode_write_flat_rfc3986
#print axioms RdfModel.C09Dec.Witness.rxd_refines_denote_witness
