// Relative datatype references: `"lex"^^<ref>` where <ref> only becomes a datatype IRI after resolution against
// the base in force (an @base / BASE directive and/or the decoder's default base). Under a base that is the RDF
// namespace document the references <#langString>, <22-rdf-syntax-ns#dirLangString>, … resolve to the datatypes
// of (directional) language-tagged strings, which cannot be written with an explicit datatype (no tag possible):
// the decoder has to refuse them *after* resolution. The helpers here are used by the grammar-directed generator
// (docGen), by dtDocs (counters only) and by the fixed corner documents below.
package main

import (
	"fmt"
	"regexp"
	"strings"

	"verifharness/vh"

	"github.com/dpb587/rdfkit-go/iri"
)

const (
	rdfNSDoc     = "http://www.w3.org/1999/02/22-rdf-syntax-ns"
	rdfNSSibling = "http://www.w3.org/1999/02/index.html"
	xsdNSDoc     = "http://www.w3.org/2001/XMLSchema"
	unknownBase  = "?" // docGen.curBase: a base is in force but the generator does not know its value
)

// resolveStr: what the repository's iri package makes of ref under base ("" = no base).
func resolveStr(base, ref string) (string, bool) {
	if base == "" {
		u, err := iri.ParseIRI(ref)
		if err != nil {
			return "", false
		}
		return u.String(), true
	}
	b, err := iri.ParseIRI(base)
	if err != nil {
		return "", false
	}
	u, err := b.Parse(ref)
	if err != nil {
		return "", false
	}
	return u.String(), true
}

// reldtClass classifies the relative datatype reference ref under base: what it resolves to.
func reldtClass(base, ref string) string {
	if base == "" || base == unknownBase {
		return "unresolved"
	}
	s, ok := resolveStr(base, ref)
	switch {
	case !ok || !hasScheme(s):
		return "unresolved"
	case s == rdfLangString:
		return "langString"
	case s == rdfDirLangString:
		return "dirLangString"
	}
	return "other"
}

// nextBase: the base in force after a base directive `<ref>` under cur ("" = none).
func nextBase(cur, ref string) string {
	if hasScheme(ref) {
		return ref
	}
	if cur == "" || cur == unknownBase {
		return unknownBase
	}
	s, ok := resolveStr(cur, ref)
	if !ok || !hasScheme(s) {
		return unknownBase
	}
	return s
}

var hdrBaseRe = regexp.MustCompile(`(?i)^@?base\s*<([^>]*)>`)

// hdrBase: the base in force after the header of a dtDocs form.
func hdrBase(base, hdr string) string {
	if m := hdrBaseRe.FindStringSubmatch(hdr); m != nil {
		return nextBase(base, m[1])
	}
	return base
}

// relDatatype writes `^^<ref>` with a relative reference and counts what it resolves to under the base the
// generator believes to be in force (counters `gen.reldt_<class>` and `gen.reldt_<class>:<context>`).
func (d *docGen) relDatatype() {
	frags := []string{"langString", "dirLangString", "HTML", "string", "integer"}
	pre := []string{"#", "22-rdf-syntax-ns#", "../02/22-rdf-syntax-ns#", "XMLSchema#"}
	if d.bias {
		// about a third of the literals of a biased document is refused (the first one ends the document)
		frags = []string{"langString", "dirLangString", "langString", "HTML", "XMLLiteral", "JSON", "HTML", "XMLLiteral", "type1"}
		switch {
		case d.curBase == rdfNSDoc:
			pre = []string{"#", "#", "#", "22-rdf-syntax-ns#", "./22-rdf-syntax-ns#", "../02/22-rdf-syntax-ns#", "/1999/02/22-rdf-syntax-ns#", "?q#"}
		case strings.HasPrefix(d.curBase, "http://www.w3.org/1999/02/"):
			pre = []string{"22-rdf-syntax-ns#", "22-rdf-syntax-ns#", "./22-rdf-syntax-ns#", "../02/22-rdf-syntax-ns#", "/1999/02/22-rdf-syntax-ns#", "//www.w3.org/1999/02/22-rdf-syntax-ns#", "#"}
		default:
			pre = []string{"#", "22-rdf-syntax-ns#", "../02/22-rdf-syntax-ns#", "//www.w3.org/1999/02/22-rdf-syntax-ns#", "/1999/02/22-rdf-syntax-ns#"}
		}
	}
	ref := vh.Pick(d.r, pre) + vh.Pick(d.r, frags)
	written := ref
	if d.bias && d.r.Chance(8) {
		// the last character as a UCHAR escape: the check has to look at the decoded, resolved IRI
		written = ref[:len(ref)-1] + fmt.Sprintf(vh.Pick(d.r, []string{"\\u%04X", "\\U%08X", "\\u%04x"}), ref[len(ref)-1])
	}
	d.sb.WriteString("^^<" + written + ">")
	cls := reldtClass(d.curBase, ref)
	d.count("gen.reldt_" + cls)
	if cls == "langString" || cls == "dirLangString" {
		d.harmful++
		switch {
		case d.inColl > 0:
			d.count("gen.reldt_" + cls + ":in-collection")
		case d.inBnpl > 0:
			d.count("gen.reldt_" + cls + ":in-bnode-property-list")
		default:
			d.count("gen.reldt_" + cls + ":plain-object")
		}
		if d.inGraph > 0 {
			d.count("gen.reldt_" + cls + ":in-graph-block")
		}
		if d.optBase != "" && d.curBase == d.optBase {
			d.count("gen.reldt_" + cls + ":under-default-base-option")
		} else {
			d.count("gen.reldt_" + cls + ":under-base-directive")
		}
	}
}

func (d *docGen) count(k string) {
	if d.stats == nil {
		d.stats = map[string]int{}
	}
	d.stats[k]++
}

// baseDirective writes a base directive for the given IRI reference in one of the two syntaxes.
func (d *docGen) baseDirective(ref string) {
	start := d.sb.Len()
	if d.r.Bool() {
		d.sb.WriteString("@base")
		d.ws(false)
		d.sb.WriteString("<" + ref + ">")
		d.ws(false)
		d.sb.WriteString(".")
	} else {
		d.sb.WriteString(caseMix(d.r, "BASE"))
		d.ws(false)
		d.sb.WriteString("<" + ref + ">")
	}
	d.hasBase = true
	d.curBase = nextBase(d.curBase, ref)
	d.spans = append(d.spans, span{start, d.sb.Len() - 1})
}

// rdfBaseRef: a base directive reference that makes the RDF namespace document (or a sibling of it) the base.
func (d *docGen) rdfBaseRef() string {
	refs := []string{rdfNSDoc, rdfNSDoc, rdfNSSibling, "http://www.w3.org/1999/02/", "http://www.w3.org/1999/02/x"}
	if strings.HasPrefix(d.curBase, "http://www.w3.org/1999/02/") {
		refs = append(refs, "22-rdf-syntax-ns", "./22-rdf-syntax-ns", "../02/22-rdf-syntax-ns", "index.html")
	}
	return vh.Pick(d.r, refs)
}

// reldtCorner: fixed documents around "the datatype is only known after resolution". `base` is the decoder's
// default base option.
type reldtCorner struct{ base, doc string }

var reldtCorners = []reldtCorner{
	// refused after resolution: fragment-only reference under the namespace document
	{"", "@base <http://www.w3.org/1999/02/22-rdf-syntax-ns> .\n<http://example.com/s> <http://example.com/p> \"x\"^^<#langString> .\n"},
	{"", "BASE <http://www.w3.org/1999/02/22-rdf-syntax-ns>\n<http://example.com/s> <http://example.com/p> 'x'^^<#dirLangString> ."},
	{rdfNSDoc, "<http://example.com/s> <http://example.com/p> \"x\"^^<#langString> ."},
	{rdfNSDoc, "<http://example.com/s> <http://example.com/p> \"\"\"x\"\"\"^^<#dirLangString> ."},
	// sibling reference
	{rdfNSSibling, "<http://example.com/s> <http://example.com/p> \"x\"^^<22-rdf-syntax-ns#langString> ."},
	{rdfNSSibling, "<http://example.com/g> { <http://example.com/s> <http://example.com/p> \"x\"^^<22-rdf-syntax-ns#langString> }\n"},
	{"", "@base <http://www.w3.org/1999/02/index.html> . <http://example.com/s> <http://example.com/p> \"x\"^^<22-rdf-syntax-ns#dirLangString> ."},
	{"http://www.w3.org/1999/02/", "<http://example.com/s> <http://example.com/p> \"x\"^^<./22-rdf-syntax-ns#langString> ."},
	{"http://www.w3.org/1999/x/y", "<http://example.com/s> <http://example.com/p> \"x\"^^<../02/22-rdf-syntax-ns#langString> ."},
	{"http://www.w3.org/a", "<http://example.com/s> <http://example.com/p> \"x\"^^</1999/02/22-rdf-syntax-ns#dirLangString> ."},
	{"http://e.example/a", "<http://example.com/s> <http://example.com/p> \"x\"^^<//www.w3.org/1999/02/22-rdf-syntax-ns#langString> ."},
	// inside collections, blank-node property lists, graph blocks; after accepted statements
	{"", "BASE <http://www.w3.org/1999/02/22-rdf-syntax-ns>\n<http://example.com/s> <http://example.com/p> ( 1 'x'^^<#dirLangString> ) .\n"},
	{"", "@base <http://www.w3.org/1999/02/22-rdf-syntax-ns> . <http://example.com/s> <http://example.com/p> ( ( \"x\"^^<#langString> ) ) ."},
	{"", "@base <http://www.w3.org/1999/02/22-rdf-syntax-ns> . <http://example.com/s> <http://example.com/p> [ <http://example.com/q> \"x\"^^<#langString> ] ."},
	{"", "@base <http://www.w3.org/1999/02/22-rdf-syntax-ns> . [ <http://example.com/q> \"x\"^^<#dirLangString> ] <http://example.com/p> 1 ."},
	{"", "@base <http://www.w3.org/1999/02/22-rdf-syntax-ns> . ( \"x\"^^<#langString> ) <http://example.com/p> 1 ."},
	{rdfNSSibling, "<http://example.com/s> <http://example.com/p> 1 , \"y\"^^<22-rdf-syntax-ns#HTML> ; <http://example.com/q> [ <http://example.com/r> ( \"x\"^^<22-rdf-syntax-ns#langString> ) ] ."},
	{"", "@base <http://www.w3.org/1999/02/22-rdf-syntax-ns> . { <http://example.com/s> <http://example.com/p> \"x\"^^<#langString> }"},
	{"", "@base <http://www.w3.org/1999/02/22-rdf-syntax-ns> . GRAPH <http://example.com/g> { <http://example.com/s> <http://example.com/p> \"y\"^^<#HTML> , \"x\"^^<#langString> . }"},
	{rdfNSDoc, "<http://example.com/g> { <http://example.com/s> <http://example.com/p> ( [ <http://example.com/q> 'x'^^<#dirLangString> ] ) }"},
	{rdfNSDoc, "_:g { [] <http://example.com/p> \"x\"^^<#langString> . }"},
	// the base changes: directive over option, second directive relative to the first
	{"http://other.example/d/f", "@base <http://www.w3.org/1999/02/22-rdf-syntax-ns> . <http://example.com/s> <http://example.com/p> \"x\"^^<#langString> ."},
	{"", "@base <http://www.w3.org/1999/02/x> . @base <22-rdf-syntax-ns> . <http://example.com/s> <http://example.com/p> \"x\"^^<#langString> ."},
	{"http://www.w3.org/1999/02/x", "BASE <22-rdf-syntax-ns> <http://example.com/s> <http://example.com/p> \"x\"^^<#dirLangString> ."},
	{"", "@base <http://www.w3.org/1999/02/22-rdf-syntax-ns> . <http://example.com/s> <http://example.com/p> \"y\"^^<#HTML> . @base <http://e.example/d> . <http://example.com/s> <http://example.com/p> \"x\"^^<#langString> ."},
	{rdfNSDoc, "<http://example.com/s> <http://example.com/p> \"y\"^^<#HTML> . @base <http://e.example/d> . <http://example.com/s> <http://example.com/p> \"x\"^^<#langString> . @base <http://www.w3.org/1999/02/22-rdf-syntax-ns> . <http://example.com/s> <http://example.com/p> \"x\"^^<#langString> ."},
	// the last character escaped; a base with a fragment (outside the model resolver's safe fragment, Go-side oracle only)
	{rdfNSDoc, "<http://example.com/s> <http://example.com/p> \"x\"^^<#langStrin\\u0067> ."},
	{"", "BASE <http://www.w3.org/1999/02/22-rdf-syntax-ns#>\n<http://example.com/s> <http://example.com/p> ( 1 'x'^^<#dirLangString> ) .\n"},
	// harmless: other datatypes of the same namespaces, near misses, the base itself
	{rdfNSDoc, "<http://example.com/s> <http://example.com/p> \"x\"^^<#HTML> , \"y\"^^<#XMLLiteral> , \"z\"^^<#JSON> ."},
	{rdfNSDoc, "<http://example.com/s> <http://example.com/p> \"x\"^^<#langstring> , \"y\"^^<#LangString> , \"z\"^^<#langString2> , \"w\"^^<#dirLangStrin> ."},
	{rdfNSDoc, "<http://example.com/s> <http://example.com/p> \"x\"^^<> , \"y\"^^<#> , \"z\"^^<?langString> , \"w\"^^<langString> ."},
	{rdfNSSibling, "<http://example.com/s> <http://example.com/p> \"x\"^^<#langString> , \"y\"^^<22-rdf-syntax-ns/#langString> , \"z\"^^<22-rdf-syntax-ns> ."},
	{xsdNSDoc, "<http://example.com/s> <http://example.com/p> \"1\"^^<#integer> , \"x\"^^<#string> , \"y\"^^<#langString> ."},
	{"", "@base <http://www.w3.org/2001/XMLSchema> . <http://example.com/g> { <http://example.com/s> <http://example.com/p> ( \"1\"^^<#integer> [ <http://example.com/q> \"x\"^^<XMLSchema#string> ] ) }"},
	{"", "<http://example.com/s> <http://example.com/p> \"x\"^^<#langString> ."},
	{"http://other.example/d/f", "<http://example.com/s> <http://example.com/p> \"x\"^^<#langString> , \"y\"^^<22-rdf-syntax-ns#langString> ."},
	// control: the spellings that do not depend on the base, and the tagged forms
	{"", "PREFIX rdf: <http://www.w3.org/1999/02/22-rdf-syntax-ns#>\n<http://example.com/s> <http://example.com/p> \"x\"^^rdf:langString ."},
	{rdfNSDoc, "<http://example.com/s> <http://example.com/p> \"x\"@en , \"y\"@en--ltr ."},
	{rdfNSDoc, "@prefix r: <#> . <http://example.com/s> <http://example.com/p> \"x\"^^r:langString ."},
}

// reldtCornerDocs runs the fixed documents like the other corner documents (both decoders, clean and failing
// reader, chunked) plus every proper prefix.
func (g *gen) reldtCornerDocs() {
	for _, c := range reldtCorners {
		doc := []byte(c.doc)
		g.c07("corner-reldt", c.base, doc, false)
		g.dec("corner-reldt", "turtle", true, c.base, doc, true)
		g.dec("corner-reldt", "trig", true, c.base, doc, true)
		g.c15chunk("turtle", c.base, doc, false)
		g.c15chunk("trig", c.base, doc, false)
		g.rep.Count("corner:reldt-docs")
	}
}
