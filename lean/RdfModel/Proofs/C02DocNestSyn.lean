/-
  Proofs.C02DocNestSyn — nested-resource mode of the Turtle encoder as a PRINTED abstract document
  (Spec/TurtleAbstract.lean): layout bookkeeping (the encoder's SP / TAB / LF between tokens as `Slot`
  layouts), slot-list agreement, and the token level: what `writeIRI` / `writeObject` / `writePredicate` /
  `writeSubject` wrote IS `TA.pIri` / `TA.pLit` / `TA.pVerb` / `TA.pBNode` of some abstract token under
  some spelling choices, and that token denotes the term.
-/
import RdfModel.Props.C02DocDefs
import RdfModel.Props.C08DocDefs
import RdfModel.Proofs.C02DocIRI
namespace RdfModel.Proofs.C02Doc
open RdfModel RdfModel.Ttl RdfModel.TtlEnc RdfModel.C02 RdfModel.Desc RdfModel.Spec.TtlPrint

/-! ### layout -/

def wsItem (c : Nat) : TA.LItem := if c = 0x09 then .ws 1 else if c = 0x0a then .ws 2 else .ws 0

/-- the layout items that render as the white-space text `t` -/
def wsLay (t : List Nat) : List TA.LItem := t.map wsItem

/-- text consisting of SP / TAB / LF only -/
def WS (t : List Nat) : Prop := ∀ c ∈ t, c = 0x20 ∨ c = 0x09 ∨ c = 0x0a

theorem renderItem_ws (b : Bool) (c : Nat) (h : c = 0x20 ∨ c = 0x09 ∨ c = 0x0a) : TA.renderItem b (wsItem c) = [c] := by
  rcases h with rfl | rfl | rfl <;> rfl

theorem renderLay_ws (b : Bool) : ∀ (t : List Nat), WS t → TA.renderLay b (wsLay t) = t
  | [], _ => rfl
  | [c], h => by
    simp only [wsLay, List.map_cons, List.map_nil, TA.renderLay]
    exact renderItem_ws b c (h c List.mem_cons_self)
  | c :: d :: t, h => by
    have ih := renderLay_ws b (d :: t) (fun x hx => h x (List.mem_cons_of_mem _ hx))
    simp only [wsLay, List.map_cons] at ih ⊢
    simp only [TA.renderLay]
    rw [ih, renderItem_ws false c (h c List.mem_cons_self)]
    rfl

theorem WS.append {a b : List Nat} (ha : WS a) (hb : WS b) : WS (a ++ b) := by
  intro c hc
  rcases List.mem_append.1 hc with h | h
  · exact ha c h
  · exact hb c h

theorem ws_tabs (n : Nat) : WS (tabs n) := by
  intro c hc
  simp only [tabs, List.mem_replicate] at hc
  exact Or.inr (Or.inl hc.2)

theorem ws_lead (m : Bool) (ind : Nat) : WS (lead m ind) ∧ lead m ind ≠ [] := by
  unfold lead
  cases m
  · refine ⟨?_, by simp⟩
    intro c hc
    simp only [Bool.false_eq_true, ↓reduceIte, List.mem_singleton] at hc
    exact Or.inl hc
  · refine ⟨?_, by simp⟩
    intro c hc
    simp only [↓reduceIte, List.mem_cons] at hc
    rcases hc with rfl | h
    · exact Or.inr (Or.inr rfl)
    · exact ws_tabs ind c h

theorem ws_sp : WS [sp] ∧ [sp] ≠ [] := by
  refine ⟨?_, by simp⟩
  intro c hc
  simp only [List.mem_singleton] at hc
  exact Or.inl hc

theorem ws_nltabs (n : Nat) : WS (nl :: tabs n) ∧ nl :: tabs n ≠ [] := by
  refine ⟨?_, by simp⟩
  intro c hc
  simp only [List.mem_cons] at hc
  rcases hc with rfl | h
  · exact Or.inr (Or.inr rfl)
  · exact ws_tabs n c h

variable {T : Tables}

theorem after_ws (k : TA.Prev) (s : TA.Slot) (t : List Nat) (h : WS t) (hne : t ≠ []) (hs : s.lay = wsLay t)
    (rest : List Nat) : TA.after T k s rest = t ++ rest := by
  unfold TA.after
  rw [hs, renderLay_ws _ t h]
  cases t with
  | nil => exact absurd rfl hne
  | cons c l => simp

theorem afterKw_ws (lt : Bool) (s : TA.Slot) (t : List Nat) (h : WS t) (hne : t ≠ []) (hs : s.lay = wsLay t)
    (hg : s.glue = false) (rest : List Nat) : TA.afterKw T lt s rest = t ++ rest := by
  unfold TA.afterKw
  rw [hg, hs, renderLay_ws _ t h]
  cases t with
  | nil => exact absurd rfl hne
  | cons c l =>
    have : TA.isWsRune c = true := by
      rcases h c List.mem_cons_self with rfl | rfl | rfl <;> rfl
    simp [this]

theorem after_punct_nil (s : TA.Slot) (hs : s.lay = []) (rest : List Nat) : TA.after T .punct s rest = rest := by
  unfold TA.after
  rw [hs]
  cases rest <;> simp [TA.renderLay, TA.clash]

/-- the slot of a token spelled with choices `cs` and followed by the white space `t` -/
def tokSlot (cs : List Choice) (t : List Nat) : TA.Slot := { lay := wsLay t, cs := cs }

/-! ### slot lists -/

/-- the choice list `ch` carries the slots `l` from position `i` on -/
def Agree (ch : TA.Choices) (i : Nat) (l : List TA.Slot) : Prop := ∀ k, k < l.length → ch.at (i + k) = l.getD k {}

theorem Agree.nil (ch : TA.Choices) (i : Nat) : Agree ch i [] := by intro k hk; cases hk

theorem agree_cons {ch : TA.Choices} {i : Nat} {s : TA.Slot} {l : List TA.Slot} :
    Agree ch i (s :: l) ↔ ch.at i = s ∧ Agree ch (i + 1) l := by
  constructor
  · intro h
    refine ⟨by simpa using h 0 (by simp), ?_⟩
    intro k hk
    have := h (k + 1) (by simpa using hk)
    simpa [Nat.add_assoc, Nat.add_comm 1 k] using this
  · rintro ⟨h0, h1⟩ k hk
    cases k with
    | zero => simpa using h0
    | succ k =>
      have := h1 k (by simpa using hk)
      simpa [Nat.add_assoc, Nat.add_comm 1 k] using this

theorem agree_append {ch : TA.Choices} {i : Nat} {a b : List TA.Slot} :
    Agree ch i (a ++ b) ↔ Agree ch i a ∧ Agree ch (i + a.length) b := by
  induction a generalizing i with
  | nil => simp [Agree.nil]
  | cons s a ih =>
    rw [List.cons_append, agree_cons, agree_cons, ih]
    simp only [List.length_cons, and_assoc]
    rw [show i + 1 + a.length = i + (a.length + 1) by omega]

def noGlue (l : List TA.Slot) : Prop := ∀ s ∈ l, s.glue = false

theorem noGlue_append {a b : List TA.Slot} : noGlue (a ++ b) ↔ noGlue a ∧ noGlue b := by
  simp only [noGlue, List.mem_append]
  constructor
  · intro h; exact ⟨fun s hs => h s (Or.inl hs), fun s hs => h s (Or.inr hs)⟩
  · rintro ⟨h1, h2⟩ s (hs | hs); exact h1 s hs; exact h2 s hs

theorem noGlue_cons {s : TA.Slot} {l : List TA.Slot} : noGlue (s :: l) ↔ s.glue = false ∧ noGlue l := by
  simp [noGlue]

theorem noGlue_nil : noGlue [] := by intro s hs; cases hs

/-! ### what the token-level theorems of Proofs/C02DocPrintTok.lean provide -/

/-- the encoder's spelling of a token value is one of the printer's spellings -/
structure TokPrint (T : Tables) : Prop where
  iri : ∀ r : List Nat, Scalars r → ∃ cs : List Choice, printIRIREF cs r = 0x3c :: (formatIRI T false r ++ [0x3e])
  str : ∀ lex : List Nat, ∃ cs : List Choice, printString .dq cs lex = formatLiteralLexicalForm T false lex
  loc : ∀ loc out : List Nat, Scalars loc → PNLocalOK T loc = true → format_PN_LOCAL T loc = some out →
    ∃ cs : List Choice, printLocal T cs loc = some out

/-- whether a value is the value of some PN_LOCAL does not depend on the spelling choices -/
theorem printLocalFrom_isSome_indep (T : Tables) : ∀ (l : List Nat) (f : Bool) (cs cs' : List Choice),
    (printLocalFrom T f cs l).isSome = (printLocalFrom T f cs' l).isSome
  | [], _, _, _ => rfl
  | c :: rest, f, cs, cs' => by
    have ih := printLocalFrom_isSome_indep T rest false cs.tail cs'.tail
    unfold printLocalFrom
    simp only
    generalize cs.head?.getD Choice.raw = ch
    generalize cs'.head?.getD Choice.raw = ch'
    generalize printLocalFrom T false cs.tail rest = A at ih ⊢
    generalize printLocalFrom T false cs'.tail rest = B at ih ⊢
    repeat' split
    all_goals simp_all

/-! ### decoder state -/

/-- the denotation's state agrees with the encoder's configuration: same base, every mapping of the
    manager that the document declares (`D`) is what the state's namespace list answers -/
structure StOK (base : Option (List Nat)) (pm : Prefix.PM) (D : List Nat → Prop) (st : TA.DState) : Prop where
  base : st.base = base
  pfx : ∀ m ∈ pm.ordered, D m.pfx → TA.lookupNs m.pfx st.ns = some m.expanded

theorem StOK.next {base : Option (List Nat)} {pm : Prefix.PM} {D : List Nat → Prop} {st : TA.DState}
    (h : StOK base pm D st) (n : Nat) : StOK base pm D { st with next := n } := ⟨h.base, h.pfx⟩

/-- what the proofs need of the decoder configuration: C02's and C08's assumptions, and U+1680 is white
    space for it (Go: `unicode.IsSpace`) — `labelSafe` then keeps it out of prefix labels -/
structure NestCfgOK (C : TtlDoc.Cfg) (T : Tables) : Prop where
  c02 : C02.CfgOK C T
  c08 : C08.CfgOK T C
  og : C.isSpace 0x1680 = true

theorem scalarsB_of {s : List Nat} (h : Scalars s) : C08.scalarsB s = true := by
  simp only [C08.scalarsB, List.all_eq_true]
  intro c hc
  exact (isScalarB_iff c).2 (h c hc)

/-! ### IRIs -/

section IRI
variable {β : Type} {C : TtlDoc.Cfg}

/-- Whatever `writeIRI` wrote is the printed form of an abstract `iri` token that is well-formed, is
    not a prefixed name with a `true…` / `false…` label, and denotes the IRI. -/
theorem iri_syn (hT : DocTablesOK T) (hC : NestCfgOK C T) (tp : TokPrint T) (c : Ctx β) (hcT : c.T = T)
    (base : Option (List Nat)) (hcb : c.base = base.map Prefix.newBaseIRI) (hbase : ∀ b, base = some b → baseOK b)
    (hlab : ∀ m ∈ c.pm.ordered, labelSafe C.isSpace T m.pfx = true)
    (v : List Nat) (hv : iriTermOK c base v) (w : Written) (hw : writeIRIForm c v = .ok w) :
    ∃ (x : TA.IriS) (cs : List Choice),
      C08.iriWf T x = true ∧ C08.objNoBoolPfx (.iri x) = true ∧
      (∀ (P : TA.PCtx) (s : TA.Slot), P.T = T → s.cs = cs → TA.iriText P s x = Written.text T w) ∧
      (∀ (D : List Nat → Prop) (st : TA.DState), StOK base c.pm D st → (∀ l ∈ usedOfIRI c.pm v, D l) →
        TA.iriOf C.resolve st x = some v) := by
  have hsv : Scalars v := scalars_of_iriOK hv.1
  unfold writeIRIForm at hw
  cases hcl : compactLocal c.T c.pm v with
  | some x =>
    obtain ⟨p, loc, out⟩ := x
    rw [hcl] at hw
    injection hw with hw
    subst hw
    unfold compactLocal at hcl
    cases hcp : Prefix.compact c.pm v with
    | none => rw [hcp] at hcl; cases hcl
    | some pr =>
      rw [hcp] at hcl
      simp only [Option.map_eq_some_iff, Prod.mk.injEq] at hcl
      obtain ⟨out', hfmt, h1, h2, h3⟩ := hcl
      subst h1 h2 h3
      rw [hcT] at hfmt
      obtain ⟨m, hm, hmp, hmv⟩ := compactIn_spec v c.pm.ordered pr hcp
      obtain ⟨hpo, hps, hnsp, hnt, hnf⟩ := labelSafe_parts (hlab m hm)
      rw [hmp] at hpo hps hnsp hnt hnf
      have hsl : Scalars pr.reference := by
        intro x hx
        exact hsv x (by rw [← hmv]; exact List.mem_append_right _ hx)
      have hrawl : ∀ x ∈ pr.reference, Spec.TtlPrint.iriRawOK x = true := by
        intro x hx
        exact rawOK_of_iriOK hv.1 x (by rw [← hmv]; exact List.mem_append_right _ hx)
      have hok : PNLocalOK T pr.reference = true := localOK_of_format T hT true _ _ hfmt hrawl
      obtain ⟨cs, hcs⟩ := tp.loc pr.reference out' hsl hok hfmt
      have h1680 : pr.pfx.contains 0x1680 = false := by
        cases hcon : pr.pfx.contains 0x1680 with
        | false => rfl
        | true =>
          have hmem : (0x1680 : Nat) ∈ pr.pfx := by simpa using hcon
          have := hnsp _ hmem
          rw [hC.og] at this
          cases this
      refine ⟨.pn pr.pfx pr.reference, cs, ?_, ?_, ?_, ?_⟩
      · simp only [C08.iriWf, C08.prefixOK2, hpo, h1680, scalarsB_of hps, scalarsB_of hsl, Bool.not_false, Bool.and_true,
          Bool.true_and]
        unfold printLocal at hcs ⊢
        rw [printLocalFrom_isSome_indep T pr.reference true [] cs, hcs]
        rfl
      · simp [C08.objNoBoolPfx, C08.boolPrefixed, hnt, hnf]
      · intro P s hP hs
        simp only [TA.iriText, printPrefixedName, hP, hs, hcs, Option.map_some, Option.getD_some, Written.text]
      · intro D st hst hD
        have hDm : D m.pfx := hD m.pfx (by simp [usedOfIRI, hcp, hmp])
        simp only [TA.iriOf]
        rw [← hmp, hst.pfx m hm hDm]
        simp [hmv]
  | none =>
    rw [hcl] at hw
    simp only at hw
    cases hb : base with
    | none =>
      rw [hb] at hcb
      simp only [Option.map_none] at hcb
      rw [hcb] at hw
      injection hw with hw
      subst hw
      obtain ⟨cs, hcs⟩ := tp.iri v hsv
      refine ⟨.ref v, cs, scalarsB_of hsv, rfl, ?_, ?_⟩
      · intro P s _ hs
        simp only [TA.iriText, hs, hcs, Written.text]
      · intro D st hst _
        simp only [TA.iriOf, hst.base, hb]
    | some b =>
      rw [hb] at hcb
      simp only [Option.map_some] at hcb
      rw [hcb] at hw
      simp only at hw
      have hbok := hbase b hb
      cases hrel : Prefix.relativizeB (Prefix.newBaseIRI b) v with
      | panic => rw [hrel] at hw; cases hw
      | some r =>
        rw [hrel] at hw
        injection hw with hw
        subst hw
        have hrel' : Prefix.relativize b v = .some r := hrel
        have hchk := Proofs.C13.relativize_checked b v r hrel'
        have hres : Prefix.goResolve b r = v := (hchk.2.1 hbok.2.2.1).2
        have hsr := scalars_of_relativize b v r hsv hrel'
        obtain ⟨cs, hcs⟩ := tp.iri r hsr
        refine ⟨.ref r, cs, scalarsB_of hsr, rfl, ?_, ?_⟩
        · intro P s _ hs
          simp only [TA.iriText, hs, hcs, Written.text]
        · intro D st hst _
          simp only [TA.iriOf, hst.base, hb, hC.c02.res_some, hres]
      | none =>
        rw [hrel] at hw
        injection hw with hw
        subst hw
        have hfull : writeIRIForm c v = .ok (.full v) := by
          unfold writeIRIForm
          rw [hcl, hcb]
          simp only [hrel]
        have hst' := hv.2 hfull
        simp only [stableUnder, hb, beq_iff_eq] at hst'
        obtain ⟨cs, hcs⟩ := tp.iri v hsv
        refine ⟨.ref v, cs, scalarsB_of hsv, rfl, ?_, ?_⟩
        · intro P s _ hs
          simp only [TA.iriText, hs, hcs, Written.text]
        · intro D st hst _
          simp only [TA.iriOf, hst.base, hb, hC.c02.res_some, hst']

end IRI

end RdfModel.Proofs.C02Doc
