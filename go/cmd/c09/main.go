// Command c09: RDF/XML. Grammar-directed plans (ways of writing a graph: striping and abbreviation
// choices, nested xml:base / xml:lang, rdf:ID, rdf:li, parseType …) are rendered to abstract XML trees by
// the Lean driver (RX.renderDoc) and here; each tree is serialised to XML text with random lexical
// choices (prefixes, default namespaces, shadowing, attribute order and quoting, entity and character
// references, CDATA, comments, processing instructions, white space) and decoded by rdfxml.Decoder with
// text-offset capture off and on. The triples are compared, up to blank-node isomorphism, with the
// graph the plan was generated for and with RX.denoteDoc computed by the driver; the two decoder
// configurations must agree exactly. The W3C RDF/XML test documents shipped with the repository are
// parsed into trees and pushed through the same comparison (and RX.denoteDoc is tested against the
// published N-Triples results).
package main

import (
	"bytes"
	"encoding/json"
	"flag"
	"fmt"
	"os"
	"runtime"
	"sort"
	"strings"
	"sync"

	"verifharness/vh"

	"github.com/dpb587/rdfkit-go/encoding/rdfxml"
	"github.com/dpb587/rdfkit-go/iri"
	"github.com/dpb587/rdfkit-go/rdf"
)

var (
	tier     = flag.String("tier", "quick", "quick|thorough")
	driver   = flag.String("driver", "/verif/lean/.lake/build/bin/driver", "lean driver binary")
	out      = flag.String("out", "/verif/evidence/.C09.c09.report.json", "report path")
	findings = flag.String("findings", "/verif/known-findings.json", "known findings")
	replay   = flag.String("replay", "", "replay file: lines `doc <xBASE> <xDOCUMENT>` or protocol lines `rx.plan …`")
	scale    = flag.Int("scale", 1, "multiply generated case counts (search mode uses 10)")
	nomodel  = flag.Bool("nomodel", false, "no driver: compare the decoder with the generator's intended graph and the two decoder configurations with each other")
	mode     = flag.String("mode", "", "\"\" = property C09 (documents vs denotation); \"dec\" = part C09D: token streams vs the decoder model (dec.go)")
	hints    = flag.String("hints", "", "file of protocol lines that disagreed; replayed first")
)

// ---------------------------------------------------------------- running the decoder

type goResult struct {
	triples []rdf.Triple
	err     string // "" = clean
	panicV  string
}

func goDecode(doc []byte, base string, offsets bool) (res goResult) {
	defer func() {
		if p := recover(); p != nil {
			res.panicV = fmt.Sprint(p)
		}
	}()
	d, err := rdfxml.NewDecoder(bytes.NewReader(doc), rdfxml.DecoderConfig{}.SetDefaultBase(base).SetCaptureTextOffsets(offsets))
	if err != nil {
		res.err = "new: " + err.Error()
		return
	}
	for d.Next() {
		res.triples = append(res.triples, d.Triple())
		if offsets {
			_ = d.StatementTextOffsets()
		}
	}
	if e := d.Err(); e != nil {
		res.err = e.Error()
	}
	return
}

// canon renders decoded triples with blank nodes numbered by first occurrence.
func canon(ts []rdf.Triple) string {
	ids := map[rdf.BlankNodeIdentifier]int{}
	bn := func(b rdf.BlankNode) string {
		n, ok := ids[b.Identifier]
		if !ok {
			n = len(ids)
			ids[b.Identifier] = n
		}
		return fmt.Sprint(n)
	}
	var out []string
	for _, t := range ts {
		out = append(out, vh.TermWire(t.Subject, bn)+","+vh.TermWire(t.Predicate, bn)+","+vh.TermWire(t.Object, bn))
	}
	return strings.Join(out, ";")
}

// errClass strips offsets from an error message (the offsets-on path wraps errors with positions).
func errClass(e string) string {
	if e == "" {
		return ""
	}
	for _, k := range []string{"attribute not allowed", "element not allowed", "duplicate name", "invalid name", "multiple name attributes",
		"directives not supported", "already found property value", "rdf:resource cannot be used", "parse base", "XML syntax error", "unexpected EOF", "render xml", "datatype requires a language tag"} {
		if strings.Contains(e, k) {
			return k
		}
	}
	return "other: " + e
}

// ---------------------------------------------------------------- expected triples (wire form) -> rdf

func unhex(h string) string {
	b, err := vh.UnX("x" + h)
	if err != nil {
		return "?"
	}
	return string(b)
}

type bnSpace struct {
	f rdf.BlankNodeFactory
	m map[string]rdf.BlankNode
}

func (s *bnSpace) term(w string) rdf.Term {
	switch w[0] {
	case 'I':
		return rdf.IRI(unhex(w[1:]))
	case 'G', 'N':
		if b, ok := s.m[w]; ok {
			return b
		}
		b := s.f.NewBlankNode()
		s.m[w] = b
		return b
	case 'L':
		f := strings.Split(w[1:], ".")
		l := rdf.Literal{LexicalForm: unhex(f[0]), Datatype: rdf.IRI(unhex(f[1]))}
		if f[2] != "-" {
			l.Tag = rdf.LanguageLiteralTag{Language: unhex(f[2])}
		}
		return l
	}
	return rdf.IRI("?" + w)
}

func wireTriples(s string) []string {
	if s == "-" || s == "" {
		return nil
	}
	return strings.Split(s, ";")
}

func quadsOfWire(ws []string) []rdf.Quad {
	sp := &bnSpace{f: rdf.NewBlankNodeFactory(), m: map[string]rdf.BlankNode{}}
	var out []rdf.Quad
	for _, w := range ws {
		f := strings.Split(w, ",")
		if len(f) != 3 {
			continue
		}
		out = append(out, rdf.Quad{Triple: rdf.Triple{
			Subject:   sp.term(f[0]).(rdf.SubjectValue),
			Predicate: sp.term(f[1]).(rdf.PredicateValue),
			Object:    sp.term(f[2]).(rdf.ObjectValue),
		}})
	}
	return out
}

func quadsOfGo(ts []rdf.Triple) []rdf.Quad {
	out := make([]rdf.Quad, len(ts))
	for i, t := range ts {
		out[i] = rdf.Quad{Triple: t}
	}
	return out
}

// normalisations used to recognise known defects (and to mask opaque XML literals of corpus documents)
type norm struct {
	emptyTagToPlain bool   // a language-tagged string with the empty tag -> xsd:string   (only the defect produces one)
	emptyLexNoLang  bool   // ""@l -> ""                                                  (both sides)
	maskXMLLiteral  bool   // lexical form of rdf:XMLLiteral -> ""                        (both sides)
	predViaResolve  string // non-empty: every predicate IRI is passed through ParsedIRI.Parse(..).String() with this base (both sides)
}

// goResolve is what evaluationContext.ResolveIRI computes.
func goResolve(base, v string) string {
	b, err := iri.ParseIRI(base)
	if err != nil {
		return v
	}
	r, err := b.Parse(v)
	if err != nil {
		return v
	}
	return r.String()
}

func (n norm) apply(qs []rdf.Quad) []rdf.Quad {
	out := make([]rdf.Quad, len(qs))
	for i, q := range qs {
		if n.predViaResolve != "" {
			if p, ok := q.Triple.Predicate.(rdf.IRI); ok {
				q.Triple.Predicate = rdf.IRI(goResolve(n.predViaResolve, string(p)))
			}
		}
		if l, ok := q.Triple.Object.(rdf.Literal); ok {
			if tag, ok := l.Tag.(rdf.LanguageLiteralTag); ok {
				if (n.emptyTagToPlain && tag.Language == "") || (n.emptyLexNoLang && l.LexicalForm == "") {
					l = rdf.Literal{LexicalForm: l.LexicalForm, Datatype: xsdString}
				}
			}
			if n.maskXMLLiteral && l.Datatype == rdfXMLLiteral {
				l.LexicalForm = ""
			}
			q.Triple.Object = l
		}
		out[i] = q
	}
	return out
}

// ---------------------------------------------------------------- predicates of the known findings

const (
	predLangEmpty = "xml-lang-empty-string"
	predResScope  = "resource-property-element-scope"
	predRdfPAttr  = "rdf-ns-property-attr-on-empty-element"
	predEmptyLang = "empty-literal-language"
	predPAttrPred = "property-attr-predicate-resolved"
)

type treeFacts struct {
	langEmpty    bool // some xml:lang=""
	resScope     bool // a resource property element carries xml:lang / xml:base
	rdfPAttr     bool // an empty property element carries a property attribute in the RDF namespace
	emptyInLang  bool // an attribute-less empty property element inside a language scope
	pattrOnEmpty bool // an empty property element carries a property attribute outside the RDF namespace
	hasXMLLit    bool
	maxDepth     int
	baseNesting  int
	stripped     *Node // the tree with xml:lang / xml:base removed from resource property elements
	nElems       int
	hasPlainAttr bool // attribute without namespace (outside the model)
}

var rdfSyntaxAttr = map[string]bool{"ID": true, "about": true, "nodeID": true, "resource": true, "datatype": true, "parseType": true}

// analyse walks the tree along the striping (node element / property element alternation).
func analyse(root *Node) *treeFacts {
	f := &treeFacts{}
	var node func(n *Node, lang bool, depth, bases int) *Node
	var prop func(n *Node, lang bool, depth, bases int) *Node
	scopeOf := func(n *Node, lang bool, bases int) (bool, int) {
		if v, ok := n.attr(xmlNS, "lang"); ok {
			lang = v != ""
			if v == "" {
				f.langEmpty = true
			}
		}
		if _, ok := n.attr(xmlNS, "base"); ok {
			bases++
			if bases > f.baseNesting {
				f.baseNesting = bases
			}
		}
		for _, a := range n.Attrs {
			if a.NS == "" {
				f.hasPlainAttr = true
			}
		}
		return lang, bases
	}
	copyShallow := func(n *Node) *Node { c := *n; c.Kids = nil; return &c }
	node = func(n *Node, lang bool, depth, bases int) *Node {
		if n.Kind != 'e' {
			return n
		}
		f.nElems++
		if depth > f.maxDepth {
			f.maxDepth = depth
		}
		lang, bases = scopeOf(n, lang, bases)
		c := copyShallow(n)
		for _, k := range n.Kids {
			c.Kids = append(c.Kids, prop(k, lang, depth+1, bases))
		}
		return c
	}
	prop = func(n *Node, lang bool, depth, bases int) *Node {
		if n.Kind != 'e' {
			return n
		}
		f.nElems++
		outerLang, outerBases := lang, bases
		lang, bases = scopeOf(n, lang, bases)
		c := copyShallow(n)
		pt, hasPT := n.attr(rdfNS, "parseType")
		hasElemKid := false
		for _, k := range n.Kids {
			if k.Kind == 'e' {
				hasElemKid = true
			}
		}
		switch {
		case hasPT && pt == "Resource":
			for _, k := range n.Kids {
				c.Kids = append(c.Kids, prop(k, lang, depth+1, bases))
			}
		case hasPT && pt == "Collection":
			for _, k := range n.Kids {
				c.Kids = append(c.Kids, node(k, lang, depth+1, bases))
			}
		case hasPT:
			f.hasXMLLit = true
			c.Kids = n.Kids
		case hasElemKid:
			_, hl := n.attr(xmlNS, "lang")
			_, hb := n.attr(xmlNS, "base")
			if hl || hb {
				f.resScope = true
				var as []Attr
				for _, a := range n.Attrs {
					if !(a.NS == xmlNS && (a.Name == "lang" || a.Name == "base")) {
						as = append(as, a)
					}
				}
				c.Attrs = as
				lang, bases = outerLang, outerBases
			}
			for _, k := range n.Kids {
				c.Kids = append(c.Kids, node(k, lang, depth+1, bases))
			}
		default:
			c.Kids = n.Kids
			if len(n.Kids) == 0 {
				plain := true
				for _, a := range n.Attrs {
					if a.NS == rdfNS && !rdfSyntaxAttr[a.Name] {
						f.rdfPAttr = true
					}
					if a.NS != rdfNS && a.NS != xmlNS && a.NS != "" {
						f.pattrOnEmpty = true
					}
					if !(a.NS == xmlNS || (a.NS == rdfNS && a.Name == "ID")) {
						plain = false
					}
				}
				if plain && lang {
					f.emptyInLang = true
				}
			}
		}
		return c
	}
	if root.NS == rdfNS && root.Name == "RDF" {
		f.nElems++
		lang, bases := scopeOf(root, false, 0)
		c := copyShallow(root)
		for _, k := range root.Kids {
			c.Kids = append(c.Kids, node(k, lang, 1, bases))
		}
		f.stripped = c
	} else {
		f.stripped = node(root, false, 0, 0)
	}
	return f
}

// ---------------------------------------------------------------- one document

type docCase struct {
	origin    string // "plan" | "w3c:<path>" | "replay"
	base      string
	doc       []byte
	tree      *Node
	wf        bool     // plan accepted by RX.wfDoc (plans only)
	intended  []string // the generator's graph (plans only; nil otherwise)
	denote    string   // "ok …" | "err:syntax" | "err:unsupported" | "" (no model)
	expectNT  []string // published result (W3C positive tests)
	negative  bool     // W3C negative syntax test
	plan      string   // protocol line (plans)
	denoteIso bool     // the denotation lists the intended triples in another order (graph route)
}

type pending struct {
	c     *docCase
	goOff goResult
	line  string // rx.denote of the stripped tree
	keys  []string
	what  string
	n     norm
}

type harness struct {
	rep   *vh.Report
	known map[string]vh.Finding
	mu    sync.Mutex
	pend  []*pending
}

func (h *harness) count(k string) {
	h.mu.Lock()
	h.rep.Hist[k]++
	h.mu.Unlock()
}

func (h *harness) add(c vh.Case) {
	h.mu.Lock()
	h.rep.Add(c)
	h.mu.Unlock()
}

func (c *docCase) describe() string {
	s := fmt.Sprintf("origin=%s base=%s doc=%s", c.origin, c.base, vh.X(c.doc))
	return s
}

func (c *docCase) replayLine() string { return "doc " + vh.XS(c.base) + " " + vh.X(c.doc) }

func short(b []byte) string {
	s := string(b)
	if len(s) > 600 {
		s = s[:600] + "…"
	}
	return s
}

// evaluate runs both decoder configurations on the document and compares.
func (h *harness) evaluate(c *docCase) {
	off := goDecode(c.doc, c.base, false)
	on := goDecode(c.doc, c.base, true)
	h.count("docs")
	fail := func(kind, what string) {
		h.add(vh.Case{Kind: kind, Op: c.replayLine(), Detail: what + " — " + c.origin + " base=" + c.base + " document: " + short(c.doc), Model: c.denote, Go: canon(off.triples) + "|" + off.err})
	}
	if off.panicV != "" || on.panicV != "" {
		fail("violation", "decoder panic: "+off.panicV+on.panicV)
		return
	}
	// the two tokenizer paths must agree: same triples in the same order, same error class
	if canon(off.triples) != canon(on.triples) || errClass(off.err) != errClass(on.err) {
		fail("violation", fmt.Sprintf("text-offset capture off and on disagree: off=%s|%s on=%s|%s", canon(off.triples), off.err, canon(on.triples), on.err))
		return
	}
	facts := analyse(c.tree)
	mask := norm{maskXMLLiteral: strings.HasPrefix(c.origin, "w3c")}

	// what the document denotes: the generator's graph for accepted plans, else RX.denoteDoc
	var expected []string
	haveExpected := false
	switch {
	case c.intended != nil && (c.wf || c.denote == ""):
		expected, haveExpected = c.intended, true
		if c.denote != "" && !c.denoteIso && c.denote != "ok "+joinWire(c.intended) {
			h.add(vh.Case{Kind: "disagreement", Op: c.plan, Model: c.denote, Go: joinWire(c.intended), Detail: "RX.denoteDoc of a plan accepted by RX.wfDoc differs from the generator's intended graph"})
		}
	case strings.HasPrefix(c.denote, "ok "):
		expected, haveExpected = wireTriples(c.denote[3:]), true
	}
	if c.expectNT != nil && strings.HasPrefix(c.denote, "ok ") {
		// test of the specification itself against the published result
		if !vh.Isomorphic(mask.apply(quadsOfWire(wireTriples(c.denote[3:]))), mask.apply(quadsOfWire(c.expectNT))) {
			h.add(vh.Case{Kind: "disagreement", Op: c.replayLine(), Model: c.denote, Go: joinWire(c.expectNT), Detail: "RX.denoteDoc differs from the published W3C result of " + c.origin})
		} else {
			h.count("w3c:denote-matches-published-result")
		}
	}
	if c.negative {
		h.count("w3c:negative denote=" + strings.SplitN(c.denote, " ", 2)[0] + " go=" + map[bool]string{true: "error", false: "accepts"}[off.err != ""])
	}
	if !haveExpected {
		h.count("skipped:" + c.denote)
		if strings.HasPrefix(c.origin, "w3c") && (c.denote == "err:unsupported" || (c.denote == "err:syntax" && off.err == "")) {
			h.count(c.origin + " denote=" + c.denote + " go=" + errClass(off.err))
		}
		if c.denote == "err:syntax" && off.err == "" {
			h.count("go-accepts-what-the-grammar-rejects")
		}
		return
	}
	h.mu.Lock()
	h.rep.Compared++
	h.mu.Unlock()
	goQ := quadsOfGo(off.triples)
	expQ := quadsOfWire(expected)
	if off.err == "" && vh.IsomorphicMulti(mask.apply(goQ), mask.apply(expQ)) {
		h.count("agree")
		return
	}
	// not the denoted graph: is it one of the known defects (and nothing else)?
	var keys []string
	has := func(p string) bool { _, ok := h.known[p]; return ok }
	if off.err != "" {
		if has(predRdfPAttr) && facts.rdfPAttr && errClass(off.err) == "attribute not allowed" {
			h.knownHit(c, []string{predRdfPAttr}, "decoder error: "+off.err)
			return
		}
		if has(predResScope) && facts.resScope && errClass(off.err) == "duplicate name" {
			// ignoring the xml:base of a resource property element can make two rdf:ID values collide:
			// known iff the tree without those attributes is ungrammatical
			if c.denote == "" {
				h.knownHit(c, []string{predResScope}, "decoder error: "+off.err+" (no model: not emulated)")
				return
			}
			h.mu.Lock()
			h.pend = append(h.pend, &pending{c: c, goOff: off, line: "rx.denote " + vh.XS(c.base) + " " + facts.stripped.Wire(), what: "decoder rejects a grammatical document: " + off.err})
			h.mu.Unlock()
			return
		}
		fail("violation", "decoder rejects a grammatical document: "+off.err)
		return
	}
	n := mask
	if has(predLangEmpty) && facts.langEmpty {
		n.emptyTagToPlain = true
		keys = append(keys, predLangEmpty)
	}
	if has(predEmptyLang) && facts.emptyInLang {
		n.emptyLexNoLang = true
		keys = append(keys, predEmptyLang)
	}
	if has(predPAttrPred) && facts.pattrOnEmpty {
		n.predViaResolve = c.base
		keys = append(keys, predPAttrPred)
	}
	what := fmt.Sprintf("decoder yields %s, the document denotes %s", canon(off.triples), joinWire(expected))
	if has(predResScope) && facts.resScope && c.denote != "" {
		// the defect ignores xml:lang / xml:base of resource property elements: compare with the
		// denotation of the tree without those attributes (second driver pass)
		h.mu.Lock()
		h.pend = append(h.pend, &pending{c: c, goOff: off, line: "rx.denote " + vh.XS(c.base) + " " + facts.stripped.Wire(), keys: append(keys, predResScope), what: what, n: n})
		h.mu.Unlock()
		return
	}
	if len(keys) > 0 && vh.IsomorphicMulti(n.apply(goQ), n.apply(expQ)) {
		h.knownHit(c, keys, what)
		return
	}
	if has(predResScope) && facts.resScope && c.denote == "" {
		h.knownHit(c, []string{predResScope}, what+" (no model: not emulated)")
		return
	}
	fail("violation", what)
}

func (h *harness) knownHit(c *docCase, keys []string, what string) {
	for _, k := range keys {
		f := h.known[k]
		h.mu.Lock()
		h.rep.Hist["known:"+f.Key]++
		first := h.rep.Hist["known:"+f.Key] <= 2 // the report keeps two examples per finding
		h.mu.Unlock()
		if first {
			h.add(vh.Case{Kind: "known", Key: f.Key, Op: c.replayLine(), Detail: f.What + " — " + what + " — document: " + short(c.doc)})
		}
	}
}

// resolvePending: second driver pass for documents whose mismatch may be the resource-property-scope defect.
func (h *harness) resolvePending(d vh.Driver) {
	if len(h.pend) == 0 {
		return
	}
	lines := make([]string, len(h.pend))
	for i, p := range h.pend {
		lines[i] = p.line
	}
	res, err := d.RunParallel(lines)
	if err != nil {
		res = make([]string, len(lines))
	}
	for i, p := range h.pend {
		if p.goOff.err != "" {
			if res[i] == "err:syntax" {
				h.knownHit(p.c, []string{predResScope}, p.what)
				continue
			}
		} else if strings.HasPrefix(res[i], "ok ") &&
			vh.IsomorphicMulti(p.n.apply(quadsOfGo(p.goOff.triples)), p.n.apply(quadsOfWire(wireTriples(res[i][3:])))) {
			h.knownHit(p.c, p.keys, p.what)
			continue
		} else if res[i] == "err:syntax" {
			// without the ignored xml:base two rdf:ID values collide, which the decoder does not notice for
			// rdf:ID on property elements: what it yields cannot be compared with anything
			h.count("known:" + predResScope + " (not emulated: rdf:ID collision after ignoring xml:base)")
			h.knownHit(p.c, []string{predResScope}, p.what)
			continue
		}
		h.add(vh.Case{Kind: "violation", Op: p.c.replayLine(), Model: p.c.denote, Go: canon(p.goOff.triples) + "|" + p.goOff.err, Detail: p.what + " — " + p.c.origin + " base=" + p.c.base + " document: " + short(p.c.doc)})
	}
	h.pend = nil
}

func (h *harness) hasKnown(p string) bool { _, ok := h.known[p]; return ok }

func joinWire(ws []string) string {
	if len(ws) == 0 {
		return "-"
	}
	return strings.Join(ws, ";")
}

// ---------------------------------------------------------------- batches of generated plans

type planItem struct {
	plan     *PDoc
	base     string
	intended []string
	line     string
	rng      *vh.Rng
	planted  bool // the generator planted an inconsistency: RX.wfDoc must reject the plan
}

func (h *harness) runPlans(n int, root *vh.Rng, d vh.Driver, perPlan int) {
	const batch = 20000
	feat := map[string]int{}
	serHist := map[string]int{}
	for done := 0; done < n; done += batch {
		m := batch
		if n-done < m {
			m = n - done
		}
		items := make([]planItem, m)
		lines := make([]string, m)
		for i := range items {
			r := root.Fork()
			p, base, intended, planted := genPlan(r, feat)
			items[i] = planItem{plan: p, base: base, intended: intended, rng: r, planted: planted}
			items[i].line = "rx.plan " + vh.XS(base) + " " + p.Wire()
			lines[i] = items[i].line
		}
		var res []string
		if !*nomodel {
			var err error
			res, err = d.RunParallel(lines)
			if err != nil {
				fmt.Fprintln(os.Stderr, err)
				os.Exit(2)
			}
		}
		var wg sync.WaitGroup
		nw := runtime.NumCPU()
		var hmu sync.Mutex
		for w := 0; w < nw; w++ {
			wg.Add(1)
			go func(w int) {
				defer wg.Done()
				local := map[string]int{}
				for i := w; i < m; i += nw {
					h.onePlan(&items[i], res, i, perPlan, local)
				}
				hmu.Lock()
				for k, v := range local {
					serHist[k] += v
				}
				hmu.Unlock()
			}(w)
		}
		wg.Wait()
		if !*nomodel {
			h.resolvePending(d)
		}
	}
	for k, v := range feat {
		h.rep.Hist["gen:"+k] += v
	}
	for k, v := range serHist {
		h.rep.Hist["ser:"+k] += v
	}
}

func (h *harness) onePlan(it *planItem, res []string, i, perPlan int, serHist map[string]int) {
	tree := it.plan.Render()
	c := docCase{origin: "plan", base: it.base, tree: tree, intended: it.intended, plan: it.line}
	if it.intended == nil {
		c.intended = []string{}
	}
	if res == nil && it.planted {
		return // without the model there is nothing to compare a deliberately inconsistent plan with
	}
	if res != nil {
		f := strings.Split(res[i], " | ")
		if len(f) != 4 {
			h.add(vh.Case{Kind: "disagreement", Op: it.line, Model: res[i], Detail: "driver did not answer rx.plan"})
			return
		}
		c.wf = f[0] == "1"
		c.denote = f[2]
		// consistency of the Go mirror with the Lean definitions (the trees must be identical, the
		// generator's graph must be RX.flatDoc of the plan)
		if strings.Join(strings.Fields(f[1]), " ") != tree.Wire() {
			h.add(vh.Case{Kind: "disagreement", Op: it.line, Model: f[1], Go: tree.Wire(), Detail: "RX.renderDoc differs from the harness's rendering of the plan"})
			return
		}
		if f[3] != joinWire(it.intended) {
			h.add(vh.Case{Kind: "disagreement", Op: it.line, Model: f[3], Go: joinWire(it.intended), Detail: "RX.flatDoc differs from the graph the generator intended"})
			return
		}
		if c.wf && it.planted {
			h.add(vh.Case{Kind: "disagreement", Op: it.line, Model: "wf=1", Detail: "RX.wfDoc accepts a plan in which the generator planted an inconsistency between a written form and its intended value"})
		}
		if c.wf {
			h.count("plan:wf")
		} else {
			h.count("plan:rejected-by-wf")
			c.intended = nil // the plan is not a valid way of writing its graph; fall back to RX.denoteDoc
		}
	}
	h.mu.Lock()
	h.rep.Eval(it.line, len(it.intended) > 0)
	h.mu.Unlock()
	for k := 0; k < perPlan; k++ {
		cc := c
		cc.doc = Serialise(it.rng, tree, false, serHist)
		h.evaluate(&cc)
	}
}

// ---------------------------------------------------------------- main

func main() {
	flag.Parse()
	if *mode == "dec" {
		mainDec()
		return
	}
	seed := vh.SeedFromEnv()
	rep := vh.NewReport("C09", *tier, seed, "grammar-directed RDF/XML plans (typed / rdf:Description node elements; rdf:about, rdf:ID, rdf:nodeID, anonymous subjects; property attributes incl. rdf:type; literal, typed, empty, rdf:resource, rdf:nodeID, nested, parseType Resource / Collection / Literal property elements; rdf:li and rdf:_n; rdf:ID reification; xml:base and xml:lang on any element; relative references; default bases and xml:base values of boundary shape (authority with empty path, empty query, empty fragment) with empty-path references (empty, '#', '#f', '?', '?q', rdf:ID) under them, pairs inside a known class of property C12 redrawn; at 3% a wide family: 9/10/11/99/100/101 rdf:li children mixed with explicit rdf:_n and a nested parseType=Resource counter, 50-300 property elements, 16-128 property attributes, character data / attribute values / IRIs around 256, 4096, 8192 and 65536 bytes, nesting to depth 50) x 2 random XML serialisations each (prefixes, default namespaces, shadowing, attribute order/quotes, entity and character references, CDATA, comments, PIs, white space) x text-offset capture off/on, plus random graphs of the fragment written by the Lean writer RX.writeAuto under random switch settings, plus the 169 W3C RDF/XML test documents; non-trivial = the plan / graph has at least one triple")
	fs, err := vh.LoadFindings(*findings)
	if err != nil {
		fmt.Fprintln(os.Stderr, "findings:", err)
		os.Exit(2)
	}
	h := &harness{rep: rep, known: vh.KnownKeys(fs, "C09")}
	for c := range vh.KnownKeys(fs, "C12") {
		c12KnownClasses[c] = true // the planner stays outside the known deviation classes of reference resolution (c12classes.go)
	}
	d := vh.Driver{Path: *driver}
	root := vh.NewRng(seed)

	replayFile := func(path string) {
		b, err := os.ReadFile(path)
		if err != nil {
			return
		}
		text := string(b)
		if strings.HasPrefix(strings.TrimSpace(text), "{") {
			// a replay file written by ./check: the `op` of every recorded case
			var rf struct {
				Violations    []vh.Case `json:"violations"`
				Disagreements []vh.Case `json:"disagreements"`
			}
			if json.Unmarshal(b, &rf) == nil {
				var ls []string
				for _, c := range append(rf.Violations, rf.Disagreements...) {
					ls = append(ls, c.Op)
				}
				text = strings.Join(ls, "\n")
			}
		}
		var cases []*docCase
		var lines []string
		var protoLines []string
		for _, l := range strings.Split(text, "\n") {
			f := strings.Fields(l)
			if len(f) == 3 && f[0] == "doc" {
				base, e1 := vh.UnX(f[1])
				doc, e2 := vh.UnX(f[2])
				if e1 != nil || e2 != nil {
					continue
				}
				tree, err := parseXMLTree(doc)
				if err != nil {
					continue
				}
				c := &docCase{origin: "replay", base: string(base), doc: doc, tree: tree}
				cases = append(cases, c)
				lines = append(lines, "rx.denote "+vh.X(base)+" "+tree.Wire())
			} else if len(f) > 2 && (f[0] == "rx.plan" || f[0] == "rx.write") && !*nomodel {
				protoLines = append(protoLines, strings.Join(f, " "))
			}
		}
		if !*nomodel && len(lines) > 0 {
			res, err := d.RunParallel(lines)
			if err == nil {
				for i, c := range cases {
					c.denote = res[i]
				}
			}
		}
		// protocol lines: the driver renders the tree again; it is serialised a few times and decoded
		if len(protoLines) > 0 {
			res, err := d.RunParallel(protoLines)
			for i, l := range protoLines {
				if err != nil {
					break
				}
				f := strings.Split(res[i], " | ")
				ti, di := 1, 2
				if len(f) != 4 && len(f) != 3 {
					h.add(vh.Case{Kind: "disagreement", Op: l, Model: res[i], Detail: "driver did not answer"})
					continue
				}
				sx, err := parseSexp(strings.Fields(f[ti]))
				if err != nil {
					continue
				}
				tree, err := treeOfSexp(sx)
				if err != nil {
					continue
				}
				base, _ := vh.UnX(strings.Fields(l)[1])
				r := vh.NewRng(seed)
				for k := 0; k < 4; k++ {
					c := &docCase{origin: "replay", base: string(base), tree: tree, denote: f[di], plan: l}
					c.doc = Serialise(r, tree, k == 0, nil)
					cases = append(cases, c)
				}
			}
		}
		for _, c := range cases {
			rep.Eval(c.replayLine(), true)
			h.evaluate(c)
		}
		if !*nomodel {
			h.resolvePending(d)
		}
	}

	if *replay != "" {
		replayFile(*replay)
	} else {
		if *hints != "" {
			replayFile(*hints)
		}
		// corpus first
		h.runCorpus(d)
		rep.Exhaustive = append(rep.Exhaustive, "every W3C RDF/XML test document shipped in the repository (169: 128 with a published N-Triples result, 41 negative syntax tests), both decoder configurations")
		plans := 5000 * *scale
		if *tier == "thorough" {
			plans = 250000 * *scale
		}
		h.runPlans(plans, root, d, 2)
		h.runGraphs(plans/2, root, d, 2)
	}
	if rep.Cases == nil {
		rep.Cases = []vh.Case{}
	}
	sort.SliceStable(rep.Cases, func(i, j int) bool { return rep.Cases[i].Kind > rep.Cases[j].Kind })
	if err := rep.Write(*out); err != nil {
		fmt.Fprintln(os.Stderr, err)
		os.Exit(2)
	}
	fmt.Printf("c09: %d plans/documents evaluated (%d decoded documents), %d compared with the denotation, %d failures, %d known\n",
		rep.Evaluations, rep.Hist["docs"], rep.Compared, rep.Failures(), len(rep.Cases)-rep.Failures())
	if rep.Failures() > 0 {
		os.Exit(1)
	}
}
