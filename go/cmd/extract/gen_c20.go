// T2/T1 facts for property C20 (XSD literal mapping) → lean/RdfModel/Gen/XsdFacts.lean.
//
// T2 (go/ast over ontology/xsd/xsdtype/*.go of the checkout named by VERIF_REPO, default /repo):
// per Map* function the strconv parser, base, bit size, whether its argument is
// xsdutil.WhiteSpaceCollapse(lexicalForm), the regular expression matched before the call, the
// time layouts; per type the underlying Go type and the formatter expressions of AsObjectValue and
// TermEquals. Shapes the walker does not understand are emitted as `.unknown` (never guessed).
// T1 (evaluation of the real package): datatype IRIs, boolean case partition and lexical forms,
// the formatter class of the float types (strconv.FormatFloat vs. the INF/-INF wrapper).
package main

import (
	"fmt"
	"go/ast"
	"go/parser"
	"go/token"
	"math"
	"os"
	"path/filepath"
	"strconv"
	"strings"

	"github.com/dpb587/rdfkit-go/ontology/xsd/xsdtype"
	"github.com/dpb587/rdfkit-go/rdf"
	"github.com/dpb587/rdfkit-go/rdf/objecttypes"
)

func init() { generators["xsd"] = genXsd }

type xsdPkg struct {
	funcs   map[string]*ast.FuncDecl // "MapByte", "Byte.AsObjectValue", …
	types   map[string]ast.Expr      // named type → underlying type expression
	regexps map[string]string        // package-level `var x = regexp.MustCompile(<lit>)` → source
}

func loadXsdPkg() (*xsdPkg, error) {
	repo := os.Getenv("VERIF_REPO")
	if repo == "" {
		repo = "/repo"
	}
	dir := filepath.Join(repo, "ontology", "xsd", "xsdtype")
	fset := token.NewFileSet()
	pkgs, err := parser.ParseDir(fset, dir, func(fi os.FileInfo) bool { return !strings.HasSuffix(fi.Name(), "_test.go") }, 0)
	if err != nil {
		return nil, err
	}
	p := &xsdPkg{funcs: map[string]*ast.FuncDecl{}, types: map[string]ast.Expr{}, regexps: map[string]string{}}
	for _, pkg := range pkgs {
		for _, f := range pkg.Files {
			for _, d := range f.Decls {
				switch d := d.(type) {
				case *ast.FuncDecl:
					name := d.Name.Name
					if d.Recv != nil && len(d.Recv.List) == 1 {
						if id, ok := d.Recv.List[0].Type.(*ast.Ident); ok {
							name = id.Name + "." + name
						}
					}
					p.funcs[name] = d
				case *ast.GenDecl:
					for _, s := range d.Specs {
						switch s := s.(type) {
						case *ast.TypeSpec:
							p.types[s.Name.Name] = s.Type
						case *ast.ValueSpec:
							if len(s.Names) == 1 && len(s.Values) == 1 {
								if c, ok := s.Values[0].(*ast.CallExpr); ok && isSel(c.Fun, "regexp", "MustCompile") && len(c.Args) == 1 {
									if src, ok := strLit(c.Args[0]); ok {
										p.regexps[s.Names[0].Name] = src
									}
								}
							}
						}
					}
				}
			}
		}
	}
	return p, nil
}

func isSel(e ast.Expr, pkg, name string) bool {
	s, ok := e.(*ast.SelectorExpr)
	if !ok {
		return false
	}
	id, ok := s.X.(*ast.Ident)
	return ok && id.Name == pkg && s.Sel.Name == name
}

func strLit(e ast.Expr) (string, bool) {
	b, ok := e.(*ast.BasicLit)
	if !ok || b.Kind != token.STRING {
		return "", false
	}
	s, err := strconv.Unquote(b.Value)
	return s, err == nil
}

func intLit(e ast.Expr) (int, bool) {
	neg := false
	if u, ok := e.(*ast.UnaryExpr); ok && u.Op == token.SUB {
		neg = true
		e = u.X
	}
	b, ok := e.(*ast.BasicLit)
	if !ok || b.Kind != token.INT {
		return 0, false
	}
	n, err := strconv.Atoi(b.Value)
	if neg {
		n = -n
	}
	return n, err == nil
}

// isCollapseCall: xsdutil.WhiteSpaceCollapse(<param>)
func isCollapseCall(e ast.Expr, param string) bool {
	c, ok := e.(*ast.CallExpr)
	if !ok || !isSel(c.Fun, "xsdutil", "WhiteSpaceCollapse") || len(c.Args) != 1 {
		return false
	}
	id, ok := c.Args[0].(*ast.Ident)
	return ok && id.Name == param
}

// argCollapse classifies the expression handed to the parser: 1 = WhiteSpaceCollapse(param),
// 0 = the raw parameter, -1 = not understood. The second accepted shape for 1 is a first
// statement `param = xsdutil.WhiteSpaceCollapse(param)` with no other assignment to param.
func argCollapse(fn *ast.FuncDecl, arg ast.Expr) int {
	if fn.Type.Params == nil || len(fn.Type.Params.List) != 1 || len(fn.Type.Params.List[0].Names) != 1 {
		return -1
	}
	param := fn.Type.Params.List[0].Names[0].Name
	if isCollapseCall(arg, param) {
		return 1
	}
	id, ok := arg.(*ast.Ident)
	if !ok || id.Name != param {
		return -1
	}
	assigns, firstIsCollapse := 0, false
	for i, st := range fn.Body.List {
		ast.Inspect(st, func(n ast.Node) bool {
			if as, ok := n.(*ast.AssignStmt); ok {
				for _, l := range as.Lhs {
					if lid, ok := l.(*ast.Ident); ok && lid.Name == param {
						assigns++
						if i == 0 && as.Tok == token.ASSIGN && len(as.Lhs) == 1 && len(as.Rhs) == 1 && isCollapseCall(as.Rhs[0], param) {
							if top, ok := st.(*ast.AssignStmt); ok && top == as {
								firstIsCollapse = true
							}
						}
					}
				}
			}
			return true
		})
	}
	switch {
	case assigns == 0:
		return 0
	case assigns == 1 && firstIsCollapse:
		return 1
	}
	return -1
}

// lexCheck finds `if !<re>.MatchString(<param>) { return …, <err> }` at the top level of the body,
// positioned before `before`. Returns the regexp source; ok=false when a MatchString call exists
// in a shape that is not understood.
func (p *xsdPkg) lexCheck(fn *ast.FuncDecl, before token.Pos) (src *string, ok bool) {
	ok = true
	param := fn.Type.Params.List[0].Names[0].Name
	understood := map[*ast.CallExpr]bool{}
	for _, st := range fn.Body.List {
		ifs, isIf := st.(*ast.IfStmt)
		if !isIf || ifs.Init != nil || ifs.Else != nil || ifs.Pos() > before {
			continue
		}
		u, isNot := ifs.Cond.(*ast.UnaryExpr)
		if !isNot || u.Op != token.NOT {
			continue
		}
		c, isCall := u.X.(*ast.CallExpr)
		if !isCall || len(c.Args) != 1 {
			continue
		}
		sel, isSelE := c.Fun.(*ast.SelectorExpr)
		if !isSelE || sel.Sel.Name != "MatchString" {
			continue
		}
		reID, isID := sel.X.(*ast.Ident)
		argID, isArg := c.Args[0].(*ast.Ident)
		if !isID || !isArg || argID.Name != param {
			continue
		}
		reSrc, known := p.regexps[reID.Name]
		if !known || len(ifs.Body.List) != 1 {
			continue
		}
		ret, isRet := ifs.Body.List[0].(*ast.ReturnStmt)
		if !isRet || len(ret.Results) != 2 || !isSel(ret.Results[1], "rdf", "ErrLiteralLexicalFormNotValid") {
			continue
		}
		if src != nil { // two checks: not a shape we model
			ok = false
		}
		s := reSrc
		src = &s
		understood[c] = true
	}
	ast.Inspect(fn.Body, func(n ast.Node) bool {
		if c, isCall := n.(*ast.CallExpr); isCall {
			if sel, isSelE := c.Fun.(*ast.SelectorExpr); isSelE && strings.HasPrefix(sel.Sel.Name, "Match") && !understood[c] {
				ok = false
			}
		}
		return true
	})
	return
}

// bodyShapeOK: every top-level statement of a Map* body is one the model accounts for — the
// collapse assignment (first), a lexical-check `if !re.MatchString(param) { return … }`, the
// `x, err := strconv.…(…)` assignment, `if err != nil { return … }`, the layout loop of the
// date/time family (time.Parse + `if err == nil { return … }` only), and the final return.
// Anything else (an extra check, a normalisation step, another parser) makes the facts `unknown`.
func bodyShapeOK(fn *ast.FuncDecl) bool {
	if fn.Type.Params == nil || len(fn.Type.Params.List) != 1 || len(fn.Type.Params.List[0].Names) != 1 {
		return false
	}
	param := fn.Type.Params.List[0].Names[0].Name
	singleReturn := func(b *ast.BlockStmt) bool {
		if len(b.List) != 1 {
			return false
		}
		_, ok := b.List[0].(*ast.ReturnStmt)
		return ok
	}
	errCmp := func(e ast.Expr, op token.Token) bool {
		b, ok := e.(*ast.BinaryExpr)
		if !ok || b.Op != op {
			return false
		}
		x, ok1 := b.X.(*ast.Ident)
		y, ok2 := b.Y.(*ast.Ident)
		return ok1 && ok2 && x.Name == "err" && y.Name == "nil"
	}
	for i, st := range fn.Body.List {
		last := i == len(fn.Body.List)-1
		switch st := st.(type) {
		case *ast.AssignStmt:
			if i == 0 && st.Tok == token.ASSIGN && len(st.Lhs) == 1 && len(st.Rhs) == 1 && isCollapseCall(st.Rhs[0], param) {
				if id, ok := st.Lhs[0].(*ast.Ident); ok && id.Name == param {
					continue
				}
			}
			if st.Tok == token.DEFINE && len(st.Lhs) == 2 && len(st.Rhs) == 1 {
				if c, ok := st.Rhs[0].(*ast.CallExpr); ok {
					if sel, ok := c.Fun.(*ast.SelectorExpr); ok {
						if id, ok := sel.X.(*ast.Ident); ok && id.Name == "strconv" {
							continue
						}
					}
				}
			}
			return false
		case *ast.IfStmt:
			if st.Init != nil || st.Else != nil || !singleReturn(st.Body) {
				return false
			}
			if errCmp(st.Cond, token.NEQ) {
				continue
			}
			if u, ok := st.Cond.(*ast.UnaryExpr); ok && u.Op == token.NOT {
				if c, ok := u.X.(*ast.CallExpr); ok && len(c.Args) == 1 {
					if sel, ok := c.Fun.(*ast.SelectorExpr); ok && sel.Sel.Name == "MatchString" {
						if a, ok := c.Args[0].(*ast.Ident); ok && a.Name == param {
							continue
						}
					}
				}
			}
			return false
		case *ast.RangeStmt:
			if len(st.Body.List) != 2 {
				return false
			}
			as, ok1 := st.Body.List[0].(*ast.AssignStmt)
			ifs, ok2 := st.Body.List[1].(*ast.IfStmt)
			if !ok1 || !ok2 || as.Tok != token.DEFINE || len(as.Rhs) != 1 || ifs.Init != nil || ifs.Else != nil || !errCmp(ifs.Cond, token.EQL) || !singleReturn(ifs.Body) {
				return false
			}
			if c, ok := as.Rhs[0].(*ast.CallExpr); !ok || !isSel(c.Fun, "time", "Parse") {
				return false
			}
		case *ast.SwitchStmt:
			// MapBoolean: cases are evaluated (T1) by the caller
		case *ast.ReturnStmt:
			if !last {
				return false
			}
		default:
			return false
		}
	}
	return true
}

func goIntOf(e ast.Expr) string {
	id, ok := e.(*ast.Ident)
	if !ok {
		return ""
	}
	switch id.Name {
	case "int8":
		return "⟨true, 8⟩"
	case "int16":
		return "⟨true, 16⟩"
	case "int32":
		return "⟨true, 32⟩"
	case "int64":
		return "⟨true, 64⟩"
	case "uint8", "byte":
		return "⟨false, 8⟩"
	case "uint16":
		return "⟨false, 16⟩"
	case "uint32":
		return "⟨false, 32⟩"
	case "uint64":
		return "⟨false, 64⟩"
	}
	return ""
}

// leanBytes renders a Go string as a Lean `List Nat` term.
func leanBytes(s string) string {
	plain := true
	for i := 0; i < len(s); i++ {
		if s[i] < 0x20 || s[i] > 0x7e {
			plain = false
		}
	}
	if plain {
		r := strings.NewReplacer(`\`, `\\`, `"`, `\"`)
		return `(asc "` + r.Replace(s) + `")`
	}
	parts := make([]string, len(s))
	for i := 0; i < len(s); i++ {
		parts[i] = fmt.Sprintf("0x%02X", s[i])
	}
	return "[" + strings.Join(parts, ", ") + "]"
}

func leanOptBytes(s *string) string {
	if s == nil {
		return "none"
	}
	return "(some " + leanBytes(*s) + ")"
}

func leanBool(b bool) string {
	if b {
		return "true"
	}
	return "false"
}

// stdCalls returns every call of pkg.<one of names> in the body.
func stdCalls(body *ast.BlockStmt, pkg string, names ...string) []*ast.CallExpr {
	var out []*ast.CallExpr
	ast.Inspect(body, func(n ast.Node) bool {
		if c, ok := n.(*ast.CallExpr); ok {
			for _, nm := range names {
				if isSel(c.Fun, pkg, nm) {
					out = append(out, c)
				}
			}
		}
		return true
	})
	return out
}

// intFormatter understands strconv.FormatInt(int64(v), 10) / strconv.FormatUint(uint64(v), 10).
func intFormatter(e ast.Expr) (fm, conv string, base int) {
	fm, conv, base = ".unknown", "⟨true, 0⟩", 0
	c, ok := e.(*ast.CallExpr)
	if !ok || len(c.Args) != 2 {
		return
	}
	switch {
	case isSel(c.Fun, "strconv", "FormatInt"):
		fm = ".formatInt"
	case isSel(c.Fun, "strconv", "FormatUint"):
		fm = ".formatUint"
	default:
		return
	}
	cv, ok := c.Args[0].(*ast.CallExpr)
	b, ok2 := intLit(c.Args[1])
	if !ok || !ok2 || len(cv.Args) != 1 || goIntOf(cv.Fun) == "" {
		return ".unknown", conv, 0
	}
	if id, ok := cv.Args[0].(*ast.Ident); !ok || id.Name != "v" {
		return ".unknown", conv, 0
	}
	return fm, goIntOf(cv.Fun), b
}

// litField returns the value of field `name` in the first rdf.Literal{…} composite literal of the body.
func litField(body *ast.BlockStmt, name string) ast.Expr {
	var out ast.Expr
	ast.Inspect(body, func(n ast.Node) bool {
		if cl, ok := n.(*ast.CompositeLit); ok && isSel(cl.Type, "rdf", "Literal") && out == nil {
			for _, el := range cl.Elts {
				if kv, ok := el.(*ast.KeyValueExpr); ok {
					if id, ok := kv.Key.(*ast.Ident); ok && id.Name == name {
						out = kv.Value
					}
				}
			}
		}
		return true
	})
	return out
}

// eqSides: in TermEquals, the datatype constant compared (`tLiteral.Datatype != xsdiri.X`) and the
// expression compared with tLiteral.LexicalForm in the last return statement.
func eqSides(fn *ast.FuncDecl) (dtConst string, other ast.Expr) {
	ast.Inspect(fn.Body, func(n ast.Node) bool {
		if b, ok := n.(*ast.BinaryExpr); ok && b.Op == token.NEQ && isSel(b.X, "tLiteral", "Datatype") {
			if s, ok := b.Y.(*ast.SelectorExpr); ok {
				dtConst = s.Sel.Name
			}
		}
		return true
	})
	if len(fn.Body.List) == 0 {
		return
	}
	if ret, ok := fn.Body.List[len(fn.Body.List)-1].(*ast.ReturnStmt); ok && len(ret.Results) == 1 {
		if b, ok := ret.Results[0].(*ast.BinaryExpr); ok && b.Op == token.EQL {
			switch {
			case isSel(b.X, "tLiteral", "LexicalForm"):
				other = b.Y
			case isSel(b.Y, "tLiteral", "LexicalForm"):
				other = b.X
			}
		}
	}
	return
}

func objDtConst(fn *ast.FuncDecl) string {
	if e := litField(fn.Body, "Datatype"); e != nil {
		if s, ok := e.(*ast.SelectorExpr); ok {
			return s.Sel.Name
		}
	}
	return ""
}

func datatypeOf(v objecttypes.Value) string {
	if l, ok := v.AsObjectValue().(rdf.Literal); ok {
		return string(l.Datatype)
	}
	return ""
}

func lexOf(v objecttypes.Value) string {
	if l, ok := v.AsObjectValue().(rdf.Literal); ok {
		return l.LexicalForm
	}
	return "\x00not-a-literal"
}

// sameDt: AsObjectValue and TermEquals name the same xsdiri constant, and TermEquals really
// answers true for the value's own literal and false for another datatype (evaluated).
func (p *xsdPkg) sameDt(goName string, probe objecttypes.Value) bool {
	obj, eq := p.funcs[goName+".AsObjectValue"], p.funcs[goName+".TermEquals"]
	if obj == nil || eq == nil {
		return false
	}
	c1 := objDtConst(obj)
	c2, _ := eqSides(eq)
	if goName == "Boolean" { // the literals are package variables
		c1 = c2
		if datatypeOf(probe) == "" {
			return false
		}
	}
	own := rdf.Literal{Datatype: rdf.IRI(datatypeOf(probe)), LexicalForm: lexOf(probe)}
	other := rdf.Literal{Datatype: rdf.IRI(datatypeOf(probe) + "x"), LexicalForm: lexOf(probe)}
	return c1 != "" && c1 == c2 && probe.TermEquals(own) && !probe.TermEquals(other) && !probe.TermEquals(rdf.IRI("http://e/"))
}

func genXsd(leanRoot string) {
	p, err := loadXsdPkg()
	if err != nil {
		fmt.Fprintln(os.Stderr, "xsd facts:", err)
		os.Exit(2)
	}
	var sb strings.Builder
	sb.WriteString("-- GENERATED by /verif/go/cmd/extract (gen_c20.go) from ontology/xsd/xsdtype of the repository. Do not edit.\n")
	sb.WriteString("-- T2: go/ast facts (parser, base, bit size, Go type, formatter, layouts, regular expressions); T1: evaluated datatype IRIs,\n")
	sb.WriteString("-- boolean cases and lexical forms, float formatter class.\n")
	sb.WriteString("import RdfModel.Model.Xsd\nnamespace RdfModel.Gen\nopen RdfModel RdfModel.Xsd RdfModel.Spec.Xsd\n\n")

	// ---- integer family
	ints := []struct {
		lean, goName string
		zero         objecttypes.Value
	}{
		{"integer", "Integer", xsdtype.Integer(7)}, {"long", "Long", xsdtype.Long(7)}, {"int", "Int", xsdtype.Int(7)},
		{"short", "Short", xsdtype.Short(7)}, {"byte", "Byte", xsdtype.Byte(7)},
		{"unsignedLong", "UnsignedLong", xsdtype.UnsignedLong(7)}, {"unsignedInt", "UnsignedInt", xsdtype.UnsignedInt(7)},
		{"unsignedShort", "UnsignedShort", xsdtype.UnsignedShort(7)}, {"unsignedByte", "UnsignedByte", xsdtype.UnsignedByte(7)},
	}
	sb.WriteString("def xsdIntFact : IntTy → IntFact\n")
	for _, t := range ints {
		parserK, collapse, base, bits := ".unknown", false, 0, 0
		goType := "⟨true, 0⟩"
		if fn := p.funcs["Map"+t.goName]; fn != nil {
			calls := stdCalls(fn.Body, "strconv", "ParseInt", "ParseUint", "ParseFloat", "Atoi")
			_, reOK := p.lexCheck(fn, token.Pos(1<<30))
			src, _ := p.lexCheck(fn, token.Pos(1<<30))
			if len(calls) == 1 && len(calls[0].Args) == 3 && reOK && src == nil && bodyShapeOK(fn) {
				c := calls[0]
				b, ok1 := intLit(c.Args[1])
				bs, ok2 := intLit(c.Args[2])
				ac := argCollapse(fn, c.Args[0])
				if ok1 && ok2 && b >= 0 && bs >= 0 && ac >= 0 && returnsConversion(fn, t.goName, c) {
					switch {
					case isSel(c.Fun, "strconv", "ParseInt"):
						parserK = ".parseInt"
					case isSel(c.Fun, "strconv", "ParseUint"):
						parserK = ".parseUint"
					}
					collapse, base, bits = ac == 1, b, bs
				}
			}
		}
		if u, ok := p.types[t.goName]; ok && goIntOf(u) != "" {
			goType = goIntOf(u)
		}
		objFmt, objConv, objBase := ".unknown", "⟨true, 0⟩", 0
		if fn := p.funcs[t.goName+".AsObjectValue"]; fn != nil {
			if e := litField(fn.Body, "LexicalForm"); e != nil {
				objFmt, objConv, objBase = intFormatter(e)
			}
		}
		eqFmt, eqConv, eqBase := ".unknown", "⟨true, 0⟩", 0
		if fn := p.funcs[t.goName+".TermEquals"]; fn != nil {
			if _, e := eqSides(fn); e != nil {
				eqFmt, eqConv, eqBase = intFormatter(e)
			}
		}
		fmt.Fprintf(&sb, "  | .%s => {\n      parser := %s, collapse := %s, base := %d, bitSize := %d, goType := %s,\n      objFmt := %s, objConv := %s, objBase := %d, eqFmt := %s, eqConv := %s, eqBase := %d,\n      datatype := %s, eqDatatypeSame := %s }\n",
			t.lean, parserK, leanBool(collapse), base, bits, goType, objFmt, objConv, objBase, eqFmt, eqConv, eqBase,
			leanBytes(datatypeOf(t.zero)), leanBool(p.sameDt(t.goName, t.zero)))
	}

	// ---- decimal / double / float
	type fprobe struct {
		mk   func(float64) objecttypes.Value
		bits int
	}
	floats := []struct {
		lean, goName string
		fprobe
	}{
		{"decimal", "Decimal", fprobe{func(f float64) objecttypes.Value { return xsdtype.Decimal(f) }, 64}},
		{"double", "Double", fprobe{func(f float64) objecttypes.Value { return xsdtype.Double(f) }, 64}},
		{"float", "Float", fprobe{func(f float64) objecttypes.Value { return xsdtype.Float(float32(f)) }, 32}},
	}
	sb.WriteString("\ndef xsdFloatFact : FloatTy → FloatFact\n")
	for _, t := range floats {
		parserK, collapse, bits := ".unknown", false, 0
		var re *string
		if fn := p.funcs["Map"+t.goName]; fn != nil {
			calls := stdCalls(fn.Body, "strconv", "ParseInt", "ParseUint", "ParseFloat")
			if len(calls) == 1 && len(calls[0].Args) == 2 && isSel(calls[0].Fun, "strconv", "ParseFloat") && bodyShapeOK(fn) {
				c := calls[0]
				bs, ok := intLit(c.Args[1])
				ac := argCollapse(fn, c.Args[0])
				src, reOK := p.lexCheck(fn, c.Pos())
				if ok && bs >= 0 && ac >= 0 && reOK && returnsConversion(fn, t.goName, c) {
					parserK, collapse, bits, re = ".parseFloat", ac == 1, bs, src
				}
			}
		}
		// formatter class by evaluation; bit size from the AST (last argument of the call)
		classify := func(lex func(float64) string) string {
			samples := []float64{0, 1.5, -2.25, 1e21, 1e-7, 123456789, math.MaxFloat32}
			for _, x := range samples {
				if lex(x) != strconv.FormatFloat(float64(float32(x)), 'f', -1, t.bits) && t.bits == 32 {
					return ".unknown"
				}
				if t.bits == 64 && lex(x) != strconv.FormatFloat(x, 'f', -1, 64) {
					return ".unknown"
				}
			}
			if lex(math.NaN()) != "NaN" {
				return ".unknown"
			}
			switch {
			case lex(math.Inf(1)) == "+Inf" && lex(math.Inf(-1)) == "-Inf":
				return ".formatFloat"
			case lex(math.Inf(1)) == "INF" && lex(math.Inf(-1)) == "-INF":
				return ".formatDouble"
			}
			return ".unknown"
		}
		lastArgBits := func(e ast.Expr) int {
			if c, ok := e.(*ast.CallExpr); ok && len(c.Args) >= 2 {
				if n, ok := intLit(c.Args[len(c.Args)-1]); ok && n >= 0 {
					return n
				}
			}
			return 0
		}
		objFmt, objBits := ".unknown", 0
		if fn := p.funcs[t.goName+".AsObjectValue"]; fn != nil {
			if e := litField(fn.Body, "LexicalForm"); e != nil {
				objBits = lastArgBits(e)
				objFmt = classify(func(x float64) string { return lexOf(t.mk(x)) })
			}
		}
		eqFmt, eqBits := ".unknown", 0
		if fn := p.funcs[t.goName+".TermEquals"]; fn != nil {
			if _, e := eqSides(fn); e != nil {
				eqBits = lastArgBits(e)
				dt := rdf.IRI(datatypeOf(t.mk(0)))
				// TermEquals(v, lit) must hold exactly for the candidate text
				eqFmt = classify(func(x float64) string {
					v := t.mk(x)
					for _, cand := range []string{lexOf(v), strconv.FormatFloat(x, 'f', -1, t.bits), "INF", "-INF", "+Inf", "-Inf", "NaN"} {
						if v.TermEquals(rdf.Literal{Datatype: dt, LexicalForm: cand}) {
							return cand
						}
					}
					return "\x00none"
				})
			}
		}
		fmt.Fprintf(&sb, "  | .%s => {\n      parser := %s, collapse := %s, bitSize := %d, lexRE := %s,\n      objFmt := %s, objBits := %d, eqFmt := %s, eqBits := %d,\n      datatype := %s, eqDatatypeSame := %s }\n",
			t.lean, parserK, leanBool(collapse), bits, leanOptBytes(re), objFmt, objBits, eqFmt, eqBits,
			leanBytes(datatypeOf(t.mk(0))), leanBool(p.sameDt(t.goName, t.mk(1.5))))
	}

	// ---- string-like
	strs := []struct {
		lean, goName string
		probe        objecttypes.Value
	}{
		{"anyURI", "AnyURI", xsdtype.AnyURI("a b")}, {"base64Binary", "Base64Binary", xsdtype.Base64Binary("AAAA")},
		{"hexBinary", "HexBinary", xsdtype.HexBinary("0aFF")}, {"string", "String", xsdtype.String(" x ")},
	}
	sb.WriteString("\ndef xsdStrFact : StrTy → StrFact\n")
	for _, t := range strs {
		collapse, okShape := false, false
		var re *string
		if fn := p.funcs["Map"+t.goName]; fn != nil && len(stdCalls(fn.Body, "strconv", "ParseInt", "ParseUint", "ParseFloat")) == 0 && bodyShapeOK(fn) {
			// the last statement returns T(<arg>), nil
			if ret, ok := fn.Body.List[len(fn.Body.List)-1].(*ast.ReturnStmt); ok && len(ret.Results) == 2 {
				if c, ok := ret.Results[0].(*ast.CallExpr); ok && len(c.Args) == 1 {
					if id, ok := c.Fun.(*ast.Ident); ok && id.Name == t.goName {
						ac := argCollapse(fn, c.Args[0])
						src, reOK := p.lexCheck(fn, ret.Pos())
						if ac >= 0 && reOK {
							collapse, okShape, re = ac == 1, true, src
						}
					}
				}
			}
		}
		// AsObjectValue must be the identity on the stored string, TermEquals string equality (evaluated on the probe)
		if lexOf(t.probe) != fmt.Sprintf("%s", t.probe) {
			okShape = false
		}
		if !okShape {
			unk := "\x00unknown-shape"
			re = &unk
		}
		fmt.Fprintf(&sb, "  | .%s => { collapse := %s, lexRE := %s, datatype := %s, eqDatatypeSame := %s }\n",
			t.lean, leanBool(collapse), leanOptBytes(re), leanBytes(datatypeOf(t.probe)), leanBool(p.sameDt(t.goName, t.probe)))
	}

	// ---- date/time family
	times := []struct {
		lean, goName string
		probe        objecttypes.Value
	}{
		{"date", "Date", xsdtype.Date{Layout: "x"}}, {"dateTime", "DateTime", xsdtype.DateTime{Layout: "x"}},
		{"dateTimeStamp", "DateTimeStamp", xsdtype.DateTimeStamp{Layout: "x"}}, {"gDay", "GDay", xsdtype.GDay{Layout: "x"}},
		{"gMonth", "GMonth", xsdtype.GMonth{Layout: "x"}}, {"gMonthDay", "GMonthDay", xsdtype.GMonthDay{Layout: "x"}},
		{"gYear", "GYear", xsdtype.GYear{Layout: "x"}}, {"gYearMonth", "GYearMonth", xsdtype.GYearMonth{Layout: "x"}},
		{"time", "Time", xsdtype.Time{Layout: "x"}},
	}
	sb.WriteString("\ndef xsdTimeFact : TimeTy → TimeFact\n")
	for _, t := range times {
		collapse := false
		layouts := []string{"\x00unknown-shape"}
		if fn := p.funcs["Map"+t.goName]; fn != nil {
			var rng *ast.RangeStmt
			for _, st := range fn.Body.List {
				if r, ok := st.(*ast.RangeStmt); ok {
					if rng != nil {
						rng = nil
						break
					}
					rng = r
				}
			}
			if rng != nil && bodyShapeOK(fn) {
				if cl, ok := rng.X.(*ast.CompositeLit); ok {
					var ls []string
					good := true
					for _, el := range cl.Elts {
						s, ok := strLit(el)
						good = good && ok
						ls = append(ls, s)
					}
					calls := stdCalls(rng.Body, "time", "Parse")
					val, isID := rng.Value.(*ast.Ident)
					if good && isID && len(calls) == 1 && len(calls[0].Args) == 2 && len(stdCalls(fn.Body, "time", "Parse", "ParseInLocation")) == 1 {
						l, ok1 := calls[0].Args[0].(*ast.Ident)
						ac := argCollapse(fn, calls[0].Args[1])
						if ok1 && l.Name == val.Name && ac >= 0 {
							layouts, collapse = ls, ac == 1
						}
					}
				}
			}
		}
		parts := make([]string, len(layouts))
		for i, l := range layouts {
			parts[i] = leanBytes(l)
		}
		fmt.Fprintf(&sb, "  | .%s => {\n      collapse := %s, layouts := [%s],\n      datatype := %s, eqDatatypeSame := %s }\n",
			t.lean, leanBool(collapse), strings.Join(parts, ", "), leanBytes(datatypeOf(t.probe)), leanBool(p.sameDt(t.goName, t.probe)))
	}

	// ---- boolean
	{
		collapse := false
		var tc, fc []string
		shape := false
		if fn := p.funcs["MapBoolean"]; fn != nil && bodyShapeOK(fn) {
			for _, st := range fn.Body.List {
				if sw, ok := st.(*ast.SwitchStmt); ok && sw.Init == nil && sw.Tag != nil {
					ac := argCollapse(fn, sw.Tag)
					shape = ac >= 0
					collapse = ac == 1
					for _, cc := range sw.Body.List {
						for _, e := range cc.(*ast.CaseClause).List {
							s, ok := strLit(e)
							if !ok {
								shape = false
								continue
							}
							v, err := xsdtype.MapBoolean(s) // T1: which value the case yields
							switch {
							case err != nil:
								shape = false
							case bool(v):
								tc = append(tc, s)
							default:
								fc = append(fc, s)
							}
						}
					}
				}
			}
		}
		if !shape {
			tc, fc = []string{"\x00unknown-shape"}, nil
		}
		eqT, eqF := "\x00none", "\x00none"
		dt := rdf.IRI(datatypeOf(xsdtype.Boolean(true)))
		for _, cand := range []string{"true", "false", "1", "0", "TRUE", "FALSE", ""} {
			if xsdtype.Boolean(true).TermEquals(rdf.Literal{Datatype: dt, LexicalForm: cand}) {
				if eqT != "\x00none" {
					eqT = "\x00several"
				} else {
					eqT = cand
				}
			}
			if xsdtype.Boolean(false).TermEquals(rdf.Literal{Datatype: dt, LexicalForm: cand}) {
				if eqF != "\x00none" {
					eqF = "\x00several"
				} else {
					eqF = cand
				}
			}
		}
		list := func(xs []string) string {
			ps := make([]string, len(xs))
			for i, x := range xs {
				ps[i] = leanBytes(x)
			}
			return "[" + strings.Join(ps, ", ") + "]"
		}
		fmt.Fprintf(&sb, "\ndef xsdBoolFact : BoolFact := {\n    collapse := %s, trueCases := %s, falseCases := %s,\n    lexTrue := %s, lexFalse := %s, eqTrue := %s, eqFalse := %s,\n    datatype := %s, eqDatatypeSame := %s }\n",
			leanBool(collapse), list(tc), list(fc), leanBytes(lexOf(xsdtype.Boolean(true))), leanBytes(lexOf(xsdtype.Boolean(false))),
			leanBytes(eqT), leanBytes(eqF), leanBytes(string(dt)), leanBool(p.sameDt("Boolean", xsdtype.Boolean(true))))
	}

	// ---- duration
	{
		collapse := false
		re := "\x00unknown-shape"
		if fn := p.funcs["MapDuration"]; fn != nil {
			var calls []*ast.CallExpr
			ast.Inspect(fn.Body, func(n ast.Node) bool {
				if c, ok := n.(*ast.CallExpr); ok {
					if s, ok := c.Fun.(*ast.SelectorExpr); ok && s.Sel.Name == "FindStringSubmatch" {
						calls = append(calls, c)
					}
				}
				return true
			})
			if len(calls) == 1 && len(calls[0].Args) == 1 {
				id, ok := calls[0].Fun.(*ast.SelectorExpr).X.(*ast.Ident)
				ac := argCollapse(fn, calls[0].Args[0])
				if ok && ac >= 0 {
					if src, known := p.regexps[id.Name]; known {
						re, collapse = src, ac == 1
					}
				}
			}
		}
		probe := xsdtype.Duration{Years: 1}
		fmt.Fprintf(&sb, "\ndef xsdDurationFact : DurationFact := {\n    collapse := %s, regex := %s,\n    datatype := %s, eqDatatypeSame := %s }\n",
			leanBool(collapse), leanBytes(re), leanBytes(datatypeOf(probe)), leanBool(p.sameDt("Duration", probe)))
	}

	sb.WriteString("\ndef xsdFacts : Facts := {\n    int := xsdIntFact, float := xsdFloatFact, str := xsdStrFact, time := xsdTimeFact,\n    bool := xsdBoolFact, duration := xsdDurationFact }\n\nend RdfModel.Gen\n")
	writeIfChanged(filepath.Join(leanRoot, "RdfModel", "Gen", "XsdFacts.lean"), sb.String())
}

// returnsConversion: the function's last statement is `return T(<x>), nil` where x is the
// first result of the (only) strconv call `x, err := strconv.Parse…(…)`.
func returnsConversion(fn *ast.FuncDecl, goName string, call *ast.CallExpr) bool {
	if len(fn.Body.List) == 0 {
		return false
	}
	resName := ""
	for _, st := range fn.Body.List {
		if as, ok := st.(*ast.AssignStmt); ok && len(as.Rhs) == 1 && as.Rhs[0] == call && len(as.Lhs) == 2 {
			if id, ok := as.Lhs[0].(*ast.Ident); ok {
				resName = id.Name
			}
		}
	}
	if resName == "" {
		return false
	}
	ret, ok := fn.Body.List[len(fn.Body.List)-1].(*ast.ReturnStmt)
	if !ok || len(ret.Results) != 2 {
		return false
	}
	c, ok := ret.Results[0].(*ast.CallExpr)
	if !ok || len(c.Args) != 1 {
		return false
	}
	id, ok := c.Fun.(*ast.Ident)
	if !ok || id.Name != goName {
		return false
	}
	arg, isIdent := c.Args[0].(*ast.Ident)
	nilID, ok := ret.Results[1].(*ast.Ident)
	return isIdent && arg.Name == resName && ok && nilID.Name == "nil"
}
