/-
  C20 helper lemmas: xsdutil.WhiteSpaceCollapse (replace, regexp ` +`, TrimLeft, TrimRight) computes
  the whiteSpace=collapse normalisation of XSD (`Spec.Xsd.collapse`), for every byte string.
-/
import RdfModel.Model.Xsd
namespace RdfModel.Proofs.C20
open RdfModel RdfModel.Xsd
open RdfModel.Spec.Xsd (collapseGo collapse isWs WsState)

theorem trimRight_cons (b : Nat) (r : Bytes) :
    trimRight (b :: r) = if b = 0x20 ∧ trimRight r = [] then [] else b :: trimRight r := by
  rfl

theorem trimLeft_cons (b : Nat) (r : Bytes) :
    trimLeft (b :: r) = if b = 0x20 then trimLeft r else b :: r := rfl

/-- byte after the replacer -/
def rep (b : Nat) : Nat := if b = 0x9 ∨ b = 0xA ∨ b = 0xD then 0x20 else b

theorem wsReplace_cons (b : Nat) (r : Bytes) : wsReplace (b :: r) = rep b :: wsReplace r := by
  simp [wsReplace, rep]

theorem rep_ws {b : Nat} (h : isWs b = true) : rep b = 0x20 := by
  simp only [isWs, Bool.or_eq_true, beq_iff_eq] at h
  unfold rep
  rcases h with ((h | h) | h) | h <;> simp [h]

theorem rep_nws {b : Nat} (h : isWs b = false) : rep b = b ∧ b ≠ 0x20 := by
  simp only [isWs, Bool.or_eq_false_iff, beq_eq_false_iff_ne] at h
  obtain ⟨⟨⟨h1, h2⟩, h3⟩, h4⟩ := h
  exact ⟨by simp [rep, h2, h3, h4], h1⟩

/-- in a word (previous byte not a space) / after white space (a space has been emitted) -/
theorem collapse_mid (s : Bytes) :
    trimRight (collapseSpaces false (wsReplace s)) = collapseGo .inWord s ∧
    trimRight (0x20 :: collapseSpaces true (wsReplace s)) = collapseGo .pending s := by
  induction s with
  | nil => simp [wsReplace, collapseSpaces, trimRight, collapseGo]
  | cons b r ih =>
    obtain ⟨ih1, ih2⟩ := ih
    rw [wsReplace_cons]
    cases hb : isWs b with
    | true =>
      have h20 := rep_ws hb
      constructor
      · simp only [collapseSpaces, h20, collapseGo, hb, if_true]
        simpa using ih2
      · simp only [collapseSpaces, h20, collapseGo, hb, if_true]
        simpa using ih2
    | false =>
      obtain ⟨hr, hne⟩ := rep_nws hb
      constructor
      · simp only [collapseSpaces, hr, hne, collapseGo, hb, if_false]
        rw [trimRight_cons]
        simp [hne, ih1]
      · simp only [collapseSpaces, hr, hne, collapseGo, hb, if_false]
        rw [trimRight_cons, trimRight_cons]
        simp [hne, ih1]

/-- before the first word -/
theorem collapse_start (s : Bytes) :
    trimRight (trimLeft (collapseSpaces false (wsReplace s))) = collapseGo .start s ∧
    trimRight (trimLeft (collapseSpaces true (wsReplace s))) = collapseGo .start s := by
  induction s with
  | nil => simp [wsReplace, collapseSpaces, trimLeft, trimRight, collapseGo]
  | cons b r ih =>
    obtain ⟨_, ih2⟩ := ih
    rw [wsReplace_cons]
    cases hb : isWs b with
    | true =>
      have h20 := rep_ws hb
      constructor
      · simp only [collapseSpaces, h20, collapseGo, hb, if_true]
        show trimRight (trimLeft (0x20 :: collapseSpaces true (wsReplace r))) = _
        rw [trimLeft_cons, if_pos rfl]
        exact ih2
      · simp only [collapseSpaces, h20, collapseGo, hb, if_true]
        exact ih2
    | false =>
      obtain ⟨hr, hne⟩ := rep_nws hb
      have hmid := (collapse_mid r).1
      constructor <;>
      · simp only [collapseSpaces, hr, hne, collapseGo, hb, if_false]
        rw [trimLeft_cons, if_neg hne, trimRight_cons]
        simp [hne, hmid]

theorem collapse_spec (s : Bytes) : whiteSpaceCollapse s = collapse s :=
  (collapse_start s).1

end RdfModel.Proofs.C20
