/-
  Proofs.C02DocNestCfg — nested-resource mode, configurations: `TtlEnc.document` (buffering, sorted
  sections, header) around the sections, with the header as a hypothesis (`HdrOK`), and the header of the
  directive-disabled configurations.
-/
import RdfModel.Proofs.C02DocNestTop
namespace RdfModel.Proofs.C02Doc
open RdfModel RdfModel.Ttl RdfModel.TtlEnc RdfModel.C02 RdfModel.Desc RdfModel.Spec.TtlPrint

variable {T : Tables} {β : Type} [DecidableEq β] {C : TtlDoc.Cfg}

theorem HdrOK.nil {base : Option (List Nat)} {pm : Prefix.PM} {b0 : Option (List Nat)}
    {ns0 : List (List Nat × List Nat)} {D : List Nat → Prop} (h : StOK base pm D { base := b0, ns := ns0, next := 0 }) :
    HdrOK T C base pm [] b0 ns0 D :=
  ⟨[], { base := b0, ns := ns0, next := 0 }, ⟨(by intro x hx; cases hx), rfl, rfl, rfl, h⟩⟩

/-- `NewEncoder … AddResource* … Close`, given that the header the configuration writes is fine -/
theorem nested_roundtrip_hdr (hT : DocTablesOK T) (hT2 : C08.TablesOK2 T) (hC : NestCfgOK C T) (tp : TokPrint T)
    (cfg : Config) (pm : Prefix.PM) (label : β → List Nat) (hcfg : ConfigOK C.isSpace T cfg pm)
    (hlbl : LabelOK T label) (rs : List (Resource β))
    (hrs : ∀ r ∈ rs, ResourceOK (ctxOf T cfg pm label) cfg.base r)
    (hU : cfg.isBuffered = false → HdrOK T C cfg.base pm (headerUnbuffered cfg pm) (defaultBase cfg)
      (defaultPrefixes cfg pm) (fun _ => True))
    (hB : cfg.isBuffered = true → ∀ used : List (List Nat), HdrOK T C cfg.base pm (headerBuffered cfg pm used)
      (defaultBase cfg) (defaultPrefixes cfg pm) (fun l => l ∈ used)) :
    ∃ (doc : List Nat) (out : List TtlDoc.Stmt) (tr : List (Triple TtlDoc.BN)),
      encodeResourceListWith T false cfg pm label rs = some (.ok doc) ∧
      TtlDoc.run C .eof (defaultBase cfg) (defaultPrefixes cfg pm) doc = (out, .clean) ∧
      out.map tripleOfStmt = tr.map some ∧ Spec.Iso tr (newTriplesList rs 0).1 := by
  have S := setup_of hT hC.c02 hcfg hlbl
  obtain ⟨ys, xs, h1, h2, h3, h4, h5⟩ := sections_all S hC tp rs hrs
  have henc : encodeResourceListWith T false cfg pm label rs =
      some (.ok (document cfg pm (xs.map (·.text)) (xs.flatMap (·.used)))) := by
    unfold encodeResourceListWith
    rw [h1]
    simp only [OR.bind, OR.ok, h2, h3]
  rw [henc]
  unfold document
  by_cases hbuf : cfg.isBuffered = true
  · simp only [hbuf, Bool.not_true, Bool.false_eq_true, ↓reduceIte]
    by_cases hemp : xs = []
    · subst hemp
      simp only [List.map_nil, List.isEmpty_nil, ↓reduceIte]
      obtain ⟨out, tr, hrun, ho, hiso⟩ := decode_sections (c := ctxOf T cfg pm label) (base := defaultBase cfg) hT hT2 hC
        hlbl.inj rs [] h4 (fun _ h => nomatch h) [] (defaultBase cfg) (defaultPrefixes cfg pm) (fun _ => False)
        (HdrOK.nil ⟨rfl, fun _ _ h => h.elim⟩) (fun _ h => nomatch h)
      exact ⟨_, out, tr, rfl, by simpa using hrun, ho, hiso⟩
    · have hne : (xs.map (·.text)).isEmpty = false := by
        cases xs with
        | nil => exact absurd rfl hemp
        | cons _ _ => rfl
      simp only [hne, Bool.false_eq_true, ↓reduceIte]
      let le' : SecItem β → SecItem β → Bool := fun a b => strLe a.text b.text
      let xs' : List (SecItem β) := if cfg.isSorted then isortBy le' xs else xs
      have hperm : xs'.Perm xs := by
        show (if cfg.isSorted then isortBy le' xs else xs).Perm xs
        split
        · exact isortBy_perm le' _
        · exact List.Perm.refl _
      have hsecs : (if cfg.isSorted = true then sortStrs (xs.map (·.text)) else xs.map (·.text)) = xs'.map (·.text) := by
        show _ = (if cfg.isSorted then isortBy le' xs else xs).map _
        split
        · rw [sortStrs, isortBy_map]
        · rfl
      rw [hsecs]
      obtain ⟨out, tr, hrun, ho, hiso⟩ := decode_sections (c := ctxOf T cfg pm label) (base := cfg.base) hT hT2 hC
        hlbl.inj rs xs' (.trans h4 (RP.of_perm (hperm.map _).symm)) (fun x hx => h5 x (hperm.mem_iff.1 hx))
        (headerBuffered cfg pm (xs.flatMap (fun x : SecItem β => x.used))) (defaultBase cfg) (defaultPrefixes cfg pm)
        (fun l => l ∈ xs.flatMap (fun x : SecItem β => x.used)) (hB hbuf (xs.flatMap (fun x : SecItem β => x.used)))
        (fun x hx l hl => List.mem_flatMap.2 ⟨x, hperm.mem_iff.1 hx, hl⟩)
      exact ⟨_, out, tr, rfl, hrun, ho, hiso⟩
  · have hbuf' : cfg.isBuffered = false := by simpa using hbuf
    simp only [hbuf', Bool.not_false, ↓reduceIte]
    obtain ⟨out, tr, hrun, ho, hiso⟩ := decode_sections (c := ctxOf T cfg pm label) (base := cfg.base) hT hT2 hC
      hlbl.inj rs xs h4 h5 (headerUnbuffered cfg pm) (defaultBase cfg) (defaultPrefixes cfg pm) (fun _ => True)
      (hU hbuf') (fun _ _ _ _ => trivial)
    exact ⟨_, out, tr, rfl, hrun, ho, hiso⟩

/-! ### the header -/

theorem lookupNs_map_nodup : ∀ (ms : List Prefix.Mapping), (ms.map (·.pfx)).Nodup → ∀ m ∈ ms,
    TA.lookupNs m.pfx (ms.map (fun m => (m.pfx, m.expanded))) = some m.expanded
  | [], _, m, hm => by cases hm
  | m0 :: ms, hnd, m, hm => by
    simp only [List.map_cons, List.nodup_cons] at hnd
    simp only [List.map_cons, TA.lookupNs]
    rcases List.mem_cons.1 hm with rfl | hm
    · simp
    · have : m0.pfx ≠ m.pfx := by
        intro h
        exact hnd.1 (h ▸ List.mem_map_of_mem hm)
      simp only [this, ↓reduceIte]
      exact lookupNs_map_nodup ms hnd.2 m hm

/-- no header text: both directive kinds disabled on a buffered encoder; the decoder is handed the base
    and the whole prefix table as defaults -/
theorem hdr_disabled (cfg : Config) (pm : Prefix.PM) (hcfg : ConfigOK C.isSpace T cfg pm)
    (hb : cfg.baseMode = some .disabled) (hp : cfg.prefixMode = some .disabled) (used : List (List Nat))
    (D : List Nat → Prop) :
    HdrOK T C cfg.base pm (headerBuffered cfg pm used) (defaultBase cfg) (defaultPrefixes cfg pm) D := by
  have hwd : ∀ ms : List Prefix.Mapping, writeDirectives cfg.baseStr .disabled ms .disabled = [] := by
    intro ms
    have h1 : baseDirective .disabled cfg.baseStr = [] := by
      unfold baseDirective
      split <;> rfl
    have h2 : ms.flatMap (prefixDirective .disabled) = [] := by
      rw [List.flatMap_eq_nil_iff]
      intro _ _
      rfl
    simp only [writeDirectives, h1, h2, List.append_nil]
  have hh : headerBuffered cfg pm used = [] := by
    unfold headerBuffered
    split
    · simp only [hb, hp, Option.getD_some, header, hwd, List.isEmpty_nil, ↓reduceIte]
    · rfl
  rw [hh]
  refine HdrOK.nil ⟨?_, ?_⟩
  · simp [defaultBase, hb]
  · intro m hm _
    simp only [defaultPrefixes, hp, ↓reduceIte]
    exact lookupNs_map_nodup pm.ordered hcfg.agree.nodup m hm

end RdfModel.Proofs.C02Doc
