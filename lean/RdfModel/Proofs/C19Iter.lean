/-
  C19 helper lemmas: what the iterators return is the traversal of the stored statements filtered
  by the conjunction of the matchers — on every path of `newQuadIterator` / `NewTripleIterator`
  (no matchers, exactly one subject matcher = fast path, anything else).
-/
import RdfModel.Model.Dataset
namespace RdfModel.Proofs.C19
open RdfModel.DS

theorem classifyQ_all (ms : List QM) (q : Quad) :
    ms.all (fun m => m.matches q) =
      ((classifyQ ms).1.all (fun sm => sm.matches (some q.s)) && (classifyQ ms).2.all (fun m => m.matches q)) := by
  induction ms with
  | nil => simp [classifyQ]
  | cons m rest ih =>
    simp only [List.all_cons, ih, classifyQ]
    cases m with
    | triple tm =>
      cases tm <;> simp [QM.matches, TrM.matches, Quad.triple, Bool.and_assoc, Bool.and_left_comm]
    | _ => simp [Bool.and_left_comm]

theorem classifyT_all (ms : List TrM) (t : Triple) :
    ms.all (fun m => m.matches t) =
      ((classifyT ms).1.all (fun sm => sm.matches (some t.s)) && (classifyT ms).2.all (fun m => m.matches t)) := by
  induction ms with
  | nil => simp [classifyT]
  | cons m rest ih =>
    simp only [List.all_cons, ih, classifyT]
    cases m <;> simp [TrM.matches, Bool.and_assoc, Bool.and_left_comm]

/-- The quads of one graph in traversal order. -/
def graphAll (g : Option Term) (G : SubjMap) : List Quad :=
  G.flatMap (fun e => e.2.2.map (getQuad g e.2.1))

theorem graphQuads_eq (g : Option Term) (G : SubjMap) (ms : List QM) :
    graphQuads g G ms = (graphAll g G).filter (fun q => ms.all (fun m => m.matches q)) := by
  unfold graphQuads graphAll
  split
  · rename_i h
    have : ms = [] := by simpa using h
    subst this
    simp only [List.all_nil]
    exact (List.filter_eq_self.2 (fun _ _ => rfl)).symm
  · rw [List.filter_flatMap]
    split
    · rename_i sm others hc
      congr 1; funext e
      rw [List.filter_map]
      have hall : ∀ st, (ms.all fun m => m.matches (getQuad g e.2.1 st))
          = (sm.matches (some e.2.1.t) && others.all fun m => m.matches (getQuad g e.2.1 st)) := by
        intro st
        rw [classifyQ_all, hc]; simp [getQuad]
      cases hsm : sm.matches (some e.2.1.t)
      · simp only [Bool.not_false, ↓reduceIte]
        have : (List.filter ((fun q => ms.all fun m => m.matches q) ∘ getQuad g e.2.1) e.2.2) = [] := by
          rw [List.filter_eq_nil_iff]; intro st _; simp [hall, hsm]
        rw [this]; rfl
      · simp only [Bool.not_true, Bool.false_eq_true, ↓reduceIte]
        congr 1
        apply List.filter_congr
        intro st _; simp [hall, hsm]
    · congr 1; funext e
      rw [List.filter_map]; rfl

theorem graphTriples_eq (g : Option Term) (G : SubjMap) (ms : List TrM) :
    graphTriples g G ms = ((graphAll g G).map Quad.triple).filter (fun t => ms.all (fun m => m.matches t)) := by
  unfold graphTriples graphAll
  rw [List.map_flatMap]
  split
  · rename_i h
    have : ms = [] := by simpa using h
    subst this
    simp only [List.all_nil]
    rw [List.filter_eq_self.2 (fun _ _ => rfl)]
    congr 1; funext e; simp [List.map_map, Function.comp_def]
  · rw [List.filter_flatMap]
    split
    · rename_i sm others hc
      congr 1; funext e
      rw [List.map_map, List.filter_map]
      have hall : ∀ st, (ms.all fun m => m.matches (getQuad g e.2.1 st).triple)
          = (sm.matches (some e.2.1.t) && others.all fun m => m.matches (getQuad g e.2.1 st).triple) := by
        intro st
        rw [classifyT_all, hc]; simp [getQuad, Quad.triple]
      cases hsm : sm.matches (some e.2.1.t)
      · simp only [Bool.not_false, ↓reduceIte]
        have : (List.filter ((fun t => ms.all fun m => m.matches t) ∘ (Quad.triple ∘ getQuad g e.2.1)) e.2.2) = [] := by
          rw [List.filter_eq_nil_iff]; intro st _; simp [hall, hsm]
        rw [this]; rfl
      · simp only [Bool.not_true, Bool.false_eq_true, ↓reduceIte]
        congr 1
        apply List.filter_congr
        intro st _; simp [hall, hsm]
    · congr 1; funext e
      rw [List.map_map, List.filter_map]; rfl

theorem abs_eq_graphAll (s : State) : abs s = s.graphs.flatMap (fun e => graphAll e.1 e.2) := rfl

/-- `NewQuadIterator(ms...)` returns the stored quads that satisfy all matchers — as a list
    equation with the traversal `abs`, hence with the same multiplicities. -/
theorem iterQuads_eq (s : State) (ms : List QM) :
    iterQuads s ms = (abs s).filter (fun q => ms.all (fun m => m.matches q)) := by
  unfold iterQuads
  rw [abs_eq_graphAll, List.filter_flatMap]
  congr 1; funext e
  exact graphQuads_eq e.1 e.2 ms

end RdfModel.Proofs.C19
