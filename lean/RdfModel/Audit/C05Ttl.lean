/-
  Audit for the Turtle/TriG statement layer (C05 / C06 / C07 / C15 parts): axioms used by every
  property theorem (expected: a subset of {propext, Classical.choice, Quot.sound}).
-/
import RdfModel.Props.C05Ttl
import RdfModel.Props.C06Ttl
import RdfModel.Props.C07Ttl
import RdfModel.Props.C15Ttl

#print axioms RdfModel.C05.ttl_doc_no_panic
#print axioms RdfModel.C05.ttl_fuel_suffices
#print axioms RdfModel.C05.ttl_next_fuel_suffices
#print axioms RdfModel.C05.ttl_fuel_linear
#print axioms RdfModel.C05.ttl_latch
#print axioms RdfModel.C05.ttl_accessors
#print axioms RdfModel.C05.real_producers_ok
#print axioms RdfModel.C05.gen_tables_nul
#print axioms RdfModel.C05.ttl_doc_total_real
#print axioms RdfModel.C06.doc_emits_wf
#print axioms RdfModel.C06.ttl_emits_wf
#print axioms RdfModel.C06.trig_emits_wf
#print axioms RdfModel.C06.ttl_default_graph
#print axioms RdfModel.C06.literal_tag_iff
#print axioms RdfModel.C07.step_flag_independent
#print axioms RdfModel.C07.ttl_sub_trig_partial
#print axioms RdfModel.C07.ttl_sub_trig_sim_partial
#print axioms RdfModel.C07.kwSafe_real
#print axioms RdfModel.C07.finding_graph_ogham
#print axioms RdfModel.C07.ttl_sub_trig_refuted
#print axioms RdfModel.C15.ioerr_reported
#print axioms RdfModel.C15.clean_only_at_eof
#print axioms RdfModel.C15.ioerr_reported_real
#print axioms RdfModel.C15.ttl_truncation_reported_partial
#print axioms RdfModel.C15.ttl_truncation_next
#print axioms RdfModel.C15.ttl_truncation_errIgnoring
#print axioms RdfModel.C15.ttl_truncation_errIgnoring_next
#print axioms RdfModel.C15.ttl_truncation_reported
#print axioms RdfModel.C15.nulPlain_real
#print axioms RdfModel.C15.real_producers_local
#print axioms RdfModel.C15.scan_local
#print axioms RdfModel.C15.prefix_lockstep_partial
#print axioms RdfModel.C15.prefix_lockstep_real_partial
#print axioms RdfModel.C15.prefix_monotone_d43_partial
#print axioms RdfModel.C15.tinyFail_real
#print axioms RdfModel.C15.prefix_monotone_real_partial
#print axioms RdfModel.C15.top_level_clean
