/-
  RdfModel.Spec.RdfXmlWriter — a grammar-directed RDF/XML writer driven by a few switches.

  `autoPlan` turns a list of triples into a plan (Spec.RdfXmlFragment) following the switches of
  `Knobs`: grouping of consecutive triples with the same subject into one node element, typed node
  elements, property attributes (literal ones and rdf:type), rdf:li for rdf:_n in sequence, rdf:ID
  subjects, hoisting of a language to the node element (xml:lang inheritance, xml:lang="" to reset it),
  xml:base on rdf:RDF with relative references, and striping: a triple whose object is the subject of
  the following group takes that group as a nested node element.  Blank nodes are always written with
  rdf:nodeID (anonymous forms, parseType Resource / Collection are exercised through explicit plans).

  `writeAuto` hands the plan to the validating writer `write`; nothing has to be proved about
  `autoPlan` itself: where it produces something that is not a valid way of writing the graph, `write`
  falls back to the flat plan, and `Props/C09.lean: writeAuto_denote` holds for every switch setting.
  How often the automatic plan is used is measured by the harness (it is the rule, not the exception).

  Core-only imports: linked into the driver.
-/
import RdfModel.Spec.RdfXmlFragment
namespace RdfModel.RX
open RdfModel RdfModel.Desc

structure Knobs where
  group : Bool := false
  typed : Bool := false
  attrs : Bool := false
  li : Bool := false
  useID : Bool := false
  hoist : Bool := false
  nest : Bool := false
  /-- try relative references -/
  rel : Bool := false
  /-- `xml:base` attribute on `rdf:RDF` -/
  base : Option Str := none
  deriving Repr, DecidableEq, Inhabited

variable {β : Type} [DecidableEq β]

/-- consecutive triples with equal subjects form one group when `merge` is set -/
def groupTriples (merge : Bool) : List (Triple β) → List (Term β × List (Str × Term β))
  | [] => []
  | t :: rest =>
    match groupTriples merge rest with
    | (s, ps) :: gs => if merge ∧ s = t.s then (s, (t.p, t.o) :: ps) :: gs else (t.s, [(t.p, t.o)]) :: (s, ps) :: gs
    | [] => [(t.s, [(t.p, t.o)])]

abbrev cSlash : Nat := 0x2f
abbrev cQuest : Nat := 0x3f

/-- everything before the first `c` -/
def upTo (c : Nat) (s : Str) : Str := s.takeWhile (· ≠ c)

/-- candidate relative references for `iri` under `base` (validated by the caller) -/
def relCands (base iri : Str) : List Str :=
  let noFrag := upTo cHash base
  let noQuery := upTo cQuest noFrag
  let dir := (noQuery.reverse.dropWhile (· ≠ cSlash)).reverse
  (if iri = noFrag then [[]] else []) ++
  (if noFrag.isPrefixOf iri ∧ (iri.drop noFrag.length).head? = some cHash then [iri.drop noFrag.length] else []) ++
  (if dir ≠ [] ∧ dir.isPrefixOf iri ∧ iri.length > dir.length then [iri.drop dir.length] else [])

/-- a reference that resolves to `iri` under `base`: the first valid relative candidate, else `iri` -/
def refFor (rs : Str → Str → Str) (rel : Bool) (base iri : Str) : Str :=
  if rel then ((relCands base iri).find? (fun c => rs base c = iri)).getD iri else iri

/-- the fragment of `iri` when `iri` is `base#frag` with an NCName `frag` -/
def idFor (rs : Str → Str → Str) (base iri : Str) : Option Str :=
  let frag := (iri.dropWhile (· ≠ cHash)).drop 1
  if isNCName frag ∧ rs base (cHash :: frag) = iri then some frag else none

def litLang : Term β → Option (Option Str)
  | .lit _ _ l => some l
  | _ => none

/-- the language of the first language-tagged literal among the objects -/
def firstLang : List (Str × Term β) → Option Str
  | [] => none
  | (_, .lit _ _ (some l)) :: _ => some l
  | _ :: rest => firstLang rest

/-- `xml:lang` attribute that turns the language in scope `cur` into `want` (none = nothing to write) -/
def langAttr (cur want : Option Str) : Option Str :=
  if cur = want then none else match want with | some l => some l | none => some []

structure WSt where
  used : List (Str × Str) := []

abbrev Group (β : Type) := Term β × List (Str × Term β)

/-- object of a property element that is not a nested node element -/
def plainObject (rs : Str → Str → Str) (k : Knobs) (label : β → Str) (env : Env) (nm : PName) : Term β → PProp
  | .iri i => .res {} nm none i (refFor rs k.rel env.base i) []
  | .bnode b => .bref {} nm none (label b) []
  | .lit lex dt (some l) =>
    if dt ≠ rdfLangString then .typed {} nm none lex dt (refFor rs k.rel env.base dt)
    else if lex = [] then .empty { lang := langAttr env.lang (some l) } nm none (some l)
    else .lit { lang := langAttr env.lang (some l) } nm none lex (some l)
  | .lit lex dt none =>
    if dt = xsdString then
      if lex = [] then .empty { lang := langAttr env.lang none } nm none none
      else .lit { lang := langAttr env.lang none } nm none lex none
    else .typed {} nm none lex dt (refFor rs k.rel env.base dt)

/-- can `(p, o)` be written as a property attribute of an element whose attribute names are `keys`? -/
def asAttr (rs : Str → Str → Str) (k : Knobs) (env : Env) (keys : List (Str × Str)) (p : Str) :
    Term β → Option (PAttr × (Str × Str))
  | .lit lex dt l =>
    if k.attrs then
      match splitIri p with
      | some (ns, name) =>
        if (l = env.lang) ∧ (l.isSome ∨ dt = xsdString) ∧ (l.isNone ∨ dt = rdfLangString) ∧
            wfPAttr rs env (.lit ns name lex l) ∧ ¬ keys.contains (ns, name) then
          some (.lit ns name lex l, (ns, name))
        else none
      | none => none
    else none
  | .iri t =>
    if k.attrs ∧ p = rdfType ∧ ¬ keys.contains (rdfNS, n_type) then
      some (.type t (refFor rs k.rel env.base t), (rdfNS, n_type))
    else none
  | .bnode _ => none

mutual
/-- Builds the node element for group `(s, ps)`; `rest` are the following groups, of which nested
    node elements consume a prefix.  `fuel` bounds the total number of steps. -/
def buildNode (rs : Str → Str → Str) (k : Knobs) (label : β → Str) :
    Nat → Env → WSt → Term β → List (Str × Term β) → List (Group β) → PNode × List (Group β) × WSt
  | 0, _, st, _, _, rest => (.mk {} (.about [] []) none [] [], rest, st)
  | fuel + 1, env, st, s, ps, rest =>
    -- language hoisting
    let hl : Option Str := if k.hoist then (firstLang ps).orElse (fun _ => env.lang) else env.lang
    let sc : Scope := { lang := langAttr env.lang hl }
    let env1 : Env := { env with lang := hl }
    -- subject
    let (subj, st1) : Subj × WSt :=
      match s with
      | .iri i =>
        match (if k.useID then idFor rs env1.base i else none) with
        | some frag =>
          if st.used.contains (env1.base, frag) then (.about i (refFor rs k.rel env1.base i), st)
          else (.id i frag, { st with used := (env1.base, frag) :: st.used })
        | none => (.about i (refFor rs k.rel env1.base i), st)
      | .bnode b => (.nodeID (label b), st)
      | .lit _ _ _ => (.about [] [], st)
    -- typed node element
    let (typ, ps1) : Option (Str × Str) × List (Str × Term β) :=
      match ps with
      | (p, .iri t) :: more =>
        if k.typed ∧ p = rdfType then
          match splitIri t with
          | some (ns, name) => if wfTyp (some (ns, name)) then (some (ns, name), more) else (none, ps)
          | none => (none, ps)
        else (none, ps)
      | _ => (none, ps)
    let (pattrs, props, rest', st') := buildProps rs k label fuel env1 ps1 [] 0 rest st1
    (.mk sc subj typ pattrs props, rest', st')

/-- property attributes and property elements of one node element, in one pass -/
def buildProps (rs : Str → Str → Str) (k : Knobs) (label : β → Str) :
    Nat → Env → List (Str × Term β) → List (Str × Str) → Nat → List (Group β) → WSt →
    List PAttr × List PProp × List (Group β) × WSt
  | 0, _, _, _, _, rest, st => ([], [], rest, st)
  | _ + 1, _, [], _, _, rest, st => ([], [], rest, st)
  | fuel + 1, env, (p, o) :: more, keys, li, rest, st =>
    match asAttr rs k env keys p o with
    | some (a, key) =>
      let (as, pr, rest', st') := buildProps rs k label fuel env more (key :: keys) li rest st
      (a :: as, pr, rest', st')
    | none =>
      let nm : PName := if k.li ∧ p = rdfMember (li + 1) then .li p else predName p
      -- striping: the next group describes the object
      let nested : Option (PProp × List (Group β) × WSt) :=
        match (if k.nest then rest else []), o with
        | _, .lit _ _ _ => none
        | (s2, ps2) :: rest2, o =>
          if s2 = o then
            let (n, rest3, st3) := buildNode rs k label fuel env st s2 ps2 rest2
            some (.node {} nm none n, rest3, st3)
          else none
        | [], _ => none
      let (pp, rest1, st2) := nested.getD (plainObject rs k label env nm o, rest, st)
      let (as, pr, rest', st') := buildProps rs k label fuel env more keys (nm.nextLi li) rest1 st2
      (as, pp :: pr, rest', st')
end

/-- all groups, top level -/
def buildNodes (rs : Str → Str → Str) (k : Knobs) (label : β → Str) (env : Env) (steps : Nat) :
    Nat → WSt → List (Group β) → List PNode
  | 0, _, _ => []
  | _ + 1, _, [] => []
  | fuel + 1, st, (s, ps) :: rest =>
    let (n, rest', st') := buildNode rs k label steps env st s ps rest
    n :: buildNodes rs k label env steps fuel st' rest'

def autoPlan (rs : Str → Str → Str) (base : Str) (k : Knobs) (label : β → Str) (g : List (Triple β)) : PDoc :=
  let sc : Scope := { base := k.base }
  let env : Env := (⟨base, none⟩ : Env).push rs sc.base sc.lang
  { sc := sc, nodes := buildNodes rs k label env (2 * g.length + 2) (g.length + 1) {} (groupTriples k.group g) }

/-- the switch-driven writer: the automatic plan, validated by `write` -/
def writeAuto (rs : Str → Str → Str) (base : Str) (label : β → Str) (g : List (Triple β)) (k : Knobs) : Node :=
  write rs base label g ⟨autoPlan rs base k label g, fun b => BN.named (label b)⟩

/-- did `write` accept the automatic plan? (measured by the harness) -/
def autoPlanUsed (rs : Str → Str → Str) (base : Str) (label : β → Str) (g : List (Triple β)) (k : Knobs) : Bool :=
  wfDoc rs ⟨base, none⟩ (autoPlan rs base k label g) &&
    (flatDoc (autoPlan rs base k label g)).isPerm (g.map (Triple.map (fun b => BN.named (label b))))

end RdfModel.RX
