// Command c02: the DOCUMENT level of property C02 (component "ttle").
//
//   - T3 correspondence between Model/TurtleEncoder.lean and the real Turtle encoder: the bytes written
//     between NewEncoder and Close must be identical, for AddTriple sequences (kind t), AddResource
//     sequences over generated and over really exported resource trees (kind r) and for the
//     BufferedTriplesEncoder wrapper (kind b).
//   - the C02 oracle on the implementation: Go encode -> Go Turtle decode (same base and prefixes as
//     defaults when directive output was disabled) -> isomorphic to the input (vh.IsomorphicMulti).
//
// Where Go's unordered data leaks into the output:
//   - the unstable sort inside PrefixManager: the real manager's GetPrefixMappings() order is sent to the
//     driver as the order parameter (field `ordered`);
//   - the subject map of ResourceListBuilder (ExportResources): a recording proxy between the
//     BufferedTriplesEncoder and the Turtle encoder captures the resources in the order Go exported them;
//     those trees are sent as a kind-r case (byte-identical comparison). The composed model
//     (kind b, insertion order) is compared only when the output cannot depend on the order (sorted
//     sections, no cycle consisting solely of once-referenced blank nodes).
package main

import (
	"bytes"
	"context"
	"flag"
	"fmt"
	"sort"
	"strings"
	"unicode"
	"unicode/utf8"

	"verifharness/vh"

	"github.com/dpb587/rdfkit-go/encoding/turtle"
	"github.com/dpb587/rdfkit-go/iri"
	"github.com/dpb587/rdfkit-go/rdf"
	"github.com/dpb587/rdfkit-go/rdfdescription"
	"github.com/dpb587/rdfkit-go/rdfdescription/rdfdescriptionutil"
)

var (
	tier     = flag.String("tier", "quick", "quick|thorough")
	driver   = flag.String("driver", "/verif/lean/.lake/build/bin/driver", "lean driver binary")
	out      = flag.String("out", "/verif/evidence/.c02.report.json", "report path")
	findings = flag.String("findings", "/verif/known-findings.json", "known findings")
	replay   = flag.String("replay", "", "replay file (one protocol line per line, or a replay JSON of ./check)")
	scale    = flag.Int("scale", 1, "multiply generated case counts (search mode uses 10)")
	nomodel  = flag.Bool("nomodel", false, "property oracle on the implementation only")
	hints    = flag.String("hints", "", "file of protocol lines that disagreed; their inputs are pushed through the oracle first")
	prop     = flag.String("prop", "C02", "property id written into the report")
)


const (
	rdfNS   = "http://www.w3.org/1999/02/22-rdf-syntax-ns#"
	rdfType = rdfNS + "type"
	rdfList = rdfNS + "List"
	rdfFst  = rdfNS + "first"
	rdfRst  = rdfNS + "rest"
	rdfNil  = rdfNS + "nil"
)

// ---------------------------------------------------------------- cases

type cfgT struct {
	base     *string
	prefixes iri.PrefixMappingList
	buffered int // -1 not set, 0, 1
	sort     int
	bm, pm   int // -1 not set, 0 at, 1 sparql, 2 disabled
}

type stmtT struct {
	pred string
	anon bool
	obj  vh.GTerm
	sub  []stmtT
}

type resT struct {
	root  byte // 's' SubjectResource, 'n' SubjectResource with nil subject, 'a' AnonResource
	subj  vh.GTerm
	stmts []stmtT
}

type caseT struct {
	cfg    cfgT
	kind   byte // 't' | 'r' | 'b'
	ts     []vh.GQuad
	rs     []resT
	labels map[int]string // blank node identity -> label
	tag    string
}

func (c *caseT) label(i int) string {
	if l, ok := c.labels[i]; ok {
		return l
	}
	return fmt.Sprintf("b%d", i)
}

func triS(v int) string {
	switch v {
	case 0:
		return "0"
	case 1:
		return "1"
	}
	return "-"
}

func modeS(v int) string {
	switch v {
	case 0:
		return "a"
	case 1:
		return "s"
	case 2:
		return "d"
	}
	return "-"
}

func hexS(s string) string { return vh.XS(s)[1:] }

func mappingsWire(l iri.PrefixMappingList) string {
	if len(l) == 0 {
		return "-"
	}
	var parts []string
	for _, m := range l {
		parts = append(parts, hexS(m.Prefix)+"="+hexS(m.Expanded))
	}
	return strings.Join(parts, ",")
}

func (c *caseT) termWire(t vh.GTerm) string { return t.Wire(c.label) }

func (c *caseT) triplesWire() string {
	if len(c.ts) == 0 {
		return "-"
	}
	var parts []string
	for _, q := range c.ts {
		parts = append(parts, c.termWire(q.S)+","+c.termWire(q.P)+","+c.termWire(q.O))
	}
	return strings.Join(parts, ";")
}

func (c *caseT) stmtsWire(sb *[]string, l []stmtT) {
	for _, s := range l {
		if s.anon {
			*sb = append(*sb, "[/"+hexS(s.pred))
			c.stmtsWire(sb, s.sub)
			*sb = append(*sb, "]")
		} else {
			*sb = append(*sb, "o/"+hexS(s.pred)+"/"+c.termWire(s.obj))
		}
	}
}

func (c *caseT) resourcesWire() string {
	if len(c.rs) == 0 {
		return "-"
	}
	var rs []string
	for _, r := range c.rs {
		var items []string
		switch r.root {
		case 's':
			items = append(items, "s/"+c.termWire(r.subj))
		default:
			items = append(items, string(r.root))
		}
		c.stmtsWire(&items, r.stmts)
		rs = append(rs, strings.Join(items, ";"))
	}
	return strings.Join(rs, "|")
}

// subjectsInOrder: keys of ResourceListBuilder.resourceBySubject in insertion order.
func (c *caseT) subjectsInOrder() string {
	seen := map[string]bool{}
	var l []string
	for _, q := range c.ts {
		w := c.termWire(q.S)
		if !seen[w] {
			seen[w] = true
			l = append(l, w)
		}
	}
	if len(l) == 0 {
		return "-"
	}
	return strings.Join(l, ",")
}

func (c *caseT) line(d7 bool) string {
	base := "-"
	if c.cfg.base != nil {
		base = vh.XS(*c.cfg.base)
	}
	ordered := iri.NewPrefixManager(c.cfg.prefixes).GetPrefixMappings()
	flags := triS(c.cfg.buffered) + triS(c.cfg.sort) + modeS(c.cfg.bm) + modeS(c.cfg.pm) + vh.B01(d7)
	head := "ttle.enc " + flags + " " + base + " " + mappingsWire(c.cfg.prefixes) + " " + mappingsWire(ordered) + " " + string(c.kind) + " "
	switch c.kind {
	case 't':
		return head + c.triplesWire()
	case 'r':
		return head + c.resourcesWire()
	default:
		o := c.subjectsInOrder()
		return head + c.triplesWire() + " " + o + " " + o
	}
}

// ---------------------------------------------------------------- implementation side

func (c *caseT) goStmts(bn *vh.BNTable, l []stmtT) rdfdescription.StatementList {
	var res rdfdescription.StatementList
	for _, s := range l {
		if s.anon {
			res = append(res, rdfdescription.AnonResourceStatement{Predicate: rdf.IRI(s.pred), AnonResource: rdfdescription.AnonResource{Statements: c.goStmts(bn, s.sub)}})
		} else {
			res = append(res, rdfdescription.ObjectStatement{Predicate: rdf.IRI(s.pred), Object: bn.Term(s.obj).(rdf.ObjectValue)})
		}
	}
	return res
}

func (c *caseT) goResources(bn *vh.BNTable) []rdfdescription.Resource {
	var res []rdfdescription.Resource
	for _, r := range c.rs {
		switch r.root {
		case 's':
			res = append(res, rdfdescription.SubjectResource{Subject: bn.Term(r.subj).(rdf.SubjectValue), Statements: c.goStmts(bn, r.stmts)})
		case 'n':
			res = append(res, rdfdescription.SubjectResource{Statements: c.goStmts(bn, r.stmts)})
		default:
			res = append(res, rdfdescription.AnonResource{Statements: c.goStmts(bn, r.stmts)})
		}
	}
	return res
}

var modes = []turtle.DirectiveMode{turtle.DirectiveMode_At, turtle.DirectiveMode_SPARQL, turtle.DirectiveMode_Disabled}

// options spreads the configuration over one or two EncoderConfig values (the second overrides).
func (c *caseT) options(bn *vh.BNTable, r *vh.Rng) []turtle.EncoderOption {
	full := turtle.EncoderConfig{}.SetBlankNodeStringProvider(bn)
	if c.cfg.base != nil {
		full = full.SetBase(*c.cfg.base)
	}
	if c.cfg.prefixes != nil {
		full = full.SetPrefixes(c.cfg.prefixes)
	}
	if c.cfg.buffered >= 0 {
		full = full.SetBuffered(c.cfg.buffered == 1)
	}
	if c.cfg.sort >= 0 {
		full = full.SetBufferedSort(c.cfg.sort == 1)
	}
	if c.cfg.bm >= 0 {
		full = full.SetBaseDirectiveMode(modes[c.cfg.bm])
	}
	if c.cfg.pm >= 0 {
		full = full.SetPrefixDirectiveMode(modes[c.cfg.pm])
	}
	if r == nil || r.Chance(70) {
		return []turtle.EncoderOption{full}
	}
	// an earlier option value with other settings for whatever the later one sets
	early := turtle.EncoderConfig{}
	if c.cfg.base != nil {
		early = early.SetBase("http://overridden.example/")
	}
	if c.cfg.buffered >= 0 {
		early = early.SetBuffered(c.cfg.buffered != 1)
	}
	if c.cfg.sort >= 0 {
		early = early.SetBufferedSort(c.cfg.sort != 1)
	}
	if c.cfg.bm >= 0 && c.cfg.pm >= 0 {
		early = early.SetDirectiveMode(modes[(c.cfg.bm+1)%3])
	}
	return []turtle.EncoderOption{early, full}
}

// recorder sits between the BufferedTriplesEncoder and the Turtle encoder.
type recorder struct {
	*turtle.Encoder
	got []rdfdescription.Resource
}

func (p *recorder) AddResource(ctx context.Context, r rdfdescription.Resource) error {
	p.got = append(p.got, r)
	return p.Encoder.AddResource(ctx, r)
}

type encResult struct {
	res      string // "ok x…" | "err:<msg>" | "panic:<msg>"
	doc      []byte
	input    []rdf.Quad                // the graph the document must decode to
	exported []rdfdescription.Resource // kind b: what ExportResources handed to AddResource, in Go's order
	bn       *vh.BNTable
}

func (c *caseT) encode(r *vh.Rng) (er encResult) {
	bn := vh.NewBNTable(c.label)
	er.bn = bn
	defer func() {
		if p := recover(); p != nil {
			er.res = fmt.Sprintf("panic:%v", p)
		}
	}()
	ctx := context.Background()
	var buf bytes.Buffer
	e, err := turtle.NewEncoder(&buf, c.options(bn, r)...)
	if err != nil {
		er.res = "newerr:" + err.Error()
		return
	}
	fail := func(err error) bool {
		if err != nil {
			er.res = "err:" + err.Error()
			return true
		}
		return false
	}
	switch c.kind {
	case 't':
		for _, q := range c.ts {
			t := bn.Quad(q).Triple
			er.input = append(er.input, rdf.Quad{Triple: t})
			if fail(e.AddTriple(ctx, t)) {
				return
			}
		}
		if fail(e.Close()) {
			return
		}
	case 'r':
		for _, res := range c.goResources(bn) {
			for _, t := range res.NewTriples() {
				er.input = append(er.input, rdf.Quad{Triple: t})
			}
			if fail(e.AddResource(ctx, res)) {
				return
			}
		}
		if fail(e.Close()) {
			return
		}
	default:
		rec := &recorder{Encoder: e}
		w := rdfdescriptionutil.NewBufferedTriplesEncoder(ctx, rec, rdfdescription.DefaultExportResourceOptions)
		for _, q := range c.ts {
			t := bn.Quad(q).Triple
			er.input = append(er.input, rdf.Quad{Triple: t})
			if fail(w.AddTriple(ctx, t)) {
				return
			}
		}
		if fail(w.Close()) {
			return
		}
		er.exported = rec.got
	}
	er.doc = buf.Bytes()
	er.res = "ok " + vh.X(er.doc)
	return
}

// decode runs the real Turtle decoder with the defaults the property prescribes.
func (c *caseT) decode(doc []byte) (qs []rdf.Quad, verdict string) {
	defer func() {
		if p := recover(); p != nil {
			verdict = fmt.Sprintf("panic:%v", p)
		}
	}()
	dc := turtle.DecoderConfig{}
	if c.cfg.bm == 2 && c.cfg.base != nil {
		dc = dc.SetDefaultBase(*c.cfg.base)
	}
	if c.cfg.pm == 2 && c.cfg.prefixes != nil {
		dc = dc.SetDefaultPrefixes(c.cfg.prefixes)
	}
	d, err := turtle.NewDecoder(bytes.NewReader(doc), dc)
	if err != nil {
		return nil, "newerr:" + err.Error()
	}
	for d.Next() {
		qs = append(qs, rdf.Quad{Triple: d.Triple()})
	}
	if d.Err() != nil {
		return qs, "err:" + d.Err().Error()
	}
	return qs, "clean"
}

// ---------------------------------------------------------------- known-finding classes (predicates on the input)

func hasDotSegments(v string) bool {
	p := rfcSplit(v)
	return hasDotSegment(p.path)
}

func startsBoolKeyword(l string) bool { return strings.HasPrefix(l, "true") || strings.HasPrefix(l, "false") }

// oghamLabel: the one PN_CHARS_BASE rune that unicode.IsSpace accepts (U+1680) at a place where the
// decoder's white-space handling meets a prefix label: first rune (skipped as white space), or right
// after a leading `a` / `base` / `prefix` (read as the keyword).
func oghamLabel(l string) bool {
	rs := []rune(l)
	if len(rs) == 0 {
		return false
	}
	if unicode.IsSpace(rs[0]) {
		return true
	}
	low := strings.ToLower(l)
	for _, kw := range []string{"a", "base", "prefix"} {
		if kw == "a" && !strings.HasPrefix(l, "a") {
			continue
		}
		if strings.HasPrefix(low, kw) {
			rest := []rune(l[len(kw):])
			if len(rest) > 0 && unicode.IsSpace(rest[0]) {
				return true
			}
		}
	}
	return false
}

func (c *caseT) eachIRI(f func(v string, object bool)) {
	term := func(t vh.GTerm, object bool) {
		switch t.Kind {
		case vh.KIRI:
			f(t.IRI, object)
		case vh.KLit:
			f(t.DT, false)
		}
	}
	var walk func(l []stmtT)
	walk = func(l []stmtT) {
		for _, s := range l {
			f(s.pred, false)
			if s.anon {
				walk(s.sub)
			} else {
				term(s.obj, true)
			}
		}
	}
	for _, q := range c.ts {
		term(q.S, false)
		term(q.P, false)
		term(q.O, true)
	}
	for _, r := range c.rs {
		if r.root == 's' {
			term(r.subj, false)
		}
		walk(r.stmts)
	}
}

// typedList: some node carries rdf:first, rdf:rest and an `rdf:type rdf:List` statement (D7).
func (c *caseT) typedList() bool {
	if c.kind == 't' {
		return false
	}
	type k struct{ first, rest, typed bool }
	bySubj := map[string]*k{}
	note := func(s string, p string, o vh.GTerm, anon bool) {
		e := bySubj[s]
		if e == nil {
			e = &k{}
			bySubj[s] = e
		}
		switch p {
		case rdfFst:
			e.first = true
		case rdfRst:
			e.rest = true
		case rdfType:
			if !anon && o.Kind == vh.KIRI && o.IRI == rdfList {
				e.typed = true
			}
		}
	}
	for _, q := range c.ts {
		note(c.termWire(q.S), q.P.IRI, q.O, false)
	}
	n := 0
	var walk func(id string, l []stmtT)
	walk = func(id string, l []stmtT) {
		for _, s := range l {
			note(id, s.pred, s.obj, s.anon)
			if s.anon {
				n++
				walk(fmt.Sprintf("#%d", n), s.sub)
			}
		}
	}
	for i, r := range c.rs {
		walk(fmt.Sprintf("r%d", i), r.stmts)
	}
	for _, e := range bySubj {
		if e.first && e.rest && e.typed {
			return true
		}
	}
	return false
}

// classes: names of the known-finding predicates that hold for this input.
func (c *caseT) classes() []string {
	var cls []string
	seen := map[string]bool{}
	add := func(s string) {
		if !seen[s] {
			seen[s] = true
			cls = append(cls, s)
		}
	}
	pm := iri.NewPrefixManager(c.cfg.prefixes)
	hasBase := c.cfg.base != nil
	check := func(v string, resolved bool) {
		for _, k := range classify("iri.parse", v, "") {
			if resolved {
				add(k)
			}
		}
		if hasBase {
			for _, k := range classify("iri.resolve", *c.cfg.base, v) {
				add(k)
			}
			if hasDotSegments(v) {
				add("abs-iri-dot-segments")
			}
		}
	}
	if hasBase {
		check(*c.cfg.base, true)
	}
	for _, m := range c.cfg.prefixes {
		// namespaces of directives go through ParseIRI / Base.Parse (ResolveURL)
		check(m.Expanded, true)
		if oghamLabel(m.Prefix) {
			add("prefix-label-ogham-space")
		}
	}
	c.eachIRI(func(v string, object bool) {
		// with a base every IRIREF is resolved; without one IRIREFs are taken verbatim
		check(v, hasBase)
		if object {
			if pr, ok := pm.CompactPrefix(v); ok && startsBoolKeyword(pr.Prefix) {
				add("prefix-label-boolean-keyword")
			}
		}
	})
	if c.typedList() {
		add("typed-list-collection")
	}
	return cls
}

// ---------------------------------------------------------------- run state

type item struct {
	line string
	goR  string
	alt  string // second acceptable answer ("" = none)
	tag  string
}

type gen struct {
	r     *vh.Rng
	rep   *vh.Report
	known map[string]vh.Finding
	items []item
	d7    bool // the tree under test still has defect D7 (probed at start)
}

func (g *gen) violation(c *caseT, detail string) {
	op := c.line(g.d7)
	for _, k := range c.classes() {
		if f, ok := g.known[k]; ok {
			g.rep.Count("known:" + f.Key)
			if g.rep.Hist["known:"+f.Key] <= 2 {
				g.rep.Add(vh.Case{Kind: "known", Key: f.Key, Op: op, Detail: f.What + " — " + detail})
			}
			return
		}
	}
	g.rep.Count("violation")
	g.rep.Count("violation-classes:" + strings.Join(c.classes(), ","))
	if g.rep.Hist["violation"] <= 100 {
		g.rep.Add(vh.Case{Kind: "violation", Op: op, Detail: detail + " classes=" + strings.Join(c.classes(), ",")})
	}
}

func quadsString(qs []rdf.Quad, bn *vh.BNTable) string {
	var l []string
	for _, q := range qs {
		l = append(l, vh.QuadWire(q, func(b rdf.BlankNode) string {
			if s := bn.GetBlankNodeString(b); s != "" {
				return s
			}
			return fmt.Sprintf("?%v", b.Identifier)
		}))
	}
	sort.Strings(l)
	return strings.Join(l, " ")
}

// baseStable: the model assumes ParseBaseIRI(b).String() == b, and its BaseIRI part (Model/Prefix.lean,
// property C13) models the net/url wrapper on the domain on which C12 ties it to RFC 3986: no C12
// deviation class on the base, no dot segments, no empty query or fragment in the base.
func baseStable(b string) bool {
	p, err := iri.ParseBaseIRI(b)
	if err != nil || p.String() != b {
		return false
	}
	pa := rfcSplit(b)
	if len(classify("iri.parse", b, "")) > 0 || hasDotSegment(pa.path) || (pa.hasQuery && pa.query == "") || (pa.hasFragment && pa.fragment == "") {
		return false
	}
	return true
}

// run executes one case on the implementation: oracle, then queues the model comparison(s).
func (g *gen) run(c *caseT) {
	// the property quantifies over well-formed terms: every IRI must be an RFC 3987 IRI
	wf := c.cfg.base == nil || validIRIRef(*c.cfg.base, true)
	for _, m := range c.cfg.prefixes {
		wf = wf && validIRIRef(m.Expanded, true)
	}
	c.eachIRI(func(v string, _ bool) { wf = wf && validIRIRef(v, true) })
	if !wf {
		g.rep.Count("skip:ill-formed-iri-generated")
		return
	}
	er := c.encode(g.r)
	kind := string(c.kind)
	g.rep.Count("op:enc-" + kind)
	nontrivial := len(c.ts)+len(c.rs) > 0
	g.rep.Eval(c.line(false), nontrivial)
	switch {
	case strings.HasPrefix(er.res, "newerr:"):
		g.rep.Count("skip:new-encoder-error")
		return
	case strings.HasPrefix(er.res, "panic:"):
		g.violation(c, "encoder panicked: "+er.res)
		return
	case strings.HasPrefix(er.res, "err:"):
		g.violation(c, "encoder returned an error on well-typed input: "+er.res)
		return
	}
	// ---- oracle
	got, verdict := c.decode(er.doc)
	switch {
	case verdict != "clean":
		g.violation(c, fmt.Sprintf("C02: encoder output rejected by the Turtle decoder: %s; doc=%q", verdict, er.doc))
	case !vh.IsomorphicMulti(got, er.input):
		g.violation(c, fmt.Sprintf("C02: decoded graph not isomorphic to the input: doc=%q decoded=[%s] input=[%s]", er.doc,
			quadsString(got, er.bn), quadsString(er.input, er.bn)))
	default:
		g.rep.Count("oracle:roundtrip-ok")
	}
	// ---- T3
	if c.cfg.base != nil && !baseStable(*c.cfg.base) {
		g.rep.Count("skip:t3-base-not-stable")
		return
	}
	switch c.kind {
	case 't', 'r':
		g.items = append(g.items, item{line: c.line(g.d7), goR: er.res, tag: c.tag})
	default:
		// the trees Go really exported, in Go's order
		rc := &caseT{cfg: c.cfg, kind: 'r', labels: c.labels, tag: c.tag + "/exported"}
		ok := true
		for _, res := range er.exported {
			rt, good := c.resFromGo(res, er.bn)
			if !good {
				ok = false
				break
			}
			rc.rs = append(rc.rs, rt)
		}
		if ok {
			g.items = append(g.items, item{line: rc.line(g.d7), goR: er.res, tag: rc.tag})
			g.rep.Count("op:enc-r-exported")
		} else {
			g.rep.Count("skip:t3-export-not-representable")
		}
		if c.orderIndependent() {
			g.items = append(g.items, item{line: c.line(g.d7), goR: er.res, tag: c.tag})
		} else {
			g.rep.Count("skip:t3-b-order-dependent")
		}
	}
}

// orderIndependent: the output of the BufferedTriplesEncoder cannot depend on Go's map order: sections
// are sorted and no cycle consists solely of once-referenced blank nodes (whose root the second loop
// of ExportResources would pick by map order).
func (c *caseT) orderIndependent() bool {
	buffered := c.cfg.buffered == 1
	sorted := buffered
	if c.cfg.sort >= 0 {
		sorted = c.cfg.sort == 1
	}
	if !buffered || !sorted {
		return false
	}
	refs := map[int]int{}
	parent := map[int]vh.GTerm{}
	for _, q := range c.ts {
		if q.O.Kind == vh.KBNode {
			refs[q.O.BNode]++
			parent[q.O.BNode] = q.S
		}
	}
	for b, n := range refs {
		if n != 1 {
			continue
		}
		// climb through once-referenced parents
		cur, steps := b, 0
		for {
			p, ok := parent[cur]
			if !ok || p.Kind != vh.KBNode || refs[p.BNode] != 1 {
				break
			}
			cur = p.BNode
			steps++
			if steps > len(c.ts)+1 {
				return false
			}
		}
	}
	return true
}

// resFromGo converts a resource exported by Go back into the harness form (blank nodes through the
// table's labels; anonymous roots carry no subject).
func (c *caseT) resFromGo(r rdfdescription.Resource, bn *vh.BNTable) (resT, bool) {
	byLabel := map[string]int{}
	for i := range c.labelsUsed() {
		byLabel[c.label(i)] = i
	}
	good := true
	term := func(t rdf.Term) vh.GTerm {
		switch v := t.(type) {
		case rdf.IRI:
			return vh.GTerm{Kind: vh.KIRI, IRI: string(v)}
		case rdf.BlankNode:
			l := bn.GetBlankNodeString(v)
			i, ok := byLabel[l]
			if !ok {
				good = false
			}
			return vh.GTerm{Kind: vh.KBNode, BNode: i}
		case rdf.Literal:
			g := vh.GTerm{Kind: vh.KLit, Lex: v.LexicalForm, DT: string(v.Datatype)}
			if lt, ok := v.Tag.(rdf.LanguageLiteralTag); ok {
				g.Lang = lt.Language
			}
			return g
		}
		good = false
		return vh.GTerm{}
	}
	var stmts func(l rdfdescription.StatementList) []stmtT
	stmts = func(l rdfdescription.StatementList) []stmtT {
		res := []stmtT{}
		for _, s := range l {
			switch v := s.(type) {
			case rdfdescription.ObjectStatement:
				res = append(res, stmtT{pred: string(v.Predicate.(rdf.IRI)), obj: term(v.Object)})
			case rdfdescription.AnonResourceStatement:
				res = append(res, stmtT{pred: string(v.Predicate.(rdf.IRI)), anon: true, sub: stmts(v.AnonResource.Statements)})
			default:
				good = false
			}
		}
		return res
	}
	out := resT{}
	switch v := r.(type) {
	case rdfdescription.SubjectResource:
		if v.Subject == nil {
			out.root = 'n'
		} else {
			out.root = 's'
			out.subj = term(v.Subject)
		}
		out.stmts = stmts(v.Statements)
	case rdfdescription.AnonResource:
		out.root = 'a'
		out.stmts = stmts(v.Statements)
	default:
		good = false
	}
	return out, good
}

func (c *caseT) labelsUsed() map[int]bool {
	m := map[int]bool{}
	for _, q := range c.ts {
		if q.S.Kind == vh.KBNode {
			m[q.S.BNode] = true
		}
		if q.O.Kind == vh.KBNode {
			m[q.O.BNode] = true
		}
	}
	return m
}

// probeD7: does the tree under test still drop the `a rdf:List` of a typed list node?
func probeD7() bool {
	c := &caseT{kind: 'r', cfg: cfgT{buffered: -1, sort: -1, bm: -1, pm: -1}}
	iriT := func(s string) vh.GTerm { return vh.GTerm{Kind: vh.KIRI, IRI: s} }
	c.rs = []resT{{root: 's', subj: iriT("http://e/s"), stmts: []stmtT{{pred: "http://e/p", anon: true, sub: []stmtT{
		{pred: rdfType, obj: iriT(rdfList)}, {pred: rdfFst, obj: iriT("http://e/1")}, {pred: rdfRst, obj: iriT(rdfNil)}}}}}}
	er := c.encode(nil)
	return !bytes.Contains(er.doc, []byte("List"))
}

// ---------------------------------------------------------------- replay: protocol line -> case

func unhexS(s string) (string, bool) {
	b, err := vh.UnX("x" + s)
	if err != nil || !utf8.Valid(b) {
		return "", false
	}
	return string(b), true
}

type lineParser struct {
	labels map[string]int
	c      *caseT
}

func (p *lineParser) term(s string) (vh.GTerm, bool) {
	if len(s) == 0 {
		return vh.GTerm{}, false
	}
	switch s[0] {
	case 'I':
		v, ok := unhexS(s[1:])
		return vh.GTerm{Kind: vh.KIRI, IRI: v}, ok
	case 'B':
		v, ok := unhexS(s[1:])
		if !ok {
			return vh.GTerm{}, false
		}
		i, seen := p.labels[v]
		if !seen {
			i = len(p.labels)
			p.labels[v] = i
			p.c.labels[i] = v
		}
		return vh.GTerm{Kind: vh.KBNode, BNode: i}, true
	case 'L':
		f := strings.Split(s[1:], ".")
		if len(f) != 3 {
			return vh.GTerm{}, false
		}
		lex, ok1 := unhexS(f[0])
		dt, ok2 := unhexS(f[1])
		g := vh.GTerm{Kind: vh.KLit, Lex: lex, DT: dt}
		if f[2] != "-" {
			l, ok := unhexS(f[2])
			if !ok {
				return g, false
			}
			g.Lang = l
		}
		return g, ok1 && ok2
	}
	return vh.GTerm{}, false
}

func parseMappings(s string) (iri.PrefixMappingList, bool) {
	if s == "-" {
		return nil, true
	}
	var l iri.PrefixMappingList
	for _, e := range strings.Split(s, ",") {
		f := strings.Split(e, "=")
		if len(f) != 2 {
			return nil, false
		}
		a, ok1 := unhexS(f[0])
		b, ok2 := unhexS(f[1])
		if !ok1 || !ok2 {
			return nil, false
		}
		l = append(l, iri.PrefixMapping{Prefix: a, Expanded: b})
	}
	return l, true
}

func triV(c byte) int {
	switch c {
	case '0':
		return 0
	case '1':
		return 1
	}
	return -1
}

func modeV(c byte) int { return strings.IndexByte("asd", c) }

func parseLine(l string) (*caseT, bool) {
	f := strings.Fields(l)
	if len(f) < 7 || f[0] != "ttle.enc" || len(f[1]) != 5 || len(f[5]) != 1 {
		return nil, false
	}
	c := &caseT{labels: map[int]string{}, tag: "replay", kind: f[5][0]}
	c.cfg = cfgT{buffered: triV(f[1][0]), sort: triV(f[1][1]), bm: modeV(f[1][2]), pm: modeV(f[1][3])}
	if f[2] != "-" {
		b, err := vh.UnX(f[2])
		if err != nil {
			return nil, false
		}
		s := string(b)
		c.cfg.base = &s
	}
	var ok bool
	if c.cfg.prefixes, ok = parseMappings(f[3]); !ok {
		return nil, false
	}
	p := &lineParser{labels: map[string]int{}, c: c}
	switch c.kind {
	case 't', 'b':
		if f[6] != "-" {
			for _, t := range strings.Split(f[6], ";") {
				x := strings.Split(t, ",")
				if len(x) != 3 {
					return nil, false
				}
				s, ok1 := p.term(x[0])
				pr, ok2 := p.term(x[1])
				o, ok3 := p.term(x[2])
				if !ok1 || !ok2 || !ok3 || pr.Kind != vh.KIRI || s.Kind == vh.KLit {
					return nil, false
				}
				c.ts = append(c.ts, vh.GQuad{S: s, P: pr, O: o})
			}
		}
	case 'r':
		if f[6] != "-" {
			for _, rs := range strings.Split(f[6], "|") {
				items := strings.Split(rs, ";")
				var r resT
				switch {
				case strings.HasPrefix(items[0], "s/"):
					t, ok := p.term(items[0][2:])
					if !ok || t.Kind == vh.KLit {
						return nil, false
					}
					r.root, r.subj = 's', t
				case items[0] == "n" || items[0] == "a":
					r.root = items[0][0]
				default:
					return nil, false
				}
				type frame struct {
					pred string
					acc  []stmtT
				}
				var stack []frame
				acc := []stmtT{}
				for _, it := range items[1:] {
					x := strings.Split(it, "/")
					switch {
					case len(x) == 3 && x[0] == "o":
						pr, ok1 := unhexS(x[1])
						o, ok2 := p.term(x[2])
						if !ok1 || !ok2 {
							return nil, false
						}
						acc = append(acc, stmtT{pred: pr, obj: o})
					case len(x) == 2 && x[0] == "[":
						pr, ok1 := unhexS(x[1])
						if !ok1 {
							return nil, false
						}
						stack = append(stack, frame{pr, acc})
						acc = []stmtT{}
					case len(x) == 1 && x[0] == "]":
						if len(stack) == 0 {
							return nil, false
						}
						top := stack[len(stack)-1]
						stack = stack[:len(stack)-1]
						acc = append(top.acc, stmtT{pred: top.pred, anon: true, sub: acc})
					default:
						return nil, false
					}
				}
				if len(stack) != 0 {
					return nil, false
				}
				r.stmts = acc
				c.rs = append(c.rs, r)
			}
		}
	default:
		return nil, false
	}
	return c, true
}
