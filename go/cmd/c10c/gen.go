package main

// Generators: grammar-directed local contexts, protected-term scenarios, structural mutations, the
// bounded-exhaustive prefix-flag family, and the IRI expansion battery.

import (
	"bytes"
	"encoding/json"
	"fmt"
	"sort"
	"strings"

	"verifharness/vh"
)

func jtext(v any) string {
	var b bytes.Buffer
	e := json.NewEncoder(&b)
	e.SetEscapeHTML(false)
	if err := e.Encode(v); err != nil {
		return "null"
	}
	return strings.TrimSuffix(b.String(), "\n")
}

func sp(s string) *string { return &s }

var modes = []string{"json-ld-1.1", "json-ld-1.1", "json-ld-1.0", "json-ld-1.2"}

var origBases = []*string{
	nil, sp("http://example.org/dir/doc.jsonld"), sp("http://a/b/c/d;p?q"), sp("http://example.org"),
	sp("urn:ex:doc"), sp("file:///tmp/x.jsonld"), sp("https://w3c.github.io/json-ld-api/tests/expand/0001-in.jsonld"),
	sp("http://example.org/a/b#frag"), sp("rel/base"), sp("tag:example.org,2020:x"),
}

var stepBases = []*string{nil, nil, nil, sp("http://example.org/ctx/base.jsonld"), sp("urn:ctx")}

var absIRIs = []string{
	"http://ex.org/ns#", "http://ex.org/ns/", "http://ex.org/q?", "http://ex.org/c:", "http://ex.org/b[",
	"http://ex.org/b]", "http://ex.org/u@", "http://ex.org/plain", "urn:x:", "urn:x", "tag:a,b",
	"http://ex.org/with space", "mailto:a@b", "x:y", "HTTP://UP/", "1bad:scheme", "http://ex.org/é/",
	"http://www.w3.org/2001/XMLSchema#integer", "http://ex.org/ns#frag#two", "a+b-c.d:rest", "http://[::1]/", "http://ex.org/%zz",
}

var termNames = []string{
	"a", "b", "c", "ex", "foo", "name", "Type", "id", "ex:a", "ex:b", "foo:bar", "ex:a/b", "a/b", "/abs", ":", "x:",
	":x", "_:b", "_b", "@type", "@foo", "@id", "@ignoreMe", "", "http://ex.org/t", "urn:t", "has space", "é", "a.b",
	"a-b", "ex:ex", "@", "1a", "b:c:d", "a:", "http", "ex://x", "foo/", "@context", "@Type",
}

var keywordValues = []string{"@id", "@type", "@graph", "@context", "@foo", "@value", "@none", "@json", "@vocab", "@language", "@list", "@set", "@index", "@nest", "@reverse", "@included", "@"}

var relValues = []string{"rel", "../up", "a/b", "#frag", "?q", "", "ex:", ":", "_:b0", "_:", "//host/p", "./x", "a b", "ex:x y", "/abs/p", "ex://auth/p"}

type gen struct {
	r     *vh.Rng
	names []string
}

func (g *gen) pickNames() {
	k := 1 + g.r.Intn(6)
	seen := map[string]bool{}
	g.names = nil
	for len(g.names) < k {
		n := vh.Pick(g.r, termNames)
		if g.r.Chance(55) {
			n = vh.Pick(g.r, termNames[:12])
		}
		if !seen[n] {
			seen[n] = true
			g.names = append(g.names, n)
		}
	}
}

// idValue: a string used where an IRI, compact IRI, term or keyword is expected.
func (g *gen) idValue() string {
	switch g.r.Intn(10) {
	case 0, 1, 2:
		return vh.Pick(g.r, absIRIs)
	case 3, 4:
		return vh.Pick(g.r, g.names)
	case 5, 6:
		n := vh.Pick(g.r, g.names)
		if i := strings.IndexByte(n, ':'); i > 0 && g.r.Bool() {
			n = n[:i]
		}
		return n + ":" + vh.Pick(g.r, []string{"suffix", "", "a/b", "x:y", "//net", "#f"})
	case 7:
		return vh.Pick(g.r, keywordValues)
	case 8:
		return vh.Pick(g.r, relValues)
	}
	return vh.Pick(g.r, termNames)
}

func (g *gen) junk() any {
	return vh.Pick(g.r, []any{nil, true, false, 1, 1.1, 0.5, "str", []any{}, []any{"@set"}, map[string]any{}, map[string]any{"@id": "x"}, "ltr", "@set"})
}

func (g *gen) containerValue() any {
	cs := []string{"@list", "@set", "@index", "@language", "@id", "@type", "@graph"}
	switch g.r.Intn(8) {
	case 0, 1, 2:
		return vh.Pick(g.r, cs)
	case 3, 4:
		k := 1 + g.r.Intn(3)
		var out []any
		for i := 0; i < k; i++ {
			out = append(out, vh.Pick(g.r, cs))
		}
		return out
	case 5:
		return []any{"@graph", vh.Pick(g.r, []string{"@id", "@index"}), "@set"}[:2+g.r.Intn(2)]
	case 6:
		return nil
	}
	return g.junk()
}

func (g *gen) expandedDef(depth int) map[string]any {
	d := map[string]any{}
	if g.r.Chance(80) {
		if g.r.Chance(8) {
			d["@id"] = g.junk()
		} else {
			d["@id"] = g.idValue()
		}
	}
	if g.r.Chance(12) {
		if g.r.Chance(15) {
			d["@reverse"] = g.junk()
		} else {
			d["@reverse"] = g.idValue()
		}
		if g.r.Chance(70) {
			delete(d, "@id")
		}
	}
	if g.r.Chance(35) {
		switch g.r.Intn(6) {
		case 0, 1:
			d["@type"] = vh.Pick(g.r, []string{"@id", "@vocab", "@json", "@none", "@type", "@foo"})
		case 2, 3, 4:
			d["@type"] = g.idValue()
		default:
			d["@type"] = g.junk()
		}
	}
	if g.r.Chance(40) {
		d["@container"] = g.containerValue()
	}
	if g.r.Chance(12) {
		if g.r.Chance(75) {
			d["@index"] = g.idValue()
		} else {
			d["@index"] = g.junk()
		}
		if g.r.Chance(70) {
			d["@container"] = vh.Pick(g.r, []any{"@index", []any{"@index", "@set"}, []any{"@graph", "@index"}})
		}
	}
	if g.r.Chance(12) {
		d["@language"] = vh.Pick(g.r, []any{"en", "de-CH", nil, "", "not a tag", 5, true})
	}
	if g.r.Chance(10) {
		d["@direction"] = vh.Pick(g.r, []any{"ltr", "rtl", nil, "up", 1})
	}
	if g.r.Chance(10) {
		d["@nest"] = vh.Pick(g.r, []any{"@nest", "nested", "@id", "@foo", "", 1, nil})
	}
	if g.r.Chance(18) {
		d["@prefix"] = vh.Pick(g.r, []any{true, true, false, "true", nil})
	}
	if g.r.Chance(15) {
		d["@protected"] = vh.Pick(g.r, []any{true, true, false, "x", nil})
	}
	if depth < 2 && g.r.Chance(14) {
		sub := &gen{r: g.r}
		d["@context"] = sub.localContext(depth + 1)
	}
	if g.r.Chance(4) {
		d[vh.Pick(g.r, []string{"@propagate", "@vocab", "@base", "other", "@value", "@version"})] = g.junk()
	}
	return d
}

func (g *gen) termDef(depth int) any {
	switch g.r.Intn(12) {
	case 0, 1, 2, 3, 4:
		return g.idValue()
	case 5:
		return nil
	case 6:
		return vh.Pick(g.r, []any{1, true, []any{}, 1.1})
	}
	return g.expandedDef(depth)
}

func (g *gen) contextObj(depth int) map[string]any {
	g.pickNames()
	c := map[string]any{}
	for _, n := range g.names {
		if n == "@type" && g.r.Chance(70) {
			c[n] = vh.Pick(g.r, []any{
				map[string]any{"@container": "@set"}, map[string]any{"@protected": true},
				map[string]any{"@container": "@set", "@protected": false}, map[string]any{"@container": "@list"},
				map[string]any{}, map[string]any{"@container": "@set", "@id": "@type"},
			})
			continue
		}
		c[n] = g.termDef(depth)
	}
	if g.r.Chance(30) {
		c["@vocab"] = vh.Pick(g.r, []any{"http://vocab.org/", "http://vocab.org/ns#", "", "rel/", "../v#", "_:v", "ex:v/", vh.Pick(g.r, g.names), nil, 1, "@id", "@foo", "urn:v:", "/abs/", "no colon", "http://ex.org/%zz"})
	}
	if g.r.Chance(25) {
		c["@base"] = vh.Pick(g.r, []any{"http://base.org/dir/", "http://base.org", "rel/", "../up/", "", "#f", "?q", nil, 1, "urn:b:c", "/abs", "http://ex.org/%zz", "//net/x", "a:b"})
	}
	if g.r.Chance(15) {
		c["@language"] = vh.Pick(g.r, []any{"en", "FR-ca", nil, "", 1, true})
	}
	if g.r.Chance(10) {
		c["@direction"] = vh.Pick(g.r, []any{"ltr", "rtl", nil, "x", 1})
	}
	if g.r.Chance(15) {
		c["@version"] = vh.Pick(g.r, []any{1.1, 1.1, 1.0, 1, 2.2, "1.1", nil, true, 11e-1, 1.1000000000000001})
	}
	if g.r.Chance(12) {
		c["@propagate"] = vh.Pick(g.r, []any{true, false, false, "x", nil})
	}
	if g.r.Chance(15) {
		c["@protected"] = vh.Pick(g.r, []any{true, true, false, "x", nil})
	}
	if g.r.Chance(3) {
		c["@import"] = vh.Pick(g.r, []any{"http://ex.org/ctx", "rel.jsonld", 1, nil, ""})
	}
	return c
}

func (g *gen) localContext(depth int) any {
	switch g.r.Intn(14) {
	case 0:
		return nil
	case 1:
		return vh.Pick(g.r, []any{"http://remote.example/ctx", "", 1, true, 1.5})
	case 2, 3:
		k := g.r.Intn(4)
		out := []any{}
		for i := 0; i < k; i++ {
			if g.r.Chance(20) {
				out = append(out, vh.Pick(g.r, []any{nil, nil, "remote.jsonld", 5}))
			} else {
				out = append(out, g.contextObj(depth))
			}
		}
		return out
	}
	return g.contextObj(depth)
}

// validDef: a term definition the algorithms accept (under json-ld-1.1), over the names of g.
func (g *gen) validDef() any {
	iri := vh.Pick(g.r, absIRIs[:11])
	if g.r.Chance(60) {
		return iri
	}
	d := map[string]any{"@id": iri}
	if g.r.Chance(40) {
		d["@type"] = vh.Pick(g.r, []string{"@id", "@vocab", "http://www.w3.org/2001/XMLSchema#integer", "@json", "@none"})
	}
	if g.r.Chance(50) {
		d["@container"] = vh.Pick(g.r, []any{"@list", "@set", "@index", "@language", "@id", "@graph", []any{"@index", "@set"}, []any{"@graph", "@id"}, []any{"@set", "@language"}})
	}
	if _, ok := d["@type"]; !ok && g.r.Chance(30) {
		d["@language"] = vh.Pick(g.r, []any{"en", "de", nil})
	}
	if g.r.Chance(20) {
		d["@direction"] = vh.Pick(g.r, []any{"ltr", "rtl", nil})
	}
	if g.r.Chance(20) {
		d["@nest"] = vh.Pick(g.r, []any{"@nest", "nested"})
	}
	if g.r.Chance(20) {
		d["@prefix"] = g.r.Bool()
	}
	if g.r.Chance(15) {
		d["@context"] = map[string]any{"inner": "http://ex.org/inner#"}
	}
	if c, ok := d["@container"]; ok && g.r.Chance(40) {
		if cs, ok := c.(string); ok && cs == "@index" {
			d["@index"] = "http://ex.org/idx"
		}
	}
	return d
}

func (g *gen) validContext() map[string]any {
	c := map[string]any{}
	k := 1 + g.r.Intn(5)
	for i := 0; i < k; i++ {
		n := vh.Pick(g.r, []string{"a", "b", "c", "ex", "foo", "name", "Type", "id"})
		if g.r.Chance(15) {
			d := map[string]any{"@reverse": vh.Pick(g.r, absIRIs[:8])}
			if g.r.Bool() {
				d["@container"] = vh.Pick(g.r, []any{"@set", "@index", nil})
			}
			c[n] = d
		} else {
			c[n] = g.validDef()
		}
	}
	return c
}

// fieldEdit changes one entry of one expanded term definition of a copy of c (or turns a simple
// definition into an expanded one with one more entry).
func (h *harness) fieldEdit(c map[string]any) map[string]any {
	b, _ := json.Marshal(c)
	var cp map[string]any
	json.Unmarshal(b, &cp)
	var names []string
	for _, k := range vh.SortedKeys(cp) {
		if !strings.HasPrefix(k, "@") {
			names = append(names, k)
		}
	}
	if len(names) == 0 {
		return cp
	}
	n := vh.Pick(h.r, names)
	d, ok := cp[n].(map[string]any)
	if !ok {
		d = map[string]any{"@id": cp[n]}
	}
	key := vh.Pick(h.r, []string{"@id", "@type", "@container", "@language", "@direction", "@nest", "@prefix", "@index", "@context", "@protected", "@reverse"})
	if h.r.Chance(50) {
		// an entry the definition already has
		if ks := vh.SortedKeys(d); len(ks) > 0 {
			key = vh.Pick(h.r, ks)
		}
	}
	switch key {
	case "@id":
		d[key] = vh.Pick(h.r, absIRIs[:11])
	case "@type":
		d[key] = vh.Pick(h.r, []any{"@id", "@vocab", "http://www.w3.org/2001/XMLSchema#integer", "@json", "@none"})
	case "@container":
		d[key] = vh.Pick(h.r, []any{"@list", "@set", "@index", "@language", "@id", "@graph", []any{"@index", "@set"}, []any{"@set", "@index"}, []any{"@graph", "@id"}, nil})
	case "@language":
		d[key] = vh.Pick(h.r, []any{"en", "de", nil})
	case "@direction":
		d[key] = vh.Pick(h.r, []any{"ltr", "rtl", nil})
	case "@nest":
		d[key] = vh.Pick(h.r, []any{"@nest", "nested", "other"})
	case "@prefix", "@protected":
		d[key] = h.r.Bool()
	case "@index":
		d[key] = vh.Pick(h.r, []any{"http://ex.org/idx", "http://ex.org/idx2"})
		d["@container"] = "@index"
	case "@context":
		d[key] = vh.Pick(h.r, []any{map[string]any{"inner": "http://ex.org/inner#"}, map[string]any{"inner": "http://ex.org/other#"}, nil})
	case "@reverse":
		delete(d, "@id")
		delete(d, "@nest")
		d[key] = vh.Pick(h.r, absIRIs[:8])
	}
	if h.r.Chance(15) {
		delete(d, key)
	}
	cp[n] = d
	return cp
}

// termsOf collects the member names of every object of a value (term names, keywords, nested ones).
func termsOf(v any, acc map[string]bool) {
	switch t := v.(type) {
	case map[string]any:
		for k, x := range t {
			acc[k] = true
			termsOf(x, acc)
		}
	case []any:
		for _, x := range t {
			termsOf(x, acc)
		}
	}
}

// battery builds IRI expansions for a history: every defined term, a compact IRI over every term,
// keywords, keyword-like strings, relative references, blank node identifiers, absolute IRIs and
// values which are not strings.
func (h *harness) battery(ctxs []any, max int) []query {
	acc := map[string]bool{}
	for _, c := range ctxs {
		termsOf(c, acc)
	}
	names := make([]string, 0, len(acc))
	for k := range acc {
		names = append(names, k)
	}
	sort.Strings(names)
	var vals []any
	for _, n := range names {
		vals = append(vals, n, n+":x", n+":")
		if i := strings.IndexByte(n, ':'); i > 0 {
			vals = append(vals, n[:i], n[:i]+":other")
		}
	}
	for _, s := range []string{"@id", "@type", "@foo", "@", "@context", "rel", "a/b", "../x", "#f", "?q", "", "_:b1", "_:", "http://abs/x", "urn:x", "ex:", ":x", "ex:a", "ex://a", "x y", "foo:bar", "nocolon", "http:", "a:b:c", "%zz", "é:x"} {
		vals = append(vals, s)
	}
	vals = append(vals, nil, true, 5, 1.1, map[string]any{}, []any{"a"}, map[string]any{"@id": "a"})
	var qs []query
	for _, v := range vals {
		t := jtext(v)
		for m := 0; m < 4; m++ {
			qs = append(qs, query{DocRel: m&1 == 1, Vocab: m&2 == 2, Text: t})
		}
	}
	if len(qs) > max {
		// deterministic sample
		out := make([]query, 0, max)
		for len(out) < max {
			out = append(out, qs[h.r.Intn(len(qs))])
		}
		qs = out
	}
	return qs
}

func (h *harness) genCases(n int) {
	for i := 0; i < n; i++ {
		g := &gen{r: h.r}
		c := hcase{Tag: "gen", Mode: vh.Pick(h.r, modes), OrigBase: vh.Pick(h.r, origBases)}
		k := 1 + h.r.Intn(4)
		if h.r.Chance(50) {
			k = 1
		}
		var ctxs []any
		for j := 0; j < k; j++ {
			lc := g.localContext(0)
			ctxs = append(ctxs, lc)
			c.Steps = append(c.Steps, step{
				OverrideProtected: h.r.Chance(15), Propagate: !h.r.Chance(15), Base: vh.Pick(h.r, stepBases), Text: jtext(lc),
			})
		}
		c.Queries = h.battery(ctxs, 24)
		h.run(c)
	}
}

// protectedCases: a protected definition, then a redefinition (identical, different in one field,
// nullification, override, scoped override).
func (h *harness) protectedCases(n int) {
	for i := 0; i < n; i++ {
		g := &gen{r: h.r}
		first := g.contextObj(0)
		if h.r.Chance(65) {
			first = g.validContext()
		}
		if h.r.Chance(70) {
			first["@protected"] = true
		}
		if h.r.Chance(40) {
			delete(first, "@version")
		}
		var second any
		switch h.r.Intn(9) {
		case 0:
			second = first
		case 6, 7, 8:
			cp := h.fieldEdit(first)
			if h.r.Bool() {
				delete(cp, "@protected")
			}
			second = cp
		case 1:
			b, _ := json.Marshal(first)
			var cp map[string]any
			json.Unmarshal(b, &cp)
			delete(cp, "@protected")
			second = h.mutate(cp)
		case 2:
			second = nil
		case 3:
			second = []any{nil, g.contextObj(0)}
		case 4:
			b, _ := json.Marshal(first)
			var cp map[string]any
			json.Unmarshal(b, &cp)
			for k, v := range cp {
				if s, ok := v.(string); ok && !strings.HasPrefix(k, "@") && h.r.Bool() {
					cp[k] = map[string]any{"@id": s}
				}
			}
			second = cp
		default:
			second = g.contextObj(0)
		}
		c := hcase{Tag: "protected", Mode: vh.Pick(h.r, modes), OrigBase: vh.Pick(h.r, origBases)}
		c.Steps = []step{
			{Propagate: true, Text: jtext(first)},
			{OverrideProtected: h.r.Chance(25), Propagate: !h.r.Chance(20), Text: jtext(second)},
		}
		if h.r.Chance(30) {
			c.Steps = append(c.Steps, step{Propagate: true, Text: jtext(g.localContext(0))})
		}
		c.Queries = h.battery([]any{first, second}, 16)
		h.run(c)
	}
}

// fragmentCases: local contexts inside the fragment of Spec/JsonLdFragment.lean (prefixes, simple and
// expanded definitions with @id/@type/@container @list|@set|@language/@language, compact-IRI terms,
// terms defined through other terms, @vocab, @base, @language), with a few steps outside it.
func (h *harness) fragmentCases(n int) {
	names := []string{"a", "b", "c", "ex", "foo", "name", "ns", "xsd"}
	for i := 0; i < n; i++ {
		k := 1 + h.r.Intn(6)
		c := map[string]any{}
		var used []string
		for j := 0; j < k; j++ {
			n := vh.Pick(h.r, names)
			if len(used) > 0 && h.r.Chance(25) {
				n = vh.Pick(h.r, used) + ":" + vh.Pick(h.r, []string{"x", "y/z", "p"})
			}
			used = append(used, n)
			var id string
			switch h.r.Intn(6) {
			case 0, 1, 2:
				id = vh.Pick(h.r, absIRIs[:11])
			case 3:
				id = vh.Pick(h.r, names) + ":" + vh.Pick(h.r, []string{"s", "", "t/u"})
			case 4:
				id = vh.Pick(h.r, names)
			default:
				id = vh.Pick(h.r, []string{"http://ex.org/ns#", "http://ex.org/ns/", "rel", "_:b"})
			}
			if h.r.Chance(55) {
				c[n] = id
				continue
			}
			d := map[string]any{}
			if h.r.Chance(85) {
				d["@id"] = id
			}
			if h.r.Chance(40) {
				d["@type"] = vh.Pick(h.r, []string{"@id", "@vocab", "http://www.w3.org/2001/XMLSchema#integer", "xsd:date", vh.Pick(h.r, names)})
			}
			if h.r.Chance(35) {
				d["@container"] = vh.Pick(h.r, []string{"@list", "@set", "@language"})
			}
			if h.r.Chance(20) {
				d["@language"] = vh.Pick(h.r, []any{"en", "de-CH", nil})
			}
			c[n] = d
		}
		if h.r.Chance(35) {
			c["@vocab"] = vh.Pick(h.r, []any{"http://vocab.org/", "http://vocab.org/ns#", nil, "ex:v/", "rel/"})
		}
		if h.r.Chance(25) {
			c["@base"] = vh.Pick(h.r, []any{"http://base.org/dir/", "rel/", "../up/x", nil, "#f"})
		}
		if h.r.Chance(20) {
			c["@language"] = vh.Pick(h.r, []any{"en", "fr-CA", nil})
		}
		if h.r.Chance(10) {
			c["@version"] = 1.1
		}
		var lc any = c
		if h.r.Chance(15) {
			lc = []any{nil, c}
		}
		hc := hcase{Tag: "fragment", Mode: vh.Pick(h.r, modes[:3]), OrigBase: vh.Pick(h.r, origBases[:4])}
		hc.Steps = []step{{Propagate: true, Text: jtext(lc)}}
		hc.Queries = h.battery([]any{lc}, 16)
		h.run(hc)
	}
}

// inheritCases: context-level settings (@base, @vocab, @language, @direction, previous context) made by
// one step must be in force, unchanged, after later steps which do not mention them.
func (h *harness) inheritCases(n int) {
	for i := 0; i < n; i++ {
		g := &gen{r: h.r}
		first := map[string]any{}
		if h.r.Chance(60) {
			first["@language"] = vh.Pick(h.r, []any{"en", "FR-ca", "x"})
		}
		if h.r.Chance(40) {
			first["@direction"] = vh.Pick(h.r, []any{"ltr", "rtl"})
		}
		if h.r.Chance(60) {
			first["@vocab"] = vh.Pick(h.r, []any{"http://vocab.org/", "http://vocab.org/ns#", "_:v", "", "rel/"})
		}
		if h.r.Chance(50) {
			first["@base"] = vh.Pick(h.r, []any{"http://base.org/dir/", "rel/", "../up/", "urn:b:c", nil})
		}
		if h.r.Chance(30) {
			first["@propagate"] = false
		}
		if h.r.Chance(50) {
			for k, v := range g.validContext() {
				first[k] = v
			}
		}
		c := hcase{Tag: "inherit", Mode: vh.Pick(h.r, modes[:3]), OrigBase: vh.Pick(h.r, origBases)}
		ctxs := []any{first}
		c.Steps = append(c.Steps, step{Propagate: !h.r.Chance(15), Text: jtext(first)})
		k := 1 + h.r.Intn(3)
		for j := 0; j < k; j++ {
			var lc any
			switch h.r.Intn(5) {
			case 0:
				lc = map[string]any{}
			case 1:
				lc = []any{g.validContext(), g.validContext()}
			case 2:
				lc = []any{}
			default:
				lc = g.validContext()
			}
			ctxs = append(ctxs, lc)
			c.Steps = append(c.Steps, step{Propagate: !h.r.Chance(15), OverrideProtected: h.r.Chance(10), Text: jtext(lc)})
		}
		c.Queries = h.battery(ctxs, 24)
		h.run(c)
	}
}

// mutate: one to three structural edits of a context value.
func (h *harness) mutate(v any) any {
	b, _ := json.Marshal(v)
	var cp any
	json.Unmarshal(b, &cp)
	k := 1 + h.r.Intn(3)
	for i := 0; i < k; i++ {
		cp = h.mutateOnce(cp, 0)
	}
	return cp
}

func (h *harness) mutateOnce(v any, depth int) any {
	g := &gen{r: h.r, names: []string{"a", "ex", "foo"}}
	switch t := v.(type) {
	case map[string]any:
		keys := vh.SortedKeys(t)
		if len(keys) > 0 && h.r.Chance(55) && depth < 4 {
			k := vh.Pick(h.r, keys)
			t[k] = h.mutateOnce(t[k], depth+1)
			return t
		}
		switch h.r.Intn(6) {
		case 0:
			if len(keys) > 0 {
				delete(t, vh.Pick(h.r, keys))
			}
		case 1:
			t[vh.Pick(h.r, termNames)] = g.termDef(2)
		case 2:
			t[vh.Pick(h.r, []string{"@id", "@type", "@container", "@context", "@index", "@language", "@direction", "@nest", "@prefix", "@protected", "@propagate", "@reverse", "@vocab", "@base", "@version", "@import"})] = vh.Pick(h.r, []any{g.idValue(), g.junk(), g.containerValue(), true, false, nil})
		case 3:
			if len(keys) > 1 {
				a, b := vh.Pick(h.r, keys), vh.Pick(h.r, keys)
				t[a], t[b] = t[b], t[a]
			}
		case 4:
			if len(keys) > 0 {
				k := vh.Pick(h.r, keys)
				t[vh.Pick(h.r, termNames)] = t[k]
				if h.r.Bool() {
					delete(t, k)
				}
			}
		default:
			return []any{t, g.contextObj(2)}
		}
		return t
	case []any:
		if len(t) > 0 && h.r.Chance(60) && depth < 4 {
			i := h.r.Intn(len(t))
			t[i] = h.mutateOnce(t[i], depth+1)
			return t
		}
		switch h.r.Intn(3) {
		case 0:
			if len(t) > 0 {
				i := h.r.Intn(len(t))
				return append(t[:i:i], t[i+1:]...)
			}
		case 1:
			return append(t, vh.Pick(h.r, []any{nil, g.contextObj(2), "@set", "@index"}))
		}
		if len(t) > 0 {
			return append(t, t[h.r.Intn(len(t))])
		}
		return t
	case string:
		switch h.r.Intn(5) {
		case 0:
			return g.idValue()
		case 1:
			return t + vh.Pick(h.r, []string{":", "/", "#", "?", "[", "]", "@", "x", " "})
		case 2:
			if len(t) > 0 {
				return t[:len(t)-1]
			}
		case 3:
			return map[string]any{"@id": t}
		}
		return g.junk()
	}
	if h.r.Bool() {
		return g.junk()
	}
	return g.idValue()
}

func (h *harness) mutateCases(n int) {
	pool := h.corpusContexts()
	for i := 0; i < n; i++ {
		var base any
		var mode string
		var ob *string
		if len(pool) > 0 && h.r.Chance(60) {
			cc := pool[h.r.Intn(len(pool))]
			json.Unmarshal([]byte(cc.text), &base)
			mode, ob = cc.mode, cc.base
			if h.r.Chance(30) {
				mode = vh.Pick(h.r, modes)
			}
		} else {
			g := &gen{r: h.r}
			base = g.localContext(0)
			mode, ob = vh.Pick(h.r, modes), vh.Pick(h.r, origBases)
		}
		m := h.mutate(base)
		c := hcase{Tag: "mutate", Mode: mode, OrigBase: ob}
		if h.r.Chance(35) {
			c.Steps = append(c.Steps, step{Propagate: true, Text: jtext(base)})
		}
		c.Steps = append(c.Steps, step{OverrideProtected: h.r.Chance(10), Propagate: !h.r.Chance(10), Text: jtext(m)})
		c.Queries = h.battery([]any{base, m}, 16)
		h.run(c)
	}
}

// prefixExhaustive: the prefix flag for every printable ASCII last byte of the IRI mapping, simple and
// expanded definitions, @prefix absent/true/false, terms with and without colon or slash, all modes.
func (h *harness) prefixExhaustive() {
	count := 0
	for _, mode := range []string{"json-ld-1.0", "json-ld-1.1", "json-ld-1.2"} {
		for last := 0x21; last <= 0x7e; last++ {
			iri := "http://e.org/x" + string(rune(last))
			for _, term := range []string{"p", "p:q", "p/q"} {
				for form := 0; form < 4; form++ {
					var def any
					switch form {
					case 0:
						def = iri
					case 1:
						def = map[string]any{"@id": iri}
					case 2:
						def = map[string]any{"@id": iri, "@prefix": true}
					default:
						def = map[string]any{"@id": iri, "@prefix": false}
					}
					if term != "p" && form > 1 {
						continue
					}
					lc := map[string]any{term: def}
					if term == "p:q" {
						lc["p"] = "http://e.org/"
					}
					c := hcase{Tag: "prefix", Mode: mode, Steps: []step{{Propagate: true, Text: jtext(lc)}}}
					for _, v := range []string{term + ":s", term, "p:x" + string(rune(last))} {
						c.Queries = append(c.Queries, query{Vocab: true, Text: jtext(v)}, query{DocRel: true, Text: jtext(v)})
					}
					h.run(c)
					count++
				}
			}
		}
	}
	h.rep.Exhaustive = append(h.rep.Exhaustive, fmt.Sprintf("prefix flag: 3 modes x 94 printable last bytes of the IRI mapping x {simple, expanded, @prefix true, @prefix false} (term without colon/slash) and x {simple, expanded} (terms p:q, p/q), each followed by compact-IRI expansions: %d histories", count))
	// blank node mappings and a bare blank node prefix
	for _, mode := range []string{"json-ld-1.0", "json-ld-1.1"} {
		for _, def := range []any{"_:b", "_:", map[string]any{"@id": "_:b"}, map[string]any{"@id": "_:b", "@prefix": true}, nil, map[string]any{"@id": nil, "@prefix": true}, "@type", map[string]any{"@id": "@type", "@prefix": true}} {
			c := hcase{Tag: "prefix", Mode: mode, Steps: []step{{Propagate: true, Text: jtext(map[string]any{"p": def})}}}
			c.Queries = []query{{Vocab: true, Text: jtext("p:s")}, {Vocab: true, Text: jtext("p")}, {Text: jtext("p:s")}}
			h.run(c)
		}
	}
}
