/-
  Hypotheses of the nested-resource theorems of C02 (`Props/C02DocNest.lean`): well-formedness of the
  terms of a resource tree (`Desc.Stmt` / `Desc.Resource`), recursively — the same conditions
  `C02.TripleOK` puts on the terms of a triple.
-/
import RdfModel.Props.C02DocDefs
namespace RdfModel.C02
open RdfModel RdfModel.Ttl RdfModel.TtlEnc RdfModel.Desc

mutual
/-- every predicate and object of the statement tree is a well-formed term -/
def StmtOK {β : Type} (c : Ctx β) (base : Option (List Nat)) : Stmt β → Prop
  | .obj p o => iriTermOK c base p ∧ objectOK c base o
  | .anon p l => iriTermOK c base p ∧ StmtsOK c base l
def StmtsOK {β : Type} (c : Ctx β) (base : Option (List Nat)) : List (Stmt β) → Prop
  | [] => True
  | s :: l => StmtOK c base s ∧ StmtsOK c base l
end

/-- a well-formed resource: explicit subjects are IRIs or blank nodes, all statements well-formed -/
def ResourceOK {β : Type} (c : Ctx β) (base : Option (List Nat)) : Resource β → Prop
  | .subject (some s) st => subjectOK c base s ∧ StmtsOK c base st
  | .subject none st => StmtsOK c base st
  | .anon st => StmtsOK c base st

theorem stmtsOK_iff {β : Type} (c : Ctx β) (base : Option (List Nat)) :
    ∀ l : List (Stmt β), StmtsOK c base l ↔ ∀ s ∈ l, StmtOK c base s
  | [] => by simp [StmtsOK]
  | s :: l => by simp [StmtsOK, stmtsOK_iff c base l]

end RdfModel.C02
