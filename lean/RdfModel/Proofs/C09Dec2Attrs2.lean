/-
  Part C09D2: empty property elements whose property attributes include rdf:type="…" and other rdf:-namespace names.
-/
import RdfModel.Proofs.C09Dec2Attrs
namespace RdfModel.RXD
open RdfModel RdfModel.Desc RdfModel.RX RdfModel.C09Dec

variable {rs : Str → Str → Str} {render : List Tok → Option Str}

def MixOK (a : Attr) : Prop := AttrOK a ∧ (a.ns = rdfNS → RdfPropName a)

theorem rdfPropName_facts2 {a : Attr} (h : RdfPropName a) :
    a.name ≠ n_ID ∧ a.name ≠ n_resource ∧ a.name ≠ n_parseType ∧ a.name ≠ n_nodeID ∧ a.name ≠ n_datatype ∧
    emptyAttrForbidden.contains a.name = false := by
  obtain ⟨h1, h2⟩ := h
  simp only [badAttrName, syntaxAttrName, oldTerms, List.cons_append, List.nil_append, List.contains_cons, List.contains_nil,
    Bool.or_false, Bool.or_eq_false_iff, beq_eq_false_iff_ne, ne_eq] at h1 h2
  refine ⟨fun e => h2.1 e, fun e => h2.2.2.2.1 e, fun e => h2.2.2.2.2.2 e, fun e => h2.2.2.1 e, fun e => h2.2.2.2.2.1 e, ?_⟩
  simp only [emptyAttrForbidden, List.contains_cons, List.contains_nil, Bool.or_false, Bool.or_eq_false_iff,
    beq_eq_false_iff_ne, ne_eq]
  exact ⟨h1.1, h2.2.1, h2.2.2.2.2.2, h1.2.1, h1.2.2.1, h1.2.2.2.1, h1.2.2.2.2.1, h1.2.2.2.2.2⟩

theorem peltAttrLoop_mix (B : List Attr) (hB : ∀ a ∈ B, MixOK a) (y : PInfo) : peltAttrLoop B y = some y := by
  induction B with
  | nil => rfl
  | cons a B ih =>
    have ih' := ih (fun x hx => hB x (by simp [hx]))
    by_cases h1 : a.ns = rdfNS
    · obtain ⟨e1, e2, e3, _⟩ := rdfPropName_facts2 ((hB a (by simp)).2 h1)
      simp only [peltAttrLoop, e1, e2, e3, and_false, if_false]
      exact ih'
    · simp only [peltAttrLoop, h1, false_and, if_false]
      exact ih'

theorem peltAttrLoop_stdM (i : AttrInfo) (hp : ∀ a ∈ i.props, MixOK a) (ha : i.about = none)
    (hid : ∀ v, i.id = some v → isNCName v = true) :
    peltAttrLoop (stdAttrs i) {} = some
      { pt := match i.parseType with
              | none => []
              | some pt => if pt = n_Literal ∨ pt = n_Resource ∨ pt = n_Collection then pt else n_Literal
        rdfID := i.id, rdfResource := i.resource } := by
  rw [stdAttrs_split, peltAttrLoop_append, peltAttrLoop_std { i with props := [] } rfl ha hid]
  exact peltAttrLoop_mix _ hp _

theorem props_start_genericM (hf : EmptyRefNoFrag rs) (i : AttrInfo) (hp : ∀ a ∈ i.props, MixOK a) (ha : i.about = none)
    (hpt : i.parseType = none) (hid : ∀ v, i.id = some v → isNCName v = true) {env : Env} {ctx : Ctx}
    (hrel : CtxRel env ctx) (nm : PName) (li : Nat) (hname : wfName li nm = true) (s : Term BN) (ret : Ret)
    (below : List Frame) (ctx0 : Ctx) (st : St) :
    ∃ nctx st1, step (mkP rs render) ctx0 (.props ctx s li ret :: below) st (.start nm.ns nm.name (stdAttrs i)) =
        .cont (.pelt ctx nctx s nm.pred (stdAttrs i) i.id [] [] [] :: .props ctx s (nm.nextLi li) ret :: below) st1 ∧
      st1.next = st.next ∧ st1.out = st.out := by
  obtain ⟨c', st1, hpca, _, hn, ho⟩ := pca_stdM (render := render) hf i (fun a ha => (hp a ha).1) hrel st
  obtain ⟨_, hpred, hli⟩ := wfName_facts li nm hname
  refine ⟨c', st1, ?_, hn, ho⟩
  simp only [step, propNameForbidden_of_wfName hname, peltEntry, peltAttrLoop_stdM i hp ha hid, hpt, hpca,
    nil_ne_Literal, nil_ne_Resource, nil_ne_Collection, false_and, if_false, hpred, hli]
  rfl

theorem emptyLoop_append (A B : List Attr) (x : EInfo) :
    emptyLoop (A ++ B) x = match emptyLoop A x with
      | none => none
      | some y => emptyLoop B y := by
  induction A generalizing x with
  | nil => simp [emptyLoop]
  | cons a A ih =>
    simp only [List.cons_append, emptyLoop]
    repeat' split
    all_goals first | exact ih _ | rfl | simp_all

theorem emptyLoop_rdfprops (B : List Attr) (hB : ∀ a ∈ B, RdfPropName a) (y : EInfo) :
    emptyLoop B y = some { y with rdfProp := if B = [] then y.rdfProp else true } := by
  induction B generalizing y with
  | nil => simp [emptyLoop]
  | cons a B ih =>
    obtain ⟨e1, e2, _, e4, e5, _⟩ := rdfPropName_facts2 (hB a (by simp))
    simp only [emptyLoop, e1, e2, e4, e5, if_false]
    rw [ih (fun x hx => hB x (by simp [hx]))]
    cases B <;> simp

theorem emptyAttrLoop_mixed (hf : EmptyRefNoFrag rs) {env : Env} {ctx : Ctx} (hrel : CtxRel env ctx) (o : Term BN)
    (ho : WFSubj o) (B : List Attr) (hB : ∀ a ∈ B, MixOK a) (st : St) :
    ∃ st1, emptyAttrLoop (mkP rs render) ctx o B st = .ok () st1 ∧
      st1.out = (B.map (propAttrTriple rs env o)).reverse ++ st.out ∧ st1.next = st.next := by
  induction B generalizing st with
  | nil => exact ⟨st, rfl, by simp, rfl⟩
  | cons a B ih =>
    have hs : asSubject o = some o := by cases o <;> simp_all [asSubject, WFSubj]
    have hB' : ∀ x ∈ B, MixOK x := fun x hx => hB x (by simp [hx])
    by_cases h1 : a.ns = rdfNS
    · obtain ⟨e1, e2, _, e4, e5, e6⟩ := rdfPropName_facts2 ((hB a (by simp)).2 h1)
      by_cases ht : a.name = n_type
      · obtain ⟨st1, q1, q2, q3⟩ := ih hB' (st.emit ⟨o, rdfType, .iri (rs env.base a.val)⟩)
        have t1 : n_type ≠ n_ID := by decide
        have t2 : n_type ≠ n_resource := by decide
        have t3 : n_type ≠ n_nodeID := by decide
        have t4 : n_type ≠ n_datatype := by decide
        refine ⟨st1, ?_, ?_, by rw [q3]; rfl⟩
        · simp only [emptyAttrLoop, h1, ht, t1, t2, t3, t4, or_self, and_false, if_false, and_self, if_true, hs,
            resolveIRI_sim hf hrel, q1]
        · rw [q2]; simp [St.emit, propAttrTriple, h1, ht]
      · obtain ⟨st1, q1, q2, q3⟩ := ih hB' (st.emit ⟨o, a.ns ++ a.name, mkLitCtx a.val ctx⟩)
        refine ⟨st1, ?_, ?_, by rw [q3]; rfl⟩
        · simp only [emptyAttrLoop, h1, e1, e2, e4, e5, ht, e6, or_self, and_false, if_false, Bool.false_eq_true, hs]
          rw [← h1]; exact q1
        · rw [q2]; simp [St.emit, propAttrTriple, ht, mkLitCtx, hrel.2]
    · obtain ⟨st1, q1, q2, q3⟩ := ih hB' (st.emit ⟨o, a.ns ++ a.name, mkLitCtx a.val ctx⟩)
      refine ⟨st1, ?_, ?_, by rw [q3]; rfl⟩
      · simp only [emptyAttrLoop, h1, false_and, if_false, hs, q1]
      · rw [q2]; simp [St.emit, propAttrTriple, h1, mkLitCtx, hrel.2]

theorem filter_both_nil {A : List Attr} (h1 : A.filter isRdf = []) (h2 : A.filter (fun a => !isRdf a) = []) : A = [] := by
  have := (List.filter_append_perm isRdf A).length_eq
  simp only [h1, h2, List.append_nil, List.length_nil] at this
  exact List.eq_nil_of_length_eq_zero this.symm

theorem peltEnd_emptyM (hf : EmptyRefNoFrag rs) (i : AttrInfo) (hp : ∀ a ∈ i.props, MixOK a) (ha : i.about = none)
    (hpt : i.parseType = none) (hnn : ∀ n, i.nodeID = some n → isNCName n = true)
    (hone : i.nodeID = none ∨ i.resource = none)
    (hsome : i.props ≠ [] ∨ i.resource.isSome ∨ i.nodeID.isSome ∨ i.datatype.isSome)
    {env : Env} {ctx : Ctx} (hrel : CtxRel env ctx) (s : Term BN) (pred : Str) (id : PId) (hi : i.id = PId.val id)
    {S S' : RX.St} (hidwf : wfId rs (env.push rs i.base i.lang) id S = some S') (st : St) :
    ∃ st1 o, peltEnd (mkP rs render) ctx s pred (stdAttrs i) i.id [] [] st = .ok () st1 ∧
      o = (match i.resource, i.nodeID with
        | some r, _ => Term.iri (rs (env.push rs i.base i.lang).base r)
        | none, some n => .bnode (.named n)
        | none, none => .bnode (.gen st.next)) ∧
      st1.out = (withReify (PId.iri id) ⟨s, pred, o⟩).reverse ++
        ((i.props.filter isRdf ++ i.props.filter (fun a => !isRdf a)).map
          (propAttrTriple rs (env.push rs i.base i.lang) o)).reverse ++ st.out ∧
      st1.next = (match i.resource, i.nodeID with | none, none => st.next + 1 | _, _ => st.next) := by
  obtain ⟨c', st1, hpca, hrel', hn, ho⟩ := pca_stdM (render := render) hf i (fun a h => (hp a h).1) hrel st
  have hres := fun v => resolveIRI_sim (render := render) hf hrel' v
  have hAr : ∀ a ∈ i.props.filter isRdf, RdfPropName a := by
    intro a h
    simp only [List.mem_filter, isRdf, decide_eq_true_eq] at h
    exact (hp a h.1).2 h.2
  have hmix : ∀ a ∈ i.props.filter isRdf ++ i.props.filter (fun a => !isRdf a), MixOK a := by
    intro a h
    simp only [List.mem_append, List.mem_filter] at h
    rcases h with h | h <;> exact hp a h.1
  have hloop : emptyLoop (rdfPart i ++ i.props.filter isRdf) {} = some ⟨i.resource, i.nodeID, i.datatype.isSome,
      (if i.props.filter isRdf = [] then false else true),
      (if i.nodeID.isSome then 1 else 0) + (if i.resource.isSome then 1 else 0)⟩ := by
    rw [emptyLoop_append, emptyLoop_stdD i ha hpt hnn]
    simp only
    rw [emptyLoop_rdfprops _ hAr]
  have hcond : ¬(i.props.filter (fun a => !isRdf a) = [] ∧ (if i.props.filter isRdf = [] then false else true) = false ∧
      i.resource = none ∧ i.nodeID = none ∧ i.datatype.isSome = false) := by
    intro ⟨h1, h0, h2, h3, h4⟩
    have h0' : i.props.filter isRdf = [] := by
      by_cases hx : i.props.filter isRdf = []
      · exact hx
      · simp [hx] at h0
    rcases hsome with h | h | h | h
    · exact h (filter_both_nil h0' h1)
    · simp [h2] at h
    · simp [h3] at h
    · simp [h4] at h
  have hobj : ∃ o st2, emptyObject (mkP rs render) c' ⟨i.resource, i.nodeID, i.datatype.isSome,
        (if i.props.filter isRdf = [] then false else true),
        (if i.nodeID.isSome then 1 else 0) + (if i.resource.isSome then 1 else 0)⟩ st1 = .ok o st2 ∧ WFSubj o ∧
      o = (match i.resource, i.nodeID with
        | some r, _ => Term.iri (rs (env.push rs i.base i.lang).base r)
        | none, some n => .bnode (.named n)
        | none, none => .bnode (.gen st.next)) ∧ st2.out = st1.out ∧
      st2.next = (match i.resource, i.nodeID with | none, none => st.next + 1 | _, _ => st.next) := by
    cases hR : i.resource with
    | some r => exact ⟨_, st1, by simp [emptyObject, hres], by simp [WFSubj], rfl, rfl, by simp [hn]⟩
    | none =>
      cases hN : i.nodeID with
      | some n => exact ⟨_, st1, by simp [emptyObject], by simp [WFSubj], rfl, rfl, by simp [hn]⟩
      | none => exact ⟨st1.fresh.1, st1.fresh.2, by simp [emptyObject], by simp [WFSubj, St.fresh], by simp [St.fresh, hn], rfl,
          by simp [St.fresh, hn]⟩
  obtain ⟨o, st2, hobj1, hwo, hoeq, hout2, hnext2⟩ := hobj
  obtain ⟨st3, hl1, hl2, hl3⟩ := emptyAttrLoop_mixed (render := render) hf hrel' o hwo _ hmix st2
  obtain ⟨st4, h1, h2, h3⟩ := optReify_sim (render := render) hf hrel' hidwf ⟨s, pred, o⟩ (st3.emit ⟨s, pred, o⟩) st3.out rfl
  have hnames : ¬((if i.nodeID.isSome then 1 else 0) + (if i.resource.isSome then 1 else 0) > 1) := by
    rcases hone with h | h <;> simp [h] <;> split <;> omega
  refine ⟨st4, o, ?_, hoeq, by rw [h2, hl2, hout2, ho, List.append_assoc], by rw [h3]; simp only [St.emit]; rw [hl3, hnext2]⟩
  unfold peltEnd
  simp only [ne_eq, not_true_eq_false, if_false, hpca, hloop, hnames, hcond, hobj1, List.append_assoc,
    emptyAttrLoop_skip_append _ _ _ _ _ (rdfPart_skipD i ha hpt), hl1, hi, h1]

theorem empty_elt_simM (hf : EmptyRefNoFrag rs) (i : AttrInfo) (hp : ∀ a ∈ i.props, MixOK a) (ha : i.about = none)
    (hpt : i.parseType = none) (hnn : ∀ n, i.nodeID = some n → isNCName n = true)
    (hone : i.nodeID = none ∨ i.resource = none)
    (hsome : i.props ≠ [] ∨ i.resource.isSome ∨ i.nodeID.isSome ∨ i.datatype.isSome)
    {env : Env} {ctx : Ctx} (hrel : CtxRel env ctx) (nm : PName) (li : Nat)
    (hname : wfName li nm = true) (s : Term BN) (id : PId) (hi : i.id = PId.val id)
    {S S' : RX.St} (hidwf : wfId rs (env.push rs i.base i.lang) id S = some S')
    (ret : Ret) (below : List Frame) (ctx0 : Ctx) (st : St) (rest : List Tok) (fin : Fin) :
    ∃ st1 o, run (mkP rs render) ctx0 (.props ctx s li ret :: below) st
        (.start nm.ns nm.name (stdAttrs i) :: .end_ nm.ns nm.name :: rest) fin =
        run (mkP rs render) ctx0 (.props ctx s (nm.nextLi li) ret :: below) st1 rest fin ∧
      o = (match i.resource, i.nodeID with
        | some r, _ => Term.iri (rs (env.push rs i.base i.lang).base r)
        | none, some n => .bnode (.named n)
        | none, none => .bnode (.gen st.next)) ∧
      st1.out = (withReify (PId.iri id) ⟨s, nm.pred, o⟩).reverse ++
        ((i.props.filter isRdf ++ i.props.filter (fun a => !isRdf a)).map
          (propAttrTriple rs (env.push rs i.base i.lang) o)).reverse ++ st.out ∧
      st1.next = (match i.resource, i.nodeID with | none, none => st.next + 1 | _, _ => st.next) := by
  have hidn := pidVal_ncname hidwf
  obtain ⟨nctx, st1, h1, hn1, ho1⟩ := props_start_genericM (render := render) hf i hp ha hpt (by rw [hi]; exact hidn) hrel nm li
    hname s ret below ctx0 st
  obtain ⟨st2, o, h2, hoeq, ho2, hn2⟩ := peltEnd_emptyM (render := render) hf i hp ha hpt hnn hone hsome hrel s nm.pred id hi hidwf st1
  refine ⟨st2, o, ?_, by rw [hoeq, hn1], by rw [ho2, ho1], by rw [hn2, hn1]⟩
  rw [run_step h1, run_step (stk' := .props ctx s (nm.nextLi li) ret :: below) (st' := st2) (by simp [step, h2])]

end RdfModel.RXD
