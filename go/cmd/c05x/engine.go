package main

import (
	"fmt"
	"sort"
	"strings"

	"verifharness/vh"
)

type engine struct {
	k        *collector
	rep      *vh.Report
	corp     *Corpus
	formats  []string
	rng      *vh.Rng
	nw       int
	thorough bool
	scale    int

	suspects []Case // in-process watchdog hits, confirmed in a child at the end
	risky    []Case // cases that may exhaust the stack or memory: run in a child
	latchObs []latchObservation
}

func (e *engine) has(f string) bool {
	for _, x := range e.formats {
		if x == f {
			return true
		}
	}
	return false
}

func (e *engine) randOpts(r *vh.Rng, format string) Opts {
	o := Opts{Offsets: r.Bool(), Base: r.Bool()}
	switch format {
	case "jsonld", "htmljsonld", "html":
		o.Lax = r.Chance(30)
		o.Mode = vh.Pick(r, []string{"", "", "json-ld-1.1", "json-ld-1.0"})
		o.Dir = vh.Pick(r, []string{"", "", "i18n-datatype", "compound-literal"})
		o.Loader = r.Chance(60)
	case "rdfjson":
		o.Lax = r.Chance(40)
	case "rdfa":
		o.Profile = r.Intn(3)
	case "microdata":
		o.Lax = r.Bool()
		o.Profile = 2 * r.Intn(2)
	}
	return o
}

func (e *engine) randSched(r *vh.Rng, n int) Sched {
	s := Sched{Chunk: "whole", FaultAt: -1}
	switch r.Intn(10) {
	case 0:
		s.Chunk = "1"
	case 1:
		s.Chunk = "midrune"
	case 2:
		s.Chunk = vh.Pick(r, []string{"2", "3", "7"})
	case 3, 4:
		s.Chunk, s.Seed = "rand", r.U64()%1000
	}
	if r.Chance(5) {
		s.Chunk = vh.Pick(r, []string{"z", "e"}) + s.Chunk
	}
	if r.Chance(8) {
		s.FaultAt = r.Intn(n + 1)
		s.Fault = vh.Pick(r, faultKinds)
	}
	return s
}

func (e *engine) seeds(format string) []Seed { return e.corp.ByFormat[format] }

// runTotality: the C05 / C06 generator families.
func (e *engine) runTotality() {
	r := e.rng
	nCorpus, nMut, nTrunc, nFault := 150, 20000, 2000, 2000 // per format
	depths := []int{1, 2, 3, 8, 64, 300, 1000}
	sizes := []int{1 << 10, 64 << 10}
	if e.thorough {
		nCorpus, nMut, nTrunc, nFault = 1<<30, 100000, 10000, 10000
		depths = []int{1, 2, 3, 8, 64, 300, 1000, 3000, 10000}
		sizes = []int{1 << 10, 64 << 10, 256 << 10, 1 << 20}
	}
	nMut, nTrunc, nFault = nMut*e.scale, nTrunc*e.scale, nFault*e.scale
	if e.thorough {
		e.rep.Exhaustive = append(e.rep.Exhaustive, "every suite file of the repository through its decoder(s) with 4 option combinations", "truncation at every offset of every suite file <= 2 KiB (sampled per format up to the budget), every 16th offset above")
	}
	e.farm(e.nw, func(emitJob func(job)) {
		emit := func(c Case) { emitJob(job{Kind: jobSingle, C: c}) }
		// 1. round-0 and later witnesses, all option corners
		for _, w := range e.corp.Round0 {
			for _, f := range formatsOfWitness(w.Name) {
				for i := 0; i < 16; i++ {
					o := e.randOpts(r, f)
					o.Offsets = i&1 == 1
					o.Base = i&2 == 2
					if f == "jsonld" || f == "htmljsonld" || f == "html" {
						o.Mode = []string{"", "json-ld-1.1", "json-ld-1.0", ""}[(i>>2)&3]
					}
					sc := wholeSched
					sc.Chunk = []string{"whole", "1", "rand", "midrune"}[(i/2)%4]
					emit(Case{Format: f, Opts: o, Sched: sc, Input: w.B, Family: "witness", Name: w.Name})
				}
			}
		}
		// 2. suite files
		for _, f := range allFormats {
			ss := e.seeds(f)
			if len(ss) == 0 {
				continue
			}
			n := nCorpus
			if n > len(ss) {
				n = len(ss)
			}
			for i := 0; i < n; i++ {
				s := ss[i]
				if n < len(ss) {
					s = vh.Pick(r, ss)
				}
				reps := 1
				if e.thorough {
					reps = 4
				}
				for j := 0; j < reps; j++ {
					o := e.randOpts(r, f)
					if e.thorough {
						o.Offsets, o.Base = j&1 == 1, j&2 == 2
					}
					emit(Case{Format: f, Opts: o, Sched: e.randSched(r, len(s.B)), Input: s.B, Family: "suite", Name: s.Name})
				}
			}
		}
		// 3. mutations
		for _, f := range allFormats {
			ss := e.seeds(f)
			if len(ss) == 0 {
				continue
			}
			hot := hotFor(f)
			for i := 0; i < nMut; i++ {
				s := vh.Pick(r, ss)
				if len(s.B) > 16<<10 && r.Chance(90) {
					s = vh.Pick(r, ss)
				}
				m := mutate(r, s.B, hot)
				emit(Case{Format: f, Opts: e.randOpts(r, f), Sched: e.randSched(r, len(m)), Input: m, Family: "mutated", Name: s.Name})
			}
		}
		// 4. truncations
		for _, f := range allFormats {
			ss := e.seeds(f)
			if len(ss) == 0 {
				continue
			}
			emitted := 0
			for emitted < nTrunc {
				s := vh.Pick(r, ss)
				step := 16
				if e.thorough && len(s.B) <= 2048 {
					step = 1
				}
				o := e.randOpts(r, f)
				start := r.Intn(step)
				for cut := start; cut < len(s.B) && emitted < nTrunc; cut += step {
					emit(Case{Format: f, Opts: o, Sched: wholeSched, Input: s.B[:cut], Family: "truncated", Name: s.Name})
					emitted++
				}
				emitted++
			}
		}
		// 5. injected reader faults
		for _, f := range allFormats {
			ss := e.seeds(f)
			if len(ss) == 0 {
				continue
			}
			for i := 0; i < nFault; i++ {
				s := vh.Pick(r, ss)
				sc := e.randSched(r, len(s.B))
				sc.FaultAt, sc.Fault = r.Intn(len(s.B)+1), vh.Pick(r, faultKinds)
				if r.Chance(20) {
					sc.FaultAt = len(s.B) // after the last byte
				}
				emit(Case{Format: f, Opts: e.randOpts(r, f), Sched: sc, Input: s.B, Family: "fault", Name: s.Name})
			}
		}
		// 5b. RDF/XML error paths, grammar-directed, text offsets on and off (deterministic, every run)
		for _, d := range xmlErrorDocs() {
			for _, off := range []bool{true, false} {
				o := e.randOpts(r, "rdfxml")
				o.Offsets = off
				emit(Case{Format: "rdfxml", Opts: o, Sched: wholeSched, Input: d.B, Family: "xml-error-paths", Name: d.Name})
			}
			if e.has("rdfxml") {
				kind := strings.SplitN(d.Name, ":", 2)[0] // attr | node-element | property-element | … | directive
				if i := strings.Index(d.Name, "/spelling"); i > 0 {
					kind = "attr" + strings.SplitN(d.Name[i:], "/host", 2)[0] // attr/spelling<k>
				}
				repMu.Lock()
				e.rep.Hist["xml-error-paths:"+kind+"(x offsets on/off)"]++
				repMu.Unlock()
			}
		}
		// 5c. RDFa / Microdata token-list attributes x separator characters (deterministic, every run)
		for _, d := range htmlTokenListDocs() {
			for _, f := range []string{"rdfa", "microdata", "html"} {
				for _, off := range []bool{true, false} {
					o := e.randOpts(r, f)
					o.Offsets = off
					emit(Case{Format: f, Opts: o, Sched: wholeSched, Input: d.B, Family: "token-separators", Name: d.Name})
				}
			}
			repMu.Lock()
			parts := strings.Split(d.Name, "/") // <attr>/sep-<name>/place<k>; each document x rdfa, microdata, html x offsets on/off
			e.rep.Hist["token-separators:attr:"+parts[0]]++
			e.rep.Hist["token-separators:"+parts[1]]++
			repMu.Unlock()
		}
		if e.has("jsonld") || e.has("htmljsonld") || e.has("html") {
			repMu.Lock()
			e.rep.Exhaustive = append(e.rep.Exhaustive, fmt.Sprintf("families container-maps (%d documents: 17 container kinds x 38 entry values x keys x 3 positions x coercions; every nullish entry value with every key, position and coercion) and map-order (%d documents) in full through jsonld, htmljsonld, html x text offsets on/off", len(containerMapDocs()), len(mapOrderDocs(12))))
			repMu.Unlock()
		}
		// 5d. JSON-LD container maps x entry values x keys x positions x coercion, and the map-order
		// documents, through jsonld, htmljsonld and the combined HTML decoder, offsets on and off
		// (deterministic, every run; jsonldmaps.go)
		for di, d := range append(containerMapDocs(), mapOrderDocs(12)...) {
			wrapped := []byte(wrapJSONLDInHTML(string(d.B)))
			fam := "container-maps"
			if !strings.Contains(d.Name, "/pos") {
				fam = "map-order"
			}
			for fi, f := range []string{"jsonld", "htmljsonld", "html"} {
				for _, off := range []bool{true, false} {
					o := e.randOpts(r, f)
					o.Offsets, o.Lax = off, false
					o.Mode = []string{"", "", "json-ld-1.1", ""}[(di+fi)%4]
					in := d.B
					if f != "jsonld" {
						in = wrapped
					}
					emit(Case{Format: f, Opts: o, Sched: wholeSched, Input: in, Family: fam, Name: d.Name})
				}
			}
			if fam == "container-maps" {
				parts := strings.Split(d.Name, "/") // <kind>/<entry value>/key<k>/<coercion>/pos<k>
				repMu.Lock()
				e.rep.Hist["container-maps:kind:"+parts[0]+"(x 3 decoders x offsets on/off)"]++
				e.rep.Hist["container-maps:entry:"+parts[1]]++
				repMu.Unlock()
			}
		}
		// 6. nesting and huge tokens; the big ones go to an expendable child process
		for _, f := range allFormats {
			for _, g := range nestGens[f] {
				ds := depths
				if g.Params != nil {
					ds = g.Params
				}
				for _, d := range ds {
					in := g.F(d)
					for j := 0; j < 2; j++ {
						c := Case{Format: f, Opts: e.randOpts(r, f), Sched: wholeSched, Input: in, Family: "nest", Name: fmt.Sprintf("%s@%d", g.Name, d)}
						if j == 1 {
							c.Sched = e.randSched(r, len(in))
							c.Sched.FaultAt = -1
						}
						if d > 300 {
							if e.has(f) {
								e.risky = append(e.risky, c)
							}
						} else {
							emit(c)
						}
					}
				}
			}
			for _, g := range hugeGens[f] {
				for _, sz := range sizes {
					in := g.F(sz)
					c := Case{Format: f, Opts: e.randOpts(r, f), Sched: wholeSched, Input: in, Family: "huge", Name: fmt.Sprintf("%s@%d", g.Name, sz)}
					if r.Chance(30) {
						c.Sched = Sched{Chunk: vh.Pick(r, []string{"1", "rand", "midrune"}), Seed: 7, FaultAt: -1}
					}
					if sz > 64<<10 {
						if e.has(f) {
							e.risky = append(e.risky, c)
						}
					} else {
						emit(c)
					}
				}
			}
		}
	})
	e.runGrowth()
	e.runRisky()
	e.confirmSuspects()
}

// runRisky: deep nesting and huge tokens, fewer children at a time (each may use gigabytes).
func (e *engine) runRisky() {
	n := 2 // each may use up to the 4 GiB cap
	if e.nw < n {
		n = e.nw
	}
	risky := e.risky
	e.risky = nil
	e.farm(n, func(emit func(job)) {
		for _, c := range risky {
			emit(job{Kind: jobSingle, C: c})
		}
	})
}

// confirmSuspects: watchdog hits are re-run one at a time with nothing else running; only a second
// hit is a violation.
func (e *engine) confirmSuspects() {
	repMu.Lock()
	s := e.suspects
	e.suspects = nil
	repMu.Unlock()
	if len(s) == 0 {
		return
	}
	e.rep.Hist["watchdog-hits-first-pass"] += len(s)
	if len(s) > 5000 { // bounded; what is dropped is visible in the evidence
		e.rep.Hist["suspects-not-confirmed(dropped)"] += len(s) - 5000
		s = s[:5000]
	}
	// Rounds of at most three suspects per class (format, generator family): once a class has a
	// confirmed hang its remaining suspects add nothing but seconds (a decoder that hangs on one
	// member of a family hangs on dozens) and are only counted; a class without a confirmed hang
	// goes on to its next three.
	sort.SliceStable(s, func(i, j int) bool { return len(s[i].Input) < len(s[j].Input) })
	classOf := func(c Case) string { return "hang|" + c.Format + "|" + hangSub(c) }
	for len(s) > 0 {
		var round, rest []Case
		taken := map[string]int{}
		for _, c := range s {
			key := classOf(c)
			repMu.Lock()
			confirmed := e.k.seen[key] > 0
			repMu.Unlock()
			switch {
			case confirmed:
				e.rep.Hist["suspects-not-confirmed(class already has a confirmed hang)"]++
			case taken[key] < 3:
				taken[key]++
				round = append(round, c)
			default:
				rest = append(rest, c)
			}
		}
		e.farm(1, func(emit func(job)) {
			for _, c := range round {
				emit(job{Kind: jobConfirm, C: c})
			}
		})
		s = rest
	}
}
