/-
  C17 helper lemmas, part 6: the dataset builder (one ResourceListBuilder per graph name).
-/
import RdfModel.Proofs.C17Main
namespace RdfModel.Proofs.C17
open RdfModel RdfModel.Desc RdfModel.C17

variable {β : Type} [DecidableEq β]

/-! ### keys of a folded association list -/
section Keys
variable {κ : Type} [DecidableEq κ]

def addKey (ks : List κ) (x : κ) : List κ := if x ∈ ks then ks else ks ++ [x]

theorem foldl_addKey_nodup (xs : List κ) : ∀ ks : List κ, ks.Nodup → (xs.foldl addKey ks).Nodup := by
  induction xs with
  | nil => intro ks h; exact h
  | cons x xs ih =>
    intro ks h
    apply ih
    unfold addKey
    split
    · exact h
    · rename_i hn
      rw [List.nodup_append]
      refine ⟨h, by simp, ?_⟩
      intro a ha b hb
      simp at hb; subst hb
      intro hab; subst hab; exact hn ha

theorem mem_foldl_addKey (xs : List κ) : ∀ (ks : List κ) (a : κ), a ∈ xs.foldl addKey ks ↔ a ∈ ks ∨ a ∈ xs := by
  induction xs with
  | nil => intro ks a; simp
  | cons x xs ih =>
    intro ks a
    simp only [List.foldl_cons, ih, List.mem_cons]
    unfold addKey
    by_cases hx : x ∈ ks
    · simp only [hx, if_true]
      constructor
      · rintro (h | h)
        · exact Or.inl h
        · exact Or.inr (Or.inr h)
      · rintro (h | h | h)
        · exact Or.inl h
        · exact Or.inl (h ▸ hx)
        · exact Or.inr h
    · simp only [hx, if_false, List.mem_append, List.mem_cons, List.not_mem_nil, or_false]
      constructor
      · rintro ((h | h) | h)
        · exact Or.inl h
        · exact Or.inr (Or.inl h)
        · exact Or.inr (Or.inr h)
      · rintro (h | h | h)
        · exact Or.inl (Or.inl h)
        · exact Or.inl (Or.inr h)
        · exact Or.inr h

end Keys

/-! ### what `dbuild Q` contains -/

theorem graphNames_add1 (D : DBuilder β) (q : DQuad β) :
    (D.add1 q).graphNames = addKey D.graphNames q.g := by
  simp only [DBuilder.add1, DBuilder.graphNames, addKey]
  exact keys_alUpd _ _ _ _

theorem graphNames_add (Q : List (DQuad β)) : ∀ D : DBuilder β,
    (D.add Q).graphNames = (Q.map (·.g)).foldl addKey D.graphNames := by
  induction Q with
  | nil => intro D; rfl
  | cons q Q ih =>
    intro D
    have : D.add (q :: Q) = (D.add1 q).add Q := rfl
    rw [this, ih, graphNames_add1]
    rfl

theorem builder_add1 (D : DBuilder β) (q : DQuad β) (g : Option (Term β)) :
    (D.add1 q).builder g = if q.g = g then (D.builder q.g).add1 q.t else D.builder g := by
  simp [DBuilder.add1, DBuilder.builder, alGet_alUpd]

theorem graphTriples_cons (q : DQuad β) (Q : List (DQuad β)) (g : Option (Term β)) :
    graphTriples (q :: Q) g = if q.g = g then q.t :: graphTriples Q g else graphTriples Q g := by
  unfold graphTriples
  by_cases h : q.g = g <;> simp [h]

theorem builder_add (Q : List (DQuad β)) : ∀ (D : DBuilder β) (g : Option (Term β)),
    (D.add Q).builder g = (D.builder g).add (graphTriples Q g) := by
  induction Q with
  | nil => intro D g; rfl
  | cons q Q ih =>
    intro D g
    have : D.add (q :: Q) = (D.add1 q).add Q := rfl
    rw [this, ih, builder_add1, graphTriples_cons]
    by_cases h : q.g = g
    · subst h; simp only [if_true]; rfl
    · simp [h]

theorem builder_dbuild (Q : List (DQuad β)) (g : Option (Term β)) :
    (dbuild Q).builder g = build (graphTriples Q g) := by
  rw [dbuild, builder_add]
  rfl

theorem graphNames_dbuild_nodup (Q : List (DQuad β)) : (dbuild Q).graphNames.Nodup := by
  rw [dbuild, graphNames_add]
  exact foldl_addKey_nodup _ _ (by simp [DBuilder.empty, DBuilder.graphNames])

theorem mem_graphNames_dbuild (Q : List (DQuad β)) (g : Option (Term β)) :
    g ∈ (dbuild Q).graphNames ↔ ∃ q ∈ Q, q.g = g := by
  rw [dbuild, graphNames_add, mem_foldl_addKey]
  simp [DBuilder.empty, DBuilder.graphNames]

theorem graphTriples_length_le (Q : List (DQuad β)) (g : Option (Term β)) :
    (graphTriples Q g).length ≤ Q.length := by
  unfold graphTriples
  rw [List.length_map]
  exact List.length_filter_le _ _

theorem mem_graphTriples {Q : List (DQuad β)} {g : Option (Term β)} {t : Triple β} :
    t ∈ graphTriples Q g ↔ ∃ q ∈ Q, q.g = g ∧ q.t = t := by
  unfold graphTriples
  simp only [List.mem_map, List.mem_filter, decide_eq_true_eq]
  constructor
  · rintro ⟨q, ⟨hq, hg⟩, rfl⟩; exact ⟨q, hq, hg, rfl⟩
  · rintro ⟨q, hq, hg, rfl⟩; exact ⟨q, ⟨hq, hg⟩, rfl⟩

/-! ### flattening of datasets -/

def mkQ (g : Option (Term β)) (t : Triple β) : DQuad β := ⟨t, g⟩
def mkQ' (g : Option (Term β)) (t : Triple (BN β)) : DQuad (BN β) := ⟨t, g.map (Term.map BN.orig)⟩

omit [DecidableEq β] in
theorem newQuadsList_cons (g : Option (Term β)) (r : Resource β) (rs : List (DResource β)) (n : Nat) :
    newQuadsList ((g, r) :: rs) n =
      ((r.newTriples n).1.map (mkQ' g) ++ (newQuadsList rs (r.newTriples n).2).1,
        (newQuadsList rs (r.newTriples n).2).2) := by
  simp [newQuadsList, mkQ']

omit [DecidableEq β] in
theorem newQuadsList_append (l₁ l₂ : List (DResource β)) (n : Nat) :
    newQuadsList (l₁ ++ l₂) n =
      ((newQuadsList l₁ n).1 ++ (newQuadsList l₂ (newQuadsList l₁ n).2).1,
        (newQuadsList l₂ (newQuadsList l₁ n).2).2) := by
  induction l₁ generalizing n with
  | nil => simp [newQuadsList]
  | cons e l ih =>
    obtain ⟨g, r⟩ := e
    simp only [List.cons_append, newQuadsList_cons, ih, List.append_assoc]

omit [DecidableEq β] in
theorem newQuadsList_map (g : Option (Term β)) (rs : List (Resource β)) (n : Nat) :
    newQuadsList (rs.map (fun r => (g, r))) n =
      ((newTriplesList rs n).1.map (mkQ' g), (newTriplesList rs n).2) := by
  induction rs generalizing n with
  | nil => simp [newQuadsList, newTriplesList]
  | cons r rs ih => simp only [List.map_cons, newQuadsList_cons, ih, newTriplesList_cons, List.map_append]

/-! ### grouping by a key -/

theorem group_perm_key {α κ : Type} [DecidableEq κ] (key : α → κ) (l : List α) :
    ∀ ks : List κ, ks.Nodup →
      (ks.flatMap (fun k => l.filter (fun a => key a = k))).Perm (l.filter (fun a => decide (key a ∈ ks))) := by
  intro ks
  induction ks with
  | nil => intro _; simp
  | cons k ks ih =>
    intro hn
    rw [List.nodup_cons] at hn
    simp only [List.flatMap_cons]
    refine (List.Perm.append_left _ (ih hn.2)).trans ?_
    refine (filter_or_perm _ _ l ?_).trans ?_
    · intro t _ h
      simp only [decide_eq_true_eq] at h
      exact hn.1 (h.1 ▸ h.2)
    · apply List.Perm.of_eq
      apply List.filter_congr
      intro t _
      simp only [List.mem_cons]
      by_cases h1 : key t = k <;> by_cases h2 : key t ∈ ks <;> simp [h1, h2]

theorem quads_group_perm (Q : List (DQuad β)) (gs : List (Option (Term β))) (hn : gs.Nodup)
    (hall : ∀ q ∈ Q, q.g ∈ gs) :
    (gs.flatMap (fun g => (graphTriples Q g).map (mkQ g))).Perm Q := by
  have h := (group_perm_key (fun q : DQuad β => q.g) Q gs hn).trans
    (List.Perm.of_eq (List.filter_eq_self.2 (fun q hq => by simp [hall q hq])))
  refine List.Perm.trans (List.Perm.of_eq ?_) h
  congr 1
  funext g
  unfold graphTriples
  rw [List.map_map]
  have : ∀ q ∈ Q.filter (fun q => q.g = g), (mkQ g ∘ fun q => q.t) q = id q := by
    intro q hq
    simp only [List.mem_filter, decide_eq_true_eq] at hq
    obtain ⟨_, rfl⟩ := hq
    rfl
  rw [List.map_congr_left this, List.map_id]

/-! ### anonymized nodes occur in their graph -/

theorem anonymized_occurs (T : List (Triple β)) (opts : Opts) (b : β) (h : anonymizedIn T opts b = true) :
    ∃ t ∈ T, b ∈ tripleNodes t := by
  unfold anonymizedIn at h
  simp only [Bool.or_eq_true, Bool.and_eq_true, beq_iff_eq, List.any_eq_true, decide_eq_true_eq] at h
  rcases h with ⟨_, h1⟩ | ⟨_, t, ht, hts⟩
  · have hpos : 0 < refs T b := by omega
    obtain ⟨t, ht, hto⟩ := List.countP_pos_iff.1 hpos
    simp only [decide_eq_true_eq] at hto
    exact ⟨t, ht, mem_tripleNodes_o hto⟩
  · exact ⟨t, ht, mem_tripleNodes_s hts⟩

/-- two different graphs never anonymize / share the same node (from `NoSharedAnonymized`) -/
theorem shared_contra (Q : List (DQuad β)) (opts : Opts) (hsh : NoSharedAnonymized Q opts)
    (g g' : Option (Term β)) (hgg : g' ≠ g) (b : β)
    (ha : anonymizedIn (graphTriples Q g) opts b = true)
    (t' : Triple β) (ht' : t' ∈ graphTriples Q g') (hb' : b ∈ tripleNodes t') : False := by
  obtain ⟨t, ht, hb⟩ := anonymized_occurs _ opts b ha
  obtain ⟨q, hq, hqg, rfl⟩ := mem_graphTriples.1 ht
  obtain ⟨q', hq', hqg', rfl⟩ := mem_graphTriples.1 ht'
  have := (hsh q hq b hb (by rw [hqg]; exact ha)).1 q' hq' (by rw [hqg, hqg']; exact hgg)
  exact this hb'

omit [DecidableEq β] in
theorem opt_term_map_congr (g : Option (Term β)) (σ τ : β → BN β)
    (h : ∀ b, g = some (Term.bnode b) → σ b = τ b) : g.map (Term.map σ) = g.map (Term.map τ) := by
  cases g with
  | none => rfl
  | some x =>
    simp only [Option.map_some, Option.some.injEq]
    exact term_map_congr x σ τ (fun b hb => h b (by rw [hb]))

/-- the per-graph fact both exports provide (`graph_strong`, `graph_strongV`) -/
def GraphStrong (T : List (Triple β)) (opts : Opts) (res : Option (List (Resource β))) : Prop :=
  ∃ (rs : List (Resource β)) (W : List (Triple β)) (al : List β),
    res = some rs ∧ W.Perm T ∧ al.Nodup ∧
    (∀ b ∈ al, anonymizedIn T opts b = true) ∧
    (∀ n, (newTriplesList rs n).2 = n + al.length) ∧
    (∀ n (σ : β → BN β), al.map σ = (List.range' n al.length).map BN.fresh →
        (∀ t ∈ T, ∀ b ∈ tripleNodes t, b ∉ al → σ b = BN.orig b) →
        (newTriplesList rs n).1 = W.map (Triple.map σ))

/-- the per-graph results combined over a list of graph names -/
theorem dataset_good (Q : List (DQuad β)) (opts : Opts)
    (expG : Option (Term β) → Option (List (Resource β))) (hsh : NoSharedAnonymized Q opts) :
    ∀ gs : List (Option (Term β)), gs.Nodup →
      (∀ g ∈ gs, GraphStrong (graphTriples Q g) opts (expG g)) →
      ∃ (rss : List (List (DResource β))) (WQ : List (DQuad β)) (al : List β),
        mapOpt (fun g => (expG g).map (fun rs => rs.map (fun r => (g, r)))) gs = some rss ∧
        WQ.Perm (gs.flatMap (fun g => (graphTriples Q g).map (mkQ g))) ∧
        al.Nodup ∧
        (∀ b ∈ al, ∃ g ∈ gs, anonymizedIn (graphTriples Q g) opts b = true) ∧
        (∀ n, (newQuadsList rss.flatten n).2 = n + al.length) ∧
        (∀ n (σ : β → BN β), al.map σ = (List.range' n al.length).map BN.fresh →
          (∀ g ∈ gs, (∀ t ∈ graphTriples Q g, ∀ b ∈ tripleNodes t, b ∉ al → σ b = BN.orig b) ∧
            (∀ b, g = some (Term.bnode b) → σ b = BN.orig b)) →
          (newQuadsList rss.flatten n).1 = WQ.map (DQuad.map σ)) := by
  intro gs
  induction gs with
  | nil =>
    intro _ _
    exact ⟨[], [], [], rfl, by simp, by simp, by simp, by intro n; simp [newQuadsList],
      by intro n σ _ _; simp [newQuadsList]⟩
  | cons g gs ih =>
    intro hn hs
    rw [List.nodup_cons] at hn
    obtain ⟨rss', WQ', al', hrss', hp', hnd', han', hc', hi'⟩ :=
      ih hn.2 (fun g' hg' => hs g' (by simp [hg']))
    obtain ⟨rs, W, alg, hrs, hpW, hndg, hang, hcg, hig⟩ := hs g (by simp)
    -- disjointness of the allocation lists
    have hdisj : ∀ b, b ∈ alg → b ∈ al' → False := by
      intro b hb hb'
      obtain ⟨g', hg', ha'⟩ := han' b hb'
      obtain ⟨t', ht', hbt'⟩ := anonymized_occurs _ opts b ha'
      have hne : g' ≠ g := fun e => hn.1 (e ▸ hg')
      exact shared_contra Q opts hsh g g' hne b (hang b hb) t' ht' hbt'
    refine ⟨rs.map (fun r => (g, r)) :: rss', W.map (mkQ g) ++ WQ', alg ++ al', ?_, ?_, ?_, ?_, ?_, ?_⟩
    · refine mapOpt_cons_some.2 ⟨_, _, ?_, hrss', rfl⟩
      rw [hrs]; rfl
    · simp only [List.flatMap_cons]
      exact List.Perm.append (hpW.map _) hp'
    · rw [List.nodup_append]
      exact ⟨hndg, hnd', fun a ha b hb hab => hdisj a ha (hab ▸ hb)⟩
    · intro b hb
      rcases List.mem_append.1 hb with h | h
      · exact ⟨g, by simp, hang b h⟩
      · obtain ⟨g', hg', ha'⟩ := han' b h
        exact ⟨g', by simp [hg'], ha'⟩
    · intro n
      simp only [List.flatten_cons, newQuadsList_append, newQuadsList_map, hcg, hc', List.length_append]
      omega
    · intro n σ hal hfix
      obtain ⟨hal1, hal2⟩ := (split_alloc σ alg al' n).1 (by simpa using hal)
      simp only [List.flatten_cons, newQuadsList_append, newQuadsList_map, hcg]
      have hfg := hfix g (by simp)
      have e1 : (newTriplesList rs n).1 = W.map (Triple.map σ) := by
        apply hig n σ hal1
        intro t ht b hb hbn
        apply hfg.1 t ht b hb
        intro hmem
        rcases List.mem_append.1 hmem with h | h
        · exact hbn h
        · obtain ⟨g', hg', ha'⟩ := han' b h
          have hne : g ≠ g' := fun e => hn.1 (e ▸ hg')
          exact shared_contra Q opts hsh g' g hne b ha' t ht hb
      have e2 : (newQuadsList rss'.flatten (n + alg.length)).1 = WQ'.map (DQuad.map σ) := by
        apply hi' (n + alg.length) σ hal2
        intro g' hg'
        have hf' := hfix g' (by simp [hg'])
        refine ⟨?_, hf'.2⟩
        intro t ht b hb hbn
        apply hf'.1 t ht b hb
        intro hmem
        rcases List.mem_append.1 hmem with h | h
        · have hne : g' ≠ g := fun e => hn.1 (e ▸ hg')
          exact shared_contra Q opts hsh g g' hne b (hang b h) t ht hb
        · exact hbn h
      rw [e1, e2, List.map_append]
      congr 1
      rw [List.map_map, List.map_map]
      apply List.map_congr_left
      intro t _
      simp only [Function.comp, mkQ', mkQ, DQuad.map]
      congr 1
      exact (opt_term_map_congr g σ BN.orig hfg.2).symm

/-- datasets, generic in the per-graph export -/
theorem dataset_iso (Q : List (DQuad β)) (opts : Opts) (gord : List (Option (Term β)))
    (expG : Option (Term β) → Option (List (Resource β)))
    (hg : gord.Perm (dbuild Q).graphNames)
    (hs : ∀ g ∈ gord, GraphStrong (graphTriples Q g) opts (expG g))
    (hsh : NoSharedAnonymized Q opts) (n : Nat) :
    ∃ rs, (mapOpt (fun g => (expG g).map (fun rs => rs.map (fun r => (g, r)))) gord).map List.flatten = some rs ∧
      Spec.IsoQ (newQuadsList rs n).1 Q := by
  have hn : gord.Nodup := (hg.nodup_iff).2 (graphNames_dbuild_nodup Q)
  obtain ⟨rss, WQ, al, hrss, hp, hnd, han, _, hi⟩ := dataset_good Q opts expG hsh gord hn hs
  refine ⟨rss.flatten, by simp [hrss], sigmaOf al n, sigmaOf_injective al n, ?_⟩
  have hall : ∀ q ∈ Q, q.g ∈ gord := fun q hq => hg.mem_iff.2 ((mem_graphNames_dbuild Q q.g).2 ⟨q, hq, rfl⟩)
  rw [hi n (sigmaOf al n) (sigmaOf_map al n hnd)]
  · exact (hp.trans (quads_group_perm Q gord hn hall)).map _
  · intro g hgm
    refine ⟨fun _ _ b _ hb => sigmaOf_not_mem al n b hb, ?_⟩
    intro b hgb
    apply sigmaOf_not_mem
    intro hmem
    obtain ⟨g', _, ha'⟩ := han b hmem
    obtain ⟨t, ht, hbt⟩ := anonymized_occurs _ opts b ha'
    obtain ⟨q, hq, hqg, rfl⟩ := mem_graphTriples.1 ht
    obtain ⟨q', hq', hqg'⟩ := (mem_graphNames_dbuild Q g).1 (hg.mem_iff.1 hgm)
    exact (hsh q hq b hbt (by rw [hqg]; exact ha')).2 q' hq' (by rw [hqg', hgb])

/-- C17 for datasets (export as it is before the patch). -/
theorem dataset_flatten_export (Q : List (DQuad β)) (opts : Opts) (gord : List (Option (Term β)))
    (sord : Option (Term β) → List (Term β))
    (hg : gord.Perm (dbuild Q).graphNames)
    (hs : ∀ g ∈ gord, (sord g).Perm ((dbuild Q).builder g).subjects)
    (hac : opts.inline = true → ∀ g, Acyclic1 (graphTriples Q g))
    (hsh : NoSharedAnonymized Q opts) (n : Nat) :
    ∃ rs, (dbuild Q).exportResources opts gord sord (Q.length + 1) = some rs ∧
      Spec.IsoQ (newQuadsList rs n).1 Q := by
  apply dataset_iso Q opts gord
    (fun g => ((dbuild Q).builder g).exportResources opts (sord g) (Q.length + 1)) hg _ hsh n
  intro g hgm
  have hsg := hs g hgm
  rw [builder_dbuild] at hsg ⊢
  exact graph_strong (graphTriples Q g) opts (sord g) hsg (fun hi => hac hi g) (Q.length + 1)
    (by have := graphTriples_length_le Q g; omega)

end RdfModel.Proofs.C17
