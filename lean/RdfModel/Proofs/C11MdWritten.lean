/-
  Proofs/C11MdWritten — recomposition with the writer for the enlarged fragment (part C11MD): every document that
  the writer's validation accepts for a graph `g` (`Spec.Microdata.validDoc`: it denotes `g` under the placement
  `pos`) and that has no itemref is read back to `g` by the MODEL OF THE GO DECODER, up to order and a renaming
  injective on the graph's blank nodes.
-/
import RdfModel.Proofs.C11MdNested
import RdfModel.Proofs.C11MdCanon
import RdfModel.Proofs.C11MdRef
set_option linter.unusedSimpArgs false
set_option linter.unusedSectionVars false
namespace RdfModel.Mdd.Written
open RdfModel RdfModel.Desc RdfModel.Spec.Html RdfModel.Spec.Microdata RdfModel.Mdd RdfModel.Mdd.Typed RdfModel.Mdd.Stream
  RdfModel.Mdd.Nested

theorem subject_bnode (base : Str) (a : Attrs) (here p : Path) (h : subject base a here = .bnode p) :
    p = here ∧ isBnItem a = true := by
  unfold subject at h
  unfold isBnItem
  cases hv : a.itemid with
  | none => rw [hv] at h; simp at h; exact ⟨h.symm, rfl⟩
  | some v =>
    rw [hv] at h
    by_cases h0 : v = []
    · simp [h0] at h; exact ⟨h.symm, by simp [h0]⟩
    · simp [h0] at h

theorem value_not_bnode (base : Str) (here : Path) (tag : Tag) (a : Attrs) (ks : List Tree) (hs : a.itemscope = false)
    (p : Path) : value base here (.elem tag a ks) ≠ .bnode p := by
  cases tag <;> simp only [value, hs, Bool.false_eq_true, ↓reduceIte, Spec.Microdata.strLit] <;>
    (first | (intro h; cases h) | (split <;> (intro h; cases h)))

theorem here_mem_bnItems (here : Path) (tag : Tag) (a : Attrs) (ks : List Tree) (hs : a.itemscope = true)
    (hb : isBnItem a = true) : here ∈ bnItems here (.elem tag a ks) := by
  simp [bnItems, hs, hb]

theorem kids_sub_bnItems (here : Path) (tag : Tag) (a : Attrs) (ks : List Tree) (p : Path)
    (h : p ∈ bnItemsK here 0 ks) : p ∈ bnItems here (.elem tag a ks) := by
  simp only [bnItems, List.mem_append]; exact Or.inr h

mutual
theorem propsOf_bn (base : Str) (c : T × List Str) : ∀ (t : Tree) (here : Path), ∀ tr ∈ propsOf base (some c) here t,
    tr.s = c.1 ∧ ∀ p, tr.o = .bnode p → p ∈ bnItems here t
  | .text _, _ => by simp [propsOf]
  | .elem tag a ks, here => by
    intro tr htr
    simp only [propsOf, List.mem_append] at htr
    rcases htr with htr | htr
    · simp only [linkOf, List.mem_map] at htr
      obtain ⟨nm, _, rfl⟩ := htr
      refine ⟨rfl, ?_⟩
      intro p hp
      simp only at hp
      by_cases hs : a.itemscope = true
      · have hv : value base here (.elem tag a ks) = subject base a here := by simp [value, hs]
        rw [hv] at hp
        obtain ⟨rfl, hb⟩ := subject_bnode base a here p hp
        exact here_mem_bnItems _ tag a ks hs hb
      · exact absurd hp (value_not_bnode base here tag a ks (by simpa using hs) p)
    · split at htr
      · simp at htr
      · obtain ⟨h1, h2⟩ := propsOfKids_bn base c ks here 0 tr htr
        exact ⟨h1, fun p hp => kids_sub_bnItems here tag a ks p (h2 p hp)⟩
theorem propsOfKids_bn (base : Str) (c : T × List Str) : ∀ (ks : List Tree) (here : Path) (i : Nat),
    ∀ tr ∈ propsOfKids base (some c) here i ks, tr.s = c.1 ∧ ∀ p, tr.o = .bnode p → p ∈ bnItemsK here i ks
  | [], _, _ => by simp [propsOfKids]
  | k :: ks, here, i => by
    intro tr htr
    simp only [propsOfKids, List.mem_append] at htr
    simp only [bnItemsK, List.mem_append]
    rcases htr with htr | htr
    · obtain ⟨h1, h2⟩ := propsOf_bn base c k (here ++ [i]) tr htr
      exact ⟨h1, fun p hp => Or.inl (h2 p hp)⟩
    · obtain ⟨h1, h2⟩ := propsOfKids_bn base c ks here (i + 1) tr htr
      exact ⟨h1, fun p hp => Or.inr (h2 p hp)⟩
end

mutual
theorem denoteRel_bn (base : Str) : ∀ (t : Tree) (here : Path), ∀ tr ∈ denoteRel base here t,
    (∀ p, tr.s = .bnode p → p ∈ bnItems here t) ∧ (∀ p, tr.o = .bnode p → p ∈ bnItems here t)
  | .text _, _ => by simp [denoteRel]
  | .elem tag a ks, here => by
    intro tr htr
    simp only [denoteRel, List.mem_append] at htr
    rcases htr with htr | htr
    · split at htr
      · rename_i hs
        have hsub : ∀ p, subject base a here = .bnode p → p ∈ bnItems here (.elem tag a ks) := by
          intro p hp
          obtain ⟨rfl, hb⟩ := subject_bnode base a here p hp
          exact here_mem_bnItems _ tag a ks hs hb
        simp only [List.mem_append] at htr
        rcases htr with htr | htr
        · simp only [typeStmts, List.mem_map] at htr
          obtain ⟨ty, _, rfl⟩ := htr
          exact ⟨fun p hp => hsub p hp, fun p hp => by cases hp⟩
        · obtain ⟨h1, h2⟩ := propsOfKids_bn base (subject base a here, typesOf a) ks here 0 tr htr
          exact ⟨fun p hp => hsub p (h1.symm.trans hp), fun p hp => kids_sub_bnItems here tag a ks p (h2 p hp)⟩
      · simp at htr
    · obtain ⟨h1, h2⟩ := denoteRelKids_bn base ks here 0 tr htr
      exact ⟨fun p hp => kids_sub_bnItems here tag a ks p (h1 p hp), fun p hp => kids_sub_bnItems here tag a ks p (h2 p hp)⟩
theorem denoteRelKids_bn (base : Str) : ∀ (ks : List Tree) (here : Path) (i : Nat), ∀ tr ∈ denoteRelKids base here i ks,
    (∀ p, tr.s = .bnode p → p ∈ bnItemsK here i ks) ∧ (∀ p, tr.o = .bnode p → p ∈ bnItemsK here i ks)
  | [], _, _ => by simp [denoteRelKids]
  | k :: ks, here, i => by
    intro tr htr
    simp only [denoteRelKids, List.mem_append] at htr
    simp only [bnItemsK, List.mem_append]
    rcases htr with htr | htr
    · obtain ⟨h1, h2⟩ := denoteRel_bn base k (here ++ [i]) tr htr
      exact ⟨fun p hp => Or.inl (h1 p hp), fun p hp => Or.inl (h2 p hp)⟩
    · obtain ⟨h1, h2⟩ := denoteRelKids_bn base ks here (i + 1) tr htr
      exact ⟨fun p hp => Or.inr (h1 p hp), fun p hp => Or.inr (h2 p hp)⟩
end

/-! ## with itemref (plain targets) -/

open RdfModel.Mdd.Ref in
mutual
theorem plain_bnItems : ∀ (t : Tree) (here : Path), plain t = true → bnItems here t = []
  | .text _, _, _ => by simp [bnItems]
  | .elem tag a ks, here, h => by
    simp only [plain, Bool.and_eq_true, Bool.not_eq_true'] at h
    simp [bnItems, h.1.1, plainKids_bnItems ks here 0 h.2]
theorem plainKids_bnItems : ∀ (ks : List Tree) (here : Path) (i : Nat), plainKids ks = true → bnItemsK here i ks = []
  | [], _, _, _ => by simp [bnItemsK]
  | k :: ks, here, i, h => by
    simp only [plainKids, Bool.and_eq_true] at h
    simp [bnItemsK, plain_bnItems k (here ++ [i]) h.1, plainKids_bnItems ks here (i + 1) h.2]
end

open RdfModel.Mdd.Ref in
theorem refProps_bn (base : Str) (doc : Tree) (c : T × List Str) (ids : List Str)
    (hids : ∀ id ∈ ids, ∀ qt, target doc id = some qt → plain qt.2 = true) :
    ∀ tr ∈ refProps base doc c ids, tr.s = c.1 ∧ ∀ p, tr.o ≠ .bnode p := by
  intro tr htr
  simp only [refProps, List.mem_flatMap] at htr
  obtain ⟨id, hid, htr⟩ := htr
  split at htr
  · rename_i qt hqt
    obtain ⟨h1, h2⟩ := propsOf_bn base c qt.2 qt.1 tr htr
    refine ⟨h1, fun p hp => ?_⟩
    have := h2 p hp
    rw [plain_bnItems qt.2 qt.1 (hids id hid qt hqt)] at this
    simp at this
  · simp at htr

open RdfModel.Mdd.Ref in
mutual
theorem denoteRelR_bn (base : Str) (doc : Tree) : ∀ (t : Tree) (here : Path), refsOk doc t = true →
    ∀ tr ∈ denoteRelR base doc here t,
    (∀ p, tr.s = .bnode p → p ∈ bnItems here t) ∧ (∀ p, tr.o = .bnode p → p ∈ bnItems here t)
  | .text _, _, _ => by simp [denoteRelR]
  | .elem tag a ks, here, hro => by
    simp only [refsOk, Bool.and_eq_true, List.all_eq_true] at hro
    intro tr htr
    simp only [denoteRelR, List.mem_append] at htr
    rcases htr with htr | htr
    · split at htr
      · rename_i hs
        have hsub : ∀ p, subject base a here = .bnode p → p ∈ bnItems here (.elem tag a ks) := by
          intro p hp
          obtain ⟨rfl, hb⟩ := subject_bnode base a here p hp
          exact here_mem_bnItems _ tag a ks hs hb
        simp only [List.mem_append] at htr
        rcases htr with htr | htr | htr
        · simp only [typeStmts, List.mem_map] at htr
          obtain ⟨ty, _, rfl⟩ := htr
          exact ⟨fun p hp => hsub p hp, fun p hp => by cases hp⟩
        · obtain ⟨h1, h2⟩ := propsOfKids_bn base (subject base a here, typesOf a) ks here 0 tr htr
          exact ⟨fun p hp => hsub p (h1.symm.trans hp), fun p hp => kids_sub_bnItems here tag a ks p (h2 p hp)⟩
        · obtain ⟨h1, h2⟩ := refProps_bn base doc (subject base a here, typesOf a) (refsOf a) (by
            intro id hid qt hqt
            have := hro.1 id hid
            rw [hqt] at this
            exact this) tr htr
          exact ⟨fun p hp => hsub p (h1.symm.trans hp), fun p hp => absurd hp (h2 p)⟩
      · simp at htr
    · obtain ⟨h1, h2⟩ := denoteRelRKids_bn base doc ks here 0 hro.2 tr htr
      exact ⟨fun p hp => kids_sub_bnItems here tag a ks p (h1 p hp), fun p hp => kids_sub_bnItems here tag a ks p (h2 p hp)⟩
theorem denoteRelRKids_bn (base : Str) (doc : Tree) : ∀ (ks : List Tree) (here : Path) (i : Nat),
    refsOkKids doc ks = true → ∀ tr ∈ denoteRelRKids base doc here i ks,
    (∀ p, tr.s = .bnode p → p ∈ bnItemsK here i ks) ∧ (∀ p, tr.o = .bnode p → p ∈ bnItemsK here i ks)
  | [], _, _, _ => by simp [denoteRelRKids]
  | k :: ks, here, i, hro => by
    simp only [refsOkKids, Bool.and_eq_true] at hro
    intro tr htr
    simp only [denoteRelRKids, List.mem_append] at htr
    simp only [bnItemsK, List.mem_append]
    rcases htr with htr | htr
    · obtain ⟨h1, h2⟩ := denoteRelR_bn base doc k (here ++ [i]) hro.1 tr htr
      exact ⟨fun p hp => Or.inl (h1 p hp), fun p hp => Or.inl (h2 p hp)⟩
    · obtain ⟨h1, h2⟩ := denoteRelRKids_bn base doc ks here (i + 1) hro.2 tr htr
      exact ⟨fun p hp => Or.inr (h1 p hp), fun p hp => Or.inr (h2 p hp)⟩
end

section
variable {β : Type} [DecidableEq β]

open RdfModel.Mdd.Ref in
/-- every validated document whose itemref tokens name plain subtrees is read back by the model decoder -/
theorem decode_validatedR (lbl : β → Str) (hinj : Function.Injective lbl) (base : Str)
    (tm mm : List (Bytes → Option (Term Nat))) (hdec : Decline tm mm) (g : List (Triple β)) (doc : Tree)
    (pos : β → Path) (hv : validDoc base g doc pos = true) (hfrag : RefFrag doc) :
    ∃ (stmts : List Stmt) (τ : β → Nat),
      decode (specEnv base tm mm) (ofSpecDoc doc) = .ok stmts [] ∧
      (∀ a ∈ bnodesOf g, ∀ b ∈ bnodesOf g, τ a = τ b → a = b) ∧
      stmts.Perm (g.map (Triple.map τ)) := by
  obtain ⟨hσinj, hperm⟩ := validDoc_sound lbl hinj base g doc pos hv
  refine ⟨_, rank doc ∘ candSigma lbl g pos, decode_ref base tm mm hdec doc hfrag, ?_, ?_⟩
  · have hmem : ∀ a ∈ bnodesOf g, candSigma lbl g pos a ∈ bnItems [] doc := by
      intro a ha
      simp only [bnodesOf, mem_udedup, List.mem_flatMap, List.mem_append] at ha
      obtain ⟨t, htg, h⟩ := ha
      have hin : Triple.map (candSigma lbl g pos) t ∈ denoteRelR base doc [] doc := by
        rw [← items_relR base doc doc [] (nodeAt_nil doc) hfrag.1]
        exact hperm.mem_iff.mpr (List.mem_map.mpr ⟨t, htg, rfl⟩)
      obtain ⟨h1, h2⟩ := denoteRelR_bn base doc doc [] hfrag.1 _ hin
      rcases h with h | h
      · cases hs : t.s with
        | bnode b =>
          rw [hs] at h; simp [termBnodes] at h; subst h
          exact h1 _ (by simp [Triple.map, hs, Term.map])
        | iri i => rw [hs] at h; simp [termBnodes] at h
        | lit l d tg => rw [hs] at h; simp [termBnodes] at h
      · cases ho : t.o with
        | bnode b =>
          rw [ho] at h; simp [termBnodes] at h; subst h
          exact h2 _ (by simp [Triple.map, ho, Term.map])
        | iri i => rw [ho] at h; simp [termBnodes] at h
        | lit l d tg => rw [ho] at h; simp [termBnodes] at h
    intro a ha b hb hab
    exact hσinj (rank_inj doc _ _ (hmem a ha) (hmem b hb) hab)
  · have h1 := (swR_perm_denote base doc hfrag.1).map (Triple.map (rank doc))
    have h2 := hperm.map (Triple.map (rank doc))
    refine (h1.trans h2).trans ?_
    rw [List.map_map]
    apply List.Perm.of_eq
    apply List.map_congr_left
    intro t _
    exact triple_map_comp _ _ t

/-- every validated document without itemref is read back by the model decoder -/
theorem decode_validated (lbl : β → Str) (hinj : Function.Injective lbl) (base : Str)
    (tm mm : List (Bytes → Option (Term Nat))) (hdec : Decline tm mm) (g : List (Triple β)) (doc : Tree)
    (pos : β → Path) (hv : validDoc base g doc pos = true) (hfrag : NestedFrag doc) :
    ∃ (stmts : List Stmt) (τ : β → Nat),
      decode (specEnv base tm mm) (ofSpecDoc doc) = .ok stmts [] ∧
      (∀ a ∈ bnodesOf g, ∀ b ∈ bnodesOf g, τ a = τ b → a = b) ∧
      stmts.Perm (g.map (Triple.map τ)) := by
  obtain ⟨hσinj, hperm⟩ := validDoc_sound lbl hinj base g doc pos hv
  refine ⟨_, rank doc ∘ candSigma lbl g pos, decode_nested base tm mm hdec doc hfrag, ?_, ?_⟩
  · -- blank nodes of `g` sit at blank-node item positions
    have hmem : ∀ a ∈ bnodesOf g, candSigma lbl g pos a ∈ bnItems [] doc := by
      intro a ha
      simp only [bnodesOf, mem_udedup, List.mem_flatMap, List.mem_append] at ha
      obtain ⟨t, htg, h⟩ := ha
      have hin : Triple.map (candSigma lbl g pos) t ∈ denoteRel base [] doc := by
        rw [← denote_eq_rel base doc hfrag.1]
        exact hperm.mem_iff.mpr (List.mem_map.mpr ⟨t, htg, rfl⟩)
      obtain ⟨h1, h2⟩ := denoteRel_bn base doc [] _ hin
      rcases h with h | h
      · cases hs : t.s with
        | bnode b =>
          rw [hs] at h; simp [termBnodes] at h; subst h
          exact h1 _ (by simp [Triple.map, hs, Term.map])
        | iri i => rw [hs] at h; simp [termBnodes] at h
        | lit l d tg => rw [hs] at h; simp [termBnodes] at h
      · cases ho : t.o with
        | bnode b =>
          rw [ho] at h; simp [termBnodes] at h; subst h
          exact h2 _ (by simp [Triple.map, ho, Term.map])
        | iri i => rw [ho] at h; simp [termBnodes] at h
        | lit l d tg => rw [ho] at h; simp [termBnodes] at h
    intro a ha b hb hab
    exact hσinj (rank_inj doc _ _ (hmem a ha) (hmem b hb) hab)
  · have h1 := (swP_perm_denote base doc hfrag.1).map (Triple.map (rank doc))
    have h2 := hperm.map (Triple.map (rank doc))
    refine (h1.trans h2).trans ?_
    rw [List.map_map]
    apply List.Perm.of_eq
    apply List.map_congr_left
    intro t _
    exact triple_map_comp _ _ t

end
end RdfModel.Mdd.Written
