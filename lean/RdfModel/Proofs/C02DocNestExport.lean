/-
  Proofs.C02DocNestExport — the resource trees `ResourceListBuilder.ExportResources` (repaired, Model/
  Description.lean `exportResourcesV`) yields consist of terms of the input triples: well-formed triples
  give well-formed resources (`C02.ResourceOK`).
-/
import RdfModel.Props.C02DocNestDefs
import RdfModel.Proofs.C17Builder
namespace RdfModel.Proofs.C02Doc
open RdfModel RdfModel.Ttl RdfModel.TtlEnc RdfModel.C02 RdfModel.Desc

variable {β : Type} [DecidableEq β] {c : Ctx β} {base : Option (List Nat)}

theorem foldStmtsV_ok (B : Builder β) (opts : Opts) (rec : Term β → List β → Option (List (Stmt β) × List β))
    (hrec : ∀ t V r, rec t V = some r → StmtsOK c base r.1) :
    ∀ (pos : List (PO β)), (∀ po ∈ pos, iriTermOK c base po.1 ∧ objectOK c base po.2) →
    ∀ V r, B.foldStmtsV opts rec pos V = some r → StmtsOK c base r.1
  | [], _, V, r, h => by
    simp only [Builder.foldStmtsV] at h
    injection h with h
    subst h
    trivial
  | po :: pos, hpos, V, r, h => by
    have hpo := hpos po List.mem_cons_self
    have hrest := fun V r h => foldStmtsV_ok B opts rec hrec pos (fun x hx => hpos x (List.mem_cons_of_mem _ hx)) V r h
    unfold Builder.foldStmtsV at h
    split at h
    · cases hr : rec po.2 V with
      | none => rw [hr] at h; cases h
      | some x =>
        obtain ⟨lb, V1⟩ := x
        rw [hr] at h
        simp only at h
        cases hf : B.foldStmtsV opts rec pos V1 with
        | none => rw [hf] at h; cases h
        | some y =>
          obtain ⟨l, V2⟩ := y
          rw [hf] at h
          simp only at h
          injection h with h
          subst h
          exact ⟨⟨hpo.1, hrec _ _ _ hr⟩, hrest _ _ hf⟩
    · cases hf : B.foldStmtsV opts rec pos V with
      | none => rw [hf] at h; cases h
      | some y =>
        obtain ⟨l, V2⟩ := y
        rw [hf] at h
        simp only at h
        injection h with h
        subst h
        exact ⟨⟨hpo.1, hpo.2⟩, hrest _ _ hf⟩

theorem exportStatementsV_ok (B : Builder β) (opts : Opts)
    (hB : ∀ s, ∀ po ∈ B.stmts s, iriTermOK c base po.1 ∧ objectOK c base po.2) :
    ∀ (fuel : Nat) (s : Term β) (V : List β) r, B.exportStatementsV opts fuel s V = some r → StmtsOK c base r.1
  | 0, _, _, _, h => by simp [Builder.exportStatementsV] at h
  | fuel + 1, s, V, r, h => by
    unfold Builder.exportStatementsV at h
    exact foldStmtsV_ok B opts _ (exportStatementsV_ok B opts hB fuel) (B.stmts s) (hB s) _ r h

theorem foldRootsV_ok (B : Builder β) (opts : Opts) (fuel : Nat) (pick : Term β → List β → Bool)
    (hB : ∀ s, ∀ po ∈ B.stmts s, iriTermOK c base po.1 ∧ objectOK c base po.2) :
    ∀ (l : List (Term β)), (∀ s ∈ l, subjectOK c base s) → ∀ V r, B.foldRootsV opts fuel pick l V = some r →
      ∀ x ∈ r.1, ResourceOK c base x
  | [], _, V, r, h => by
    simp only [Builder.foldRootsV] at h
    injection h with h
    subst h
    intro x hx
    cases hx
  | s :: l, hl, V, r, h => by
    have hrest := fun V r h => foldRootsV_ok B opts fuel pick hB l (fun x hx => hl x (List.mem_cons_of_mem _ hx)) V r h
    unfold Builder.foldRootsV at h
    split at h
    · cases he : B.exportResourceV opts fuel s V with
      | none => rw [he] at h; cases h
      | some x =>
        obtain ⟨r0, V1⟩ := x
        rw [he] at h
        simp only at h
        cases hf : B.foldRootsV opts fuel pick l V1 with
        | none => rw [hf] at h; cases h
        | some y =>
          obtain ⟨rs, V2⟩ := y
          rw [hf] at h
          simp only at h
          injection h with h
          subst h
          intro x hx
          rcases List.mem_cons.1 hx with rfl | hx
          · unfold Builder.exportResourceV at he
            simp only [Option.map_eq_some_iff, Prod.mk.injEq] at he
            obtain ⟨st, hst, rfl, _⟩ := he
            have hok := exportStatementsV_ok B opts hB fuel s V st hst
            have hs := hl s List.mem_cons_self
            unfold Builder.resourceOf
            cases s with
            | bnode b =>
              simp only
              split
              · exact hok
              · exact ⟨hs, hok⟩
            | iri v => exact ⟨hs, hok⟩
            | lit a b' d => exact ⟨hs, hok⟩
          · exact hrest _ _ hf x hx
    · exact hrest _ _ h

/-- well-formed triples are exported as well-formed resources -/
theorem export_ok (ts : List (Triple β)) (hts : ∀ t ∈ ts, TripleOK c base t) (opts : Opts) (ord1 ord2 : List (Term β))
    (hord1 : ord1.Perm (build ts).subjects) (hord2 : ord2.Perm (build ts).subjects) (fuel : Nat)
    (rs : List (Resource β)) (h : (build ts).exportResourcesV opts ord1 ord2 fuel = some rs) :
    ∀ r ∈ rs, ResourceOK c base r := by
  have hB : ∀ s, ∀ po ∈ (build ts).stmts s, iriTermOK c base po.1 ∧ objectOK c base po.2 := by
    intro s po hpo
    rw [Proofs.C17.stmts_build] at hpo
    obtain ⟨t, ht, rfl⟩ := List.mem_map.1 hpo
    have := hts t (List.mem_filter.1 ht).1
    exact ⟨this.p, this.o⟩
  have hsub : ∀ ord : List (Term β), ord.Perm (build ts).subjects → ∀ s ∈ ord, subjectOK c base s := by
    intro ord hord s hs
    obtain ⟨t, ht, rfl⟩ := (Proofs.C17.mem_subjects_build ts s).1 (hord.mem_iff.1 hs)
    exact (hts t ht).s
  unfold Builder.exportResourcesV at h
  cases h1 : (build ts).foldRootsV opts fuel ((build ts).pick1 opts) ord1 [] with
  | none => rw [h1] at h; cases h
  | some x =>
    obtain ⟨rs1, V1⟩ := x
    rw [h1] at h
    simp only at h
    cases h2 : (build ts).foldRootsV opts fuel ((build ts).pick2 opts) ord2 V1 with
    | none => rw [h2] at h; cases h
    | some y =>
      obtain ⟨rs2, V2⟩ := y
      rw [h2] at h
      simp only at h
      injection h with h
      subst h
      intro r hr
      rcases List.mem_append.1 hr with hr | hr
      · exact foldRootsV_ok (build ts) opts fuel _ hB ord1 (hsub ord1 hord1) [] _ h1 r hr
      · exact foldRootsV_ok (build ts) opts fuel _ hB ord2 (hsub ord2 hord2) V1 _ h2 r hr

end RdfModel.Proofs.C02Doc
