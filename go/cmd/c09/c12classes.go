package main

// Copy of the class predicates of go/cmd/c12/classes.go (known-finding classes of property C12: decidable
// predicates on the INPUT (base, reference) — never on what the code under test does). The C09 planner uses
// them to stay inside the pairs on which iri.ParsedIRI is expected to agree with RFC 3986 5.2: a written
// reference (or xml:base value) whose pair with the base in scope lies in a class that is a `known` finding
// of property C12 is redrawn (counted under c12-class-avoided:*); everything else is generated and judged
// against the RFC 3986 denotation, so a deviation outside those classes is a violation here too.

import "strings"

func isAlpha(c byte) bool { return 'a' <= c && c <= 'z' || 'A' <= c && c <= 'Z' }
func isDigit(c byte) bool { return '0' <= c && c <= '9' }

func special(s string) bool {
	s = strings.ToLower(s)
	return s == "http" || s == "https" || s == "file"
}

func hasUpper(s string) bool {
	for i := 0; i < len(s); i++ {
		if 'A' <= s[i] && s[i] <= 'Z' {
			return true
		}
	}
	return false
}

// userinfo ("" , false when absent) and host[:port] of an authority
func authSplit(a string) (ui string, hasUI bool, hostport string) {
	if i := strings.IndexByte(a, '@'); i >= 0 {
		return a[:i], true, a[i+1:]
	}
	return "", false, a
}

func hasHigh(s string) bool {
	for i := 0; i < len(s); i++ {
		if s[i] >= 0x80 {
			return true
		}
	}
	return false
}

// plainUserinfo: what net/url prints back unchanged: [A-Za-z0-9-._~$&+,;=]* with at most one ':'.
func plainUserinfo(s string) bool {
	colons := 0
	for i := 0; i < len(s); i++ {
		c := s[i]
		switch {
		case isAlpha(c) || isDigit(c) || strings.IndexByte("-._~$&+,;=", c) >= 0:
		case c == ':':
			colons++
		default:
			return false
		}
	}
	return colons <= 1
}

func segmentsOf(p string) []string { return strings.Split(p, "/") }

func hasDotSegment(p string) bool {
	for _, s := range segmentsOf(p) {
		if s == "." || s == ".." {
			return true
		}
	}
	return false
}

// dotdotThenEmpty: walking the segments of an absolute path, a ".." leaves the output empty and is
// directly followed by an empty segment that is not the last one.
func dotdotThenEmpty(full string) bool {
	if !strings.HasPrefix(full, "/") {
		return false
	}
	segs := segmentsOf(full)[1:]
	depth := 0
	for i, s := range segs {
		switch s {
		case ".":
		case "..":
			if depth > 0 {
				depth--
			}
			if depth == 0 && i+2 < len(segs) && segs[i+1] == "" {
				return true
			}
		default:
			depth++
		}
	}
	return false
}

// emptyBaseTarget: shapes of the target path "/"+ref (dot segments removed) that the 'empty base path'
// branch of ResolveReference gets wrong: "/", "//…", "/%2f…".
func emptyBaseTarget(t string) bool {
	return t == "/" || strings.HasPrefix(t, "//") || strings.HasPrefix(t, "/%2f") || strings.HasPrefix(t, "/%2F")
}

// rfcTargetInput: the path handed to remove_dot_segments by RFC 3986 5.2.2 ("" when none is).
func rfcTargetInput(b, r parts) (string, bool) {
	switch {
	case r.hasScheme || r.hasAuthority:
		return r.path, true
	case r.path == "":
		return "", false
	case r.path[0] == '/':
		return r.path, true
	}
	return rfcMerge(b, r.path), true
}

var classNames = []string{
	"scheme-has-uppercase", "host-non-ascii", "host-pct-encoded", "userinfo-not-plain", "host-ipvfuture",
	"empty-host", "opaque-reclassified-abs-path", "special-scheme-no-authority-base", "rootless-base-path-reference",
	"base-dot-segments-empty-path-reference", "base-empty-query-dropped", "base-fragment-inherited",
	"dotdot-then-empty-segment", "absolute-reference-rootless-dot-segments", "empty-base-path-reference-to-root",
	"relative-path-escaped-asterisk", "relative-first-segment-encoded-colon",
}

// classify returns the classes whose predicate holds. For `iri.parse` only `a` is given (b == "" and
// isParse), and only the classes that concern a single IRI apply.
func classify(op, a, b string) []string {
	isParse := strings.HasPrefix(op, "iri.parse")
	pa, pb := rfcSplit(a), rfcSplit(b)
	var cls []string
	add := func(c string, ok bool) {
		if ok {
			cls = append(cls, c)
		}
	}
	// the IRIs whose own components are printed: the base/subject always, the reference too
	each := func(f func(p parts, isRef bool) bool) bool {
		if f(pa, false) {
			return true
		}
		return !isParse && f(pb, true)
	}
	add("scheme-has-uppercase", each(func(p parts, _ bool) bool { return p.hasScheme && hasUpper(p.scheme) }))
	add("host-non-ascii", each(func(p parts, _ bool) bool {
		_, _, hp := authSplit(p.authority)
		return p.hasAuthority && hasHigh(hp)
	}))
	add("host-pct-encoded", each(func(p parts, _ bool) bool {
		_, _, hp := authSplit(p.authority)
		return p.hasAuthority && strings.Contains(hp, "%")
	}))
	add("userinfo-not-plain", each(func(p parts, _ bool) bool {
		ui, has, _ := authSplit(p.authority)
		return p.hasAuthority && has && !plainUserinfo(ui)
	}))
	add("host-ipvfuture", each(func(p parts, _ bool) bool {
		_, _, hp := authSplit(p.authority)
		return p.hasAuthority && (strings.HasPrefix(hp, "[v") || strings.HasPrefix(hp, "[V"))
	}))
	add("empty-host", each(func(p parts, isRef bool) bool {
		if !p.hasAuthority {
			return false
		}
		_, _, hp := authSplit(p.authority)
		if p.authority == "" && (!p.hasScheme || p.path == "") {
			return true // "//" or "///a" as a reference; "http://" with nothing after it
		}
		scheme := p.scheme
		if !p.hasScheme {
			scheme = pa.scheme
		}
		return hp == "" && (!special(scheme) || p.path == "")
	}))
	add("opaque-reclassified-abs-path", each(func(p parts, _ bool) bool {
		return p.hasScheme && !special(p.scheme) && !p.hasAuthority && strings.HasPrefix(p.path, "/")
	}))
	{
		// a relative reference whose whole path is "%2A": net/url prints the path "*" unescaped
		r := pb
		if isParse {
			r = pa
		}
		add("relative-path-escaped-asterisk", !r.hasScheme && !r.hasAuthority && (r.path == "%2A" ||
			(!isParse && pa.hasAuthority && pa.path == "" && r.path != "" && r.path[0] != '/' && rfcRemoveDotSegments("/"+r.path) == "/%2A")))
		// printing a relative reference whose first segment hides a ':' as %3a: net/url prefixes "./"
		seg, _, _ := strings.Cut(pa.path, "/")
		add("relative-first-segment-encoded-colon", isParse && !pa.hasScheme && !pa.hasAuthority && (strings.Contains(seg, "%3a") || strings.Contains(seg, "%3A")))
	}
	if !isParse {
		relRef := !pb.hasScheme && !pb.hasAuthority
		emptyRef := relRef && pb.path == "" && !pb.hasQuery
		add("special-scheme-no-authority-base", special(pa.scheme) && !pa.hasAuthority && relRef)
		if !pa.hasAuthority && !strings.HasPrefix(pa.path, "/") && relRef && pb.path != "" {
			if pb.path[0] == '/' {
				add("rootless-base-path-reference", hasDotSegment(pb.path))
			} else {
				add("rootless-base-path-reference", strings.HasPrefix(rfcRemoveDotSegments(rfcMerge(pa, pb.path)), "/"))
			}
		}
		add("base-dot-segments-empty-path-reference", strings.HasPrefix(pa.path, "/") && hasDotSegment(pa.path) && relRef && pb.path == "")
		add("base-empty-query-dropped", pa.hasQuery && pa.query == "" && emptyRef)
		add("base-fragment-inherited", pa.hasFragment && ((pa.fragment == "" && !pb.hasFragment) || (pa.fragment != "" && emptyRef && pb.fragment == "")))
		if full, ok := rfcTargetInput(pa, pb); ok {
			add("dotdot-then-empty-segment", dotdotThenEmpty(full))
		}
		add("empty-base-path-reference-to-root", pa.hasAuthority && pa.path == "" && relRef && pb.path != "" && pb.path[0] != '/' && emptyBaseTarget(rfcRemoveDotSegments("/"+pb.path)))
		add("absolute-reference-rootless-dot-segments", pb.hasScheme && !pb.hasAuthority && !strings.HasPrefix(pb.path, "/") && hasDotSegment(pb.path))
	}
	return cls
}

// c12Avoid: the C12 classes with status `known` (loaded from known-findings.json in main) that hold on the pair.
// rdf/xml resolves the empty reference as Parse("") followed by DropFragment (decoder_ectx.go ResolveIRI), which
// neutralises exactly the class base-fragment-inherited for ref == "" — there the pair is NOT avoided: it is the
// history ParseIRI(base ending in '#') -> Parse("") -> DropFragment -> String() that the planner must exercise.
var c12KnownClasses = map[string]bool{}

func c12Avoid(base, ref string) string {
	for _, c := range classify("iri.resolve", base, ref) {
		if !c12KnownClasses[c] {
			continue
		}
		if ref == "" && c == "base-fragment-inherited" {
			continue
		}
		return c
	}
	return ""
}

// c12AvoidBase: an IRI used as a base after re-parsing (xml:base: ectx.Base = ParseIRI(resolved)) must print as itself
func c12AvoidBase(b string) string {
	for _, c := range classify("iri.parse", b, "") {
		if c12KnownClasses[c] {
			return c
		}
	}
	return ""
}
