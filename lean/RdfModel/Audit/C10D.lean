import RdfModel.Props.C10D
#print axioms RdfModel.C10D.jld_tordf_no_panic
#print axioms RdfModel.C10D.jld_run_no_panic
#print axioms RdfModel.C10D.jld_panics_without_expok
#print axioms RdfModel.C10D.jld_json_panics_without_expok
#print axioms RdfModel.C10D.Witness.wf
#print axioms RdfModel.C10D.Witness.flat_roundtrip
#print axioms RdfModel.C10D.Witness.flat_sorted
#print axioms RdfModel.C10D.Witness.flat_spec
#print axioms RdfModel.C10D.wf_witness
#print axioms RdfModel.C10D.wf_fails_for_other
#print axioms RdfModel.C10D.jld_emits_wf
#print axioms RdfModel.C10D.jld_run_emits_wf
#print axioms RdfModel.C10D.jld_refines_fragment_partial
#print axioms RdfModel.C10D.jld_flat_roundtrip
#print axioms RdfModel.C10D.flat_drops_untagged
#print axioms RdfModel.C10D.jld_refines_fragment_false
#print axioms RdfModel.C10D.Witness.plain
