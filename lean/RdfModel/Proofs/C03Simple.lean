/-
  Proofs.C03Simple — invariance of the RDFC-1.0 specification's output under reordering of the
  dataset and injective renaming of the blank nodes, in the case where all first-degree hashes are
  distinct (then §4.4.3 step 5 / Hash N-Degree Quads is never entered).
-/
import RdfModel.Proofs.C03FirstDegree
import RdfModel.Props.C04Defs
namespace RdfModel.Proofs.C03
open RdfModel RdfModel.Spec.RDFC10 RdfModel.Proofs.StrOrd

set_option linter.unusedSectionVars false

variable {β : Type} [DecidableEq β]

/-- Every blank node of the dataset has its own first-degree hash. -/
def AllDistinct (H : Str → Str) (qs : List (Quad β)) : Prop :=
  ((bnodeToQuads true qs).map (fun e => hashFirstDegree H (bnodeToQuads true qs) e.1)).Nodup

/-! ### step 3: the hash to blank nodes map when the hashes are distinct -/

theorem addToMap_fresh {κ ν : Type} [DecidableEq κ] (m : List (κ × List ν)) (k : κ) (v : ν)
    (h : k ∉ m.map (·.1)) : addToMap m k v = m ++ [(k, [v])] := by
  induction m with
  | nil => rfl
  | cons e rest ih =>
    obtain ⟨k0, vs⟩ := e
    simp only [List.map_cons, List.mem_cons, not_or] at h
    have h0 : ¬ k0 = k := fun e => h.1 e.symm
    simp [addToMap, h0, ih h.2]

theorem foldl_addToMap_fresh (hf : β → Str) (L : List β) (m : List (Str × List β))
    (h : (m.map (·.1) ++ L.map hf).Nodup) :
    L.foldl (fun m n => addToMap m (hf n) n) m = m ++ L.map (fun n => (hf n, [n])) := by
  induction L generalizing m with
  | nil => simp
  | cons a rest ih =>
    have hfresh : hf a ∉ m.map (·.1) := by
      intro hmem
      rw [List.nodup_append] at h
      exact h.2.2 _ hmem _ (by simp) rfl
    simp only [List.foldl_cons, addToMap_fresh m (hf a) a hfresh]
    rw [ih]
    · simp
    · have : (m ++ [(hf a, [a])]).map (·.1) ++ rest.map hf = m.map (·.1) ++ (a :: rest).map hf := by
        simp
      rw [this]; exact h

/-! ### sorting by a key -/

/-- Sort blank nodes by a key (stable merge sort). -/
def sortBy (hf : β → Str) (L : List β) : List β :=
  L.mergeSort (fun a b => strLe (hf a) (hf b))

theorem sortBy_perm (hf : β → Str) (L : List β) : (sortBy hf L).Perm L := List.mergeSort_perm L _

theorem sortBy_pairwise (hf : β → Str) (L : List β) :
    (sortBy hf L).Pairwise (fun a b => strLe (hf a) (hf b) = true) :=
  List.pairwise_mergeSort (fun a b c => strLe_trans (hf a) (hf b) (hf c))
    (fun a b => strLe_total (hf a) (hf b)) L

theorem sortByKey_map (hf : β → Str) (L : List β) :
    sortByKey (L.map (fun n => (hf n, [n]))) = (sortBy hf L).map (fun n => (hf n, [n])) := by
  unfold sortByKey sortBy
  exact (List.map_mergeSort (r := fun a b => strLe (hf a) (hf b))
    (s := fun (a b : Str × List β) => strLe a.1 b.1) (f := fun n => (hf n, [n])) (l := L)
    (fun _ _ _ _ => rfl)).symm

theorem inj_of_nodup_map {α δ : Type} (f : α → δ) (l : List α) (h : (l.map f).Nodup) :
    ∀ a ∈ l, ∀ b ∈ l, f a = f b → a = b := by
  induction l with
  | nil => intro a ha; cases ha
  | cons x rest ih =>
    simp only [List.map_cons, List.nodup_cons, List.mem_map, not_exists, not_and] at h
    intro a ha b hb hab
    simp only [List.mem_cons] at ha hb
    rcases ha with rfl | ha <;> rcases hb with rfl | hb
    · rfl
    · exact absurd hab.symm (h.1 b hb)
    · exact absurd hab (h.1 a ha)
    · exact ih h.2 a ha b hb hab

/-- Two key-sorted arrangements of the same elements coincide when the keys are distinct. -/
theorem sorted_unique (hf : β → Str) {l1 l2 : List β} (hp : l1.Perm l2)
    (h1 : l1.Pairwise (fun a b => strLe (hf a) (hf b) = true))
    (h2 : l2.Pairwise (fun a b => strLe (hf a) (hf b) = true))
    (hn : (l1.map hf).Nodup) : l1 = l2 := by
  apply List.Perm.eq_of_pairwise (le := fun a b => strLe (hf a) (hf b) = true) _ h1 h2 hp
  intro a b ha hb hab hba
  exact inj_of_nodup_map hf l1 hn a ha b (hp.symm.subset hb) (strLe_antisymm _ _ hab hba)

/-! ### renaming an issuer -/

section issuer
variable {γ : Type} [DecidableEq γ]

/-- Rename the existing identifiers of an issuer. -/
def mapIssuer (σ : β → γ) (I : Issuer β) : Issuer γ :=
  ⟨I.pfx, I.counter, I.issued.map (fun e => (σ e.1, e.2))⟩

theorem assoc_map_inj {ν : Type} (σ : β → γ) (hσ : Function.Injective σ) (l : List (β × ν)) (b : β) :
    assoc (l.map (fun e => (σ e.1, e.2))) (σ b) = assoc l b := by
  induction l with
  | nil => rfl
  | cons e rest ih =>
    obtain ⟨k, v⟩ := e
    by_cases h : k = b
    · subst h; simp [assoc]
    · have : ¬ σ k = σ b := fun e => h (hσ e)
      simp [assoc, h, this, ih]

theorem issue_map (σ : β → γ) (hσ : Function.Injective σ) (I : Issuer β) (b : β) :
    ((mapIssuer σ I).issue (σ b)).2 = mapIssuer σ (I.issue b).2 := by
  unfold Issuer.issue Issuer.get?
  have h := assoc_map_inj σ hσ I.issued b
  simp only [mapIssuer] at h ⊢
  rw [h]
  cases assoc I.issued b with
  | some id => rfl
  | none => simp

theorem issueAll_map (σ : β → γ) (hσ : Function.Injective σ) (N : List β) (I : Issuer β) :
    issueAll (mapIssuer σ I) (N.map σ) = mapIssuer σ (issueAll I N) := by
  induction N generalizing I with
  | nil => rfl
  | cons a rest ih =>
    simp only [issueAll, List.map_cons, List.foldl_cons] at ih ⊢
    rw [issue_map σ hσ, ih]

theorem issue_isSome_self (I : Issuer β) (a : β) : (assoc (I.issue a).2.issued a).isSome := by
  unfold Issuer.issue Issuer.get?
  cases h : assoc I.issued a with
  | some id => simp [h]
  | none => simp [assoc_append_of_none _ _ _ _ h]

theorem issue_isSome_mono (I : Issuer β) (a b : β) (hb : (assoc I.issued b).isSome) :
    (assoc (I.issue a).2.issued b).isSome := by
  unfold Issuer.issue Issuer.get?
  cases h : assoc I.issued a with
  | some id => simpa using hb
  | none =>
    simp only [assoc_append_of_none _ _ _ _ h]
    split
    · rfl
    · exact hb

theorem issueAll_isSome (N : List β) (I : Issuer β) (b : β)
    (h : b ∈ N ∨ (assoc I.issued b).isSome) : (assoc (issueAll I N).issued b).isSome := by
  induction N generalizing I with
  | nil => simpa [issueAll] using h
  | cons a rest ih =>
    simp only [issueAll, List.foldl_cons] at ih ⊢
    apply ih
    rcases h with h | h
    · simp only [List.mem_cons] at h
      rcases h with rfl | h
      · exact Or.inr (issue_isSome_self I b)
      · exact Or.inl h
    · exact Or.inr (issue_isSome_mono I a b h)

end issuer

/-! ### the algorithm when all first-degree hashes are distinct -/

/-- The order in which canonical identifiers are issued: blank nodes sorted by first-degree hash. -/
def issueOrder (H : Str → Str) (ord : List β → List β) (qs : List (Quad β)) : List β :=
  sortBy (hashFirstDegree H (bnodeToQuads true qs)) (ord ((bnodeToQuads true qs).map (·.1)))

/-- The canonical issuer after step 4. -/
def simpleCanon (H : Str → Str) (ord : List β → List β) (qs : List (Quad β)) : Issuer β :=
  issueAll (Issuer.new c14nPrefix) (issueOrder H ord qs)

/-- With distinct first-degree hashes the algorithm ends after step 4, for any recursion bound:
    canonical identifiers are issued in hash order. -/
theorem canonFuel_simple (H : Str → Str) (ord : List β → List β) (hord : C04.OrdOK ord)
    (perms : List β → List (List β)) (fuel : Nat) (qs : List (Quad β)) (hd : AllDistinct H qs) :
    canonFuel H ord perms true fuel qs
      = some ⟨sortStr (qs.map (nquad (fun b => (assoc (simpleCanon H ord qs).issued b).getD []))),
              (simpleCanon H ord qs).issued⟩ := by
  have hd' : ((ord ((bnodeToQuads true qs).map (·.1))).map
      (hashFirstDegree H (bnodeToQuads true qs))).Nodup := by
    have : ((bnodeToQuads true qs).map (·.1)).map (hashFirstDegree H (bnodeToQuads true qs))
        = (bnodeToQuads true qs).map (fun e => hashFirstDegree H (bnodeToQuads true qs) e.1) := by
      simp [List.map_map, Function.comp_def]
    exact ((hord _).map _).symm.nodup (this ▸ hd)
  have h3 := foldl_addToMap_fresh (hashFirstDegree H (bnodeToQuads true qs))
    (ord ((bnodeToQuads true qs).map (·.1))) [] (by simpa using hd')
  unfold canonFuel
  simp only [h3, List.nil_append, sortByKey_map]
  simp only [List.foldl_map, List.filter_map]
  have hrem : ∀ N : List β, N.filter
      ((fun e : Str × List β => decide (e.2.length ≠ 1)) ∘
        (fun n => (hashFirstDegree H (bnodeToQuads true qs) n, [n]))) = [] := by
    intro N; simp [List.filter_eq_nil_iff]
  rw [hrem]
  simp only [List.map_nil, step5, Issuer.get?]
  rfl

/-! ### transporting along a renaming and a reordering -/

section transport
variable {γ : Type} [DecidableEq γ]

theorem first_degree_transport (H : Str → Str) (σ : β → γ) (hσ : Function.Injective σ)
    (qs : List (Quad β)) (qs' : List (Quad γ)) (hp : qs'.Perm (qs.map (Quad.map σ))) (b : β) :
    hashFirstDegree H (bnodeToQuads true qs') (σ b) = hashFirstDegree H (bnodeToQuads true qs) b := by
  rw [first_degree_perm H hp, first_degree_rename H σ hσ]

theorem keys_transport (σ : β → γ) (hσ : Function.Injective σ)
    (qs : List (Quad β)) (qs' : List (Quad γ)) (hp : qs'.Perm (qs.map (Quad.map σ))) :
    ((bnodeToQuads true qs').map (·.1)).Perm (((bnodeToQuads true qs).map (·.1)).map σ) := by
  rw [List.perm_ext_iff_of_nodup (nodup_keys_bnodeToQuads qs')]
  · intro c
    rw [mem_keys_bnodeToQuads, (hp.flatMap_right quadBnodes).mem_iff, flatMap_quadBnodes_map,
      List.mem_map, List.mem_map]
    simp only [mem_keys_bnodeToQuads]
  · have hn := nodup_keys_bnodeToQuads qs
    rw [List.Nodup, List.pairwise_map]
    exact hn.imp (fun h e => h (hσ e))

theorem map_hash_transport (H : Str → Str) (σ : β → γ) (hσ : Function.Injective σ)
    (qs : List (Quad β)) (qs' : List (Quad γ)) (hp : qs'.Perm (qs.map (Quad.map σ))) (l : List β) :
    (l.map σ).map (hashFirstDegree H (bnodeToQuads true qs'))
      = l.map (hashFirstDegree H (bnodeToQuads true qs)) := by
  rw [List.map_map]
  apply List.map_congr_left
  intro b _
  exact first_degree_transport H σ hσ qs qs' hp b

theorem allDistinct_transport (H : Str → Str) (σ : β → γ) (hσ : Function.Injective σ)
    (qs : List (Quad β)) (qs' : List (Quad γ)) (hp : qs'.Perm (qs.map (Quad.map σ)))
    (hd : AllDistinct H qs) : AllDistinct H qs' := by
  unfold AllDistinct at hd ⊢
  have e : ∀ {δ : Type} [DecidableEq δ] (qs : List (Quad δ)),
      (bnodeToQuads true qs).map (fun e => hashFirstDegree H (bnodeToQuads true qs) e.1)
        = ((bnodeToQuads true qs).map (·.1)).map (hashFirstDegree H (bnodeToQuads true qs)) := by
    intro δ _ qs; simp [List.map_map, Function.comp_def]
  rw [e] at hd ⊢
  have hk := (keys_transport σ hσ qs qs' hp).map (hashFirstDegree H (bnodeToQuads true qs'))
  rw [map_hash_transport H σ hσ qs qs' hp] at hk
  exact hk.symm.nodup hd

theorem issueOrder_transport (H : Str → Str) (σ : β → γ) (hσ : Function.Injective σ)
    (qs : List (Quad β)) (qs' : List (Quad γ)) (hp : qs'.Perm (qs.map (Quad.map σ)))
    (hd : AllDistinct H qs) (ord : List β → List β) (ord' : List γ → List γ)
    (hord : C04.OrdOK ord) (hord' : C04.OrdOK ord') :
    issueOrder H ord' qs' = (issueOrder H ord qs).map σ := by
  unfold issueOrder
  have hperm : (sortBy (hashFirstDegree H (bnodeToQuads true qs'))
        (ord' ((bnodeToQuads true qs').map (·.1)))).Perm
      ((sortBy (hashFirstDegree H (bnodeToQuads true qs))
        (ord ((bnodeToQuads true qs).map (·.1)))).map σ) :=
    (sortBy_perm _ _).trans ((hord' _).trans ((keys_transport σ hσ qs qs' hp).trans
      (((sortBy_perm _ _).trans (hord _)).map σ).symm))
  apply sorted_unique (hashFirstDegree H (bnodeToQuads true qs')) hperm (sortBy_pairwise _ _)
  · rw [List.pairwise_map]
    simp only [first_degree_transport H σ hσ qs qs' hp]
    exact sortBy_pairwise _ _
  · have hd' : (((bnodeToQuads true qs).map (·.1)).map
        (hashFirstDegree H (bnodeToQuads true qs))).Nodup := by
      have : ((bnodeToQuads true qs).map (·.1)).map (hashFirstDegree H (bnodeToQuads true qs))
          = (bnodeToQuads true qs).map (fun e => hashFirstDegree H (bnodeToQuads true qs) e.1) := by
        simp [List.map_map, Function.comp_def]
      exact this ▸ hd
    have h1 := ((sortBy_perm (hashFirstDegree H (bnodeToQuads true qs'))
      (ord' ((bnodeToQuads true qs').map (·.1)))).trans ((hord' _).trans
        (keys_transport σ hσ qs qs' hp))).map (hashFirstDegree H (bnodeToQuads true qs'))
    rw [map_hash_transport H σ hσ qs qs' hp] at h1
    exact h1.symm.nodup hd'

/-- The specification's output does not depend on the order of the dataset, the names of the blank
    nodes, the order parameters or the recursion bound, when all first-degree hashes are distinct. -/
theorem spec_invariant_simple (H : Str → Str) (σ : β → γ) (hσ : Function.Injective σ)
    (qs : List (Quad β)) (qs' : List (Quad γ)) (hp : qs'.Perm (qs.map (Quad.map σ)))
    (hd : AllDistinct H qs) (ord : List β → List β) (ord' : List γ → List γ)
    (hord : C04.OrdOK ord) (hord' : C04.OrdOK ord')
    (perms : List β → List (List β)) (perms' : List γ → List (List γ)) (fuel fuel' : Nat) :
    ∃ r r', canonFuel H ord perms true fuel qs = some r ∧
      canonFuel H ord' perms' true fuel' qs' = some r' ∧
      r.lines = r'.lines ∧
      (∀ b ∈ qs.flatMap quadBnodes, assoc r'.issued (σ b) = assoc r.issued b) ∧
      (∀ b ∈ qs.flatMap quadBnodes, (assoc r.issued b).isSome) := by
  have hd' := allDistinct_transport H σ hσ qs qs' hp hd
  have hcanon : simpleCanon H ord' qs' = mapIssuer σ (simpleCanon H ord qs) := by
    unfold simpleCanon
    rw [issueOrder_transport H σ hσ qs qs' hp hd ord ord' hord hord']
    exact issueAll_map σ hσ _ (Issuer.new c14nPrefix)
  have hassoc : ∀ b, assoc (simpleCanon H ord' qs').issued (σ b)
      = assoc (simpleCanon H ord qs).issued b := by
    intro b
    rw [hcanon]
    exact assoc_map_inj σ hσ _ b
  refine ⟨_, _, canonFuel_simple H ord hord perms fuel qs hd,
    canonFuel_simple H ord' hord' perms' fuel' qs' hd', ?_, ?_, ?_⟩
  · simp only
    apply sortStr_eq_of_perm
    refine List.Perm.trans ?_ (hp.map _).symm
    rw [List.map_map]
    apply List.Perm.of_eq
    apply List.map_congr_left
    intro q _
    simp only [Function.comp_apply, nquad_map]
    congr 1
    funext b
    simp only [Function.comp_apply, hassoc]
  · intro b _
    exact hassoc b
  · intro b hb
    apply issueAll_isSome
    left
    have hk : b ∈ (bnodeToQuads true qs).map (·.1) := (mem_keys_bnodeToQuads qs b).2 hb
    exact (sortBy_perm _ _).mem_iff.2 ((hord _).mem_iff.2 hk)

end transport

end RdfModel.Proofs.C03
