/-
  C09 helper lemmas, part 2: the denotation of a rendered well-formed plan is its intended triples.
-/
import RdfModel.Proofs.C09Attrs
namespace RdfModel.RX
open RdfModel RdfModel.Desc

variable (rs : Str → Str → Str)

/-! ### property attributes -/

theorem wfPAttr_isProp (env : Env) (a : PAttr) (h : wfPAttr rs env a = true) : isPropAttr a.render = true := by
  cases a with
  | lit ns name val lang =>
    simp only [wfPAttr, Bool.and_eq_true] at h
    exact h.1.1.1
  | type iri ref =>
    have h1 : badAttrName n_type = false := by decide
    have h2 : syntaxAttrName n_type = false := by decide
    simp [PAttr.render, isPropAttr, rdfNS_ne_nil, xmlNS_ne_rdfNS.symm, h1, h2]

theorem wfPAttrs_isProp (env : Env) (pattrs : List PAttr) (h : wfPAttrs rs env pattrs = true) :
    ∀ a ∈ pattrs.map PAttr.render, isPropAttr a = true := by
  intro a ha
  simp only [wfPAttrs, Bool.and_eq_true, List.all_eq_true] at h
  obtain ⟨b, hb, rfl⟩ := List.mem_map.mp ha
  exact wfPAttr_isProp rs env b (h.1 b hb)

theorem wfPAttr_triple (env : Env) (s : Term BN) (a : PAttr) (h : wfPAttr rs env a = true) :
    propAttrTriple rs env s a.render = a.triple s := by
  cases a with
  | lit ns name val lang =>
    simp only [wfPAttr, Bool.and_eq_true, Bool.not_eq_true', decide_eq_true_eq] at h
    obtain ⟨⟨⟨_, h2⟩, _⟩, h4⟩ := h
    have h2' : ¬(ns = rdfNS ∧ name = n_type) := by simpa using h2
    simp [propAttrTriple, PAttr.render, PAttr.triple, h2', h4]
  | type iri ref =>
    simp only [wfPAttr, decide_eq_true_eq] at h
    simp [propAttrTriple, PAttr.render, PAttr.triple, h]

theorem wfPAttrs_triples (env : Env) (s : Term BN) (pattrs : List PAttr) (h : wfPAttrs rs env pattrs = true) :
    (pattrs.map PAttr.render).map (propAttrTriple rs env s) = pattrs.map (PAttr.triple s) := by
  simp only [wfPAttrs, Bool.and_eq_true, List.all_eq_true] at h
  rw [List.map_map]
  apply List.map_congr_left
  intro a ha
  exact wfPAttr_triple rs env s a (h.1 a ha)

/-! ### rdf:ID -/

theorem wfId_optId (env : Env) (id : PId) (st st' : St) (h : wfId rs env id st = some st') :
    optId rs env (PId.val id) st = .ok (PId.iri id, st') := by
  cases id with
  | none => simp only [wfId, Option.some.injEq] at h; subst h; rfl
  | some p =>
    obtain ⟨iri, v⟩ := p
    simp only [wfId] at h
    split at h
    · rename_i hc
      simp only [Bool.and_eq_true, decide_eq_true_eq, Bool.not_eq_true', List.contains_eq_mem,
        decide_eq_false_iff_not] at hc
      simp only [Option.some.injEq] at h; subst h
      simp [optId, PId.val, PId.iri, useId, hc.1.1, hc.1.2, hc.2]
    · exact absurd h (by simp)

/-! ### subjects -/

theorem wfSubj_subjectOf (env : Env) (sc : Scope) (props : List Attr) (subj : Subj) (st st' : St)
    (h : wfSubj rs env st subj = some st') :
    subjectOf rs env (subj.info sc props) st = .ok (subj.term, st') := by
  cases subj with
  | about iri ref =>
    simp only [wfSubj] at h
    split at h
    · rename_i hc; simp only [Option.some.injEq] at h; subst h
      simp [subjectOf, Subj.info, Subj.term, hc]
    · exact absurd h (by simp)
  | id iri v =>
    simp only [wfSubj] at h
    have := wfId_optId rs env (some (iri, v)) st st' h
    simp only [optId, PId.val, PId.iri, Option.map] at this
    simp only [subjectOf, Subj.info, Subj.term]
    split at this
    · rename_i r st1 hu
      simp only [Except.ok.injEq, Prod.mk.injEq, Option.some.injEq] at this
      rw [this.1, this.2]
    · exact absurd this (by simp)
  | nodeID l =>
    simp only [wfSubj] at h
    split at h
    · rename_i hc; simp only [Option.some.injEq] at h; subst h
      simp [subjectOf, Subj.info, Subj.term, hc]
    · exact absurd h (by simp)
  | anon n =>
    simp only [wfSubj] at h
    split at h
    · rename_i hc; simp only [Option.some.injEq] at h; subst h; subst hc
      simp [subjectOf, Subj.info, Subj.term]
    · exact absurd h (by simp)

/-! ### property element names -/

theorem wfName_facts (li : Nat) (nm : PName) (h : wfName li nm = true) :
    ¬(nm.ns = rdfNS ∧ badPropName nm.name = true) ∧ propPred nm.ns nm.name li = nm.pred ∧
      propLi nm.ns nm.name li = nm.nextLi li := by
  cases nm with
  | el ns name =>
    simp only [wfName, Bool.and_eq_true, Bool.not_eq_true', decide_eq_true_eq, Bool.and_eq_false_iff,
      Bool.or_eq_false_iff, decide_eq_false_iff_not] at h
    obtain ⟨⟨_, _⟩, h3⟩ := h
    have hli : isLiName ns name = false := by
      simp only [isLiName, decide_eq_false_iff_not, not_and]
      intro hns
      rcases h3 with h3 | h3
      · exact absurd hns h3
      · exact h3.2
    refine ⟨?_, ?_, ?_⟩
    · simp only [PName.ns, PName.name, not_and, Bool.not_eq_true]
      intro hns
      rcases h3 with h3 | h3
      · exact absurd hns h3
      · exact h3.1
    · simp [propPred, PName.ns, PName.name, PName.pred, hli]
    · simp [propLi, PName.ns, PName.name, PName.nextLi, hli]
  | li p =>
    simp only [wfName, decide_eq_true_eq] at h
    refine ⟨?_, ?_, ?_⟩
    · simp only [PName.ns, PName.name]; decide
    · simp [propPred, PName.ns, PName.name, PName.pred, isLiName, h]
    · simp [propLi, PName.ns, PName.name, PName.nextLi, isLiName]

end RdfModel.RX
