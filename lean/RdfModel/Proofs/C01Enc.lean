/-
  Proofs.C01Enc — total ("Option-free") description of what the encoder writes for well-formed quads.
-/
import RdfModel.Props.C01Defs
namespace RdfModel.Proofs.C01
open RdfModel RdfModel.NQ RdfModel.C01

variable {β : Type}

/-- What `writeNode` writes (junk `[]` for literals, which are never well-formed nodes). -/
def nodeW (T : Tables) (ascii : Bool) (label : β → List Nat) : Term β → List Nat
  | .iri v => writeIRI T ascii v
  | .bnode b => 0x5f :: 0x3a :: label b
  | .lit .. => []

def objW (T : Tables) (ascii : Bool) (label : β → List Nat) : Term β → List Nat
  | .lit l d t => writeLiteral T ascii l d t
  | t => nodeW T ascii label t

def graphW (T : Tables) (ascii : Bool) (label : β → List Nat) (quads : Bool) :
    Option (Term β) → List Nat
  | some g => if quads then 0x20 :: nodeW T ascii label g else []
  | none => []

/-- One statement without its terminating LF. -/
def quadBody (T : Tables) (ascii : Bool) (label : β → List Nat) (quads : Bool) (q : Quad β) :
    List Nat :=
  nodeW T ascii label q.s ++ 0x20 :: (nodeW T ascii label q.p ++ 0x20 ::
    (objW T ascii label q.o ++ (graphW T ascii label quads q.g ++ [0x20, 0x2e])))

theorem writeNode_wf (T : Tables) (ascii : Bool) (label : β → List Nat) (urlOk : List Nat → Bool)
    (t : Term β) (h : WFNode urlOk t) : writeNode T ascii label t = some (nodeW T ascii label t) := by
  cases t <;> simp_all [WFNode, writeNode, nodeW]

theorem writePredicate_wf (T : Tables) (ascii : Bool) (label : β → List Nat)
    (urlOk : List Nat → Bool) (t : Term β) (h : WFPredicate urlOk t) :
    writePredicate T ascii t = some (nodeW T ascii label t) := by
  cases t <;> simp_all [WFPredicate, writePredicate, nodeW]

theorem writeObject_wf (T : Tables) (ascii : Bool) (label : β → List Nat) (urlOk : List Nat → Bool)
    (t : Term β) (h : WFObject urlOk t) : writeObject T ascii label t = some (objW T ascii label t) := by
  cases t <;> simp_all [WFObject, WFNode, writeObject, writeNode, objW, nodeW]

theorem encodeQuad_wf (T : Tables) (ascii : Bool) (label : β → List Nat) (urlOk : List Nat → Bool)
    (quads : Bool) (q : Quad β) (h : WFQuad urlOk q) :
    encodeQuad T ascii label quads q = some (quadBody T ascii label quads q ++ [0x0a]) := by
  obtain ⟨s, p, o, g⟩ := q
  have hs := h.s; have hp := h.p; have ho := h.o; have hg := h.g
  simp only at hs hp ho hg
  unfold encodeQuad
  simp only
  rw [writeNode_wf T ascii label urlOk _ hs, writePredicate_wf T ascii label urlOk _ hp,
    writeObject_wf T ascii label urlOk _ ho]
  cases quads with
  | false => cases g <;> simp [quadBody, graphW]
  | true =>
    cases g with
    | none => simp [quadBody, graphW]
    | some g =>
      simp [quadBody, graphW, writeNode_wf T ascii label urlOk g (hg g rfl)]

theorem encodeDoc_nil (T : Tables) (ascii : Bool) (label : β → List Nat) (quads : Bool) :
    encodeDoc T ascii label quads ([] : List (Quad β)) = [] := rfl

theorem encodeDoc_cons_wf (T : Tables) (ascii : Bool) (label : β → List Nat) (urlOk : List Nat → Bool)
    (quads : Bool) (q : Quad β) (qs : List (Quad β)) (h : WFQuad urlOk q) :
    encodeDoc T ascii label quads (q :: qs)
      = quadBody T ascii label quads q ++ 0x0a :: encodeDoc T ascii label quads qs := by
  simp [encodeDoc, encodeQuad_wf T ascii label urlOk quads q h]

theorem nodeW_head (T : Tables) (ascii : Bool) (label : β → List Nat) (urlOk : List Nat → Bool)
    (t : Term β) (ht : WFNode urlOk t) :
    ∃ c r, nodeW T ascii label t = c :: r ∧ (c = 0x3c ∨ c = 0x5f) := by
  cases t with
  | iri v => exact ⟨0x3c, _, rfl, Or.inl rfl⟩
  | bnode b => exact ⟨0x5f, _, rfl, Or.inr rfl⟩
  | lit l d t => exact ht.elim

theorem writeLiteral_head (T : Tables) (ascii : Bool) (l d : List Nat) (t : Option (List Nat)) :
    ∃ r, writeLiteral T ascii l d t = 0x22 :: r := by
  unfold writeLiteral
  simp only
  split
  · exact ⟨_, rfl⟩
  · split
    · cases t <;> exact ⟨_, rfl⟩
    · exact ⟨_, rfl⟩

theorem objW_head (T : Tables) (ascii : Bool) (label : β → List Nat) (urlOk : List Nat → Bool)
    (t : Term β) (ht : WFObject urlOk t) :
    ∃ c r, objW T ascii label t = c :: r ∧ (c = 0x22 ∨ c = 0x3c ∨ c = 0x5f) := by
  cases t with
  | iri v => exact ⟨0x3c, _, rfl, Or.inr (Or.inl rfl)⟩
  | bnode b => exact ⟨0x5f, _, rfl, Or.inr (Or.inr rfl)⟩
  | lit l d t =>
    obtain ⟨r, hr⟩ := writeLiteral_head T ascii l d t
    exact ⟨0x22, r, hr, Or.inl rfl⟩

end RdfModel.Proofs.C01
