/-
  Proofs.C04Quads — the pre-encoded quads of the Go code (`canonicalizationQuad`) against the
  on-demand canonical serialisation of the specification; the blank node to quads map.
-/
import RdfModel.Props.C04Defs
import RdfModel.Proofs.StrOrdLemmas
namespace RdfModel.Proofs.C04
open RdfModel RdfModel.Proofs.StrOrd RdfModel.C04


set_option linter.unusedSectionVars false

variable {β : Type} [DecidableEq β]

/-- What the two N-Quads writers must satisfy (follows from `TablesCanon`, see `encOK_of_tables`). -/
structure EncOK (T : NQ.Tables) : Prop where
  iri : ∀ v, IriRaw T v → NQ.writeIRI T false v = Spec.RDFC10.iriRef v
  lit : ∀ l d t, WFLit T d t → NQ.writeLiteral T false l d t = Spec.RDFC10.literal l d t

/-- The `canonicalizationQuad` Go builds for a well-formed quad. -/
def cquadOf (T : NQ.Tables) (q : Quad β) (idx : Nat) : Rdfcanon.CQuad β where
  orig := q
  idx := idx
  sEnc := match q.s with | .iri v => NQ.writeIRI T false v | _ => []
  sBn := match q.s with | .bnode b => some b | _ => none
  pEnc := match q.p with | .iri v => NQ.writeIRI T false v | _ => []
  oEnc := match q.o with
    | .iri v => NQ.writeIRI T false v
    | .lit l d t => NQ.writeLiteral T false l d t
    | .bnode _ => []
  oBn := match q.o with | .bnode b => some b | _ => none
  gEnc := match q.g with | some (.iri v) => NQ.writeIRI T false v | _ => []
  gBn := match q.g with | some (.bnode b) => some b | _ => none

theorem ingestQuad_wf (T : NQ.Tables) (q : Quad β) (idx : Nat) (h : WFQuad T q) :
    Rdfcanon.ingestQuad T q idx = some (cquadOf T q idx) := by
  obtain ⟨s, p, o, g⟩ := q
  obtain ⟨hs, hp, ho, hg⟩ := h
  cases s with
  | lit l d t => exact absurd hs (by simp [WFNode])
  | iri sv =>
    cases p with
    | iri pv =>
      cases o <;> (cases g with
        | none => simp [Rdfcanon.ingestQuad, cquadOf]
        | some g => cases g with
          | lit l d t => exact absurd (hg _ rfl) (by simp [WFNode])
          | iri gv => simp [Rdfcanon.ingestQuad, cquadOf]
          | bnode gb => simp [Rdfcanon.ingestQuad, cquadOf])
    | bnode _ => exact absurd hp (by simp [WFPredicate])
    | lit _ _ _ => exact absurd hp (by simp [WFPredicate])
  | bnode sb =>
    cases p with
    | iri pv =>
      cases o <;> (cases g with
        | none => simp [Rdfcanon.ingestQuad, cquadOf]
        | some g => cases g with
          | lit l d t => exact absurd (hg _ rfl) (by simp [WFNode])
          | iri gv => simp [Rdfcanon.ingestQuad, cquadOf]
          | bnode gb => simp [Rdfcanon.ingestQuad, cquadOf])
    | bnode _ => exact absurd hp (by simp [WFPredicate])
    | lit _ _ _ => exact absurd hp (by simp [WFPredicate])

theorem iriRef_ne_nil (v : Str) : Spec.RDFC10.iriRef v ≠ [] := by simp [Spec.RDFC10.iriRef]
theorem literal_ne_nil (l d : Str) (t : Option Str) : Spec.RDFC10.literal l d t ≠ [] := by
  unfold Spec.RDFC10.literal
  cases t <;> simp <;> split <;> simp

/-- The graph part of a canonical line. -/
def specG (lab : β → Str) : Option (Term β) → Str
  | none => []
  | some g => 0x20 :: Spec.RDFC10.term lab g

theorem nquad_eq (lab : β → Str) (q : Quad β) :
    Spec.RDFC10.nquad lab q = Spec.RDFC10.term lab q.s ++ 0x20 :: Spec.RDFC10.term lab q.p ++
      0x20 :: Spec.RDFC10.term lab q.o ++ specG lab q.g ++ [0x20, 0x2e, 0x0a] := by
  unfold Spec.RDFC10.nquad specG
  cases q.g <;> rfl

/-- First-degree line of the pre-encoded quad = canonical serialisation with the `a`/`z` labels. -/
theorem firstDegreeLine_cquadOf (T : NQ.Tables) (henc : EncOK T) (q : Quad β) (idx : Nat)
    (h : WFQuad T q) (input : β) :
    Rdfcanon.firstDegreeLine input (cquadOf T q idx)
      = Spec.RDFC10.nquad (fun b => if b = input then [0x61] else [0x7a]) q := by
  obtain ⟨s, p, o, g⟩ := q
  obtain ⟨hs, hp, ho, hg⟩ := h
  cases p with
  | bnode _ => exact absurd hp (by simp [WFPredicate])
  | lit _ _ _ => exact absurd hp (by simp [WFPredicate])
  | iri pv =>
    have hpv : NQ.writeIRI T false pv = Spec.RDFC10.iriRef pv := henc.iri pv hp
    have hS : (if !(cquadOf T ⟨s, .iri pv, o, g⟩ idx).sEnc.isEmpty then (cquadOf T ⟨s, .iri pv, o, g⟩ idx).sEnc
        else if (cquadOf T ⟨s, .iri pv, o, g⟩ idx).sBn = some input then Rdfcanon.selfLabel else Rdfcanon.otherLabel)
        = Spec.RDFC10.term (fun b => if b = input then [0x61] else [0x7a]) s := by
      cases s with
      | lit _ _ _ => exact absurd hs (by simp [WFNode])
      | iri sv =>
        have := henc.iri sv hs
        simp [cquadOf, this, Spec.RDFC10.term, Spec.RDFC10.iriRef]
      | bnode sb =>
        by_cases hb : sb = input <;>
          simp [cquadOf, Spec.RDFC10.term, Rdfcanon.selfLabel, Rdfcanon.otherLabel, hb]
    have hO : (if !(cquadOf T ⟨s, .iri pv, o, g⟩ idx).oEnc.isEmpty then (cquadOf T ⟨s, .iri pv, o, g⟩ idx).oEnc
        else if (cquadOf T ⟨s, .iri pv, o, g⟩ idx).oBn = some input then Rdfcanon.selfLabel else Rdfcanon.otherLabel)
        = Spec.RDFC10.term (fun b => if b = input then [0x61] else [0x7a]) o := by
      cases o with
      | lit l d t =>
        have := henc.lit l d t ho
        have hne := literal_ne_nil l d t
        simp [cquadOf, this, Spec.RDFC10.term, hne]
      | iri ov =>
        have := henc.iri ov ho
        simp [cquadOf, this, Spec.RDFC10.term, Spec.RDFC10.iriRef]
      | bnode ob =>
        by_cases hb : ob = input <;>
          simp [cquadOf, Spec.RDFC10.term, Rdfcanon.selfLabel, Rdfcanon.otherLabel, hb]
    have hG : (if !(cquadOf T ⟨s, .iri pv, o, g⟩ idx).gEnc.isEmpty then Rdfcanon.sp ++ (cquadOf T ⟨s, .iri pv, o, g⟩ idx).gEnc
        else if (cquadOf T ⟨s, .iri pv, o, g⟩ idx).gBn = none then []
        else if (cquadOf T ⟨s, .iri pv, o, g⟩ idx).gBn = some input then Rdfcanon.sp ++ Rdfcanon.selfLabel
        else Rdfcanon.sp ++ Rdfcanon.otherLabel)
        = specG (fun b => if b = input then [0x61] else [0x7a]) g := by
      cases g with
      | none => simp [cquadOf, specG]
      | some g =>
        cases g with
        | lit _ _ _ => exact absurd (hg _ rfl) (by simp [WFNode])
        | iri gv =>
          have := henc.iri gv (hg _ rfl)
          simp [cquadOf, this, Spec.RDFC10.term, Spec.RDFC10.iriRef, Rdfcanon.sp, specG]
        | bnode gb =>
          by_cases hb : gb = input <;>
            simp [cquadOf, Spec.RDFC10.term, Rdfcanon.selfLabel, Rdfcanon.otherLabel, Rdfcanon.sp, hb, specG]
    rw [nquad_eq]
    unfold Rdfcanon.firstDegreeLine
    rw [hS, hO, hG]
    simp [cquadOf, hpv, Spec.RDFC10.term, Rdfcanon.sp, Rdfcanon.eol]

theorem pEnc_cquadOf (T : NQ.Tables) (henc : EncOK T) (q : Quad β) (idx : Nat) (h : WFQuad T q) :
    (cquadOf T q idx).pEnc = Spec.RDFC10.iriRef (Spec.RDFC10.predicateValue q) := by
  obtain ⟨s, p, o, g⟩ := q
  cases p with
  | bnode _ => exact absurd h.p (by simp [WFPredicate])
  | lit _ _ _ => exact absurd h.p (by simp [WFPredicate])
  | iri pv => simpa [cquadOf, Spec.RDFC10.predicateValue] using henc.iri pv h.p

theorem relatedOf_cquadOf (T : NQ.Tables) (q : Quad β) (idx : Nat) (identifier : β) :
    Rdfcanon.relatedOf identifier (cquadOf T q idx)
      = (Spec.RDFC10.relatedOf identifier q).map (fun p => (p.1, [p.2])) := by
  obtain ⟨s, p, o, g⟩ := q
  have e1 : ∀ (b : β) (pos : Nat), (if b ≠ identifier then [(b, [pos])] else [])
      = (if b = identifier then [] else [(b, pos)]).map (fun p => (p.1, [p.2])) := by
    intro b pos; by_cases hb : b = identifier <;> simp [hb]
  cases s <;> cases o <;> (cases g with
    | none => simp [Rdfcanon.relatedOf, Spec.RDFC10.relatedOf, cquadOf, e1]
    | some g => cases g <;> simp [Rdfcanon.relatedOf, Spec.RDFC10.relatedOf, cquadOf, e1])

/-! ### the blank node to quads map -/

/-- Forget the pre-encoding: the specification's view of `blankNodeToQuads`. -/
def forget (m : List (β × List (Rdfcanon.CQuad β))) : Spec.RDFC10.B2Q β :=
  m.map (fun e => (e.1, e.2.map (·.orig)))

theorem forget_addToMap (m : List (β × List (Rdfcanon.CQuad β))) (b : β) (c : Rdfcanon.CQuad β) :
    forget (addToMap m b c) = addToMap (forget m) b c.orig := by
  induction m with
  | nil => simp [forget, addToMap]
  | cons e rest ih =>
    obtain ⟨k, vs⟩ := e
    by_cases hk : k = b
    · simp [forget, addToMap, hk]
    · simp only [forget, List.map_cons] at ih ⊢
      simp [addToMap, hk, ih]

theorem getList_forget (m : List (β × List (Rdfcanon.CQuad β))) (b : β) :
    getList (forget m) b = (getList m b).map (·.orig) := by
  induction m with
  | nil => simp [forget, getList]
  | cons e rest ih =>
    obtain ⟨k, vs⟩ := e
    simp only [forget, List.map_cons] at ih ⊢
    by_cases hk : k = b <;> simp [getList, hk, ih]

theorem keys_forget (m : List (β × List (Rdfcanon.CQuad β))) :
    (forget m).map (·.1) = m.map (·.1) := by
  simp [forget, Function.comp_def]

/-- One quad's contribution to the map (step 2.1), specification side. -/
def specIndex (m : Spec.RDFC10.B2Q β) (q : Quad β) : Spec.RDFC10.B2Q β :=
  (Spec.RDFC10.quadBnodes q).foldl (fun m b => addToMap m b q) m

theorem bnodeToQuads_eq (qs : List (Quad β)) :
    Spec.RDFC10.bnodeToQuads true qs = qs.foldl specIndex [] := by
  simp only [Spec.RDFC10.bnodeToQuads, if_true]
  rfl

theorem indexQuad_forget (T : NQ.Tables) (m : List (β × List (Rdfcanon.CQuad β))) (q : Quad β) (idx : Nat) :
    forget (Rdfcanon.indexQuad m (cquadOf T q idx)) = specIndex (forget m) q := by
  obtain ⟨s, p, o, g⟩ := q
  cases s <;> cases o <;> (cases g with
    | none => simp [Rdfcanon.indexQuad, specIndex, Spec.RDFC10.quadBnodes, Spec.RDFC10.bnodeOf, cquadOf, forget_addToMap]
    | some g => cases g <;>
      simp [Rdfcanon.indexQuad, specIndex, Spec.RDFC10.quadBnodes, Spec.RDFC10.bnodeOf, cquadOf, forget_addToMap])

/-- The pre-encoded quads of a list, numbered from `idx`. -/
def cquads (T : NQ.Tables) : List (Quad β) → Nat → List (Rdfcanon.CQuad β)
  | [], _ => []
  | q :: rest, idx => cquadOf T q idx :: cquads T rest (idx + 1)

/-- A pre-encoded quad that is the encoding of a well-formed quad. -/
def IsCQ (T : NQ.Tables) (c : Rdfcanon.CQuad β) : Prop := c = cquadOf T c.orig c.idx ∧ WFQuad T c.orig

theorem isCQ_cquadOf (T : NQ.Tables) (q : Quad β) (idx : Nat) (h : WFQuad T q) : IsCQ T (cquadOf T q idx) :=
  ⟨rfl, h⟩

theorem indexQuad_mem (m : List (β × List (Rdfcanon.CQuad β))) (c : Rdfcanon.CQuad β)
    (P : Rdfcanon.CQuad β → Prop) (hc : P c) (hm : ∀ e ∈ m, ∀ x ∈ e.2, P x) :
    ∀ e ∈ Rdfcanon.indexQuad m c, ∀ x ∈ e.2, P x := by
  have step : ∀ (m : List (β × List (Rdfcanon.CQuad β))) (b : β), (∀ e ∈ m, ∀ x ∈ e.2, P x) →
      ∀ e ∈ addToMap m b c, ∀ x ∈ e.2, P x := by
    intro m b hm
    induction m with
    | nil => intro e he x hx; simp [addToMap] at he; subst he; simp at hx; subst hx; exact hc
    | cons e0 rest ih =>
      obtain ⟨k, vs⟩ := e0
      intro e he x hx
      by_cases hk : k = b
      · simp [addToMap, hk] at he
        rcases he with he | he
        · subst he
          simp at hx
          rcases hx with hx | hx
          · exact hm (k, vs) (by simp) x hx
          · subst hx; exact hc
        · exact hm e (by simp [he]) x hx
      · simp [addToMap, hk] at he
        rcases he with he | he
        · exact hm e (by simp [he]) x hx
        · exact ih (fun e he => hm e (by simp [he])) e he x hx
  unfold Rdfcanon.indexQuad
  have h1 : ∀ e ∈ (match c.sBn with | some b => addToMap m b c | none => m), ∀ x ∈ e.2, P x := by
    cases c.sBn with
    | none => exact hm
    | some b => exact step m b hm
  have h2 : ∀ e ∈ (match c.oBn with
      | some b => addToMap (match c.sBn with | some b => addToMap m b c | none => m) b c
      | none => (match c.sBn with | some b => addToMap m b c | none => m)), ∀ x ∈ e.2, P x := by
    cases c.oBn with
    | none => exact h1
    | some b => exact step _ b h1
  cases c.gBn with
  | none => exact h2
  | some b => exact step _ b h2

/-- Step 2 of the Go code on well-formed input: no panic; the state it builds. -/
theorem ingest_wf (T : NQ.Tables) : ∀ (qs : List (Quad β)) (idx : Nat) (st : Rdfcanon.State β),
    (∀ q ∈ qs, WFQuad T q) → (∀ e ∈ st.b2q, ∀ c ∈ e.2, IsCQ T c) →
    ∃ st', Rdfcanon.ingest T qs idx st = .ok st' ∧ st'.canon = st.canon ∧
      st'.all = st.all ++ cquads T qs idx ∧
      forget st'.b2q = qs.foldl specIndex (forget st.b2q) ∧
      (∀ e ∈ st'.b2q, ∀ c ∈ e.2, IsCQ T c)
  | [], idx, st, _, hst => ⟨st, rfl, rfl, by simp [cquads], rfl, hst⟩
  | q :: rest, idx, st, hwf, hst => by
    have hq : WFQuad T q := hwf q (by simp)
    unfold Rdfcanon.ingest
    rw [ingestQuad_wf T q idx hq]
    simp only
    obtain ⟨st', h1, h2, h3, h4, h5⟩ := ingest_wf T rest (idx + 1)
      { st with b2q := Rdfcanon.indexQuad st.b2q (cquadOf T q idx), all := st.all ++ [cquadOf T q idx] }
      (fun q' hq' => hwf q' (by simp [hq']))
      (indexQuad_mem st.b2q _ (IsCQ T) (isCQ_cquadOf T q idx hq) hst)
    refine ⟨st', h1, h2, ?_, ?_, h5⟩
    · rw [h3]; simp [cquads]
    · rw [h4]; simp [indexQuad_forget]

end RdfModel.Proofs.C04
