/-
  RdfModel.Model.Rdfcanon — executable functional translation of /repo/rdfcanon
  (algorithm_canonicalization.go, algorithm_hash_first_degree_quads.go,
  algorithm_hash_related_blank_node.go, algorithm_hash_n_degree_quads.go, canonicalize.go:
  identifierIssuer, canonicalize_config.go: limits), as repaired by the fixes D8 (related-hash
  input), D9 (issuer-local counter of temporary issuers) and D10 (canonical literal escapes, in
  encoding/nquads, reached through `NQ.writeLiteral` and the regenerated tables).

  Conventions
  * Go maps are association lists.  `blankNodeToQuads` is *iterated* by Go (`for n := range …`,
    step 3): the iteration order is the explicit parameter `ord` applied to the key list (keys in
    first-insertion order).  All other maps are only looked up or have their keys sorted.
  * `slices.SortFunc` is modelled by the stable merge sort.  Go's pdqsort is stable up to 12
    elements (insertion sort) and unspecified among equal keys beyond; equal keys occur only for
    duplicate input quads (final sort) and for tied N-degree hashes (step 5.3), where the relative
    order of tied entries already depends on `ord`.
  * `context.Context` cancellation is outside the model (never cancelled).
  * `maxRecursionDepth` is fuel (`depth + 1` nested calls are allowed: Go tests `< 0`),
    `maxPermutations` a per-group counter; exceeding them yields `.limit` exactly where Go returns
    `ErrMaxRecursionDepthReached` / `ErrMaxIterationsReached`.
  * A literal in subject/graph position or a non-IRI predicate makes Go `panic`: `.panic`.
  * The canonical issuer names identifiers through `blanknodes.NewInt64StringProvider("c14n%d")`
    (`Int64SP`); temporary issuers have no provider and issue `prefix + len(issuedOrder)`.
    A custom `SetBlankNodeStringProvider` is outside the model.
-/
import RdfModel.Model.NQuads
import RdfModel.Model.StrOrd
namespace RdfModel.Rdfcanon
open RdfModel

variable {β : Type} [DecidableEq β]

/-! ## Outcomes -/

inductive Limit where
  | iterations   -- ErrMaxIterationsReached
  | depth        -- ErrMaxRecursionDepthReached
  deriving Repr, DecidableEq

inductive Res (α : Type) where
  | ok (a : α)
  | limit (l : Limit)
  | panic
  deriving Repr

/-- `canonicalize_config.go: newCanonicalizer` -/
structure Limits where
  maxPermutations : Nat
  maxRecursionDepth : Nat
  deriving Repr, DecidableEq

def defaultLimits : Limits := ⟨4096, 512⟩

/-! ## canonicalize_config.go: `CanonicalizeConfig.apply` folded over the option list of `Canonicalize` -/

/-- One `CanonicalizeOption` value: which fields it sets (`SetHashFunc`, `SetBlankNodeStringProvider`,
    `SetBuildCanonicalQuad`). Hash functions and providers are named by numbers. -/
structure CanonOpt where
  hash : Option Nat
  prov : Option Nat
  build : Option Bool
  deriving Repr, DecidableEq

/-- `apply`: a field is overwritten only when the option sets it (`!= nil`). -/
def CanonOpt.apply (o d : CanonOpt) : CanonOpt :=
  { hash := match o.hash with | some h => some h | none => d.hash
    prov := match o.prov with | some p => some p | none => d.prov
    build := match o.build with | some b => some b | none => d.build }

/-- `Canonicalize(ctx, input, options...)`: `c := CanonicalizeConfig{}; for opt { opt.apply(&c) }`. -/
def compileOpts (opts : List CanonOpt) : CanonOpt := opts.foldl (fun d o => o.apply d) ⟨none, none, none⟩

/-- `newCanonicalizer`: the effective hash (`none` = the default `sha256.New`), blank node string provider
    (`none` = the default `c14n%d` int64 provider) and build-canonical-quad flag (default off). -/
def effectiveHash (opts : List CanonOpt) : Option Nat := (compileOpts opts).hash
def effectiveProv (opts : List CanonOpt) : Option Nat := (compileOpts opts).prov
def effectiveBuild (opts : List CanonOpt) : Bool := (compileOpts opts).build.getD false

/-! ## canonicalize.go: identifierIssuer, and the int64 string provider behind the canonical issuer -/

/-- `blanknodes.int64StringProvider`: `next` is `value + 1`. -/
structure Int64SP (β : Type) where
  pfx : Str
  next : Nat
  known : List (β × Nat)

def Int64SP.get (sp : Int64SP β) (b : β) : Str × Int64SP β :=
  match assoc sp.known b with
  | some i => (sp.pfx ++ decimal i, sp)
  | none => (sp.pfx ++ decimal sp.next, { sp with next := sp.next + 1, known := (b, sp.next) :: sp.known })

structure Issuer (β : Type) where
  stringer : Option (Int64SP β)
  pfx : Str
  known : List (β × Str)     -- knownIdentifiers
  order : List β             -- issuedOrder

/-- `GetBlankNodeStringIfKnown` -/
def Issuer.getIfKnown (i : Issuer β) (b : β) : Option Str := assoc i.known b

/-- `GetBlankNodeString` -/
def Issuer.get (i : Issuer β) (b : β) : Str × Issuer β :=
  match i.stringer with
  | none =>
    match assoc i.known b with
    | some id => (id, i)
    | none =>
      let id := i.pfx ++ decimal i.order.length
      (id, { i with order := i.order ++ [b], known := (b, id) :: i.known })
  | some sp =>
    let r := sp.get b
    match assoc i.known b with
    | some _ => (r.1, { i with stringer := some r.2 })
    | none => (r.1, { i with stringer := some r.2, order := i.order ++ [b], known := (b, r.1) :: i.known })

/-- `Clone`: maps and slices are copied, so the clone is the value; the provider pointer is
    shared, which only the canonical issuer has and which is never cloned. -/
def Issuer.clone (i : Issuer β) : Issuer β := i

def c14nPrefix : Str := [0x63, 0x31, 0x34, 0x6e]   -- "c14n%d"
def tempPrefix : Str := [0x62]                     -- "b"
def selfLabel : Str := [0x5f, 0x3a, 0x61]          -- "_:a"
def otherLabel : Str := [0x5f, 0x3a, 0x7a]         -- "_:z"

def newCanonicalIssuer : Issuer β := ⟨some ⟨c14nPrefix, 0, []⟩, [], [], []⟩
def newTemporaryIssuer : Issuer β := ⟨none, tempPrefix, [], []⟩
/-- Go's zero value `identifierIssuer{}` (`var chosenIssuer identifierIssuer`). -/
def zeroIssuer : Issuer β := ⟨none, [], [], []⟩

/-! ## canonicalizationQuad and step 2 of algorithm_canonicalization.go -/

structure CQuad (β : Type) where
  orig : Quad β
  idx : Nat
  sEnc : Str
  sBn : Option β
  pEnc : Str
  oEnc : Str
  oBn : Option β
  gEnc : Str
  gBn : Option β

structure State (β : Type) where
  b2q : List (β × List (CQuad β))     -- blankNodeToQuads
  canon : Issuer β                    -- canonicalIssuer
  all : List (CQuad β)                -- allQuads

/-- The body of the input loop for one quad; `none` = Go panics. -/
def ingestQuad (T : NQ.Tables) (q : Quad β) (idx : Nat) : Option (CQuad β) := do
  let c : CQuad β := ⟨q, idx, [], none, [], [], none, [], none⟩
  let c ← (match q.s with
    | .bnode b => some { c with sBn := some b }
    | .iri v => some { c with sEnc := NQ.writeIRI T false v }
    | .lit .. => none)
  let c ← (match q.p with
    | .iri v => some { c with pEnc := NQ.writeIRI T false v }
    | _ => none)
  let c := (match q.o with
    | .bnode b => { c with oBn := some b }
    | .iri v => { c with oEnc := NQ.writeIRI T false v }
    | .lit l d t => { c with oEnc := NQ.writeLiteral T false l d t })
  match q.g with
  | none => some c
  | some (.bnode b) => some { c with gBn := some b }
  | some (.iri v) => some { c with gEnc := NQ.writeIRI T false v }
  | some (.lit ..) => none

/-- The `append`s to `blankNodeToQuads` for one quad: subject, object, graph name. -/
def indexQuad (m : List (β × List (CQuad β))) (c : CQuad β) : List (β × List (CQuad β)) :=
  let m := match c.sBn with | some b => addToMap m b c | none => m
  let m := match c.oBn with | some b => addToMap m b c | none => m
  match c.gBn with | some b => addToMap m b c | none => m

def ingest (T : NQ.Tables) : List (Quad β) → Nat → State β → Res (State β)
  | [], _, st => .ok st
  | q :: rest, idx, st =>
    match ingestQuad T q idx with
    | none => .panic
    | some c => ingest T rest (idx + 1) { st with b2q := indexQuad st.b2q c, all := st.all ++ [c] }

/-! ## algorithm_hash_first_degree_quads.go -/

def sp : Str := [0x20]
def eol : Str := [0x20, 0x2e, 0x0a]

def firstDegreeLine (input : β) (q : CQuad β) : Str :=
  (if !q.sEnc.isEmpty then q.sEnc else if q.sBn = some input then selfLabel else otherLabel) ++
  sp ++ q.pEnc ++ sp ++
  (if !q.oEnc.isEmpty then q.oEnc else if q.oBn = some input then selfLabel else otherLabel) ++
  (if !q.gEnc.isEmpty then sp ++ q.gEnc
   else if q.gBn = none then []
   else if q.gBn = some input then sp ++ selfLabel else sp ++ otherLabel) ++ eol

def hashFirstDegree (H : Str → Str) (b2q : List (β × List (CQuad β))) (input : β) : Str :=
  H (sortStr ((getList b2q input).map (firstDegreeLine input))).flatten

/-! ## algorithm_hash_related_blank_node.go (after D8) -/

def hashRelated (H : Str → Str) (st : State β) (issuer : Issuer β) (related : β) (q : CQuad β)
    (position : Str) : Str :=
  let input := position
  let input := if position ≠ [0x67] then input ++ q.pEnc else input
  let input :=
    match st.canon.getIfKnown related with
    | some id => input ++ [0x5f, 0x3a] ++ id
    | none =>
      match issuer.getIfKnown related with
      | some id => input ++ [0x5f, 0x3a] ++ id
      | none => input ++ hashFirstDegree H st.b2q related
  H input

/-! ## github.com/cespare/permute: non-recursive Heap's algorithm, in place -/

def swapAt (l : List β) (i j : Nat) : List β :=
  match l[i]?, l[j]? with
  | some a, some b => (l.set i b).set j a
  | _, _ => l

/-- The `for` loop of `Permute()` after the first call: `fuel` bounds the scan over `i`. Returns the
    next arrangement and counter state, or `none` when finished. -/
def heapNext : Nat → List β → List Nat → Nat → Option (List β × List Nat)
  | 0, _, _, _ => none
  | fuel + 1, arr, c, i =>
    if i ≥ arr.length then none
    else
      let ci := c.getD i 0
      if ci < i then
        let k := if i % 2 = 0 then 0 else ci
        some (swapAt arr k i, c.set i (ci + 1))      -- p.i = 0 for the next call
      else heapNext fuel arr (c.set i 0) (i + 1)

/-- The first `n` arrangements produced by successive `Permute()` calls (the first is the slice as
    it stands). -/
def heapPermsFrom : Nat → List β → List Nat → List (List β)
  | 0, _, _ => []
  | n + 1, arr, c =>
    arr :: (match heapNext (arr.length + 1) arr c 0 with
      | none => []
      | some (arr', c') => heapPermsFrom n arr' c')

def heapPerms (n : Nat) (l : List β) : List (List β) :=
  heapPermsFrom n l (List.replicate l.length 0)

/-! ## algorithm_hash_n_degree_quads.go -/

structure NDResult (β : Type) where
  hash : Str
  issuer : Issuer β

/-- `len(chosenPath) > 0 && len(path) >= len(chosenPath) && strings.Compare(path, chosenPath) > 0` -/
def prune (chosen path : Str) : Bool :=
  decide (chosen.length > 0) && decide (path.length ≥ chosen.length) && strLt chosen path

/-- The three `if quad.XBlankNodeIdentifier != nil && != a.identifier { eachComponent(…) }`. -/
def relatedOf (identifier : β) (q : CQuad β) : List (β × Str) :=
  let f := fun (bn : Option β) (pos : Str) =>
    match bn with
    | some b => if b ≠ identifier then [(b, pos)] else []
    | none => []
  f q.sBn [0x73] ++ f q.oBn [0x6f] ++ f q.gBn [0x67]

def hashToRelated (H : Str → Str) (st : State β) (issuer : Issuer β) (identifier : β) :
    List (Str × List β) :=
  (getList st.b2q identifier).foldl (fun h q =>
    (relatedOf identifier q).foldl (fun h cp =>
      addToMap h (hashRelated H st issuer cp.1 q cp.2) cp.1) h) []

/-- `for _, related := range p` (5.4.4). `none` = `goto PERMUTATION_NEXT`. -/
def pathLoop (canon : Issuer β) (chosen : Str) :
    List β → Str × Issuer β × List β → Option (Str × Issuer β × List β)
  | [], st => some st
  | related :: rest, (path, ic, recl) =>
    let st : Str × Issuer β × List β :=
      match canon.getIfKnown related with
      | some id => (path ++ [0x5f, 0x3a] ++ id, ic, recl)
      | none =>
        let recl := if (ic.getIfKnown related).isNone then recl ++ [related] else recl
        let r := ic.get related
        (path ++ [0x5f, 0x3a] ++ r.1, r.2, recl)
    if prune chosen st.1 then none else pathLoop canon chosen rest st

inductive Try (α : Type) where
  | err (l : Limit)
  | skip
  | ok (a : α)

/-- `for _, related := range recursionList` (5.4.5). -/
def recLoop (rec : β → Issuer β → Res (NDResult β)) (chosen : Str) :
    List β → Str → Issuer β → Try (Str × Issuer β)
  | [], path, ic => .ok (path, ic)
  | related :: rest, path, ic =>
    match rec related ic with
    | .limit l => .err l
    | .panic => .err .depth     -- unreachable: the recursive call never panics
    | .ok result =>
      let path := path ++ [0x5f, 0x3a] ++ (ic.get related).1
      let path := path ++ [0x3c] ++ result.hash ++ [0x3e]
      let ic := result.issuer
      if prune chosen path then .skip else recLoop rec chosen rest path ic

/-- `for blankNodeListPermutations.Permute() { … }`; `budget` = `maxPermutations` minus the
    permutations already started. -/
def permLoop (rec : β → Issuer β → Res (NDResult β)) (canon issuer : Issuer β) :
    List (List β) → Nat → Str → Issuer β → Res (Str × Issuer β)
  | [], _, chosenPath, chosenIssuer => .ok (chosenPath, chosenIssuer)
  | _ :: _, 0, _, _ => .limit .iterations
  | p :: ps, budget + 1, chosenPath, chosenIssuer =>
    match pathLoop canon chosenPath p ([], issuer.clone, []) with
    | none => permLoop rec canon issuer ps budget chosenPath chosenIssuer
    | some (path, ic, recl) =>
      match recLoop rec chosenPath recl path ic with
      | .err l => .limit l
      | .skip => permLoop rec canon issuer ps budget chosenPath chosenIssuer
      | .ok (path, ic) =>
        if chosenPath.length = 0 || strLt path chosenPath
        then permLoop rec canon issuer ps budget path ic
        else permLoop rec canon issuer ps budget chosenPath chosenIssuer

/-- `for _, relatedHash := range orderedRelatedHashes`. -/
def groupLoop (rec : β → Issuer β → Res (NDResult β)) (canon : Issuer β) (maxPerm : Nat) :
    List (Str × List β) → Str → Issuer β → Res (Str × Issuer β)
  | [], data, issuer => .ok (data, issuer)
  | (relatedHash, blankNodeList) :: rest, data, issuer =>
    match permLoop rec canon issuer (heapPerms (maxPerm + 1) blankNodeList) maxPerm [] zeroIssuer with
    | .limit l => .limit l
    | .panic => .panic
    | .ok (chosenPath, chosenIssuer) =>
      groupLoop rec canon maxPerm rest (data ++ relatedHash ++ chosenPath) chosenIssuer

/-- `algorithmHashNDegreeQuads.Call`; `fuel = maxRecursionDepth + 1` at the outermost call. -/
def hashNDegree (H : Str → Str) (st : State β) (maxPerm : Nat) :
    Nat → β → Issuer β → Res (NDResult β)
  | 0, _, _ => .limit .depth
  | fuel + 1, identifier, issuer =>
    let h := hashToRelated H st issuer identifier
    match groupLoop (hashNDegree H st maxPerm fuel) st.canon maxPerm (sortByKey h) [] issuer with
    | .limit l => .limit l
    | .panic => .panic
    | .ok (data, issuer) => .ok ⟨H data, issuer⟩

/-! ## algorithm_canonicalization.go steps 3–7 -/

/-- Step 5.2 for one identifier list. -/
def hashPathList (H : Str → Str) (st : State β) (lim : Limits) :
    List β → Res (List (NDResult β))
  | [] => .ok []
  | n :: rest =>
    match st.canon.getIfKnown n with
    | some _ => hashPathList H st lim rest
    | none =>
      let temporary := (newTemporaryIssuer.get n).2
      match hashNDegree H st lim.maxPermutations (lim.maxRecursionDepth + 1) n temporary with
      | .limit l => .limit l
      | .panic => .panic
      | .ok r =>
        match hashPathList H st lim rest with
        | .ok rs => .ok (r :: rs)
        | e => e

def issueAll (canon : Issuer β) (existing : List β) : Issuer β :=
  existing.foldl (fun c e => (c.get e).2) canon

/-- Step 5 over the remaining hashes (sorted). -/
def step5 (H : Str → Str) (lim : Limits) : List (Str × List β) → State β → Res (State β)
  | [], st => .ok st
  | (_, identifierList) :: rest, st =>
    match hashPathList H st lim identifierList with
    | .limit l => .limit l
    | .panic => .panic
    | .ok hpl =>
      let sorted := hpl.mergeSort (fun a b => strLe a.hash b.hash)
      let canon := sorted.foldl (fun c r => issueAll c r.issuer.order) st.canon
      step5 H lim rest { st with canon := canon }

/-- One entry of `Canonicalization.nquads`. -/
structure Line where
  idx : Nat
  encoded : Str
  deriving Repr, DecidableEq

/-- Step 7, one quad: returns the line and the issuer (each `GetBlankNodeString` goes through
    the issuer). -/
def encodeLine (canon : Issuer β) (q : CQuad β) : Line × Issuer β :=
  let bn := fun (c : Issuer β) (b : Option β) =>
    match b with
    | some b => let r := c.get b; ([0x5f, 0x3a] ++ r.1, r.2)
    | none => ([0x5f, 0x3a], c)   -- unreachable: an empty encoding comes with an identifier
  let (s, canon) := if !q.sEnc.isEmpty then (q.sEnc, canon) else bn canon q.sBn
  let (o, canon) := if !q.oEnc.isEmpty then (q.oEnc, canon) else bn canon q.oBn
  let (g, canon) :=
    if !q.gEnc.isEmpty then (sp ++ q.gEnc, canon)
    else match q.gBn with
      | some b => let r := canon.get b; (sp ++ [0x5f, 0x3a] ++ r.1, r.2)
      | none => ([], canon)
  (⟨q.idx, s ++ sp ++ q.pEnc ++ sp ++ o ++ g ++ eol⟩, canon)

def encodeAll : List (CQuad β) → Issuer β → List Line × Issuer β
  | [], canon => ([], canon)
  | q :: rest, canon =>
    let r := encodeLine canon q
    let rs := encodeAll rest r.2
    (r.1 :: rs.1, rs.2)

/-- `*Canonicalization`: the sorted lines and the provider behind `GetBlankNodeIdentifier`. -/
structure Out (β : Type) where
  lines : List Line
  canon : Issuer β

/-- `Canonicalization.WriteTo` -/
def Out.bytes (o : Out β) : Str := (o.lines.map (·.encoded)).flatten

/-- `Canonicalization.GetBlankNodeIdentifier` for a blank node of the input. -/
def Out.identifier (o : Out β) (b : β) : Str := (o.canon.get b).1

/-- The issued identifiers map of the canonical issuer, in issue order. -/
def Out.issued (o : Out β) : List (β × Str) :=
  o.canon.order.map (fun b => (b, (assoc o.canon.known b).getD []))

/-- `Canonicalize` with the default configuration and hash `H`. -/
def canon (T : NQ.Tables) (H : Str → Str) (lim : Limits) (ord : List β → List β)
    (qs : List (Quad β)) : Res (Out β) :=
  match ingest T qs 0 ⟨[], newCanonicalIssuer, []⟩ with
  | .limit l => .limit l
  | .panic => .panic
  | .ok st =>
    -- step 3
    let h2b : List (Str × List β) :=
      (ord (st.b2q.map (·.1))).foldl (fun m n => addToMap m (hashFirstDegree H st.b2q n) n) []
    -- step 4
    let sorted := sortByKey h2b
    let canon := sorted.foldl (fun c e => if e.2.length > 1 then c else
        match e.2 with
        | n :: _ => (c.get n).2
        | [] => c) st.canon
    let remaining := sorted.filter (fun e => e.2.length > 1)
    -- step 5
    match step5 H lim remaining { st with canon := canon } with
    | .limit l => .limit l
    | .panic => .panic
    | .ok st =>
      -- step 7
      let r := encodeAll st.all st.canon
      .ok ⟨r.1.mergeSort (fun a b => strLe a.encoded b.encoded), r.2⟩

end RdfModel.Rdfcanon
