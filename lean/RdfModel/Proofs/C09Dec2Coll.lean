/-
  Part C09D2: parseType="Collection" with item nodes that generate no blank node (Props/C09Dec2Defs.lean).
-/
import RdfModel.Proofs.C09Dec2Attrs
namespace RdfModel.RXD
open RdfModel RdfModel.Desc RdfModel.RX RdfModel.C09Dec

variable {rs : Str → Str → Str} {render : List Tok → Option Str}

/-! ### well-formedness of item nodes does not look at the blank node counter -/

theorem wfId_next {env : Env} {id : PId} {S S' : RX.St} (h : wfId rs env id S = some S') (k : Nat) :
    wfId rs env id { S with next := k } = some { S' with next := k } := by
  cases id with
  | none => simp only [wfId, Option.some.injEq] at h ⊢; subst h; rfl
  | some p =>
    obtain ⟨iri, v⟩ := p
    simp only [wfId] at h ⊢
    split at h
    · rename_i hc
      simp only [Option.some.injEq] at h
      subst h
      rw [if_pos hc]
    · simp at h

theorem wfProp_next {env : Env} {li li1 : Nat} {S S1 : RX.St} {p : PProp} (hl : leafProp p = true)
    (h : wfProp rs env li S p = some (li1, S1)) (k : Nat) :
    wfProp rs env li { S with next := k } p = some (li1, { S1 with next := k }) ∧ S1.next = S.next := by
  cases p with
  | lit sc nm id lex lang =>
    simp only [wfProp] at h ⊢
    split at h
    · rename_i hc
      obtain ⟨hid, rfl⟩ := map_pair_some h
      rw [if_pos hc, wfId_next hid k]
      exact ⟨rfl, (wfId_facts hid).1⟩
    · simp at h
  | typed sc nm id lex dt ref =>
    simp only [wfProp] at h ⊢
    split at h
    · rename_i hc
      obtain ⟨hid, rfl⟩ := map_pair_some h
      rw [if_pos hc, wfId_next hid k]
      exact ⟨rfl, (wfId_facts hid).1⟩
    · simp at h
  | empty sc nm id lang =>
    simp only [wfProp] at h ⊢
    split at h
    · rename_i hc
      obtain ⟨hid, rfl⟩ := map_pair_some h
      rw [if_pos hc, wfId_next hid k]
      exact ⟨rfl, (wfId_facts hid).1⟩
    · simp at h
  | res sc nm id iri ref pattrs =>
    simp only [wfProp] at h ⊢
    split at h
    · rename_i hc
      obtain ⟨hid, rfl⟩ := map_pair_some h
      rw [if_pos hc, wfId_next hid k]
      exact ⟨rfl, (wfId_facts hid).1⟩
    · simp at h
  | bref sc nm id l pattrs =>
    simp only [wfProp] at h ⊢
    split at h
    · rename_i hc
      obtain ⟨hid, rfl⟩ := map_pair_some h
      rw [if_pos hc, wfId_next hid k]
      exact ⟨rfl, (wfId_facts hid).1⟩
    · simp at h
  | ptLit sc nm id pt content =>
    simp only [wfProp] at h ⊢
    split at h
    · rename_i hc
      obtain ⟨hid, rfl⟩ := map_pair_some h
      rw [if_pos hc, wfId_next hid k]
      exact ⟨rfl, (wfId_facts hid).1⟩
    · simp at h
  | banon _ _ _ _ _ _ => simp [leafProp] at hl
  | node _ _ _ _ => simp [leafProp] at hl
  | ptRes _ _ _ _ _ => simp [leafProp] at hl
  | ptColl _ _ _ _ _ => simp [leafProp] at hl

theorem wfProps_next {env : Env} (ps : List PProp) (hl : ps.all leafProp = true) {li : Nat} {S S1 : RX.St}
    (h : wfProps rs env li S ps = some S1) (k : Nat) :
    wfProps rs env li { S with next := k } ps = some { S1 with next := k } ∧ S1.next = S.next := by
  induction ps generalizing li S with
  | nil => simp only [wfProps, Option.some.injEq] at h ⊢; subst h; exact ⟨rfl, rfl⟩
  | cons p ps ih =>
    simp only [List.all_cons, Bool.and_eq_true] at hl
    simp only [wfProps] at h ⊢
    split at h
    · simp at h
    · rename_i li' S' hp
      obtain ⟨h1, h2⟩ := wfProp_next hl.1 hp k
      obtain ⟨h3, h4⟩ := ih hl.2 h
      rw [h1]
      exact ⟨h3, by rw [h4, h2]⟩

theorem wfNode_next {env : Env} {n : PNode} (hi : itemNode n = true) {S S1 : RX.St} (h : wfNode rs env S n = some S1)
    (k : Nat) : wfNode rs env { S with next := k } n = some { S1 with next := k } ∧ S1.next = S.next := by
  cases n with
  | mk sc subj typ pattrs props =>
    simp only [itemNode, Bool.and_eq_true] at hi
    simp only [wfNode] at h ⊢
    split at h
    · rename_i hc
      rw [if_pos hc]
      cases subj with
      | about iri ref =>
        simp only [wfSubj] at h ⊢
        by_cases hr : rs (env.push rs sc.base sc.lang).base ref = iri
        · simp only [hr, if_true] at h ⊢
          exact wfProps_next props hi.2 h k
        · simp [hr] at h
      | nodeID l =>
        simp only [wfSubj] at h ⊢
        by_cases hr : isNCName l = true
        · simp only [hr, if_true] at h ⊢
          exact wfProps_next props hi.2 h k
        · simp [hr] at h
      | id _ _ => simp [itemSubj] at hi
      | anon _ => simp [itemSubj] at hi
    · simp at h

theorem leafSubj_of_item {subj : Subj} (h : itemSubj subj = true) : leafSubj subj = true := by
  cases subj <;> simp_all [itemSubj, leafSubj]

/-! ### reification of the statement before the last one -/

/-- the reification statements alone -/
def reifyL (r : Option Str) (t : T) : List T :=
  match r with
  | some r => reify r t
  | none => []

theorem withReify_eq (r : Option Str) (t : T) : withReify r t = t :: reifyL r t := by
  cases r <;> rfl

theorem optReify_sim1 (hf : EmptyRefNoFrag rs) {env : Env} {ctx : Ctx} (h : CtxRel env ctx) {id : PId} {S S' : RX.St}
    (hid : wfId rs env id S = some S') (t0 t : T) (st : St) (out : List T) (ho : st.out = t0 :: t :: out) :
    ∃ st', optReify (mkP rs render) ctx (PId.val id) 1 st = .ok () st' ∧
      st'.out = (reifyL (PId.iri id) t).reverse ++ st.out ∧ st'.next = st.next := by
  cases id with
  | none => exact ⟨st, rfl, by simp [reifyL, PId.iri], rfl⟩
  | some p =>
    obtain ⟨iri, v⟩ := p
    have hiri := ((wfId_facts hid).2 iri v rfl).2
    refine ⟨{ st with out := ⟨.iri (rs env.base (cHash :: v)), rdfObject, t.o⟩ :: ⟨.iri (rs env.base (cHash :: v)), rdfPredicate, .iri t.p⟩ ::
        ⟨.iri (rs env.base (cHash :: v)), rdfSubject, t.s⟩ :: ⟨.iri (rs env.base (cHash :: v)), rdfType, .iri rdfStatement⟩ :: st.out }, ?_, ?_, rfl⟩
    · simp only [optReify, PId.val, Option.map_some, addReify, ho, List.getElem?_cons_succ, List.getElem?_cons_zero,
        resolveIRI_sim hf h]
    · simp [reifyL, PId.iri, reify, hiri]

/-! ### entering the collection -/

theorem Collection_ne_Literal : n_Collection ≠ n_Literal := by decide
theorem Collection_ne_Resource : n_Collection ≠ n_Resource := by decide

theorem props_start_coll (hf : EmptyRefNoFrag rs) (i : AttrInfo) (hp : i.props = []) (ha : i.about = none)
    (hnn : i.nodeID = none) (hres : i.resource = none) (hdt : i.datatype = none) (hpt : i.parseType = some n_Collection)
    {env : Env} {ctx : Ctx} (hrel : CtxRel env ctx) (nm : PName) (li : Nat) (hname : wfName li nm = true)
    (s : Term BN) (ret : Ret) (below : List Frame) (ctx0 : Ctx) (st : St)
    (hid : ∀ v, i.id = some v → isNCName v = true) :
    ∃ nctx st1, step (mkP rs render) ctx0 (.props ctx s li ret :: below) st (.start nm.ns nm.name (stdAttrs i)) =
        .cont (.coll nctx s nm.pred i.id none :: .props ctx s (nm.nextLi li) ret :: below) st1 ∧
      CtxRel (env.push rs i.base i.lang) nctx ∧ st1.out = st.out ∧ st1.next = st.next := by
  obtain ⟨c', st1, hpca, hrel', hn, ho, _⟩ := pca_std (render := render) hf i (by simp [hp]) hrel st
  obtain ⟨_, hpred, hli⟩ := wfName_facts li nm hname
  refine ⟨c', st1, ?_, hrel', ho, hn⟩
  have e1 : n_parseType ≠ n_ID := by decide
  have hlast : lastID (rdfPart i) none = i.id := by
    simp only [rdfPart, ha, hnn, hres, hdt, hpt, optAttr, List.append_nil]
    cases i.id <;> simp [optAttr, lastID, e1]
  simp only [step, propNameForbidden_of_wfName hname, peltEntry, peltAttrLoop_std i hp ha hid, hpt, hpca,
    hres, Option.isSome_none, Bool.false_eq_true, and_false, if_false, if_true, hpred, hli, Collection_ne_Literal,
    Collection_ne_Resource, or_true, hlast]

/-! ### one item, the loop, the whole element -/

/-- an item node inside the collection: from the `coll` frame back to it, the cell statements emitted -/
theorem item_sim (hf : EmptyRefNoFrag rs) (hr : ∀ c, render [.chars c] = some c) (n : PNode) (hi : itemNode n = true)
    {env : Env} {ctx : Ctx} (hrel : CtxRel env ctx) (S S1 : RX.St) (hwf : wfNode rs env S n = some S1)
    (s : Term BN) (pred : Str) (id : PId) {Sa Sb : RX.St} (hid : wfId rs env id Sa = some Sb) (last : Option (Term BN))
    (B : List Frame) (ctx0 : Ctx) (st : St) (rest : List Tok) (fin : Fin) :
    ∃ (st1 : St) (tsn : List T), run (mkP rs render) ctx0 (.coll ctx s pred (PId.val id) last :: B) st (tokens (renderNode n) ++ rest) fin =
        run (mkP rs render) ctx0 (.coll ctx s pred (PId.val id) (some (.bnode (.gen st.next))) :: B) st1 rest fin ∧
      tsn.Perm (flatNode n) ∧
      st1.out = (match last with
        | none => (reifyL (PId.iri id) ⟨s, pred, .bnode (.gen st.next)⟩).reverse ++
            [⟨.bnode (.gen st.next), RX.rdfFirst, n.subj⟩, ⟨s, pred, .bnode (.gen st.next)⟩]
        | some l => [⟨.bnode (.gen st.next), RX.rdfFirst, n.subj⟩, ⟨l, RX.rdfRest, .bnode (.gen st.next)⟩]) ++
        tsn.reverse ++ st.out ∧
      st1.next = st.next + 1 := by
  obtain ⟨hwf', _⟩ := wfNode_next hi hwf st.next
  cases n with
  | mk sc subj typ pattrs props =>
    have hleaf := hi
    simp only [itemNode, Bool.and_eq_true] at hleaf
    simp only [wfNode] at hwf'
    split at hwf'
    · rename_i hc
      simp only [Bool.and_eq_true] at hc
      split at hwf'
      · simp at hwf'
      · rename_i S0 hsub
        obtain ⟨kctx, st1, ts0, h1, hrel', ho1, hp0, hn1⟩ := nodeEntry_simM (render := render) hf sc subj typ pattrs
          (leafSubj_of_item hleaf.1.1) hleaf.1.2 hrel { S with next := st.next } S0 hc.1 hc.2 hsub st rfl
        obtain ⟨li1, st2, h2, ho2, hn2⟩ := props_sim (render := render) hf hr props hleaf.2 hrel' subj.term 0 S0
          { S1 with next := st.next } hwf' (.node subj.term) (.coll ctx s pred (PId.val id) last :: B) ctx0 st1 hn1
          (.end_ (typNs typ) (typName typ) :: rest) fin
        have hnx : st2.next = st.next := hn2
        have hout2 : st2.out = (ts0 ++ flatProps subj.term props).reverse ++ st.out := by
          rw [ho2, ho1]; simp
        have hpn : (ts0 ++ flatProps subj.term props).Perm (flatNode (.mk sc subj typ pattrs props)) := by
          simp only [flatNode]; exact List.Perm.append_right _ hp0
        cases last with
        | none =>
          obtain ⟨st3, h3, ho3, hn3⟩ := optReify_sim1 (render := render) hf hrel hid
            ⟨.bnode (.gen st2.next), RX.rdfFirst, subj.term⟩ ⟨s, pred, .bnode (.gen st2.next)⟩
            ((st2.fresh.2.emit ⟨s, pred, st2.fresh.1⟩).emit ⟨st2.fresh.1, RX.rdfFirst, subj.term⟩) st2.out rfl
          have h3' := h3
          simp only [St.fresh, hnx] at h3'
          refine ⟨st3, ts0 ++ flatProps subj.term props, ?_, hpn, ?_, ?_⟩
          · simp only [renderNode, tokens, List.cons_append, List.append_assoc, List.nil_append]
            rw [run_step (stk' := .props kctx subj.term 0 (.node subj.term) :: .coll ctx s pred (PId.val id) none :: B) (st' := st1)
              (by simp [step, nodeNameForbidden_of_wfTyp hc.1, callNode, h1]), h2,
              run_step (stk' := .coll ctx s pred (PId.val id) (some (.bnode (.gen st.next))) :: B) (st' := st3)
                (by simp [step, propsReturn, nodeReturn, St.fresh, hnx, h3'])]
          · rw [ho3]; simp [St.emit, St.fresh, hout2, hnx, PNode.subj]
          · rw [hn3]; simp [St.emit, St.fresh, hnx]
        | some l =>
          refine ⟨(st2.fresh.2.emit ⟨l, RX.rdfRest, st2.fresh.1⟩).emit ⟨st2.fresh.1, RX.rdfFirst, subj.term⟩,
            ts0 ++ flatProps subj.term props, ?_, hpn, ?_, ?_⟩
          · simp only [renderNode, tokens, List.cons_append, List.append_assoc, List.nil_append]
            rw [run_step (stk' := .props kctx subj.term 0 (.node subj.term) :: .coll ctx s pred (PId.val id) (some l) :: B) (st' := st1)
              (by simp [step, nodeNameForbidden_of_wfTyp hc.1, callNode, h1]), h2,
              run_step (stk' := .coll ctx s pred (PId.val id) (some (.bnode (.gen st.next))) :: B)
                (st' := (st2.fresh.2.emit ⟨l, RX.rdfRest, st2.fresh.1⟩).emit ⟨st2.fresh.1, RX.rdfFirst, subj.term⟩)
                (by simp [step, propsReturn, nodeReturn, St.fresh, hnx])]
          · simp [St.emit, St.fresh, hout2, hnx, PNode.subj]
          · simp [St.emit, St.fresh, hnx]
    · simp at hwf'

/-- permutations of appended lists by counting -/
theorem perm_of_count {l1 l2 : List T} (h : ∀ x, l1.count x = l2.count x) : l1.Perm l2 := List.perm_iff_count.mpr h

theorem coll_loop (hf : EmptyRefNoFrag rs) (hr : ∀ c, render [.chars c] = some c) (ens ename : Str) :
    ∀ (items : List PNode) (cells : List Nat), items.all itemNode = true → ∀ {env : Env} {ctx : Ctx}, CtxRel env ctx →
    ∀ (S S1 : RX.St), wfColl rs env S cells items = some S1 →
    ∀ (s : Term BN) (pred : Str) (id : PId) {Sa Sb : RX.St}, wfId rs env id Sa = some Sb →
    ∀ (last : Option (Term BN)) (B : List Frame) (ctx0 : Ctx) (st : St), st.next = S.next → ∀ (rest : List Tok) (fin : Fin),
    ∃ (st1 : St) (ts : List T), run (mkP rs render) ctx0 (.coll ctx s pred (PId.val id) last :: B) st
        (tokensList (renderNodes items) ++ .end_ ens ename :: rest) fin = run (mkP rs render) ctx0 B st1 rest fin ∧
      st1.out = ts.reverse ++ st.out ∧
      ts.Perm (match last with
        | none => reifyHead (PId.iri id) (flatColl s pred cells items)
        | some l => flatColl l RX.rdfRest cells items) ∧
      st1.next = S1.next
  | [], cells, _, env, ctx, hrel, S, S1, hwf, s, pred, id, Sa, Sb, hid, last, B, ctx0, st, hn, rest, fin => by
    have hS : S1 = S := by
      cases cells with
      | nil => simp only [wfColl, Option.some.injEq] at hwf; exact hwf.symm
      | cons _ _ => simp [wfColl] at hwf
    subst hS
    cases last with
    | none =>
      obtain ⟨st1, h1, h2, h3⟩ := optReify_sim (render := render) hf hrel hid ⟨s, pred, .iri RX.rdfNil⟩
        (st.emit ⟨s, pred, .iri RX.rdfNil⟩) st.out rfl
      refine ⟨st1, withReify (PId.iri id) ⟨s, pred, .iri RX.rdfNil⟩, ?_, h2, ?_, by rw [h3]; exact hn⟩
      · simp only [renderNodes, tokensList, List.nil_append]
        rw [run_step (stk' := B) (st' := st1) (by simp [step, h1])]
      · cases cells <;> simp [flatColl, reifyHead]
    | some l =>
      refine ⟨st.emit ⟨l, RX.rdfRest, .iri RX.rdfNil⟩, [⟨l, RX.rdfRest, .iri RX.rdfNil⟩], ?_, by simp [St.emit], ?_, hn⟩
      · simp only [renderNodes, tokensList, List.nil_append]
        rw [run_step (stk' := B) (st' := st.emit ⟨l, RX.rdfRest, .iri RX.rdfNil⟩) (by simp [step])]
      · cases cells <;> simp [flatColl]
  | n :: ns, cells, hitems, env, ctx, hrel, S, S1, hwf, s, pred, id, Sa, Sb, hid, last, B, ctx0, st, hn, rest, fin => by
    simp only [List.all_cons, Bool.and_eq_true] at hitems
    cases cells with
    | nil => simp [wfColl] at hwf
    | cons c cs =>
      simp only [wfColl] at hwf
      split at hwf
      · rename_i hc
        split at hwf
        · simp at hwf
        · rename_i St1 hnode
          have hnx := (wfNode_next hitems.1 hnode 0).2
          obtain ⟨st1, tsn, h1, hpn, ho1, hn1⟩ := item_sim (render := render) hf hr n hitems.1 hrel _ St1 hnode s pred id hid last B ctx0 st
            (tokensList (renderNodes ns) ++ .end_ ens ename :: rest) fin
          obtain ⟨st2, ts2, h2, ho2, hp2, hn2⟩ := coll_loop hf hr ens ename ns cs hitems.2 hrel St1 S1 hwf s pred id hid
            (some (.bnode (.gen st.next))) B ctx0 st1 (by rw [hn1, hnx]; simp [hn]) rest fin
          have hcell : c = st.next := by rw [hc, hn]
          have hcnt := fun x => List.perm_iff_count.mp hp2 x
          have hcntn := fun x => List.perm_iff_count.mp hpn x
          cases last with
          | none =>
            refine ⟨st2, tsn ++ ([⟨s, pred, .bnode (.gen st.next)⟩] ++ ([⟨.bnode (.gen st.next), RX.rdfFirst, n.subj⟩] ++
              (reifyL (PId.iri id) ⟨s, pred, .bnode (.gen st.next)⟩ ++ ts2))), ?_, ?_, ?_, hn2⟩
            · simp only [renderNodes, tokensList, List.append_assoc]
              rw [h1, h2]
            · rw [ho2, ho1]; simp
            · simp only [flatColl, hcell, List.cons_append, reifyHead, withReify_eq]
              apply perm_of_count
              intro x
              have := hcnt x
              have hn' := hcntn x
              simp only [List.count_append, List.count_cons, List.count_nil] at this ⊢
              omega
          | some l =>
            refine ⟨st2, tsn ++ ([⟨l, RX.rdfRest, .bnode (.gen st.next)⟩] ++ ([⟨.bnode (.gen st.next), RX.rdfFirst, n.subj⟩] ++ ts2)),
              ?_, ?_, ?_, hn2⟩
            · simp only [renderNodes, tokensList, List.append_assoc]
              rw [h1, h2]
            · rw [ho2, ho1]; simp
            · simp only [flatColl, hcell, List.cons_append]
              apply perm_of_count
              intro x
              have := hcnt x
              have hn' := hcntn x
              simp only [List.count_append, List.count_cons, List.count_nil] at this ⊢
              omega
      · simp at hwf

/-- the whole parseType="Collection" property element -/
theorem coll_elt_sim (hf : EmptyRefNoFrag rs) (hr : ∀ c, render [.chars c] = some c) (sc : Scope) (nm : PName) (id : PId)
    (cells : List Nat) (items : List PNode) (hitems : items.all itemNode = true) {env : Env} {ctx : Ctx} (hrel : CtxRel env ctx)
    (s : Term BN) (li li1 : Nat) (S S1 : RX.St) (hwf : wfProp rs env li S (.ptColl sc nm id cells items) = some (li1, S1))
    (ret : Ret) (below : List Frame) (ctx0 : Ctx) (st : St) (hn : st.next = S.next) (rest : List Tok) (fin : Fin) :
    ∃ (st1 : St) (ts : List T), run (mkP rs render) ctx0 (.props ctx s li ret :: below) st
        (tokens (renderProp (.ptColl sc nm id cells items)) ++ rest) fin =
        run (mkP rs render) ctx0 (.props ctx s li1 ret :: below) st1 rest fin ∧
      st1.out = ts.reverse ++ st.out ∧ ts.Perm (flatProp s (.ptColl sc nm id cells items)) ∧ st1.next = S1.next := by
  simp only [wfProp] at hwf
  split at hwf
  · rename_i hname
    split at hwf
    · simp at hwf
    · rename_i S0 hid
      obtain ⟨hcoll, rfl⟩ := map_pair_some hwf
      have hidn := pidVal_ncname hid
      obtain ⟨nctx, st1, h1, hrel', ho1, hn1⟩ := props_start_coll (render := render) hf
        { base := sc.base, lang := sc.lang, id := PId.val id, parseType := some n_Collection } rfl rfl rfl rfl rfl rfl hrel nm li
        hname s ret below ctx0 st hidn
      obtain ⟨st2, ts, h2, ho2, hp2, hn2⟩ := coll_loop hf hr nm.ns nm.name items cells hitems hrel' S0 S1 hcoll s nm.pred id hid none
        (.props ctx s (nm.nextLi li) ret :: below) ctx0 st1 (by rw [hn1, hn, (wfId_facts hid).1]) rest fin
      refine ⟨st2, ts, ?_, by rw [ho2, ho1], by simpa [flatProp] using hp2, hn2⟩
      simp only [renderProp, tokens, List.cons_append, List.append_assoc, List.nil_append]
      rw [run_step h1]
      simpa using h2
  · simp at hwf

end RdfModel.RXD
