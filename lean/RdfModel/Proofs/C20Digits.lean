/-
  C20 helper lemmas: decimal digit strings — value of a digit string, canonical digits of a number,
  strconv.FormatUint/FormatInt (model) = canonical representation (spec).
-/
import RdfModel.Model.Xsd
namespace RdfModel.Proofs.C20
open RdfModel RdfModel.Xsd
open RdfModel.Spec.Xsd (natValue natDigits digitsAux canonInt)

/-- the fold of `natValue` started from an arbitrary accumulator -/
def nv (acc : Nat) (s : Bytes) : Nat := s.foldl (fun a b => a * 10 + (b - 0x30)) acc

theorem natValue_eq_nv (s : Bytes) : natValue s = nv 0 s := rfl

theorem nv_eq (s : Bytes) : ∀ acc, nv acc s = acc * 10 ^ s.length + nv 0 s := by
  induction s with
  | nil => intro acc; simp [nv]
  | cons c r ih =>
    intro acc
    have h1 : nv acc (c :: r) = nv (acc * 10 + (c - 0x30)) r := rfl
    have h2 : nv 0 (c :: r) = nv (0 * 10 + (c - 0x30)) r := rfl
    rw [h1, h2, ih (acc * 10 + (c - 0x30)), ih (0 * 10 + (c - 0x30))]
    simp only [List.length_cons, Nat.pow_succ]
    grind

theorem natValue_cons (c : Nat) (r : Bytes) :
    natValue (c :: r) = (c - 0x30) * 10 ^ r.length + natValue r := by
  have h : natValue (c :: r) = nv (0 * 10 + (c - 0x30)) r := rfl
  rw [h, nv_eq, natValue_eq_nv]; simp

theorem natValue_nil : natValue [] = 0 := rfl

theorem isDigit_iff (b : Nat) : Spec.Xsd.isDigit b = true ↔ 0x30 ≤ b ∧ b ≤ 0x39 := by
  simp [Spec.Xsd.isDigit]

theorem digitsAux_all (fuel : Nat) : ∀ n acc, acc.all Spec.Xsd.isDigit = true →
    (digitsAux fuel n acc).all Spec.Xsd.isDigit = true := by
  induction fuel with
  | zero => intro n acc h; simpa [digitsAux] using h
  | succ f ih =>
    intro n acc h
    have hd : Spec.Xsd.isDigit (0x30 + n % 10) = true := by
      rw [isDigit_iff]; omega
    simp only [digitsAux]
    split
    · simp [hd, h]
    · exact ih _ _ (by simp [hd, h])

theorem digitsAux_val (fuel : Nat) : ∀ n acc, n < fuel →
    natValue (digitsAux fuel n acc) = n * 10 ^ acc.length + natValue acc := by
  induction fuel with
  | zero => intro n acc h; omega
  | succ f ih =>
    intro n acc h
    simp only [digitsAux]
    have hdm := Nat.div_add_mod n 10
    split
    · next h0 =>
      rw [natValue_cons]
      have : n % 10 = n := by omega
      simp [this]
    · next h0 =>
      rw [ih (n / 10) _ (by omega), natValue_cons]
      simp only [List.length_cons, Nat.pow_succ]
      have : 0x30 + n % 10 - 0x30 = n % 10 := by omega
      rw [this]
      generalize 10 ^ acc.length = p
      generalize natValue acc = a
      grind

theorem digitsAux_ne (fuel n : Nat) (acc : Bytes) (h : 0 < fuel) : digitsAux fuel n acc ≠ [] := by
  induction fuel generalizing n acc with
  | zero => omega
  | succ f ih =>
    simp only [digitsAux]
    split
    · simp
    · cases f with
      | zero => simp [digitsAux]
      | succ g => exact ih _ _ (by omega)

theorem natDigits_all (n : Nat) : (natDigits n).all Spec.Xsd.isDigit = true :=
  digitsAux_all _ _ _ (by simp)

theorem natDigits_val (n : Nat) : natValue (natDigits n) = n := by
  unfold natDigits; rw [digitsAux_val _ _ _ (by omega)]; simp [natValue_nil]

theorem natDigits_ne (n : Nat) : natDigits n ≠ [] := digitsAux_ne _ _ _ (by omega)

theorem natDigits_digits1 (n : Nat) : Spec.Xsd.digits1 (natDigits n) = true := by
  have h1 := natDigits_ne n
  have h2 := natDigits_all n
  unfold Spec.Xsd.digits1
  cases h : natDigits n with
  | nil => exact absurd h h1
  | cons a r => rw [h] at h2; simp [h2]

/-- the first byte of a canonical digit string is a digit, hence neither `+` nor `-` -/
theorem natDigits_head (n : Nat) : ∃ d r, natDigits n = d :: r ∧ 0x30 ≤ d ∧ d ≤ 0x39 := by
  have h1 := natDigits_ne n
  have h2 := natDigits_all n
  cases h : natDigits n with
  | nil => exact absurd h h1
  | cons a r =>
    rw [h] at h2
    simp only [List.all_cons, Bool.and_eq_true] at h2
    exact ⟨a, r, rfl, (isDigit_iff a).1 h2.1⟩

/-! strconv.FormatUint (model: least significant digit first, then reversed) -/

theorem lsd_rev (fuel : Nat) : ∀ n acc, (lsdDigits fuel n).reverse ++ acc = digitsAux fuel n acc := by
  induction fuel with
  | zero => intro n acc; simp [lsdDigits, digitsAux]
  | succ f ih =>
    intro n acc
    simp only [lsdDigits, digitsAux]
    split
    · simp
    · next h0 =>
      simp only [List.reverse_cons, List.append_assoc, List.singleton_append]
      exact ih _ _

theorem fmtNat_eq (n : Nat) : fmtNat n = natDigits n := by
  have := lsd_rev (n + 1) n []
  simpa [fmtNat, natDigits] using this

theorem fmtInt_eq (v : Int) : fmtInt v = canonInt v := by
  unfold fmtInt canonInt
  split <;> simp [fmtNat_eq]

end RdfModel.Proofs.C20
