/-
  Driver component "xsdt": Model.GoTime (time.Parse / Time.Format for the layouts of the xsdtype
  date/time family, and the nine Map functions over the facts regenerated into Gen.XsdFacts).
    xsdt.parse x<layout> x<value>          → ok <year> <month> <day> <hour> <min> <sec> <nsec> <offset> | err | unmodelled
                                             (month/day as time.Parse defaults them: 1 when the layout has none;
                                              offset in seconds east, 0 when no zone was read)
    xsdt.fmt x<layout> <year> <month> <day> <hour> <min> <sec> <nsec> <offset>   → x<text>   (Time.Format)
    xsdt.map <type> x<value>               → ok x<layout> x<lexical form> <notes> | err | unmodelled
                                             notes = five 0/1 flags: hour1 comma fsign tzWide fracDropped
    xsdt.teq <type> x<value> L x<dt> x<lex> → true | false | err | unknown     (TermEquals of the mapped value)
    xsdt.teq <type> x<value> N             → same, for a non-literal term
-/
import RdfModel.Driver.Wire
import RdfModel.Model.GoTime
import RdfModel.Gen.XsdFacts
namespace RdfModel.Driver.GoTime
open RdfModel RdfModel.Wire RdfModel.GoTime
open RdfModel.Xsd (TimeTy layoutToks Tok)

def tyOfName (n : String) : Option TimeTy :=
  [TimeTy.date, .dateTime, .dateTimeStamp, .gDay, .gMonth, .gMonthDay, .gYear, .gYearMonth, .time].find?
    (fun t => t.dt.name == n)

/-- layouts the model covers: only modelled elements and at most one zone element (with two, Go lets
    a `Z` read by either win over a numeric offset: `if z != nil` comes first; no layout in use has two) -/
def covered (l : List Nat) : Bool :=
  !(layoutToks l).contains Tok.unknown && ((layoutToks l).filter (· == Tok.tz)).length ≤ 1

def bit (b : Bool) : String := if b then "1" else "0"

def showNotes (n : Notes) : String :=
  bit n.hour1 ++ bit n.comma ++ bit n.fsign ++ bit n.tzWide ++ bit n.fracDropped

def showPT (t : PT) : String :=
  s!"{t.year} {t.month.getD 1} {t.day.getD 1} {t.hour} {t.min} {t.sec} {t.nsec} {t.zone.getD 0}"

def handle (op : String) (args : List String) : Option String :=
  match op, args with
  | "parse", [lay, inp] => do
    let l ← bytesTok lay
    let bs ← bytesTok inp
    if !covered l then pure "unmodelled"
    else
      pure (match timeParse l bs with
        | some st => "ok " ++ showPT st.t
        | none => "err")
  | "fmt", [lay, y, mo, d, h, mi, s, ns, off] => do
    let l ← bytesTok lay
    let t : PT := { year := ← y.toNat?, month := some (← mo.toNat?), day := some (← d.toNat?), hour := ← h.toNat?,
                    min := ← mi.toNat?, sec := ← s.toNat?, nsec := ← ns.toNat?, zone := some (← off.toInt?) }
    if !covered l then pure "unmodelled"
    else pure (tokOfBytes (timeFormat l t))
  | "map", [ty, inp] => do
    let T ← tyOfName ty
    let bs ← bytesTok inp
    pure (match mapTime (Gen.xsdFacts.time T) bs with
      | .ok (v, n) => "ok " ++ tokOfBytes v.layout ++ " " ++ tokOfBytes (lexTime v) ++ " " ++ showNotes n
      | .error .unmodelled => "unmodelled"
      | .error _ => "err")
  | "teq", ty :: inp :: rest => do
    let T ← tyOfName ty
    let bs ← bytesTok inp
    let t : Xsd.TermArg ← (match rest with
      | ["L", dt, lex] => do
        let d ← bytesTok dt
        let l ← bytesTok lex
        pure (Xsd.TermArg.literal d l)
      | ["N"] => pure Xsd.TermArg.notLiteral
      | _ => none)
    let f := Gen.xsdFacts.time T
    pure (match mapTime f bs with
      | .ok (v, _) => (match termEquals f v t with | some b => toString b | none => "unknown")
      | .error .unmodelled => "unknown"
      | .error _ => "err")
  | _, _ => none

end RdfModel.Driver.GoTime
