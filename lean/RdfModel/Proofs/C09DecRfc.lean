/-
  Helper lemmas for Props/C09Dec.lean, part 4: the hypothesis `EmptyRefNoFrag` holds for RFC 3986 resolution
  (the instance the driver uses): resolving the empty reference gives the base without its fragment, and none
  of the recomposed components contains '#'.
-/
import RdfModel.Proofs.C09DecSim
import RdfModel.Spec.RFC3986
namespace RdfModel.RXD
open RdfModel RdfModel.RX RdfModel.Spec.RFC3986

theorem takeWhile_noHash (p : Nat → Bool) (hp : ∀ c, p c = true → c ≠ (0x23 : Nat)) (s : List Nat) :
    ∀ c ∈ s.takeWhile p, c ≠ (0x23 : Nat) := by
  induction s with
  | nil => simp
  | cons a s ih =>
    intro c hc
    simp only [List.takeWhile_cons] at hc
    split at hc
    · rename_i ha
      simp only [List.mem_cons] at hc
      rcases hc with rfl | hc
      · exact hp _ ha
      · exact ih c hc
    · simp at hc

theorem dropFragment_noHash (s : List Nat) (h : ∀ c ∈ s, c ≠ (0x23 : Nat)) : dropFragment s = s := by
  induction s with
  | nil => rfl
  | cons a s ih =>
    have ha : a ≠ (0x23 : Nat) := h a (by simp)
    have ih' := ih (fun c hc => h c (by simp [hc]))
    simp only [dropFragment] at ih' ⊢
    rw [List.takeWhile_cons]
    have : decide (a ≠ RX.cHash) = true := by simpa using ha
    rw [this, if_pos rfl, ih']

theorem notGenDelim_noHash (c : Nat) (h : notGenDelim c = true) : c ≠ (0x23 : Nat) := by
  intro hc; subst hc; revert h; decide
theorem notSQH_noHash (c : Nat) (h : notSQH c = true) : c ≠ (0x23 : Nat) := by
  intro hc; subst hc; revert h; decide
theorem notQH_noHash (c : Nat) (h : notQH c = true) : c ≠ (0x23 : Nat) := by
  intro hc; subst hc; revert h; decide
theorem notH_noHash (c : Nat) (h : notH c = true) : c ≠ (0x23 : Nat) := by
  intro hc; subst hc; revert h; decide

theorem splitScheme_noHash (s : List Nat) : ∀ x, (splitScheme s).1 = some x → ∀ c ∈ x, c ≠ (0x23 : Nat) := by
  intro x hx
  unfold splitScheme at hx
  split at hx
  · split at hx
    · simp only [Option.some.injEq] at hx; subst hx; exact takeWhile_noHash _ notGenDelim_noHash _
    · simp at hx
  · simp at hx

theorem splitAuthority_noHash (s : List Nat) : ∀ x, (splitAuthority s).1 = some x → ∀ c ∈ x, c ≠ (0x23 : Nat) := by
  intro x hx
  unfold splitAuthority at hx
  split at hx
  · split at hx
    · simp only [Option.some.injEq] at hx; subst hx; exact takeWhile_noHash _ notSQH_noHash _
    · simp at hx
  · simp at hx

theorem splitQuery_noHash (s : List Nat) : ∀ x, (splitQuery s).1 = some x → ∀ c ∈ x, c ≠ (0x23 : Nat) := by
  intro x hx
  unfold splitQuery at hx
  split at hx
  · split at hx
    · simp only [Option.some.injEq] at hx; subst hx; exact takeWhile_noHash _ notH_noHash _
    · simp at hx
  · simp at hx

theorem emptyRefNoFrag_rfc3986 : EmptyRefNoFrag Spec.RFC3986.resolve := by
  intro b
  apply dropFragment_noHash
  have h0 : split [] = { scheme := none, authority := none, path := [], query := none, fragment := none } := by rfl
  simp only [resolve, h0, resolveParts, Option.isSome_none, Bool.false_eq_true, if_false, if_true, recompose, fragmentPart,
    List.append_nil]
  intro c hc
  simp only [split, List.mem_append] at hc
  rcases hc with ((hc | hc) | hc) | hc
  · cases hs : (splitScheme b).1 with
    | none => simp [hs, schemePart] at hc
    | some x =>
      simp only [hs, schemePart, List.mem_append, List.mem_singleton] at hc
      rcases hc with hc | rfl
      · exact splitScheme_noHash b x hs c hc
      · decide
  · cases hs : (splitAuthority (splitScheme b).2).1 with
    | none => simp [hs, authorityPart] at hc
    | some x =>
      simp only [hs, authorityPart, List.mem_cons] at hc
      rcases hc with rfl | rfl | hc
      · decide
      · decide
      · exact splitAuthority_noHash (splitScheme b).2 x hs c hc
  · exact takeWhile_noHash _ notQH_noHash _ c hc
  · cases hs : (splitQuery (List.dropWhile notQH (splitAuthority (splitScheme b).2).2)).1 with
    | none => simp [hs, queryPart] at hc
    | some x =>
      simp only [hs, queryPart, List.mem_cons] at hc
      rcases hc with rfl | hc
      · decide
      · exact splitQuery_noHash (List.dropWhile notQH (splitAuthority (splitScheme b).2).2) x hs c hc

end RdfModel.RXD
