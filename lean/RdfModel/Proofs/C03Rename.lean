/-
  Proofs.C03Rename — RDFC-1.0 (Spec.RDFC10, every section including Hash N-Degree Quads) is
  EQUIVARIANT under an injective renaming `σ` of the blank nodes when the quad sequence keeps its
  order: running the algorithm on `qs.map (Quad.map σ)` with the renamed order parameters performs
  exactly the renamed computation.  No hypothesis on the hash function, on ties, or on the shape of the
  dataset.  Transferred to the executable model of the Go code (`Rdfcanon.canon`) through the refinement
  theorem of C04 (`canon_refines_spec`) in `canon_relabel`.
-/
import RdfModel.Proofs.C03Model
import RdfModel.Proofs.C04Perms
namespace RdfModel.Proofs.C03
open RdfModel RdfModel.Spec.RDFC10 RdfModel.Proofs.StrOrd

set_option linter.unusedSectionVars false
set_option linter.unusedVariables false

variable {β : Type} [DecidableEq β] {γ : Type} [DecidableEq γ]

/-! ### renamed values -/

def mapND (σ : β → γ) (r : NDResult β) : NDResult γ := ⟨r.hash, mapIssuer σ r.issuer⟩

/-- A map from hashes to blank node lists, renamed. -/
def mapHn (σ : β → γ) (m : List (Str × List β)) : List (Str × List γ) :=
  m.map (fun e => (e.1, e.2.map σ))

def mapTry (σ : β → γ) : Try (Str × Issuer β) → Try (Str × Issuer γ)
  | .out => .out
  | .skip => .skip
  | .ok (p, i) => .ok (p, mapIssuer σ i)

theorem mapIssuer_new (σ : β → γ) (p : Str) : mapIssuer σ (Issuer.new p) = Issuer.new p := rfl

theorem get?_map (σ : β → γ) (hσ : Function.Injective σ) (I : Issuer β) (b : β) :
    (mapIssuer σ I).get? (σ b) = I.get? b := assoc_map_inj σ hσ I.issued b

theorem issue_map_fst (σ : β → γ) (hσ : Function.Injective σ) (I : Issuer β) (b : β) :
    ((mapIssuer σ I).issue (σ b)).1 = (I.issue b).1 := by
  unfold Issuer.issue
  rw [get?_map σ hσ]
  cases I.get? b <;> rfl

theorem issued_keys_map (σ : β → γ) (I : Issuer β) :
    (mapIssuer σ I).issued.map (·.1) = (I.issued.map (·.1)).map σ := by
  simp [mapIssuer, List.map_map, Function.comp_def]

/-! ### `addToMap` under renaming of keys and values -/

theorem addToMap_mapKV {κ κ' ν ν' : Type} [DecidableEq κ] [DecidableEq κ'] (f : κ → κ')
    (hf : Function.Injective f) (g : ν → ν') (m : List (κ × List ν)) (k : κ) (v : ν) :
    addToMap (m.map (fun e => (f e.1, e.2.map g))) (f k) (g v)
      = (addToMap m k v).map (fun e => (f e.1, e.2.map g)) := by
  induction m with
  | nil => rfl
  | cons e rest ih =>
    obtain ⟨k0, vs⟩ := e
    by_cases h : k0 = k
    · subst h; simp [addToMap]
    · have : ¬ f k0 = f k := fun e => h (hf e)
      simp [addToMap, h, this, ih]

theorem addToMap_mapHn (σ : β → γ) (m : List (Str × List β)) (k : Str) (v : β) :
    addToMap (mapHn σ m) k (σ v) = mapHn σ (addToMap m k v) :=
  addToMap_mapKV (fun s : Str => s) (fun _ _ h => h) σ m k v

theorem sortByKey_mapHn (σ : β → γ) (m : List (Str × List β)) :
    sortByKey (mapHn σ m) = mapHn σ (sortByKey m) := by
  unfold sortByKey mapHn
  exact (List.map_mergeSort (r := fun (a b : Str × List β) => strLe a.1 b.1)
    (s := fun (a b : Str × List γ) => strLe a.1 b.1) (f := fun e => (e.1, e.2.map σ)) (l := m)
    (fun _ _ _ _ => rfl)).symm

/-! ### the blank node to quads map -/

/-- §4.4.3 step 2 on the renamed dataset is the renamed map, entry by entry and in the same order. -/
theorem bnodeToQuads_map (σ : β → γ) (hσ : Function.Injective σ) (qs : List (Quad β)) :
    bnodeToQuads true (qs.map (Quad.map σ))
      = (bnodeToQuads true qs).map (fun e => (σ e.1, e.2.map (Quad.map σ))) := by
  rw [bnodeToQuads_eq_foldl, bnodeToQuads_eq_foldl]
  have key : ∀ (m : B2Q β),
      (qs.map (Quad.map σ)).foldl index1 (m.map (fun e => (σ e.1, e.2.map (Quad.map σ))))
        = (qs.foldl index1 m).map (fun e => (σ e.1, e.2.map (Quad.map σ))) := by
    induction qs with
    | nil => intro m; rfl
    | cons q rest ih =>
      intro m
      simp only [List.map_cons, List.foldl_cons]
      have h1 : index1 (m.map (fun e => (σ e.1, e.2.map (Quad.map σ)))) (Quad.map σ q)
          = (index1 m q).map (fun e => (σ e.1, e.2.map (Quad.map σ))) := by
        unfold index1
        rw [quadBnodes_map]
        generalize quadBnodes q = bs
        induction bs generalizing m with
        | nil => rfl
        | cons b bs ihb =>
          simp only [List.map_cons, List.foldl_cons]
          rw [addToMap_mapKV σ hσ (Quad.map σ) m b q]
          exact ihb _
      rw [h1]
      exact ih _
  exact key []

theorem keys_bnodeToQuads_map (σ : β → γ) (hσ : Function.Injective σ) (qs : List (Quad β)) :
    (bnodeToQuads true (qs.map (Quad.map σ))).map (·.1) = ((bnodeToQuads true qs).map (·.1)).map σ := by
  rw [bnodeToQuads_map σ hσ]
  simp [List.map_map, Function.comp_def]

/-! ### §4.7, §4.8 on a renamed state

`B`, `B'` are the blank node to quads maps of the dataset and of the renamed dataset; all that is used
about them is `hG` (stored quads correspond) and `hF` (first-degree hashes agree). -/

section nd
variable (H : Str → Str) (σ : β → γ) (hσ : Function.Injective σ) (B : B2Q β) (B' : B2Q γ)
  (hG : ∀ b, getList B' (σ b) = (getList B b).map (Quad.map σ))
  (hF : ∀ b, hashFirstDegree H B' (σ b) = hashFirstDegree H B b)

theorem predicateValue_map (q : Quad β) : predicateValue (q.map σ) = predicateValue q := by
  obtain ⟨s, p, o, g⟩ := q
  cases p <;> rfl

include hσ hF in
theorem hashRelated_map (C I : Issuer β) (r : β) (q : Quad β) (pos : Nat) :
    hashRelated H B' (mapIssuer σ C) (mapIssuer σ I) (σ r) (q.map σ) pos
      = hashRelated H B C I r q pos := by
  unfold hashRelated
  simp only [get?_map σ hσ, predicateValue_map, hF]

/-- One component of a quad as related blank node (the local function of `relatedOf`). -/
def relT (i : β) (t : Term β) (pos : Nat) : List (β × Nat) :=
  match t with
  | .bnode b => if b = i then [] else [(b, pos)]
  | _ => []

theorem relatedOf_eq (i : β) (q : Quad β) :
    relatedOf i q = relT i q.s 0x73 ++ relT i q.o 0x6f ++
      (match q.g with | some g => relT i g 0x67 | none => []) := by
  obtain ⟨s, p, o, g⟩ := q
  cases g <;> rfl

include hσ in
theorem relT_map (i : β) (t : Term β) (pos : Nat) :
    relT (σ i) (t.map σ) pos = (relT i t pos).map (fun cp : β × Nat => (σ cp.1, cp.2)) := by
  cases t with
  | bnode b =>
    by_cases h : b = i
    · subst h; simp [relT, Term.map]
    · have : ¬ σ b = σ i := fun e => h (hσ e)
      simp [relT, Term.map, h, this]
  | iri v => rfl
  | lit l d t => rfl

include hσ in
theorem relatedOf_map (i : β) (q : Quad β) :
    relatedOf (σ i) (q.map σ) = (relatedOf i q).map (fun cp : β × Nat => (σ cp.1, cp.2)) := by
  rw [relatedOf_eq, relatedOf_eq]
  obtain ⟨s, p, o, g⟩ := q
  cases g with
  | none => simp only [Quad.map, relT_map σ hσ, List.map_append, Option.map_none, List.map_nil]
  | some g => simp only [Quad.map, relT_map σ hσ, List.map_append, Option.map_some]

include hσ hG hF in
theorem hashToRelated_map (C I : Issuer β) (i : β) :
    hashToRelated H B' (mapIssuer σ C) (mapIssuer σ I) (σ i) = mapHn σ (hashToRelated H B C I i) := by
  unfold hashToRelated
  rw [hG, List.foldl_map]
  have key : ∀ (L : List (Quad β)) (m : List (Str × List β)),
      L.foldl (fun Hn q => (relatedOf (σ i) (Quad.map σ q)).foldl (fun Hn cp =>
          addToMap Hn (hashRelated H B' (mapIssuer σ C) (mapIssuer σ I) cp.1 (Quad.map σ q) cp.2) cp.1) Hn)
        (mapHn σ m)
      = mapHn σ (L.foldl (fun Hn q => (relatedOf i q).foldl (fun Hn cp =>
          addToMap Hn (hashRelated H B C I cp.1 q cp.2) cp.1) Hn) m) := by
    intro L
    induction L with
    | nil => intro m; rfl
    | cons q rest ih =>
      intro m
      simp only [List.foldl_cons]
      have inner : ∀ (R : List (β × Nat)) (m : List (Str × List β)),
          (R.map (fun cp => (σ cp.1, cp.2))).foldl (fun Hn cp =>
              addToMap Hn (hashRelated H B' (mapIssuer σ C) (mapIssuer σ I) cp.1 (Quad.map σ q) cp.2) cp.1)
            (mapHn σ m)
          = mapHn σ (R.foldl (fun Hn cp => addToMap Hn (hashRelated H B C I cp.1 q cp.2) cp.1) m) := by
        intro R
        induction R with
        | nil => intro m; rfl
        | cons cp R ihR =>
          intro m
          simp only [List.map_cons, List.foldl_cons]
          rw [hashRelated_map H σ hσ B B' hF, addToMap_mapHn]
          exact ihR _
      rw [relatedOf_map σ hσ, inner]
      exact ih _
  exact key _ []

include hσ in
theorem pathLoop_map (C : Issuer β) (chosen : Str) (p : List β) (path : Str) (ic : Issuer β)
    (recl : List β) :
    pathLoop (mapIssuer σ C) chosen (p.map σ) (path, mapIssuer σ ic, recl.map σ)
      = (pathLoop C chosen p (path, ic, recl)).map
          (fun st => (st.1, mapIssuer σ st.2.1, st.2.2.map σ)) := by
  induction p generalizing path ic recl with
  | nil => rfl
  | cons r rest ih =>
    simp only [List.map_cons, pathLoop, get?_map σ hσ]
    cases hC : C.get? r with
    | some id =>
      simp only
      split
      · rfl
      · exact ih _ _ _
    | none =>
      simp only [issue_map_fst σ hσ, issue_map σ hσ]
      split
      · rfl
      · have hr : (if (ic.get? r).isNone = true then recl.map σ ++ [σ r] else recl.map σ)
            = (if (ic.get? r).isNone = true then recl ++ [r] else recl).map σ := by
          split <;> simp
        rw [hr]
        exact ih _ _ _

include hσ in
theorem recLoop_map (rec : β → Issuer β → Option (NDResult β))
    (rec' : γ → Issuer γ → Option (NDResult γ))
    (hrec : ∀ b I, rec' (σ b) (mapIssuer σ I) = (rec b I).map (mapND σ))
    (chosen : Str) (recl : List β) (path : Str) (ic : Issuer β) :
    recLoop rec' chosen (recl.map σ) path (mapIssuer σ ic)
      = mapTry σ (recLoop rec chosen recl path ic) := by
  induction recl generalizing path ic with
  | nil => rfl
  | cons r rest ih =>
    simp only [List.map_cons, recLoop, hrec]
    cases rec r ic with
    | none => rfl
    | some result =>
      simp only [Option.map_some, mapND, issue_map_fst σ hσ]
      split
      · rfl
      · exact ih _ _

include hσ in
theorem permLoop_map (rec : β → Issuer β → Option (NDResult β))
    (rec' : γ → Issuer γ → Option (NDResult γ))
    (hrec : ∀ b I, rec' (σ b) (mapIssuer σ I) = (rec b I).map (mapND σ))
    (C I : Issuer β) (ps : List (List β)) (cp : Str) (ci : Issuer β) :
    permLoop rec' (mapIssuer σ C) (mapIssuer σ I) (ps.map (List.map σ)) cp (mapIssuer σ ci)
      = (permLoop rec C I ps cp ci).map (fun r => (r.1, mapIssuer σ r.2)) := by
  induction ps generalizing cp ci with
  | nil => rfl
  | cons p ps ih =>
    simp only [List.map_cons, permLoop]
    have hp := pathLoop_map σ hσ C cp p [] I []
    simp only [List.map_nil] at hp
    rw [hp]
    cases pathLoop C cp p ([], I, []) with
    | none => exact ih _ _
    | some st =>
      obtain ⟨path, ic, recl⟩ := st
      simp only [Option.map_some, recLoop_map σ hσ rec rec' hrec]
      cases recLoop rec cp recl path ic with
      | out => rfl
      | skip => exact ih _ _
      | ok a =>
        obtain ⟨path2, ic2⟩ := a
        simp only [mapTry]
        split
        · exact ih _ _
        · exact ih _ _

include hσ in
theorem groupLoop_map (rec : β → Issuer β → Option (NDResult β))
    (rec' : γ → Issuer γ → Option (NDResult γ))
    (hrec : ∀ b I, rec' (σ b) (mapIssuer σ I) = (rec b I).map (mapND σ))
    (perms : List β → List (List β)) (perms' : List γ → List (List γ))
    (hperms : ∀ l, perms' (l.map σ) = (perms l).map (List.map σ))
    (C : Issuer β) (gs : List (Str × List β)) (data : Str) (I : Issuer β) :
    groupLoop rec' (mapIssuer σ C) perms' (mapHn σ gs) data (mapIssuer σ I)
      = (groupLoop rec C perms gs data I).map (fun r => (r.1, mapIssuer σ r.2)) := by
  induction gs generalizing data I with
  | nil => rfl
  | cons g gs ih =>
    obtain ⟨rh, bl⟩ := g
    simp only [mapHn, List.map_cons, groupLoop, hperms, permLoop_map σ hσ rec rec' hrec]
    cases permLoop rec C I (perms bl) [] I with
    | none => rfl
    | some r =>
      obtain ⟨cpath, cissuer⟩ := r
      exact ih _ _

include hσ hG hF in
theorem hashNDegree_map (perms : List β → List (List β)) (perms' : List γ → List (List γ))
    (hperms : ∀ l, perms' (l.map σ) = (perms l).map (List.map σ)) (C : Issuer β) (fuel : Nat)
    (i : β) (I : Issuer β) :
    hashNDegree H perms' B' (mapIssuer σ C) fuel (σ i) (mapIssuer σ I)
      = (hashNDegree H perms B C fuel i I).map (mapND σ) := by
  induction fuel generalizing i I with
  | zero => rfl
  | succ fuel ih =>
    simp only [hashNDegree, hashToRelated_map H σ hσ B B' hG hF, sortByKey_mapHn]
    rw [groupLoop_map σ hσ _ _ ih perms perms' hperms]
    cases groupLoop (hashNDegree H perms B C fuel) C perms (sortByKey (hashToRelated H B C I i)) [] I with
    | none => rfl
    | some r => rfl

include hσ hG hF in
theorem hashPathList_map (perms : List β → List (List β)) (perms' : List γ → List (List γ))
    (hperms : ∀ l, perms' (l.map σ) = (perms l).map (List.map σ)) (C : Issuer β) (fuel : Nat)
    (ns : List β) :
    hashPathList H perms' B' (mapIssuer σ C) fuel (ns.map σ)
      = (hashPathList H perms B C fuel ns).map (List.map (mapND σ)) := by
  induction ns with
  | nil => rfl
  | cons n rest ih =>
    simp only [List.map_cons, hashPathList, get?_map σ hσ]
    split
    · exact ih
    · have ht : ((Issuer.new [0x62] : Issuer γ).issue (σ n)).2
          = mapIssuer σ ((Issuer.new [0x62] : Issuer β).issue n).2 := by
        rw [← mapIssuer_new σ, issue_map σ hσ]
      rw [ht, hashNDegree_map H σ hσ B B' hG hF perms perms' hperms, ih]
      cases hashNDegree H perms B C fuel n ((Issuer.new [0x62] : Issuer β).issue n).2 with
      | none => rfl
      | some r =>
        cases hashPathList H perms B C fuel rest with
        | none => rfl
        | some rs => rfl

theorem mergeSort_mapND (σ : β → γ) (l : List (NDResult β)) :
    (l.map (mapND σ)).mergeSort (fun a b => strLe a.hash b.hash)
      = (l.mergeSort (fun a b => strLe a.hash b.hash)).map (mapND σ) :=
  (List.map_mergeSort (r := fun (a b : NDResult β) => strLe a.hash b.hash)
    (s := fun (a b : NDResult γ) => strLe a.hash b.hash) (f := mapND σ) (l := l)
    (fun _ _ _ _ => rfl)).symm

include hσ hG hF in
theorem step5_map (perms : List β → List (List β)) (perms' : List γ → List (List γ))
    (hperms : ∀ l, perms' (l.map σ) = (perms l).map (List.map σ)) (fuel : Nat)
    (gs : List (Str × List β)) (C : Issuer β) :
    step5 H perms' B' fuel (mapHn σ gs) (mapIssuer σ C)
      = (step5 H perms B fuel gs C).map (mapIssuer σ) := by
  induction gs generalizing C with
  | nil => rfl
  | cons g gs ih =>
    obtain ⟨h, il⟩ := g
    simp only [mapHn, List.map_cons, step5, hashPathList_map H σ hσ B B' hG hF perms perms' hperms]
    cases hashPathList H perms B C fuel il with
    | none => rfl
    | some hpl =>
      simp only [Option.map_some, mergeSort_mapND]
      have hfold : ∀ (L : List (NDResult β)) (C : Issuer β),
          (L.map (mapND σ)).foldl (fun c r => issueAll c (r.issuer.issued.map (·.1))) (mapIssuer σ C)
            = mapIssuer σ (L.foldl (fun c r => issueAll c (r.issuer.issued.map (·.1))) C) := by
        intro L
        induction L with
        | nil => intro C; rfl
        | cons r L ihL =>
          intro C
          simp only [List.map_cons, List.foldl_cons, mapND, issued_keys_map, issueAll_map σ hσ]
          exact ihL _
      rw [hfold]
      exact ih _

end nd

/-! ### the whole algorithm -/

/-- §4.4.3 step 4 for one entry of the sorted hash to blank nodes map. -/
def step4f (c : Issuer β) (e : Str × List β) : Issuer β :=
  match e.2 with
  | [n] => (c.issue n).2
  | _ => c

theorem canonFuel_unfold (H : Str → Str) (ord : List β → List β) (perms : List β → List (List β))
    (fuel : Nat) (qs : List (Quad β)) :
    canonFuel H ord perms true fuel qs =
      (match step5 H perms (bnodeToQuads true qs) fuel
          ((sortByKey ((ord ((bnodeToQuads true qs).map (·.1))).foldl
            (fun m n => addToMap m (hashFirstDegree H (bnodeToQuads true qs) n) n) [])).filter
              (fun e => decide (e.2.length ≠ 1)))
          ((sortByKey ((ord ((bnodeToQuads true qs).map (·.1))).foldl
            (fun m n => addToMap m (hashFirstDegree H (bnodeToQuads true qs) n) n) [])).foldl step4f
              (Issuer.new c14nPrefix)) with
      | none => none
      | some canon => some ⟨sortStr (qs.map (nquad (fun b => (canon.get? b).getD []))), canon.issued⟩) := rfl

theorem step4f_map (σ : β → γ) (hσ : Function.Injective σ) (C : Issuer β) (e : Str × List β) :
    step4f (mapIssuer σ C) (e.1, e.2.map σ) = mapIssuer σ (step4f C e) := by
  obtain ⟨k, l⟩ := e
  match l with
  | [] => rfl
  | [n] => simp only [step4f, List.map_cons, List.map_nil, issue_map σ hσ]
  | _ :: _ :: _ => rfl

def mapResult (σ : β → γ) (r : Result β) : Result γ :=
  ⟨r.lines, r.issued.map (fun e => (σ e.1, e.2))⟩

/-- **RDFC-1.0 is equivariant under injective renaming** (same quad order, renamed order parameters). -/
theorem canonFuel_rename (H : Str → Str) (σ : β → γ) (hσ : Function.Injective σ)
    (ord : List β → List β) (ord' : List γ → List γ) (hord : ∀ l, ord' (l.map σ) = (ord l).map σ)
    (perms : List β → List (List β)) (perms' : List γ → List (List γ))
    (hperms : ∀ l, perms' (l.map σ) = (perms l).map (List.map σ)) (fuel : Nat) (qs : List (Quad β)) :
    canonFuel H ord' perms' true fuel (qs.map (Quad.map σ))
      = (canonFuel H ord perms true fuel qs).map (mapResult σ) := by
  have hG := getList_bnodeToQuads_map σ hσ qs
  have hF := first_degree_rename H σ hσ qs
  rw [canonFuel_unfold, canonFuel_unfold]
  simp only [keys_bnodeToQuads_map σ hσ, hord]
  -- step 3
  have h3 : ∀ (L : List β) (m : List (Str × List β)),
      (L.map σ).foldl (fun m n => addToMap m
          (hashFirstDegree H (bnodeToQuads true (qs.map (Quad.map σ))) n) n) (mapHn σ m)
        = mapHn σ (L.foldl (fun m n => addToMap m (hashFirstDegree H (bnodeToQuads true qs) n) n) m) := by
    intro L
    induction L with
    | nil => intro m; rfl
    | cons n L ih =>
      intro m
      simp only [List.map_cons, List.foldl_cons, hF, addToMap_mapHn]
      exact ih _
  have h3' := h3 (ord ((bnodeToQuads true qs).map (·.1))) []
  simp only [mapHn, List.map_nil] at h3'
  rw [h3']
  generalize (ord ((bnodeToQuads true qs).map (·.1))).foldl
    (fun m n => addToMap m (hashFirstDegree H (bnodeToQuads true qs) n) n) [] = h2b
  have hs := sortByKey_mapHn σ h2b
  simp only [mapHn] at hs
  rw [hs]
  generalize sortByKey h2b = sorted
  -- step 4
  have h4 : ∀ (S : List (Str × List β)) (C : Issuer β),
      (S.map (fun e => (e.1, e.2.map σ))).foldl step4f (mapIssuer σ C)
        = mapIssuer σ (S.foldl step4f C) := by
    intro S
    induction S with
    | nil => intro C; rfl
    | cons e S ih =>
      intro C
      simp only [List.map_cons, List.foldl_cons, step4f_map σ hσ]
      exact ih _
  have h4' := h4 sorted (Issuer.new c14nPrefix)
  rw [mapIssuer_new] at h4'
  rw [h4']
  have hrem : (sorted.map (fun e => (e.1, e.2.map σ))).filter (fun e => decide (e.2.length ≠ 1))
      = mapHn σ (sorted.filter (fun e => decide (e.2.length ≠ 1))) := by
    simp [mapHn, List.filter_map, Function.comp_def]
  rw [hrem, step5_map H σ hσ _ _ hG hF perms perms' hperms]
  cases step5 H perms (bnodeToQuads true qs) fuel (sorted.filter (fun e => decide (e.2.length ≠ 1)))
    (sorted.foldl step4f (Issuer.new c14nPrefix)) with
  | none => rfl
  | some canon =>
    simp only [Option.map_some, mapResult, List.map_map]
    congr 2
    apply congrArg
    apply List.map_congr_left
    intro q _
    simp only [Function.comp_apply, nquad_map]
    congr 1
    funext b
    simp only [Function.comp_apply, get?_map σ hσ]

/-! ### the Go permuter is positional -/

theorem swapAt_map (σ : β → γ) (l : List β) (i j : Nat) :
    Rdfcanon.swapAt (l.map σ) i j = (Rdfcanon.swapAt l i j).map σ := by
  unfold Rdfcanon.swapAt
  simp only [List.getElem?_map]
  cases l[i]? <;> cases l[j]? <;> simp [List.map_set]

theorem heapNext_map (σ : β → γ) (fuel : Nat) (arr : List β) (c : List Nat) (i : Nat) :
    Rdfcanon.heapNext fuel (arr.map σ) c i
      = (Rdfcanon.heapNext fuel arr c i).map (fun r => (r.1.map σ, r.2)) := by
  induction fuel generalizing c i with
  | zero => rfl
  | succ fuel ih =>
    simp only [Rdfcanon.heapNext, List.length_map, swapAt_map]
    split
    · rfl
    · split
      · rfl
      · exact ih _ _

theorem heapPermsFrom_map (σ : β → γ) (n : Nat) (arr : List β) (c : List Nat) :
    Rdfcanon.heapPermsFrom n (arr.map σ) c = (Rdfcanon.heapPermsFrom n arr c).map (List.map σ) := by
  induction n generalizing arr c with
  | zero => rfl
  | succ n ih =>
    simp only [Rdfcanon.heapPermsFrom, heapNext_map, List.length_map, List.map_cons]
    cases Rdfcanon.heapNext (arr.length + 1) arr c 0 with
    | none => rfl
    | some r => obtain ⟨a, c'⟩ := r; simp only [Option.map_some, ih]

theorem heapPerms_map (σ : β → γ) (n : Nat) (l : List β) :
    Rdfcanon.heapPerms n (l.map σ) = (Rdfcanon.heapPerms n l).map (List.map σ) := by
  unfold Rdfcanon.heapPerms
  rw [List.length_map]
  exact heapPermsFrom_map σ n l _

/-! ### transfer to the model of the Go code -/

/-- **Relabelling invariance of `rdfcanon.Canonicalize` (model), N-degree phase included**: for ANY
    well-formed quad sequence, ANY hash function and ANY injective renaming `σ` of the blank nodes, if
    the canonicalizer returns a result on `qs` under iteration order `ord` and on the renamed sequence
    (same quad order) under the renamed iteration order `ord'`, the two results have the same lines
    (hence bytes) and the issued identifier maps correspond through `σ` entry by entry, in issue
    order.  The canonical form therefore depends on the labels only through the iteration order of
    Go's maps and the order of the quads — never on the labels themselves. -/
theorem canon_relabel (T : NQ.Tables) (hT : C04.TablesCanon T) (H : Str → Str) (σ : β → γ)
    (hσ : Function.Injective σ) (lim : Rdfcanon.Limits) (ord : List β → List β) (ord' : List γ → List γ)
    (hord : C04.OrdOK ord) (hord' : C04.OrdOK ord') (hoo : ∀ l, ord' (l.map σ) = (ord l).map σ)
    (qs : List (Quad β)) (hwf : ∀ q ∈ qs, C04.WFQuad T q) (out : Rdfcanon.Out β) (out' : Rdfcanon.Out γ)
    (h : Rdfcanon.canon T H lim ord qs = .ok out)
    (h' : Rdfcanon.canon T H lim ord' (qs.map (Quad.map σ)) = .ok out') :
    out'.lines.map (·.encoded) = out.lines.map (·.encoded) ∧ out'.bytes = out.bytes ∧
      out'.issued = out.issued.map (fun e => (σ e.1, e.2)) ∧
      (∀ b, labelOf out' (σ b) = labelOf out b) := by
  have hwf' : ∀ q ∈ qs.map (Quad.map σ), C04.WFQuad T q := by
    intro q hq
    obtain ⟨q0, hq0, rfl⟩ := List.mem_map.1 hq
    exact wfQuad_map T σ q0 (hwf q0 hq0)
  have hK : lim.maxPermutations < lim.maxPermutations + 1 := Nat.lt_succ_self _
  have s1 := C04.canon_refines_spec T hT H lim ord hord _
    (C04.permsAgree_heapPerms lim.maxPermutations _ hK) qs hwf out h
  have s2 := C04.canon_refines_spec T hT H lim ord' hord' _
    (C04.permsAgree_heapPerms lim.maxPermutations _ hK) (qs.map (Quad.map σ)) hwf' out' h'
  rw [canonFuel_rename H σ hσ ord ord' hoo _ _ (heapPerms_map σ _) _ qs, s1] at s2
  simp only [Option.map_some, Option.some.injEq, mapResult, C04.specView] at s2
  have hl : out.lines.map (·.encoded) = out'.lines.map (·.encoded) := congrArg Result.lines s2
  have hi : out.issued.map (fun e => (σ e.1, e.2)) = out'.issued := congrArg Result.issued s2
  refine ⟨hl.symm, ?_, hi.symm, ?_⟩
  · unfold Rdfcanon.Out.bytes; rw [hl]
  · intro b
    unfold labelOf
    rw [← hi, assoc_map_inj σ hσ]

end RdfModel.Proofs.C03
