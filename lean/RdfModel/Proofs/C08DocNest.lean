/-
  C08, document level — nesting: blank-node property lists `[ pol ]` and collections `( items )` in
  object and subject position, to any depth (structural recursion over the nested syntax).
-/
import RdfModel.Proofs.C08DocTop
set_option linter.unusedSimpArgs false
set_option linter.unusedSectionVars false
set_option linter.unusedVariables false
namespace RdfModel.C08
open RdfModel RdfModel.TA RdfModel.C02 RdfModel.Ttl RdfModel.Spec.TtlPrint RdfModel.TtlDoc

/-! ### scan calls -/

section fn
variable {C : Cfg}

theorem fn_collOpenObj_item (x : Ectx) (env : Env) (c : Nat) (tl : List Nat) (hc : c ≠ 0x29) (sj : TtlDoc.T)
    (hs : x.subj = some sj) :
    stepFn C .eof .collOpenObj x env (.rune c tl) =
      .ok { cur := some ⟨{ x with subj := some env.fresh.1, pred := some (.iri TtlDoc.rdfFirst) }, .object⟩,
            push := [⟨{ x with subj := some env.fresh.1, pred := some (.iri TtlDoc.rdfFirst) }, .collContinue⟩],
            emit := some (mkStmt x env.fresh.1), inp := c :: tl, env := env.fresh.2 } := by
  simp [stepFn, stepCollection, hc, hs]

theorem fn_collOpenSubj_item (x : Ectx) (env : Env) (o : TtlDoc.T) (c : Nat) (tl : List Nat) (hc : c ≠ 0x29)
    (hs : x.subj = none) :
    stepFn C .eof (.collOpenSubj o) x env (.rune c tl) =
      .ok { cur := some ⟨{ x with subj := some o, pred := some (.iri TtlDoc.rdfFirst) }, .object⟩,
            push := [⟨{ x with subj := some o, pred := some (.iri TtlDoc.rdfFirst) }, .collContinue⟩],
            inp := c :: tl, env := env } := by
  simp [stepFn, stepCollection, hc, hs, Arg.orNul]

theorem fn_collContinue_close (x : Ectx) (env : Env) (tl : List Nat) :
    stepFn C .eof .collContinue x env (.rune 0x29 tl) =
      .ok { emit := some { s := x.subj, p := some (.iri TtlDoc.rdfRest), o := .iri TtlDoc.rdfNil, g := x.graph },
            inp := tl, env := env } := by
  simp [stepFn]

theorem fn_collContinue_item (x : Ectx) (env : Env) (c : Nat) (tl : List Nat) (hc : c ≠ 0x29) :
    stepFn C .eof .collContinue x env (.rune c tl) =
      .ok { cur := some ⟨{ x with subj := some env.fresh.1 }, .object⟩,
            push := [⟨{ x with subj := some env.fresh.1 }, .collContinue⟩],
            emit := some { s := x.subj, p := some (.iri TtlDoc.rdfRest), o := env.fresh.1, g := x.graph },
            inp := c :: tl, env := env.fresh.2 } := by
  simp [stepFn, hc]

theorem fn_parenTop_item (x : Ectx) (env : Env) (bn : TtlDoc.T) (c : Nat) (tl : List Nat) (hc : c ≠ 0x29) :
    stepFn C .eof (.parenTop bn) x env (.rune c tl) =
      .ok { cur := some ⟨x, .collOpenSubj bn⟩,
            push := [⟨x, .triplesEnd⟩, ⟨{ x with subj := some bn }, .polContinue⟩, ⟨{ x with subj := some bn }, .polRequired⟩],
            inp := c :: tl, env := env } := by
  simp [stepFn, stepParen, Arg.orNul, hc]

theorem fn_parenBlock_item (x : Ectx) (env : Env) (bn : TtlDoc.T) (c : Nat) (tl : List Nat) (hc : c ≠ 0x29) :
    stepFn C .eof (.parenBlock bn) x env (.rune c tl) =
      .ok { cur := some ⟨x, .collOpenSubj bn⟩,
            push := [⟨{ x with subj := some bn }, .polContinue⟩, ⟨{ x with subj := some bn }, .polRequired⟩],
            inp := c :: tl, env := env } := by
  simp [stepFn, stepParen, Arg.orNul, hc]

theorem fn_subjAnon_item (x : Ectx) (env : Env) (c : Nat) (tl : List Nat) (hc : c ≠ 0x5d) :
    stepFn C .eof .subjAnonOrBNPL x env (.rune c tl) =
      .ok { cur := some ⟨x, .polRequired⟩,
            push := [⟨x, .triplesEnd⟩, ⟨x, .polContinue⟩, ⟨x, .pol⟩, ⟨x, .bnplEnd⟩, ⟨x, .polContinue⟩],
            inp := c :: tl, env := env } := by
  simp [stepFn, hc]

theorem fn_tgBracket_item (x : Ectx) (env : Env) (bn : TtlDoc.T) (c : Nat) (tl : List Nat) (hc : c ≠ 0x5d) :
    stepFn C .eof (.tgBracket bn) x env (.rune c tl) =
      .ok { cur := some ⟨{ x with subj := some bn }, .triples2BNPL⟩, inp := c :: tl, env := env } := by
  simp [stepFn, Arg.orNul, hc]

theorem fn_triples2BNPL_item (x : Ectx) (env : Env) (c : Nat) (tl : List Nat) (hc : c ≠ 0x5d) :
    stepFn C .eof .triples2BNPL x env (.rune c tl) =
      .ok { cur := some ⟨x, .pol⟩,
            push := [⟨x, .triplesEnd⟩, ⟨x, .polContinue⟩, ⟨x, .pol⟩, ⟨x, .bnplEnd⟩, ⟨x, .polContinue⟩],
            inp := c :: tl, env := env } := by
  simp [stepFn, hc]

end fn

section
variable {T : Tables} (hT : TablesOK T) (hT2 : TablesOK2 T) {C : Cfg} (hC : CfgOK T C)
variable {ch : Choices} (hch : choicesOK ch = true)

/-! ### what an object starts with -/

include hT hT2 hC hch in
theorem pObj_follows (o : Obj) (hwf : objWf T o = true) (i : Nat) (R : List Nat) :
    ∃ c r, Follows C (pObj ⟨T, ch⟩ i o R) c r ∧ c ≠ 0x40 ∧ c ≠ 0x5e ∧ c ≠ 0x29 := by
  have hd : ∀ (c : Nat) (tl : List Nat), c ∈ delims → isWsRune c = false → c ≠ 0x23 → Follows C (c :: tl) c tl :=
    fun c tl h1 h2 h3 => follows_solid hT2 hC (solid_delim h1 h2) h3 tl
  cases o with
  | iri x1 =>
    obtain ⟨c, r, h1, h2, h3, _⟩ := pVerb_follows hT2 hC hch (.iri x1) (by simpa [objWf, verbWf] using hwf) i R
    have hv : pObj ⟨T, ch⟩ i (.iri x1) R = pVerb ⟨T, ch⟩ i (.iri x1) R := by simp [pObj, pVerb]
    rw [hv]
    cases x1 with
    | ref rr =>
      have : c = 0x3c := by
        have := h1.1; simp [pVerb, pIri, iriText, iriKind, printIRIREF] at this; exact this.1.symm
      subst this
      exact ⟨_, r, h1, by decide, by decide, by decide⟩
    | pn p l =>
      have hwf' : iriWf T (.pn p l) = true := by simpa [objWf] using hwf
      simp only [iriWf, Bool.and_eq_true] at hwf'
      obtain ⟨⟨⟨hp, hps⟩, hls⟩, hpl⟩ := hwf'
      obtain ⟨out, hout⟩ := pname_printable (p := p) (ch.at i).cs hpl
      obtain ⟨lo, hlo⟩ := pname_shape hout
      have htext : p ++ 0x3a :: (lo ++ after T .name (ch.at i) R) = c :: r := by
        have := h1.1; simpa [pVerb, pIri, iriText, iriKind, hout, hlo] using this
      have hns := prefix_head hp _ c r htext
      exact ⟨c, r, h1, nameStart_ne hT2 hns (by decide) (by decide), nameStart_ne hT2 hns (by decide) (by decide),
        nameStart_ne hT2 hns (by decide) (by decide)⟩
  | bn l =>
    exact ⟨0x5f, _, by
      have : pObj ⟨T, ch⟩ i (.bn l) R = 0x5f :: (0x3a :: l ++ after T .label (ch.at i) R) := by simp [pObj, pBNode]
      rw [this]; exact follows_solid hT2 hC (solid_pn (hT2.u_sub 0x5f hT2.us) (by decide)) (by decide) _,
      by decide, by decide, by decide⟩
  | anon =>
    exact ⟨0x5b, _, by
      have : pObj ⟨T, ch⟩ i .anon R = 0x5b :: after T .punct (ch.at i) (0x5d :: after T .punct (ch.at (i + 1)) R) := by
        simp [pObj, pPunct]
      rw [this]; exact hd _ _ (by decide) (by decide) (by decide), by decide, by decide, by decide⟩
  | bnpl pos =>
    exact ⟨0x5b, _, by
      have : pObj ⟨T, ch⟩ i (.bnpl pos) R = 0x5b :: after T .punct (ch.at i) (pPOs ⟨T, ch⟩ (i + 1) pos
          (pPunct ⟨T, ch⟩ (i + 1 + posSlots pos) 0x5d R)) := by simp [pObj, pPunct]
      rw [this]; exact hd _ _ (by decide) (by decide) (by decide), by decide, by decide, by decide⟩
  | coll items =>
    exact ⟨0x28, _, by
      have : pObj ⟨T, ch⟩ i (.coll items) R = 0x28 :: after T .punct (ch.at i) (pItems ⟨T, ch⟩ (i + 1) items
          (pPunct ⟨T, ch⟩ (i + 1 + itemsSlots items) 0x29 R)) := by simp [pObj, pPunct]
      rw [this]; exact hd _ _ (by decide) (by decide) (by decide), by decide, by decide, by decide⟩
  | lit l =>
    have hstr : ∀ (st : Style) (cs : List Choice) (lex tl : List Nat),
        ∃ r, printString st cs lex ++ tl = st.delim :: r := by
      intro st cs lex tl
      cases st <;> simp [printString, quotes, Style.long, Style.delim]
    have hdel : ∀ (st : Style) (r : List Nat), Follows C (st.delim :: r) st.delim r ∧ st.delim ≠ 0x40 ∧ st.delim ≠ 0x5e ∧ st.delim ≠ 0x29 := by
      intro st r
      exact ⟨follows_solid hT2 hC (delim_solid T st) (delim_ne23 st) r, by cases st <;> simp [Style.delim],
        by cases st <;> simp [Style.delim], by cases st <;> simp [Style.delim]⟩
    cases l with
    | plain lex =>
      obtain ⟨r, hr⟩ := hstr (ch.at i).sty (ch.at i).cs lex (after T (strKind (ch.at i).sty lex) (ch.at i) R)
      have : pObj ⟨T, ch⟩ i (.lit (.plain lex)) R = (ch.at i).sty.delim :: r := by simp [pObj, pLit, hr]
      rw [this]; exact ⟨_, r, hdel _ r⟩
    | lang lex tag =>
      obtain ⟨r, hr⟩ := hstr (ch.at i).sty (ch.at i).cs lex (0x40 :: (tag ++ after T .lang (ch.at i) R))
      have : pObj ⟨T, ch⟩ i (.lit (.lang lex tag)) R = (ch.at i).sty.delim :: r := by simp [pObj, pLit, hr]
      rw [this]; exact ⟨_, r, hdel _ r⟩
    | typed lex dt =>
      obtain ⟨r, hr⟩ := hstr (ch.at i).sty (ch.at i).cs lex (0x5e :: 0x5e :: pIri ⟨T, ch⟩ (i + 1) dt R)
      have : pObj ⟨T, ch⟩ i (.lit (.typed lex dt)) R = (ch.at i).sty.delim :: r := by simp [pObj, pLit, hr]
      rw [this]; exact ⟨_, r, hdel _ r⟩
    | num lex =>
      have hwf' : litWf T (.num lex) = true := by simpa [objWf] using hwf
      simp only [litWf] at hwf'
      cases hb : bareLiteralDatatype lex with
      | none => simp [hb] at hwf'
      | some dt =>
        have hnb : dt ≠ xsdBoolean := by simpa [hb] using hwf'
        obtain ⟨c0, lt, hlex, hcls⟩ := num_head lex dt hb hnb
        have hsol : solid T c0 = true ∧ c0 ≠ 0x23 ∧ c0 ≠ 0x40 ∧ c0 ≠ 0x5e ∧ c0 ≠ 0x29 := by
          rcases hcls with (h | h | h) | ⟨h, _⟩
          · subst h; exact ⟨solid_delim (by decide) (by decide), by decide, by decide, by decide, by decide⟩
          · subst h; exact ⟨solid_pn hT2.minus (by decide), by decide, by decide, by decide, by decide⟩
          · have hr : 0x30 ≤ c0 ∧ c0 ≤ 0x39 := by simpa [isDigit, NQ.isDigit] using h
            exact ⟨solid_pn (hT.pn_digit c0 h) (by omega), by omega, by omega, by omega, by omega⟩
          · subst h; exact ⟨solid_delim (by decide) (by decide), by decide, by decide, by decide, by decide⟩
        have : pObj ⟨T, ch⟩ i (.lit (.num lex)) R = c0 :: (lt ++ after T .num (ch.at i) R) := by simp [pObj, pLit, hlex]
        rw [this]
        exact ⟨c0, _, follows_solid hT2 hC hsol.1 hsol.2.1 _, hsol.2.2⟩
    | bool b =>
      obtain ⟨c0, tl0, htext, hal⟩ : ∃ c0 tl0, boolText b ++ after T .name (ch.at i) R = c0 :: tl0 ∧ isAlpha c0 = true := by
        cases b
        · exact ⟨0x66, 0x61 :: 0x6c :: 0x73 :: 0x65 :: after T .name (ch.at i) R, by simp [boolText, Proofs.C02Tok.asc_false], by decide⟩
        · exact ⟨0x74, 0x72 :: 0x75 :: 0x65 :: after T .name (ch.at i) R, by simp [boolText, Proofs.C02Tok.asc_true], by decide⟩
      have hr : (0x61 ≤ c0 ∧ c0 ≤ 0x7a) ∨ (0x41 ≤ c0 ∧ c0 ≤ 0x5a) := by simpa [isAlpha, NQ.isAlpha] using hal
      have : pObj ⟨T, ch⟩ i (.lit (.bool b)) R = c0 :: tl0 := by simp [pObj, pLit, htext]
      rw [this]
      exact ⟨c0, tl0, follows_solid hT2 hC (solid_pn (pnB_pn hT2 (hT2.alpha c0 hal)) (by omega)) (by omega) _, by omega, by omega,
        by omega⟩

/-! ### `[ pol ]` and `( items )` as objects -/

theorem rdfFirst_eq : TA.rdfFirst = TtlDoc.rdfFirst := rfl
theorem rdfRest_eq : TA.rdfRest = TtlDoc.rdfRest := rfl
theorem envOf_fresh1 (st : DState) : (envOf st).fresh.1 = toT st.fresh.1 := rfl
theorem envOf_fresh2 (st : DState) : (envOf st).fresh.2 = envOf st.fresh.2 := rfl

/-- the `rdf:rest` statement `reader_scan_collection_Continue` emits -/
theorem restStmt_eq {nx : Ectx} {b : TermB} {g : Option TermB} (hs : nx.subj = some (toT b)) (hg : nx.graph = g.map toT)
    (o : TermB) :
    ({ s := nx.subj, p := some (.iri TtlDoc.rdfRest), o := toT o, g := nx.graph } : Stmt) = toStmt ⟨b, .iri TA.rdfRest, o, g⟩ := by
  simp only [toStmt, hs, hg, toT, Term.map, rdfRest_eq]
  cases g <;> rfl

include hT hT2 hC hch in
theorem objGood_bnpl (pos : List PO) (hne : pos ≠ []) (hfit : ∀ po ∈ pos, POFit T C ch po) : ObjGood T C ch (.bnpl pos) := by
  intro i x s inp rest c r g st st' t qs hf h40 h5e hxsome hg hd hin
  simp only [dObj] at hd
  cases hdp : dPOs C.resolve st.fresh.1 g st.fresh.2 pos with
  | none => simp [hdp] at hd
  | some res =>
    obtain ⟨qs1, st1⟩ := res
    simp only [hdp, Option.some.injEq, Prod.mk.injEq] at hd
    obtain ⟨rfl, rfl, rfl⟩ := hd
    let k := i + 1 + posSlots pos
    let nx : Ectx := { x with subj := some (envOf st).fresh.1, pred := none }
    have hfc : Follows C (pPunct ⟨T, ch⟩ k 0x5d rest) 0x5d (after T .punct (ch.at k) rest) :=
      follows_solid hT2 hC (solid_delim (by decide) (by decide)) (by decide) _
    have htx : pObj ⟨T, ch⟩ i (.bnpl pos) rest = 0x5b :: after T .punct (ch.at i) (pPOs ⟨T, ch⟩ (i + 1) pos
        (pPunct ⟨T, ch⟩ k 0x5d rest)) := by simp [pObj, pPunct, k]
    obtain ⟨inp2, he2, s2⟩ := posGood hT hT2 hC hch pos hfit (i + 1) nx (⟨nx, .bnplEnd⟩ :: s)
      (after T .punct (ch.at i) (pPOs ⟨T, ch⟩ (i + 1) pos (pPunct ⟨T, ch⟩ k 0x5d rest))) _ 0x5d _ g st.fresh.2 st1 qs1 st.fresh.1 false
      hfc (Or.inr (Or.inl rfl)) rfl hg hne hdp (after_skip (T := T) hC .punct (ch.at i) (slot_ok hch i) _)
    refine ⟨_, after_skip (T := T) hC .punct (ch.at k) (slot_ok hch k) rest, ?_⟩
    have s3 : Steps C .eof ⟨⟨nx, .bnplEnd⟩ :: s, inp2, envOf st1⟩ [] ⟨s, after T .punct (ch.at k) rest, envOf st1⟩ := by
      simpa using Steps.fol hT2 hC (f := ⟨nx, .bnplEnd⟩) (s := s) (env := envOf st1) he2 hfc (fn_bnplEnd nx _ _) (Steps.refl _)
    have s1 := Steps.tok hT2 hC (f := ⟨x, .object⟩) (s := s) (env := envOf st) hin htx
      (solid_delim (by decide) (by decide)) (by decide) (fn_object_bracket x (envOf st) _)
      (by simpa [nx, envOf_fresh2] using steps_trans_nil s2 s3)
    simpa [envOf_fresh1, envOf_fresh2] using s1

include hT hT2 hC hch in
/-- the cells of a collection: `nx` is the frame of the current cell `b` -/
theorem items_good (items : List Obj) (hgood : ∀ o ∈ items, ObjGood T C ch o) (hwf : ∀ o ∈ items, objWf T o = true) :
    ∀ (i : Nat) (nx : Ectx) (s : List Frame) (inp R r' : List Nat) (g : Option TermB) (st st' : DState) (qs : List QuadB)
      (b : TermB), items ≠ [] → Follows C R 0x29 r' →
      nx.subj = some (toT b) → nx.pred = some (.iri TtlDoc.rdfFirst) → nx.graph = g.map toT →
      dItems C.resolve g st b items = some (qs, st') → SkEq C inp (pItems ⟨T, ch⟩ i items R) →
      Steps C .eof ⟨⟨nx, .object⟩ :: ⟨nx, .collContinue⟩ :: s, inp, envOf st⟩ (qs.map toStmt) ⟨s, r', envOf st'⟩ := by
  induction items with
  | nil => intro i nx s inp R r' g st st' qs b hne; exact absurd rfl hne
  | cons o os ih =>
    intro i nx s inp R r' g st st' qs b _ hfR hs hp hg hd hin
    have hgo := hgood o List.mem_cons_self
    have hfirst : nx.pred = some (toT (.iri TA.rdfFirst)) := by rw [hp]; rfl
    cases os with
    | nil =>
      simp only [dItems] at hd
      cases hdo : dObj C.resolve g st o with
      | none => simp [hdo] at hd
      | some res =>
        obtain ⟨t, qs1, st1⟩ := res
        simp only [hdo, Option.some.injEq, Prod.mk.injEq] at hd
        obtain ⟨rfl, rfl⟩ := hd
        obtain ⟨inp1, he1, s1⟩ := hgo i nx (⟨nx, .collContinue⟩ :: s) inp R 0x29 r' g st st1 t qs1 hfR (by decide) (by decide)
          (by simp [hs]) hg hdo (by simpa [pItems] using hin)
        have e2 := restStmt_eq hs hg (.iri TA.rdfNil)
        have s2 : Steps C .eof ⟨⟨nx, .collContinue⟩ :: s, inp1, envOf st1⟩ [toStmt ⟨b, .iri TA.rdfRest, .iri TA.rdfNil, g⟩]
            ⟨s, r', envOf st1⟩ := by
          rw [← e2]
          simpa [toT, Term.map, rdfNil_eq] using Steps.fol hT2 hC (f := ⟨nx, .collContinue⟩) (s := s) (env := envOf st1) he1 hfR
            (fn_collContinue_close nx _ r') (Steps.refl _)
        have := s1.trans s2
        rw [mkStmt_toStmt hs hfirst hg] at this
        simpa [List.map_append] using this
    | cons o' os' =>
      simp only [dItems] at hd
      cases hdo : dObj C.resolve g st o with
      | none => simp [hdo] at hd
      | some res =>
        obtain ⟨t, qs1, st1⟩ := res
        simp only [hdo] at hd
        cases hdr : dItems C.resolve g st1.fresh.2 st1.fresh.1 (o' :: os') with
        | none => simp [hdr] at hd
        | some res2 =>
          obtain ⟨qs2, st2⟩ := res2
          simp only [hdr, Option.some.injEq, Prod.mk.injEq] at hd
          obtain ⟨rfl, rfl⟩ := hd
          obtain ⟨c, r, hfn, n1, n2, n3⟩ := pObj_follows hT hT2 hC hch o' (hwf o' (by simp)) (i + objSlots o)
            (pItems ⟨T, ch⟩ (i + objSlots o + objSlots o') os' R)
          have hfn' : Follows C (pItems ⟨T, ch⟩ (i + objSlots o) (o' :: os') R) c r := by simpa [pItems] using hfn
          obtain ⟨inp1, he1, s1⟩ := hgo i nx (⟨nx, .collContinue⟩ :: s) inp _ c r g st st1 t qs1 hfn' n1 n2
            (by simp [hs]) hg hdo (by simpa [pItems] using hin)
          let nx' : Ectx := { nx with subj := some (envOf st1).fresh.1 }
          have s3 := ih (fun o2 ho2 => hgood o2 (List.mem_cons_of_mem _ ho2)) (fun o2 ho2 => hwf o2 (List.mem_cons_of_mem _ ho2))
            (i + objSlots o) nx' s (c :: r) R r' g st1.fresh.2 st2 qs2 st1.fresh.1 (by simp) hfR rfl hp hg hdr
            (by rw [hfn'.1]; exact SkEq.rfl')
          have e2 := restStmt_eq hs hg st1.fresh.1
          have s2 : Steps C .eof ⟨⟨nx, .collContinue⟩ :: s, inp1, envOf st1⟩
              (toStmt ⟨b, .iri TA.rdfRest, st1.fresh.1, g⟩ :: qs2.map toStmt) ⟨s, r', envOf st2⟩ := by
            rw [← e2]
            simpa [envOf_fresh1, envOf_fresh2] using Steps.fol hT2 hC (f := ⟨nx, .collContinue⟩) (s := s) (env := envOf st1) he1 hfn'
              (fn_collContinue_item nx _ c r n3) (by simpa [nx', envOf_fresh1, envOf_fresh2] using s3)
          have := s1.trans s2
          rw [mkStmt_toStmt hs hfirst hg] at this
          simpa [List.map_append] using this

include hT hT2 hC hch in
theorem objGood_coll (items : List Obj) (hne : items ≠ []) (hgood : ∀ o ∈ items, ObjGood T C ch o)
    (hwf : ∀ o ∈ items, objWf T o = true) : ObjGood T C ch (.coll items) := by
  intro i x s inp rest c r g st st' t qs hf h40 h5e hxsome hg hd hin
  obtain ⟨o1, os1, rfl⟩ : ∃ o1 os1, items = o1 :: os1 := by
    cases items with
    | nil => exact absurd rfl hne
    | cons a b => exact ⟨a, b, rfl⟩
  simp only [dObj] at hd
  cases hdi : dItems C.resolve g st.fresh.2 st.fresh.1 (o1 :: os1) with
  | none => simp [hdi] at hd
  | some res =>
    obtain ⟨qs1, st1⟩ := res
    simp only [hdi, Option.some.injEq, Prod.mk.injEq] at hd
    obtain ⟨rfl, rfl, rfl⟩ := hd
    obtain ⟨sj, hsj⟩ := Option.isSome_iff_exists.1 hxsome
    let k := i + 1 + itemsSlots (o1 :: os1)
    let nx : Ectx := { x with subj := some (envOf st).fresh.1, pred := some (.iri TtlDoc.rdfFirst) }
    have hfc : Follows C (pPunct ⟨T, ch⟩ k 0x29 rest) 0x29 (after T .punct (ch.at k) rest) :=
      follows_solid hT2 hC (solid_delim (by decide) (by decide)) (by decide) _
    have htx : pObj ⟨T, ch⟩ i (.coll (o1 :: os1)) rest = 0x28 :: after T .punct (ch.at i) (pItems ⟨T, ch⟩ (i + 1) (o1 :: os1)
        (pPunct ⟨T, ch⟩ k 0x29 rest)) := by simp [pObj, pPunct, k]
    obtain ⟨c0, r0, hf0, _, _, n3⟩ := pObj_follows hT hT2 hC hch o1 (hwf o1 (by simp)) (i + 1)
      (pItems ⟨T, ch⟩ (i + 1 + objSlots o1) os1 (pPunct ⟨T, ch⟩ k 0x29 rest))
    have hf0' : Follows C (pItems ⟨T, ch⟩ (i + 1) (o1 :: os1) (pPunct ⟨T, ch⟩ k 0x29 rest)) c0 r0 := by simpa [pItems] using hf0
    have s3 := items_good hT hT2 hC hch (o1 :: os1) hgood hwf (i + 1) nx s (c0 :: r0) _ _ g st.fresh.2 st1 qs1 st.fresh.1 (by simp) hfc
      (envOf_fresh1 st ▸ rfl) rfl hg hdi (by rw [hf0'.1]; exact SkEq.rfl')
    refine ⟨_, after_skip (T := T) hC .punct (ch.at k) (slot_ok hch k) rest, ?_⟩
    have s2 := Steps.fol hT2 hC (f := ⟨x, .collOpenObj⟩) (s := s) (env := envOf st)
      (after_skip (T := T) hC .punct (ch.at i) (slot_ok hch i) _) hf0' (fn_collOpenObj_item x (envOf st) c0 r0 n3 sj hsj)
      (by simpa [nx, envOf_fresh2] using s3)
    have s1 := Steps.tok hT2 hC (f := ⟨x, .object⟩) (s := s) (env := envOf st) hin htx
      (solid_delim (by decide) (by decide)) (by decide) (fn_object_paren x (envOf st) _) (by simpa using s2)
    simpa [envOf_fresh1] using s1

end

/-! ### all well-formed objects, by recursion over the syntax -/

mutual
theorem objGood_all {T : Tables} (hT : TablesOK T) (hT2 : TablesOK2 T) {C : Cfg} (hC : CfgOK T C) {ch : Choices} (hch : choicesOK ch = true) : (o : Obj) → objWf T o = true → objNoBoolPfx o = true → ObjGood T C ch o
  | .iri x0, h1, h2 => objGood_iri hT hT2 hC hch x0 (by simpa [objWf] using h1) h2
  | .bn l, h1, _ => objGood_bn hT hT2 hC hch l (by simpa [objWf] using h1)
  | .anon, _, _ => objGood_anon hT hT2 hC hch
  | .lit l, h1, _ => objGood_lit hT hT2 hC hch l (by simpa [objWf] using h1)
  | .bnpl pos, h1, h2 => by
    simp only [objWf, Bool.and_eq_true, Bool.not_eq_true', List.isEmpty_eq_false_iff] at h1
    exact objGood_bnpl hT hT2 hC hch pos h1.1 (posFit_all hT hT2 hC hch pos h1.2 (by simpa [objNoBoolPfx] using h2))
  | .coll items, h1, h2 => by
    have hall := itemsGood_all hT hT2 hC hch items (by simpa [objWf] using h1) (by simpa [objNoBoolPfx] using h2)
    have hwf : ∀ o ∈ items, objWf T o = true := itemsWf_mem (by simpa [objWf] using h1)
    cases items with
    | nil => exact objGood_nil hT hT2 hC hch
    | cons a b => exact objGood_coll hT hT2 hC hch (a :: b) (by simp) hall hwf
theorem itemsGood_all {T : Tables} (hT : TablesOK T) (hT2 : TablesOK2 T) {C : Cfg} (hC : CfgOK T C) {ch : Choices} (hch : choicesOK ch = true) : (os : List Obj) → itemsWf T os = true → itemsNoBoolPfx os = true → ∀ o ∈ os, ObjGood T C ch o
  | [], _, _ => by intro o ho; cases ho
  | a :: os, h1, h2 => by
    simp only [itemsWf, Bool.and_eq_true] at h1
    simp only [itemsNoBoolPfx, Bool.and_eq_true] at h2
    have ha := objGood_all hT hT2 hC hch a h1.1 h2.1
    have hos := itemsGood_all hT hT2 hC hch os h1.2 h2.2
    intro o ho
    rcases List.mem_cons.1 ho with h | h
    · exact h ▸ ha
    · exact hos o h
theorem poFit_all {T : Tables} (hT : TablesOK T) (hT2 : TablesOK2 T) {C : Cfg} (hC : CfgOK T C) {ch : Choices} (hch : choicesOK ch = true) : (po : PO) → poWf T po = true → poNoBoolPfx po = true → POFit T C ch po
  | .mk v os, h1, h2 => by
    simp only [poWf, Bool.and_eq_true, Bool.not_eq_true', List.isEmpty_eq_false_iff] at h1
    exact ⟨h1.1.1, h1.1.2, itemsGood_all hT hT2 hC hch os h1.2 (by simpa [poNoBoolPfx] using h2)⟩
theorem posFit_all {T : Tables} (hT : TablesOK T) (hT2 : TablesOK2 T) {C : Cfg} (hC : CfgOK T C) {ch : Choices} (hch : choicesOK ch = true) : (pos : List PO) → posWf T pos = true → posNoBoolPfx pos = true → ∀ po ∈ pos, POFit T C ch po
  | [], _, _ => by intro o ho; cases ho
  | a :: pos, h1, h2 => by
    simp only [posWf, Bool.and_eq_true] at h1
    simp only [posNoBoolPfx, Bool.and_eq_true] at h2
    have ha := poFit_all hT hT2 hC hch a h1.1 h2.1
    have hos := posFit_all hT hT2 hC hch pos h1.2 h2.2
    intro po hpo
    rcases List.mem_cons.1 hpo with h | h
    · exact h ▸ ha
    · exact hos po h
end

section
variable {T : Tables} (hT : TablesOK T) (hT2 : TablesOK2 T) {C : Cfg} (hC : CfgOK T C)
variable {ch : Choices} (hch : choicesOK ch = true)

/-! ### `[ pol ]` and `( items )` as subjects -/

include hT hT2 hC hch in
theorem subjTop_coll (items : List Obj) (hne : items ≠ []) (hgood : ∀ o ∈ items, ObjGood T C ch o)
    (hwf : ∀ o ∈ items, objWf T o = true) : SubjTopGood T C ch (.coll items) := by
  intro i x0 s inp R c r st st1 sT qs hf h7b hxs hxg hd hin
  obtain ⟨o1, os1, rfl⟩ : ∃ o1 os1, items = o1 :: os1 := by
    cases items with
    | nil => exact absurd rfl hne
    | cons a b => exact ⟨a, b, rfl⟩
  simp only [dSubj, dObj] at hd
  cases hdi : dItems C.resolve none st.fresh.2 st.fresh.1 (o1 :: os1) with
  | none => simp [hdi] at hd
  | some res =>
    obtain ⟨qs1, st2⟩ := res
    simp only [hdi, Option.some.injEq, Prod.mk.injEq] at hd
    obtain ⟨rfl, rfl, rfl⟩ := hd
    let k := i + 1 + itemsSlots (o1 :: os1)
    let bn := (envOf st).fresh.1
    let nx : Ectx := { x0 with subj := some bn }
    let nx' : Ectx := { x0 with subj := some bn, pred := some (.iri TtlDoc.rdfFirst) }
    have hfc : Follows C (pPunct ⟨T, ch⟩ k 0x29 R) 0x29 (after T .punct (ch.at k) R) :=
      follows_solid hT2 hC (solid_delim (by decide) (by decide)) (by decide) _
    have htx : pSubj ⟨T, ch⟩ i (.coll (o1 :: os1)) R = 0x28 :: after T .punct (ch.at i) (pItems ⟨T, ch⟩ (i + 1) (o1 :: os1)
        (pPunct ⟨T, ch⟩ k 0x29 R)) := by simp [pSubj, pObj, pPunct, k]
    obtain ⟨c0, r0, hf0, _, _, n3⟩ := pObj_follows hT hT2 hC hch o1 (hwf o1 (by simp)) (i + 1)
      (pItems ⟨T, ch⟩ (i + 1 + objSlots o1) os1 (pPunct ⟨T, ch⟩ k 0x29 R))
    have hf0' : Follows C (pItems ⟨T, ch⟩ (i + 1) (o1 :: os1) (pPunct ⟨T, ch⟩ k 0x29 R)) c0 r0 := by simpa [pItems] using hf0
    have s4 := items_good hT hT2 hC hch (o1 :: os1) hgood hwf (i + 1) nx'
      (⟨nx, .polRequired⟩ :: ⟨nx, .polContinue⟩ :: ⟨x0, .triplesEnd⟩ :: ⟨x0, .statement⟩ :: s) (c0 :: r0) _ _ none st.fresh.2 st2 qs1
      st.fresh.1 (by simp) hfc (envOf_fresh1 st ▸ rfl) rfl (by simpa using hxg) hdi (by rw [hf0'.1]; exact SkEq.rfl')
    refine ⟨_, true, nx, x0, after_skip (T := T) hC .punct (ch.at k) (slot_ok hch k) R, envOf_fresh1 st ▸ rfl, hxg,
      (by simp [subjIsBnpl]), ?_⟩
    have s3 := Steps.fol hT2 hC (f := ⟨x0, .collOpenSubj bn⟩)
      (s := ⟨nx, .polRequired⟩ :: ⟨nx, .polContinue⟩ :: ⟨x0, .triplesEnd⟩ :: ⟨x0, .statement⟩ :: s) (env := envOf st.fresh.2)
      (inp := c0 :: r0) (by rw [hf0'.1]; exact SkEq.rfl') hf0' (fn_collOpenSubj_item x0 _ bn c0 r0 n3 hxs) (by simpa [nx'] using s4)
    have s2 := Steps.fol hT2 hC (f := ⟨x0, .parenTop bn⟩) (s := ⟨x0, .statement⟩ :: s) (env := envOf st.fresh.2)
      (after_skip (T := T) hC .punct (ch.at i) (slot_ok hch i) _) hf0' (fn_parenTop_item x0 _ bn c0 r0 n3) (by simpa [nx] using s3)
    have s1 := Steps.tok hT2 hC (f := ⟨x0, .statement⟩) (s := s) (env := envOf st) hin htx
      (solid_delim (by decide) (by decide)) (by decide) (fn_statement_paren x0 (envOf st) _)
      (by simpa [bn, envOf_fresh2] using s2)
    simpa using s1

include hT hT2 hC hch in
theorem subjTop_bnpl (pos : List PO) (hne : pos ≠ []) (hfit : ∀ po ∈ pos, POFit T C ch po) : SubjTopGood T C ch (.bnpl pos) := by
  intro i x0 s inp R c r st st1 sT qs hf h7b hxs hxg hd hin
  simp only [dSubj, dObj] at hd
  cases hdp : dPOs C.resolve st.fresh.1 none st.fresh.2 pos with
  | none => simp [hdp] at hd
  | some res =>
    obtain ⟨qs1, st2⟩ := res
    simp only [hdp, Option.some.injEq, Prod.mk.injEq] at hd
    obtain ⟨rfl, rfl, rfl⟩ := hd
    let k := i + 1 + posSlots pos
    let bn := (envOf st).fresh.1
    let x' : Ectx := { x0 with subj := some bn }
    have hfc : Follows C (pPunct ⟨T, ch⟩ k 0x5d R) 0x5d (after T .punct (ch.at k) R) :=
      follows_solid hT2 hC (solid_delim (by decide) (by decide)) (by decide) _
    have htx : pSubj ⟨T, ch⟩ i (.bnpl pos) R = 0x5b :: after T .punct (ch.at i) (pPOs ⟨T, ch⟩ (i + 1) pos
        (pPunct ⟨T, ch⟩ k 0x5d R)) := by simp [pSubj, pObj, pPunct, k]
    obtain ⟨c0, r0, hf0, _, _, n5d⟩ := pPOs_follows hT2 hC hch pos hne hfit (i + 1) (pPunct ⟨T, ch⟩ k 0x5d R)
    have hA := after_skip (T := T) hC .punct (ch.at i) (slot_ok hch i) (pPOs ⟨T, ch⟩ (i + 1) pos (pPunct ⟨T, ch⟩ k 0x5d R))
    -- the inner list, then `]`
    have inner : ∀ (req : Bool) (S : List Frame), ∃ inp3, SkEq C inp3 R ∧
        Steps C .eof ⟨⟨x', if req then .polRequired else .pol⟩ :: ⟨x', .polContinue⟩ :: ⟨x', .bnplEnd⟩ :: S, c0 :: r0, envOf st.fresh.2⟩
          (qs1.map toStmt) ⟨S, inp3, envOf st2⟩ := by
      intro req S
      obtain ⟨inp2, he2, s2⟩ := posGood hT hT2 hC hch pos hfit (i + 1) x' (⟨x', .bnplEnd⟩ :: S) (c0 :: r0) _ 0x5d _ none st.fresh.2 st2 qs1
        st.fresh.1 req hfc (Or.inr (Or.inl rfl)) (envOf_fresh1 st ▸ rfl) (by simpa using hxg) hne hdp (by rw [hf0.1]; exact SkEq.rfl')
      refine ⟨_, after_skip (T := T) hC .punct (ch.at k) (slot_ok hch k) R, ?_⟩
      have s3 : Steps C .eof ⟨⟨x', .bnplEnd⟩ :: S, inp2, envOf st2⟩ [] ⟨S, after T .punct (ch.at k) R, envOf st2⟩ := by
        simpa using Steps.fol hT2 hC (f := ⟨x', .bnplEnd⟩) (s := S) (env := envOf st2) he2 hfc (fn_bnplEnd x' _ _) (Steps.refl _)
      exact steps_trans_nil s2 s3
    cases htr : C.trig with
    | false =>
      obtain ⟨inp3, he3, s3⟩ := inner true (⟨x', .pol⟩ :: ⟨x', .polContinue⟩ :: ⟨x', .triplesEnd⟩ :: ⟨x0, .statement⟩ :: s)
      refine ⟨inp3, false, x', x', he3, envOf_fresh1 st ▸ rfl, hxg, (fun _ => rfl), ?_⟩
      have s2 := Steps.fol hT2 hC (f := ⟨x', .subjAnonOrBNPL⟩) (s := ⟨x0, .statement⟩ :: s) (env := envOf st.fresh.2) hA hf0
        (fn_subjAnon_item x' _ c0 r0 n5d) (by simpa using s3)
      have s1 := Steps.tok hT2 hC (f := ⟨x0, .statement⟩) (s := s) (env := envOf st) hin htx
        (solid_delim (by decide) (by decide)) (by decide) (fn_statement_ttl_bracket htr x0 (envOf st) _)
        (by simpa [x', bn, envOf_fresh2] using s2)
      simpa using s1
    | true =>
      obtain ⟨inp3, he3, s4⟩ := inner false (⟨x', .pol⟩ :: ⟨x', .polContinue⟩ :: ⟨x', .triplesEnd⟩ :: ⟨x0, .statement⟩ :: s)
      refine ⟨inp3, false, x', x', he3, envOf_fresh1 st ▸ rfl, hxg, (fun _ => rfl), ?_⟩
      have s3 := Steps.fol hT2 hC (f := ⟨x', .triples2BNPL⟩) (s := ⟨x0, .statement⟩ :: s) (env := envOf st.fresh.2)
        (inp := c0 :: r0) (by rw [hf0.1]; exact SkEq.rfl') hf0 (fn_triples2BNPL_item x' _ c0 r0 n5d) (by simpa using s4)
      have s2 := Steps.fol hT2 hC (f := ⟨x0, .tgBracket bn⟩) (s := ⟨x0, .statement⟩ :: s) (env := envOf st.fresh.2) hA hf0
        (fn_tgBracket_item x0 _ bn c0 r0 n5d) (by simpa [x'] using s3)
      have s1 := Steps.tok hT2 hC (f := ⟨x0, .statement⟩) (s := s) (env := envOf st) hin htx
        (solid_delim (by decide) (by decide)) (by decide) (fn_statement_trig_bracket htr x0 (envOf st) _)
        (by simpa [bn, envOf_fresh2] using s2)
      simpa using s1

include hT hT2 hC hch in
theorem subjBody_coll (items : List Obj) (hne : items ≠ []) (hgood : ∀ o ∈ items, ObjGood T C ch o)
    (hwf : ∀ o ∈ items, objWf T o = true) : SubjBodyGood T C ch (.coll items) := by
  intro i xg g s inp R st st1 sT qs hxs hxg hd hin
  obtain ⟨o1, os1, rfl⟩ : ∃ o1 os1, items = o1 :: os1 := by
    cases items with
    | nil => exact absurd rfl hne
    | cons a b => exact ⟨a, b, rfl⟩
  simp only [dSubj, dObj] at hd
  cases hdi : dItems C.resolve g st.fresh.2 st.fresh.1 (o1 :: os1) with
  | none => simp [hdi] at hd
  | some res =>
    obtain ⟨qs1, st2⟩ := res
    simp only [hdi, Option.some.injEq, Prod.mk.injEq] at hd
    obtain ⟨rfl, rfl, rfl⟩ := hd
    let k := i + 1 + itemsSlots (o1 :: os1)
    let bn := (envOf st).fresh.1
    let nx : Ectx := { xg with subj := some bn }
    let nx' : Ectx := { xg with subj := some bn, pred := some (.iri TtlDoc.rdfFirst) }
    have hfc : Follows C (pPunct ⟨T, ch⟩ k 0x29 R) 0x29 (after T .punct (ch.at k) R) :=
      follows_solid hT2 hC (solid_delim (by decide) (by decide)) (by decide) _
    have htx : pSubj ⟨T, ch⟩ i (.coll (o1 :: os1)) R = 0x28 :: after T .punct (ch.at i) (pItems ⟨T, ch⟩ (i + 1) (o1 :: os1)
        (pPunct ⟨T, ch⟩ k 0x29 R)) := by simp [pSubj, pObj, pPunct, k]
    obtain ⟨c0, r0, hf0, _, _, n3⟩ := pObj_follows hT hT2 hC hch o1 (hwf o1 (by simp)) (i + 1)
      (pItems ⟨T, ch⟩ (i + 1 + objSlots o1) os1 (pPunct ⟨T, ch⟩ k 0x29 R))
    have hf0' : Follows C (pItems ⟨T, ch⟩ (i + 1) (o1 :: os1) (pPunct ⟨T, ch⟩ k 0x29 R)) c0 r0 := by simpa [pItems] using hf0
    have s4 := items_good hT hT2 hC hch (o1 :: os1) hgood hwf (i + 1) nx'
      (⟨nx, .polRequired⟩ :: ⟨nx, .polContinue⟩ :: s) (c0 :: r0) _ _ g st.fresh.2 st2 qs1
      st.fresh.1 (by simp) hfc (envOf_fresh1 st ▸ rfl) rfl hxg hdi (by rw [hf0'.1]; exact SkEq.rfl')
    refine ⟨_, true, nx, after_skip (T := T) hC .punct (ch.at k) (slot_ok hch k) R, envOf_fresh1 st ▸ rfl, hxg,
      (by simp [subjIsBnpl]), ?_⟩
    have s3 := Steps.fol hT2 hC (f := ⟨xg, .collOpenSubj bn⟩) (s := ⟨nx, .polRequired⟩ :: ⟨nx, .polContinue⟩ :: s)
      (env := envOf st.fresh.2) (inp := c0 :: r0) (by rw [hf0'.1]; exact SkEq.rfl') hf0'
      (fn_collOpenSubj_item xg _ bn c0 r0 n3 hxs) (by simpa [nx'] using s4)
    have s2 := Steps.fol hT2 hC (f := ⟨xg, .parenBlock bn⟩) (s := s) (env := envOf st.fresh.2)
      (after_skip (T := T) hC .punct (ch.at i) (slot_ok hch i) _) hf0' (fn_parenBlock_item xg _ bn c0 r0 n3) (by simpa [nx] using s3)
    have s1 := Steps.tok hT2 hC (f := ⟨xg, .triples⟩) (s := s) (env := envOf st) hin htx
      (solid_delim (by decide) (by decide)) (by decide) (fn_triples_paren xg (envOf st) _)
      (by simpa [bn, envOf_fresh2] using s2)
    simpa using s1

include hT hT2 hC hch in
theorem subjBody_bnpl (pos : List PO) (hne : pos ≠ []) (hfit : ∀ po ∈ pos, POFit T C ch po) : SubjBodyGood T C ch (.bnpl pos) := by
  intro i xg g s inp R st st1 sT qs hxs hxg hd hin
  simp only [dSubj, dObj] at hd
  cases hdp : dPOs C.resolve st.fresh.1 g st.fresh.2 pos with
  | none => simp [hdp] at hd
  | some res =>
    obtain ⟨qs1, st2⟩ := res
    simp only [hdp, Option.some.injEq, Prod.mk.injEq] at hd
    obtain ⟨rfl, rfl, rfl⟩ := hd
    let k := i + 1 + posSlots pos
    let bn := (envOf st).fresh.1
    let x' : Ectx := { xg with subj := some bn }
    have hfc : Follows C (pPunct ⟨T, ch⟩ k 0x5d R) 0x5d (after T .punct (ch.at k) R) :=
      follows_solid hT2 hC (solid_delim (by decide) (by decide)) (by decide) _
    have htx : pSubj ⟨T, ch⟩ i (.bnpl pos) R = 0x5b :: after T .punct (ch.at i) (pPOs ⟨T, ch⟩ (i + 1) pos
        (pPunct ⟨T, ch⟩ k 0x5d R)) := by simp [pSubj, pObj, pPunct, k]
    obtain ⟨inp2, he2, s2⟩ := posGood hT hT2 hC hch pos hfit (i + 1) x' (⟨x', .bnplEnd⟩ :: ⟨x', .pol⟩ :: ⟨x', .polContinue⟩ :: s)
      (after T .punct (ch.at i) (pPOs ⟨T, ch⟩ (i + 1) pos (pPunct ⟨T, ch⟩ k 0x5d R))) _ 0x5d _ g st.fresh.2 st2 qs1
      st.fresh.1 false hfc (Or.inr (Or.inl rfl)) (envOf_fresh1 st ▸ rfl) hxg hne hdp
      (after_skip (T := T) hC .punct (ch.at i) (slot_ok hch i) _)
    refine ⟨_, false, x', after_skip (T := T) hC .punct (ch.at k) (slot_ok hch k) R, envOf_fresh1 st ▸ rfl, hxg, (fun _ => rfl), ?_⟩
    have s3 : Steps C .eof ⟨⟨x', .bnplEnd⟩ :: ⟨x', .pol⟩ :: ⟨x', .polContinue⟩ :: s, inp2, envOf st2⟩ []
        ⟨⟨x', .pol⟩ :: ⟨x', .polContinue⟩ :: s, after T .punct (ch.at k) R, envOf st2⟩ := by
      simpa using Steps.fol hT2 hC (f := ⟨x', .bnplEnd⟩) (s := ⟨x', .pol⟩ :: ⟨x', .polContinue⟩ :: s) (env := envOf st2) he2 hfc
        (fn_bnplEnd x' _ _) (Steps.refl _)
    have s1 := Steps.tok hT2 hC (f := ⟨xg, .triples⟩) (s := s) (env := envOf st) hin htx
      (solid_delim (by decide) (by decide)) (by decide) (fn_triples_bracket xg (envOf st) _)
      (by simpa [x', bn, envOf_fresh2] using steps_trans_nil s2 s3)
    simpa using s1

/-! ### every well-formed document -/

include hT hT2 hC hch in
theorem subjTop_all (sj : Subj) (hwf : subjWf T sj = true) (hnb : subjNoBoolPfx sj = true) : SubjTopGood T C ch sj := by
  cases sj with
  | iri x1 => exact subjTop_iri hT hT2 hC hch x1 (by simpa [subjWf] using hwf)
  | bn l => exact subjTop_bn hT hT2 hC hch l (by simpa [subjWf] using hwf)
  | anon => exact subjTop_anon hT hT2 hC hch
  | bnpl pos =>
    simp only [subjWf, Bool.and_eq_true, Bool.not_eq_true', List.isEmpty_eq_false_iff] at hwf
    exact subjTop_bnpl hT hT2 hC hch pos hwf.1 (posFit_all hT hT2 hC hch pos hwf.2 (by simpa [subjNoBoolPfx] using hnb))
  | coll items =>
    have hall := itemsGood_all hT hT2 hC hch items (by simpa [subjWf] using hwf) (by simpa [subjNoBoolPfx] using hnb)
    have hw : ∀ o ∈ items, objWf T o = true := itemsWf_mem (by simpa [subjWf] using hwf)
    cases items with
    | nil => exact subjTop_nil hT hT2 hC hch
    | cons a b => exact subjTop_coll hT hT2 hC hch (a :: b) (by simp) hall hw

include hT hT2 hC hch in
theorem subjBody_all (sj : Subj) (hwf : subjWf T sj = true) (hnb : subjNoBoolPfx sj = true) : SubjBodyGood T C ch sj := by
  cases sj with
  | iri x1 => exact subjBody_flat hT hT2 hC hch (.iri x1) hwf (by simp [subjFlat])
  | bn l => exact subjBody_flat hT hT2 hC hch (.bn l) hwf (by simp [subjFlat])
  | anon => exact subjBody_flat hT hT2 hC hch .anon hwf (by simp [subjFlat])
  | bnpl pos =>
    simp only [subjWf, Bool.and_eq_true, Bool.not_eq_true', List.isEmpty_eq_false_iff] at hwf
    exact subjBody_bnpl hT hT2 hC hch pos hwf.1 (posFit_all hT hT2 hC hch pos hwf.2 (by simpa [subjNoBoolPfx] using hnb))
  | coll items =>
    have hall := itemsGood_all hT hT2 hC hch items (by simpa [subjWf] using hwf) (by simpa [subjNoBoolPfx] using hnb)
    have hw : ∀ o ∈ items, objWf T o = true := itemsWf_mem (by simpa [subjWf] using hwf)
    cases items with
    | nil => exact subjBody_flat hT hT2 hC hch (.coll []) hwf (by simp [subjFlat])
    | cons a b => exact subjBody_coll hT hT2 hC hch (a :: b) (by simp) hall hw

include hT hT2 hC hch in
theorem pSubj_follows_all (sj : Subj) (hwf : subjWf T sj = true) (i : Nat) (R : List Nat) :
    ∃ c r, Follows C (pSubj ⟨T, ch⟩ i sj R) c r ∧ c ≠ 0x7d := by
  have key : ∀ o : Obj, objWf T o = true → (∀ l, o ≠ .lit l) → ∃ c r, Follows C (pObj ⟨T, ch⟩ i o R) c r ∧ c ≠ 0x7d := by
    intro o ho hl
    cases o with
    | iri x1 =>
      obtain ⟨c, r, h1, _, h3, _⟩ := pVerb_follows hT2 hC hch (.iri x1) (by simpa [objWf, verbWf] using ho) i R
      exact ⟨c, r, by simpa [pObj, pVerb] using h1, h3⟩
    | lit l => exact absurd rfl (hl l)
    | bn l =>
      obtain ⟨c, r, h1, _, _, _⟩ := pObj_follows hT hT2 hC hch (.bn l) ho i R
      have : c = 0x5f := by have := h1.1; simp [pObj, pBNode] at this; exact this.1.symm
      exact ⟨c, r, h1, by omega⟩
    | anon =>
      obtain ⟨c, r, h1, _, _, _⟩ := pObj_follows hT hT2 hC hch .anon ho i R
      have : c = 0x5b := by have := h1.1; simp [pObj, pPunct] at this; exact this.1.symm
      exact ⟨c, r, h1, by omega⟩
    | bnpl pos =>
      obtain ⟨c, r, h1, _, _, _⟩ := pObj_follows hT hT2 hC hch (.bnpl pos) ho i R
      have : c = 0x5b := by have := h1.1; simp [pObj, pPunct] at this; exact this.1.symm
      exact ⟨c, r, h1, by omega⟩
    | coll items =>
      obtain ⟨c, r, h1, _, _, _⟩ := pObj_follows hT hT2 hC hch (.coll items) ho i R
      have : c = 0x28 := by have := h1.1; simp [pObj, pPunct] at this; exact this.1.symm
      exact ⟨c, r, h1, by omega⟩
  cases sj with
  | iri x1 => simpa [pSubj] using key (.iri x1) (by simpa [subjWf, objWf] using hwf) (by intro l h; cases h)
  | bn l => simpa [pSubj] using key (.bn l) (by simpa [subjWf, objWf] using hwf) (by intro l h; cases h)
  | anon => simpa [pSubj] using key .anon (by simp [objWf]) (by intro l h; cases h)
  | bnpl pos => simpa [pSubj] using key (.bnpl pos) (by simpa [subjWf, objWf] using hwf) (by intro l h; cases h)
  | coll items => simpa [pSubj] using key (.coll items) (by simpa [subjWf, objWf] using hwf) (by intro l h; cases h)

include hT hT2 hC hch in
theorem blockFit_all (b : Block) (hwf : blockWf T C.trig b = true) (hnb : blockNoBoolPfx b = true) : BlockFit T C ch b := by
  have htr : ∀ t, triplesWf T t = true → triplesNoBoolPfx t = true →
      subjWf T t.s = true ∧ subjNoBoolPfx t.s = true ∧ (t.pos ≠ [] ∨ subjIsBnpl t.s = true) ∧ ∀ po ∈ t.pos, POFit T C ch po := by
    intro t h1 h3
    simp only [triplesWf, Bool.and_eq_true, Bool.or_eq_true, Bool.not_eq_true', List.isEmpty_eq_false_iff] at h1
    simp only [triplesNoBoolPfx, Bool.and_eq_true] at h3
    exact ⟨h1.1.1, h3.1, h1.2, posFit_all hT hT2 hC hch t.pos h1.1.2 h3.2⟩
  cases b with
  | dir d => simpa [BlockFit, blockWf] using hwf
  | triples t =>
    obtain ⟨a, b', c, d⟩ := htr t (by simpa [blockWf] using hwf) (by simpa [blockNoBoolPfx] using hnb)
    exact ⟨subjTop_all hT hT2 hC hch t.s a b', c, d⟩
  | graph kw g body =>
    simp only [blockWf, Bool.and_eq_true, List.all_eq_true] at hwf
    simp only [blockNoBoolPfx, List.all_eq_true] at hnb
    refine ⟨hwf.1.1, ?_, ?_⟩
    · cases g with
      | none => simpa using hwf.1.2
      | some l => simpa using hwf.1.2
    · intro t ht
      obtain ⟨a, b', c, d⟩ := htr t (hwf.2 t ht) (hnb t ht)
      exact ⟨subjBody_all hT hT2 hC hch t.s a b', fun i R => pSubj_follows_all hT hT2 hC hch t.s a i R, c, d⟩

end
end RdfModel.C08
