/-
  Property C16 — captured text offsets, Turtle / TriG TOKEN producers
  (theorems only; proofs in RdfModel/Proofs/C16Ttl{Erase,Spec,Err}.lean).

  Models: `Model.TurtleOffsets` (namespace `TtlO`: the seven token producers of encoding/turtle and
  encoding/trig with Go's commit bookkeeping), `Model.TextWriter` (`TW`, `cursorio.TextWriter`),
  base producers `Model.TurtleTokens` (`Ttl`).  The driver runs `TtlO` (op `offx.tok`); T3 compares it
  with the Go producers through the hook `VerifProduceOffsets` (go/cmd/c16x).

  Conventions.  Input of a producer: decoded runes `(code point, byte size)` as `RuneBuffer.NextRune`
  yields them (an ill-formed byte is `(0xFFFD, 1)`), the first one being the rune the Go caller has
  already read; `s` is the bookkeeping state (rune buffer byte offset, writer history or `none` when
  capture is off) *before* that read.  All theorems hold for every input, both stream endings `e`,
  every table set `T`, both packages (`trig`), capture on or off, any writer history.

  Flags: `legacy` (`produceString` before patch c16x-1, DESIGN D18) and `labelOnly`
  (`produceBlankNode` before patch c16x-2).  Erasure holds for all flag values; commit discipline and
  exact ranges are stated for the repaired code (`legacy = false`; `labelOnly` either way, the range
  then covers the label with or without its `_:`), and refuted for `legacy = true` by a witness.

  NOT covered here: the statement layer (`Model.TurtleDoc` is not instrumented): white space and
  comment commits of `scan`, the single-rune commits of `.`, `;`, `,`, `[`, `]`, `(`, `)`, `{`, `}`,
  `a`, `^^`, keyword commits of the directives, `true`/`false`, and how ranges are attached to
  statements.  Those are covered by the oracle of go/cmd/c16x only.  Token re-parsing
  (`Ttl.produceX` on the range's text gives the same value) is not proved (oracle only).
-/
import RdfModel.Props.C16TtlDefs
import RdfModel.Proofs.C16TtlErr
import RdfModel.Gen.TtlTables
namespace RdfModel.C16Ttl
open RdfModel RdfModel.TW RdfModel.NQO RdfModel.TtlO RdfModel.C16

/-! ## 1. Offsets do not change the tokens (erasure)

Forgetting sizes, buffer offset, writer history, range and error offset of an instrumented producer
gives exactly the result of the base producer `Ttl.produceX` (Model/TurtleTokens.lean) on the code
points: same token value, same remaining input, same error class, same panic outcome — for every
state `s`, so in particular with capture on and with capture off. -/

theorem erase_IRIREF (T : Tables) (e : End) (s : S) (inp : List RP) :
    (TtlO.produceIRIREF T e s inp).erase = Ttl.produceIRIREF T e (runes inp) :=
  Proofs.C16Ttl.produceIRIREF_erase T e s inp

theorem erase_String (T : Tables) (e : End) (legacy : Bool) (s : S) (inp : List RP) :
    (TtlO.produceString T e legacy s inp).erase = Ttl.produceString T e (runes inp) :=
  Proofs.C16Ttl.produceString_erase T e legacy s inp

theorem erase_PNAME_NS (T : Tables) (e : End) (trig : Bool) (s : S) (inp : List RP) :
    (TtlO.producePNAME_NS T e trig s inp).erase = Ttl.producePNAME_NS T e (runes inp) :=
  Proofs.C16Ttl.producePNAME_NS_erase T e trig s inp

theorem erase_PrefixedName (T : Tables) (e : End) (trig : Bool) (s : S) (inp : List RP) :
    (TtlO.producePrefixedName T e trig s inp).erase = Ttl.producePrefixedName T e (runes inp) :=
  Proofs.C16Ttl.producePrefixedName_erase T e trig s inp

theorem erase_BlankNode (T : Tables) (e : End) (labelOnly : Bool) (s : S) (inp : List RP) :
    (TtlO.produceBlankNode T e labelOnly s inp).erase = Ttl.produceBlankNode T e (runes inp) :=
  Proofs.C16Ttl.produceBlankNode_erase T e labelOnly s inp

theorem erase_LANGTAG (e : End) (s : S) (inp : List RP) :
    (TtlO.produceLANGTAG e s inp).erase = Ttl.produceLANGTAG e (runes inp) :=
  Proofs.C16Ttl.produceLANGTAG_erase e s inp

theorem erase_NumericLiteral (e : End) (s : S) (inp : List RP) :
    (TtlO.produceNumericLiteral e s inp).erase = Ttl.produceNumericLiteral e (runes inp) :=
  Proofs.C16Ttl.produceNumericLiteral_erase e s inp

/-- In particular turning capture on changes no token (shown for `produceString`; the other six
    follow from their erasure theorem in the same way). -/
theorem capture_irrelevant_String (T : Tables) (e : End) (legacy : Bool) (inp : List RP) :
    (TtlO.produceString T e legacy (S.init true) inp).erase
      = (TtlO.produceString T e legacy (S.init false) inp).erase := by
  rw [erase_String, erase_String]

/-! ## 2. Commit discipline and exact ranges (repaired code)

`Consumed s inp pre body rg s' rest` (Props/C16TtlDefs.lean): the call consumed exactly `pre ++ body`
(`inp = pre ++ body ++ rest`), the rune buffer advanced by exactly that many bytes, the runes
committed to the writer during the call are exactly `pre ++ body` in order — each consumed rune
once, nothing else, so *committed ++ left-in-buffer = input* — and the reported range delimits
exactly `body` (`fr` = history before the call plus `pre`, `un` = plus `body`); no range without a
writer.  Each theorem adds what the token text looks like. -/

/-- IRIREF: one chunk, the whole `<…>`. -/
theorem spec_IRIREF (T : Tables) (e : End) (s : S) (inp : List RP) (v : List Nat)
    (rg : Option SRange) (s' : S) (rest : List RP)
    (h : TtlO.produceIRIREF T e s inp = .ok v rg s' rest) :
    ∃ tok, Consumed s inp [] tok rg s' rest ∧ (runes tok).head? = some 0x3c ∧
      (runes tok).getLast? = some 0x3e ∧ 2 ≤ tok.length := by
  obtain ⟨tok, h1, h2, h3, h4⟩ := Proofs.C16Ttl.produceIRIREF_ok T e s inp v rg s' rest h
  exact ⟨tok, Proofs.C16Ttl.consumed_one h1, h2, h3, h4⟩

/-- String (all four quoting styles): one chunk, from the opening to the closing quote rune. -/
theorem spec_String (T : Tables) (e : End) (s : S) (inp : List RP) (v : List Nat)
    (rg : Option SRange) (s' : S) (rest : List RP)
    (h : TtlO.produceString T e false s inp = .ok v rg s' rest) :
    ∃ tok q, Consumed s inp [] tok rg s' rest ∧ (q = 0x22 ∨ q = 0x27) ∧ (runes tok).head? = some q ∧
      (runes tok).getLast? = some q ∧ 2 ≤ tok.length := by
  obtain ⟨tok, q, h1, h2, h3, h4, h5⟩ := Proofs.C16Ttl.produceString_ok T e s inp v rg s' rest h
  exact ⟨tok, q, Proofs.C16Ttl.consumed_one h1, h2, h3, h4, h5⟩

/-- PNAME_NS: one chunk ending in `:`. -/
theorem spec_PNAME_NS (T : Tables) (e : End) (trig : Bool) (s : S) (inp : List RP) (v : List Nat)
    (rg : Option SRange) (s' : S) (rest : List RP)
    (h : TtlO.producePNAME_NS T e trig s inp = .ok v rg s' rest) :
    ∃ tok, Consumed s inp [] tok rg s' rest ∧ (runes tok).getLast? = some 0x3a := by
  obtain ⟨tok, h1, h2⟩ := Proofs.C16Ttl.producePNAME_NS_ok T e trig s inp v rg s' rest h
  exact ⟨tok, Proofs.C16Ttl.consumed_one h1, h2⟩

/-- PrefixedName: two chunks (namespace part ending in `:`, then the local part); the range runs
    from the start of the first to the end of the second. -/
theorem spec_PrefixedName (T : Tables) (e : End) (trig : Bool) (s : S) (inp : List RP)
    (v : List Nat × List Nat) (rg : Option SRange) (s' : S) (rest : List RP)
    (h : TtlO.producePrefixedName T e trig s inp = .ok v rg s' rest) :
    ∃ ns loc, Consumed s inp [] (ns ++ loc) rg s' rest ∧ (runes ns).getLast? = some 0x3a := by
  obtain ⟨ns, loc, h1, h2⟩ := Proofs.C16Ttl.producePrefixedName_ok T e trig s inp v rg s' rest h
  exact ⟨ns, loc, Proofs.C16Ttl.consumed_two_whole h1, h2⟩

/-- Blank node label (repaired, patch c16x-2): `_:` is committed, then the label; the range covers
    `_:label`, and the decoded label is exactly the text after `_:`. -/
theorem spec_BlankNode (T : Tables) (e : End) (s : S) (inp : List RP) (v : List Nat)
    (rg : Option SRange) (s' : S) (rest : List RP)
    (h : TtlO.produceBlankNode T e false s inp = .ok v rg s' rest) :
    ∃ c0 c1 lab, Consumed s inp [] ([c0, c1] ++ lab) rg s' rest ∧ c0.1 = 0x5f ∧ c1.1 = 0x3a ∧
      v = goString (runes lab) := by
  obtain ⟨c0, c1, lab, h1, h2, h3, h4⟩ := Proofs.C16Ttl.produceBlankNode_ok T e false s inp v rg s' rest h
  exact ⟨c0, c1, lab, Proofs.C16Ttl.consumed_two_whole h1, h2, h3, h4⟩

/-- Blank node label before patch c16x-2: same commits, but the range covers the label only. -/
theorem spec_BlankNode_labelOnly (T : Tables) (e : End) (s : S) (inp : List RP) (v : List Nat)
    (rg : Option SRange) (s' : S) (rest : List RP)
    (h : TtlO.produceBlankNode T e true s inp = .ok v rg s' rest) :
    ∃ c0 c1 lab, Consumed s inp [c0, c1] lab rg s' rest ∧ c0.1 = 0x5f ∧ c1.1 = 0x3a ∧
      v = goString (runes lab) := by
  obtain ⟨c0, c1, lab, h1, h2, h3, h4⟩ := Proofs.C16Ttl.produceBlankNode_ok T e true s inp v rg s' rest h
  exact ⟨c0, c1, lab, Proofs.C16Ttl.consumed_two_body h1, h2, h3, h4⟩

/-- LANGTAG: `@` is committed, then the tag; the range covers the tag only (the decoder's documented
    behaviour: the object range of a literal never includes the tag), and the decoded tag is exactly
    that text. -/
theorem spec_LANGTAG (e : End) (s : S) (inp : List RP) (v : List Nat)
    (rg : Option SRange) (s' : S) (rest : List RP)
    (h : TtlO.produceLANGTAG e s inp = .ok v rg s' rest) :
    ∃ a0 tag, Consumed s inp [a0] tag rg s' rest ∧ a0.1 = 0x40 ∧ v = goString (runes tag) := by
  obtain ⟨a0, tag, h1, h2, h3⟩ := Proofs.C16Ttl.produceLANGTAG_ok e s inp v rg s' rest h
  exact ⟨a0, tag, Proofs.C16Ttl.consumed_two_body h1, h2, h3⟩

/-- NumericLiteral: one chunk, and the lexical form is exactly that text (a final `.` is handed back
    and belongs to neither). -/
theorem spec_NumericLiteral (e : End) (s : S) (inp : List RP) (v : Ttl.NumKind × List Nat)
    (rg : Option SRange) (s' : S) (rest : List RP)
    (h : TtlO.produceNumericLiteral e s inp = .ok v rg s' rest) :
    ∃ tok, Consumed s inp [] tok rg s' rest ∧ v.2 = goString (runes tok) := by
  obtain ⟨tok, h1, h2⟩ := Proofs.C16Ttl.produceNumericLiteral_ok e s inp v rg s' rest h
  exact ⟨tok, Proofs.C16Ttl.consumed_one h1, h2⟩

/-! ## 3. What `Consumed` means for the concrete offsets the API shows -/

/-- **Range positions.** If the writer held the text `before` (everything committed so far) when the
    producer was called, the reported `From`/`Until` are the positions of `body` in the text
    `before ++ pre ++ body`: byte = initial byte + bytes before it (resp. up to its end), line =
    initial line + LFs before it, for *every* cluster counter; and equal to the position computed
    from the text, column included (`TW.posAfter`), whenever that text is `TW.simple` and the
    counter counts one cluster per rune on simple text (`ColsSimple`, e.g. `onePer`). In particular
    `From ≤ Until` in bytes and lines. -/
theorem range_positions (cols : List Nat → Nat) (init : Offset) {s s' : S} {inp pre body rest : List RP}
    {rg : Option SRange} (hc : Consumed s inp pre body rg s' rest) (h : Hist) (hh : s.doc = some h) :
    ∃ fr un, rg = some (fr, un) ∧
      RangeAt cols init (histRunes h ++ pre) body (histOffset cols init fr) (histOffset cols init un) := by
  obtain ⟨fr, un, h1, h2, h3⟩ := hc.range h hh
  exact ⟨fr, un, h1, Proofs.C16Ttl.rangeAt_of cols init fr un _ _ h2 (by rw [h3, List.append_assoc])⟩

/-- **Writer position.** After the call the writer's byte offset has advanced by exactly the bytes
    consumed and its line by exactly the LFs consumed (every cluster counter): the writer stays in
    step with the rune buffer. -/
theorem writer_advances (cols : List Nat → Nat) (init : Offset) {s s' : S} {inp pre body rest : List RP}
    {rg : Option SRange} (hc : Consumed s inp pre body rg s' rest) (h : Hist) (hh : s.doc = some h) :
    ∃ h', s'.doc = some h' ∧
      (histOffset cols init h').byte = (histOffset cols init h).byte + size (pre ++ body) ∧
      (histOffset cols init h').line = (histOffset cols init h).line + countLF (pre ++ body) ∧
      s'.bo = s.bo + size (pre ++ body) := by
  obtain ⟨h', h1, h2⟩ := hc.committed h hh
  refine ⟨h', h1, ?_, ?_, hc.bo⟩
  · rw [Proofs.C16.histOffset_byte, Proofs.C16.histOffset_byte, h2, Proofs.C16.size_append]; omega
  · rw [Proofs.C16.histOffset_line, Proofs.C16.histOffset_line, h2, Proofs.C16.countLF_append]; omega

/-- `InStep` is preserved: if the writer was in step with the rune buffer before the call, it is
    afterwards (so the theorems chain over consecutive tokens). -/
theorem inStep_preserved {s s' : S} {inp pre body rest : List RP} {rg : Option SRange}
    (hc : Consumed s inp pre body rg s' rest) (hs : InStep s) : InStep s' := by
  intro h' hh'
  cases hd : s.doc with
  | none => have := hc.capture; simp [hd, hh'] at this
  | some h =>
    obtain ⟨h'', h1, h2⟩ := hc.committed h hd
    rw [hh'] at h1
    cases h1
    rw [h2, Proofs.C16.size_append, hs h hd, hc.bo]

/-! ## 4. Error offsets lie inside the input (repaired code)

`InStep s`: the writer holds exactly what the rune buffer has handed out (true whenever the statement
layer calls a producer).  Then the offset attached to a producer's error refers to a byte position
between the initial byte offset and the initial byte offset + (bytes before the call + bytes of the
input); a bare byte offset (capture off) is at most bytes before + bytes of the input. -/

theorem err_inside_IRIREF (T : Tables) (e : End) (cols : List Nat → Nat) (init : Offset) (s : S)
    (inp : List RP) (c : EClass) (o : EOff) (hs : InStep s)
    (h : TtlO.produceIRIREF T e s inp = .err c o) :
    ErrInside init (s.bo + size inp) (evalEOff cols init o) :=
  Proofs.C16Ttl.errInside_of_bound cols init o _ (Proofs.C16Ttl.produceIRIREF_err T e s inp c o hs h)

theorem err_inside_String (T : Tables) (e : End) (cols : List Nat → Nat) (init : Offset) (s : S)
    (inp : List RP) (c : EClass) (o : EOff) (hs : InStep s)
    (h : TtlO.produceString T e false s inp = .err c o) :
    ErrInside init (s.bo + size inp) (evalEOff cols init o) :=
  Proofs.C16Ttl.errInside_of_bound cols init o _ (Proofs.C16Ttl.produceString_err T e s inp c o hs h)

theorem err_inside_PNAME_NS (T : Tables) (e : End) (trig : Bool) (cols : List Nat → Nat) (init : Offset)
    (s : S) (inp : List RP) (c : EClass) (o : EOff) (hs : InStep s)
    (h : TtlO.producePNAME_NS T e trig s inp = .err c o) :
    ErrInside init (s.bo + size inp) (evalEOff cols init o) :=
  Proofs.C16Ttl.errInside_of_bound cols init o _ (Proofs.C16Ttl.producePNAME_NS_err T e trig s inp c o hs h)

theorem err_inside_PrefixedName (T : Tables) (e : End) (trig : Bool) (cols : List Nat → Nat)
    (init : Offset) (s : S) (inp : List RP) (c : EClass) (o : EOff) (hs : InStep s)
    (h : TtlO.producePrefixedName T e trig s inp = .err c o) :
    ErrInside init (s.bo + size inp) (evalEOff cols init o) :=
  Proofs.C16Ttl.errInside_of_bound cols init o _
    (Proofs.C16Ttl.producePrefixedName_err T e trig s inp c o hs h)

theorem err_inside_BlankNode (T : Tables) (e : End) (labelOnly : Bool) (cols : List Nat → Nat)
    (init : Offset) (s : S) (inp : List RP) (c : EClass) (o : EOff) (hs : InStep s)
    (h : TtlO.produceBlankNode T e labelOnly s inp = .err c o) :
    ErrInside init (s.bo + size inp) (evalEOff cols init o) :=
  Proofs.C16Ttl.errInside_of_bound cols init o _
    (Proofs.C16Ttl.produceBlankNode_err T e labelOnly s inp c o hs h)

theorem err_inside_LANGTAG (e : End) (cols : List Nat → Nat) (init : Offset) (s : S)
    (inp : List RP) (c : EClass) (o : EOff) (hs : InStep s)
    (h : TtlO.produceLANGTAG e s inp = .err c o) :
    ErrInside init (s.bo + size inp) (evalEOff cols init o) :=
  Proofs.C16Ttl.errInside_of_bound cols init o _ (Proofs.C16Ttl.produceLANGTAG_err e s inp c o hs h)

theorem err_inside_NumericLiteral (e : End) (cols : List Nat → Nat) (init : Offset) (s : S)
    (inp : List RP) (c : EClass) (o : EOff) (hs : InStep s)
    (h : TtlO.produceNumericLiteral e s inp = .err c o) :
    ErrInside init (s.bo + size inp) (evalEOff cols init o) :=
  Proofs.C16Ttl.errInside_of_bound cols init o _
    (Proofs.C16Ttl.produceNumericLiteral_err e s inp c o hs h)

/-! ## 5. The defects, as facts about the model (witnesses)

D18 (`legacy = true`): `"" .` — `produceString` hands the space back to the buffer *and* commits it:
the committed runes plus what is left are one rune more than the input, and the range of the empty
string is three bytes long. -/

def d18 : List RP := (asc "\"\" .").map (fun c => (c, 1))

/-- Commit discipline fails for the unrepaired `produceString`: after the call the writer holds 3
    runes, 2 remain in the buffer, but the input has only 4; the reported range is bytes 0–3. -/
theorem string_discipline_fails_legacy :
    (match TtlO.produceString Gen.turtle .eof true (S.init true) d18 with
      | .ok _ rg s' rest =>
        (s'.doc.map (fun h => (histRunes h).length), rest.length, d18.length,
          rg.map (fun r => ((evalRange onePer zero r).1.byte, (evalRange onePer zero r).2.byte)))
      | _ => (none, 0, 0, none)) = (some 3, 2, 4, some (0, 3)) := by
  decide

/-- … and the repaired code commits exactly the two quotes (range bytes 0–2). -/
example :
    (match TtlO.produceString Gen.turtle .eof false (S.init true) d18 with
      | .ok _ rg s' rest =>
        (s'.doc.map (fun h => (histRunes h).length), rest.length,
          rg.map (fun r => ((evalRange onePer zero r).1.byte, (evalRange onePer zero r).2.byte)))
      | _ => (none, 0, none)) = (some 2, 2, some (0, 2)) := by
  decide

/-- The blank node range before / after patch c16x-2 on `_:b0 `: bytes 2–4 (label) vs 0–4 (token). -/
def bnWitness : List RP := (asc "_:b0 ").map (fun c => (c, 1))

theorem blank_node_range_label_only :
    ((match TtlO.produceBlankNode Gen.turtle .eof true (S.init true) bnWitness with
      | .ok _ rg _ _ => rg.map (fun r => ((evalRange onePer zero r).1.byte, (evalRange onePer zero r).2.byte))
      | _ => none),
     (match TtlO.produceBlankNode Gen.turtle .eof false (S.init true) bnWitness with
      | .ok _ rg _ _ => rg.map (fun r => ((evalRange onePer zero r).1.byte, (evalRange onePer zero r).2.byte))
      | _ => none)) = (some (2, 4), some (0, 4)) := by
  decide

/-! ## Non-vacuity -/

/-- The hypotheses of the `spec_*` theorems are satisfiable: a prefixed name with a two-byte rune, an
    escaped dot and a trailing dot that is handed back; the range is bytes 10–19 of a writer started
    at byte 10, line 2, column 3 — nine bytes but eight columns. -/
def pnameWitness : List RP :=
  (asc "ex:a").map (fun c => (c, 1)) ++ [(0xe9, 2)] ++ (asc "\\.b. ").map (fun c => (c, 1))

example :
    (match TtlO.producePrefixedName Gen.turtle .eof false (S.init true) pnameWitness with
      | .ok v rg s' rest => (v, rg.map (evalRange onePer ⟨10, 2, 3⟩), s'.bo, runes rest)
      | _ => (([], []), none, 0, [])) =
    ((asc "ex", asc "a" ++ [0xe9] ++ asc ".b"), some (⟨10, 2, 3⟩, ⟨19, 2, 11⟩), 9, asc ". ") := by
  decide

/-- `InStep` holds for the initial state (capture on or off), so the `err_inside_*` theorems apply to
    a producer called on a fresh decoder; an error with an offset: `<a b>` fails at the space, the
    offset is byte 2 (the runes read before it). -/
example : InStep (S.init true) ∧ InStep (S.init false) := by
  constructor <;> intro h hh <;> simp [S.init] at hh <;> subst hh <;> rfl

example :
    (match TtlO.produceIRIREF Gen.turtle .eof (S.init true) ((asc "<a b>").map (fun c => (c, 1))) with
      | .err c o => some (c, evalEOff onePer zero o)
      | _ => none) = some (.syntax, .text ⟨2, 0, 2⟩) := by
  decide

end RdfModel.C16Ttl
