package main

// Delta debugging on abstract trees for the soup families: remove children and attributes while the decoder and the
// fragment semantics still differ. Used on the first few failures of a run (and by -replay) to report small witnesses.

import (
	"verifharness/vh"
)

func cloneNode(n *Node) *Node {
	if n.Text != nil {
		s := *n.Text
		return T(s)
	}
	m := &Node{Tag: n.Tag, Attrs: append([]Attr(nil), n.Attrs...)}
	for _, k := range n.Kids {
		m.Kids = append(m.Kids, cloneNode(k))
	}
	return m
}

// differs: does family's decoder still disagree with the model on doc?
func (h *harness) differs(family, base string, doc *Node) bool {
	op, dec := "html.rdfa", decodeRdfa
	if family == "md-soup" {
		op, dec = "html.md", decodeMd
	}
	text := (&layout{r: h.r, plain: true}).renderDoc(doc)
	if ok, _ := verbatim(doc, text); !ok {
		return false
	}
	ans, err := h.drv.Run([]string{op + " " + vh.XS(base) + " " + doc.Wire()})
	if err != nil {
		return false
	}
	model, ok, err := parseDenoteAnswer(ans[0])
	if err != nil || !ok {
		return false
	}
	res := dec(text, base, 0)
	if res.panic != "" || res.err != "" {
		return true
	}
	return !vh.Isomorphic(res.quads, newBnSpace().quads(model, ""))
}

// shrink returns a locally minimal tree on which `differs` still holds.
func (h *harness) shrink(family, base string, doc *Node) *Node {
	cur := cloneNode(doc)
	for changed := true; changed; {
		changed = false
		// every element below body, by path
		var paths [][]int
		var walk func(n *Node, p []int)
		walk = func(n *Node, p []int) {
			if n.Text != nil {
				return
			}
			for i, k := range n.Kids {
				q := append(append([]int(nil), p...), i)
				paths = append(paths, q)
				walk(k, q)
			}
		}
		walk(cur.Kids[1], []int{1})
		at := func(root *Node, p []int) (*Node, *Node, int) {
			var parent *Node
			n := root
			idx := 0
			for _, i := range p {
				parent, n, idx = n, n.Kids[i], i
			}
			return parent, n, idx
		}
		for i := len(paths) - 1; i >= 0 && !changed; i-- {
			// 1. drop the node; 2. replace it by its children; 3. drop one attribute
			try := cloneNode(cur)
			parent, n, idx := at(try, paths[i])
			parent.Kids = append(parent.Kids[:idx:idx], parent.Kids[idx+1:]...)
			if h.differs(family, base, try) {
				cur, changed = try, true
				break
			}
			if n.Text == nil && len(n.Kids) > 0 {
				try = cloneNode(cur)
				parent, n, idx = at(try, paths[i])
				parent.Kids = append(parent.Kids[:idx:idx], append(n.Kids, parent.Kids[idx+1:]...)...)
				if h.differs(family, base, try) {
					cur, changed = try, true
					break
				}
			}
			if n.Text == nil {
				for a := range n.Attrs {
					try = cloneNode(cur)
					_, m, _ := at(try, paths[i])
					m.Attrs = append(m.Attrs[:a:a], m.Attrs[a+1:]...)
					if h.differs(family, base, try) {
						cur, changed = try, true
						break
					}
				}
			}
		}
	}
	return cur
}
