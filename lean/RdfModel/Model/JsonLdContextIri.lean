/-
  RdfModel.Model.JsonLdContextIri — the instance of the parsed-IRI parameter of Model/JsonLdContext.lean
  with the model of `iri.ParsedIRI` (Model/ParsedIRI.lean) and of `net/url` (Model/GoUrlFull.lean).
  Core-only; this is what the driver runs.
-/
import RdfModel.Model.JsonLdContext
import RdfModel.Model.ParsedIRI
namespace RdfModel.JLC
open RdfModel.PIRI

def piriOps : IriOps ParsedIRI where
  parse s := match parseIRI s with
    | .ok p => .ok p
    | .error .unmodelled => .unmodelled
    | .error .panic => .panic
    | .error _ => .err
  isAbs p := p.isAbs
  resolve b r := match b.resolveReference r with
    | .ok p => some p
    | .panic => none
  str p := p.str
  goAbs s := match GoUrlFull.parse s with
    | .ok u => if u.isAbs then .yes else .no
    | .error .unmodelled => .unmodelled
    | .error .panic => .panic
    | .error _ => .no

end RdfModel.JLC
