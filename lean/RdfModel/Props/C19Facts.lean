/-
  Property C19 — T2 tie: structural facts regenerated from /repo's x/storage/inmemory on every run
  (go/cmd/extract/gen_c19.go → Gen/DatasetFacts.lean) that the hand-written model relies on.
-/
import RdfModel.Gen.DatasetFacts
namespace RdfModel.C19
open RdfModel.Gen

/-- Every call of `bindNode` passes the literal `true` for `write`: the model's `bindNode` has no
    `write = false` branch. -/
theorem gen_bindNode_always_writes :
    DatasetFacts.bindNodeWriteArgs ≠ [] ∧ DatasetFacts.bindNodeWriteArgs.all (· == "true") = true := by decide

/-- The dataset's state maps are written by exactly the functions the model's operations follow:
    `assertedBySubject` by `addQuad`/`DeleteQuad`, `graphs` by `NewDataset`/`createGraph`, the three
    node maps by `bindNode`. (Iterators, `HasQuad`, `GetQuadStatement` write only through
    `bindStatement → bindNode`, as modelled.) -/
theorem gen_state_writers :
    DatasetFacts.writers =
      [("assertedBySubject", "DeleteQuad"), ("assertedBySubject", "addQuad"),
       ("graphs", "NewDataset"), ("graphs", "createGraph"),
       ("nodesByBlankNodeRef", "bindNode"), ("nodesByIRI", "bindNode"), ("nodesByLiteral", "bindNode")] := by decide

end RdfModel.C19
