package main

// Stage "encode": /repo's JSON-LD encoder against Model.JsonLdEncoder (T3), and the round-trip oracle
// (encoder output decoded by /repo's decoder is isomorphic to the input; natively written literals are
// compared by value).

import (
	"encoding/hex"
	"fmt"
	"math"
	"math/big"
	"sort"
	"strconv"
	"strings"

	"verifharness/vh"

	"github.com/dpb587/rdfkit-go/iri"
	"github.com/dpb587/rdfkit-go/rdf"
)

func (h *harness) genEncCfg(qs []vh.GQuad) encCfg {
	r := h.r
	var c encCfg
	c.buffered = r.Chance(40)
	preds, others, dts := datasetIRIs(qs)
	all := append(append(append([]string{}, preds...), others...), dts...)
	if r.Chance(45) && len(all) > 0 {
		b := nsOf(vh.Pick(r, all))
		switch r.Intn(5) {
		case 0:
			b += "doc"
		case 1:
			b += "sub/doc.jsonld"
		case 2:
			b = vh.Pick(r, all)
		case 3:
			b += "doc?q=1"
		}
		if pb, err := iri.ParseBaseIRI(b); goodIRI(b) && err == nil && pb != nil {
			c.base = b
		}
	}
	if r.Chance(65) && len(all) > 0 {
		for i, n := 0, 1+r.Intn(4); i < n; i++ {
			ns := nsOf(vh.Pick(r, all))
			if r.Chance(12) && len(ns) > 3 {
				ns = ns[:len(ns)-1]
			}
			name := vh.Pick(r, prefixNames)
			if r.Chance(12) {
				name = vh.Pick(r, []string{"", "_", "a:b", "a/b", "@type", "@foo", "x", "@1", "@a1"})
			}
			c.prefixes = append(c.prefixes, [2]string{name, ns})
		}
	}
	return c
}

// canonValue renders a JSON tree insensitive to member order, numbers by value. Array elements are
// compared in order unless sortArrays is set (buffered mode sorts them by their serialisation); the
// items of the top-level @graph array are always compared as a set (their order is Go's map order).
func canonValue(v *JV, sortArrays bool) string { return canonValueAt(v, sortArrays, true) }

func canonValueAt(v *JV, sortArrays, top bool) string {
	switch v.kind {
	case jInt:
		return "#" + strconv.FormatFloat(float64(v.i), 'g', -1, 64)
	case jDbl:
		f, err := strconv.ParseFloat(v.s, 64)
		if err != nil {
			return "#?" + v.s
		}
		return "#" + strconv.FormatFloat(f+0, 'g', -1, 64) // -0 and 0 are one value
	case jArr:
		parts := make([]string, len(v.xs))
		for i, x := range v.xs {
			parts[i] = canonValueAt(x, sortArrays, false)
		}
		if sortArrays {
			sort.Strings(parts)
		}
		return "[" + strings.Join(parts, ",") + "]"
	case jObj:
		parts := make([]string, len(v.ms))
		for i, m := range v.ms {
			if top && m.k == "@graph" && m.v.kind == jArr {
				items := make([]string, len(m.v.xs))
				for j, x := range m.v.xs {
					items[j] = canonValueAt(x, sortArrays, false)
				}
				sort.Strings(items)
				parts[i] = strconv.Quote(m.k) + ":[" + strings.Join(items, ",") + "]"
				continue
			}
			parts[i] = strconv.Quote(m.k) + ":" + canonValueAt(m.v, sortArrays, false)
		}
		sort.Strings(parts)
		return "{" + strings.Join(parts, ",") + "}"
	default:
		return v.wire()
	}
}

// normNative maps literals of the natively written datatypes to a canonical rendering of their value.
func normNative(t rdf.Term) rdf.Term {
	l, ok := t.(rdf.Literal)
	if !ok {
		return t
	}
	switch string(l.Datatype) {
	case xsdNS + "integer":
		s := strings.TrimPrefix(l.LexicalForm, "+")
		if i, ok := new(big.Int).SetString(s, 10); ok && !strings.ContainsAny(s, "_ ") {
			l.LexicalForm = i.String()
		}
	case xsdNS + "double":
		s := l.LexicalForm
		switch s {
		case "INF", "+INF", "-INF", "NaN":
		default:
			if f, err := strconv.ParseFloat(s, 64); err == nil && !math.IsInf(f, 0) && !strings.ContainsAny(s, "xXpP_iInN") {
				if f == math.Trunc(f) && math.Abs(f) < 1e21 {
					// an integral double is read back as xsd:integer by every JSON-LD processor
					// (JSON has one number type): value preserved, datatype not
					l.Datatype = rdf.IRI(xsdNS + "integer")
					l.LexicalForm = strconv.FormatFloat(f, 'f', -1, 64)
					if f == 0 {
						l.LexicalForm = "0"
					}
				} else {
					l.LexicalForm = canonicalDouble(f)
				}
			}
		}
	case xsdNS + "boolean":
		switch l.LexicalForm {
		case "1":
			l.LexicalForm = "true"
		case "0":
			l.LexicalForm = "false"
		}
	}
	return l
}

func normQuads(qs []rdf.Quad) []rdf.Quad {
	out := make([]rdf.Quad, len(qs))
	for i, q := range qs {
		q.Triple.Object = normNative(q.Triple.Object).(rdf.ObjectValue)
		out[i] = q
	}
	return out
}

// natural2Hyps: the hypotheses of encoder_roundtrip_natural_partial as flags of the driver's jl.cert.
var natural2Hyps = []string{"wf", "nonative", "lbl", "ctx", "loc", "struct"}

func hasNativeTyped(qs []vh.GQuad) bool {
	for _, q := range qs {
		if q.O.Kind == vh.KLit && (q.O.DT == xsdNS+"integer" || q.O.DT == xsdNS+"double" || q.O.DT == xsdNS+"boolean") {
			return true
		}
	}
	return false
}

func hasNamedGraph(qs []vh.GQuad) bool {
	for _, q := range qs {
		if q.G != nil {
			return true
		}
	}
	return false
}

// relativeRefs collects the "@id" strings of a document that are relative references, and "@base".
func docBaseOf(doc *JV) string {
	if c := doc.get("@context"); c != nil {
		if b := c.get("@base"); b != nil && b.kind == jStr {
			return b.s
		}
	}
	return ""
}

func (h *harness) encodeCases(n int) {
	h.encodeWitnesses()
	for i := 0; i < n; i++ {
		r := h.r
		o := dsOpts{graphs: r.Chance(10), lists: r.Chance(50), nested: r.Chance(70), cycles: r.Chance(12), natives: r.Chance(35), exoticIR: r.Chance(15)}
		ds := h.genDataset(o)
		cfg := h.genEncCfg(ds.quads)
		h.twistEncCase(&ds, &cfg)
		h.encodeOne(ds, cfg, r.Chance(75), vh.Pick(r, []string{"", "", "http://e.com/other/doc"}))
	}
}

func (h *harness) encodeOne(ds dataset, cfg encCfg, mode11 bool, docBase string) {
	quads, tbl := gquadsRDF(ds.quads)
	res := goEncode(cfg, quads, tbl)
	desc := fmt.Sprintf("encode cfg={base=%q prefixes=%v buffered=%v} dataset=%s", cfg.base, cfg.prefixes, cfg.buffered, showQuads(quads))
	h.rep.Count("op:encode")
	nontrivial := len(ds.feat) > 0
	if res.panicked != "" {
		h.rep.Eval(desc, nontrivial)
		h.rep.Add(vh.Case{Kind: "violation", Op: "encode", Go: "panic " + res.panicked, Detail: "encoder panic — " + desc})
		return
	}
	if res.err != nil && cfg.base != "" && !goodIRI(cfg.base) && strings.HasPrefix(res.err.Error(), "new: parse base:") {
		// a base that is not an absolute IRI, refused by NewEncoder (outside the property's quantifier;
		// the encoder model has no error path)
		h.rep.Eval(desc, nontrivial)
		h.rep.Count("encode:outside-quantifier:relative-base:refused-by-NewEncoder")
		return
	}
	if res.err != nil {
		h.rep.Eval(desc, nontrivial)
		h.rep.Add(vh.Case{Kind: "violation", Op: "encode", Go: res.err.Error(), Detail: "encoder error on a well-formed dataset — " + desc})
		return
	}
	desc += " doc=" + strings.TrimSpace(string(res.doc))
	h.rep.Eval(desc, nontrivial)
	gdoc, err := parseJSONText(res.doc)
	if err != nil {
		h.rep.Add(vh.Case{Kind: "violation", Op: "encode", Go: err.Error(), Detail: "encoder output is not JSON — " + desc})
		return
	}
	for k := range ds.feat {
		h.rep.Count("enc-ds:" + k)
	}
	if cfg.base != "" {
		h.rep.Count("enc-cfg:base")
	}
	if len(cfg.prefixes) > 0 {
		h.rep.Count("enc-cfg:prefixes")
	}
	if gdoc.get("@context") != nil {
		h.rep.Count("enc-doc:@context")
	}

	// ---- T3: the model's document. Which once-referenced blank nodes become resources in the second
	// pass of ExportResources depends on Go's map iteration order (a parameter of the model): the order
	// is reconstructed from the implementation's document (rootOrder), and if that order does not
	// reproduce the document every other order of those roots is tried (bounded) before a disagreement
	// is reported. Datasets without such roots have exactly one admissible order.
	roots := rootOrder(gdoc, ds.quads)
	hint := hintTok(roots)
	line := "jl.encode " + cfg.wire() + " " + hint + " " + gquadsWire(ds.quads)
	h.stable("jl.encode " + cfg.wire() + " " + gquadsWire(ds.quads))
	same := func(model string) (bool, *JV, string) {
		if !strings.HasPrefix(model, "ok:") {
			return false, nil, "driver: " + model
		}
		mdoc, err := parseWire(model[3:])
		if err != nil {
			return false, nil, "model document unreadable: " + err.Error()
		}
		return canonValue(mdoc, cfg.buffered) == canonValue(gdoc, cfg.buffered), mdoc, ""
	}
	report := func(mdoc *JV, why string) {
		mtext := why
		if mdoc != nil {
			mtext = string(mdoc.text())
		}
		if cfg.base != "" && baseOutsideDomain(cfg.base) && h.knownCase("jsonld-resolver-deviates-from-rfc3986", desc+" model="+mtext) {
			return
		}
		h.rep.Add(vh.Case{Kind: "disagreement", Op: line, Go: string(gdoc.text()), Model: mtext, Detail: "encoder model differs from the implementation (for every admissible iteration order) — " + desc})
	}
	h.add(line, func(model string) {
		ok, mdoc, why := same(model)
		if ok {
			if len(roots) > 1 {
				h.rep.Count("encode:second-pass-order:reconstructed")
			}
			return
		}
		perms := permutations(roots, 120)
		if len(perms) <= 1 {
			report(mdoc, why)
			return
		}
		// further rounds: all other orders of the second-pass roots
		left, found := len(perms), false
		for _, p := range perms {
			pl := "jl.encode " + cfg.wire() + " " + hintTok(p) + " " + gquadsWire(ds.quads)
			h.add(pl, func(m2 string) {
				if ok2, _, _ := same(m2); ok2 {
					found = true
				}
				left--
				if left == 0 {
					if found {
						h.rep.Count("encode:second-pass-order:found-by-enumeration")
					} else {
						report(mdoc, why)
					}
				}
			})
		}
	})

	// ---- oracle: decode what the encoder wrote
	dres := goDecode(res.doc, mode11, docBase)
	var oracleOK bool
	var oracleDetail string
	switch {
	case dres.panicked != "":
		h.decoderPanic(dres.panicked, desc)
		oracleDetail = "decoder panic " + dres.panicked
	case dres.err != nil:
		oracleDetail = "decoder error: " + dres.err.Error()
	default:
		if hasNativeTyped(ds.quads) {
			h.rep.Count("encode:oracle-by-value")
			oracleOK = vh.IsomorphicMulti(normQuads(dres.quads), normQuads(quads))
		} else {
			h.rep.Count("encode:oracle-exact")
			oracleOK = vh.IsomorphicMulti(dres.quads, quads)
		}
		if !oracleOK {
			oracleDetail = "decoded: " + showQuads(dres.quads)
		}
	}

	if ds.witness != "" {
		outcome := "roundtrip-fails"
		switch {
		case dres.panicked != "":
			outcome = "decoder-panic"
		case dres.err != nil:
			outcome = "decoder-error"
		case oracleOK:
			outcome = "roundtrip-ok"
		}
		h.rep.Count("encode:witness:" + ds.witness + ":" + outcome)
		if *verbose {
			fmt.Printf("witness %s: %s\n  doc=%s\n  go: %s %s\n", ds.witness, desc, strings.TrimSpace(string(res.doc)), outcome, oracleDetail)
		}
	}

	if *nomodel {
		// search mode: the oracle alone, classes approximated on the implementation side
		if !oracleOK {
			key := ""
			switch {
			case hasNamedGraph(ds.quads):
				key = "encoder-drops-named-graphs"
			case dres.err != nil && strings.Contains(dres.err.Error(), "parse:") && hasC1(ds.quads):
				key = "literal-with-c1-control"
			case schemeClashGo(cfg, ds.quads):
				key = "iri-scheme-equals-declared-prefix"
			case resolverDeviates(gdoc, docBase) || (cfg.base != "" && (baseOutsideDomain(cfg.base) || resolverDeviates(gdoc, cfg.base))):
				key = "jsonld-resolver-deviates-from-rfc3986"
			case relRefMisread(cfg, ds.quads, gdoc) != "":
				key = "relative-reference-read-as-compact-or-absolute-iri"
			}
			if out := outsideQuantifier(cfg, ds.quads); out != "" || illFormedGo(ds.quads) {
				h.rep.Count("encode:outside-quantifier:" + out + ":go-roundtrip=false")
			} else if key == "" || !h.knownCase(key, desc+" "+oracleDetail) {
				h.rep.Add(vh.Case{Kind: "violation", Op: line, Go: oracleDetail, Detail: "encoder output does not decode back to the dataset — " + desc})
			}
		}
		return
	}

	// ---- the certificate of theorem encoder_roundtrip_partial, and the unproved implication
	cline := fmt.Sprintf("jl.cert %s %s %s %s %s", modeTok(mode11), baseTok(docBase), cfg.wire(), hint, gquadsWire(ds.quads))
	h.add(cline, func(model string) {
		flags := map[string]bool{}
		for _, f := range strings.Fields(model) {
			if kv := strings.SplitN(f, "=", 2); len(kv) == 2 {
				flags[kv[0]] = kv[1] == "1"
			}
		}
		if _, ok := flags["cert"]; !ok {
			h.rep.Add(vh.Case{Kind: "disagreement", Op: cline, Model: model, Detail: "driver: " + desc})
			return
		}
		// (cycles of once-referenced blank nodes are no obstacle since fix-c17-export-cycles; the flag
		// `acyclic` is still reported by the driver and only counted)
		natural := flags["dg"] && flags["nonative"] && flags["wf"] && !flags["clash"]
		if !flags["acyclic"] {
			h.rep.Count("encode:once-referenced-cycle")
		}
		h.rep.Count(fmt.Sprintf("encode:cert=%v,natural=%v", flags["cert"], natural))
		// the hypotheses of theorem encoder_roundtrip_natural_partial (Props/C10Defs.lean, "natural
		// hypotheses"): wf ∧ nonative ∧ lbl ∧ ctx ∧ loc ∧ struct ⇒ cert. Both sides of every hypothesis
		// are counted; `cert-without:<hyp>` counts the cases in which the certificate holds although the
		// hypothesis fails (the hypothesis is not necessary there).
		_, hasNat2 := flags["struct"]
		natural2 := hasNat2
		var failing []string
		for _, hyp := range natural2Hyps {
			if v, ok := flags[hyp]; !ok {
				hasNat2 = false
			} else if !v {
				natural2 = false
				failing = append(failing, hyp)
			}
		}
		if !hasNat2 {
			h.rep.Add(vh.Case{Kind: "disagreement", Op: cline, Model: model, Detail: "driver: jl.cert does not report the hypotheses of encoder_roundtrip_natural_partial (wf nonative lbl ctx loc struct) — " + desc})
			return
		}
		h.rep.Count(fmt.Sprintf("encode:natural2=%v,cert=%v", natural2, flags["cert"]))
		for _, hyp := range failing {
			h.rep.Count("encode:hyp-fails:" + hyp)
			if flags["cert"] {
				h.rep.Count("encode:cert-without:" + hyp)
			}
			if len(failing) == 1 {
				// the only failing hypothesis: the boundary of this hypothesis alone is crossed
				h.rep.Count(fmt.Sprintf("encode:only-hyp-failing:%s,cert=%v,go-roundtrip=%v", hyp, flags["cert"], oracleOK))
			}
		}
		if ds.witness != "" && *verbose {
			fmt.Printf("witness %s: driver: %s\n", ds.witness, model)
		}
		if ds.witness != "" {
			h.rep.Count(fmt.Sprintf("encode:witness:%s:flags:cert=%v,natural2=%v,failing=[%s]", ds.witness, flags["cert"], natural2, strings.Join(failing, " ")))
		}
		if natural2 && !flags["cert"] {
			// never filtered by a class of known findings: this is a theorem about the model alone
			h.rep.Add(vh.Case{Kind: "disagreement", Op: cline, Model: model, Go: oracleDetail, Detail: "theorem encoder_roundtrip_natural_partial contradicted by the driver: wf, nonative, lbl, ctx, loc and struct hold but the certificate does not (impossible if the proof is right: a bug of the model/driver evaluation) — " + desc})
		}
		classify := func() string {
			switch {
			case dres.err != nil && strings.Contains(dres.err.Error(), "parse:") && hasC1(ds.quads):
				return "literal-with-c1-control"
			case !flags["dg"]:
				return "encoder-drops-named-graphs"
			case flags["clash"]:
				return "iri-scheme-equals-declared-prefix"
			case resolverDeviates(gdoc, docBase) || (cfg.base != "" && resolverDeviates(gdoc, cfg.base)):
				return "jsonld-resolver-deviates-from-rfc3986"
			case relRefMisread(cfg, ds.quads, gdoc) != "":
				return "relative-reference-read-as-compact-or-absolute-iri"
			}
			return ""
		}
		// inputs outside the quantifier of the property (drawn to see both sides of lbl / ctx / wf): the
		// plain round-trip oracle is counted for them, not reported
		outside := outsideQuantifier(cfg, ds.quads)
		if outside == "" && !flags["wf"] {
			outside = "ill-formed-term"
		}
		if outside != "" {
			h.rep.Count(fmt.Sprintf("encode:outside-quantifier:%s:go-roundtrip=%v", outside, oracleOK))
		}
		if flags["cert"] && !oracleOK {
			// the theorem says the model's reading is isomorphic; the implementation disagrees
			if key := classify(); key != "" && h.knownCase(key, desc+" "+oracleDetail) {
				return
			}
			h.rep.Add(vh.Case{Kind: "violation", Op: cline, Go: oracleDetail, Detail: "encoder output does not decode back to the dataset although the certificate of encoder_roundtrip_partial holds — " + desc})
			return
		}
		// The older, unproved statement (dg, nonative, wf, no scheme clash ⇒ cert) lacks the hypotheses
		// lbl, ctx and loc of the theorem: where one of those fails it is refuted on the model (prefix
		// "@1", a base that is not absolute, a relative reference with a colon, the empty label). Such
		// cases are counted per refuting hypothesis; the statement is still checked everywhere else.
		refuted := false
		if natural && !flags["cert"] {
			for _, hyp := range failing {
				if hyp == "lbl" || hyp == "ctx" || hyp == "loc" {
					h.rep.Count("encode:old-natural-refuted-by:" + hyp)
					refuted = true
				}
			}
		}
		if natural && !flags["cert"] && !refuted {
			if key := classify(); key != "" && h.knownCase(key, desc+" (certificate does not hold)") {
				return
			}
			h.rep.Add(vh.Case{Kind: "disagreement", Op: cline, Model: model, Go: oracleDetail, Detail: "natural hypotheses hold but the certificate does not (statement encoder_roundtrip_natural fails on the model) — " + desc})
			return
		}
		if !oracleOK && outside == "" {
			if key := classify(); key != "" && h.knownCase(key, desc+" "+oracleDetail) {
				return
			}
			h.rep.Add(vh.Case{Kind: "violation", Op: cline, Go: oracleDetail, Detail: "encoder output does not decode back to the dataset — " + desc})
		}
	})
}

// hasC1: some lexical form, IRI or language tag of the dataset contains a code point U+007F..U+009F,
// which encoding/json writes raw and /repo's JSON tokenizer (inspectjson, strict mode) refuses.
func hasC1(qs []vh.GQuad) bool {
	bad := func(s string) bool {
		for _, r := range s {
			if r >= 0x7f && r <= 0x9f {
				return true
			}
		}
		return false
	}
	for _, q := range qs {
		ts := []vh.GTerm{q.S, q.P, q.O}
		if q.G != nil {
			ts = append(ts, *q.G)
		}
		for _, t := range ts {
			if bad(t.IRI) || bad(t.Lex) || bad(t.DT) || bad(t.Lang) {
				return true
			}
		}
	}
	return false
}

// baseOutsideDomain: the base IRI is outside the domain on which the models of properties C12/C13
// describe /repo's net/url wrapper (it carries a fragment, has dot segments, or is not printed back
// unchanged).
func baseOutsideDomain(b string) bool {
	if strings.Contains(b, "#") || strings.Contains(b, "/./") || strings.Contains(b, "/../") || strings.HasSuffix(b, "/.") || strings.HasSuffix(b, "/..") {
		return true
	}
	pb, err := iri.ParseIRI(b)
	return err != nil || pb.String() != b
}

// outsideQuantifier: the configuration is not one the property speaks about: the base is not an absolute
// IRI (NewEncoder accepts it and writes it as @base), or the blank node labelling answers the empty
// string (`_:` alone is not a blank node identifier).
func outsideQuantifier(cfg encCfg, qs []vh.GQuad) string {
	if cfg.base != "" && !goodIRI(cfg.base) {
		return "relative-base"
	}
	for _, q := range qs {
		for _, t := range []vh.GTerm{q.S, q.O} {
			if t.Kind == vh.KBNode && t.BNode < 0 {
				return "empty-bnode-label"
			}
		}
	}
	return ""
}

// illFormedGo approximates the driver's flag wf on the implementation side (search mode only).
func illFormedGo(qs []vh.GQuad) bool {
	for _, q := range qs {
		for _, t := range []vh.GTerm{q.S, q.P, q.O} {
			if t.Kind == vh.KIRI && !goodIRI(t.IRI) {
				return true
			}
			if t.Kind == vh.KLit && (!goodIRI(t.DT) || (t.DT == vh.RDFLangString && !goodLangTag(t.Lang))) {
				return true
			}
		}
	}
	return false
}

func goodLangTag(s string) bool {
	if s == "" {
		return false
	}
	for i, part := range strings.Split(s, "-") {
		if part == "" {
			return false
		}
		for _, c := range part {
			if !(c >= 'a' && c <= 'z' || c >= 'A' && c <= 'Z' || (i > 0 && c >= '0' && c <= '9')) {
				return false
			}
		}
	}
	return true
}

// relRefMisread (class relative-reference-read-as-compact-or-absolute-iri; C10-K5, FIXED by commit ed9c0d1 — the
// harness loads only status=known findings, so a recurrence is reported as a violation, this predicate then only
// names the class): with a base configured, the
// document carries as a value of "@id" the reference rel = RelativizeIRI(v) of a subject / object IRI v
// of the dataset, and rel has a colon after its first character such that a JSON-LD reader (IRI
// expansion, step 6) does not resolve it against the base: what precedes the colon is "_" or a prefix
// declared in the document's @context, or "//" follows the colon. Returns rel, or "".
func relRefMisread(cfg encCfg, qs []vh.GQuad, doc *JV) string {
	if cfg.base == "" {
		return ""
	}
	pb, err := iri.ParseBaseIRI(cfg.base)
	if err != nil || pb == nil {
		return ""
	}
	declared := map[string]bool{}
	if c := doc.get("@context"); c != nil && c.kind == jObj {
		for _, m := range c.ms {
			if !strings.HasPrefix(m.k, "@") || !isKeywordFormGo(m.k) {
				declared[m.k] = true
			}
		}
	}
	ids := map[string]bool{}
	var walk func(v *JV, inCtx bool)
	walk = func(v *JV, inCtx bool) {
		switch v.kind {
		case jArr:
			for _, x := range v.xs {
				walk(x, inCtx)
			}
		case jObj:
			for _, m := range v.ms {
				if m.k == "@context" {
					continue
				}
				if m.k == "@id" && m.v.kind == jStr {
					ids[m.v.s] = true
				}
				walk(m.v, inCtx)
			}
		}
	}
	walk(doc, false)
	for _, q := range qs {
		if q.G != nil {
			continue
		}
		for _, t := range []vh.GTerm{q.S, q.O} {
			if t.Kind != vh.KIRI {
				continue
			}
			rel, ok := pb.RelativizeIRI(t.IRI)
			if !ok || !ids[rel] || rel == t.IRI {
				continue
			}
			if i := strings.IndexByte(rel, ':'); i > 0 {
				if rel[:i] == "_" || declared[rel[:i]] || strings.HasPrefix(rel[i+1:], "//") {
					return rel
				}
			}
		}
	}
	return ""
}

func isKeywordFormGo(s string) bool {
	if len(s) < 2 || s[0] != '@' {
		return false
	}
	for _, c := range s[1:] {
		if !(c >= 'a' && c <= 'z' || c >= 'A' && c <= 'Z') {
			return false
		}
	}
	return true
}

func usablePrefix(name, ns string) bool {
	if name == "" || name == "_" || strings.ContainsAny(name, ":/") {
		return false
	}
	if len(name) > 1 && name[0] == '@' {
		alpha := true
		for _, c := range name[1:] {
			if !(c >= 'a' && c <= 'z' || c >= 'A' && c <= 'Z') {
				alpha = false
			}
		}
		if alpha {
			return false
		}
	}
	return ns != "" && strings.ContainsRune(":/?#[]@", rune(ns[len(ns)-1]))
}

func schemeClashGo(cfg encCfg, qs []vh.GQuad) bool {
	names := map[string]bool{}
	for _, p := range cfg.prefixes {
		if usablePrefix(p[0], p[1]) {
			names[p[0]] = true
		}
	}
	clash := func(v string) bool {
		i := strings.IndexByte(v, ':')
		return i >= 0 && names[v[:i]] && !strings.HasPrefix(v[i+1:], "//")
	}
	for _, q := range qs {
		for _, t := range []vh.GTerm{q.S, q.P, q.O} {
			if (t.Kind == vh.KIRI && clash(t.IRI)) || (t.Kind == vh.KLit && clash(t.DT)) {
				return true
			}
		}
	}
	return false
}

// rootOrder reconstructs the order in which the second pass of ExportResources visited the
// once-referenced blank nodes that became resources. Such a node r that is referenced (by a plain
// {"@id": "_:r"}) inside the resource of another such node r' was visited before r' - otherwise it
// would have been inlined there. Nodes unrelated by this rule lie in different components and their
// relative order does not matter; ties are broken by label so that the result does not depend on the
// order of the document's items (buffered mode sorts them, map order otherwise).
func rootOrder(doc *JV, qs []vh.GQuad) []string {
	refs := map[int]int{}
	for _, q := range qs {
		if q.G == nil && q.O.Kind == vh.KBNode {
			refs[q.O.BNode]++
		}
	}
	once := map[string]bool{}
	for b, n := range refs {
		if n == 1 {
			once[labelOf(b)] = true
		}
	}
	var items []*JV
	if g := doc.get("@graph"); g != nil && g.kind == jArr && doc.get("@id") == nil {
		items = g.xs
	} else {
		items = []*JV{doc}
	}
	isRoot := map[string]bool{}
	var roots []string
	for _, it := range items {
		if id := it.get("@id"); id != nil && id.kind == jStr && strings.HasPrefix(id.s, "_:") && once[id.s[2:]] {
			isRoot[id.s[2:]] = true
			roots = append(roots, id.s[2:])
		}
	}
	sort.Strings(roots)
	// before[r'] = roots referenced inside the resource of r'
	before := map[string]map[string]bool{}
	var walk func(v *JV, owner string, topLevel bool)
	walk = func(v *JV, owner string, topLevel bool) {
		switch v.kind {
		case jArr:
			for _, x := range v.xs {
				walk(x, owner, false)
			}
		case jObj:
			for _, m := range v.ms {
				if m.k == "@id" && !topLevel && m.v.kind == jStr && strings.HasPrefix(m.v.s, "_:") {
					if r := m.v.s[2:]; isRoot[r] && r != owner {
						if before[owner] == nil {
							before[owner] = map[string]bool{}
						}
						before[owner][r] = true
					}
				}
				walk(m.v, owner, false)
			}
		}
	}
	for _, it := range items {
		if id := it.get("@id"); id != nil && id.kind == jStr && strings.HasPrefix(id.s, "_:") && isRoot[id.s[2:]] {
			walk(it, id.s[2:], true)
		}
	}
	// Kahn's algorithm, smallest label first
	var out []string
	done := map[string]bool{}
	for len(out) < len(roots) {
		progressed := false
		for _, r := range roots {
			if done[r] {
				continue
			}
			ready := true
			for p := range before[r] {
				if !done[p] {
					ready = false
				}
			}
			if ready {
				out = append(out, r)
				done[r] = true
				progressed = true
				break
			}
		}
		if !progressed { // cannot happen for a document of ExportResources; keep the rest in label order
			for _, r := range roots {
				if !done[r] {
					out = append(out, r)
					done[r] = true
				}
			}
		}
	}
	return out
}

func hintTok(roots []string) string {
	if len(roots) == 0 {
		return "-"
	}
	hs := make([]string, len(roots))
	for i, r := range roots {
		hs[i] = hex.EncodeToString([]byte(r))
		if r == "" {
			// the empty label (generator twist empty-bnode-label): an empty token cannot travel on the wire.
			// A single root needs the hint as well: it says WHICH node of a cycle of once-referenced blank
			// nodes the second pass of ExportResources picked.
			hs[i] = "_"
		}
	}
	return strings.Join(hs, ";")
}

// permutations lists the orders of xs in lexicographic order of positions, at most max of them.
func permutations(xs []string, max int) [][]string {
	var out [][]string
	var rec func(cur []string, rest []string)
	rec = func(cur []string, rest []string) {
		if len(out) >= max {
			return
		}
		if len(rest) == 0 {
			out = append(out, append([]string(nil), cur...))
			return
		}
		for i := range rest {
			next := append(append([]string(nil), rest[:i]...), rest[i+1:]...)
			rec(append(cur, rest[i]), next)
		}
	}
	rec(nil, xs)
	return out
}
