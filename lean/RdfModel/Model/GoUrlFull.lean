/-
  RdfModel.Model.GoUrlFull — executable model of the parts of Go 1.25's `net/url` (src/net/url/url.go,
  go1.25.5) that `iri.ParsedIRI` reaches, over bytes (`List Nat`, every element < 256):

    * `shouldEscape` (all seven modes), `ishex`, `unhex`, `unescape`, `escape`, `validEncoded`,
      `validOptionalPort`, `validUserinfo`, `stringContainsCTLByte`, `getScheme`
    * `Parse` = `parse(rawURL, false)` + the `#` cut + `setFragment`; `parseAuthority`, `parseHost`
      (IP literals through a model of `netip.ParseAddr`; zones are NOT modelled: `PErr.unmodelled`)
    * `URL.setPath`, `URL.setFragment`, `URL.EscapedPath`, `URL.EscapedFragment`, `URL.String`, `URL.IsAbs`,
      `Userinfo.String`

  Function by function, same order of checks, errors as a small enum (`PErr`), the one slice expression
  that could go out of range (`host[openBracketIdx+1 : closeBracketIdx]`) as an explicit `PErr.panic`.
  `URL.ResolveReference` itself is not called by the repository (iri/parsed_iri.go carries its own copy);
  that copy is modelled in Model/ParsedIRI.lean.

  Tied to the code by T1 (Gen/GoUrlTables.lean: the byte tables, probed through the exported API of the
  real net/url) and T3 (`piri.*` driver ops against the real `iri.ParsedIRI`, exact agreement required).
  Core-only.
-/
import RdfModel.Model.IRI
namespace RdfModel.GoUrlFull

abbrev Str := List Nat

/-! ### bytes -/

def isLowerC (c : Nat) : Bool := 0x61 ≤ c && c ≤ 0x7a
def isUpperC (c : Nat) : Bool := 0x41 ≤ c && c ≤ 0x5a
def isDigitC (c : Nat) : Bool := 0x30 ≤ c && c ≤ 0x39
def isAlnumC (c : Nat) : Bool := isLowerC c || isUpperC c || isDigitC c

/-- `ishex` -/
def ishex (c : Nat) : Bool := isDigitC c || (0x61 ≤ c && c ≤ 0x66) || (0x41 ≤ c && c ≤ 0x46)

/-- `unhex` (only called after `ishex`; the Go `panic` default is unreachable and modelled as 0) -/
def unhex (c : Nat) : Nat :=
  if isDigitC c then c - 0x30
  else if 0x61 ≤ c && c ≤ 0x66 then c - 0x61 + 10
  else if 0x41 ≤ c && c ≤ 0x46 then c - 0x41 + 10
  else 0

/-- `upperhex[n]` -/
def upperhex (n : Nat) : Nat := if n < 10 then 0x30 + n else 0x41 + (n - 10)

/-- `strings.ToLower` on ASCII (schemes are ASCII by `getScheme`) -/
def lowerC (c : Nat) : Nat := if isUpperC c then c + 32 else c

inductive Mode where
  | path | pathSegment | host | zone | userPassword | queryComponent | fragment
deriving DecidableEq, Repr

/-- the bytes `! $ & ' ( ) * + , ; = : [ ] < > "` that host mode lets through -/
def hostExtra : List Nat :=
  [0x21, 0x24, 0x26, 0x27, 0x28, 0x29, 0x2a, 0x2b, 0x2c, 0x3b, 0x3d, 0x3a, 0x5b, 0x5d, 0x3c, 0x3e, 0x22]

/-- `$ & + , / : ; = ? @` -/
def reservedSet : List Nat := [0x24, 0x26, 0x2b, 0x2c, 0x2f, 0x3a, 0x3b, 0x3d, 0x3f, 0x40]

/-- `shouldEscape(c, mode)` -/
def shouldEscape (c : Nat) (mode : Mode) : Bool :=
  if isAlnumC c then false
  else if (mode == .host || mode == .zone) && hostExtra.contains c then false
  else if c == 0x2d || c == 0x5f || c == 0x2e || c == 0x7e then false
  else if reservedSet.contains c &&
      (mode == .path || mode == .pathSegment || mode == .userPassword || mode == .queryComponent || mode == .fragment) then
    match mode with
    | .path => c == 0x3f
    | .pathSegment => c == 0x2f || c == 0x3b || c == 0x2c || c == 0x3f
    | .userPassword => c == 0x40 || c == 0x2f || c == 0x3f || c == 0x3a
    | .queryComponent => true
    | _ => false
  else if mode == .fragment && (c == 0x21 || c == 0x28 || c == 0x29 || c == 0x2a) then false
  else true

inductive PErr where
  | ctl          -- "net/url: invalid control character in URL"
  | scheme       -- "missing protocol scheme"
  | colon        -- "first path segment in URL cannot contain colon"
  | escape       -- EscapeError
  | hostchar     -- InvalidHostError
  | port         -- "invalid port … after host"
  | bracket      -- "missing ']' in host"
  | ip           -- "invalid host: …" / "invalid IP-literal"
  | userinfo     -- "net/url: invalid userinfo"
  | unmodelled   -- IPv6 zone identifiers: behaviour deliberately not modelled
  | panic        -- a slice expression out of range (never reached; see Props/C12Wrap)
deriving DecidableEq, Repr

/-- `unescape(s, mode)` for the modes reached (`path`, `fragment`, `userPassword`, `host`); one pass,
    left to right, so the first error is the one Go's validating pass reports. -/
def unescape (mode : Mode) : Str → Except PErr Str
  | [] => .ok []
  | c :: rest =>
    if c = 0x25 then
      match rest with
      | a :: b :: rest' =>
        if ishex a && ishex b then
          if mode == .host && unhex a < 8 && !(a == 0x32 && b == 0x35) then .error .escape
          else match unescape mode rest' with
            | .ok r => .ok ((unhex a * 16 + unhex b) :: r)
            | .error e => .error e
        else .error .escape
      | _ => .error .escape
    else if mode == .host && c < 0x80 && shouldEscape c .host then .error .hostchar
    else match unescape mode rest with
      | .ok r => .ok (c :: r)
      | .error e => .error e

/-- `escape(s, mode)` for every mode but `queryComponent` (no `' '` → `'+'` case) -/
def escape (mode : Mode) : Str → Str
  | [] => []
  | c :: rest =>
    if shouldEscape c mode then 0x25 :: upperhex (c / 16 % 16) :: upperhex (c % 16) :: escape mode rest
    else c :: escape mode rest

/-- the bytes `validEncoded` accepts before asking `shouldEscape`: `! $ & ' ( ) * + , ; = : @ [ ] %` -/
def validEncodedExtra : List Nat :=
  [0x21, 0x24, 0x26, 0x27, 0x28, 0x29, 0x2a, 0x2b, 0x2c, 0x3b, 0x3d, 0x3a, 0x40, 0x5b, 0x5d, 0x25]

def validEncodedByte (mode : Mode) (c : Nat) : Bool := validEncodedExtra.contains c || !shouldEscape c mode

/-- `validEncoded(s, mode)` -/
def validEncoded (mode : Mode) (s : Str) : Bool := s.all (validEncodedByte mode)

/-- `validOptionalPort` -/
def validOptionalPort : Str → Bool
  | [] => true
  | c :: rest => c == 0x3a && rest.all isDigitC

def userinfoExtra : List Nat :=
  [0x2d, 0x2e, 0x5f, 0x3a, 0x7e, 0x21, 0x24, 0x26, 0x27, 0x28, 0x29, 0x2a, 0x2b, 0x2c, 0x3b, 0x3d, 0x25, 0x40]

/-- `validUserinfo` (ranges over runes: every byte ≥ 0x80 yields a rune outside the accepted set) -/
def validUserinfo (s : Str) : Bool := s.all (fun c => isAlnumC c || userinfoExtra.contains c)

/-- `stringContainsCTLByte` -/
def hasCTL (s : Str) : Bool := s.any (fun c => c < 0x20 || c == 0x7f)

/-! ### strings helpers -/

/-- `strings.Cut(s, sep)` for a one-byte separator: `(before, some after)` / `(s, none)` -/
def cut (sep : Nat) : Str → Str × Option Str
  | [] => ([], none)
  | c :: rest =>
    if c = sep then ([], some rest)
    else let r := cut sep rest; (c :: r.1, r.2)

/-- `strings.Index(s, string(c))` -/
def indexOf (c : Nat) : Str → Option Nat
  | [] => none
  | x :: rest => if x = c then some 0 else (indexOf c rest).map (· + 1)

/-- `strings.LastIndex(s, string(c))` -/
def lastIndexOf (c : Nat) : Str → Option Nat
  | [] => none
  | x :: rest =>
    match lastIndexOf c rest with
    | some i => some (i + 1)
    | none => if x = c then some 0 else none

def startsWith (p s : Str) : Bool := p.isPrefixOf s

/-- `strings.Index(s, "%25") >= 0` -/
def containsPct25 : Str → Bool
  | [] => false
  | c :: rest => startsWith [0x25, 0x32, 0x35] (c :: rest) || containsPct25 rest

/-! ### `getScheme` -/

/-- `none` = error "missing protocol scheme"; `some (scheme, rest)` -/
def getSchemeAux (whole : Str) : Str → Nat → Option (Str × Str)
  | [], _ => some ([], whole)
  | c :: rest, i =>
    if isLowerC c || isUpperC c then getSchemeAux whole rest (i + 1)
    else if isDigitC c || c == 0x2b || c == 0x2d || c == 0x2e then
      (if i = 0 then some ([], whole) else getSchemeAux whole rest (i + 1))
    else if c == 0x3a then
      (if i = 0 then none else some (whole.take i, rest))
    else some ([], whole)

def getScheme (s : Str) : Option (Str × Str) := getSchemeAux s s 0

/-! ### `netip.ParseAddr` as reached from `parseHost` (acceptance and `Is4` only, no zone) -/

/-- `parseIPv4Fields` succeeds on the whole of `s`; state: current value, digits in the current octet,
    fields completed, previous byte was '.', position is the first -/
def ipv4Loop : Str → Nat → Nat → Nat → Bool → Bool → Bool
  | [], _, _, pos, _, _ => pos ≥ 3                                  -- "IPv4 address too short"
  | c :: rest, val, digLen, pos, prevDot, isFirst =>
    if isDigitC c then
      if digLen == 1 && val == 0 then false
      else
        let v := val * 10 + (c - 0x30)
        if v > 255 then false else ipv4Loop rest v (digLen + 1) pos false false
    else if c == 0x2e then
      if isFirst || rest.isEmpty || prevDot then false
      else if pos == 3 then false
      else ipv4Loop rest 0 0 (pos + 1) true false
    else false

def ipv4Ok (s : Str) : Bool := ipv4Loop s 0 0 0 false true

/-- the group loop of `parseIPv6`; `i` = bytes filled (0,2,…,16). Returns acceptance. -/
def ipv6Loop : Nat → Str → Nat → Bool → Bool
  | 0, _, _, _ => false
  | fuel + 1, s, i, ellipsis =>
    -- after the loop: whole string used, and enough groups or an ellipsis that expands
    let done (s : Str) (i : Nat) (ellipsis : Bool) : Bool :=
      s.isEmpty && (if i < 16 then ellipsis else !ellipsis)
    if i ≥ 16 then done s i ellipsis
    else
      let digits := s.takeWhile ishex
      let off := digits.length
      if off > 4 then false
      else if off == 0 then false
      else
        let rest := s.drop off
        if rest.head? == some 0x2e then
          if !ellipsis && i != 12 then false
          else if i + 4 > 16 then false
          else if !ipv4Ok s then false
          else done [] (i + 4) ellipsis
        else
          let i := i + 2
          match rest with
          | [] => done [] i ellipsis
          | c :: rest1 =>
            if c != 0x3a then false
            else match rest1 with
              | [] => false                                           -- "colon must be followed by more characters"
              | d :: rest2 =>
                if d == 0x3a then
                  if ellipsis then false
                  else if rest2.isEmpty then done [] i true
                  else ipv6Loop fuel rest2 i true
                else ipv6Loop fuel rest1 i ellipsis

/-- `parseIPv6(s)` succeeds (s without '%') -/
def ipv6Ok (s : Str) : Bool :=
  match s with
  | 0x3a :: 0x3a :: rest => if rest.isEmpty then true else ipv6Loop 9 rest 0 true
  | _ => ipv6Loop 9 s 0 false

/-- `netip.ParseAddr(s)` succeeds and `!addr.Is4()` (s without '%'): the first of `. :` decides -/
def parseAddrIs6 : Str → Str → Bool
  | _, [] => false                                                    -- "unable to parse IP"
  | whole, c :: rest =>
    if c == 0x2e then false                                           -- IPv4 or error: rejected either way
    else if c == 0x3a then ipv6Ok whole
    else parseAddrIs6 whole rest

/-! ### `URL` -/

structure Userinfo where
  username : Str
  password : Str
  passwordSet : Bool
deriving DecidableEq, Repr

structure URL where
  scheme : Str := []
  opaq : Str := []
  user : Option Userinfo := none
  host : Str := []
  path : Str := []
  rawPath : Str := []
  omitHost : Bool := false
  forceQuery : Bool := false
  rawQuery : Str := []
  fragment : Str := []
  rawFragment : Str := []
deriving DecidableEq, Repr

/-- `parseHost` -/
def parseHost (host : Str) : Except PErr Str :=
  match lastIndexOf 0x5b host with
  | some ob =>
    match lastIndexOf 0x5d host with
    | none => .error .bracket
    | some cb =>
      let colonPort := host.drop (cb + 1)
      if !validOptionalPort colonPort then .error .port
      else match unescape .host colonPort with
        | .error e => .error e
        | .ok unescapedColonPort =>
          if cb < ob + 1 then .error .panic                           -- host[ob+1 : cb] with cb < ob+1
          else
            let hostname := (host.take cb).drop (ob + 1)
            if hostname.contains 0x25 then .error .unmodelled         -- zone identifiers / escapes in an IP literal
            else match unescape .host hostname with
              | .error e => .error e
              | .ok unescapedHostname =>
                if !parseAddrIs6 unescapedHostname unescapedHostname then .error .ip
                else .ok ([0x5b] ++ unescapedHostname ++ [0x5d] ++ unescapedColonPort)
  | none =>
    let portOk := match lastIndexOf 0x3a host with
      | some i => validOptionalPort (host.drop i)
      | none => true
    if !portOk then .error .port else unescape .host host

/-- `parseAuthority` -/
def parseAuthority (authority : Str) : Except PErr (Option Userinfo × Str) :=
  match lastIndexOf 0x40 authority with
  | none =>
    match parseHost authority with
    | .error e => .error e
    | .ok host => .ok (none, host)
  | some i =>
    match parseHost (authority.drop (i + 1)) with
    | .error e => .error e
    | .ok host =>
      let userinfo := authority.take i
      if !validUserinfo userinfo then .error .userinfo
      else if !userinfo.contains 0x3a then
        match unescape .userPassword userinfo with
        | .error e => .error e
        | .ok un => .ok (some ⟨un, [], false⟩, host)
      else
        let c := cut 0x3a userinfo
        match unescape .userPassword c.1 with
        | .error e => .error e
        | .ok un =>
          match unescape .userPassword (c.2.getD []) with
          | .error e => .error e
          | .ok pw => .ok (some ⟨un, pw, true⟩, host)

/-- `(*URL).setPath` -/
def setPath (u : URL) (p : Str) : Except PErr URL :=
  match unescape .path p with
  | .error e => .error e
  | .ok path => .ok { u with path := path, rawPath := if escape .path path = p then [] else p }

/-- `(*URL).setFragment` -/
def setFragment (u : URL) (f : Str) : Except PErr URL :=
  match unescape .fragment f with
  | .error e => .error e
  | .ok frag => .ok { u with fragment := frag, rawFragment := if escape .fragment frag = f then [] else f }

def countByte (c : Nat) (s : Str) : Nat := (s.filter (· == c)).length

/-- the query split of `parse`: `strings.HasSuffix(rest, "?") && strings.Count(rest, "?") == 1` sets ForceQuery,
    otherwise `strings.Cut(rest, "?")`. Returns `(rest, ForceQuery, RawQuery)`. -/
def queryCut (rest0 : Str) : Str × Bool × Str :=
  if rest0.getLast? == some 0x3f && countByte 0x3f rest0 == 1 then (rest0.dropLast, true, [])
  else let c := cut 0x3f rest0; (c.1, false, c.2.getD [])

/-- `authority, rest = rest[2:], ""; if i := strings.Index(authority, "/"); i >= 0 { … }` -/
def authCut (a : Str) : Str × Str :=
  match indexOf 0x2f a with
  | some i => (a.take i, a.drop i)
  | none => (a, [])

/-- `parse` after `getScheme` and `strings.ToLower` -/
def parseRest (scheme rest0 : Str) : Except PErr URL :=
  let q := queryCut rest0
  let rest := q.1
  let u0 : URL := { scheme := scheme, forceQuery := q.2.1, rawQuery := q.2.2 }
  if !startsWith [0x2f] rest && !scheme.isEmpty then .ok { u0 with opaq := rest }
  else if !startsWith [0x2f] rest && ((cut 0x2f rest).1).contains 0x3a then .error .colon
  else if (!scheme.isEmpty || !startsWith [0x2f, 0x2f, 0x2f] rest) && startsWith [0x2f, 0x2f] rest then
    let ac := authCut (rest.drop 2)
    match parseAuthority ac.1 with
    | .error e => .error e
    | .ok (user, host) => setPath { u0 with user := user, host := host } ac.2
  else
    setPath { u0 with omitHost := !scheme.isEmpty && startsWith [0x2f] rest } rest

/-- `parse(rawURL, false)` -/
def parseNoFrag (raw : Str) : Except PErr URL :=
  if hasCTL raw then .error .ctl
  else if raw = [0x2a] then .ok { path := [0x2a] }
  else match getScheme raw with
    | none => .error .scheme
    | some (scheme0, rest0) => parseRest (scheme0.map lowerC) rest0

/-- `url.Parse` -/
def parse (raw : Str) : Except PErr URL :=
  let c := cut 0x23 raw
  match parseNoFrag c.1 with
  | .error e => .error e
  | .ok u =>
    match c.2 with
    | none => .ok u
    | some frag => if frag.isEmpty then .ok u else setFragment u frag

/-- `p, err := unescape(raw, mode); err == nil && p == want` -/
def unescapesTo (mode : Mode) (raw want : Str) : Bool :=
  match unescape mode raw with
  | .ok p => p == want
  | .error _ => false

/-- `(*URL).IsAbs` -/
def URL.isAbs (u : URL) : Bool := !u.scheme.isEmpty

/-- `(*URL).EscapedPath` -/
def URL.escapedPath (u : URL) : Str :=
  if !u.rawPath.isEmpty && validEncoded .path u.rawPath && unescapesTo .path u.rawPath u.path then u.rawPath
  else if u.path = [0x2a] then [0x2a]
  else escape .path u.path

/-- `(*URL).EscapedFragment` -/
def URL.escapedFragment (u : URL) : Str :=
  if !u.rawFragment.isEmpty && validEncoded .fragment u.rawFragment && unescapesTo .fragment u.rawFragment u.fragment
  then u.rawFragment
  else escape .fragment u.fragment

/-- `(*Userinfo).String` -/
def Userinfo.str (ui : Userinfo) : Str :=
  escape .userPassword ui.username ++ (if ui.passwordSet then 0x3a :: escape .userPassword ui.password else [])

/-- the `scheme://userinfo@host` part written by `String` when `u.Opaque == ""` -/
def URL.authorityPart (u : URL) : Str :=
  if !u.scheme.isEmpty || !u.host.isEmpty || u.user.isSome then
    if u.omitHost && u.host.isEmpty && u.user.isNone then []
    else
      (if !u.host.isEmpty || !u.path.isEmpty || u.user.isSome then [0x2f, 0x2f] else []) ++
      (match u.user with | some ui => ui.str ++ [0x40] | none => []) ++
      (if !u.host.isEmpty then escape .host u.host else [])
  else []

/-- `(*URL).String` -/
def URL.str (u : URL) : Str :=
  let schemePart := if !u.scheme.isEmpty then u.scheme ++ [0x3a] else []
  let body :=
    if !u.opaq.isEmpty then schemePart ++ u.opaq
    else
      let buf := schemePart ++ u.authorityPart
      let path := u.escapedPath
      let buf := if !path.isEmpty && path.head? != some 0x2f && !u.host.isEmpty then buf ++ [0x2f] else buf
      let buf := if buf.isEmpty && ((cut 0x2f path).1).contains 0x3a then [0x2e, 0x2f] else buf
      buf ++ path
  let body := if u.forceQuery || !u.rawQuery.isEmpty then body ++ 0x3f :: u.rawQuery else body
  if !u.fragment.isEmpty then body ++ 0x23 :: u.escapedFragment else body

end RdfModel.GoUrlFull
