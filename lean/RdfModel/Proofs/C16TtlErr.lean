/-
  Proofs.C16TtlErr — offsets attached to the errors of the instrumented Turtle/TriG token producers
  refer to positions inside the input (repaired code).
-/
import RdfModel.Proofs.C16TtlSpec
namespace RdfModel.Proofs.C16Ttl
open RdfModel RdfModel.TW RdfModel.NQO RdfModel.TtlO RdfModel.Proofs.C16 RdfModel.C16Ttl RdfModel.C16

/-- Pending-runes invariant of a scanner call: what the writer holds plus the `n` bytes of pending
    (read, not yet committed) runes is at most what the rune buffer has handed out. -/
def Pend (s : S) (n : Nat) : Prop := ∀ h, s.doc = some h → size (histRunes h) + n ≤ s.bo

@[simp] theorem size_drop_one (l : List RP) : size (l.drop 1) = size l - (l.headD (0, 0)).2 := by
  cases l with
  | nil => simp
  | cons a l => simp

@[simp] theorem size_tail (l : List RP) : size l.tail = size l - (l.headD (0, 0)).2 := by
  cases l with
  | nil => simp
  | cons a l => simp

theorem bound_offErr (s : S) (u : Chunk) (ign n : Nat)
    (hp : ∀ h, s.doc = some h → size (histRunes h) + size u ≤ n) (hn : s.bo ≤ n) :
    EOff.bound (s.offErr u ign) ≤ n := by
  unfold S.offErr
  cases hd : s.doc with
  | none => simp [EOff.bound]; omega
  | some h => have := hp h hd; simpa [EOff.bound] using this

/-- Closes an error-bound goal whose error is produced right here (`h : .err _ (…) = .err c o`). -/
macro "err_here" h:ident hp:ident : tactic => `(tactic| (
  simp only [TtlO.RO.err.injEq] at $h:ident
  have hh := And.right $h:ident
  subst hh
  first
    | (simp [EOff.bound]; done)
    | (apply bound_offErr
       · intro hh hd
         have := $hp:ident hh (by simpa using hd)
         first | omega | (simp at this ⊢ <;> omega) | (simp <;> omega)
       · first | omega | (simp <;> omega))))

/-- The invariant after one more rune has been read and kept pending. -/
macro "pend_next" hp:ident : tactic => `(tactic| (
  intro hh hd
  have := $hp:ident hh (by simpa using hd)
  first | omega | (simp at this ⊢ <;> omega) | (simp <;> omega)))

theorem scanIRIREF_err (T : Tables) (e : End) (st : SState) (s : S) (inp : List RP) (acc : List Nat)
    (unc : Chunk) (c : EClass) (o : EOff) (hp : Pend s (size unc))
    (h : TtlO.scanIRIREF T e st s inp acc unc = .err c o) : EOff.bound o ≤ s.bo + size inp := by
  fun_induction TtlO.scanIRIREF T e st s inp acc unc
  all_goals try (simp [done] at h; done)
  all_goals first
    | err_here h hp
    | (rename_i ih; have := ih (by pend_next hp) h; simp at this ⊢; omega)

theorem scanString_err (T : Tables) (e : End) (delim : Nat) (triple : Bool) (st : SState) (s : S)
    (inp : List RP) (acc : List Nat) (unc : Chunk) (c : EClass) (o : EOff) (hp : Pend s (size unc))
    (h : TtlO.scanString T e delim triple st s inp acc unc = .err c o) :
    EOff.bound o ≤ s.bo + size inp := by
  fun_induction TtlO.scanString T e delim triple st s inp acc unc
  all_goals try (simp [done] at h; done)
  all_goals first
    | err_here h hp
    | (rename_i ih; have := ih (by pend_next hp) h; simp at this ⊢; omega)

theorem produceIRIREF_err (T : Tables) (e : End) (s : S) (inp : List RP) (c : EClass) (o : EOff)
    (hp : InStep s) (h : TtlO.produceIRIREF T e s inp = .err c o) : EOff.bound o ≤ s.bo + size inp := by
  have hp0 : Pend s 0 := fun h hh => by have := hp h hh; omega
  cases inp with
  | nil => simp [TtlO.produceIRIREF] at h; simp [← h.2, EOff.bound]
  | cons r rest =>
    simp only [TtlO.produceIRIREF] at h
    split at h
    · have := scanIRIREF_err _ _ _ _ _ _ _ _ _ (by pend_next hp0) h
      simp at this ⊢; omega
    · err_here h hp0

theorem produceString_err (T : Tables) (e : End) (s : S) (inp : List RP) (c : EClass) (o : EOff)
    (hp : InStep s) (h : TtlO.produceString T e false s inp = .err c o) :
    EOff.bound o ≤ s.bo + size inp := by
  have hp0 : Pend s 0 := fun h hh => by have := hp h hh; omega
  cases inp with
  | nil => simp [TtlO.produceString] at h; simp [← h.2, EOff.bound]
  | cons q r =>
    simp only [TtlO.produceString] at h
    split at h
    · cases r with
      | nil => err_here h hp0
      | cons c1 r1 =>
        simp only at h
        split at h
        · cases r1 with
          | nil =>
            cases e
            · simp [done] at h
            · err_here h hp0
          | cons c2 r2 =>
            simp only at h
            split at h
            · have := scanString_err _ _ _ _ _ _ _ _ _ _ _ (by pend_next hp0) h
              simp at this ⊢; omega
            · simp [done] at h
        · have := scanString_err _ _ _ _ _ _ _ _ _ _ _ (by pend_next hp0) h
          simp at this ⊢; omega
    · err_here h hp0

/-! LANGTAG: pending = `@` and the tag read so far. -/

theorem langDone_err (s : S) (a0 : RP) (tagRev : Chunk) (rest : List RP) (c : EClass) (o : EOff)
    (hp : Pend s (a0.2 + size tagRev)) (h : TtlO.langDone s a0 tagRev rest = .err c o) :
    EOff.bound o ≤ s.bo + size rest := by
  cases tagRev with
  | nil => simp [TtlO.langDone] at h
  | cons l more =>
    simp only [TtlO.langDone] at h
    split at h
    · err_here h hp
    · simp at h

theorem langSecondary_err (e : End) (a0 : RP) (s : S) (inp : List RP) (tagRev : Chunk) (c : EClass)
    (o : EOff) (hp : Pend s (a0.2 + size tagRev))
    (h : TtlO.langSecondary e a0 s inp tagRev = .err c o) : EOff.bound o ≤ s.bo + size inp := by
  fun_induction TtlO.langSecondary e a0 s inp tagRev
  all_goals first
    | exact langDone_err _ _ _ _ _ _ hp h
    | err_here h hp
    | (rename_i ih; have := ih (by pend_next hp) h; simp at this ⊢; omega)

theorem langPrimary_err (e : End) (a0 : RP) (s : S) (inp : List RP) (tagRev : Chunk) (c : EClass)
    (o : EOff) (hp : Pend s (a0.2 + size tagRev))
    (h : TtlO.langPrimary e a0 s inp tagRev = .err c o) : EOff.bound o ≤ s.bo + size inp := by
  fun_induction TtlO.langPrimary e a0 s inp tagRev
  all_goals first
    | exact langDone_err _ _ _ _ _ _ hp h
    | err_here h hp
    | (have := langSecondary_err _ _ _ _ _ _ _ (by pend_next hp) h; simp at this ⊢; omega)
    | (rename_i ih; have := ih (by pend_next hp) h; simp at this ⊢; omega)

theorem produceLANGTAG_err (e : End) (s : S) (inp : List RP) (c : EClass) (o : EOff)
    (hp : InStep s) (h : TtlO.produceLANGTAG e s inp = .err c o) : EOff.bound o ≤ s.bo + size inp := by
  have hp0 : Pend s 0 := fun h hh => by have := hp h hh; omega
  cases inp with
  | nil => simp [TtlO.produceLANGTAG] at h; simp [← h.2, EOff.bound]
  | cons r rest =>
    simp only [TtlO.produceLANGTAG] at h
    split at h
    · have := langPrimary_err _ _ _ _ _ _ _ (by pend_next hp0) h
      simp at this ⊢; omega
    · err_here h hp0

/-! Blank node label: the `_:` is committed, pending = the label read so far. -/

theorem bnDone_err (T : Tables) (labelOnly : Bool) (h0 : Option Hist) (s : S) (labRev : Chunk)
    (rest : List RP) (c : EClass) (o : EOff) (hp : Pend s (size labRev))
    (h : TtlO.bnDone T labelOnly h0 s labRev rest = .err c o) : EOff.bound o ≤ s.bo + size rest := by
  cases labRev with
  | nil => simp [TtlO.bnDone] at h
  | cons l more =>
    simp only [TtlO.bnDone] at h
    by_cases hl : l.1 = 0x2e
    · simp only [hl, if_true] at h
      cases more with
      | nil => simp at h
      | cons z more' =>
        simp only at h
        split at h
        · err_here h hp
        · simp at h
    · simp only [hl, if_false] at h
      split at h
      · err_here h hp
      · simp at h

theorem bnLoop_err (T : Tables) (e : End) (labelOnly : Bool) (h0 : Option Hist) (s : S) (inp : List RP)
    (labRev : Chunk) (c : EClass) (o : EOff) (hp : Pend s (size labRev))
    (h : TtlO.bnLoop T e labelOnly h0 s inp labRev = .err c o) : EOff.bound o ≤ s.bo + size inp := by
  fun_induction TtlO.bnLoop T e labelOnly h0 s inp labRev
  all_goals first
    | exact bnDone_err _ _ _ _ _ _ _ _ hp h
    | err_here h hp
    | (rename_i ih; have := ih (by pend_next hp) h; simp at this ⊢; omega)

theorem produceBlankNode_err (T : Tables) (e : End) (labelOnly : Bool) (s : S) (inp : List RP)
    (c : EClass) (o : EOff) (hp : InStep s)
    (h : TtlO.produceBlankNode T e labelOnly s inp = .err c o) : EOff.bound o ≤ s.bo + size inp := by
  have hp0 : Pend s 0 := fun h hh => by have := hp h hh; omega
  cases inp with
  | nil => simp [TtlO.produceBlankNode] at h; simp [← h.2, EOff.bound]
  | cons c0 r0 =>
    simp only [TtlO.produceBlankNode] at h
    split at h
    · err_here h hp0
    · cases r0 with
      | nil => err_here h hp0
      | cons c1 r1 =>
        simp only at h
        split at h
        · err_here h hp0
        · cases r1 with
          | nil => err_here h hp0
          | cons c2 r2 =>
            simp only at h
            split at h
            · have := bnLoop_err _ _ _ _ _ _ _ _ _ (by
                intro hh hd
                cases hd0 : s.doc with
                | none => simp [hd0] at hd
                | some h0 =>
                  have := hp h0 hd0
                  simp [hd0] at hd
                  subst hd
                  simp; omega) h
              simp at this ⊢; omega
            · err_here h hp0

theorem numDone_err (s : S) (acc : Chunk) (k : Option Ttl.NumKind) (rest : List RP) (c : EClass)
    (o : EOff) (hp : Pend s (size acc)) (h : TtlO.numDone s acc k rest = .err c o) :
    EOff.bound o ≤ s.bo + size rest := by
  cases acc with
  | nil => simp [TtlO.numDone] at h
  | cons l more =>
    simp only [TtlO.numDone] at h
    split at h
    · simp [done] at h
    · split at h
      · err_here h hp
      · simp [done] at h

theorem scanNum_err (e : End) (st : Ttl.NState) (k : Option Ttl.NumKind) (s : S) (inp : List RP)
    (acc : Chunk) (c : EClass) (o : EOff) (hp : Pend s (size acc))
    (h : TtlO.scanNum e st k s inp acc = .err c o) : EOff.bound o ≤ s.bo + size inp := by
  fun_induction TtlO.scanNum e st k s inp acc
  all_goals first
    | exact numDone_err _ _ _ _ _ _ hp h
    | err_here h hp
    | (rename_i ih; have := ih (by pend_next hp) h; simp at this ⊢; omega)

theorem produceNumericLiteral_err (e : End) (s : S) (inp : List RP) (c : EClass) (o : EOff)
    (hp : InStep s) (h : TtlO.produceNumericLiteral e s inp = .err c o) :
    EOff.bound o ≤ s.bo + size inp := by
  have hp0 : Pend s 0 := fun h hh => by have := hp h hh; omega
  cases inp with
  | nil => simp [TtlO.produceNumericLiteral] at h; simp [← h.2, EOff.bound]
  | cons r rest =>
    simp only [TtlO.produceNumericLiteral] at h
    split at h
    · have := scanNum_err _ _ _ _ _ _ _ _ (by pend_next hp0) h
      simp at this ⊢; omega
    · split at h
      · have := scanNum_err _ _ _ _ _ _ _ _ (by pend_next hp0) h
        simp at this ⊢; omega
      · err_here h hp0

theorem pnameNsLoop_err (T : Tables) (e : End) (trig : Bool) (s : S) (inp : List RP) (acc : List Nat)
    (unc : Chunk) (c : EClass) (o : EOff) (hp : Pend s (size unc))
    (h : TtlO.pnameNsLoop T e trig s inp acc unc = .err c o) : EOff.bound o ≤ s.bo + size inp := by
  fun_induction TtlO.pnameNsLoop T e trig s inp acc unc
  all_goals try (simp [done] at h; done)
  all_goals first
    | err_here h hp
    | (rename_i ih; have := ih (by pend_next hp) h; simp at this ⊢; omega)
    | (split at h <;> err_here h hp)

theorem producePNAME_NS_err (T : Tables) (e : End) (trig : Bool) (s : S) (inp : List RP) (c : EClass)
    (o : EOff) (hp : InStep s) (h : TtlO.producePNAME_NS T e trig s inp = .err c o) :
    EOff.bound o ≤ s.bo + size inp := by
  have hp0 : Pend s 0 := fun h hh => by have := hp h hh; omega
  cases inp with
  | nil => simp [TtlO.producePNAME_NS] at h; simp [← h.2, EOff.bound]
  | cons r rest =>
    simp only [TtlO.producePNAME_NS] at h
    split at h
    · simp [done] at h
    · split at h
      · have := pnameNsLoop_err _ _ _ _ _ _ _ _ _ (by pend_next hp0) h
        simp at this ⊢; omega
      · err_here h hp0

theorem scanLocal_err (T : Tables) (e : End) (st : Ttl.LState) (s : S) (inp : List RP) (acc : List Nat)
    (le : Bool) (unc : Chunk) (c : EClass) (o : EOff) (hp : Pend s (size unc))
    (h : TtlO.scanLocal T e st s inp acc le unc = .err c o) : EOff.bound o ≤ s.bo + size inp := by
  fun_induction TtlO.scanLocal T e st s inp acc le unc
  all_goals try (simp [done] at h; done)
  all_goals first
    | err_here h hp
    | (rename_i ih; have := ih (by pend_next hp) h; simp at this ⊢; omega)
    | (unfold TtlO.localDone at h; split at h <;> (try split at h) <;> simp [done] at h)

theorem producePrefixedName_err (T : Tables) (e : End) (trig : Bool) (s : S) (inp : List RP)
    (c : EClass) (o : EOff) (hp : InStep s)
    (h : TtlO.producePrefixedName T e trig s inp = .err c o) : EOff.bound o ≤ s.bo + size inp := by
  unfold TtlO.producePrefixedName at h
  cases hn : TtlO.producePNAME_NS T e trig s inp with
  | err c' o' =>
    simp only [hn, TtlO.RO.err.injEq] at h
    obtain ⟨rfl, rfl⟩ := h
    exact producePNAME_NS_err _ _ _ _ _ _ _ hp hn
  | panic => simp [hn] at h
  | ok nsv rgNs s1 rest1 =>
    simp only [hn] at h
    obtain ⟨ns, ⟨rfl, rfl, rfl⟩, -⟩ := producePNAME_NS_ok _ _ _ _ _ _ _ _ _ hn
    cases hl : TtlO.scanLocal T e .first ⟨s.bo + size ns, s.doc.map (fun h => ns :: h)⟩ rest1 [] false [] with
    | ok loc rgLoc s2 rest2 => simp [hl] at h
    | panic => simp [hl] at h
    | err c' o' =>
      simp only [hl, TtlO.RO.err.injEq] at h
      obtain ⟨rfl, rfl⟩ := h
      have := scanLocal_err _ _ _ _ _ _ _ _ _ _ (by
        intro hh hd
        cases hd0 : s.doc with
        | none => simp [hd0] at hd
        | some h0 =>
          have := hp h0 hd0
          simp [hd0] at hd
          subst hd
          simp; omega) hl
      simp at this ⊢; omega

/-! ### From histories to concrete offsets (same statements as in Proofs/C16.lean, proved here so
that this development does not depend on the N-Triples/N-Quads proof chain) -/

theorem rangeAt_of (cols : List Nat → Nat) (init : Offset) (fr un : Hist) (pre tok : List RP)
    (h1 : histRunes fr = pre) (h2 : histRunes un = pre ++ tok) :
    RangeAt cols init pre tok (histOffset cols init fr) (histOffset cols init un) := by
  refine ⟨by rw [histOffset_byte, h1], by rw [histOffset_byte, h2]; simp; omega,
    by rw [histOffset_line, h1], by rw [histOffset_line, h2, countLF_append]; omega, ?_⟩
  intro hc hs
  have hs' := hs
  simp only [runes_append, simple_append] at hs'
  exact ⟨by rw [histOffset_simple hc init fr (by rw [h1]; exact hs'.1), h1],
    by rw [histOffset_simple hc init un (by rw [h2]; exact hs), h2]⟩

theorem errInside_of_bound (cols : List Nat → Nat) (init : Offset) (x : EOff) (n : Nat)
    (h : EOff.bound x ≤ n) : ErrInside init n (evalEOff cols init x) := by
  cases x with
  | none => trivial
  | byte b => simpa [evalEOff, ErrInside, EOff.bound] using h
  | text hh unc =>
    simp only [EOff.bound] at h
    simp only [evalEOff, ErrInside]
    split
    · simp [histOffset_byte]; omega
    · simp [histOffset_byte]; omega
  | range f u =>
    simp only [EOff.bound, Nat.max_le] at h
    simp only [evalEOff, ErrInside, histOffset_byte]
    omega

end RdfModel.Proofs.C16Ttl
