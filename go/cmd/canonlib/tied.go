package canonlib

// Generator families and oracles added for the inner loops of Hash N-Degree Quads (4.8.3 step 5.4) and for the
// serialisation of the result (Canonicalization.WriteTo). Each family is described by the mechanism it drives,
// not by a particular defect:
//
//	tied-children   k >= 3 blank nodes with ONE related hash under an owner whose own first-degree hash is not
//	                unique (the owner exists in two or three copies), the k nodes tied at first degree and told
//	                apart only at distance >= 2 (a grandchild's literal, the number of a grandchild's tails, the
//	                length of a chain). The owner's blank node list then has k unlabelled entries whose
//	                permutations produce DIFFERENT paths: paths are pruned in the recursion phase (5.4.5.5) and a
//	                pruned permutation is followed by further permutations of the same list.
//	shared-groups   an owner with TWO related-hash groups, {x_1..x_a} and {y_1..y_b} (b >= 3), where x_i is linked
//	                to y_i: the recursion of whichever group sorts first issues temporary identifiers to some
//	                but not all members of the other group, which therefore mixes issued and unissued,
//	                non-automorphic members (x'_j of the remaining y_j are decorated differently). The group
//	                order is a function of the predicate IRIs, which are drawn from the pool.
//	sparse-big      connected single-predicate graphs with 11..16 (thorough: ..26) blank nodes and small degrees
//	                (deep random trees with up to two extra edges, plain long paths): first-degree hashing leaves
//	                large tie classes of non-automorphic nodes and one temporary issuer hands out more than ten
//	                identifiers (b10, b11, ... enter related hashes and paths).
//	long-lines      datasets whose canonical lines straddle 4096, 8192 and 65536 bytes (literals of that size with
//	                characters of every escaping class), mixed with short and medium lines sorting before and
//	                after them.
//
// Oracle additions (shapeChecks): the bytes of Canonicalization.WriteTo are exactly the concatenation of the
// iterator's EncodedQuad lines, the reported count is the number of bytes written, and a writer that fails
// after L bytes receives a prefix of that document (never bytes out of order).

import (
	"bytes"
	"errors"
	"fmt"
	"io"
	"os"
	"strings"

	"verifharness/vh"

	"github.com/dpb587/rdfkit-go/encoding/nquads"
	"github.com/dpb587/rdfkit-go/rdf"
	"github.com/dpb587/rdfkit-go/rdf/blanknodes"
)

func lit(s string) vh.GTerm { return vh.GTerm{Kind: vh.KLit, Lex: s, DT: vh.XSDString} }

func dirEdge(a, b int, p string, fwd bool) vh.GQuad {
	if fwd {
		return edge(a, b, p)
	}
	return edge(b, a, p)
}

func tail(a int, p string, o vh.GTerm) vh.GQuad { return vh.GQuad{S: bn(a), P: iri(p), O: o} }

// threePreds: three distinct predicates of the pool.
func threePreds(r *vh.Rng) (string, string, string) {
	i := r.Intn(len(predPool))
	j := (i + 1 + r.Intn(len(predPool)-1)) % len(predPool)
	k := r.Intn(len(predPool))
	for k == i || k == j {
		k = (k + 1) % len(predPool)
	}
	return predPool[i], predPool[j], predPool[k]
}

// tiedChildrenShape: `copies` copies of an owner with k children over pc, each child with one grandchild over pi;
// grandchild i of copy c is told apart by mode:
//
//	0  a literal that is distinct over the whole dataset (every grandchild uniquely hashed; the demo of C03r3-2)
//	1  a literal distinct among siblings but equal across copies (grandchildren tie pairwise; copies automorphic)
//	2  i+1 ground tails (told apart by degree, equal across copies)
//	3  no literal: the grandchild starts a chain of i%3+1 further nodes (told apart by depth only)
//
// dup > 0: child `dup` gets the same distinguisher as child 0 (an interchangeable pair among distinguishable ones).
func tiedChildrenShape(copies, k, mode, dup int, pc, pi, pv string, dc, di bool) shape {
	s := shape{name: fmt.Sprintf("tied-children:k%d:m%d", k, mode)}
	next := 0
	fresh := func() int { next++; return next - 1 }
	for c := 0; c < copies; c++ {
		owner := fresh()
		for i := 0; i < k; i++ {
			ch, gc := fresh(), fresh()
			s.qs = append(s.qs, dirEdge(owner, ch, pc, dc), dirEdge(ch, gc, pi, di))
			d := i
			if dup > 0 && i == dup {
				d = 0
			}
			switch mode {
			case 0:
				s.qs = append(s.qs, tail(gc, pv, lit(fmt.Sprint(c*k+d+1))))
			case 1:
				s.qs = append(s.qs, tail(gc, pv, lit(fmt.Sprint(d+1))))
			case 2:
				for t := 0; t <= d; t++ {
					s.qs = append(s.qs, tail(gc, pv, iri(fmt.Sprintf("http://example.org/o%d", t))))
				}
			default:
				prev := gc
				for t := 0; t < d%3+1; t++ {
					nx := fresh()
					s.qs = append(s.qs, dirEdge(prev, nx, pi, di))
					prev = nx
				}
			}
		}
	}
	s.n = next
	return s
}

func (h *harness) tiedChildren(maxK int) shape {
	r := h.r
	k := 3
	if maxK >= 4 && r.Chance(35) {
		k = 4
	}
	copies := 2
	if k == 3 && r.Chance(10) {
		copies = 3
	}
	pc, pi, pv := threePreds(r)
	if r.Chance(20) {
		pi = pc
	}
	dup := 0
	if r.Chance(25) {
		dup = 1 + r.Intn(k-1)
	}
	return tiedChildrenShape(copies, k, r.Intn(4), dup, pc, pi, pv, r.Bool(), r.Bool())
}

// sharedGroupsShape: two copies of
//
//	n -p-> x_1..x_a        n -q-> y_1..y_b        x_i -rr-> y_i (i <= a)
//	x'_j -rr-> y_j (a < j <= b), x'_j carrying the literal "lit" over pm iff bit j of deco is set
//
// (edge directions dp, dq, dr). The y_j all have the same first-degree hash; y_1..y_a are reached by the recursion
// through the x group, the others are not; the x'_j are not related to n.
func sharedGroupsShape(a, b, deco int, p, q, rr, pm string, dp, dq, dr bool) shape {
	s := shape{name: fmt.Sprintf("shared-groups:a%d:b%d", a, b)}
	next := 0
	fresh := func() int { next++; return next - 1 }
	for c := 0; c < 2; c++ {
		n := fresh()
		for j := 0; j < b; j++ {
			x, y := fresh(), fresh()
			s.qs = append(s.qs, dirEdge(n, y, q, dq), dirEdge(x, y, rr, dr))
			if j < a {
				s.qs = append(s.qs, dirEdge(n, x, p, dp))
			} else if deco&(1<<j) != 0 {
				s.qs = append(s.qs, tail(x, pm, lit("lit")))
			}
		}
	}
	s.n = next
	return s
}

func (h *harness) sharedGroups() shape {
	r := h.r
	a, b := 1, 3
	if r.Chance(30) {
		b = 4
	}
	if r.Chance(25) {
		a = 2
	}
	p, q, rr := threePreds(r)
	pm := vh.Pick(r, []string{"http://example.org/name", "urn:p22", exP})
	deco := 0
	for deco == 0 || deco == (1<<b-1)&^(1<<a-1) && b-a > 1 { // some, but (when there are several) not all, of the x'_j
		deco = r.Intn(1<<b) &^ (1<<a - 1)
	}
	return sharedGroupsShape(a, b, deco, p, q, rr, pm, r.Chance(80), r.Chance(80), r.Chance(80))
}

// sparseBig: a connected graph on n >= 11 blank nodes over one predicate: a random tree that favours depth,
// mostly forward edges, at most three edges per node and direction, plus up to two extra edges.
func (h *harness) sparseBig(maxN int) shape {
	r := h.r
	n := 11 + r.Intn(maxN-10)
	p := vh.Pick(r, predPool)
	s := shape{name: "sparse-big", n: n}
	out, in := make([]int, n), make([]int, n)
	add := func(a, b int) bool {
		if out[a] >= 3 || in[b] >= 3 {
			return false
		}
		out[a]++
		in[b]++
		s.qs = append(s.qs, edge(a, b, p))
		return true
	}
	for i := 1; i < n; i++ {
		for {
			a := i - 1
			if r.Chance(35) {
				a = r.Intn(i)
			}
			if r.Chance(20) {
				if add(i, a) {
					break
				}
			} else if add(a, i) {
				break
			}
		}
	}
	for i, m := 0, r.Intn(3); i < m; i++ {
		a, b := r.Intn(n), r.Intn(n)
		if a != b {
			add(a, b)
		}
	}
	return s
}

// fill: a lexical form of exactly n bytes (ASCII filler; with specials it may be a little longer once escaped).
func fill(r *vh.Rng, n int, specials bool) string {
	words := []string{"lorem ", "ipsum ", "dolor ", "sit ", "amet ", "a", "Z", " "}
	var sb strings.Builder
	if specials {
		sb.WriteString(vh.Pick(r, []string{"\"q\" ", "back\\slash ", "tab\t ", "line\n ", "cr\r ", "del\x7f ", "night\U0001F303 ", "é  ", "\x00\x1f "}))
	}
	for sb.Len() < n {
		w := vh.Pick(r, words)
		if sb.Len()+len(w) > n {
			w = w[:n-sb.Len()]
		}
		sb.WriteString(w)
	}
	return sb.String()
}

// longLines: 2..7 quads over IRI and blank subjects whose canonical lines are short, medium (500..3000 bytes) or
// sit within a few bytes of (or well above) a boundary of 4096, 8192 or (big: every eighth dataset) 65536 bytes.
func (h *harness) longLines(big bool) shape {
	r := h.r
	s := shape{name: "long-lines"}
	nq := 2 + r.Intn(6)
	subj := func() vh.GTerm {
		if r.Chance(25) {
			k := r.Intn(2)
			if k+1 > s.n {
				s.n = k + 1
			}
			return bn(k)
		}
		return iri(fmt.Sprintf("urn:ex:d%d", r.Intn(5)))
	}
	nLong := 0
	for i := 0; i < nq; i++ {
		sj := subj()
		p := vh.Pick(r, []string{"urn:ex:body", "urn:ex:title", "urn:ex:a", "urn:ex:z"})
		over := len(p) + 11 // `<s> <p> "…" .\n` without s and the lexical form
		if sj.Kind == vh.KIRI {
			over += len(sj.IRI)
		} else {
			over += 5 // `_:c14n0` instead of `<s>`
		}
		var lx string
		switch x := r.Intn(10); {
		case x < 3 || (nLong >= 3 && x >= 6):
			lx = fill(r, r.Intn(40), r.Chance(30))
		case x < 6:
			lx = fill(r, 500+r.Intn(2500), r.Chance(30))
		default:
			nLong++
			bounds := []int{4096, 4096, 4096, 8192}
			if big {
				bounds = append(bounds, 65536)
			}
			ln := vh.Pick(r, bounds) - over
			switch r.Intn(4) {
			case 0:
				ln += r.Intn(1200) + 1 // well above
			case 1:
				ln -= r.Intn(3) // at or just below
			default:
				ln += 1 + r.Intn(3) // just above
			}
			lx = fill(r, ln, r.Chance(30))
		}
		s.qs = append(s.qs, vh.GQuad{S: sj, P: iri(p), O: lit(lx)})
	}
	if nLong == 0 { // always at least one line above the first boundary
		s.qs = append(s.qs, vh.GQuad{S: iri("urn:ex:d2"), P: iri("urn:ex:body"), O: lit(fill(r, 4100+r.Intn(800), true))})
	}
	if s.n == 0 || r.Chance(50) { // a blank node that relates two of the documents
		s.qs = append(s.qs, vh.GQuad{S: bn(s.n), P: iri("urn:ex:cites"), O: iri("urn:ex:d2")})
		s.n++
	}
	return s
}

// ---------------------------------------------------------------- datasets given as N-Quads text

func parseNQ(b []byte) (dataset, error) {
	f := blanknodes.NewStringFactory()
	prov := f.(blanknodes.StringProviderProvider).GetStringProvider(blanknodes.NewInt64StringProvider("?anon%d"))
	dec, err := nquads.NewDecoder(bytes.NewReader(b), nquads.DecoderConfig{}.SetBlankNodeStringFactory(f))
	if err != nil {
		return dataset{}, err
	}
	d := dataset{labels: map[rdf.BlankNodeIdentifier]string{}}
	seen := map[string]bool{}
	for dec.Next() {
		q := dec.Quad()
		for _, t := range []rdf.Term{q.Triple.Subject, q.Triple.Object, q.GraphName} {
			if bn, ok := t.(rdf.BlankNode); ok {
				d.labels[bn.Identifier] = prov.GetBlankNodeString(bn)
			}
		}
		k := vh.QuadWire(q, d.label)
		if seen[k] {
			continue // a dataset is a set
		}
		seen[k] = true
		d.quads = append(d.quads, q)
	}
	return d, dec.Err()
}

// Datasets published with earlier regressions of this package's subject, kept as a corpus. The expected documents
// of the pinned ones are RDFC-1.0's (confirmed against Spec.RDFC10 on every run with the model; in oracle-only
// mode the pinned bytes are the reference).
const corpusTiedChildren4 = `
_:xA <http://e/child> _:cA1 .
_:xA <http://e/child> _:cA2 .
_:xA <http://e/child> _:cA3 .
_:xA <http://e/child> _:cA4 .
_:cA1 <http://e/item> _:dA1 .
_:cA2 <http://e/item> _:dA2 .
_:cA3 <http://e/item> _:dA3 .
_:cA4 <http://e/item> _:dA4 .
_:dA1 <http://e/v> "1" .
_:dA2 <http://e/v> "2" .
_:dA3 <http://e/v> "3" .
_:dA4 <http://e/v> "4" .
_:xB <http://e/child> _:cB1 .
_:xB <http://e/child> _:cB2 .
_:xB <http://e/child> _:cB3 .
_:xB <http://e/child> _:cB4 .
_:cB1 <http://e/item> _:dB1 .
_:cB2 <http://e/item> _:dB2 .
_:cB3 <http://e/item> _:dB3 .
_:cB4 <http://e/item> _:dB4 .
_:dB1 <http://e/v> "5" .
_:dB2 <http://e/v> "6" .
_:dB3 <http://e/v> "7" .
_:dB4 <http://e/v> "8" .
`

const corpusSharedGroups = `_:nA <urn:p403> _:y3A .
_:nA <urn:p403> _:y1A .
_:x3A <urn:p928> _:y3A .
_:nB <urn:p403> _:y2B .
_:nB <urn:p403> _:y3B .
_:nB <urn:p548> _:xB .
_:x2B <urn:p22> "lit" .
_:x2A <urn:p928> _:y2A .
_:xA <urn:p928> _:y1A .
_:nA <urn:p403> _:y2A .
_:nB <urn:p403> _:y1B .
_:x2A <urn:p22> "lit" .
_:nA <urn:p548> _:xA .
_:x3B <urn:p928> _:y3B .
_:x2B <urn:p928> _:y2B .
_:xB <urn:p928> _:y1B .
`

const corpusSharedGroupsWant = `_:c14n0 <urn:p403> _:c14n2 .
_:c14n0 <urn:p403> _:c14n3 .
_:c14n0 <urn:p403> _:c14n4 .
_:c14n0 <urn:p548> _:c14n1 .
_:c14n1 <urn:p928> _:c14n2 .
_:c14n12 <urn:p928> _:c14n10 .
_:c14n13 <urn:p22> "lit" .
_:c14n13 <urn:p928> _:c14n11 .
_:c14n5 <urn:p928> _:c14n3 .
_:c14n6 <urn:p22> "lit" .
_:c14n6 <urn:p928> _:c14n4 .
_:c14n7 <urn:p403> _:c14n10 .
_:c14n7 <urn:p403> _:c14n11 .
_:c14n7 <urn:p403> _:c14n9 .
_:c14n7 <urn:p548> _:c14n8 .
_:c14n8 <urn:p928> _:c14n9 .
`

const corpusEleven = `_:n0 <urn:p0> _:n1 .
_:n1 <urn:p0> _:n2 .
_:n2 <urn:p0> _:n5 .
_:n3 <urn:p0> _:n4 .
_:n4 <urn:p0> _:n0 .
_:n5 <urn:p0> _:n6 .
_:n6 <urn:p0> _:n9 .
_:n7 <urn:p0> _:n8 .
_:n8 <urn:p0> _:n9 .
_:n9 <urn:p0> _:n10 .
_:n10 <urn:p0> _:n0 .
`

const corpusElevenWant = `_:c14n0 <urn:p0> _:c14n1 .
_:c14n1 <urn:p0> _:c14n2 .
_:c14n10 <urn:p0> _:c14n9 .
_:c14n2 <urn:p0> _:c14n3 .
_:c14n3 <urn:p0> _:c14n4 .
_:c14n4 <urn:p0> _:c14n5 .
_:c14n5 <urn:p0> _:c14n6 .
_:c14n6 <urn:p0> _:c14n7 .
_:c14n7 <urn:p0> _:c14n8 .
_:c14n8 <urn:p0> _:c14n2 .
_:c14n9 <urn:p0> _:c14n7 .
`

// corpusRepeatedEntry: two copies of x -p-> m (g1, g2), x -p-> n (g1), w -p-> n (g2), x -q-> t1 -q-> … -q-> t8:
// a blank node list with a repeated entry that is issued b9 and b10 (paths of different lengths compete).
func corpusRepeatedEntry() string {
	var sb strings.Builder
	for _, c := range []string{"A", "B"} {
		x, m, n, w := "_:x"+c, "_:m"+c, "_:n"+c, "_:w"+c
		sb.WriteString(x + " <http://e/p> " + n + " <http://e/g1> .\n")
		sb.WriteString(x + " <http://e/p> " + m + " <http://e/g1> .\n")
		sb.WriteString(x + " <http://e/p> " + m + " <http://e/g2> .\n")
		sb.WriteString(w + " <http://e/p> " + n + " <http://e/g2> .\n")
		prev := x
		for i := 1; i <= 8; i++ {
			cur := fmt.Sprintf("_:t%s%d", c, i)
			sb.WriteString(prev + " <http://e/q> " + cur + " .\n")
			prev = cur
		}
	}
	return sb.String()
}

// pinned: a corpus dataset with the published RDFC-1.0 document. C04 compares Go's bytes with it (this is the
// only conformance oracle available without the model, i.e. in the search mode); with the model the pinned
// document itself is first confirmed against Spec.RDFC10.
func (h *harness) pinned(name, nq, want string, variants int) {
	d, err := parseNQ([]byte(nq))
	if err != nil {
		h.rep.Add(vh.Case{Kind: "disagreement", Op: "corpus " + name, Detail: "corpus does not parse: " + err.Error()})
		return
	}
	h.checkDataset(name, "sha256", d, variants)
	if want == "" || h.prop != "C04" {
		return
	}
	op := "canon.runs sha256 1 " + d.wire()
	h.rep.Count("pinned-document")
	for i := 0; i < 4; i++ {
		v := d
		if i > 0 {
			v = d.variant(h.r)
		}
		if g := goCanon("sha256", v); string(g.bytes) != want {
			h.violation(op, fmt.Sprintf("C04: output differs from the pinned RDFC-1.0 canonical document of corpus dataset %s (quad order/labels variant %d): got %q", name, i, clip(string(g.bytes))))
			break
		}
	}
	if !*nomodel {
		h.ask("canon.specs sha256 1 8 "+d.wire(), func(res string) {
			for _, e := range strings.Split(res, "|") {
				if bytesOf(e) != vh.X([]byte(want)) {
					h.disagreement(op, vh.X([]byte(want)), res, "TEST: the pinned document of corpus dataset "+name+" is not what Spec.RDFC10 computes")
					return
				}
			}
		})
	}
}

// ---------------------------------------------------------------- WriteTo

// failAfter accepts limit bytes in total and then fails (a full pipe, a closed connection).
type failAfter struct {
	buf   bytes.Buffer
	limit int
	calls int
}

var errSink = errors.New("sink full")

func (w *failAfter) Write(p []byte) (int, error) {
	w.calls++
	room := w.limit - w.buf.Len()
	if len(p) <= room {
		return w.buf.Write(p)
	}
	w.buf.Write(p[:room])
	return room, errSink
}

// wtRng draws the random failure points of writeToChecks (its own stream: shapeChecks runs inside every dataset
// check and must not disturb the generators' streams). Seeded in Main.
var wtRng = vh.NewRng(1)

// chunkWriter never fails and records how the document arrives.
type chunkWriter struct {
	buf   bytes.Buffer
	calls int
}

func (w *chunkWriter) Write(p []byte) (int, error) { w.calls++; return w.buf.Write(p) }

var _ io.Writer = (*failAfter)(nil)

func lenClass(n int) string {
	switch {
	case n <= 4096:
		return "<=4096"
	case n <= 8192:
		return "4097..8192"
	case n <= 65536:
		return "8193..65536"
	}
	return ">65536"
}

// writeToChecks: the serialized document is the iterator's lines in the iterator's order, byte for byte; the
// count is right; a failing writer sees a prefix of the document and the count of accepted bytes.
func (h *harness) writeToChecks(op string, g goRes) {
	var doc []byte
	maxLine, nLines := 0, 0
	it := g.c.NewIterator()
	for it.Next() {
		l := it.EncodedQuad()
		doc = append(doc, l...)
		nLines++
		if len(l) > maxLine {
			maxLine = len(l)
		}
	}
	h.rep.Count("writeto:longest-line:" + lenClass(maxLine))
	if !bytes.Equal(doc, g.bytes) {
		h.rep.Count("violation:writeto-order")
		h.violation(op, fmt.Sprintf("C03/C04: the document written by Canonicalization.WriteTo is not the sequence of canonical lines (sorted, as the iterator yields them): %d lines, longest %d bytes; first difference at byte %d of %d/%d", nLines, maxLine, firstDiff(doc, g.bytes), len(g.bytes), len(doc)))
		return
	}
	// sortedness of the serialized document itself (lines never contain a raw LF)
	if nLines > 1 {
		ls := bytes.SplitAfter(g.bytes, []byte("\n"))
		for i := 1; i < len(ls) && len(ls[i]) > 0; i++ {
			if bytes.Compare(ls[i-1], ls[i]) >= 0 {
				h.violation(op, fmt.Sprintf("C03: lines %d and %d of the serialized document are not in strictly increasing code point order", i-1, i))
				break
			}
		}
	}
	cw := &chunkWriter{}
	n, err := g.c.WriteTo(cw)
	if err != nil || n != int64(len(doc)) || !bytes.Equal(cw.buf.Bytes(), doc) {
		h.violation(op, fmt.Sprintf("C03/C04: a second WriteTo returned (%d, %v) and wrote %d bytes; the document has %d bytes", n, err, cw.buf.Len(), len(doc)))
	}
	if len(doc) == 0 {
		return
	}
	// a writer that fails: at a line boundary, one byte into a line, or anywhere
	limits := []int{0, len(doc) - 1, wtRng.Intn(len(doc))}
	if k := bytes.IndexByte(doc, '\n'); k >= 0 && k+2 < len(doc) {
		limits = append(limits, k+1, k+2)
	}
	for _, lim := range limits {
		fw := &failAfter{limit: lim}
		n, err := g.c.WriteTo(fw)
		h.rep.Count("writeto:failing-writer")
		if !errors.Is(err, errSink) || n != int64(lim) || !bytes.Equal(fw.buf.Bytes(), doc[:lim]) {
			h.violation(op, fmt.Sprintf("C03/C04: WriteTo into a writer that fails after %d bytes returned (%d, %v) and delivered %d bytes that are a prefix of the document: %v", lim, n, err, fw.buf.Len(), bytes.HasPrefix(doc, fw.buf.Bytes())))
			break
		}
	}
}

func firstDiff(a, b []byte) int {
	for i := 0; i < len(a) && i < len(b); i++ {
		if a[i] != b[i] {
			return i
		}
	}
	return min(len(a), len(b))
}

// ---------------------------------------------------------------- the families' share of a run

func famOn(name string) bool {
	if *families == "" {
		return true
	}
	for _, f := range strings.Split(*families, ",") {
		if f == name {
			return true
		}
	}
	return false
}

// innerLoopFamilies runs the deterministic corpus and the random stream of the four families. It draws from its
// own generator so that the streams of the older families are unchanged.
func (h *harness) innerLoopFamilies(seed uint64, thorough bool, scale int) {
	old := h.r
	h.r = vh.NewRng(seed ^ 0x696e6e65726c6f6f)
	defer func() { h.r = old }()
	e := func(i int) string { return fmt.Sprintf("e%d", i) }
	flush := func() {
		if err := h.flushIfModel(); err != nil {
			fmt.Fprintln(os.Stderr, err)
			os.Exit(2)
		}
	}

	// ---- corpus
	if famOn("corpus") {
		h.pinned("corpus:tied-children", corpusTiedChildren4, "", 16)
		h.pinned("corpus:shared-groups", corpusSharedGroups, corpusSharedGroupsWant, 16)
		h.pinned("corpus:sparse-big", corpusEleven, corpusElevenWant, 8)
		h.pinned("corpus:repeated-entry", corpusRepeatedEntry(), "", 16)
		for _, n := range []int{11, 12, 13, 17} {
			s := pathShape(n, "urn:p0")
			h.checkDataset("corpus:sparse-big", "sha256", fromG(s.qs, e), 4)
		}
		for mode := 0; mode < 4; mode++ {
			s := tiedChildrenShape(2, 3, mode, 0, "http://e/child", "http://e/item", "http://e/v", true, true)
			h.checkDataset("corpus:"+s.name, "sha256", fromG(s.qs, e), 16)
		}
		// shared groups over predicate triples of the whole pool: which of the two groups sorts first is a function of the IRIs
		for i := range predPool {
			if !thorough && i%2 == 1 {
				continue
			}
			p, q, rr := predPool[i], predPool[(i+7)%len(predPool)], predPool[(i+13)%len(predPool)]
			s := sharedGroupsShape(1, 3, 1<<1, p, q, rr, "urn:p22", true, true, true)
			h.checkDataset("corpus:"+s.name, "sha256", fromG(s.qs, e), 16)
		}
		// the long line second of four, and lines exactly at the boundaries
		body := strings.Repeat("lorem ipsum ", 400) + "\"quoted\" back\\slash tab\t line\n del\x7f night\U0001F303"
		doc := []vh.GQuad{
			{S: bn(0), P: iri("urn:ex:cites"), O: iri("urn:ex:doc2")},
			{S: iri("urn:ex:doc2"), P: iri("urn:ex:title"), O: lit("Second")},
			{S: iri("urn:ex:doc2"), P: iri("urn:ex:body"), O: lit(body)},
			{S: iri("urn:ex:doc1"), P: iri("urn:ex:title"), O: lit("First")},
		}
		h.checkDataset("corpus:long-lines", "sha256", fromG(doc, e), 4)
		for _, bd := range []int{4096, 8192, 65536} {
			for _, delta := range []int{0, 1} {
				over := len("urn:ex:doc2") + len("urn:ex:body") + 11
				qs := append([]vh.GQuad{}, doc[:2]...)
				qs = append(qs, doc[3], vh.GQuad{S: iri("urn:ex:doc2"), P: iri("urn:ex:body"), O: lit(strings.Repeat("x", bd-over+delta))})
				h.checkDataset("corpus:long-lines", "sha256", fromG(qs, e), 2)
			}
		}
		nTriples, lens := len(predPool)/2, "4096/4097, 8192/8193 and 65536/65537"
		if thorough {
			nTriples = len(predPool)
		}
		h.rep.Exhaustive = append(h.rep.Exhaustive, fmt.Sprintf("corpus of the inner-loop families (deterministic, every run): the published datasets of four earlier regressions (two with pinned RDFC-1.0 documents), directed paths of 11/12/13/17 blank nodes, tied-children k=3 in all four distinguishing modes, shared-groups a=1 b=3 over %d predicate triples of the pool, canonical lines of exactly %s bytes", nTriples, lens))
		flush()
	}

	// ---- random stream
	nTied, nShared, nSparse, nLong := 24*scale, 40*scale, 40*scale, 24*scale
	maxK, maxN := 3, 16
	if thorough {
		nTied, nShared, nSparse, nLong = 300*scale, 500*scale, 500*scale, 300*scale
		maxK, maxN = 4, 26
	}
	if famOn("tied-children") {
		for i := 0; i < nTied; i++ {
			mk := maxK
			if !thorough && i%5 == 4 {
				mk = 4 // quick: every fifth with four children
			}
			s := h.tiedChildren(mk)
			h.checkDataset(s.name, h.pickFullHash(), fromG(s.qs, labelFor(h.r)), 16)
		}
		flush()
	}
	if famOn("shared-groups") {
		for i := 0; i < nShared; i++ {
			s := h.sharedGroups()
			h.checkDataset(s.name, h.pickFullHash(), fromG(s.qs, labelFor(h.r)), 16)
		}
		flush()
	}
	if famOn("sparse-big") {
		for i := 0; i < nSparse; i++ {
			s := h.sparseBig(maxN)
			h.rep.Count(fmt.Sprintf("sparse-big:nodes:%02d", s.n))
			h.checkDataset(s.name, h.pickFullHash(), fromG(s.qs, labelFor(h.r)), 6)
		}
		flush()
	}
	if famOn("long-lines") {
		for i := 0; i < nLong; i++ {
			s := h.longLines(i%8 == 7)
			h.checkDataset(s.name, h.pickFullHash(), fromG(s.qs, labelFor(h.r)), 4)
		}
		flush()
	}
}

// pickFullHash: the inner-loop families run under the real hash functions (a colliding test hash makes the
// specification order-sensitive on most of them, which exempts the dataset from both oracles).
func (h *harness) pickFullHash() string {
	if h.r.Chance(15) {
		return "sha384"
	}
	return "sha256"
}
