/-
  RdfModel.Spec.TurtleAbstract — abstract syntax of Turtle 1.1 / TriG 1.1 documents, the dataset a
  document denotes, and a printer that covers every lexical and layout choice (property C08,
  document level).  Written against the W3C recommendations, not against the decoder.
  Core-only, executable (driver component `ttlp`).

  ## Abstract syntax (`Doc`)

    doc        ::= block*
    block      ::= directive | triples '.'                                   (Turtle and TriG)
                 | 'GRAPH' label '{' body '}' | label '{' body '}' | '{' body '}'      (TriG only)
    directive  ::= '@prefix' PNAME_NS IRIREF '.' | '@base' IRIREF '.' | 'PREFIX' PNAME_NS IRIREF | 'BASE' IRIREF
    body       ::= (triples ('.' triples)* '.'?)?
    triples    ::= subject predicateObjectList | blankNodePropertyList predicateObjectList?
    subject    ::= iri | BLANK_NODE_LABEL | ANON | blankNodePropertyList | collection
    pol        ::= verb objectList (';' (verb objectList)?)*
    verb       ::= 'a' | iri
    object     ::= iri | BLANK_NODE_LABEL | ANON | literal | blankNodePropertyList | collection
    literal    ::= String | String LANGTAG | String '^^' iri | INTEGER | DECIMAL | DOUBLE | 'true' | 'false'
    iri        ::= IRIREF | PrefixedName

  Leaves carry token *values* (the reference between `<` `>`, prefix label and local name, lexical
  form, tag, label); how a value is spelled and what stands between tokens is a `Choices` matter.

  ## Denotation (`denote`)

  Turtle 1.1 §7 / TriG 1.1 §4: a state (base IRI, namespaces, fresh-node counter; `bnodeLabels` is
  the identity on labels, labelled and fresh nodes are disjoint sorts of `B`), curSubject /
  curPredicate / curGraph are parameters of the recursive functions.  The result is the *list* of
  quads in the order a one-pass reader meets them (the triple that links a `[ … ]` or `( … )` to its
  context comes before the triples inside); as a dataset the order and multiplicity are irrelevant.
  Fresh blank nodes are numbered by the opening bracket that creates them; `(` reserves the
  identifier of the first list cell also when the collection is empty (`()` is rdf:nil and the
  reserved identifier stays unused) — any other supply of fresh identifiers gives an isomorphic
  dataset.  IRI references are resolved with the resolver `R` (`R (some base) ref`; `R none ref` =
  the reference itself when it is an IRI) — RFC 3986 §5.2 (`Spec.RFC3986.resolve`) is the intended
  instance; without a base IRI references in term position are taken as they are.
  `none` = the document has no denotation (undeclared prefix, unresolvable reference, datatype
  rdf:langString written explicitly, a numeric token that is none).

  ## Printer (`print`)

  `print T doc ch : List Nat` (code points).  Every token owns one `Slot` of `ch` (numbered in
  document order, slot 0 = before the first token): the spelling of the token and the layout that
  FOLLOWS it.  Token-level choices are those of `Spec/TurtlePrinter.lean` (per rune: raw / ECHAR or
  PN_LOCAL_ESC / \u / \U with either hex case; four string styles; PERCENT kept or escaped) plus
  the case of each letter of `PREFIX` / `BASE` / `GRAPH`, the number of `;` after each
  predicate-object pair (also trailing) and the optional last `.` inside `{ }`.  Layout = any
  sequence of SP / TAB / LF / CR and comments (ended by LF, CR LF, CR, or by the end of the
  document), also none: where two tokens would otherwise be read as one (`ex:a` `ex:b`, `1` `.5`,
  `ex:a` `.` `ex:b`, `""` `"x"`, `@en` `a` …) a single space is inserted (`clash`).
  The printer builds the text from the end (`rest` = what is already printed to the right), so the
  decision looks at the actual next characters.

  Restrictions of the printer (documented, not choices): no layout inside `"x"@en`, `"x"^^<dt>`,
  `_:b`, `@prefix`; a keyword (`a`, `PREFIX`, `BASE`, `GRAPH`) is followed by a white-space
  character unless the slot sets `glue` (then `a<p>`, `GRAPH<g>`, `BASE#c…` are printed, which the
  grammar allows).
-/
import RdfModel.Spec.TurtlePrinter
namespace RdfModel.TA
open RdfModel RdfModel.Spec.TtlPrint

/-! ## Abstract syntax -/

/-- `iri ::= IRIREF | PrefixedName` -/
inductive IriS where
  | ref (r : List Nat)          -- the (possibly relative) reference between `<` and `>`
  | pn (p l : List Nat)         -- prefix label (without ':') and local name (unescaped)
  deriving Repr, DecidableEq, Inhabited

inductive Lit where
  | plain (lex : List Nat)
  | lang (lex tag : List Nat)
  | typed (lex : List Nat) (dt : IriS)
  | num (lex : List Nat)        -- INTEGER / DECIMAL / DOUBLE token text
  | bool (b : Bool)
  deriving Repr, DecidableEq, Inhabited

inductive Verb where
  | a
  | iri (i : IriS)
  deriving Repr, DecidableEq, Inhabited

mutual
inductive Obj where
  | iri (i : IriS)
  | bn (l : List Nat)           -- `_:l`
  | anon                        -- `[]`
  | lit (l : Lit)
  | bnpl (pos : List PO)        -- `[ pol ]`, non-empty
  | coll (items : List Obj)     -- `( … )`
inductive PO where
  | mk (v : Verb) (objs : List Obj)
end

instance : Inhabited Obj := ⟨.anon⟩
instance : Inhabited PO := ⟨.mk .a []⟩

inductive Subj where
  | iri (i : IriS)
  | bn (l : List Nat)
  | anon
  | bnpl (pos : List PO)
  | coll (items : List Obj)

structure Triples where
  s : Subj
  pos : List PO

inductive Dir where
  | prefixAt (p r : List Nat)   -- `@prefix p: <r> .`
  | baseAt (r : List Nat)       -- `@base <r> .`
  | prefixKw (p r : List Nat)   -- `PREFIX p: <r>`
  | baseKw (r : List Nat)       -- `BASE <r>`
  deriving Repr, DecidableEq, Inhabited

/-- `labelOrSubject` of a TriG graph block -/
inductive GLabel where
  | iri (i : IriS)
  | bn (l : List Nat)
  | anon
  deriving Repr, DecidableEq, Inhabited

inductive Block where
  | dir (d : Dir)
  | triples (t : Triples)
  /-- `kw` = the word `GRAPH` is written (then a label is required); `g = none` = `{ … }` -/
  | graph (kw : Bool) (g : Option GLabel) (body : List Triples)

abbrev Doc := List Block

/-! ## Denotation -/

/-- Blank nodes of the denoted dataset: fresh ones (numbered) and labelled ones. -/
inductive B where
  | anon (n : Nat)
  | lbl (l : List Nat)
  deriving Repr, DecidableEq, Inhabited

abbrev TermB := Term B
abbrev QuadB := Quad B

def rdfNS : String := "http://www.w3.org/1999/02/22-rdf-syntax-ns#"
def rdfType : List Nat := asc (rdfNS ++ "type")
def rdfFirst : List Nat := asc (rdfNS ++ "first")
def rdfRest : List Nat := asc (rdfNS ++ "rest")
def rdfNil : List Nat := asc (rdfNS ++ "nil")

/-- parser state of Turtle 1.1 §7.1 -/
structure DState where
  base : Option (List Nat)
  ns : List (List Nat × List Nat)   -- latest declaration first
  next : Nat
  deriving Repr, DecidableEq, Inhabited

abbrev Resolver := Option (List Nat) → List Nat → Option (List Nat)

def lookupNs (p : List Nat) : List (List Nat × List Nat) → Option (List Nat)
  | [] => none
  | (q, x) :: rest => if q = p then some x else lookupNs p rest

def iriOf (R : Resolver) (st : DState) : IriS → Option (List Nat)
  | .ref r => (match st.base with
      | none => some r
      | some b => R (some b) r)
  | .pn p l => (lookupNs p st.ns).map (· ++ l)

def litOf (R : Resolver) (st : DState) : Lit → Option TermB
  | .plain lex => some (.lit lex xsdString none)
  | .lang lex tag => some (.lit lex rdfLangString (some tag))
  | .typed lex dt =>
    (match iriOf R st dt with
      | none => none
      | some i => if i = rdfLangString ∨ i = rdfDirLangString then none else some (.lit lex i none))
  | .num lex =>
    (match Ttl.bareLiteralDatatype lex with
      | none => none
      | some dt => if dt = Ttl.xsdBoolean then none else some (.lit lex dt none))
  | .bool b => some (.lit (asc (if b then "true" else "false")) Ttl.xsdBoolean none)

def verbOf (R : Resolver) (st : DState) : Verb → Option TermB
  | .a => some (.iri rdfType)
  | .iri i => (iriOf R st i).map .iri

def DState.fresh (st : DState) : TermB × DState := (.bnode (.anon st.next), { st with next := st.next + 1 })

mutual
/-- object → (its node, the quads inside it, state) -/
def dObj (R : Resolver) (g : Option TermB) (st : DState) : Obj → Option (TermB × List QuadB × DState)
  | .iri x => (iriOf R st x).map (fun i => (.iri i, [], st))
  | .bn l => some (.bnode (.lbl l), [], st)
  | .anon => some (st.fresh.1, [], st.fresh.2)
  | .lit l => (litOf R st l).map (fun t => (t, [], st))
  | .bnpl pos =>
    (match dPOs R st.fresh.1 g st.fresh.2 pos with
      | none => none
      | some (qs, st') => some (st.fresh.1, qs, st'))
  | .coll items =>
    (match items with
      | [] => some (.iri rdfNil, [], st.fresh.2)
      | _ :: _ =>
        match dItems R g st.fresh.2 st.fresh.1 items with
        | none => none
        | some (qs, st') => some (st.fresh.1, qs, st'))
/-- list cells: `b` is the cell of the first item of the (non-empty) list -/
def dItems (R : Resolver) (g : Option TermB) (st : DState) (b : TermB) : List Obj → Option (List QuadB × DState)
  | [] => some ([], st)
  | [o] =>
    (match dObj R g st o with
      | none => none
      | some (t, qs, st1) => some (⟨b, .iri rdfFirst, t, g⟩ :: qs ++ [⟨b, .iri rdfRest, .iri rdfNil, g⟩], st1))
  | o :: o' :: os =>
    (match dObj R g st o with
      | none => none
      | some (t, qs, st1) =>
        match dItems R g st1.fresh.2 st1.fresh.1 (o' :: os) with
        | none => none
        | some (qs', st2) =>
          some (⟨b, .iri rdfFirst, t, g⟩ :: qs ++ ⟨b, .iri rdfRest, st1.fresh.1, g⟩ :: qs', st2))
/-- objectList under curSubject `s`, curPredicate `p` -/
def dObjs (R : Resolver) (s p : TermB) (g : Option TermB) (st : DState) : List Obj → Option (List QuadB × DState)
  | [] => some ([], st)
  | o :: os =>
    (match dObj R g st o with
      | none => none
      | some (t, qs, st1) =>
        match dObjs R s p g st1 os with
        | none => none
        | some (qs', st2) => some (⟨s, p, t, g⟩ :: qs ++ qs', st2))
def dPO (R : Resolver) (s : TermB) (g : Option TermB) (st : DState) : PO → Option (List QuadB × DState)
  | .mk v os =>
    (match verbOf R st v with
      | none => none
      | some p => dObjs R s p g st os)
/-- predicateObjectList under curSubject `s` -/
def dPOs (R : Resolver) (s : TermB) (g : Option TermB) (st : DState) : List PO → Option (List QuadB × DState)
  | [] => some ([], st)
  | po :: pos =>
    (match dPO R s g st po with
      | none => none
      | some (qs, st1) =>
        match dPOs R s g st1 pos with
        | none => none
        | some (qs', st2) => some (qs ++ qs', st2))
end

def dSubj (R : Resolver) (g : Option TermB) (st : DState) : Subj → Option (TermB × List QuadB × DState)
  | .iri x => dObj R g st (.iri x)
  | .bn l => dObj R g st (.bn l)
  | .anon => dObj R g st .anon
  | .bnpl pos => dObj R g st (.bnpl pos)
  | .coll items => dObj R g st (.coll items)

def dTriples (R : Resolver) (g : Option TermB) (st : DState) (t : Triples) : Option (List QuadB × DState) :=
  match dSubj R g st t.s with
  | none => none
  | some (s, qs, st1) =>
    match dPOs R s g st1 t.pos with
    | none => none
    | some (qs', st2) => some (qs ++ qs', st2)

def dBody (R : Resolver) (g : Option TermB) (st : DState) : List Triples → Option (List QuadB × DState)
  | [] => some ([], st)
  | t :: ts =>
    match dTriples R g st t with
    | none => none
    | some (qs, st1) =>
      match dBody R g st1 ts with
      | none => none
      | some (qs', st2) => some (qs ++ qs', st2)

def dDir (R : Resolver) (st : DState) : Dir → Option DState
  | .prefixAt p r | .prefixKw p r => (R st.base r).map (fun i => { st with ns := (p, i) :: st.ns })
  | .baseAt r | .baseKw r => (R st.base r).map (fun b => { st with base := some b })

def dLabel (R : Resolver) (st : DState) : Option GLabel → Option (Option TermB × DState)
  | none => some (none, st)
  | some (.iri x) => (iriOf R st x).map (fun i => (some (.iri i), st))
  | some (.bn l) => some (some (.bnode (.lbl l)), st)
  | some .anon => some (some st.fresh.1, st.fresh.2)

def dBlock (R : Resolver) (st : DState) : Block → Option (List QuadB × DState)
  | .dir d => (dDir R st d).map (fun st' => ([], st'))
  | .triples t => dTriples R none st t
  | .graph _ g body =>
    match dLabel R st g with
    | none => none
    | some (gt, st1) => dBody R gt st1 body

def dDoc (R : Resolver) (st : DState) : Doc → Option (List QuadB × DState)
  | [] => some ([], st)
  | b :: bs =>
    match dBlock R st b with
    | none => none
    | some (qs, st1) =>
      match dDoc R st1 bs with
      | none => none
      | some (qs', st2) => some (qs ++ qs', st2)

/-- The dataset (as a list of quads, default graph = `g = none`) a document denotes, given the
    resolver, the default base and the initial namespaces. -/
def denote (R : Resolver) (base : Option (List Nat)) (ns : List (List Nat × List Nat)) (doc : Doc) :
    Option (List QuadB) :=
  (dDoc R { base := base, ns := ns, next := 0 } doc).map (·.1)

/-! ## Layout -/

/-- One layout item. -/
inductive LItem where
  /-- one white-space character: 1 TAB, 2 LF, 3 CR, anything else SP -/
  | ws (c : Nat)
  /-- `#` text end-of-line.  `eol`: 1 = CR LF, 2 = CR, 3 = nothing when this is the very end of the
      document (LF otherwise), anything else = LF.  LF and CR inside `text` are dropped. -/
  | comment (text : List Nat) (eol : Nat)
  deriving Repr, DecidableEq, Inhabited

def wsRune : Nat → Nat
  | 1 => 0x09
  | 2 => 0x0a
  | 3 => 0x0d
  | _ => 0x20

def commentText (t : List Nat) : List Nat := t.filter (fun c => c != 0x0a && c != 0x0d)

def eolText (atEnd : Bool) : Nat → List Nat
  | 1 => [0x0d, 0x0a]
  | 2 => [0x0d]
  | 3 => if atEnd then [] else [0x0a]
  | _ => [0x0a]

def renderItem (atEnd : Bool) : LItem → List Nat
  | .ws c => [wsRune c]
  | .comment t eol => 0x23 :: (commentText t ++ eolText atEnd eol)

/-- `atEnd` = nothing follows this layout in the document -/
def renderLay (atEnd : Bool) : List LItem → List Nat
  | [] => []
  | [it] => renderItem atEnd it
  | it :: it' :: rest => renderItem false it ++ renderLay atEnd (it' :: rest)

/-- The choices attached to one token. -/
structure Slot where
  lay : List LItem := []       -- layout after the token
  cs : List Choice := []       -- per-rune spelling (IRIREF, string, local name)
  sty : Style := .dq           -- string style
  n : Nat := 0                 -- letter cases of a keyword / number of extra `;` / final `.` in `{ }`
  glue : Bool := false         -- keyword tokens: do not force a white-space character after it
  lay2 : List LItem := []      -- layout between repeated `;`
  deriving Repr, Inhabited

abbrev Choices := List Slot

def Choices.at (ch : Choices) (i : Nat) : Slot := ch.getD i {}

/-- What the token to the left was, as far as gluing the next characters to it matters. -/
inductive Prev where
  | punct                 -- IRIREF, punctuation, a string that is not an empty short one, start of the document
  | name                  -- prefixed name, `true`, `false`, keywords
  | label                 -- blank node label
  | num                   -- INTEGER / DECIMAL / DOUBLE
  | lang                  -- LANGTAG, `@prefix`, `@base`
  | emptyStr (st : Style) -- `""` or `''`
  deriving Repr, DecidableEq, Inhabited

/-- characters that continue a prefixed name -/
def nameCont (T : Ttl.Tables) (c : Nat) : Bool :=
  inRanges T.pnChars c || inRanges T.pnCharsU c || Ttl.isDigit c || c = 0x2e || c = 0x3a || c = 0x25 || c = 0x5c

def numCont (c : Nat) : Bool := Ttl.isDigit c || c = 0x65 || c = 0x45

/-- Would the characters `rest`, written directly after a token of kind `k`, be read as part of it
    (or make its final characters be read differently)?  A `.` directly after a name, label or number
    is the statement terminator only if what follows the `.` cannot continue the token. -/
def clash (T : Ttl.Tables) : Prev → List Nat → Bool
  | _, [] => false
  | .punct, _ => false
  | .name, c :: r =>
    if c = 0x2e then (match r with | [] => false | d :: _ => nameCont T d) else nameCont T c
  | .label, c :: r =>
    if c = 0x2e then (match r with | [] => false | d :: _ => inRanges T.pnChars d || d = 0x2e)
    else inRanges T.pnChars c
  | .num, c :: r =>
    if c = 0x2e then (match r with | [] => false | d :: _ => numCont d) else numCont c
  | .lang, c :: _ => Ttl.isAlpha c || Ttl.isDigit c || c = 0x2d
  | .emptyStr st, c :: _ => c = st.delim

def isWsRune (c : Nat) : Bool := c = 0x20 || c = 0x09 || c = 0x0a || c = 0x0d

/-- layout after a token of kind `k`; `rest` is the text that follows -/
def after (T : Ttl.Tables) (k : Prev) (s : Slot) (rest : List Nat) : List Nat :=
  if (renderLay rest.isEmpty s.lay).isEmpty && clash T k rest then 0x20 :: rest
  else renderLay rest.isEmpty s.lay ++ rest

/-- layout after a keyword (`a`, `PREFIX`, `GRAPH`; `BASE` with `lt`: a directly following `<` is
    accepted by every reader) -/
def afterKw (T : Ttl.Tables) (lt : Bool) (s : Slot) (rest : List Nat) : List Nat :=
  if s.glue then after T .name s rest
  else
    match renderLay rest.isEmpty s.lay with
    | [] => if lt then rest else 0x20 :: rest
    | c :: l => if isWsRune c then c :: l ++ rest else 0x20 :: c :: l ++ rest

/-- keyword in upper case `u`, letter `i` in lower case iff bit `i` of `n` is set -/
def kwCase : Nat → List Nat → List Nat
  | _, [] => []
  | n, c :: cs => (if n % 2 = 1 then c + 0x20 else c) :: kwCase (n / 2) cs

/-! ## Slot numbering: one slot per token, in document order -/

def litSlots : Lit → Nat
  | .typed .. => 2
  | _ => 1

mutual
def objSlots : Obj → Nat
  | .iri _ => 1
  | .bn _ => 1
  | .anon => 2
  | .lit l => litSlots l
  | .bnpl pos => 2 + posSlots pos
  | .coll items => 2 + itemsSlots items
def itemsSlots : List Obj → Nat
  | [] => 0
  | o :: os => objSlots o + itemsSlots os
/-- every object of an object list is followed by a `,` slot (unused after the last one) -/
def objsSlots : List Obj → Nat
  | [] => 0
  | o :: os => objSlots o + 1 + objsSlots os
/-- verb, objects, the `;` slot -/
def poSlots : PO → Nat
  | .mk _ os => 1 + objsSlots os + 1
def posSlots : List PO → Nat
  | [] => 0
  | po :: pos => poSlots po + posSlots pos
end

def subjSlots : Subj → Nat
  | .iri _ => 1
  | .bn _ => 1
  | .anon => 2
  | .bnpl pos => 2 + posSlots pos
  | .coll items => 2 + itemsSlots items

/-- subject, predicate-object list, the `.` slot -/
def triplesSlots (t : Triples) : Nat := subjSlots t.s + posSlots t.pos + 1

def bodySlots : List Triples → Nat
  | [] => 0
  | t :: ts => triplesSlots t + bodySlots ts

def dirSlots : Dir → Nat
  | .prefixAt .. => 4
  | .baseAt _ => 3
  | .prefixKw .. => 3
  | .baseKw _ => 2

def labelSlots : Option GLabel → Nat
  | none => 0
  | some .anon => 2
  | some _ => 1

def blockSlots : Block → Nat
  | .dir d => dirSlots d
  | .triples t => triplesSlots t
  | .graph _ g body => 1 + labelSlots g + 1 + bodySlots body + 1

/-! ## Printer -/

structure PCtx where
  T : Ttl.Tables
  ch : Choices

def iriText (P : PCtx) (s : Slot) : IriS → List Nat
  | .ref r => printIRIREF s.cs r
  | .pn p l => (printPrefixedName P.T s.cs p l).getD []

def iriKind : IriS → Prev
  | .ref _ => .punct
  | .pn .. => .name

def pIri (P : PCtx) (i : Nat) (x : IriS) (rest : List Nat) : List Nat :=
  iriText P (P.ch.at i) x ++ after P.T (iriKind x) (P.ch.at i) rest

def strKind (st : Style) (lex : List Nat) : Prev :=
  if lex.isEmpty && !st.long then .emptyStr st else .punct

def boolText (b : Bool) : List Nat := asc (if b then "true" else "false")

def pLit (P : PCtx) (i : Nat) : Lit → List Nat → List Nat
  | .plain lex, rest =>
    printString (P.ch.at i).sty (P.ch.at i).cs lex ++ after P.T (strKind (P.ch.at i).sty lex) (P.ch.at i) rest
  | .lang lex tag, rest =>
    printString (P.ch.at i).sty (P.ch.at i).cs lex ++ 0x40 :: (tag ++ after P.T .lang (P.ch.at i) rest)
  | .typed lex dt, rest =>
    printString (P.ch.at i).sty (P.ch.at i).cs lex ++ 0x5e :: 0x5e :: pIri P (i + 1) dt rest
  | .num lex, rest => lex ++ after P.T .num (P.ch.at i) rest
  | .bool b, rest => boolText b ++ after P.T .name (P.ch.at i) rest

def pVerb (P : PCtx) (i : Nat) : Verb → List Nat → List Nat
  | .a, rest => 0x61 :: afterKw P.T false (P.ch.at i) rest
  | .iri x, rest => pIri P i x rest

def pBNode (P : PCtx) (i : Nat) (l : List Nat) (rest : List Nat) : List Nat :=
  0x5f :: 0x3a :: (l ++ after P.T .label (P.ch.at i) rest)

/-- a punctuation token `c` -/
def pPunct (P : PCtx) (i : Nat) (c : Nat) (rest : List Nat) : List Nat :=
  c :: after P.T .punct (P.ch.at i) rest

/-- `k` semicolons: layout `lay2` between them, the slot's layout after the last -/
def semis (P : PCtx) (i : Nat) : Nat → List Nat → List Nat
  | 0, rest => rest
  | 1, rest => pPunct P i 0x3b rest
  | k + 2, rest => 0x3b :: (renderLay false (P.ch.at i).lay2 ++ semis P i (k + 1) rest)

mutual
def pObj (P : PCtx) (i : Nat) : Obj → List Nat → List Nat
  | .iri x, rest => pIri P i x rest
  | .bn l, rest => pBNode P i l rest
  | .anon, rest => pPunct P i 0x5b (pPunct P (i + 1) 0x5d rest)
  | .lit l, rest => pLit P i l rest
  | .bnpl pos, rest => pPunct P i 0x5b (pPOs P (i + 1) pos (pPunct P (i + 1 + posSlots pos) 0x5d rest))
  | .coll items, rest => pPunct P i 0x28 (pItems P (i + 1) items (pPunct P (i + 1 + itemsSlots items) 0x29 rest))
def pItems (P : PCtx) (i : Nat) : List Obj → List Nat → List Nat
  | [], rest => rest
  | o :: os, rest => pObj P i o (pItems P (i + objSlots o) os rest)
/-- `o1 , o2 , …` -/
def pObjs (P : PCtx) (i : Nat) : List Obj → List Nat → List Nat
  | [], rest => rest
  | [o], rest => pObj P i o rest
  | o :: o' :: os, rest =>
    pObj P i o (pPunct P (i + objSlots o) 0x2c (pObjs P (i + objSlots o + 1) (o' :: os) rest))
def pPO (P : PCtx) (i : Nat) : PO → List Nat → List Nat
  | .mk v os, rest => pVerb P i v (pObjs P (i + 1) os rest)
/-- `v os ; v os ; …` with `1 + n % 3` semicolons between two pairs and `n % 3` after the last -/
def pPOs (P : PCtx) (i : Nat) : List PO → List Nat → List Nat
  | [], rest => rest
  | [po], rest => pPO P i po (semis P (i + poSlots po - 1) ((P.ch.at (i + poSlots po - 1)).n % 3) rest)
  | po :: po' :: pos, rest =>
    pPO P i po (semis P (i + poSlots po - 1) (1 + (P.ch.at (i + poSlots po - 1)).n % 3)
      (pPOs P (i + poSlots po) (po' :: pos) rest))
end

def pSubj (P : PCtx) (i : Nat) : Subj → List Nat → List Nat
  | .iri x, rest => pObj P i (.iri x) rest
  | .bn l, rest => pObj P i (.bn l) rest
  | .anon, rest => pObj P i .anon rest
  | .bnpl pos, rest => pObj P i (.bnpl pos) rest
  | .coll items, rest => pObj P i (.coll items) rest

/-- `subject pol` (without the `.`) -/
def pTriples (P : PCtx) (i : Nat) (t : Triples) (rest : List Nat) : List Nat :=
  pSubj P i t.s (pPOs P (i + subjSlots t.s) t.pos rest)

/-- `triples .` -/
def pStatement (P : PCtx) (i : Nat) (t : Triples) (rest : List Nat) : List Nat :=
  pTriples P i t (pPunct P (i + triplesSlots t - 1) 0x2e rest)

/-- inside `{ }`: the `.` after the last triples is written iff its slot's `n` is odd -/
def pBody (P : PCtx) (i : Nat) : List Triples → List Nat → List Nat
  | [], rest => rest
  | [t], rest =>
    if (P.ch.at (i + triplesSlots t - 1)).n % 2 = 1 then pStatement P i t rest else pTriples P i t rest
  | t :: t' :: ts, rest => pStatement P i t (pBody P (i + triplesSlots t) (t' :: ts) rest)

def pNs (P : PCtx) (i : Nat) (p : List Nat) (rest : List Nat) : List Nat :=
  p ++ 0x3a :: after P.T .punct (P.ch.at i) rest

def pIriRef (P : PCtx) (i : Nat) (r : List Nat) (rest : List Nat) : List Nat :=
  printIRIREF (P.ch.at i).cs r ++ after P.T .punct (P.ch.at i) rest

def pDir (P : PCtx) (i : Nat) : Dir → List Nat → List Nat
  | .prefixAt p r, rest =>
    asc "@prefix" ++ after P.T .lang (P.ch.at i) (pNs P (i + 1) p (pIriRef P (i + 2) r (pPunct P (i + 3) 0x2e rest)))
  | .baseAt r, rest =>
    asc "@base" ++ after P.T .lang (P.ch.at i) (pIriRef P (i + 1) r (pPunct P (i + 2) 0x2e rest))
  | .prefixKw p r, rest =>
    kwCase (P.ch.at i).n (asc "PREFIX") ++ afterKw P.T false (P.ch.at i) (pNs P (i + 1) p (pIriRef P (i + 2) r rest))
  | .baseKw r, rest =>
    kwCase (P.ch.at i).n (asc "BASE") ++ afterKw P.T true (P.ch.at i) (pIriRef P (i + 1) r rest)

def pLabel (P : PCtx) (i : Nat) : Option GLabel → List Nat → List Nat
  | none, rest => rest
  | some (.iri x), rest => pIri P i x rest
  | some (.bn l), rest => pBNode P i l rest
  | some .anon, rest => pPunct P i 0x5b (pPunct P (i + 1) 0x5d rest)

def pBlock (P : PCtx) (i : Nat) : Block → List Nat → List Nat
  | .dir d, rest => pDir P i d rest
  | .triples t, rest => pStatement P i t rest
  | .graph kw g body, rest =>
    let open_ := pLabel P (i + 1) g (pPunct P (i + 1 + labelSlots g) 0x7b
      (pBody P (i + 2 + labelSlots g) body (pPunct P (i + 2 + labelSlots g + bodySlots body) 0x7d rest)))
    if kw then kwCase (P.ch.at i).n (asc "GRAPH") ++ afterKw P.T false (P.ch.at i) open_ else open_

def pBlocks (P : PCtx) (i : Nat) : Doc → List Nat → List Nat
  | [], rest => rest
  | b :: bs, rest => pBlock P i b (pBlocks P (i + blockSlots b) bs rest)

/-- The document as text (code points). Slot 0 is the layout before the first token. -/
def print (T : Ttl.Tables) (doc : Doc) (ch : Choices) : List Nat :=
  after T .punct (ch.at 0) (pBlocks ⟨T, ch⟩ 1 doc [])

end RdfModel.TA
