/-
  Definitions used by the C10D theorems (core-only: the driver evaluates these predicates too).

  * `ExpOK`: the invariant of the expansion output the decoder relies on without checking — no
    ExpandedScalarPrimitive carries a nil inspectjson.Value, and AsBuiltin/json.Encode does not panic on
    any value (the hook renders both; the harness checks `ExpOK` on every expansion result).
  * `WfRQ`: property C06 for one emitted statement.
  * `expandFlat`: the expanded form of the documents `JL.writeFlat` produces (no context processing is
    needed for them: expansion only wraps scalars and sorts members), tied by T3 to jsonldinternal.Expand
    through the hook.
-/
import RdfModel.Model.JsonLdToRdf
import RdfModel.Spec.JsonLdWriter
namespace RdfModel.C10D
open RdfModel RdfModel.Desc RdfModel.JLD

/-! ### the expansion invariant -/

mutual
def ExpOK : Exp → Bool
  | .nil => true
  | .arr xs => okList xs
  | .obj ms => okMembers ms
  | .prim v jt => v != .nil && jt != .panics
def okList : List Exp → Bool
  | [] => true
  | x :: xs => ExpOK x && okList xs
def okMembers : List (Str × Exp) → Bool
  | [] => true
  | (_, v) :: ms => ExpOK v && okMembers ms
end

/-! ### well-formed statements (C06) -/

def wfSubject : Option T → Bool
  | some (.iri _) => true
  | some (.bnode _) => true
  | _ => false

/-- an object: never nil; a literal has a datatype and a non-empty language tag exactly when the
    datatype is rdf:langString. STRICTER than the property text in one respect: an rdf:dirLangString
    literal (which C06 admits with a directional tag) is counted as ill-formed, because under every
    configuration newDecoder admits the decoder emits none (`jld_emits_wf` needs `cfg.dir ≠ .other`). -/
def wfObject : Option T → Bool
  | some (.iri _) => true
  | some (.bnode _) => true
  | some (.lit _ dt none) => dt != [] && dt != rdfLangString && dt != rdfDirLangString
  | some (.lit _ dt (some tag)) => dt == rdfLangString && tag != []
  | none => false

def wfGraph : Option T → Bool
  | none => true
  | some (.iri _) => true
  | some (.bnode _) => true
  | some (.lit _ _ _) => false

def WfRQ (q : RQ) : Bool := wfSubject q.s && q.p != [] && wfObject q.o && wfGraph q.g

/-- the evaluation contexts decodeElement is entered with: an active property comes with an active
    subject; subject and graph are IRIs or blank nodes; the property is not the empty string -/
def ECtx.ok (c : ECtx) : Bool :=
  (match c.prop with
   | some p => wfSubject c.subj && p != []
   | none => true) &&
  (match c.subj with
   | some s => wfSubject (some s)
   | none => true) &&
  wfGraph c.graph

/-! ### the expanded form of flattened documents -/

/-- a scalar of the flat sub-language as an ExpandedScalarPrimitive -/
def primStr (s : Str) : Exp := .prim (.str s) .absent

/-- value of a flat property: `{"@id": …}`, `{"@value", "@language"}`, `{"@value", "@type"}`; members
    sorted by name -/
def expandFlatValue : JL.Json → Exp
  | .obj [(k1, .str a), (k2, .str b)] =>
    if k1 = JL.kValue ∧ k2 = JL.kLanguage then .obj [(JLD.kLanguage, primStr b), (JLD.kValue, primStr a)]
    else if k1 = JL.kValue ∧ k2 = JL.kType then .obj [(JLD.kType, primStr b), (JLD.kValue, primStr a)]
    else .nil
  | .obj [(k, .str a)] => if k = JL.kId then .obj [(JLD.kId, primStr a)] else .nil
  | _ => .nil

/-- a flat node object `{"@id": s, p: [o]}` -/
def expandFlatNode : JL.Json → Exp
  | .obj [(k, .str s), (p, .arr [o])] =>
    if k = JL.kId then .obj [(JLD.kId, primStr s), (p, .arr [expandFlatValue o])] else .nil
  | _ => .nil

/-- a top-level entry: a flat node object or `{"@id": g, "@graph": [node]}` -/
def expandFlatEntry : JL.Json → Exp
  | .obj [(k, .str g), (k2, .arr [nd])] =>
    if k = JL.kId ∧ k2 = JL.kGraph then .obj [(JLD.kGraph, .arr [expandFlatNode nd]), (JLD.kId, primStr g)]
    else expandFlatNode (.obj [(k, .str g), (k2, .arr [nd])])
  | j => expandFlatNode j

/-- the expansion of a document of the flat sub-language (`JL.writeFlat`) -/
def expandFlat : JL.Json → Exp
  | .arr es => .arr (es.map expandFlatEntry)
  | _ => .nil

/-- the statements appended by a call (also those before an error) -/
def R.quads : R → List RQ
  | .ok qs _ => qs
  | .err _ qs => qs
  | .panic => []

/-- a quad of a dataset as the decoder emits it: blank node `b` is `_:name b` -/
def toRQ {β : Type} (name : β → Str) (q : DQuad β) : RQ :=
  let f : Term β → T := Term.map (fun b => BN.orig (name b))
  ⟨some (f q.t.s), q.t.p, some (f q.t.o), q.g.map f⟩

/-- the object is not an untagged literal of datatype rdf:langString / rdf:dirLangString (such a literal
    is not an RDF literal; `C10.WFDataset` admits it, the decoder drops it — see `flat_drops_untagged`) -/
def plainOK {β : Type} : Term β → Bool
  | .lit _ dt none => dt != rdfLangString && dt != rdfDirLangString
  | _ => true

/-- no quad of the dataset has such an object -/
def NoUntaggedLangString {β : Type} (d : List (DQuad β)) : Prop := ∀ q ∈ d, plainOK q.t.o = true

instance {β : Type} (d : List (DQuad β)) : Decidable (NoUntaggedLangString d) := by
  unfold NoUntaggedLangString; exact inferInstance

/-- an emitted statement as a quad of the fragment semantics (`none` if a term is nil) -/
def RQ.toQ (q : RQ) : Option (DQuad B) :=
  match q.s, q.o with
  | some s, some o => some ⟨⟨s, q.p, o⟩, q.g⟩
  | _, _ => none

end RdfModel.C10D
