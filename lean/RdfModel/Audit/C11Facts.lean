/-
  Audit for C11 (T2 part): axioms used by the theorems of Props/C11Facts.lean.
-/
import RdfModel.Props.C11Facts
open RdfModel

#print axioms RdfModel.C11.factories_not_shared
#print axioms RdfModel.C11.chain_order
