#!/bin/sh
# tools/confirm_seed.sh <seed dir with patch.diff, demo_test.go, meta.json> <id>
# Confirms a seeded defect independently in a scratch worktree of /repo: the change compiles, the whole existing
# suite passes with it, the demonstration fails with it and passes without it. On success stores it as
# /verif/seeded/<id>/ (patch.diff, demo, meta.json + confirmation.txt). Removes the worktree.
set -u
SRC=$(readlink -f "$1"); ID=$2
WT=/tmp/confirm-$ID-$$
export GOFLAGS=-mod=mod GOPROXY=off
LOC=$(python3 -c "import json,sys;print(json.load(open('$SRC/meta.json'))['demo_location'].split()[0].rstrip('/'))")
git -C /repo worktree add -q "$WT" HEAD || exit 2
OUT=/tmp/confirm-$ID-$$.log; : > "$OUT"
fail() { echo "NOT CONFIRMED $ID: $1"; tail -15 "$OUT"; git -C /repo worktree remove --force "$WT"; exit 1; }
cd "$WT"
git apply "$SRC/patch.diff" || fail "patch does not apply"
(go build ./... && cd cmd/rdfkit && go build ./...) >> "$OUT" 2>&1 || fail "does not build"
(go test -vet=off -count=1 ./... && cd cmd/rdfkit && go test -vet=off -count=1 ./...) >> "$OUT" 2>&1 || fail "existing suite fails with the change"
[ -d "$LOC" ] || fail "demo_location $LOC is not a directory"
cp "$SRC"/demo_test.go "$LOC"/zz_seed_demo_test.go
runloc() { case "$LOC" in cmd/rdfkit/*) (cd cmd/rdfkit && go test -vet=off -count=1 ./"${LOC#cmd/rdfkit/}"/ 2>&1);; *) go test -vet=off -count=1 ./"$LOC"/ 2>&1;; esac; }
WITH=$(runloc | tail -12)
echo "$WITH" | grep -q "^FAIL\|FAIL	" || fail "demo does not fail with the change: $WITH"
git apply -R "$SRC/patch.diff" || fail "cannot revert"
WITHOUT=$(runloc | tail -5)
echo "$WITHOUT" | grep -q "^ok" || fail "demo does not pass without the change: $WITHOUT"
mkdir -p /verif/seeded/"$ID"
cp "$SRC"/patch.diff "$SRC"/demo_test.go "$SRC"/meta.json /verif/seeded/"$ID"/
{ echo "confirmed by the coordinator in a scratch worktree of /repo at $(git -C /repo rev-parse --short HEAD):";
  echo "- go build ./... (root, cmd/rdfkit): ok with the change";
  echo "- go test -vet=off -count=1 ./... (root, cmd/rdfkit): all pass with the change";
  echo "- demo in $LOC: FAILS with the change, passes without"; echo "--- with:"; echo "$WITH"; echo "--- without:"; echo "$WITHOUT"; } > /verif/seeded/"$ID"/confirmation.txt
cd /; git -C /repo worktree remove --force "$WT"; rm -f "$OUT"
echo "CONFIRMED $ID"
