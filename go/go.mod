module verifharness

go 1.25.5

require (
	github.com/dpb587/cursorio-go v0.0.0-20250717044249-e1d8c928b30d
	github.com/dpb587/inspectjson-go v0.0.0-20251205150753-4113f6beb345
	github.com/dpb587/kvstrings-go v0.0.0-20260105164922-00f00f4a51f0
	github.com/dpb587/rdfkit-go v0.0.0
	golang.org/x/net v0.49.0
)

require (
	github.com/apparentlymart/go-textseg/v16 v16.0.0 // indirect
	github.com/cespare/permute/v2 v2.0.0-beta2 // indirect
	github.com/dpb587/inspecthtml-go v0.0.0-20260203152537-760a8a60e2f6 // indirect
	github.com/dpb587/inspectxml-go v0.0.0-20250415222439-71ac97da5967 // indirect
	github.com/google/uuid v1.6.0 // indirect
	github.com/tomnomnom/linkheader v0.0.0-20250811210735-e5fe3b51442e // indirect
)

replace github.com/dpb587/rdfkit-go => /repo
