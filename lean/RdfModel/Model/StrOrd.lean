/-
  RdfModel.Model.StrOrd — strings as code-point lists: code-point order, sorting, decimal numerals,
  association lists with append-on-key.  Core-only, executable, total.  Shared by Spec.RDFC10 and
  Model.Rdfcanon (only these elementary notions are shared; neither imports the other).
-/
import RdfModel.Model.Rune
namespace RdfModel

/-- A string: list of code points. Go compares the UTF-8 bytes (`strings.Compare`,
    `bytes.Compare`); byte-wise order of well-formed UTF-8 is code-point order. -/
abbrev Str := List Nat

/-- Code-point (lexicographic) order, `a ≤ b`. -/
def strLe : Str → Str → Bool
  | [], _ => true
  | _ :: _, [] => false
  | a :: as, b :: bs => if a < b then true else if b < a then false else strLe as bs

/-- Strict order `a < b` (`strings.Compare(a, b) < 0`). -/
def strLt (a b : Str) : Bool := !strLe b a

/-- Sort strings in code-point order (stable merge sort from core). -/
def sortStr (l : List Str) : List Str := l.mergeSort strLe

/-- Sort key/value entries by key. -/
def sortByKey {ν : Type} (l : List (Str × ν)) : List (Str × ν) :=
  l.mergeSort (fun a b => strLe a.1 b.1)

/-- ASCII decimal digits of `n` (Go `strconv.Itoa`, `fmt.Sprintf("%d")` for `n ≥ 0`), most
    significant first. `fuel` bounds the number of digits; `decimal` supplies enough. -/
def decimalAux : Nat → Nat → Str → Str
  | 0, _, acc => acc
  | fuel + 1, n, acc =>
    if n < 10 then (0x30 + n) :: acc else decimalAux fuel (n / 10) ((0x30 + n % 10) :: acc)

def decimal (n : Nat) : Str := decimalAux (n + 1) n []

/-- Append `v` to the list stored under `k`, creating the entry (at the end) if necessary:
    Go `m[k] = append(m[k], v)`; the Recommendation's "add … to the map entry, creating a new
    entry if necessary". Entry order = order of first insertion. -/
def addToMap {κ ν : Type} [DecidableEq κ] : List (κ × List ν) → κ → ν → List (κ × List ν)
  | [], k, v => [(k, [v])]
  | (k', vs) :: rest, k, v =>
    if k' = k then (k', vs ++ [v]) :: rest else (k', vs) :: addToMap rest k v

/-- Value stored under `k`, `[]` when absent (Go: `m[k]` of a map of slices). -/
def getList {κ ν : Type} [DecidableEq κ] (m : List (κ × List ν)) (k : κ) : List ν :=
  match m with
  | [] => []
  | (k', vs) :: rest => if k' = k then vs else getList rest k

/-- Lookup in an association list (first match). -/
def assoc {κ ν : Type} [DecidableEq κ] : List (κ × ν) → κ → Option ν
  | [], _ => none
  | (k', v) :: rest, k => if k' = k then some v else assoc rest k

end RdfModel
