/-
  Proofs.C11RaWalk — the invariant `Inv` (no crash, no nil term, every literal well-formed) along the whole modelled
  walkNode recursion.  Core-only.
-/
import RdfModel.Proofs.C11RaSteps
namespace RdfModel.Rdfad
open RdfModel RdfModel.Desc
open RdfModel.Mdd (Node Attr Bytes Subj fields trimSpace typeTokens textContent)

/-- the fields of the evaluation context that profile detection and <base> leave alone -/
def SameCtx (c c' : Ctx) : Prop :=
  c'.parentSubject = c.parentSubject ∧ c'.parentObject = c.parentObject ∧ c'.incomplete = c.incomplete ∧
  c'.language = c.language

theorem htmlInit_spec (cfg : Cfg) (n : Node) (ctx : Ctx) (st : St) :
    core (htmlInit cfg n ctx st).2 = core st ∧ SameCtx ctx (htmlInit cfg n ctx st).1 := by
  unfold htmlInit
  simp only
  have h1 : core (if (st.profile == pUnspecified) = true then { st with profile := versionProfile n.attrs } else st) = core st := by
    split
    · exact core_profile st _
    · rfl
  generalize (if (st.profile == pUnspecified) = true then { st with profile := versionProfile n.attrs } else st) = st1 at h1 ⊢
  split
  · refine ⟨?_, rfl, rfl, rfl, rfl⟩
    simp only
    split
    · rw [core_terms, core_terms]; exact h1
    · rw [core_terms]; exact h1
  · exact ⟨h1, rfl, rfl, rfl, rfl⟩

theorem baseElem_spec (E : Env) (n : Node) (ctx : Ctx) (st : St) :
    core (baseElem E n ctx st).2 = core st ∧ SameCtx ctx (baseElem E n ctx st).1 := by
  unfold baseElem
  repeat' split
  all_goals exact ⟨rfl, rfl, rfl, rfl, rfl⟩

theorem pre_spec (E : Env) (cfg : Cfg) (n : Node) (ctx : Ctx) (st : St) :
    core (pre E cfg n ctx st).2 = core st ∧ SameCtx ctx (pre E cfg n ctx st).1 := by
  unfold pre
  simp only
  have h1 : core (if (n.typ = 5 && st.profile == pUnspecified) = true then (ctx, { st with profile := detectProfile n.data })
      else if n.atom = asc "html" then htmlInit cfg n ctx st else (ctx, st)).2 = core st ∧
      SameCtx ctx (if (n.typ = 5 && st.profile == pUnspecified) = true then (ctx, { st with profile := detectProfile n.data })
      else if n.atom = asc "html" then htmlInit cfg n ctx st else (ctx, st)).1 := by
    split
    · exact ⟨rfl, rfl, rfl, rfl, rfl⟩
    · split
      · exact htmlInit_spec cfg n ctx st
      · exact ⟨rfl, rfl, rfl, rfl, rfl⟩
  generalize (if (n.typ = 5 && st.profile == pUnspecified) = true then (ctx, { st with profile := detectProfile n.data })
      else if n.atom = asc "html" then htmlInit cfg n ctx st else (ctx, st)) = c at h1 ⊢
  split
  · have h2 := baseElem_spec E n c.1 c.2
    obtain ⟨a1, a2, a3, a4, a5⟩ := h1
    obtain ⟨b1, b2, b3, b4, b5⟩ := h2
    exact ⟨b1.trans a1, b2.trans a2, b3.trans a3, b4.trans a4, b5.trans a5⟩
  · exact h1

theorem NodeOK.same {ctx c : Ctx} {isRoot : Bool} {n : Node} (h : NodeOK ctx isRoot n) (s : SameCtx ctx c) :
    NodeOK c isRoot n := by
  obtain ⟨s1, s2, s3, s4⟩ := s
  rcases h with h | h
  · left; unfold KidOK at *; rw [s1, s2, s4]; exact h
  · right; unfold TopOK at *; rw [s3, s4]; exact h

theorem rule7_spec (E : Env) (a : A) (l : L) (st : St) :
    core (rule7 E a l st).2 = core st ∧ (rule7 E a l st).1.skip = l.skip ∧ (rule7 E a l st).1.lang = l.lang := by
  unfold rule7
  split
  · simp
  · exact ⟨rfl, rfl, rfl⟩

theorem step56_spec (E : Env) (active isRoot : Bool) (n : Node) (ctx : Ctx) (a : A) (l : L) (st : St)
    (h : NodeOK ctx isRoot n) (hl : l.skip = false) :
    core (step56 E active isRoot n ctx a l st).2 = core st ∧ Post isRoot a l (step56 E active isRoot n ctx a l st).1 := by
  unfold step56
  split
  · exact step5_spec E active isRoot n ctx a l st h hl
  · exact step6_spec E isRoot n ctx a l st h hl

theorem enter_spec (E : Env) (hE : EnvOK E) (cfg : Cfg) (isRoot : Bool) (n : Node) (ctx : Ctx) (st : St) (i : Inv st)
    (h : NodeOK ctx isRoot n) :
    Inv (enter E cfg isRoot n ctx st).2.2 ∧
      KidOK (childCtx (enter E cfg isRoot n ctx st).1 (enter E cfg isRoot n ctx st).2.1) ∧
      (enter E cfg isRoot n ctx st).2.1.newSubject.isSome := by
  unfold enter
  simp only
  have hp := pre_spec E cfg n ctx st
  generalize pre E cfg n ctx st = c at hp ⊢
  have hn : NodeOK c.1 isRoot n := h.same hp.2
  have hlang : c.1.language ≠ some [] := by
    rcases hn with hn | hn
    · exact hn.2.2
    · exact hn.2.2.2
  generalize scanAttrs E (isXHTML c.2.profile) n.attrs { localBase := c.1.base } = a
  have i0 : Inv { c.2 with asks := a.asks ++ c.2.asks } := Inv.of_core (by rw [core_asks]; exact hp.1) i
  generalize isActive c.2.profile = active
  generalize ({ c.2 with asks := a.asks ++ c.2.asks } : St) = st0 at i0 ⊢
  have h2 := stepVocab_spec E c.1 a (locals0 c.1 a) st0 i0
  generalize stepVocab E c.1 a (locals0 c.1 a) st0 = r2 at h2 ⊢
  have hs3 : (step34 E active a r2.1).skip = false := by simp [step34, h2.2.1, locals0]
  have hl3 : (step34 E active a r2.1).lang ≠ some [] := by
    simp only [step34]
    apply stepLang_ne
    rw [h2.2.2]; exact hlang
  have h7 := rule7_spec E a (step34 E active a r2.1) r2.2
  generalize rule7 E a (step34 E active a r2.1) r2.2 = r7 at h7 ⊢
  have h6 := step56_spec E active isRoot n c.1 a r7.1 r7.2 hn (by rw [h7.2.1]; exact hs3)
  generalize step56 E active isRoot n c.1 a r7.1 r7.2 = r6 at h6 ⊢
  obtain ⟨hc6, p6⟩ := h6
  have i6 : Inv r6.2 := Inv.of_core (by rw [hc6, h7.1]) h2.1
  have i7 := stepTypeof_inv E a r6.1 r6.2 i6
  have h8 := step8_spec c.1 r6.1 (stepTypeof E a r6.1 r6.2)
  generalize step8 c.1 r6.1 (stepTypeof E a r6.1 r6.2) = r8 at h8 ⊢
  have i8 : Inv r8.2 := Inv.of_core h8.1 i7
  have hns8 : r8.1.newSubject.isSome := by rw [h8.2.1.1]; exact p6.ns
  have h9 := step910_spec E n a r8.1 r8.2 i8 hns8
  generalize step910 E n a r8.1 r8.2 = r9 at h9 ⊢
  have hns9 : r9.1.newSubject.isSome := by rw [h9.2.1]; exact hns8
  have hlang9 : r9.1.lang ≠ some [] := by
    rw [h9.2.2.2.1, h8.2.1.2.2.1, p6.lang, h7.2.2]; exact hl3
  have ht9 : a.typeof.isSome → a.about.isNone → r9.1.typed.isSome := by
    intro x y; rw [h9.2.2.1, h8.2.1.2.1]; exact p6.typed x y
  have i11 := step11_spec E hE active n a r9.1 r9.2 h9.1 hns9 ht9 hlang9
  have hinc : c.1.incomplete = [] ∨ c.1.parentSubject.isSome := by
    rcases hn with hn | hn
    · exact Or.inr hn.1
    · exact Or.inl hn.2.2.1
  refine ⟨step12_spec c.1 r9.1 _ i11 hinc, childCtx_ok c.1 r9.1 hns9 hlang9 ?_, hns9⟩
  intro hsk
  have hsk6 : r6.1.skip = true := by rw [← h8.2.1.2.2.2.1, ← h9.2.2.2.2.1]; exact hsk
  have hr := p6.skip hsk6
  rcases hn with hn | hn
  · exact hn
  · rw [hn.1] at hr; cases hr

theorem leave_spec (isRoot : Bool) (ctx : Ctx) (l : L) (st : St) (i : Inv st) (hns : l.newSubject.isSome) :
    Inv (leave isRoot ctx l st) := by
  unfold leave
  simp only
  have i1 : Inv (if flushCount (st.getMap ctx.listMapping) (st.getMap l.listMapping) ≥ 2 then { st with unordered := true } else st) := by
    split
    · exact Inv.of_core (core_unordered st true) i
    · exact i
  generalize (if flushCount (st.getMap ctx.listMapping) (st.getMap l.listMapping) ≥ 2 then { st with unordered := true } else st) = st1 at i1 ⊢
  have i2 := flushLists_inv (st.getMap ctx.listMapping) l.newSubject hns (st.getMap l.listMapping) st1 i1
  split
  · exact copyStep_inv _ i2
  · exact i2

mutual
theorem walk_inv (E : Env) (hE : EnvOK E) (cfg : Cfg) : ∀ (n : Node) (isRoot : Bool) (ctx : Ctx) (st : St),
    Inv st → NodeOK ctx isRoot n → Inv (walk E cfg isRoot ctx st n)
  | .mk i t ns atm d as ks, isRoot, ctx, st, hi, hn => by
    unfold walk
    split
    · exact hi
    · have he := enter_spec E hE cfg isRoot (Node.mk i t ns atm d as ks) ctx st hi hn
      simp only
      split
      · exact he.1
      · have hk := walkKids_inv E hE cfg ks (t == 2) _ _ he.1 he.2.1
        split
        · exact hk
        · exact leave_spec isRoot _ _ _ hk he.2.2
theorem walkKids_inv (E : Env) (hE : EnvOK E) (cfg : Cfg) : ∀ (ks : List Node) (parentDoc : Bool) (ctx : Ctx) (st : St),
    Inv st → KidOK ctx → Inv (walkKids E cfg parentDoc ctx st ks)
  | [], _, _, st, hi, _ => by unfold walkKids; exact hi
  | k :: ks, parentDoc, ctx, st, hi, hk => by
    unfold walkKids
    exact walkKids_inv E hE cfg ks parentDoc ctx _ (walk_inv E hE cfg k _ ctx st hi (Or.inl hk)) hk
end

theorem relabel_atom (doc : Node) : (Mdd.relabel doc).atom = doc.atom := by
  cases doc with
  | mk i t ns atm d as ks => simp [Mdd.relabel, Mdd.relabelFrom, Node.atom]

theorem initSt_inv (cfg : Cfg) : Inv (initSt cfg) := by
  refine ⟨⟨by simp [initSt], by simp [initSt]⟩, ?_, ?_⟩
  · intro t ht; simp [initSt] at ht
  · intro l hl; simp [initSt] at hl

/-- the start node is what x/net/html returns: a DocumentNode, whose DataAtom is 0 (not `head` / `body`) -/
def RootOK (doc : Node) : Prop := isHeadBody doc = false

theorem run_inv (E : Env) (hE : EnvOK E) (cfg : Cfg) (doc : Node) (h : RootOK doc) :
    ∀ st, run E cfg doc = some st → Inv st := by
  intro st hs
  unfold run at hs
  simp only at hs
  split at hs
  · cases hs
  · rename_i b _
    simp only [Option.some.injEq] at hs
    rw [← hs]
    apply walk_inv E hE cfg
    · exact initSt_inv cfg
    · right
      refine ⟨rfl, ?_, rfl, by simp [initCtx]⟩
      unfold RootOK isHeadBody at h
      unfold isHeadBody
      rw [relabel_atom]; exact h

end RdfModel.Rdfad
