package main

// Generators of the malformed / adversarial stream: token-level mutation from a per-format hot
// alphabet, grammar-directed deep nesting, huge tokens.

import (
	"bytes"
	"fmt"
	"strings"

	"verifharness/vh"
)

// hot alphabets: delimiters, keywords and attribute fragments each format's parser branches on
var hotJSONLD = []string{
	"{", "}", "[", "]", ":", ",", "\"", "\\", "null", "true", "false", "0", "-1", "1.5e300", "1e", "\"\"", " ", "\n", "\x00", "\xc3", "\xf0\x9f",
	"\"@context\"", "\"@id\"", "\"@type\"", "\"@value\"", "\"@language\"", "\"@direction\"", "\"@list\"", "\"@set\"", "\"@graph\"", "\"@reverse\"",
	"\"@index\"", "\"@nest\"", "\"@included\"", "\"@container\"", "\"@vocab\"", "\"@base\"", "\"@json\"", "\"@none\"", "\"@prefix\"", "\"@protected\"",
	"\"@propagate\"", "\"@import\"", "\"@version\"", "1.1", "\"@\"", "\"@foo\"", "\"_:b\"", "\"a:b\"", "\"http://e/\"", "\"ltr\"", "\"en\"", "\"@id\":null", "\"@type\":\"@id\"",
	"\"@type\":\"@json\"", "\"@type\":\"@vocab\"", "\"@container\":\"@list\"", "\"@container\":[\"@graph\",\"@id\"]", "\"@container\":\"@language\"", "\"@container\":\"@type\"",
	"\"@context\":null", "\"@context\":[]", "\"@context\":{}", "{\"@value\":null}", "{\"@list\":[]}", "{\"@id\":\"_:x\"}", "\\u0000", "\\ud800", "//", "/*", "'",
}
var hotJSON = []string{
	"{", "}", "[", "]", ":", ",", "\"", "\\", "null", "true", "false", "0", "1e9", "\"\"", " ", "\n", "\x00", "\xc3", "\"type\"", "\"value\"", "\"lang\"", "\"datatype\"",
	"\"uri\"", "\"literal\"", "\"bnode\"", "\"_:b\"", "\"http://e/\"", "\"rel\"", "\\u0000", "\\ud800", "//", "'",
}
var hotXML = []string{
	"<", ">", "/", "</", "/>", "=", "\"", "'", "&", ";", "&amp;", "&#0;", "&#x110000;", "&x;", "<!--", "-->", "<![CDATA[", "]]>", "<?xml version=\"1.0\"?>", "<?", "?>", "<!DOCTYPE x [<!ENTITY e \"v\">]>",
	" ", "\n", "\x00", "\xc3", "\xf0\x9f", ":", "xmlns", "xmlns:rdf=\"http://www.w3.org/1999/02/22-rdf-syntax-ns#\"", "xml:base=\"\"", "xml:base=\"http://b/\"", "xml:lang=\"en\"", "xml:lang=\"\"",
	"rdf:RDF", "rdf:Description", "rdf:about=\"\"", "rdf:about=\"a\"", "rdf:ID=\"i\"", "rdf:ID=\"1\"", "rdf:nodeID=\"n\"", "rdf:nodeID=\"\"", "rdf:resource=\"r\"", "rdf:datatype=\"d\"",
	"rdf:parseType=\"Resource\"", "rdf:parseType=\"Literal\"", "rdf:parseType=\"Collection\"", "rdf:parseType=\"x\"", "rdf:li", "rdf:_1", "rdf:type", "rdf:bagID=\"b\"", "rdf:aboutEach=\"a\"",
	"<rdf:Description>", "</rdf:Description>", "<rdf:li>", "</rdf:RDF>", "<a:b>", "<b/>", "rdf:about", "rdf:value=\"v\"", "a:b=\"c\"",
}
var hotHTML = []string{
	"<", ">", "/", "</", "/>", "=", "\"", "'", "&", ";", "&amp;", "&#0;", "<!--", "-->", "<!DOCTYPE html>", " ", "\n", "\x00", "\xc3", "\xf0\x9f",
	"<html>", "<html lang=\"en\">", "<head>", "</head>", "<body>", "</body>", "</html>", "<base href=\"http://b/\">", "<base href=\":\">", "<div>", "</div>", "<span>", "<p>", "<a href=\"x\">", "<table>", "<tr>", "<td>",
	"<template>", "</template>", "<svg>", "</svg>", "<math>", "<frameset>", "<select>", "<title>", "<link rel=\"x\" href=\"y\">", "<meta property=\"p\" content=\"c\">", "<time datetime=\"2001\">", "<img src=\"s\">",
	" vocab=\"http://v/\"", " vocab=\"\"", " prefix=\"p: http://p/\"", " prefix=\"p:\"", " typeof=\"T\"", " typeof=\"\"", " property=\"p:x\"", " property=\"\"", " rel=\"next\"", " rev=\"r\"", " resource=\"#r\"", " resource=\"[_:b]\"", " resource=\"[]\"",
	" about=\"\"", " about=\"_:\"", " about=\"[p:x]\"", " href=\"h\"", " src=\"s\"", " content=\"c\"", " datatype=\"\"", " datatype=\"rdf:XMLLiteral\"", " datatype=\"rdf:HTML\"", " datatype=\"xsd:date\"", " inlist", " inlist=\"\"", " lang=\"en\"", " xml:lang=\"fr\"", " xmlns:p=\"http://x/\"",
	" typeof=\"rdfa:Pattern\"", " property=\"rdfa:copy\"", " href=\"#id\"", " id=\"id\"", " role=\"r\"",
	" itemscope", " itemscope=\"\"", " itemtype=\"http://schema.org/T\"", " itemtype=\"\"", " itemtype=\"rel\"", " itemprop=\"a\"", " itemprop=\"a b\"", " itemprop=\"\"", " itemprop=\"http://x/p\"", " itemid=\"i\"", " itemid=\":\"", " itemref=\"id\"", " itemref=\"id id2\"", " itemref=\"\"",
	"<script type=\"application/ld+json\">", "</script>", "<script>", "{\"@id\":\"x\"}", "{\"@context\":", "<meta itemprop=\"m\" content=\"c\">", "<data itemprop=\"d\" value=\"v\">", "<meter itemprop=\"m\" value=\"1\">", "<object itemprop=\"o\" data=\"d\">",
}
var hotTurtle = []string{
	"<", ">", "\"", "'", "\"\"\"", "'''", "\\", " ", "\t", "\r", "\n", ".", ",", ";", ":", "@", "^^", "#", "-", "_:", "_", "[", "]", "(", ")", "{", "}", "a", "true", "false", "0", "1.", ".5", "1e", "1E+", "+", "%", "%4", "\\u", "\\U0010FFFF", "\\.", "\x00", "\xc3", "\xf0\x9f",
	"@prefix", "@base", "PREFIX", "BASE", "GRAPH", "@prefix p: <http://p/> .", "p:", "p:x", ":x", "p:\\.", "<http://e/>", "<rel>", "_:b", "\"x\"@en", "\"x\"^^<t>", "[]", "()", "[ p:x 1 ]", "( 1 2 )", "{ }", "@en-", "<<", ">>", "|",
}
var hotNQ = []string{"<", ">", "\"", "\\", " ", "\t", "\r", "\n", ".", "_", ":", "_:", "@", "^", "^^", "#", "-", "u", "U", "\\u0041", "\\U0010FFFF", "\\uD800", "{", "}", "|", "`", "\x00", "\x7f", "\xc3", "\xf0\x9f", "<http://e/>", "<rel>", "_:b", "\"x\"@en", "\"x\"^^<a:t>", "@en-"}

func hotFor(format string) []string {
	return append(hotOf(format), "\xef\xbb\xbf", "\u00a0", "\u2028")
}

func hotOf(format string) []string {
	switch format {
	case "jsonld":
		return hotJSONLD
	case "rdfjson":
		return hotJSON
	case "rdfxml":
		return hotXML
	case "ttl", "trig":
		return hotTurtle
	case "nt", "nq":
		return hotNQ
	case "htmljsonld":
		return append(append([]string{}, hotHTML...), hotJSONLD...)
	}
	return hotHTML
}

// mutate applies 1..3 edits: insert / replace / delete / duplicate / swap spans / truncate, tokens from hot.
func mutate(r *vh.Rng, b []byte, hot []string) []byte {
	out := append([]byte(nil), b...)
	for i, n := 0, 1+r.Intn(3); i < n; i++ {
		if len(out) == 0 {
			out = append(out, vh.Pick(r, hot)...)
			continue
		}
		p := r.Intn(len(out) + 1)
		switch r.Intn(9) {
		case 0: // truncate
			out = out[:p]
		case 1: // delete a short span
			q := p + r.Intn(8)
			if q > len(out) {
				q = len(out)
			}
			out = append(out[:p:p], out[q:]...)
		case 2, 3: // insert hot token
			out = append(out[:p:p], append([]byte(vh.Pick(r, hot)), out[p:]...)...)
		case 4: // replace a span by a hot token
			q := p + 1 + r.Intn(6)
			if q > len(out) {
				q = len(out)
			}
			out = append(out[:p:p], append([]byte(vh.Pick(r, hot)), out[q:]...)...)
		case 5: // duplicate a span
			q := p + r.Intn(len(out)-p+1)
			if q-p > 256 {
				q = p + 256
			}
			out = append(out[:q:q], append(append([]byte(nil), out[p:q]...), out[q:]...)...)
		case 6: // random byte
			if p < len(out) {
				out[p] = byte(r.Intn(256))
			}
		case 7: // move a span elsewhere
			q := p + r.Intn(32)
			if q > len(out) {
				q = len(out)
			}
			span := append([]byte(nil), out[p:q]...)
			out = append(out[:p:p], out[q:]...)
			at := r.Intn(len(out) + 1)
			out = append(out[:at:at], append(span, out[at:]...)...)
		default: // delete up to the next delimiter
			q := p
			for q < len(out) && !strings.ContainsRune("<>{}[]\",;. \n", rune(out[q])) {
				q++
			}
			out = append(out[:p:p], out[q:]...)
		}
	}
	return out
}

// ---------------------------------------------------------------- nesting

type nestGen struct {
	Name string
	F    func(depth int) []byte
}

func rep(s string, n int) string { return strings.Repeat(s, n) }

var nestGens = map[string][]nestGen{
	"jsonld": {
		{"object-chain", func(n int) []byte {
			return []byte(`{"@context":{"p":"http://e/p"},"@id":"http://e/s","p":` + rep(`{"p":`, n) + `"x"` + rep(`}`, n) + `}`)
		}},
		{"array-chain", func(n int) []byte { return []byte(`{"http://e/p":` + rep(`[`, n) + `1` + rep(`]`, n) + `}`) }},
		{"list-chain", func(n int) []byte {
			return []byte(`{"@id":"http://e/s","http://e/p":` + rep(`{"@list":[`, n) + `1` + rep(`]}`, n) + `}`)
		}},
		{"graph-chain", func(n int) []byte {
			return []byte(rep(`{"@id":"http://e/g","@graph":[`, n) + `{"@id":"http://e/s","http://e/p":1}` + rep(`]}`, n))
		}},
		{"context-chain", func(n int) []byte {
			return []byte(`{"@context":` + rep(`[`, n) + `{"p":"http://e/p"}` + rep(`]`, n) + `,"p":1}`)
		}},
		{"scoped-context-chain", func(n int) []byte {
			return []byte(`{"@context":` + rep(`{"p":{"@id":"http://e/p","@context":`, n) + `{}` + rep(`}}`, n) + `,"p":` + rep(`{"p":`, n%50) + `1` + rep(`}`, n%50) + `}`)
		}},
		{"nest-chain", func(n int) []byte {
			return []byte(`{"@context":{"@version":1.1,"n":"@nest","p":"http://e/p"},"n":` + rep(`{"n":`, n) + `{"p":1}` + rep(`}`, n) + `}`)
		}},
		{"included-chain", func(n int) []byte {
			return []byte(rep(`{"@included":[`, n) + `{"@id":"http://e/s","http://e/p":1}` + rep(`]}`, n))
		}},
		{"reverse-chain", func(n int) []byte {
			return []byte(rep(`{"@id":"http://e/s","@reverse":{"http://e/p":`, n) + `{"@id":"http://e/o"}` + rep(`}}`, n))
		}},
		{"unclosed-objects", func(n int) []byte { return []byte(rep(`{"a":`, n)) }},
		{"unclosed-arrays", func(n int) []byte { return []byte(rep(`[`, n)) }},
		{"wide-object", func(n int) []byte {
			var sb strings.Builder
			sb.WriteString(`{"@context":{"@vocab":"http://e/"}`)
			for i := 0; i < n; i++ {
				fmt.Fprintf(&sb, `,"k%d":%d`, i, i)
			}
			sb.WriteString(`}`)
			return []byte(sb.String())
		}},
		{"wide-context", func(n int) []byte {
			var sb strings.Builder
			sb.WriteString(`{"@context":{"t0":"http://e/t0"`)
			for i := 1; i < n; i++ {
				fmt.Fprintf(&sb, `,"t%d":"t%d:x"`, i, i-1)
			}
			fmt.Fprintf(&sb, `},"t%d":1}`, n-1)
			return []byte(sb.String())
		}},
	},
	"rdfjson": {
		{"array-chain", func(n int) []byte {
			return []byte(`{"http://e/s":{"http://e/p":[{"type":"literal","value":"v","x":` + rep(`[`, n) + rep(`]`, n) + `}]}}`)
		}},
		{"object-chain", func(n int) []byte {
			return []byte(`{"http://e/s":` + rep(`{"http://e/p":`, n) + `1` + rep(`}`, n) + `}`)
		}},
		{"unclosed", func(n int) []byte { return []byte(rep(`{"a":[`, n)) }},
		{"wide", func(n int) []byte {
			var sb strings.Builder
			sb.WriteString(`{"http://e/s":{"http://e/p":[`)
			for i := 0; i < n; i++ {
				if i > 0 {
					sb.WriteString(",")
				}
				fmt.Fprintf(&sb, `{"type":"literal","value":"%d"}`, i)
			}
			sb.WriteString(`]}}`)
			return []byte(sb.String())
		}},
	},
	"rdfxml": {
		{"node-property-chain", func(n int) []byte {
			return []byte(xmlHead + rep(`<rdf:Description><e:p>`, n) + `<rdf:Description rdf:about="http://e/o"/>` + rep(`</e:p></rdf:Description>`, n) + `</rdf:RDF>`)
		}},
		{"parsetype-resource-chain", func(n int) []byte {
			return []byte(xmlHead + `<rdf:Description rdf:about="http://e/s">` + rep(`<e:p rdf:parseType="Resource">`, n) + `<e:q>v</e:q>` + rep(`</e:p>`, n) + `</rdf:Description></rdf:RDF>`)
		}},
		{"parsetype-literal-deep", func(n int) []byte {
			return []byte(xmlHead + `<rdf:Description rdf:about="http://e/s"><e:p rdf:parseType="Literal">` + rep(`<x a="1">`, n) + `t` + rep(`</x>`, n) + `</e:p></rdf:Description></rdf:RDF>`)
		}},
		{"collection-chain", func(n int) []byte {
			return []byte(xmlHead + `<rdf:Description rdf:about="http://e/s">` + rep(`<e:p rdf:parseType="Collection"><rdf:Description>`, n) + rep(`</rdf:Description></e:p>`, n) + `</rdf:Description></rdf:RDF>`)
		}},
		{"unclosed", func(n int) []byte { return []byte(xmlHead + rep(`<rdf:Description><e:p>`, n)) }},
		{"wide-collection", func(n int) []byte {
			return []byte(xmlHead + `<rdf:Description rdf:about="http://e/s"><e:p rdf:parseType="Collection">` + rep(`<rdf:Description rdf:about="http://e/i"/>`, n) + `</e:p>` + rep(`<rdf:li>x</rdf:li>`, n) + `</rdf:Description></rdf:RDF>`)
		}},
		{"xmlbase-chain", func(n int) []byte {
			// absolute bases: a relative xml:base would make every IRI grow with the depth (quadratic *output*)
			return []byte(xmlHead + rep(`<rdf:Description xml:base="http://b/a/" rdf:about="x"><e:p>`, n) + `<rdf:Description rdf:ID="i"/>` + rep(`</e:p></rdf:Description>`, n) + `</rdf:RDF>`)
		}},
	},
	"ttl": {
		{"bnode-plist-chain", func(n int) []byte { return []byte(ttlHead + `:s :p ` + rep(`[ :p `, n) + `1` + rep(` ]`, n) + " .\n") }},
		{"collection-chain", func(n int) []byte { return []byte(ttlHead + `:s :p ` + rep(`( `, n) + `1` + rep(` )`, n) + " .\n") }},
		{"mixed-chain", func(n int) []byte {
			return []byte(ttlHead + `:s :p ` + rep(`[ :p ( `, n) + `1` + rep(` ) ]`, n) + " .\n")
		}},
		{"subject-collection-chain", func(n int) []byte { return []byte(ttlHead + rep(`( `, n) + rep(` )`, n) + " :p 1 .\n") }},
		{"unclosed", func(n int) []byte { return []byte(ttlHead + `:s :p ` + rep(`[ :p ( `, n)) }},
		{"wide-object-list", func(n int) []byte { return []byte(ttlHead + `:s :p 1` + rep(`, 1`, n) + rep(`; :q "x"`, n) + " .\n") }},
	},
	"html": {
		{"div-chain-rdfa", func(n int) []byte {
			return []byte(`<html><body vocab="http://v/">` + rep(`<div typeof="T" property="p">`, n) + `x` + rep(`</div>`, n) + `</body></html>`)
		}},
		{"div-chain-rel", func(n int) []byte {
			return []byte(`<html><body prefix="e: http://e/">` + rep(`<div rel="e:p"><span about="_:a">`, n) + `x` + rep(`</span></div>`, n) + `</body></html>`)
		}},
		{"itemscope-chain", func(n int) []byte {
			return []byte(`<html><body>` + rep(`<div itemprop="p" itemscope itemtype="http://schema.org/T">`, n) + `x` + rep(`</div>`, n) + `</body></html>`)
		}},
		{"itemref-fan", func(n int) []byte {
			var sb strings.Builder
			sb.WriteString(`<html><body><div itemscope itemref="`)
			for i := 0; i < n; i++ {
				fmt.Fprintf(&sb, "i%d ", i)
			}
			sb.WriteString(`">x</div>`)
			for i := 0; i < n; i++ {
				fmt.Fprintf(&sb, `<p id="i%d" itemprop="p" itemscope itemref="i%d">v</p>`, i, (i+1)%n)
			}
			sb.WriteString(`</body></html>`)
			return []byte(sb.String())
		}},
		{"inlist-wide", func(n int) []byte {
			return []byte(`<html><body vocab="http://v/" about="#s">` + rep(`<span property="p" inlist="">x</span>`, n) + `</body></html>`)
		}},
		{"unclosed-mixed", func(n int) []byte {
			return []byte(`<html><body>` + rep(`<div typeof="T" itemscope><table><tr><td><a rel="r" href="h">`, n))
		}},
		{"script-jsonld-deep", func(n int) []byte {
			return []byte(`<html><head><script type="application/ld+json">{"http://e/p":` + rep(`{"http://e/p":`, n) + `1` + rep(`}`, n) + `}</script></head></html>`)
		}},
		{"many-scripts", func(n int) []byte {
			return []byte(`<html><head>` + rep(`<script type="application/ld+json">{"@id":"http://e/s","http://e/p":1}</script>`, n) + `</head></html>`)
		}},
		{"pattern-copy-chain", func(n int) []byte {
			var sb strings.Builder
			sb.WriteString(`<html><body vocab="http://v/"><div typeof="T"><link property="rdfa:copy" href="#p0"/></div>`)
			for i := 0; i < n; i++ {
				fmt.Fprintf(&sb, `<div resource="#p%d" typeof="rdfa:Pattern"><link property="rdfa:copy" href="#p%d"/><span property="q">v</span></div>`, i, (i+1)%n)
			}
			sb.WriteString(`</body></html>`)
			return []byte(sb.String())
		}},
	},
}

const xmlHead = `<?xml version="1.0"?><rdf:RDF xmlns:rdf="http://www.w3.org/1999/02/22-rdf-syntax-ns#" xmlns:e="http://e/">`
const ttlHead = "@prefix : <http://e/> .\n"

func init() {
	nestGens["trig"] = append(append([]nestGen{}, nestGens["ttl"]...),
		nestGen{"graph-braces", func(n int) []byte { return []byte(ttlHead + rep(`{ `, n) + `:s :p 1` + rep(` }`, n)) }},
		nestGen{"graph-many", func(n int) []byte { return []byte(ttlHead + rep(":g { :s :p [ :q 1 ] } \n", n)) }})
	for _, f := range []string{"rdfa", "microdata", "htmljsonld"} {
		nestGens[f] = nestGens["html"]
	}
	nestGens["nt"] = []nestGen{{"many-lines", func(n int) []byte { return bytes.Repeat([]byte("<http://e/s> <http://e/p> \"x\" .\n"), n) }}}
	nestGens["nq"] = []nestGen{{"many-lines", func(n int) []byte { return bytes.Repeat([]byte("<http://e/s> <http://e/p> _:b <http://e/g> .\n"), n) }}}
}

// ---------------------------------------------------------------- huge tokens

type hugeGen struct {
	Name string
	F    func(size int) []byte
}

func big(c string, n int) string { return strings.Repeat(c, n/len(c)+1)[:n] }

var hugeGens = map[string][]hugeGen{
	"jsonld": {
		{"string-value", func(n int) []byte { return []byte(`{"http://e/p":"` + big("a", n) + `"}`) }},
		{"key", func(n int) []byte { return []byte(`{"http://e/` + big("k", n) + `":1}`) }},
		{"number", func(n int) []byte { return []byte(`{"http://e/p":` + big("9", n) + `}`) }},
		{"escapes", func(n int) []byte { return []byte(`{"http://e/p":"` + big(`\u00e9`, n) + `"}`) }},
		{"whitespace", func(n int) []byte { return []byte(`{` + big(" ", n) + `"http://e/p":1}`) }},
		{"id", func(n int) []byte { return []byte(`{"@id":"http://e/` + big("i", n) + `","http://e/p":1}`) }},
		{"language", func(n int) []byte {
			return []byte(`{"http://e/p":{"@value":"v","@language":"` + big("en-", n) + `x"}}`)
		}},
		{"unterminated-string", func(n int) []byte { return []byte(`{"http://e/p":"` + big("a", n)) }},
	},
	"rdfjson": {
		{"string-value", func(n int) []byte {
			return []byte(`{"http://e/s":{"http://e/p":[{"type":"literal","value":"` + big("a", n) + `"}]}}`)
		}},
		{"subject", func(n int) []byte {
			return []byte(`{"http://e/` + big("s", n) + `":{"http://e/p":[{"type":"uri","value":"http://e/o"}]}}`)
		}},
		{"bnode", func(n int) []byte {
			return []byte(`{"_:` + big("b", n) + `":{"http://e/p":[{"type":"bnode","value":"_:` + big("c", n) + `"}]}}`)
		}},
	},
	"rdfxml": {
		{"text", func(n int) []byte {
			return []byte(xmlHead + `<rdf:Description rdf:about="http://e/s"><e:p>` + big("t", n) + `</e:p></rdf:Description></rdf:RDF>`)
		}},
		{"attr", func(n int) []byte {
			return []byte(xmlHead + `<rdf:Description rdf:about="http://e/` + big("a", n) + `"><e:p>v</e:p></rdf:Description></rdf:RDF>`)
		}},
		{"name", func(n int) []byte {
			return []byte(xmlHead + `<rdf:Description rdf:about="http://e/s"><e:` + big("n", n) + `>v</e:` + big("n", n) + `></rdf:Description></rdf:RDF>`)
		}},
		{"comment", func(n int) []byte {
			return []byte(xmlHead + `<!--` + big("c", n) + `--><rdf:Description rdf:about="http://e/s"><e:p>v</e:p></rdf:Description></rdf:RDF>`)
		}},
		{"cdata", func(n int) []byte {
			return []byte(xmlHead + `<rdf:Description rdf:about="http://e/s"><e:p><![CDATA[` + big("]", n) + `]]></e:p></rdf:Description></rdf:RDF>`)
		}},
		{"xmlliteral", func(n int) []byte {
			return []byte(xmlHead + `<rdf:Description rdf:about="http://e/s"><e:p rdf:parseType="Literal">` + big("<b/>", n) + `</e:p></rdf:Description></rdf:RDF>`)
		}},
		{"entities", func(n int) []byte {
			return []byte(xmlHead + `<rdf:Description rdf:about="http://e/s"><e:p>` + big("&amp;", n) + `</e:p></rdf:Description></rdf:RDF>`)
		}},
	},
	"ttl": {
		{"iri", func(n int) []byte { return []byte(`<http://e/` + big("a", n) + `> <http://e/p> 1 .`) }},
		{"string", func(n int) []byte { return []byte(`<http://e/s> <http://e/p> "` + big("a", n) + `" .`) }},
		{"long-string", func(n int) []byte { return []byte(`<http://e/s> <http://e/p> """` + big("a\"\n", n) + `""" .`) }},
		{"pname", func(n int) []byte { return []byte(ttlHead + `:s :p :` + big("a.", n) + `a .`) }},
		{"bnode-label", func(n int) []byte { return []byte(`_:` + big("b.", n) + `b <http://e/p> 1 .`) }},
		{"number", func(n int) []byte { return []byte(`<http://e/s> <http://e/p> ` + big("1", n) + ` .`) }},
		{"comment", func(n int) []byte { return []byte(`#` + big("c", n) + "\n<http://e/s> <http://e/p> 1 .") }},
		{"whitespace", func(n int) []byte { return []byte(`<http://e/s>` + big(" \t\n", n) + `<http://e/p> 1 .`) }},
		{"langtag", func(n int) []byte { return []byte(`<http://e/s> <http://e/p> "x"@en` + big("-a", n) + ` .`) }},
		{"uchar", func(n int) []byte { return []byte(`<http://e/s> <http://e/p> "` + big(`\u00e9`, n) + `" .`) }},
	},
	"nt": {
		{"iri", func(n int) []byte { return []byte(`<http://e/` + big("a", n) + `> <http://e/p> <http://e/o> .` + "\n") }},
		{"string", func(n int) []byte { return []byte(`<http://e/s> <http://e/p> "` + big("a", n) + `" .` + "\n") }},
		{"bnode-label", func(n int) []byte { return []byte(`_:` + big("b.", n) + `b <http://e/p> <http://e/o> .` + "\n") }},
		{"comment", func(n int) []byte { return []byte(`#` + big("c", n) + "\n<http://e/s> <http://e/p> <http://e/o> .\n") }},
		{"langtag", func(n int) []byte { return []byte(`<http://e/s> <http://e/p> "x"@en` + big("-a", n) + " .\n") }},
		{"uchar", func(n int) []byte { return []byte(`<http://e/s> <http://e/p> "` + big(`\u00e9`, n) + "\" .\n") }},
	},
	"html": {
		{"text", func(n int) []byte {
			return []byte(`<html><body vocab="http://v/"><p property="p" itemscope><span itemprop="q">` + big("t", n) + `</span></p></body></html>`)
		}},
		{"attr", func(n int) []byte {
			return []byte(`<html><body vocab="http://v/"><p property="p" content="` + big("c", n) + `" itemscope itemid="http://e/` + big("i", n) + `">x</p></body></html>`)
		}},
		{"property-list", func(n int) []byte {
			return []byte(`<html><body vocab="http://v/"><p property="` + big("p ", n) + `" itemscope><span itemprop="` + big("q ", n) + `">x</span></p></body></html>`)
		}},
		{"prefix-list", func(n int) []byte {
			return []byte(`<html><body prefix="` + big("a: http://a/ ", n) + `"><p property="a:p">x</p></body></html>`)
		}},
		{"comment", func(n int) []byte {
			return []byte(`<html><!--` + big("c", n) + `--><body vocab="http://v/"><p property="p">x</p></body></html>`)
		}},
		{"script", func(n int) []byte {
			return []byte(`<html><head><script type="application/ld+json">{"http://e/p":"` + big("a", n) + `"}</script></head></html>`)
		}},
		{"tagname", func(n int) []byte {
			return []byte(`<html><body><` + big("x", n) + ` property="p" vocab="http://v/">v</body></html>`)
		}},
		{"xmlliteral", func(n int) []byte {
			return []byte(`<html><body vocab="http://v/" prefix="rdf: http://www.w3.org/1999/02/22-rdf-syntax-ns#"><p property="p" datatype="rdf:XMLLiteral">` + big("<b>x</b>", n) + `</p></body></html>`)
		}},
	},
}

func init() {
	hugeGens["trig"] = hugeGens["ttl"]
	hugeGens["nq"] = hugeGens["nt"]
	for _, f := range []string{"rdfa", "microdata", "htmljsonld"} {
		hugeGens[f] = hugeGens["html"]
	}
}
