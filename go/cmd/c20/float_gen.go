package main

// Generators of the C20F part: strings on the rounding / range / notation boundaries and float bit patterns.

import (
	"math"
	"math/big"
	"strconv"
	"strings"

	"verifharness/vh"
)

// exact decimal expansion of a rational with a power-of-two denominator
func ratDecimal(r *big.Rat) string {
	if r.IsInt() {
		return r.Num().String()
	}
	return strings.TrimRight(r.FloatString(1200), "0")
}

func nextUp(f float64, bits int) float64 {
	if bits == 32 {
		return float64(math.Nextafter32(float32(f), float32(math.Inf(1))))
	}
	return math.Nextafter(f, math.Inf(1))
}

func nextDown(f float64, bits int) float64 {
	if bits == 32 {
		return float64(math.Nextafter32(float32(f), float32(math.Inf(-1))))
	}
	return math.Nextafter(f, math.Inf(-1))
}

// a string at or next to the midpoint between two adjacent values of the type (ties-to-even and sticky digits)
func midpointString(r *vh.Rng, bits int) string {
	f := math.Abs(randFloat(r, bits))
	if bits == 32 {
		f = float64(float32(f))
	}
	g := nextUp(f, bits)
	if math.IsInf(g, 0) || math.IsInf(f, 0) {
		f, g = 1, nextUp(1, bits)
	}
	m := new(big.Rat).Add(new(big.Rat).SetFloat64(f), new(big.Rat).SetFloat64(g))
	m.Quo(m, big.NewRat(2, 1))
	s := ratDecimal(m)
	switch r.Intn(4) {
	case 0:
		return s
	case 1:
		if strings.Contains(s, ".") {
			return s + strings.Repeat("0", r.Intn(30)) + "1"
		}
		return s + "." + strings.Repeat("0", r.Intn(30)) + "1"
	case 2: // just below: decrement the last digit (never '0' after trimming; integers may end in 0)
		b := []byte(s)
		if c := b[len(b)-1]; c > '0' && c <= '9' {
			b[len(b)-1] = c - 1
			return string(b) + strings.Repeat("9", 1+r.Intn(25))
		}
		return s
	}
	return s + strings.Repeat("0", r.Intn(5))
}

var floatBoundaryCorpus = func() []string {
	c := []string{"+.5", ".5", "5.", "+5.", "-5.", "-.5", "-0", "+0", "-0.0", "-0.", "-.0", ".0", "0.", "00.00", "+00012.3400", "-00.50",
		"1000000000000000000000", "999999999999999999999", "1000000000000000000001", "10000000000000000000000", "100000000000000000000", "99999999999999999999.9999",
		"0.0000001", "0.000001", "0.00000009999999999999999", "0.1000000000000000055511151231257827021181583404541015625",
		"0.3", "0.30000000000000004", "0.1e0", "1.0", "1.00", "100.0", "1E2", "1.0E2", "12.5e-1", "9007199254740993", "9007199254740992.5", "9007199254740992.50000000000000000001",
		"9007199254740994.5", "9007199254740995", "16777217", "16777216.5", "16777217.0000001", "16777219",
		"123456789012345678901234567890.123456789012345678901234567890",
		strings.Repeat("9", 400), strings.Repeat("9", 308), strings.Repeat("9", 309), "1" + strings.Repeat("0", 308), "1" + strings.Repeat("0", 309), "-1" + strings.Repeat("0", 400),
		"0." + strings.Repeat("0", 400) + "1", "0." + strings.Repeat("0", 322) + "49", "0." + strings.Repeat("0", 323) + "2470328229206232720", "0." + strings.Repeat("0", 323) + "2470328229206232721",
		"0." + strings.Repeat("0", 323) + "3", "." + strings.Repeat("0", 44) + "7", "." + strings.Repeat("0", 45) + "7", "0." + strings.Repeat("0", 1200) + "1",
		strings.Repeat("0", 500) + "1." + strings.Repeat("0", 500), strings.Repeat("1234567890", 80), "1." + strings.Repeat("0123456789", 90),
		"179769313486231570814527423731704356798070567525844996598917476803157260780028538760589558632766878171540458953514382464234321326889464182768467546703537516986049910576551282076245490090389328944075868508455133942304583236903222948165808559332123348274797826204144723168738177180919299881250404026184124858368",
		"340282346638528859811704183484516925440", "340282356779733661637539395458142568447", "340282356779733661637539395458142568448",
		"INF", "-INF", "+INF", "NaN", "1e400", "1e-400", "1e310", "4.9e-324", "2.5e-324", "2.4e-324", "1e-45", "7.1e-46", "7.0e-46", "1e23", "8.41e21", "5e-324", "1.7976931348623157E308", "1.7976931348623159E308",
		"1e+0", "1e-0", "1E+007", "0e5", "-0e5", "0.0e-5", "1e0000000000000000000000000000000001", "10e-1", "0.000001e6"}
	return c
}()

var floatValueCorpus = func() []float64 {
	c := []float64{0, math.Copysign(0, -1), 1, -1, 0.5, 0.1, 0.2, 0.3, 1.5, 100, 123.456, 1e15, 1e16, 1e17, 1e20, 1e21, 1e22, 1e23, 1e-4, 1e-5, 1e-6, 1e-7, 1e-8,
		9.999999999999999e20, 1.0000000000000001e21, 9.999999999999999e-8, 9007199254740992, 9007199254740993, 9007199254740994, 4503599627370496, 4503599627370495.5,
		math.MaxFloat64, -math.MaxFloat64, math.SmallestNonzeroFloat64, 2 * math.SmallestNonzeroFloat64, 0x1p-1022, 0x1p-1022 - math.SmallestNonzeroFloat64, 0x1p-1021,
		math.MaxFloat32, math.SmallestNonzeroFloat32, 0x1p-126, 0x1p-126 - math.SmallestNonzeroFloat32, 16777216, 16777217, 8388608, 8388607.5,
		5e-324, 1.7976931348623157e308, 2.2250738585072014e-308, 2.225073858507201e-308, 8.41e21, 8.5e21, 1.8446744073709552e19, 3.4028234663852886e38,
		math.Inf(1), math.Inf(-1), math.NaN()}
	for e := -30; e <= 30; e++ {
		p := math.Pow(10, float64(e))
		c = append(c, p, math.Nextafter(p, 0), math.Nextafter(p, math.Inf(1)), -p)
	}
	return c
}()

func randValue(r *vh.Rng, bits int) (float64, string) {
	switch r.Intn(10) {
	case 0, 1, 2:
		if bits == 32 {
			return float64(math.Float32frombits(uint32(r.U64()))), "random-bits"
		}
		return math.Float64frombits(r.U64()), "random-bits"
	case 3: // subnormal
		if bits == 32 {
			return float64(math.Float32frombits(uint32(r.U64()) & 0x807fffff)), "subnormal"
		}
		return math.Float64frombits(r.U64() & 0x800fffffffffffff), "subnormal"
	case 4: // power of two and neighbours (asymmetric rounding interval)
		var p float64
		if bits == 32 {
			p = math.Ldexp(1, r.Intn(277)-149)
		} else {
			p = math.Ldexp(1, r.Intn(2098)-1074)
		}
		switch r.Intn(3) {
		case 0:
			return p, "power-of-two"
		case 1:
			return nextDown(p, bits), "power-of-two"
		}
		return nextUp(p, bits), "power-of-two"
	case 5: // short decimal
		f, _ := strconv.ParseFloat(strconv.Itoa(r.Intn(100000))+"e"+strconv.Itoa(r.Intn(60)-30), bits)
		if r.Bool() {
			f = -f
		}
		return f, "short-decimal"
	case 6: // integer
		return float64(r.U64() >> uint(11+r.Intn(53))), "integer"
	case 7: // power of ten and neighbours
		e := r.Intn(616) - 308
		if bits == 32 {
			e = r.Intn(76) - 38
		}
		p, _ := strconv.ParseFloat("1e"+strconv.Itoa(e), bits)
		switch r.Intn(3) {
		case 0:
			return p, "power-of-ten"
		case 1:
			return nextDown(p, bits), "power-of-ten"
		}
		return nextUp(p, bits), "power-of-ten"
	case 8: // top of the range
		if bits == 32 {
			return float64(math.Float32frombits(0x7f7fffff - uint32(r.Intn(1000)))), "extreme"
		}
		return math.Float64frombits(0x7fefffffffffffff - uint64(r.Intn(1000))), "extreme"
	}
	return vh.Pick(r, floatValueCorpus), "corpus"
}

func (h *fharness) generateFloat(fts []*xtype, n int) {
	r := h.r
	// fixed parts
	for _, t := range fts {
		for _, s := range floatCorpus {
			h.str(t, s, "corpus")
			h.str(t, " "+s+"\n", "corpus")
		}
		for _, s := range floatBoundaryCorpus {
			h.str(t, s, "corpus")
			h.str(t, "\t"+s+" ", "corpus")
		}
	}
	for _, s := range floatCorpus {
		h.strconvRound(s)
	}
	for _, s := range floatBoundaryCorpus {
		h.strconvRound(s)
	}
	for _, f := range floatValueCorpus {
		h.val(f, 64, "corpus")
		h.val(f, 32, "corpus")
	}
	// every power of two of both formats with its two neighbours: the only values whose rounding
	// interval is asymmetric
	for e := -1074; e <= 1023; e++ {
		p := math.Ldexp(1, e)
		h.val(p, 64, "power-of-two-all")
		if *tier == "thorough" {
			h.val(nextDown(p, 64), 64, "power-of-two-all")
			h.val(nextUp(p, 64), 64, "power-of-two-all")
		}
	}
	for e := -149; e <= 127; e++ {
		p := math.Ldexp(1, e)
		h.val(p, 32, "power-of-two-all")
		h.val(nextDown(p, 32), 32, "power-of-two-all")
		h.val(nextUp(p, 32), 32, "power-of-two-all")
	}
	h.rep.Exhaustive = append(h.rep.Exhaustive, "all 2098 float64 and 277 float32 powers of two (float32 and, at the thorough tier, float64 with both neighbours): shortest expansion, formatter, read-back")
	h.flush()

	for i := 0; i < n; i++ {
		t := fts[i%3]
		bits := ftBits(t)
		var s, origin string
		switch r.Intn(10) {
		case 0, 1, 2, 3:
			s, origin = genFloat(r, t).s, "grammar"
		case 4, 5:
			s, origin = midpointString(r, bits), "midpoint"
		case 6: // long digit strings
			s = vh.Pick(r, []string{"", "+", "-"}) + digitsN(r, r.Intn(60)) + "." + digitsN(r, r.Intn(60))
			if r.Chance(20) {
				s = digitsN(r, 1+r.Intn(700))
			}
			origin = "long"
		case 7: // the literal of a random value, decorated
			f, _ := randValue(r, bits)
			if f != f || math.IsInf(f, 0) {
				f = 1
			}
			s = strconv.FormatFloat(f, byte(vh.Pick(r, []rune{'f', 'e', 'E', 'g'})), -1, bits)
			origin = "formatted"
		default:
			s = string(r.Mutate([]byte(genFloat(r, t).s), []byte("0+-. 1eE_xXpINFa")))
			origin = "mutated"
		}
		if r.Chance(25) {
			s = wrapWs(r, s)
		}
		h.str(t, s, origin)
		if t.name != "decimal" && r.Chance(30) {
			h.str(typeByName("decimal"), s, origin)
		}
		if r.Chance(40) {
			h.strconvRound(refCollapse(s))
		}
		f, origin2 := randValue(r, bits)
		h.val(f, bits, origin2)
		if len(h.items) > 200000 {
			h.flush()
		}
	}
}
