/-
  Definitions used by the C03 / C04 theorems: table facts making the Go writers canonical,
  well-formedness of the input of the canonicalizer, admissible order parameters.
-/
import RdfModel.Model.Rdfcanon
import RdfModel.Spec.RDFC10
namespace RdfModel.C04
open RdfModel

variable {β : Type}

/-- The fact about the regenerated N-Quads tables (T1, UTF-8 mode) that makes `nquads.WriteLiteral`
    canonical: every code point is written exactly as canonical N-Quads prescribes.
    `Props/C04Tables.lean` proves it for the tables regenerated from /repo on this run. -/
structure TablesCanon (T : NQ.Tables) : Prop where
  lit : ∀ c, NQ.escLitRune T false c = Spec.RDFC10.escLitRune c

/-- Go's `WriteIRI` leaves every code point of `v` unescaped. For the regenerated tables this says:
    no code point of `v` is in U+0000–U+0020 or one of `< > " { } | ^ backquote \` — none of which an
    IRI may contain (`Props/C04Tables.lean: gen_iriRaw_iff`). -/
def IriRaw (T : NQ.Tables) (v : Str) : Prop := ∀ c ∈ v, lookup (T.iriEsc false) 0 c = 0

instance (T : NQ.Tables) (v : Str) : Decidable (IriRaw T v) := by unfold IriRaw; exact inferInstance

/-- Literal as the RDF abstract syntax has it: a language tag iff the datatype is rdf:langString. -/
def WFLit (T : NQ.Tables) (dt : Str) (lang : Option Str) : Prop :=
  IriRaw T dt ∧ (lang.isSome ↔ dt = rdfLangString)

def WFNode (T : NQ.Tables) : Term β → Prop
  | .iri v => IriRaw T v
  | .bnode _ => True
  | .lit .. => False

def WFObject (T : NQ.Tables) : Term β → Prop
  | .lit _ d t => WFLit T d t
  | t => WFNode T t

def WFPredicate (T : NQ.Tables) : Term β → Prop
  | .iri v => IriRaw T v
  | _ => False

/-- A quad the canonicalizer accepts (anything else makes Go panic) whose IRIs need no escaping. -/
structure WFQuad (T : NQ.Tables) (q : Quad β) : Prop where
  s : WFNode T q.s
  p : WFPredicate T q.p
  o : WFObject T q.o
  g : ∀ g, q.g = some g → WFNode T g

/-- An order parameter is admissible when it only reorders (Go's map iteration visits every key
    exactly once). -/
def OrdOK (ord : List β → List β) : Prop := ∀ l, (ord l).Perm l

/-- The specification's enumeration of permutations agrees with the Go permuter wherever Go does not
    give up: on every list whose Heap enumeration has at most `maxPerm` arrangements. -/
def PermsAgree [DecidableEq β] (maxPerm : Nat) (perms : List β → List (List β)) : Prop :=
  ∀ l, (Rdfcanon.heapPerms (maxPerm + 1) l).length ≤ maxPerm → perms l = Rdfcanon.heapPerms (maxPerm + 1) l

/-- What the specification returns for a model output. -/
def specView [DecidableEq β] (o : Rdfcanon.Out β) : Spec.RDFC10.Result β :=
  ⟨o.lines.map (·.encoded), o.issued⟩

end RdfModel.C04
