/-
  RdfModel.Spec.GraphIso — RDF graph / dataset isomorphism (RDF 1.1 Concepts §3.6, §4.1), for the
  triple and quad types of Model.Description, between two blank-node carriers.

  `Iso out inp`: there is a renaming `σ` of blank nodes that is injective (two distinct blank nodes are
  never merged) and a function (one blank node is never split), such that `out` is, as a multiset,
  exactly the image of `inp` (no triple dropped, none duplicated). IRIs and literals are fixed by
  `Triple.map`. Inputs are lists; on duplicate-free lists (sets) this is graph isomorphism, and on
  lists with repetitions it additionally preserves multiplicities.
  `σ` is required injective on the whole carrier, which is stronger than injective on the nodes that occur.
-/
import RdfModel.Model.Description
namespace RdfModel.Spec
open RdfModel RdfModel.Desc

def Iso {β γ : Type} (out : List (Triple γ)) (inp : List (Triple β)) : Prop :=
  ∃ σ : β → γ, Function.Injective σ ∧ out.Perm (inp.map (Triple.map σ))

/-- dataset isomorphism: graph names are renamed by the same `σ` -/
def IsoQ {β γ : Type} (out : List (DQuad γ)) (inp : List (DQuad β)) : Prop :=
  ∃ σ : β → γ, Function.Injective σ ∧ out.Perm (inp.map (DQuad.map σ))

end RdfModel.Spec
