/-
  C19: final assembly of the helper lemmas (imported by Props/C19.lean).
-/
import RdfModel.Proofs.C19Refine
import RdfModel.Proofs.C19Match
namespace RdfModel.Proofs.C19
open RdfModel.DS RdfModel.C19
open RdfModel.Spec

theorem refines_set (ops : List POp) (hwf : ∀ op ∈ ops, op.WF) :
    (abs (run init (ops.map POp.toOp)).1).Perm (QuadSet.run [] (ops.map POp.spec)).1 ∧
    (abs (run init (ops.map POp.toOp)).1).Nodup ∧
    OutsAgree (run init (ops.map POp.toOp)).2 (QuadSet.run [] (ops.map POp.spec)).2 := by
  obtain ⟨hr, ho⟩ := run_refines ops hwf init [] rel_init
  exact ⟨hr.perm, nodup_abs hr.1, ho⟩

theorem nodup_iterQuads {s : State} (h : Reachable s) (ms : List QM) : (iterQuads s ms).Nodup := by
  rw [iterQuads_eq]
  exact List.Pairwise.filter _ (nodup_abs (inv_of_reachable h))

theorem nodup_viewTriples {s : State} (h : Reachable s) (g : Option Term) (ms : List TrM) :
    (viewTriples (ensureGraph s g) g ms).Nodup := by
  have hi := inv_of_reachable h
  rw [viewTriples_eq hi.gkeys]
  apply List.Pairwise.filter
  rw [List.pairwise_map]
  have hnd : ((abs s).filter (fun q => decide (q.g = g))).Nodup := List.Pairwise.filter _ (nodup_abs hi)
  refine List.Pairwise.imp_of_mem ?_ hnd
  intro a b ha hb hab heq
  apply hab
  have ga : a.g = g := by simpa using (List.mem_filter.1 ha).2
  have gb : b.g = g := by simpa using (List.mem_filter.1 hb).2
  obtain ⟨as, ap, ao, ag⟩ := a
  obtain ⟨bs, bp, bo, bg⟩ := b
  simp only [Quad.triple, Triple.mk.injEq] at heq
  simp only at ga gb
  simp [heq, ga, gb]

theorem ensureGraph_idem (s : State) (g : Option Term) : ensureGraph (ensureGraph s g) g = ensureGraph s g := by
  obtain ⟨G, hG⟩ := ensureGraph_has s g
  generalize ensureGraph s g = s' at hG ⊢
  unfold ensureGraph
  rw [hG]

theorem viewAdd_eq (s : State) (g : Option Term) (t : TripleIn) :
    step s (.viewAdd g t) = step s (.addQuad (t.asQuad g)) := by
  simp only [step, addQuad]
  have : (t.asQuad g).g = g := rfl
  rw [this, ensureGraph_idem]

theorem viewDelete_eq (s : State) (g : Option Term) (t : TripleIn) :
    step s (.viewDelete g t) = step s (.deleteQuad (t.asQuad g)) := by
  simp only [step, deleteQuad]
  have : (t.asQuad g).g = g := rfl
  rw [this, ensureGraph_idem]

theorem viewHas_eq {s : State} (h : Reachable s) (g : Option Term) (t : Triple)
    (hg : WFGraphName g) (ht : WFTriple t) :
    (step s (.viewHas g (tripleIn t))).2 = (step s (.hasQuad (t.asQuad g).toIn)).2 ∧
    abs (step s (.viewHas g (tripleIn t))).1 = abs (step s (.hasQuad (t.asQuad g).toIn)).1 := by
  have hi := inv_of_reachable h
  have hq := wf_asQuad hg ht
  obtain ⟨_, a1, o1⟩ := hasQuad_spec s (t.asQuad g) hi hq
  obtain ⟨_, a2, o2⟩ := hasQuad_spec (ensureGraph s g) (t.asQuad g) (ensureGraph_inv s g hi hg) hq
  simp only [step, asQuad_toIn]
  rw [o1, o2, a1, a2, abs_ensureGraph]
  exact ⟨rfl, rfl⟩

theorem delete_absent {s : State} (h : Reachable s) (q : Quad) (hq : WFQuad q) (hn : q ∉ abs s) :
    abs (deleteQuad s q.toIn).1 = abs s ∧ (deleteQuad s q.toIn).2 = .unit := by
  obtain ⟨_, ho, _, ha⟩ := deleteQuad_spec s q (inv_of_reachable h) hq
  exact ⟨ha hn, ho⟩

theorem has_eq {s : State} (h : Reachable s) (q : Quad) (hq : WFQuad q) :
    (hasQuad s q.toIn).2 = .bool (decide (q ∈ abs s)) :=
  (hasQuad_spec s q (inv_of_reachable h) hq).2.2

theorem reachable_step {s : State} (h : Reachable s) (op : POp) (hop : op.WF) : Reachable (step s op.toOp).1 := by
  obtain ⟨ops, hwf, rfl⟩ := h
  refine ⟨ops ++ [op], ?_, ?_⟩
  · intro o ho
    rcases List.mem_append.1 ho with h1 | h1
    · exact hwf o h1
    · simp at h1; subst h1; exact hop
  · have key : ∀ (l : List Op) (s0 : State) (o : Op), (run s0 (l ++ [o])).1 = (step (run s0 l).1 o).1 := by
      intro l
      induction l with
      | nil => intro s0 o; simp [run]
      | cons a l ih => intro s0 o; simp only [List.cons_append, run]; exact ih _ o
    rw [List.map_append, List.map_singleton, key]

theorem equals_matches_iff (u : Term) (hu : WFTerm u) (t : Option Term) :
    (TM.equals u).matches t = true ↔ t = some u := by
  simp only [TM.matches]
  apply termEquals_iff
  intro id h; subst h; exact hu

theorem equalsOneOf_matches_iff (ts : List Term) (hts : ∀ u ∈ ts, WFTerm u) (t : Option Term) :
    (equalsOneOf (ts.map some)).matches t = true ↔ ∃ u ∈ ts, t = some u := by
  rw [equalsOneOf_spec, List.any_eq_true]
  constructor
  · rintro ⟨ou, hm, he⟩
    obtain ⟨u, hu, rfl⟩ := List.mem_map.1 hm
    simp only [termEquals_true_iff] at he
    exact ⟨u, hu, he.1⟩
  · rintro ⟨u, hu, rfl⟩
    refine ⟨some u, List.mem_map_of_mem hu, ?_⟩
    simp only [termEquals_true_iff, true_and]
    intro id h; subst h; exact hts _ hu

end RdfModel.Proofs.C19
